package grpc

// C24 (L1 part): toRPCErr is total over an error grammar: the result is nil,
// io.EOF, or an error carrying a legal gRPC status; and it is idempotent.

import (
	"context"
	"errors"
	"fmt"
	"io"
	"testing"

	"google.golang.org/grpc/codes"
	"google.golang.org/grpc/internal/transport"
	"google.golang.org/grpc/internal/verifkit/vk"
	"google.golang.org/grpc/status"
	"pgregory.net/rapid"
)

type vfC24ErrPlan struct {
	Base  string `json:"base"` // nil | eof | ueof | canceled | deadline | plain | status | connerr | newstream
	Code  int    `json:"code,omitempty"`
	Wraps int    `json:"wraps"` // number of fmt.Errorf("%w") layers around the base
	Inner string `json:"inner,omitempty"`
}

func vfC24Build(p vfC24ErrPlan) error {
	var err error
	switch p.Base {
	case "nil":
		return nil
	case "eof":
		err = io.EOF
	case "ueof":
		err = io.ErrUnexpectedEOF
	case "canceled":
		err = context.Canceled
	case "deadline":
		err = context.DeadlineExceeded
	case "plain":
		err = errors.New("vf plain")
	case "status":
		err = status.Error(codes.Code(p.Code), "vf status")
	case "connerr":
		err = transport.ConnectionError{Desc: "vf conn error"}
	case "newstream":
		err = &transport.NewStreamError{Err: vfC24Build(vfC24ErrPlan{Base: p.Inner, Code: p.Code})}
	}
	for i := 0; i < p.Wraps; i++ {
		err = fmt.Errorf("wrap%d: %w", i, err)
	}
	return err
}

// vfC24CheckRPCError mirrors e2elife.CheckRPCError (that kit package imports
// grpc and cannot be used from inside package grpc).
func vfC24CheckRPCError(err error) string {
	st, ok := status.FromError(err)
	if !ok || st == nil {
		return fmt.Sprintf("error %T %q does not carry a gRPC status", err, err.Error())
	}
	if c := st.Code(); c == codes.OK || uint32(c) > uint32(codes.Unauthenticated) {
		return fmt.Sprintf("error %q carries illegal status code %d", err.Error(), uint32(c))
	}
	return ""
}

func vfC24Run(_ *testing.T, p vfC24ErrPlan) vk.Result {
	in := vfC24Build(p)
	out := toRPCErr(in)
	res := vk.Result{NonTrivial: p.Wraps > 0 || p.Base == "newstream", Classes: []string{"base_" + p.Base, fmt.Sprintf("wraps_%d", p.Wraps)}}
	if in == nil {
		if out != nil {
			return vk.Bad("toRPCErr(nil) = %v", out)
		}
		return res
	}
	if out == nil {
		return vk.Bad("toRPCErr(%v) = nil", in)
	}
	if out == io.EOF {
		// only the bare io.EOF (possibly inside a NewStreamError) is the end-of-stream signal
		if in == io.EOF || (p.Base == "newstream" && p.Inner == "eof" && p.Wraps == 0) {
			res.Classes = append(res.Classes, "eof_kept")
			return res
		}
		return vk.Bad("toRPCErr(%#v) = io.EOF", in)
	}
	if m := vfC24CheckRPCError(out); m != "" {
		return vk.Bad("toRPCErr(%T %q): %s", in, in.Error(), m)
	}
	again := toRPCErr(out)
	if status.Code(again) != status.Code(out) || again.Error() != out.Error() {
		return vk.Bad("toRPCErr not idempotent on %q: %q -> %q", in.Error(), out.Error(), again.Error())
	}
	return res
}

func TestVerifC24ToRPCErr(t *testing.T) {
	vk.Check(t, vk.Unit[vfC24ErrPlan]{
		ID: "C24", Name: "torpcerr",
		Rule: "error grammar: base in {nil, io.EOF, io.ErrUnexpectedEOF, context.Canceled, context.DeadlineExceeded, plain, status(1..16), transport.ConnectionError, *transport.NewStreamError(inner)} wrapped in 0-3 fmt.Errorf(%w) layers; non-trivial = wrapped or NewStreamError",
		Gen: func(rt *rapid.T) vfC24ErrPlan {
			bases := []string{"nil", "eof", "ueof", "canceled", "deadline", "plain", "status", "connerr", "newstream"}
			p := vfC24ErrPlan{Base: rapid.SampledFrom(bases).Draw(rt, "base"), Code: rapid.IntRange(1, 16).Draw(rt, "code"), Wraps: rapid.IntRange(0, 3).Draw(rt, "wraps")}
			if p.Base == "newstream" {
				p.Inner = rapid.SampledFrom(bases[1:8]).Draw(rt, "inner")
			}
			return p
		},
		Run: vfC24Run,
	})
}
