package grpc

// C30 (WaitForStateChange / GetState half, schedule-controlled): real
// connectivityStateManager behind ClientConn.WaitForStateChange / GetState;
// publishers (updateState) and waiters are cooperative workers interleaved at
// the csm.* verifhook points (entry of updateState / getState / getNotifyChan)
// by the plan's schedule, so a publication can be placed between any two of
// the manager calls a waiter makes.
//
// Oracles (model = the list of states the harness itself published):
//   - at every quiescent point GetState() == the model's current state
//     (nothing leaves SHUTDOWN, an equal state is no change);
//   - a waiter that is durably blocked inside WaitForStateChange(src) at a
//     quiescent point is legal only if the current state == src and no state
//     change was published since it blocked (a change after it blocked must
//     wake it, even if the state came back to src: ABA);
//   - WaitForStateChange returns false only if its context was cancelled;
//   - after everything ran, no waiter is still blocked unless the state never
//     differed from its source since it blocked.

import (
	"context"
	"fmt"
	"sort"
	"testing"

	"google.golang.org/grpc/connectivity"
	"google.golang.org/grpc/internal/channelz"
	"google.golang.org/grpc/internal/verifkit/sched"
	"google.golang.org/grpc/internal/verifkit/vk"
	"pgregory.net/rapid"
)

type vfC30WWaiter struct {
	Srcs   []int `json:"srcs"`   // per call: source state 0..4, or -1 = whatever GetState() returns right before the call
	Cancel bool  `json:"cancel"` // a canceller worker cancels this waiter's context when the schedule picks it
}

type vfC30WPlan struct {
	Init    int            `json:"init"` // state published before any worker starts (0 = leave IDLE)
	Pubs    [][]int        `json:"pubs"` // per publisher: states to publish in order (0..4; 4 = SHUTDOWN)
	Waiters []vfC30WWaiter `json:"waiters"`
	Sched   []int          `json:"sched"`
}

func vfC30WGen(rt *rapid.T) vfC30WPlan {
	p := vfC30WPlan{Init: sched.Uniform(rt, "init", 0, 3)}
	np := sched.Uniform(rt, "npubs", 1, 2)
	for i := 0; i < np; i++ {
		n := sched.Uniform(rt, "npub", 1, vk.Pick(5, 10))
		var seq []int
		for j := 0; j < n; j++ {
			s := sched.Uniform(rt, "st", 0, 3)
			if sched.Uniform(rt, "shut", 0, 24) == 0 {
				s = 4
			}
			seq = append(seq, s)
		}
		p.Pubs = append(p.Pubs, seq)
	}
	nw := sched.Uniform(rt, "nwaiters", 1, 3)
	for i := 0; i < nw; i++ {
		w := vfC30WWaiter{Cancel: sched.Uniform(rt, "cancel", 0, 5) == 0}
		n := sched.Uniform(rt, "ncalls", 1, vk.Pick(3, 6))
		for j := 0; j < n; j++ {
			s := -1
			if sched.Uniform(rt, "explicit", 0, 2) == 0 {
				s = sched.Uniform(rt, "src", 0, 4)
			}
			w.Srcs = append(w.Srcs, s)
		}
		p.Waiters = append(p.Waiters, w)
	}
	p.Sched = sched.GenSchedule(rt, "sched", vk.Pick(80, 200), 8, 3)
	return p
}

type vfC30WCall struct {
	src          connectivity.State
	active       bool // between "about to call" and "returned"
	blockedKnown bool
	blockedAtVer int // model version when the controller first saw the worker durably blocked in this call
	beganAtVer   int
}

func vfC30WRun(t *testing.T, p vfC30WPlan) vk.Result {
	if len(p.Pubs) == 0 || len(p.Pubs) > 4 || len(p.Waiters) == 0 || len(p.Waiters) > 8 || p.Init < 0 || p.Init > 3 {
		return vk.Result{Discard: true}
	}
	for _, s := range p.Pubs {
		for _, v := range s {
			if v < 0 || v > 4 {
				return vk.Result{Discard: true}
			}
		}
	}
	for _, w := range p.Waiters {
		if len(w.Srcs) == 0 {
			return vk.Result{Discard: true}
		}
		for _, v := range w.Srcs {
			if v < -1 || v > 4 {
				return vk.Result{Discard: true}
			}
		}
	}
	var res vk.Result
	msg := vk.Bubble(t, func(t *testing.T) { res = vfC30WExec(p) })
	if res.Violation == "" && msg != "" {
		return vk.Bad("bubble did not drain: %s", msg)
	}
	return res
}

func vfC30WExec(p vfC30WPlan) vk.Result {
	ctx, cancelAll := context.WithCancel(context.Background())
	czc := channelz.RegisterChannel(nil, "vfc30w")
	defer channelz.RemoveEntry(czc.ID)
	cc := &ClientConn{}
	cc.csMgr = newConnectivityStateManager(ctx, czc)

	// Model: written only by the single running worker / the controller.
	cur := connectivity.Idle
	ver := 0
	publishModel := func(s connectivity.State) {
		if cur == connectivity.Shutdown || cur == s {
			return
		}
		cur = s
		ver++
	}
	if p.Init != 0 {
		cc.csMgr.updateState(connectivity.State(p.Init))
		publishModel(connectivity.State(p.Init))
	}

	c := sched.New(p.Sched)
	defer c.Close()
	nW := len(p.Waiters)
	calls := make([]vfC30WCall, nW)
	wctx := make([]context.Context, nW)
	wcancel := make([]context.CancelFunc, nW)
	cancelled := make([]bool, nW)
	var findings []string
	defer func() {
		cancelAll()
		for _, f := range wcancel {
			f()
		}
		c.Kill()
	}()

	const pubBase, waitBase, cancBase = 0, 10, 20
	for i, seq := range p.Pubs {
		seq := seq
		c.Go(pubBase+i, func() {
			for _, s := range seq {
				c.Yield("op")
				cc.csMgr.updateState(connectivity.State(s))
				publishModel(connectivity.State(s))
			}
		})
	}
	for i := range p.Waiters {
		i := i
		wctx[i], wcancel[i] = context.WithCancel(ctx)
		c.Go(waitBase+i, func() {
			for _, s := range p.Waiters[i].Srcs {
				c.Yield("op")
				src := connectivity.State(s)
				if s < 0 {
					src = cc.GetState()
				}
				calls[i] = vfC30WCall{src: src, active: true, beganAtVer: ver}
				ok := cc.WaitForStateChange(wctx[i], src)
				calls[i].active = false
				if !ok {
					if !cancelled[i] {
						findings = append(findings, fmt.Sprintf("waiter %d: WaitForStateChange(%v) returned false although its context was not cancelled", i, src))
					}
					return
				}
			}
		})
		if p.Waiters[i].Cancel {
			c.Go(cancBase+i, func() {
				c.Yield("op")
				cancelled[i] = true
				wcancel[i]()
			})
		}
	}

	classes := map[string]bool{}
	steps := 0
	finish := func(r vk.Result) vk.Result {
		for k := range classes {
			r.Classes = append(r.Classes, k)
		}
		sort.Strings(r.Classes)
		r.Steps = steps
		return r
	}
	// check evaluates the oracles at a quiescent point.
	check := func(where string) string {
		if got := cc.GetState(); got != cur {
			return fmt.Sprintf("%s: GetState() = %v, most recently published state is %v", where, got, cur)
		}
		if len(findings) > 0 {
			return where + ": " + findings[0]
		}
		for i := range calls {
			cl := &calls[i]
			st, _ := c.State(waitBase + i)
			if !cl.active || st != sched.Running {
				continue
			}
			// durably blocked inside WaitForStateChange
			if cancelled[i] {
				return fmt.Sprintf("%s: waiter %d still blocked in WaitForStateChange(%v) after its context was cancelled", where, i, cl.src)
			}
			if cur != cl.src {
				return fmt.Sprintf("%s: waiter %d blocked in WaitForStateChange(%v) while the state is %v (call began at version %d, now %d)", where, i, cl.src, cur, cl.beganAtVer, ver)
			}
			if !cl.blockedKnown {
				cl.blockedKnown, cl.blockedAtVer = true, ver
				classes["waiter_blocked"] = true
			} else if ver != cl.blockedAtVer {
				return fmt.Sprintf("%s: waiter %d still blocked in WaitForStateChange(%v) although %d state change(s) were published after it blocked (state is %v again)", where, i, cl.src, ver-cl.blockedAtVer, cur)
			}
		}
		return ""
	}

	for {
		// who sits inside a WaitForStateChange window right now?
		inWindow := 0
		for i := range calls {
			if st, pt := c.State(waitBase + i); st == sched.Parked && calls[i].active && (pt == "csm.getState.begin" || pt == "csm.getNotifyChan.begin") {
				inWindow++
			}
		}
		v0 := ver
		st := c.Step()
		switch st.Kind {
		case sched.Released:
			steps++
			if st.Point == "csm.updateState.begin" && ver != v0 && inWindow > 0 {
				classes["publication_inside_wait_window"] = true
			}
			if cur == connectivity.Shutdown {
				classes["shutdown_published"] = true
			}
			if m := check(fmt.Sprintf("after step %d (worker %d @ %s)", steps, st.Worker, st.Point)); m != "" {
				return finish(vk.Bad("%s", m))
			}
			continue
		case sched.Panicked:
			return finish(vk.Bad("panic: %s", st.Panic))
		case sched.Overrun:
			return finish(vk.Bad("harness: step limit exceeded"))
		case sched.Stuck:
			if m := check("at the end (nobody can move)"); m != "" {
				return finish(vk.Bad("%s", m))
			}
			classes["waiter_blocked_at_end"] = true
			// legitimately blocked waiters: release them through their contexts
			for _, id := range st.Blocked {
				if id >= waitBase && id < cancBase {
					cancelled[id-waitBase] = true
					wcancel[id-waitBase]()
				}
			}
			continue
		case sched.Done:
		}
		break
	}
	if m := check("final"); m != "" {
		return finish(vk.Bad("%s", m))
	}
	for i := range cancelled {
		if cancelled[i] {
			classes["ctx_cancelled"] = true
		}
	}
	return finish(vk.Result{NonTrivial: classes["publication_inside_wait_window"]})
}

func TestVerifC30WaitSched(t *testing.T) {
	vk.Check(t, vk.Unit[vfC30WPlan]{
		ID: "C30", Name: "waitsched",
		Rule: "real connectivityStateManager behind ClientConn.WaitForStateChange/GetState: 1-2 publishers calling updateState with 1-10 generated states each (incl. repeated states and SHUTDOWN), 1-3 waiters making 1-6 WaitForStateChange calls each (source = GetState() just before the call, or an arbitrary state), optional cancellation of a waiter's context; all interleaved by a generated schedule at the entry of updateState/getState/getNotifyChan (verifhook points) and at operation starts; oracle = model of published states (GetState == model at every quiescent point; a durably blocked waiter needs state == source and no publication since it blocked; false only after cancellation). non-trivial = a publication that changed the state ran while a waiter was between entering WaitForStateChange and blocking (parked at getNotifyChan/getState)",
		Gen:  vfC30WGen, Run: vfC30WRun,
	})
}
