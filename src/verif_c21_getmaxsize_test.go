package grpc

// C21 (L1): exhaustive table for the unexported getMaxSize / minPointers:
// smaller of the two when both are set, the one that is set when only one is,
// the default only when neither is set; the inputs are not modified.

import (
	"math"
	"strconv"
	"testing"

	"google.golang.org/grpc/internal/verifkit/vk"
)

type vfC21Plan struct {
	MC   *int `json:"mc"`
	Dopt *int `json:"dopt"`
	Def  int  `json:"def"`
}

func vfC21Run(_ *testing.T, p vfC21Plan) vk.Result {
	var mc, dopt *int
	var mcCopy, doptCopy int
	if p.MC != nil {
		mcCopy = *p.MC
		mc = &mcCopy
	}
	if p.Dopt != nil {
		doptCopy = *p.Dopt
		dopt = &doptCopy
	}
	got := getMaxSize(mc, dopt, p.Def)
	if got == nil {
		return vk.Bad("getMaxSize(%v,%v,%d) = nil", p.MC, p.Dopt, p.Def)
	}
	var want int
	switch {
	case p.MC == nil && p.Dopt == nil:
		want = p.Def
	case p.MC == nil:
		want = *p.Dopt
	case p.Dopt == nil:
		want = *p.MC
	default:
		want = *p.MC
		if *p.Dopt < want {
			want = *p.Dopt
		}
	}
	if *got != want {
		return vk.Bad("getMaxSize(mc=%s, dopt=%s, def=%d) = %d, want %d", vfC21Show(p.MC), vfC21Show(p.Dopt), p.Def, *got, want)
	}
	if (p.MC != nil && mcCopy != *p.MC) || (p.Dopt != nil && doptCopy != *p.Dopt) {
		return vk.Bad("getMaxSize modified its inputs")
	}
	cls := "neither"
	switch {
	case p.MC != nil && p.Dopt != nil:
		cls = "both"
	case p.MC != nil:
		cls = "sc_only"
	case p.Dopt != nil:
		cls = "opt_only"
	}
	return vk.OK(p.MC != nil && p.Dopt != nil, cls)
}

func vfC21Show(p *int) string {
	if p == nil {
		return "nil"
	}
	return strconv.Itoa(*p)
}

func TestVerifC21GetMaxSize(t *testing.T) {
	vals := []int{0, 1, 2, 4095, 4096, 4097, 4 << 20, math.MaxInt32 - 1, math.MaxInt32, math.MaxInt32 + 1, math.MaxInt - 1, math.MaxInt}
	var ptrs []*int
	ptrs = append(ptrs, nil)
	for i := range vals {
		ptrs = append(ptrs, &vals[i])
	}
	var plans []vfC21Plan
	for _, mc := range ptrs {
		for _, d := range ptrs {
			for _, def := range []int{0, 4 << 20, math.MaxInt32} {
				plans = append(plans, vfC21Plan{MC: mc, Dopt: d, Def: def})
			}
		}
	}
	vk.Enumerate(t, vk.Unit[vfC21Plan]{
		ID: "C21", Name: "getmaxsize",
		Rule: "exhaustive table {nil, 0, 1, 2, 4095, 4096, 4097, 4MiB, MaxInt32-1, MaxInt32, MaxInt32+1, MaxInt-1, MaxInt}^2 x 3 defaults for getMaxSize; non-trivial = both limits set",
		Run:  vfC21Run,
	}, plans)
}
