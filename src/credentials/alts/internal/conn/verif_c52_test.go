package conn

// C52: ALTS records round-trip exactly and tampering is always detected.
//
// Units (all in-package, single goroutine, no clocks):
//
//	roundtrip    two conns (client/server) over an in-memory pipe that re-segments
//	             the ciphertext per plan; both directions; both record protocols
//	counter      out/in counters placed just below a byte boundary / the overflow
//	             point; exact nonce sequence vs a math/big reference
//	tamper       one generated fault (flip/delete/insert byte, drop/dup/swap/
//	             reflect record, truncate) on a generated stream
//	tamper_enum  the same executor over an explicit table: every byte position of
//	             small records, every record-level fault
//	reader       arbitrary multi-edit garbage / native fuzz on the reader's input
//
// The oracles never use the package's own parser: records are cut from the wire
// by vfC52Parse (4-byte little-endian length prefix) and plaintext is compared
// with a position-addressable pseudo random stream derived from the plan seed.

import (
	"bytes"
	"crypto/cipher"
	"encoding/binary"
	"fmt"
	"io"
	"math/big"
	"net"
	"os"
	"strconv"
	"sync"
	"testing"

	core "google.golang.org/grpc/credentials/alts/internal"
	"google.golang.org/grpc/internal/verifkit/vk"
	"pgregory.net/rapid"
)

const (
	vfC52ProtoGCM   = "VFC52_GCM_AES128"
	vfC52ProtoRekey = "VFC52_GCM_AES128_REKEY"
	vfC52TagLen     = 16
	vfC52HdrLen     = 8 // length field + type field
	vfC52MinFrame   = 4096
	vfC52MaxFrame   = 512 * 1024
	vfC52WriteBuf   = 512 * 1024
)

func init() {
	if err := RegisterProtocol(vfC52ProtoGCM, NewAES128GCM); err != nil {
		panic(err)
	}
	if err := RegisterProtocol(vfC52ProtoRekey, NewAES128GCMRekey); err != nil {
		panic(err)
	}
}

func vfC52Proto(i int) (name string, keyLen, ovfLen int) {
	if i%2 == 0 {
		return vfC52ProtoGCM, 16, 5
	}
	return vfC52ProtoRekey, 44, 8
}

func vfC52Mix(x uint64) uint64 {
	x += 0x9e3779b97f4a7c15
	x = (x ^ (x >> 30)) * 0xbf58476d1ce4e5b9
	x = (x ^ (x >> 27)) * 0x94d049bb133111eb
	return x ^ (x >> 31)
}

// vfC52Stream returns bytes [off, off+n) of the pseudo random stream `seed`.
func vfC52Stream(seed uint64, off, n int) []byte {
	out := make([]byte, n)
	i := 0
	for i < n {
		j := off + i
		w := vfC52Mix(seed*0x2545f4914f6cdd1d + uint64(j>>3))
		for k := j & 7; k < 8 && i < n; k++ {
			out[i] = byte(w >> (8 * uint(k)))
			i++
		}
	}
	return out
}

func vfC52Key(seed uint64, n int) []byte { return vfC52Stream(seed^0x6b65795f6b6579, 0, n) }

// ---------------------------------------------------------------- pipe

// vfC52Pipe is one direction of the in-memory network. Writes append to wire;
// reads deliver at most the next planned segment size.
type vfC52Pipe struct {
	wire      []byte
	rd        int
	segs      []int
	segIdx    int
	deliv     []int // cumulative end offsets of delivered segments
	zeroReads int
	writes    []int // size of each underlying Write call
}

func (p *vfC52Pipe) write(b []byte) (int, error) {
	p.wire = append(p.wire, b...)
	p.writes = append(p.writes, len(b))
	return len(b), nil
}

func (p *vfC52Pipe) read(b []byte) (int, error) {
	if len(b) == 0 {
		p.zeroReads++
		return 0, fmt.Errorf("vfC52: zero-length read from the network")
	}
	if p.rd >= len(p.wire) {
		return 0, io.EOF
	}
	n := 1 << 30
	if len(p.segs) > 0 {
		n = p.segs[p.segIdx%len(p.segs)]
		p.segIdx++
	}
	if n < 1 {
		n = 1
	}
	n = min(n, len(b), len(p.wire)-p.rd)
	copy(b, p.wire[p.rd:p.rd+n])
	p.rd += n
	p.deliv = append(p.deliv, p.rd)
	return n, nil
}

type vfC52End struct {
	net.Conn
	in, out *vfC52Pipe
}

func (e *vfC52End) Read(b []byte) (int, error)  { return e.in.read(b) }
func (e *vfC52End) Write(b []byte) (int, error) { return e.out.write(b) }
func (e *vfC52End) Close() error                { return nil }

// ---------------------------------------------------------------- independent record parser

type vfC52Rec struct{ off, end int }

func (r vfC52Rec) payload() int { return r.end - r.off - vfC52HdrLen - vfC52TagLen }

// vfC52Parse cuts wire into records using only the 4-byte LE length prefix.
// rest is the number of trailing bytes that do not form a complete record.
func vfC52Parse(wire []byte) (recs []vfC52Rec, rest int) {
	off := 0
	for len(wire)-off >= 4 {
		l := int(binary.LittleEndian.Uint32(wire[off:]))
		if l > len(wire)-off-4 {
			break
		}
		recs = append(recs, vfC52Rec{off, off + 4 + l})
		off += 4 + l
	}
	return recs, len(wire) - off
}

// vfC52CheckWire asserts the framing part of the property for a genuine stream.
func vfC52CheckWire(wire []byte, limit, plaintext int) (recs []vfC52Rec, bad string) {
	recs, rest := vfC52Parse(wire)
	if rest != 0 {
		return recs, fmt.Sprintf("wire does not end on a record boundary: %d trailing bytes", rest)
	}
	sum := 0
	for i, r := range recs {
		if r.end-r.off > limit {
			return recs, fmt.Sprintf("record %d occupies %d bytes on the wire, frame limit is %d", i, r.end-r.off, limit)
		}
		if r.end-r.off < vfC52HdrLen+vfC52TagLen {
			return recs, fmt.Sprintf("record %d is %d bytes, shorter than header+tag", i, r.end-r.off)
		}
		if typ := binary.LittleEndian.Uint32(wire[r.off+4:]); typ != 6 {
			return recs, fmt.Sprintf("record %d has message type %#x, want 6", i, typ)
		}
		sum += r.payload()
	}
	if sum != plaintext {
		return recs, fmt.Sprintf("records carry %d payload bytes, %d were written", sum, plaintext)
	}
	return recs, ""
}

// vfC52Shape measures how the delivered segments relate to record boundaries.
func vfC52Shape(recs []vfC52Rec, deliv []int) (maxSplit, maxCoalesce int) {
	si, start := 0, 0
	segsOf := make([]int, len(recs))
	for _, end := range deliv {
		cnt := 0
		for i := si; i < len(recs) && recs[i].off < end; i++ {
			if recs[i].end > start {
				cnt++
				segsOf[i]++
			}
		}
		for si < len(recs) && recs[si].end <= end {
			si++
		}
		maxCoalesce = max(maxCoalesce, cnt)
		start = end
	}
	for _, c := range segsOf {
		maxSplit = max(maxSplit, c)
	}
	return
}

// ---------------------------------------------------------------- nonce recorder (white-box)

type vfC52AEAD struct {
	cipher.AEAD
	log *[]string
}

func (a *vfC52AEAD) Seal(dst, nonce, pt, ad []byte) []byte {
	*a.log = append(*a.log, string(nonce))
	return a.AEAD.Seal(dst, nonce, pt, ad)
}

// vfC52Wrap records every nonce handed to the sealing AEAD of c.
func vfC52Wrap(c net.Conn, log *[]string) {
	switch x := c.(*conn).crypto.(type) {
	case *aes128gcm:
		x.aead = &vfC52AEAD{x.aead, log}
	case *aes128gcmRekey:
		x.outAEAD = &vfC52AEAD{x.outAEAD, log}
	default:
		panic("vfC52: unknown crypto type")
	}
}

func vfC52Counters(c net.Conn) (in, out *Counter) {
	switch x := c.(*conn).crypto.(type) {
	case *aes128gcm:
		return &x.inCounter, &x.outCounter
	case *aes128gcmRekey:
		return &x.inCounter, &x.outCounter
	}
	panic("vfC52: unknown crypto type")
}

func vfC52Side(i int) core.Side {
	if i%2 == 0 {
		return core.ClientSide
	}
	return core.ServerSide
}

func vfC52Limit(frame int) int { return max(vfC52MinFrame, frame) }

// ---------------------------------------------------------------- unit roundtrip

type vfC52Op struct {
	Dir  int `json:"dir"`  // 0 client->server, 1 server->client
	Kind int `json:"kind"` // 0 write, 1 read
	Size int `json:"size"` // bytes written / read buffer size
}

type vfC52RTPlan struct {
	Proto   int       `json:"proto"`
	Frame   [2]int    `json:"frame"` // negotiated max frame size given to client / server
	Seed    uint64    `json:"seed"`
	Pre     []int     `json:"pre"`      // client writes before the server conn exists
	PreTake int       `json:"pre_take"` // permille of those wire bytes passed as `protected`
	Segs    [2][]int  `json:"segs"`     // network segment sizes per direction (cycled)
	Ops     []vfC52Op `json:"ops"`
	Drain   []int     `json:"drain"` // read buffer sizes for the final drain (cycled)
}

func vfC52GenFrame(rt *rapid.T, label string) int {
	switch rapid.IntRange(0, 5).Draw(rt, label+"_kind") {
	case 0:
		return rapid.SampledFrom([]int{0, 1, 4095, 4096, 4097, 8192, 16384, 32768, 65536, 131072, 262144, vfC52MaxFrame - 1, vfC52MaxFrame}).Draw(rt, label)
	case 1:
		return rapid.IntRange(0, 4095).Draw(rt, label)
	case 2:
		return rapid.IntRange(4096, 20000).Draw(rt, label)
	case 3:
		return rapid.IntRange(4096, vfC52MaxFrame).Draw(rt, label)
	default:
		return 4096
	}
}

func vfC52GenSeg(rt *rapid.T, label string) int {
	switch rapid.IntRange(0, 6).Draw(rt, label+"_kind") {
	case 0:
		return 1
	case 1:
		return rapid.IntRange(1, 9).Draw(rt, label)
	case 2:
		return rapid.SampledFrom([]int{23, 24, 25, 4095, 4096, 4097, 16384, 32768, 33280, 33281, 1 << 20}).Draw(rt, label)
	case 3:
		return rapid.IntRange(10, 200).Draw(rt, label)
	case 4:
		return rapid.IntRange(200, 6000).Draw(rt, label)
	case 5:
		return rapid.IntRange(6000, 70000).Draw(rt, label)
	default:
		return 1 << 20
	}
}

func vfC52GenSegs(rt *rapid.T, label string) []int {
	n := rapid.IntRange(1, 6).Draw(rt, label+"_n")
	out := make([]int, n)
	for i := range out {
		out[i] = vfC52GenSeg(rt, label)
	}
	return out
}

// vfC52GenWrite draws a write size relative to the payload limit L.
func vfC52GenWrite(rt *rapid.T, L int, allowHuge bool) int {
	hi := 7
	if allowHuge {
		hi = 8
	}
	switch rapid.IntRange(0, hi).Draw(rt, "w_kind") {
	case 0:
		return rapid.IntRange(0, 2).Draw(rt, "w")
	case 1:
		return rapid.IntRange(1, 100).Draw(rt, "w")
	case 2:
		return L + rapid.IntRange(-2, 2).Draw(rt, "w_d")
	case 3:
		return rapid.IntRange(2, 4).Draw(rt, "w_k")*L + rapid.IntRange(-1, 1).Draw(rt, "w_d")
	case 4:
		return rapid.IntRange(1, 3*L).Draw(rt, "w")
	case 5:
		return rapid.IntRange(100, 5000).Draw(rt, "w")
	case 6:
		return rapid.IntRange(1, L).Draw(rt, "w")
	case 7:
		return rapid.IntRange(5000, 40000).Draw(rt, "w")
	default: // larger than the 512 KiB write buffer: partial-buffer loop
		return rapid.IntRange(vfC52WriteBuf-64, vfC52WriteBuf+vfC52WriteBuf/2).Draw(rt, "w")
	}
}

func vfC52GenReadBuf(rt *rapid.T, L int) int {
	switch rapid.IntRange(0, 5).Draw(rt, "r_kind") {
	case 0:
		return rapid.IntRange(1, 4).Draw(rt, "r")
	case 1:
		return rapid.IntRange(5, 300).Draw(rt, "r")
	case 2: // around the direct-decrypt threshold bufSize >= len(ciphertext) = payload+16
		return L + vfC52TagLen + rapid.IntRange(-2, 2).Draw(rt, "r_d")
	case 3:
		return rapid.IntRange(1, 2*L).Draw(rt, "r")
	case 4:
		return rapid.SampledFrom([]int{4096, 16384, 32768, 1 << 20}).Draw(rt, "r")
	default:
		return rapid.IntRange(300, 5000).Draw(rt, "r")
	}
}

func vfC52GenRT(rt *rapid.T) vfC52RTPlan {
	p := vfC52RTPlan{Proto: rapid.IntRange(0, 1).Draw(rt, "proto"), Seed: rapid.Uint64().Draw(rt, "seed")}
	p.Frame[0] = vfC52GenFrame(rt, "frame_c")
	if rapid.Bool().Draw(rt, "same_frame") {
		p.Frame[1] = p.Frame[0]
	} else {
		p.Frame[1] = vfC52GenFrame(rt, "frame_s")
	}
	L := [2]int{vfC52Limit(p.Frame[0]) - vfC52HdrLen - vfC52TagLen, vfC52Limit(p.Frame[1]) - vfC52HdrLen - vfC52TagLen}
	budget := 3 << 19 // plaintext bytes per case (1.5 MiB)
	take := func(n int) int {
		n = max(0, min(n, budget))
		budget -= n
		return n
	}
	huge := rapid.IntRange(0, 7).Draw(rt, "allow_huge") == 0
	if rapid.IntRange(0, 3).Draw(rt, "has_pre") == 0 {
		n := rapid.IntRange(1, 4).Draw(rt, "npre")
		for i := 0; i < n; i++ {
			p.Pre = append(p.Pre, take(vfC52GenWrite(rt, L[0], false)))
		}
		p.PreTake = rapid.SampledFrom([]int{0, 1, 3, 500, 999, 1000, 1000}).Draw(rt, "pre_take")
	}
	p.Segs[0] = vfC52GenSegs(rt, "seg_cs")
	p.Segs[1] = vfC52GenSegs(rt, "seg_sc")
	nops := rapid.IntRange(1, 40).Draw(rt, "nops")
	bidir := rapid.Bool().Draw(rt, "bidir")
	nw := 0
	for i := 0; i < nops; i++ {
		op := vfC52Op{}
		if bidir {
			op.Dir = rapid.IntRange(0, 1).Draw(rt, "dir")
		}
		if nw < 30 && rapid.IntRange(0, 2).Draw(rt, "is_write") > 0 {
			nw++
			op.Size = take(vfC52GenWrite(rt, L[op.Dir], huge))
		} else {
			op.Kind = 1
			op.Size = vfC52GenReadBuf(rt, L[op.Dir])
		}
		p.Ops = append(p.Ops, op)
	}
	nd := rapid.IntRange(1, 4).Draw(rt, "ndrain")
	for i := 0; i < nd; i++ {
		p.Drain = append(p.Drain, vfC52GenReadBuf(rt, L[i%2]))
	}
	return p
}

func vfC52FrameClass(f int) string {
	switch {
	case f < vfC52MinFrame:
		return "frame<4K(clamped)"
	case f == vfC52MinFrame:
		return "frame=4K"
	case f >= vfC52MaxFrame-1:
		return "frame~512K"
	case f > 65536:
		return "frame>64K"
	default:
		return "frame_mid"
	}
}

func vfC52RunRT(_ *testing.T, p vfC52RTPlan) (res vk.Result) {
	defer func() {
		if r := recover(); r != nil {
			res = vk.Bad("panic: %v", r)
		}
	}()
	proto, keyLen, _ := vfC52Proto(p.Proto)
	key := vfC52Key(p.Seed, keyLen)
	pipes := [2]*vfC52Pipe{{segs: p.Segs[0]}, {segs: p.Segs[1]}}
	ends := [2]*vfC52End{{in: pipes[1], out: pipes[0]}, {in: pipes[0], out: pipes[1]}}
	var nonces []string
	var conns [2]net.Conn
	var wr, rd [2]int
	cls := map[string]bool{}
	streamSeed := func(d int) uint64 { return p.Seed + uint64(d)*0x51ed270b }

	mk := func(side int, protected []byte) string {
		c, err := NewConnWithMaxFrameSize(ends[side], vfC52Side(side), proto, append([]byte(nil), key...), protected, p.Frame[side])
		if err != nil {
			return fmt.Sprintf("NewConnWithMaxFrameSize(side %d, frame %d): %v", side, p.Frame[side], err)
		}
		vfC52Wrap(c, &nonces)
		conns[side] = c
		return ""
	}
	doWrite := func(d, size int) string {
		data := vfC52Stream(streamSeed(d), wr[d], size)
		n, err := conns[d].Write(data)
		if err != nil || n != size {
			return fmt.Sprintf("Write(%d bytes) dir %d = %d, %v", size, d, n, err)
		}
		wr[d] += size
		if size+((size+1)/(vfC52Limit(p.Frame[d])-24)+1)*24 > vfC52WriteBuf {
			cls["write>write_buffer"] = true
		}
		return ""
	}
	zero := 0
	doRead := func(d, size int) string {
		pending := wr[d] - rd[d]
		buf := make([]byte, max(1, size))
		n, err := conns[1-d].Read(buf)
		if err != nil {
			return fmt.Sprintf("Read(buf %d) dir %d failed with %d plaintext bytes pending: %v", len(buf), d, pending, err)
		}
		if n < 0 || n > len(buf) || n > pending {
			return fmt.Sprintf("Read(buf %d) dir %d returned n=%d with %d bytes pending", len(buf), d, n, pending)
		}
		if n == 0 {
			zero++
			if zero > 64 {
				return "Read keeps returning 0, nil: no progress"
			}
		}
		if want := vfC52Stream(streamSeed(d), rd[d], n); !bytes.Equal(buf[:n], want) {
			i := 0
			for buf[i] == want[i] {
				i++
			}
			return fmt.Sprintf("dir %d: plaintext differs at stream offset %d (read of %d bytes at offset %d)", d, rd[d]+i, n, rd[d])
		}
		rd[d] += n
		return ""
	}

	if s := mk(0, nil); s != "" {
		return vk.Bad("%s", s)
	}
	for _, n := range p.Pre {
		if s := doWrite(0, n); s != "" {
			return vk.Bad("pre-%s", s)
		}
	}
	takeN := len(pipes[0].wire) * p.PreTake / 1000
	var protected []byte
	if takeN > 0 {
		protected = append([]byte(nil), pipes[0].wire[:takeN]...)
		pipes[0].rd = takeN
		pipes[0].deliv = append(pipes[0].deliv, takeN)
		cls["preload"] = true
		if takeN > altsReadBufferInitialSize {
			cls["preload>initial_read_buffer"] = true
		}
	}
	if s := mk(1, protected); s != "" {
		return vk.Bad("%s", s)
	}
	steps := 0
	for _, op := range p.Ops {
		d := op.Dir & 1
		steps++
		if op.Kind == 0 {
			if s := doWrite(d, op.Size); s != "" {
				return vk.Bad("%s", s)
			}
			continue
		}
		if wr[d] == rd[d] {
			continue // nothing to read: a blocking read is outside a single-goroutine run
		}
		cls["read_interleaved"] = true
		if s := doRead(d, op.Size); s != "" {
			return vk.Bad("%s", s)
		}
	}
	for d := 0; d < 2; d++ {
		for i := 0; rd[d] < wr[d]; i++ {
			steps++
			if s := doRead(d, p.Drain[i%len(p.Drain)]); s != "" {
				return vk.Bad("drain: %s", s)
			}
		}
		// nothing more may ever be delivered
		buf := make([]byte, 64)
		if n, err := conns[1-d].Read(buf); n != 0 || err == nil {
			return vk.Bad("dir %d: Read after everything was consumed = %d, %v; want 0 and an error", d, n, err)
		}
		if pipes[d].zeroReads > 0 {
			return vk.Bad("dir %d: conn issued a zero-length read on the network connection", d)
		}
	}
	// framing oracle on the independently parsed wire
	nrec := 0
	nt := false
	for d := 0; d < 2; d++ {
		recs, bad := vfC52CheckWire(pipes[d].wire, vfC52Limit(p.Frame[d]), wr[d])
		if bad != "" {
			return vk.Bad("dir %d (frame %d): %s", d, p.Frame[d], bad)
		}
		nrec += len(recs)
		split, coal := vfC52Shape(recs, pipes[d].deliv)
		if split >= 3 {
			cls["record_split>=3_segments"] = true
			nt = true
		}
		if coal >= 2 {
			cls["records_coalesced>=2"] = true
			nt = true
		}
		for _, r := range recs {
			if r.end-r.off > altsReadBufferInitialSize {
				cls["record>initial_read_buffer"] = true
			}
		}
		if len(recs) > 0 {
			cls[vfC52FrameClass(p.Frame[d])] = true
		}
	}
	// nonce oracle: one seal per record, all nonces distinct across both directions (same key)
	if len(nonces) != nrec {
		return vk.Bad("%d seals for %d records on the wire", len(nonces), nrec)
	}
	seen := map[string]bool{}
	for _, n := range nonces {
		if seen[n] {
			return vk.Bad("nonce %x used twice under the same key", n)
		}
		seen[n] = true
	}
	if wr[0] > 0 && wr[1] > 0 {
		cls["bidirectional"] = true
	}
	switch {
	case nrec == 0:
		cls["records=0"] = true
	case nrec < 4:
		cls["records=1-3"] = true
	case nrec < 32:
		cls["records=4-31"] = true
	default:
		cls["records>=32"] = true
	}
	cls["proto="+strconv.Itoa(p.Proto&1)] = true
	res = vk.Result{NonTrivial: nt, Steps: steps}
	for k := range cls {
		res.Classes = append(res.Classes, k)
	}
	return res
}

func TestVerifC52RoundTrip(t *testing.T) {
	vk.Check(t, vk.Unit[vfC52RTPlan]{
		ID: "C52", Name: "roundtrip",
		Rule: "client+server conn (both record protocols, key from seed) over a pipe delivering planned segment sizes (1 byte .. 1 MiB) per direction; frame sizes 0..512 KiB per side (below 4 KiB to see clamping); 1-40 ops: writes relative to the payload limit (0, 1, L±2, kL±1, > 512 KiB write buffer) and reads with buffers around the direct-decrypt threshold; optional handshake leftover bytes passed as `protected`. non-trivial = some record was delivered in >= 3 network segments or some segment carried bytes of >= 2 records",
		Gen:  vfC52GenRT, Run: vfC52RunRT,
	})
}

// ---------------------------------------------------------------- unit counter

type vfC52CtrPlan struct {
	Proto  int    `json:"proto"`
	Side   int    `json:"side"` // writer side
	Low    []byte `json:"low"`  // initial low overflowLen bytes of the writer's out counter (little endian)
	Frame  int    `json:"frame"`
	Seed   uint64 `json:"seed"`
	Writes []int  `json:"writes"`
}

func vfC52GenCtr(rt *rapid.T) vfC52CtrPlan {
	p := vfC52CtrPlan{Proto: rapid.IntRange(0, 1).Draw(rt, "proto"), Side: rapid.IntRange(0, 1).Draw(rt, "side"), Seed: rapid.Uint64().Draw(rt, "seed")}
	_, _, ovf := vfC52Proto(p.Proto)
	p.Low = make([]byte, ovf)
	// value = 2^(8*b) - k (+ random higher bytes when b < ovf)
	b := rapid.IntRange(1, ovf).Draw(rt, "boundary_byte")
	if rapid.IntRange(0, 2).Draw(rt, "at_overflow") > 0 {
		b = ovf
	}
	k := rapid.IntRange(1, 6).Draw(rt, "k")
	v := new(big.Int).Lsh(big.NewInt(1), uint(8*b))
	v.Sub(v, big.NewInt(int64(k)))
	be := v.Bytes()
	for i := range be {
		p.Low[i] = be[len(be)-1-i]
	}
	for i := b; i < ovf; i++ {
		p.Low[i] = rapid.SampledFrom([]byte{0, 1, 0x7f, 0xfe, 0xff}).Draw(rt, "hi")
	}
	p.Frame = rapid.SampledFrom([]int{0, 4096, 8192}).Draw(rt, "frame")
	L := vfC52Limit(p.Frame) - 24
	n := rapid.IntRange(1, 8).Draw(rt, "nw")
	for i := 0; i < n; i++ {
		switch rapid.IntRange(0, 2).Draw(rt, "wk") {
		case 0:
			p.Writes = append(p.Writes, rapid.IntRange(1, 50).Draw(rt, "w"))
		case 1:
			p.Writes = append(p.Writes, rapid.IntRange(1, 4).Draw(rt, "k")*L+rapid.IntRange(-1, 1).Draw(rt, "d"))
		default:
			p.Writes = append(p.Writes, rapid.IntRange(1, 3*L).Draw(rt, "w"))
		}
	}
	return p
}

func vfC52RunCtr(_ *testing.T, p vfC52CtrPlan) (res vk.Result) {
	defer func() {
		if r := recover(); r != nil {
			res = vk.Bad("panic: %v", r)
		}
	}()
	proto, keyLen, ovf := vfC52Proto(p.Proto)
	if len(p.Low) != ovf {
		return vk.Result{Discard: true}
	}
	key := vfC52Key(p.Seed, keyLen)
	pipe := &vfC52Pipe{}
	ws, rs := p.Side&1, 1-p.Side&1
	w, err := NewConnWithMaxFrameSize(&vfC52End{in: &vfC52Pipe{}, out: pipe}, vfC52Side(ws), proto, append([]byte(nil), key...), nil, p.Frame)
	if err != nil {
		return vk.Bad("NewConn: %v", err)
	}
	r, err := NewConnWithMaxFrameSize(&vfC52End{in: pipe, out: &vfC52Pipe{}}, vfC52Side(rs), proto, append([]byte(nil), key...), nil, p.Frame)
	if err != nil {
		return vk.Bad("NewConn: %v", err)
	}
	var nonces []string
	vfC52Wrap(w, &nonces)
	_, wOut := vfC52Counters(w)
	rIn, _ := vfC52Counters(r)
	copy(wOut.value[:ovf], p.Low)
	copy(rIn.value[:ovf], p.Low)

	// reference: remaining = 2^(8*ovf) - X seals are possible
	le := func(b []byte) *big.Int {
		be := make([]byte, len(b))
		for i := range b {
			be[len(b)-1-i] = b[i]
		}
		return new(big.Int).SetBytes(be)
	}
	X := le(p.Low)
	remBig := new(big.Int).Sub(new(big.Int).Lsh(big.NewInt(1), uint(8*ovf)), X)
	rem := 1 << 30
	if remBig.IsInt64() && remBig.Int64() < int64(rem) {
		rem = int(remBig.Int64())
	}
	L := vfC52Limit(p.Frame) - 24
	used, okBytes, failed := 0, 0, false
	wantSeals := 0
	for i, size := range p.Writes {
		if size < 1 {
			size = 1
		}
		k := (size + L - 1) / L
		n, err := w.Write(vfC52Stream(p.Seed, okBytes, size))
		wantOK := !failed && used+k <= rem
		if wantOK {
			if err != nil || n != size {
				return vk.Bad("write %d (%d records, %d of %d counter values used) = %d, %v; want success", i, k, used, rem, n, err)
			}
			used += k
			wantSeals += k
			okBytes += size
			continue
		}
		if err == nil {
			return vk.Bad("write %d (%d records) succeeded although only %d counter values remained: the counter wrapped", i, k, rem-used)
		}
		if !failed {
			wantSeals += rem - used // the records sealed before the counter ran out
			used = rem
		}
		failed = true
	}
	// exact nonce sequence: X, X+1, ... in the low ovf bytes; upper bytes constant with the side bit
	if len(nonces) != wantSeals {
		return vk.Bad("%d seals happened, reference says %d (remaining %d)", len(nonces), wantSeals, rem)
	}
	seen := map[string]bool{}
	for i, n := range nonces {
		if seen[n] {
			return vk.Bad("nonce %x repeated (seal %d)", n, i)
		}
		seen[n] = true
		if len(n) != 12 {
			return vk.Bad("nonce length %d", len(n))
		}
		want := new(big.Int).Add(X, big.NewInt(int64(i)))
		if got := le([]byte(n[:ovf])); got.Cmp(want) != 0 {
			return vk.Bad("seal %d used counter %v, want %v", i, got, want)
		}
		for j := ovf; j < 12; j++ {
			wantB := byte(0)
			if j == 11 && ws == 1 {
				wantB = 0x80
			}
			if n[j] != wantB {
				return vk.Bad("seal %d: nonce byte %d = %#x, want %#x (carry escaped the overflow length or side bit wrong)", i, j, n[j], wantB)
			}
		}
	}
	// what reached the wire round-trips
	recs, bad := vfC52CheckWire(pipe.wire, vfC52Limit(p.Frame), okBytes)
	if bad != "" {
		return vk.Bad("%s", bad)
	}
	got := 0
	buf := make([]byte, 5000)
	for got < okBytes {
		n, err := r.Read(buf)
		if err != nil {
			return vk.Bad("reader failed after %d of %d bytes: %v", got, okBytes, err)
		}
		if !bytes.Equal(buf[:n], vfC52Stream(p.Seed, got, n)) {
			return vk.Bad("plaintext differs in [%d,%d)", got, got+n)
		}
		got += n
	}
	if n, err := r.Read(buf); n != 0 || err == nil {
		return vk.Bad("Read past the end = %d, %v", n, err)
	}
	res = vk.Result{NonTrivial: failed || len(recs) >= 2}
	if failed {
		res.Classes = append(res.Classes, "overflow_reached")
	} else {
		res.Classes = append(res.Classes, "no_overflow")
	}
	if rem <= 6 {
		res.Classes = append(res.Classes, "starts_within_6_of_overflow")
	}
	// did a carry cross a byte boundary?
	if len(nonces) >= 2 && nonces[0][1:ovf] != nonces[len(nonces)-1][1:ovf] {
		res.Classes = append(res.Classes, "carry")
	}
	return res
}

func TestVerifC52Counter(t *testing.T) {
	vk.Check(t, vk.Unit[vfC52CtrPlan]{
		ID: "C52", Name: "counter",
		Rule: "writer out-counter and reader in-counter preset to 2^(8b)-k (k=1..6; b = overflow length in 2/3 of the cases, else a lower byte boundary with arbitrary higher bytes), then 1-8 writes of 1..3 frames; exact nonce sequence and the failing write are predicted with math/big. non-trivial = the counter ran out during the case, or >= 2 records were sealed",
		Gen:  vfC52GenCtr, Run: vfC52RunCtr,
	})
}

// ---------------------------------------------------------------- unit tamper

const (
	vfC52FlipByte = iota
	vfC52DelByte
	vfC52InsByte
	vfC52DropRec
	vfC52DupRec
	vfC52SwapRec
	vfC52Reflect
	vfC52Truncate
	vfC52NumFaults
)

var vfC52FaultName = []string{"flip", "delbyte", "insbyte", "droprec", "duprec", "swaprec", "reflect", "truncate"}

type vfC52TamperPlan struct {
	Proto  int    `json:"proto"`
	Frame  int    `json:"frame"`
	Seed   uint64 `json:"seed"`
	Side   int    `json:"side"` // writer side
	Writes []int  `json:"writes"`
	Kind   int    `json:"kind"`
	Rec    int    `json:"rec"`  // target record, modulo the number of records
	Pos    int    `json:"pos"`  // byte position inside the record, modulo its length
	Mask   int    `json:"mask"` // xor mask / inserted byte
	Rec2   int    `json:"rec2"` // second record operand (relative)
	Segs   []int  `json:"segs"`
	Bufs   []int  `json:"bufs"`
}

func vfC52GenTamper(rt *rapid.T) vfC52TamperPlan {
	p := vfC52TamperPlan{Proto: rapid.IntRange(0, 1).Draw(rt, "proto"), Seed: rapid.Uint64().Draw(rt, "seed"), Side: rapid.IntRange(0, 1).Draw(rt, "side")}
	p.Frame = rapid.SampledFrom([]int{0, 4096, 4096, 5000, 16384, 65536, vfC52MaxFrame}).Draw(rt, "frame")
	L := vfC52Limit(p.Frame) - 24
	n := rapid.IntRange(1, 6).Draw(rt, "nw")
	budget := 1 << 20
	for i := 0; i < n; i++ {
		var w int
		switch rapid.IntRange(0, 4).Draw(rt, "wk") {
		case 0:
			w = rapid.IntRange(1, 40).Draw(rt, "w")
		case 1:
			w = rapid.IntRange(1, 2000).Draw(rt, "w")
		case 2:
			w = L + rapid.IntRange(-1, 1).Draw(rt, "d")
		case 3:
			w = rapid.IntRange(1, 3*L).Draw(rt, "w")
		default:
			w = rapid.IntRange(1, L).Draw(rt, "w")
		}
		w = max(1, min(w, budget))
		budget -= w
		p.Writes = append(p.Writes, w)
		if budget <= 0 {
			break
		}
	}
	p.Kind = rapid.IntRange(0, vfC52NumFaults-1).Draw(rt, "kind")
	p.Rec = rapid.IntRange(0, 63).Draw(rt, "rec")
	p.Rec2 = rapid.IntRange(0, 63).Draw(rt, "rec2")
	switch rapid.IntRange(0, 3).Draw(rt, "pos_kind") {
	case 0: // header
		p.Pos = rapid.IntRange(0, 7).Draw(rt, "pos")
	case 1: // tag (relative to the end: resolved modulo the record length in Run)
		p.Pos = -1 - rapid.IntRange(0, 15).Draw(rt, "pos_from_end")
	case 2:
		p.Pos = rapid.IntRange(8, 64).Draw(rt, "pos")
	default:
		p.Pos = rapid.IntRange(0, 1<<20).Draw(rt, "pos")
	}
	if rapid.Bool().Draw(rt, "single_bit") {
		p.Mask = 1 << uint(rapid.IntRange(0, 7).Draw(rt, "bit"))
	} else {
		p.Mask = rapid.IntRange(1, 255).Draw(rt, "mask")
	}
	p.Segs = vfC52GenSegs(rt, "seg")
	nb := rapid.IntRange(1, 3).Draw(rt, "nb")
	for i := 0; i < nb; i++ {
		p.Bufs = append(p.Bufs, vfC52GenReadBuf(rt, L))
	}
	return p
}

// vfC52Genuine writes the plan's stream with a fresh writer conn of the given side.
func vfC52Genuine(proto string, key []byte, side, frame int, seed uint64, writes []int) (wire []byte, total int, bad string) {
	pipe := &vfC52Pipe{}
	w, err := NewConnWithMaxFrameSize(&vfC52End{in: &vfC52Pipe{}, out: pipe}, vfC52Side(side), proto, append([]byte(nil), key...), nil, frame)
	if err != nil {
		return nil, 0, "NewConn: " + err.Error()
	}
	for _, size := range writes {
		size = max(1, size)
		if n, err := w.Write(vfC52Stream(seed, total, size)); err != nil || n != size {
			return nil, 0, fmt.Sprintf("genuine Write(%d) = %d, %v", size, n, err)
		}
		total += size
	}
	return pipe.wire, total, ""
}

// vfC52EqualModTypeHi reports whether two records are byte-identical (exact) or
// identical except for the three high bytes of the message type field, which the
// Go implementation neither checks nor authenticates (see notes/C52.md).
func vfC52EqualModTypeHi(a, b []byte) (exact, modTypeHi bool) {
	if len(a) != len(b) {
		return false, false
	}
	exact = bytes.Equal(a, b)
	if exact {
		return true, true
	}
	if len(a) < vfC52HdrLen {
		return false, false
	}
	return false, bytes.Equal(a[:5], b[:5]) && bytes.Equal(a[8:], b[8:])
}

// vfC52ReadTampered feeds `wire` to a fresh reader conn and checks the
// tamper oracle against the genuine stream (gen, its records, plaintext stream
// seed): every byte delivered must be genuine plaintext in order; nothing from the
// first non-genuine record onwards may be delivered; the genuine records before it
// must be delivered; the read sequence must end with an error.
func vfC52ReadTampered(proto string, key []byte, readerSide int, gen []byte, recs []vfC52Rec, seed uint64, wire []byte, segs, bufs []int) (delivered, strictPT, tolPT int, bad string) {
	// how many leading genuine records does the tampered wire still start with?
	mStrict, mTol := 0, 0
	strictOpen := true
	for _, r := range recs {
		if r.end > len(wire) {
			break
		}
		exact, mod := vfC52EqualModTypeHi(gen[r.off:r.end], wire[r.off:r.end])
		if !mod {
			break
		}
		if !exact {
			strictOpen = false
		}
		if strictOpen {
			mStrict++
			strictPT += r.payload()
		}
		mTol++
		tolPT += r.payload()
	}
	pipe := &vfC52Pipe{wire: wire, segs: segs}
	r, err := NewConnWithMaxFrameSize(&vfC52End{in: pipe, out: &vfC52Pipe{}}, vfC52Side(readerSide), proto, append([]byte(nil), key...), nil, 0)
	if err != nil {
		return 0, strictPT, tolPT, "NewConn: " + err.Error()
	}
	if len(bufs) == 0 {
		bufs = []int{4096}
	}
	zero := 0
	var lastErr error
	for i := 0; ; i++ {
		buf := make([]byte, max(1, bufs[i%len(bufs)]))
		n, err := r.Read(buf)
		if n < 0 || n > len(buf) {
			return delivered, strictPT, tolPT, fmt.Sprintf("Read returned n=%d for a %d byte buffer", n, len(buf))
		}
		if n > 0 {
			if delivered+n > tolPT {
				return delivered, strictPT, tolPT, fmt.Sprintf("Read delivered %d bytes at offset %d, but only the first %d plaintext bytes (%d records) are backed by untampered records", n, delivered, tolPT, mTol)
			}
			if !bytes.Equal(buf[:n], vfC52Stream(seed, delivered, n)) {
				return delivered, strictPT, tolPT, fmt.Sprintf("Read returned wrong plaintext in [%d,%d)", delivered, delivered+n)
			}
			delivered += n
		}
		if err != nil {
			lastErr = err
			break
		}
		if n == 0 {
			zero++
			if zero > 64 {
				return delivered, strictPT, tolPT, "Read keeps returning 0, nil"
			}
		}
	}
	_ = lastErr
	if delivered < strictPT {
		return delivered, strictPT, tolPT, fmt.Sprintf("Read failed (%v) after %d bytes although the first %d records (%d plaintext bytes) are byte-identical to what the peer wrote", lastErr, delivered, mStrict, strictPT)
	}
	if pipe.zeroReads > 0 {
		return delivered, strictPT, tolPT, "conn issued a zero-length read on the network connection"
	}
	return delivered, strictPT, tolPT, ""
}

func vfC52RunTamper(_ *testing.T, p vfC52TamperPlan) (res vk.Result) {
	defer func() {
		if r := recover(); r != nil {
			res = vk.Bad("panic: %v", r)
		}
	}()
	proto, keyLen, _ := vfC52Proto(p.Proto)
	key := vfC52Key(p.Seed, keyLen)
	ws := p.Side & 1
	gen, total, bad := vfC52Genuine(proto, key, ws, p.Frame, p.Seed, p.Writes)
	if bad != "" {
		return vk.Bad("%s", bad)
	}
	recs, bad := vfC52CheckWire(gen, vfC52Limit(p.Frame), total)
	if bad != "" {
		return vk.Bad("%s", bad)
	}
	if len(recs) == 0 {
		return vk.Result{Discard: true}
	}
	nrec := len(recs)
	kind := ((p.Kind % vfC52NumFaults) + vfC52NumFaults) % vfC52NumFaults
	ri := ((p.Rec % nrec) + nrec) % nrec
	rec := recs[ri]
	rl := rec.end - rec.off
	pos := ((p.Pos % rl) + rl) % rl
	r2 := ((p.Rec2 % nrec) + nrec) % nrec
	abs := rec.off + pos
	var wire []byte
	switch kind {
	case vfC52FlipByte:
		wire = append([]byte(nil), gen...)
		m := byte(p.Mask)
		if m == 0 {
			m = 1
		}
		wire[abs] ^= m
	case vfC52DelByte:
		wire = append(append([]byte(nil), gen[:abs]...), gen[abs+1:]...)
	case vfC52InsByte:
		wire = append(append(append([]byte(nil), gen[:abs]...), byte(p.Mask)), gen[abs:]...)
	case vfC52DropRec:
		wire = append(append([]byte(nil), gen[:rec.off]...), gen[rec.end:]...)
	case vfC52DupRec:
		at := recs[r2].end
		wire = append(append(append([]byte(nil), gen[:at]...), gen[rec.off:rec.end]...), gen[at:]...)
	case vfC52SwapRec:
		if nrec < 2 {
			return vk.Result{Discard: true}
		}
		if r2 == ri {
			r2 = (ri + 1) % nrec
		}
		a, b := min(ri, r2), max(ri, r2)
		wire = append([]byte(nil), gen[:recs[a].off]...)
		wire = append(wire, gen[recs[b].off:recs[b].end]...)
		wire = append(wire, gen[recs[a].end:recs[b].off]...)
		wire = append(wire, gen[recs[a].off:recs[a].end]...)
		wire = append(wire, gen[recs[b].end:]...)
	case vfC52Reflect:
		// the same plaintext sealed by the *other* side with the same key: the
		// reader must not accept its own side's records (reflection)
		other, _, bad := vfC52Genuine(proto, key, 1-ws, p.Frame, p.Seed, p.Writes)
		if bad != "" || len(other) != len(gen) {
			return vk.Bad("reflect: cannot build the mirrored stream: %s", bad)
		}
		wire = append([]byte(nil), gen...)
		copy(wire[rec.off:rec.end], other[rec.off:rec.end])
	case vfC52Truncate:
		wire = append([]byte(nil), gen[:abs]...)
	}
	if bytes.Equal(wire, gen) {
		return vk.Result{Discard: true}
	}
	delivered, strictPT, tolPT, bad := vfC52ReadTampered(proto, key, 1-ws, gen, recs, p.Seed, wire, p.Segs, p.Bufs)
	if bad != "" {
		return vk.Bad("%s after fault %s rec=%d/%d pos=%d: %s", proto, vfC52FaultName[kind], ri, nrec, pos, bad)
	}
	res = vk.Result{NonTrivial: nrec >= 2, Classes: []string{"fault=" + vfC52FaultName[kind]}}
	if kind <= vfC52InsByte {
		switch {
		case pos < 4:
			res.Classes = append(res.Classes, "at=length")
		case pos == 4:
			res.Classes = append(res.Classes, "at=type_lo")
		case pos < 8:
			res.Classes = append(res.Classes, "at=type_hi")
		case pos >= rl-vfC52TagLen:
			res.Classes = append(res.Classes, "at=tag")
		default:
			res.Classes = append(res.Classes, "at=body")
		}
	}
	if tolPT != strictPT {
		if delivered == tolPT {
			res.Classes = append(res.Classes, "type_hi_change_accepted(plaintext intact)")
		} else {
			res.Classes = append(res.Classes, "type_hi_change_rejected")
		}
	}
	if strictPT > 0 {
		res.Classes = append(res.Classes, "intact_prefix_delivered")
	}
	if rl > altsReadBufferInitialSize {
		res.Classes = append(res.Classes, "record>initial_read_buffer")
	}
	return res
}

const vfC52TamperRule = "genuine stream of 1-6 writes (1 byte .. 3 frames each, frame 4 KiB..512 KiB, either side writing, both protocols), then exactly one fault: xor a byte (header / tag / body positions, single-bit and arbitrary masks), delete a byte, insert a byte, drop / duplicate / swap records, substitute the other side's record for the same plaintext (reflection), truncate; the reader gets the tampered bytes in planned segments. non-trivial = the stream has >= 2 records"

func TestVerifC52Tamper(t *testing.T) {
	vk.Check(t, vk.Unit[vfC52TamperPlan]{ID: "C52", Name: "tamper", Rule: vfC52TamperRule, Gen: vfC52GenTamper, Run: vfC52RunTamper})
}

// vfC52EnumPlans is the exhaustive table: every byte position of small records.
func vfC52EnumPlans() []vfC52TamperPlan {
	var out []vfC52TamperPlan
	masks := vk.Pick([]int{0x01, 0x80}, []int{0x01, 0x02, 0x04, 0x08, 0x10, 0x20, 0x40, 0x80, 0xff})
	segSets := [][]int{{1 << 20}, {1}, {3, 5}, {4, 4, 1 << 20}}
	i := 0
	for proto := 0; proto < 2; proto++ {
		for _, mid := range []int{1, 100, 4072} { // 4072+24 = a full 4 KiB record
			writes := []int{7, mid, 9}
			rl := mid + 24
			base := vfC52TamperPlan{Proto: proto, Frame: 4096, Seed: uint64(0xC52<<8 + mid), Writes: writes, Rec: 1, Bufs: []int{4096}}
			for side := 0; side < 2; side++ {
				if mid == 4072 && side == 1 {
					continue
				}
				for pos := 0; pos < rl; pos++ {
					for _, m := range masks {
						if mid == 4072 && !vk.Thorough() && m != masks[pos%len(masks)] {
							continue
						}
						q := base
						q.Side, q.Kind, q.Pos, q.Mask, q.Segs = side, vfC52FlipByte, pos, m, segSets[i%len(segSets)]
						out = append(out, q)
						i++
					}
					for _, k := range []int{vfC52DelByte, vfC52InsByte, vfC52Truncate} {
						q := base
						q.Side, q.Kind, q.Pos, q.Mask, q.Segs = side, k, pos, 0x5a, segSets[i%len(segSets)]
						out = append(out, q)
						i++
					}
				}
				if mid == 4072 {
					continue
				}
				for r := 0; r < 3; r++ {
					for r2 := 0; r2 < 3; r2++ {
						for _, k := range []int{vfC52DropRec, vfC52DupRec, vfC52SwapRec, vfC52Reflect} {
							q := base
							q.Side, q.Kind, q.Rec, q.Rec2, q.Segs = side, k, r, r2, segSets[i%len(segSets)]
							out = append(out, q)
							i++
						}
					}
				}
			}
		}
	}
	// this shard's slice
	sh, _ := strconv.Atoi(os.Getenv("VERIF_SHARD"))
	n, _ := strconv.Atoi(os.Getenv("VERIF_SHARDS"))
	if n <= 1 {
		return out
	}
	var mine []vfC52TamperPlan
	for j, q := range out {
		if j%n == sh {
			mine = append(mine, q)
		}
	}
	return mine
}

func TestVerifC52TamperEnum(t *testing.T) {
	vk.Enumerate(t, vk.Unit[vfC52TamperPlan]{
		ID: "C52", Name: "tamper_enum",
		Rule: "explicit table: streams of three records (7 | 1, 100 or 4072 | 9 payload bytes, i.e. middle records of 25, 124 and 4096 bytes), both protocols, both writer sides; for EVERY byte position of the middle record: xor with single-bit masks (2 masks quick, all 8 bits + 0xff thorough), delete the byte, insert a byte, truncate there; plus every (record, record) combination of drop / duplicate / swap / reflect. non-trivial = all (>= 2 records)",
		Run:  vfC52RunTamper,
	}, vfC52EnumPlans())
}

// ---------------------------------------------------------------- unit reader (garbage / fuzz)

type vfC52Edit struct {
	Kind int `json:"kind"` // 0 xor byte, 1 delete range, 2 insert garbage, 3 copy range elsewhere, 4 truncate, 5 set length field of a record
	Off  int `json:"off"`
	Len  int `json:"len"`
	Val  int `json:"val"`
}

type vfC52RdPlan struct {
	Proto  int         `json:"proto"`
	Segs   []int       `json:"segs"`
	Bufs   []int       `json:"bufs"`
	Edits  []vfC52Edit `json:"edits,omitempty"`
	Raw    []byte      `json:"raw,omitempty"` // if set: the complete reader input (native fuzz)
	UseRaw bool        `json:"use_raw,omitempty"`
}

var vfC52RdWrites = []int{5, 300, 4072, 9000, 1, 64}

const vfC52RdSeed = 0xC52C52

var (
	vfC52RdOnce [2]sync.Once
	vfC52RdGen  [2][]byte
	vfC52RdRecs [2][]vfC52Rec
)

// vfC52RdGenuine returns the fixed genuine client->server stream (immutable).
func vfC52RdGenuine(proto int) ([]byte, []vfC52Rec) {
	proto &= 1
	vfC52RdOnce[proto].Do(func() {
		name, keyLen, _ := vfC52Proto(proto)
		g, total, bad := vfC52Genuine(name, vfC52Key(vfC52RdSeed, keyLen), 0, 4096, vfC52RdSeed, vfC52RdWrites)
		if bad != "" {
			panic(bad)
		}
		recs, bad := vfC52CheckWire(g, 4096, total)
		if bad != "" {
			panic(bad)
		}
		vfC52RdGen[proto], vfC52RdRecs[proto] = g, recs
	})
	return vfC52RdGen[proto], vfC52RdRecs[proto]
}

func vfC52GenRd(rt *rapid.T) vfC52RdPlan {
	p := vfC52RdPlan{Proto: rapid.IntRange(0, 1).Draw(rt, "proto")}
	p.Segs = vfC52GenSegs(rt, "seg")
	p.Bufs = []int{vfC52GenReadBuf(rt, 4072), vfC52GenReadBuf(rt, 4072)}
	n := rapid.IntRange(1, 4).Draw(rt, "nedits")
	for i := 0; i < n; i++ {
		e := vfC52Edit{Kind: rapid.IntRange(0, 5).Draw(rt, "ekind"), Off: rapid.IntRange(0, 1<<16).Draw(rt, "off"), Val: rapid.IntRange(0, 255).Draw(rt, "val")}
		switch rapid.IntRange(0, 2).Draw(rt, "len_kind") {
		case 0:
			e.Len = rapid.IntRange(1, 8).Draw(rt, "len")
		case 1:
			e.Len = rapid.IntRange(1, 300).Draw(rt, "len")
		default:
			e.Len = rapid.IntRange(1, 5000).Draw(rt, "len")
		}
		if e.Kind == 5 {
			e.Val = rapid.SampledFrom([]int{0, 1, 3, 4, 19, 20, 21, 4092, 4093, 1 << 20, 1<<20 + 1, 1<<31 - 1, -1}).Draw(rt, "lenval")
		}
		p.Edits = append(p.Edits, e)
	}
	return p
}

func vfC52ApplyEdits(gen []byte, recs []vfC52Rec, edits []vfC52Edit) []byte {
	w := append([]byte(nil), gen...)
	for _, e := range edits {
		if len(w) == 0 {
			break
		}
		off := ((e.Off % len(w)) + len(w)) % len(w)
		l := max(1, min(e.Len, len(w)-off))
		switch ((e.Kind % 6) + 6) % 6 {
		case 0:
			v := byte(e.Val)
			if v == 0 {
				v = 0x40
			}
			w[off] ^= v
		case 1:
			w = append(w[:off], w[off+l:]...)
		case 2:
			g := vfC52Stream(uint64(e.Val)+uint64(e.Off)<<8, 0, l)
			w = append(w[:off], append(g, w[off:]...)...)
		case 3:
			src := append([]byte(nil), w[off:off+l]...)
			at := (off*7 + e.Val) % (len(w) + 1)
			w = append(w[:at], append(src, w[at:]...)...)
		case 4:
			w = w[:off]
		case 5:
			r := recs[off%len(recs)]
			if r.off+4 <= len(w) {
				binary.LittleEndian.PutUint32(w[r.off:], uint32(int32(e.Val)))
			}
		}
	}
	return w
}

func vfC52RunRd(_ *testing.T, p vfC52RdPlan) (res vk.Result) {
	defer func() {
		if r := recover(); r != nil {
			res = vk.Bad("panic: %v", r)
		}
	}()
	gen, recs := vfC52RdGenuine(p.Proto)
	name, keyLen, _ := vfC52Proto(p.Proto)
	var wire []byte
	if p.UseRaw {
		wire = p.Raw
	} else {
		wire = vfC52ApplyEdits(gen, recs, p.Edits)
	}
	delivered, strictPT, _, bad := vfC52ReadTampered(name, vfC52Key(vfC52RdSeed, keyLen), 1, gen, recs, vfC52RdSeed, wire, p.Segs, p.Bufs)
	if bad != "" {
		return vk.Bad("%s: %s", name, bad)
	}
	res = vk.Result{NonTrivial: !bytes.Equal(wire, gen)}
	switch {
	case bytes.Equal(wire, gen):
		res.Classes = append(res.Classes, "untouched")
	case strictPT == 0:
		res.Classes = append(res.Classes, "first_record_hit")
	default:
		res.Classes = append(res.Classes, "later_record_hit")
	}
	if delivered > 0 {
		res.Classes = append(res.Classes, "some_plaintext_delivered")
	}
	return res
}

func TestVerifC52Reader(t *testing.T) {
	vk.Check(t, vk.Unit[vfC52RdPlan]{
		ID: "C52", Name: "reader",
		Rule: "a fixed genuine client stream (records of 29..4096 bytes) hit by 1-4 edits (xor, delete range, insert garbage, copy a range elsewhere, truncate, overwrite a record's length field with boundary values), delivered in planned segments to a server-side reader. non-trivial = the reader input differs from the genuine stream",
		Gen:  vfC52GenRd, Run: vfC52RunRd,
	})
}

// FuzzVerifC52Reader: native fuzzing of the bytes the reader gets from the
// network. Input layout: byte0 = protocol, byte1 = segment pattern, byte2 = read
// buffer pattern, rest = wire bytes. The seed corpus contains the genuine streams
// so that the mutator works on near-valid records.
func FuzzVerifC52Reader(f *testing.F) {
	var seeds [][]byte
	for proto := 0; proto < 2; proto++ {
		g, recs := vfC52RdGenuine(proto)
		seeds = append(seeds, append([]byte{byte(proto), 0, 0}, g...))
		seeds = append(seeds, append([]byte{byte(proto), 1, 1}, g[:recs[2].off]...))
		seeds = append(seeds, append([]byte{byte(proto), 2, 2}, g[:recs[1].end+9]...))
	}
	segPat := [][]int{{1 << 20}, {1}, {3, 5}, {4, 4, 1 << 20}, {4095, 2}, {33280}}
	bufPat := [][]int{{4096}, {1}, {4087, 4088, 4089}, {17, 1 << 16}}
	vk.Fuzz(f, vk.Unit[vfC52RdPlan]{ID: "C52", Name: "reader", Run: vfC52RunRd}, seeds,
		func(b []byte) (vfC52RdPlan, bool) {
			if len(b) < 3 || len(b) > 64<<10 {
				return vfC52RdPlan{}, false
			}
			return vfC52RdPlan{Proto: int(b[0] & 1), Segs: segPat[int(b[1])%len(segPat)], Bufs: bufPat[int(b[2])%len(bufPat)], Raw: append([]byte(nil), b[3:]...), UseRaw: true}, true
		})
}
