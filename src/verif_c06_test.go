package grpc

// C06: gRPC message framing round-trips and size limits are enforced.
//
// White box on parser.recvMsg / recvAndDecompress / decompress. A plan describes
// a sender (messages, compression, flags, possibly lying length prefixes), the
// receiver configuration (grpc-encoding, legacy Decompressor, limit) and how
// the resulting byte stream is chunked / truncated. The harness streamReader
// (vfC06Reader, modelled on transport.Stream's ReadMessageHeader/read) serves
// the bytes; an independent reference parser (vfC06Reference: 5-byte framing +
// compress/gzip used directly + the harness' own "expander" format) computes
// the expected sequence of events from the same bytes.

import (
	"bytes"
	"compress/gzip"
	"encoding/binary"
	"errors"
	"fmt"
	"io"
	"math"
	"regexp"
	"strconv"
	"sync/atomic"
	"testing"

	"google.golang.org/grpc/codes"
	"google.golang.org/grpc/encoding"
	_ "google.golang.org/grpc/encoding/gzip"
	"google.golang.org/grpc/internal/verifkit/vk"
	"google.golang.org/grpc/mem"
	"google.golang.org/grpc/status"
	"pgregory.net/rapid"
)

const (
	vfC06ExpanderName = "vfc06-expander"
	vfC06UnknownName  = "vfc06-unregistered"
	vfC06MaxExpLimit  = 1 << 17 // the expander is only used with limits up to this (bounds real allocations)
)

// ---------------------------------------------------------------- expander compressor

// The expander's compressed form is 9 bytes: big-endian uint64 N, seed byte.
// Decompress yields N bytes seed+7*i without materialising them; the reader
// counts the bytes pulled from it.
type vfC06Expander struct{}

var (
	vfC06Pulled    atomic.Int64 // bytes handed out by expander readers since the last reset
	vfC06ExpOpened atomic.Int64
)

func (vfC06Expander) Name() string { return vfC06ExpanderName }

func (vfC06Expander) Compress(io.Writer) (io.WriteCloser, error) {
	return nil, errors.New("vfC06Expander: Compress is not used")
}

func vfC06ExpParse(b []byte) (n uint64, seed byte, err error) {
	if len(b) != 9 {
		return 0, 0, fmt.Errorf("vfC06Expander: payload has %d bytes, want 9", len(b))
	}
	n = binary.BigEndian.Uint64(b)
	if n > 1<<41 {
		return 0, 0, fmt.Errorf("vfC06Expander: size %d out of range", n)
	}
	return n, b[8], nil
}

func (vfC06Expander) Decompress(r io.Reader) (io.Reader, error) {
	b, err := io.ReadAll(io.LimitReader(r, 64))
	if err != nil {
		return nil, err
	}
	n, seed, err := vfC06ExpParse(b)
	if err != nil {
		return nil, err
	}
	vfC06ExpOpened.Add(1)
	return &vfC06ExpReader{left: n, seed: seed}, nil
}

type vfC06ExpReader struct {
	left uint64
	pos  uint64
	seed byte
}

func (r *vfC06ExpReader) Read(p []byte) (int, error) {
	if r.left == 0 {
		return 0, io.EOF
	}
	n := len(p)
	if uint64(n) > r.left {
		n = int(r.left)
	}
	for i := 0; i < n; i++ {
		p[i] = r.seed + byte(7*(r.pos+uint64(i)))
	}
	r.pos += uint64(n)
	r.left -= uint64(n)
	vfC06Pulled.Add(int64(n))
	return n, nil
}

func vfC06ExpBytes(n uint64, seed byte) []byte {
	b := make([]byte, n)
	for i := range b {
		b[i] = seed + byte(7*uint64(i))
	}
	return b
}

func init() { encoding.RegisterCompressor(vfC06Expander{}) }

// vfC06Counting wraps a registered compressor (gzip) so that the bytes the code
// under test pulls out of its Decompress reader are counted as well.
type vfC06Counting struct{ encoding.Compressor }

type vfC06CountingReader struct{ r io.Reader }

func (c vfC06CountingReader) Read(p []byte) (int, error) {
	n, err := c.r.Read(p)
	vfC06Pulled.Add(int64(n))
	return n, err
}

func (c vfC06CountingReader) Close() error {
	if cl, ok := c.r.(io.Closer); ok {
		return cl.Close()
	}
	return nil
}

func (c vfC06Counting) Decompress(r io.Reader) (io.Reader, error) {
	in, err := c.Compressor.Decompress(r)
	if err != nil {
		return nil, err
	}
	return vfC06CountingReader{in}, nil
}

// ---------------------------------------------------------------- stream reader

// vfC06Reader serves data in chunks (sizes cycled from chunks). Semantics follow
// transport.Stream: ReadMessageHeader fills the header completely or fails
// (endErr if nothing was available, io.ErrUnexpectedEOF for a partial header at
// a clean io.EOF end); Read(n) returns exactly n bytes as one buffer per chunk,
// or fails without data.
type vfC06Reader struct {
	data   []byte
	chunks []int
	ci     int
	endErr error
	multi  bool // some Read returned more than one buffer
}

func (r *vfC06Reader) next(max int) []byte {
	if len(r.data) == 0 || max == 0 {
		return nil
	}
	c := 1 << 30
	if len(r.chunks) > 0 {
		c = r.chunks[r.ci%len(r.chunks)]
		r.ci++
		if c < 1 {
			c = 1
		}
	}
	if c > max {
		c = max
	}
	if c > len(r.data) {
		c = len(r.data)
	}
	b := r.data[:c]
	r.data = r.data[c:]
	return b
}

func (r *vfC06Reader) ReadMessageHeader(h []byte) error {
	got := 0
	for got < len(h) {
		b := r.next(len(h) - got)
		if len(b) == 0 {
			if got > 0 && r.endErr == io.EOF {
				return io.ErrUnexpectedEOF
			}
			return r.endErr
		}
		copy(h[got:], b)
		got += len(b)
	}
	return nil
}

func (r *vfC06Reader) Read(n int) (mem.BufferSlice, error) {
	out := mem.BufferSlice{}
	for n > 0 {
		b := r.next(n)
		if len(b) == 0 {
			out.Free()
			return nil, r.endErr // transport.Stream.read reports io.EOF here; recvMsg maps it
		}
		out = append(out, mem.SliceBuffer(append([]byte(nil), b...)))
		n -= len(b)
	}
	if len(out) > 1 {
		r.multi = true
	}
	return out, nil
}

type vfC06RC string

func (s vfC06RC) RecvCompress() string { return string(s) }

// ---------------------------------------------------------------- plan

type vfC06Msg struct {
	Comp    bool  `json:"comp"`    // sender compresses with the stream's encoding (gzip / expander) and sets flag 1
	Len     int64 `json:"len"`     // size of the (uncompressed) message; expander: up to 2^40
	Seed    int   `json:"seed"`    // content pattern
	Zero    bool  `json:"zero"`    // all-zero content (highly compressible)
	Flag    int   `json:"flag"`    // -1: natural flag; else this byte
	Lie     int64 `json:"lie"`     // added to the declared length
	LieMax  bool  `json:"liemax"`  // declared length = 2^32-1
	Corrupt int   `json:"corrupt"` // -1: none; else XOR 0x55 into payload byte Corrupt mod len
}

type vfC06Plan struct {
	Enc       string     `json:"enc"`    // grpc-encoding of the stream
	Legacy    bool       `json:"legacy"` // receiver configured the legacy NewGZIPDecompressor()
	Server    bool       `json:"server"`
	Limit     int64      `json:"limit"` // maxReceiveMessageSize
	PayInfo   bool       `json:"payinfo"`
	Msgs      []vfC06Msg `json:"msgs,omitempty"`
	Raw       []byte     `json:"raw,omitempty"` // fuzz mode: the byte stream itself
	Chunks    []int      `json:"chunks"`
	Trunc     int        `json:"trunc"` // -1: none; else cut the stream to Trunc mod (len+1) bytes
	EndStatus bool       `json:"endstatus"`
}

func vfC06Content(m vfC06Msg) []byte {
	b := make([]byte, m.Len)
	if !m.Zero {
		for i := range b {
			b[i] = byte(m.Seed + i*13 + i/256)
		}
	}
	return b
}

func vfC06Gzip(b []byte) []byte {
	var buf bytes.Buffer
	w := gzip.NewWriter(&buf)
	w.Write(b)
	w.Close()
	return buf.Bytes()
}

// vfC06Stream builds the byte stream a sender described by the plan emits.
func vfC06Stream(p vfC06Plan) []byte {
	if p.Raw != nil {
		return p.Raw
	}
	var s []byte
	for _, m := range p.Msgs {
		var payload []byte
		flag := byte(0)
		switch {
		case m.Comp && p.Enc == vfC06ExpanderName:
			payload = make([]byte, 9)
			binary.BigEndian.PutUint64(payload, uint64(m.Len))
			payload[8] = byte(m.Seed)
			flag = 1
		case m.Comp && p.Enc == "gzip":
			payload = vfC06Gzip(vfC06Content(m))
			flag = 1
		case m.Comp: // no way to compress: raw payload with the compressed flag
			payload = vfC06Content(m)
			flag = 1
		default:
			payload = vfC06Content(m)
		}
		if m.Corrupt >= 0 && len(payload) > 0 {
			payload[m.Corrupt%len(payload)] ^= 0x55
		}
		if m.Flag >= 0 {
			flag = byte(m.Flag)
		}
		decl := int64(len(payload)) + m.Lie
		if m.LieMax {
			decl = math.MaxUint32
		}
		if decl < 0 {
			decl = 0
		}
		if decl > math.MaxUint32 {
			decl = math.MaxUint32
		}
		var h [5]byte
		h[0] = flag
		binary.BigEndian.PutUint32(h[1:], uint32(decl))
		s = append(s, h[:]...)
		s = append(s, payload...)
	}
	if p.Trunc >= 0 {
		s = s[:p.Trunc%(len(s)+1)]
	}
	return s
}

// ---------------------------------------------------------------- reference

const (
	vfC06EvMsg = iota
	vfC06EvExhausted
	vfC06EvError // any error except io.EOF; never a message
	vfC06EvEnd   // clean end of stream: the reader's end error (io.EOF) is passed through
)

type vfC06Event struct {
	kind     int
	msg      []byte
	declared int
	why      string
	expander bool // message decompressed through the expander
}

// vfC06Usable: does the receiver have a usable decompressor for the stream's encoding?
func vfC06Usable(p vfC06Plan) bool {
	switch p.Enc {
	case "gzip", vfC06ExpanderName:
		return true
	}
	return false
}

// vfC06Reference parses the stream independently of the code under test and
// returns the events a receiver with the given limit must produce (it stops at
// the first event that is not a message).
func vfC06Reference(s []byte, p vfC06Plan) []vfC06Event {
	var evs []vfC06Event
	limit := p.Limit
	for {
		if len(s) == 0 {
			return append(evs, vfC06Event{kind: vfC06EvEnd})
		}
		if len(s) < 5 {
			return append(evs, vfC06Event{kind: vfC06EvError, why: "stream ends inside a message header"})
		}
		flag, decl := s[0], int64(binary.BigEndian.Uint32(s[1:5]))
		s = s[5:]
		if decl > limit {
			return append(evs, vfC06Event{kind: vfC06EvExhausted, why: fmt.Sprintf("declared length %d > limit %d", decl, limit)})
		}
		if int64(len(s)) < decl {
			return append(evs, vfC06Event{kind: vfC06EvError, why: "stream ends inside a message payload"})
		}
		payload := s[:decl]
		s = s[decl:]
		switch flag {
		case 0:
			evs = append(evs, vfC06Event{kind: vfC06EvMsg, msg: payload, declared: int(decl)})
			continue
		case 1:
		default:
			return append(evs, vfC06Event{kind: vfC06EvError, why: fmt.Sprintf("unknown flag value %d", flag)})
		}
		if p.Enc == "" || p.Enc == "identity" || !vfC06Usable(p) {
			return append(evs, vfC06Event{kind: vfC06EvError, why: "compressed flag without a usable decompressor (encoding " + strconv.Quote(p.Enc) + ")"})
		}
		if p.Enc == vfC06ExpanderName {
			n, seed, err := vfC06ExpParse(payload)
			if err != nil {
				return append(evs, vfC06Event{kind: vfC06EvError, why: "payload does not decompress"})
			}
			if int64(n) > limit {
				return append(evs, vfC06Event{kind: vfC06EvExhausted, why: fmt.Sprintf("decompressed size %d > limit %d", n, limit), expander: true})
			}
			evs = append(evs, vfC06Event{kind: vfC06EvMsg, msg: vfC06ExpBytes(n, seed), declared: int(decl), expander: true})
			continue
		}
		// gzip, decoded with the standard library directly
		var plain []byte
		zr, err := gzip.NewReader(bytes.NewReader(payload))
		if err == nil {
			plain, err = io.ReadAll(zr)
		}
		if err != nil {
			// A receiver that stops reading at limit+1 bytes may report the size
			// violation before reaching the corruption: any error is fine.
			return append(evs, vfC06Event{kind: vfC06EvError, why: "payload does not decompress: " + err.Error()})
		}
		if int64(len(plain)) > limit {
			return append(evs, vfC06Event{kind: vfC06EvExhausted, why: fmt.Sprintf("decompressed size %d > limit %d", len(plain), limit)})
		}
		evs = append(evs, vfC06Event{kind: vfC06EvMsg, msg: plain, declared: int(decl)})
	}
}

// ---------------------------------------------------------------- run

var vfC06EndStatusErr = status.Error(codes.Unavailable, "vfC06: stream reset")

var vfC06LegacyRE = regexp.MustCompile(`message after decompression larger than max \((\d+) vs\. (\d+)\)`)

func vfC06Run(_ *testing.T, p vfC06Plan) vk.Result {
	if p.Limit < 0 || (p.Enc == vfC06ExpanderName && p.Limit > vfC06MaxExpLimit) || (p.Enc == vfC06UnknownName && p.Server) {
		return vk.Result{Discard: true}
	}
	for _, m := range p.Msgs {
		if m.Len < 0 || (m.Len > 2<<20 && !(m.Comp && p.Enc == vfC06ExpanderName)) {
			return vk.Result{Discard: true}
		}
	}
	stream := vfC06Stream(p)
	if len(stream) > 8<<20 {
		return vk.Result{Discard: true}
	}
	want := vfC06Reference(stream, p)

	// receiver set-up, as csAttempt.recvMsg / serverStream do it
	var dc Decompressor
	var comp encoding.Compressor
	if p.Legacy {
		dc = NewGZIPDecompressor()
	}
	if ct := p.Enc; ct != "" && ct != encoding.Identity {
		if dc == nil || dc.Type() != ct {
			dc = nil
			comp = encoding.GetCompressor(ct)
			if comp != nil && ct != vfC06ExpanderName {
				comp = vfC06Counting{comp}
			}
		}
	} else {
		dc = nil
	}
	rd := &vfC06Reader{data: append([]byte(nil), stream...), chunks: p.Chunks, endErr: io.EOF}
	if p.EndStatus {
		rd.endErr = vfC06EndStatusErr
	}
	ps := &parser{r: rd, bufferPool: mem.DefaultBufferPool()}
	limit := int(p.Limit)

	res := vk.Result{}
	cls := map[string]bool{}
	for i, ev := range want {
		var pi *payloadInfo
		if p.PayInfo {
			pi = &payloadInfo{}
		}
		vfC06Pulled.Store(0)
		out, err := recvAndDecompress(ps, vfC06RC(p.Enc), dc, limit, pi, comp, p.Server)
		pulled := vfC06Pulled.Load()
		var got []byte
		if err == nil {
			got = out.Materialize()
			if pi != nil {
				if pi.compressedLength != ev.declared && ev.kind == vfC06EvMsg {
					return vk.Bad("message %d: payloadInfo.compressedLength=%d, wire length %d", i, pi.compressedLength, ev.declared)
				}
				if ub := pi.uncompressedBytes.Materialize(); !bytes.Equal(ub, got) {
					return vk.Bad("message %d: payloadInfo.uncompressedBytes differs from the returned message", i)
				}
				pi.free()
			}
			out.Free()
		}
		if p.Limit < math.MaxInt64 && pulled > p.Limit+1 {
			return vk.Bad("event %d: %d bytes were pulled from the decompressor, limit+1 = %d", i, pulled, p.Limit+1)
		}
		if err != nil {
			if m := vfC06LegacyRE.FindStringSubmatch(err.Error()); m != nil && dc != nil {
				if n, _ := strconv.ParseInt(m[1], 10, 64); n > p.Limit+1 {
					return vk.Bad("event %d: legacy gzip path materialised %d bytes, limit+1 = %d (%v)", i, n, p.Limit+1, err)
				}
				cls["legacy_materialised_size_checked"] = true
			}
		}
		res.Steps++
		switch ev.kind {
		case vfC06EvMsg:
			if err != nil {
				return vk.Bad("event %d: want message of %d bytes, got error %v", i, len(ev.msg), err)
			}
			if !bytes.Equal(got, ev.msg) {
				return vk.Bad("event %d: message differs from the reference (got %d bytes, want %d bytes)", i, len(got), len(ev.msg))
			}
			if d := int64(len(ev.msg)) - p.Limit; d == 0 || d == -1 {
				cls["msg_at_limit_or_limit-1"] = true
			}
			if ev.expander {
				cls["expander_msg"] = true
			}
		case vfC06EvExhausted:
			if err == nil {
				return vk.Bad("event %d: want RESOURCE_EXHAUSTED (%s), got a message of %d bytes", i, ev.why, len(got))
			}
			if status.Code(err) != codes.ResourceExhausted {
				return vk.Bad("event %d: want RESOURCE_EXHAUSTED (%s), got %v", i, ev.why, err)
			}
			cls["exhausted:"+ev.why[:8]] = true
			if ev.expander {
				cls["expander_over_limit(pulled<=limit+1 checked)"] = true
			}
			if pulled > 0 && !ev.expander {
				cls["gzip_over_limit(pulled<=limit+1 checked)"] = true
			}
			if pulled == p.Limit+1 {
				cls["pulled==limit+1"] = true
			}
		case vfC06EvError:
			if err == nil {
				return vk.Bad("event %d: want an error (%s), got a message of %d bytes", i, ev.why, len(got))
			}
			if err == io.EOF {
				return vk.Bad("event %d: want an error (%s), got io.EOF (clean end of stream)", i, ev.why)
			}
			cls["error:"+ev.why[:min(len(ev.why), 18)]] = true
			cls["error_code_"+status.Code(err).String()] = true
		case vfC06EvEnd:
			if err != rd.endErr {
				return vk.Bad("event %d: want the end-of-stream error %v, got message=%v err=%v", i, rd.endErr, err == nil, err)
			}
		}
	}
	// ---- classes and the non-trivial rule
	nt := false
	if rd.multi {
		cls["multi_buffer_payload"] = true
	}
	if p.Raw == nil {
		for _, m := range p.Msgs {
			near := m.Len >= p.Limit-1 && m.Len <= p.Limit+1
			if near {
				cls["size_within_1_of_limit"] = true
				if m.Comp && vfC06Usable(p) {
					cls["compressed_size_within_1_of_limit"] = true
				}
			}
			lie := m.Lie != 0 || m.LieMax
			oddFlag := m.Flag >= 0
			if lie {
				cls["lying_prefix"] = true
			}
			if oddFlag {
				cls["explicit_flag"] = true
			}
			if m.Corrupt >= 0 {
				cls["corrupted_payload"] = true
			}
			if m.Comp && vfC06Usable(p) && m.Len > p.Limit+1 {
				cls["zip_bomb"] = true
				nt = true
			}
			if near || lie || oddFlag || (m.Comp && !vfC06Usable(p)) {
				nt = true
			}
		}
		if p.Trunc >= 0 {
			cls["truncated_stream"] = true
			nt = true
		}
	} else {
		nt = len(want) > 1 || want[0].kind != vfC06EvEnd
	}
	if dc != nil {
		cls["legacy_gzip_decompressor"] = true
	}
	cls["enc_"+p.Enc] = true
	msgs := 0
	for _, ev := range want {
		if ev.kind == vfC06EvMsg {
			msgs++
		}
	}
	if msgs >= 2 {
		cls["msgs>=2"] = true
	}
	res.NonTrivial = nt
	for c := range cls {
		res.Classes = append(res.Classes, c)
	}
	vfC06SortStrings(res.Classes)
	return res
}

func vfC06SortStrings(s []string) {
	for i := 1; i < len(s); i++ {
		for j := i; j > 0 && s[j] < s[j-1]; j-- {
			s[j], s[j-1] = s[j-1], s[j]
		}
	}
}

// ---------------------------------------------------------------- generator

func vfC06GenSize(rt *rapid.T, limit int64, label string) int64 {
	base := limit
	if base > 70000 {
		base = 70000
	}
	switch rapid.IntRange(0, 7).Draw(rt, label+"_kind") {
	case 0:
		return 0
	case 1:
		if limit > 70000 {
			return rapid.Int64Range(0, 3000).Draw(rt, label)
		}
		return max(limit-1, 0)
	case 2:
		if limit > 70000 {
			return rapid.Int64Range(0, 300).Draw(rt, label)
		}
		return limit
	case 3:
		if limit > 70000 {
			return rapid.Int64Range(0, 70000).Draw(rt, label)
		}
		return limit + 1
	case 4:
		return rapid.Int64Range(0, 2*base+2).Draw(rt, label)
	case 5:
		return rapid.Int64Range(0, 40).Draw(rt, label)
	default:
		return rapid.Int64Range(0, base+1).Draw(rt, label)
	}
}

func vfC06Gen(rt *rapid.T) vfC06Plan {
	p := vfC06Plan{Trunc: -1}
	p.Enc = rapid.SampledFrom([]string{"", "identity", "gzip", "gzip", "gzip", vfC06ExpanderName, vfC06ExpanderName, vfC06UnknownName}).Draw(rt, "enc")
	p.Legacy = rapid.IntRange(0, 2).Draw(rt, "legacy") == 0
	p.Server = rapid.Bool().Draw(rt, "server") && p.Enc != vfC06UnknownName
	p.PayInfo = rapid.Bool().Draw(rt, "payinfo")
	switch rapid.IntRange(0, 9).Draw(rt, "limit_kind") {
	case 0, 1, 2:
		p.Limit = rapid.Int64Range(0, 64).Draw(rt, "limit")
	case 3, 4, 5:
		p.Limit = rapid.Int64Range(0, 5000).Draw(rt, "limit")
	case 6, 7:
		p.Limit = rapid.Int64Range(0, 70000).Draw(rt, "limit")
	case 8:
		p.Limit = rapid.SampledFrom([]int64{math.MaxInt32, math.MaxInt32 + 1, math.MaxUint32, math.MaxInt64 - 1, math.MaxInt64}).Draw(rt, "limit")
	default:
		p.Limit = rapid.SampledFrom([]int64{0, 1, 4, 5, 9, 10}).Draw(rt, "limit")
	}
	if p.Enc == vfC06ExpanderName && p.Limit > vfC06MaxExpLimit {
		p.Limit = vfC06MaxExpLimit
	}
	n := rapid.IntRange(1, vk.Pick(4, 8)).Draw(rt, "nmsgs")
	// anomaly table: rapid favours low indices, "none" comes first
	anomalies := []string{"none", "none", "none", "none", "none", "none", "none", "none", "bomb", "over", "flag", "lie", "corrupt", "nodecomp"}
	for i := 0; i < n; i++ {
		m := vfC06Msg{Flag: -1, Corrupt: -1, Seed: rapid.IntRange(0, 255).Draw(rt, "seed")}
		usable := vfC06Usable(p)
		m.Comp = usable && rapid.IntRange(0, 3).Draw(rt, "comp") > 0
		m.Zero = rapid.IntRange(0, 3).Draw(rt, "zero") == 3
		m.Len = vfC06GenSize(rt, p.Limit, "len")
		if m.Comp && p.Enc == "gzip" && p.Limit < 200 {
			m.Zero = true // otherwise the gzip framing overhead alone exceeds a small limit
		}
		an := rapid.SampledFrom(anomalies).Draw(rt, "anomaly")
		if i == n-1 && rapid.IntRange(0, 2).Draw(rt, "last_anomaly") == 2 {
			an = rapid.SampledFrom(anomalies[8:]).Draw(rt, "anomaly_last")
		}
		if an != "over" && an != "bomb" && m.Len > p.Limit {
			m.Len = p.Limit // messages over the limit end the stream: only where intended
			if m.Len > 70000 {
				m.Len = 70000
			}
		}
		switch an {
		case "over":
			if p.Limit < 70000 {
				m.Len = p.Limit + rapid.Int64Range(1, 3).Draw(rt, "over_by")
			}
		case "bomb": // decompresses to more than the limit although the wire size is small
			if usable {
				m.Comp, m.Zero = true, true
				if p.Enc == vfC06ExpanderName {
					m.Len = rapid.SampledFrom([]int64{p.Limit + 1, p.Limit + 2, 2*p.Limit + 1, 1 << 20, 1 << 32, 1 << 40}).Draw(rt, "bomblen")
				} else if p.Limit < 70000 {
					m.Len = rapid.SampledFrom([]int64{p.Limit + 1, p.Limit + 2, 2*p.Limit + 1, 10*p.Limit + 7, 1 << 16, 1 << 20}).Draw(rt, "bomblen")
				}
			}
		case "flag":
			m.Flag = rapid.SampledFrom([]int{0, 1, 2, 3, 0x80, 0x81, 0xfe, 0xff}).Draw(rt, "flag")
			if rapid.Bool().Draw(rt, "anyflag") {
				m.Flag = rapid.IntRange(0, 255).Draw(rt, "flagbyte")
			}
		case "lie":
			switch rapid.IntRange(0, 4).Draw(rt, "lie_kind") {
			case 0:
				m.Lie = -1
			case 1:
				m.Lie = 1
			case 2:
				m.Lie = rapid.Int64Range(-10, 10).Draw(rt, "lie_d")
			case 3:
				m.Lie = rapid.Int64Range(-70000, 70000).Draw(rt, "lie_big")
			default:
				m.LieMax = true
			}
		case "corrupt":
			m.Corrupt = rapid.IntRange(0, 1<<16).Draw(rt, "corrupt_pos")
		case "nodecomp": // compressed flag although the receiver has no usable decompressor
			if !usable {
				m.Comp = true
			}
		}
		p.Msgs = append(p.Msgs, m)
	}
	p.Chunks = rapid.SliceOfN(rapid.SampledFrom([]int{1, 2, 3, 4, 5, 7, 16, 100, 4096, 16384, 1 << 20}), 1, 6).Draw(rt, "chunks")
	if rapid.IntRange(0, 7).Draw(rt, "trunc") == 7 {
		p.Trunc = rapid.IntRange(0, 1<<20).Draw(rt, "trunc_at")
	}
	p.EndStatus = rapid.IntRange(0, 5).Draw(rt, "endstatus") == 5
	return p
}

func TestVerifC06Framing(t *testing.T) {
	vk.Check(t, vk.Unit[vfC06Plan]{
		ID: "C06", Name: "framing",
		Rule: "1..4 (thorough 8) messages; sizes 0, limit-1, limit, limit+1, random up to 2*limit+2 (<= 70000; gzip zero-bombs up to 2^20, expander 'bombs' up to 2^40); encodings '', identity, gzip (registered, or legacy NewGZIPDecompressor in 1/3), a harness expander compressor that counts pulled bytes, an unregistered name; limits 0..64, ..5000, ..70000, MaxInt32(+1), MaxUint32, MaxInt64(-1); per message an anomaly from {none x8, zip bomb, over limit, explicit flag byte 0..255, lying length prefix (+-1, +-10, +-70000, 2^32-1), corrupted payload byte, flag 1 without decompressor} (the last message gets one in 1/3), 1/8 truncated stream, chunkings from {1..7,16,100,4096,16384,2^20}. non-trivial = a message size within +-1 of the limit, or a zip bomb / lying prefix / explicit flag / flag without usable decompressor / truncation",
		Gen:  vfC06Gen, Run: vfC06Run,
	})
}

// ---------------------------------------------------------------- fuzz

// vfC06Decode maps fuzz bytes to a raw-stream plan: 4 configuration bytes,
// then the stream itself.
func vfC06Decode(b []byte) (vfC06Plan, bool) {
	if len(b) < 4 || len(b) > 4096 {
		return vfC06Plan{}, false
	}
	p := vfC06Plan{Trunc: -1, Raw: append([]byte{}, b[4:]...)}
	p.Enc = []string{"", "identity", "gzip", vfC06ExpanderName, vfC06UnknownName, "gzip", "gzip", vfC06ExpanderName}[b[0]&7]
	p.Legacy = b[0]&8 != 0
	p.Server = b[0]&16 != 0 && p.Enc != vfC06UnknownName
	p.PayInfo = b[0]&32 != 0
	p.EndStatus = b[0]&64 != 0
	switch {
	case b[1] < 200:
		p.Limit = int64(b[1])
	case b[1] < 250:
		p.Limit = int64(b[1]-200) * 1000
	default:
		p.Limit = []int64{math.MaxInt32, math.MaxUint32, math.MaxInt64, 1 << 17, 65535, 65536}[b[1]-250]
	}
	if p.Enc == vfC06ExpanderName && p.Limit > vfC06MaxExpLimit {
		p.Limit = vfC06MaxExpLimit
	}
	p.Chunks = []int{int(b[2])%17 + 1, int(b[3]) + 1}
	return p, true
}

func FuzzVerifC06Framing(f *testing.F) {
	hdr := func(flag byte, n uint32, payload []byte) []byte {
		h := []byte{flag, 0, 0, 0, 0}
		binary.BigEndian.PutUint32(h[1:], n)
		return append(h, payload...)
	}
	gz := vfC06Gzip([]byte("hello hello hello hello"))
	bomb := vfC06Gzip(make([]byte, 1<<16))
	exp := make([]byte, 9)
	binary.BigEndian.PutUint64(exp, 1<<40)
	seeds := [][]byte{
		append([]byte{0, 10, 0, 0}, hdr(0, 3, []byte("abc"))...),
		append([]byte{2, 23, 1, 2}, hdr(1, uint32(len(gz)), gz)...),
		append([]byte{2 | 8, 22, 1, 2}, hdr(1, uint32(len(gz)), gz)...),
		append([]byte{2, 100, 3, 200}, hdr(1, uint32(len(bomb)), bomb)...),
		append([]byte{2 | 8, 100, 3, 200}, hdr(1, uint32(len(bomb)), bomb)...),
		append([]byte{3, 100, 0, 0}, hdr(1, 9, exp)...),
		append([]byte{0, 10, 0, 0}, hdr(2, 1, []byte("a"))...),
		append([]byte{4, 10, 0, 0}, hdr(1, 1, []byte("a"))...),
		append([]byte{0, 2, 0, 0}, append(hdr(0, 2, []byte("ab")), hdr(0, 3, []byte("abc"))...)...),
	}
	vk.Fuzz(f, vk.Unit[vfC06Plan]{ID: "C06", Name: "framing", Run: vfC06Run}, seeds, vfC06Decode)
}
