package server

// C49, unit "accept": filter chain selection for an *incoming connection*, end
// to end through the real listenerWrapper.
//
// The "chains" unit (verif_c49_test.go) drives filterChainManager.lookup
// directly with netip.Addr values. Here the whole path of "selection for an
// incoming connection" is the code under test: NewListenerWrapper over a
// harness net.Listener, the generated Listener resource delivered through the
// LDS watcher registered with a harness XDSClient (plus the RDS updates that
// make the listener SERVING), and listenerWrapper.Accept() on harness
// net.Conn values whose LocalAddr()/RemoteAddr() are generated *net.TCPAddr
// values (IPv4 in 4-byte form, IPv4 in 16-byte v4-mapped form, IPv6, IPv6 with
// zone) or non-TCP address types. The selected chain is read from the returned
// *connWrapper (white-box). Oracle: the independent most-specific-match
// reference of the chains unit evaluated on the semantic addresses, plus
// metamorphic relations between the representations of one address.

import (
	"errors"
	"fmt"
	"net"
	"net/netip"
	"sort"
	"strings"
	"testing"
	"time"

	"google.golang.org/grpc/connectivity"
	"google.golang.org/grpc/internal/verifkit/vk"
	"google.golang.org/grpc/internal/xds/bootstrap"
	"google.golang.org/grpc/internal/xds/clients/xdsclient"
	"google.golang.org/grpc/internal/xds/xdsclient/xdsresource"
	"google.golang.org/grpc/internal/xds/xdsclient/xdsresource/version"
	"google.golang.org/protobuf/types/known/anypb"
	"pgregory.net/rapid"
)

// ---- plan ------------------------------------------------------------------------

type vfC49AccAddr struct {
	IP   string `json:"ip"`   // semantic address: unmapped, no zone
	Wide bool   `json:"wide"` // an IPv4 address presented in 16-byte (v4-mapped) form
	Zone string `json:"zone"` // IPv6 only
	Kind int    `json:"kind"` // 0 *net.TCPAddr, 1 *net.UnixAddr, 2 *net.UDPAddr, 3 *net.IPAddr, 4 harness addr type
}

type vfC49AccConn struct {
	Local  vfC49AccAddr `json:"local"`
	Remote vfC49AccAddr `json:"remote"`
	LPort  int          `json:"lport"`
	SPort  int          `json:"sport"`
}

type vfC49AccPlan struct {
	Lis         vfC49Plan      `json:"lis"` // wildcard, chains, has_default (no conns)
	LisIP       string         `json:"lis_ip"`
	LisWide     bool           `json:"lis_wide"`
	LisPort     int            `json:"lis_port"`
	ResPortZero bool           `json:"res_port_zero"` // the Listener resource carries port 0 (= any listening port)
	Conns       []vfC49AccConn `json:"conns"`
}

var vfC49AccLisPorts = []int{8080, 443, 1000, 65535, 1}

func vfC49AccIsV6(s string) bool { return strings.Contains(s, ":") }

// vfC49AccRepair removes static overlaps by construction (duplicates inside a
// chain are dropped, a chain with a match tuple that an earlier chain already
// has is dropped): configurations that validation rejects are outside this
// unit's domain (the chains unit judges validation). Uses only the reference.
func vfC49AccRepair(chains []vfC49Chain) []vfC49Chain {
	seen := map[vfC49Tuple]bool{}
	var out []vfC49Chain
	dedupe := func(ps []vfC49Prefix) ([]vfC49Prefix, []vfC49RefPrefix, bool) {
		var keep []vfC49Prefix
		var ref []vfC49RefPrefix
		have := map[vfC49RefPrefix]bool{}
		for _, p := range ps {
			rp, ok := vfC49MkPrefix(p)
			if !ok {
				return nil, nil, false
			}
			if !have[rp] {
				have[rp] = true
				keep = append(keep, p)
				ref = append(ref, rp)
			}
		}
		return keep, ref, true
	}
	for _, c := range chains {
		dst, rdst, ok1 := dedupe(c.Dst)
		src, rsrc, ok2 := dedupe(c.Src)
		if !ok1 || !ok2 {
			continue
		}
		var ports []uint32
		hp := map[uint32]bool{}
		for _, p := range c.Ports {
			if !hp[p] {
				hp[p] = true
				ports = append(ports, p)
			}
		}
		ts := vfC49Tuples(vfC49RefChain{dst: rdst, src: rsrc, stype: c.SType, ports: ports})
		clash := false
		for _, t := range ts {
			clash = clash || seen[t]
		}
		if clash {
			continue
		}
		for _, t := range ts {
			seen[t] = true
		}
		out = append(out, vfC49Chain{Dst: dst, SType: c.SType, Src: src, Ports: ports})
	}
	return out
}

func vfC49AccGenPlan(rt *rapid.T) vfC49AccPlan {
	p := vfC49AccPlan{Lis: vfC49GenChains(rt)}
	p.Lis.Chains = vfC49AccRepair(p.Lis.Chains)
	p.LisPort = rapid.SampledFrom(vfC49AccLisPorts).Draw(rt, "lis_port")
	p.ResPortZero = rapid.IntRange(0, 5).Draw(rt, "res_port_zero") == 0

	// pick an address: inside one of the configured prefixes (their base
	// addresses are pool addresses) or any pool address; fam: 0 any, 4, 6
	pick := func(label string, fromDst bool, fam int) string {
		if rapid.IntRange(0, 2).Draw(rt, label+"_rel") > 0 && len(p.Lis.Chains) > 0 {
			var cands []string
			for _, c := range p.Lis.Chains {
				ps := c.Src
				if fromDst {
					ps = c.Dst
				}
				for _, q := range ps {
					if fam == 0 || (fam == 6) == vfC49AccIsV6(q.Addr) {
						cands = append(cands, q.Addr)
					}
				}
			}
			if len(cands) > 0 {
				return cands[rapid.IntRange(0, len(cands)-1).Draw(rt, label+"_pfx")]
			}
		}
		switch fam {
		case 4:
			return rapid.SampledFrom(vfC49V4).Draw(rt, label)
		case 6:
			return rapid.SampledFrom(vfC49V6).Draw(rt, label)
		}
		return vfC49GenAddr(rt, label)
	}

	specificIP := ""
	if !p.Lis.Wildcard {
		specificIP = pick("lis_ip", true, 0)
	}
	nc := rapid.IntRange(1, 8).Draw(rt, "nconns")
	anyV6 := false
	for i := 0; i < nc; i++ {
		var cn vfC49AccConn
		dst := specificIP
		if p.Lis.Wildcard {
			dst = pick("cdst", true, 0)
		}
		fam := 0
		if rapid.IntRange(0, 3).Draw(rt, "same_family") > 0 {
			fam = 4
			if vfC49AccIsV6(dst) {
				fam = 6
			}
		}
		src := pick("csrc", false, fam)
		switch rapid.IntRange(0, 5).Draw(rt, "same") {
		case 0:
			src = dst // same IP
		case 1:
			if vfC49AccIsV6(dst) {
				src = "::1"
			} else {
				src = rapid.SampledFrom([]string{"127.0.0.1", "127.1.2.3"}).Draw(rt, "loop")
			}
		}
		anyV6 = anyV6 || vfC49AccIsV6(dst) || vfC49AccIsV6(src)
		cn.Local.IP, cn.Remote.IP = dst, src
		// representation
		if !vfC49AccIsV6(dst) {
			cn.Local.Wide = rapid.IntRange(0, 4).Draw(rt, "local_wide") < 3
		}
		if !vfC49AccIsV6(src) {
			cn.Remote.Wide = rapid.IntRange(0, 4).Draw(rt, "remote_wide") < 3
		}
		// link-local IPv6 addresses of one connection carry the interface zone
		zone := rapid.SampledFrom([]string{"", "eth0", "eth0", "7"}).Draw(rt, "zone")
		if strings.HasPrefix(dst, "fe80:") {
			cn.Local.Zone = zone
		}
		if strings.HasPrefix(src, "fe80:") {
			cn.Remote.Zone = zone
		}
		// ports
		cn.LPort = p.LisPort
		if rapid.IntRange(0, 5).Draw(rt, "lport_other") == 0 {
			cn.LPort = int(rapid.SampledFrom(vfC49Ports).Draw(rt, "lport"))
		}
		switch rapid.IntRange(0, 5).Draw(rt, "port_rel") {
		case 0, 1, 2:
			cn.SPort = int(rapid.SampledFrom(vfC49Ports).Draw(rt, "sport"))
		case 3:
			cn.SPort = p.LisPort
		default:
			cn.SPort = rapid.IntRange(1, 65535).Draw(rt, "sport")
		}
		p.Conns = append(p.Conns, cn)
	}
	// at most one connection with a non-TCP address type
	if rapid.IntRange(0, 7).Draw(rt, "non_tcp") == 0 {
		cn := &p.Conns[rapid.IntRange(0, len(p.Conns)-1).Draw(rt, "non_tcp_conn")]
		kind := rapid.IntRange(1, 4).Draw(rt, "non_tcp_kind")
		switch rapid.IntRange(0, 2).Draw(rt, "non_tcp_side") {
		case 0:
			cn.Local.Kind = kind
		case 1:
			cn.Remote.Kind = kind
		default:
			cn.Local.Kind, cn.Remote.Kind = kind, kind
		}
	}
	// the listening address
	if p.Lis.Wildcard {
		p.LisIP = "::" // a dual-stack socket
		if !anyV6 && rapid.IntRange(0, 2).Draw(rt, "lis_v4") > 0 {
			p.LisIP = "0.0.0.0"
			p.LisWide = rapid.Bool().Draw(rt, "lis_wide")
		}
	} else {
		p.LisIP = specificIP
		if !vfC49AccIsV6(specificIP) {
			p.LisWide = rapid.Bool().Draw(rt, "lis_wide")
		}
	}
	return p
}

// ---- harness net.Listener / net.Conn / XDSClient ------------------------------------

type vfC49AccOtherAddr struct{ s string }

func (a *vfC49AccOtherAddr) Network() string { return "tcp" } // even a "tcp" network name does not make it a TCP address
func (a *vfC49AccOtherAddr) String() string  { return a.s }

func vfC49AccIPBytes(ip string, wide bool) (net.IP, bool) {
	a, err := netip.ParseAddr(ip)
	if err != nil || a.Zone() != "" || a.Is4In6() {
		return nil, false
	}
	if a.Is4() {
		b := a.As4()
		if wide {
			return net.IP{0, 0, 0, 0, 0, 0, 0, 0, 0, 0, 0xff, 0xff, b[0], b[1], b[2], b[3]}, true
		}
		return net.IP{b[0], b[1], b[2], b[3]}, true
	}
	b := a.As16()
	return net.IP(b[:]), true
}

func vfC49AccNetAddr(a vfC49AccAddr, port int) (net.Addr, bool) {
	ip, ok := vfC49AccIPBytes(a.IP, a.Wide)
	if !ok || (a.Zone != "" && !vfC49AccIsV6(a.IP)) || (a.Wide && vfC49AccIsV6(a.IP)) {
		return nil, false
	}
	switch a.Kind {
	case 0:
		return &net.TCPAddr{IP: ip, Port: port, Zone: a.Zone}, true
	case 1:
		return &net.UnixAddr{Name: "/verif/c49.sock", Net: "unix"}, true
	case 2:
		return &net.UDPAddr{IP: ip, Port: port, Zone: a.Zone}, true
	case 3:
		return &net.IPAddr{IP: ip, Zone: a.Zone}, true
	case 4:
		return &vfC49AccOtherAddr{s: net.JoinHostPort(a.IP, fmt.Sprint(port))}, true
	}
	return nil, false
}

type vfC49AccHConn struct {
	local, remote net.Addr
	closed        int
}

var errVfC49AccIO = errors.New("verif c49: harness conn carries no data")

func (c *vfC49AccHConn) Read([]byte) (int, error)         { return 0, errVfC49AccIO }
func (c *vfC49AccHConn) Write([]byte) (int, error)        { return 0, errVfC49AccIO }
func (c *vfC49AccHConn) Close() error                     { c.closed++; return nil }
func (c *vfC49AccHConn) LocalAddr() net.Addr              { return c.local }
func (c *vfC49AccHConn) RemoteAddr() net.Addr             { return c.remote }
func (c *vfC49AccHConn) SetDeadline(time.Time) error      { return nil }
func (c *vfC49AccHConn) SetReadDeadline(time.Time) error  { return nil }
func (c *vfC49AccHConn) SetWriteDeadline(time.Time) error { return nil }

// errVfC49AccDrained is what the harness listener returns (a permanent error)
// when no connection is queued: Accept() of the wrapper returns it after it
// closed-and-skipped the queued connection.
var errVfC49AccDrained = errors.New("verif c49: no connection queued")

type vfC49AccHListener struct {
	addr    *net.TCPAddr
	queue   []net.Conn
	accepts int
}

func (l *vfC49AccHListener) Accept() (net.Conn, error) {
	l.accepts++
	if len(l.queue) == 0 {
		return nil, errVfC49AccDrained
	}
	c := l.queue[0]
	l.queue = l.queue[1:]
	return c, nil
}
func (l *vfC49AccHListener) Close() error   { return nil }
func (l *vfC49AccHListener) Addr() net.Addr { return l.addr }

type vfC49AccWatchKey struct{ typeURL, name string }

type vfC49AccXDS struct {
	boot     *bootstrap.Config
	watchers map[vfC49AccWatchKey]xdsclient.ResourceWatcher
}

func (x *vfC49AccXDS) WatchResource(typeURL, name string, w xdsclient.ResourceWatcher) func() {
	k := vfC49AccWatchKey{typeURL, name}
	x.watchers[k] = w
	return func() {
		if x.watchers[k] == w {
			delete(x.watchers, k)
		}
	}
}
func (x *vfC49AccXDS) BootstrapConfig() *bootstrap.Config { return x.boot }

// ---- execution ----------------------------------------------------------------------

// vfC49AccAccept hands one connection to the wrapper and reports what was
// selected for it: "rc-<id>" / "rc-default" (route name of the selected chain),
// "" with rejected=true when the wrapper closed and skipped the connection, or
// errText for any other outcome.
func vfC49AccAccept(lw net.Listener, hl *vfC49AccHListener, local, remote net.Addr) (got string, rejected bool, errText string) {
	hc := &vfC49AccHConn{local: local, remote: remote}
	hl.queue = []net.Conn{hc}
	hl.accepts = 0
	conn, err := lw.Accept()
	hl.queue = nil
	if err != nil {
		if conn != nil {
			return "", false, fmt.Sprintf("Accept returned both a conn and an error (%v)", err)
		}
		if errors.Is(err, errVfC49AccDrained) && hl.accepts == 2 {
			if hc.closed == 0 {
				return "", false, "the connection was skipped by Accept without being closed"
			}
			return "", true, ""
		}
		return "", false, fmt.Sprintf("Accept error: %v", err)
	}
	cw, ok := conn.(*connWrapper)
	if !ok {
		return "", false, fmt.Sprintf("Accept returned a %T, no filter chain observable", conn)
	}
	if cw.Conn != net.Conn(hc) {
		return "", false, "Accept returned a wrapper around a different connection"
	}
	if hc.closed != 0 {
		return "", false, "Accept returned a connection that it closed"
	}
	if cw.filterChain == nil {
		return "", false, "Accept returned a connection without a filter chain"
	}
	return cw.filterChain.routeConfigName, false, ""
}

func vfC49AccIsV4Wide(a vfC49AccAddr) bool { return a.Kind == 0 && a.Wide && !vfC49AccIsV6(a.IP) }

func vfC49AccRun(_ *testing.T, p vfC49AccPlan) vk.Result {
	boot, err := vfC49Bootstrap()
	if err != nil {
		return vk.Bad("harness: bootstrap: %v", err)
	}
	// --- domain
	if len(p.Conns) == 0 || len(p.Conns) > 8 || p.LisPort < 1 || p.LisPort > 65535 {
		return vk.Result{Discard: true}
	}
	lisIP, ok := vfC49AccIPBytes(p.LisIP, p.LisWide)
	if !ok || (p.LisWide && vfC49AccIsV6(p.LisIP)) || p.Lis.Wildcard != (p.LisIP == "::" || p.LisIP == "0.0.0.0") {
		return vk.Result{Discard: true}
	}
	type hconn struct{ local, remote net.Addr }
	addrs := make([]hconn, len(p.Conns))
	for i, cn := range p.Conns {
		l, ok1 := vfC49AccNetAddr(cn.Local, cn.LPort)
		r, ok2 := vfC49AccNetAddr(cn.Remote, cn.SPort)
		if !ok1 || !ok2 || cn.SPort < 1 || cn.SPort > 65535 || cn.LPort < 1 || cn.LPort > 65535 {
			return vk.Result{Discard: true}
		}
		if !p.Lis.Wildcard && cn.Local.IP != p.LisIP {
			return vk.Result{Discard: true} // a listener bound to one address only accepts connections to it
		}
		if cn.Local.IP == cn.Remote.IP && cn.Local.Zone != cn.Remote.Zone {
			return vk.Result{Discard: true} // same address in two zones: "same IP" undefined
		}
		addrs[i] = hconn{l, r}
	}
	resPort := uint32(p.LisPort)
	if p.ResPortZero {
		resPort = 0
	}
	lis, ref, ok, err := vfC49Build(p.Lis, p.LisIP, resPort)
	if err != nil {
		return vk.Bad("harness: %v", err)
	}
	if !ok {
		return vk.Result{Discard: true}
	}
	a, err := anypb.New(lis)
	if err != nil {
		return vk.Bad("harness: %v", err)
	}
	dr, derr := xdsresource.NewListenerResourceTypeDecoder(boot, nil).Decode(xdsclient.NewAnyProto(a), xdsclient.DecodeOptions{})
	if derr != nil {
		return vk.Result{Discard: true} // validation rejects the set: outside this unit's domain
	}

	res := vk.Result{}
	if p.Lis.Wildcard {
		res.Classes = append(res.Classes, "wildcard_listener")
	} else {
		res.Classes = append(res.Classes, "specific_address_listener")
	}

	// --- the listener wrapper, brought to SERVING the way the xDS client does it
	hl := &vfC49AccHListener{addr: &net.TCPAddr{IP: lisIP, Port: p.LisPort}}
	fx := &vfC49AccXDS{boot: boot, watchers: map[vfC49AccWatchKey]xdsclient.ResourceWatcher{}}
	var modes []connectivity.ServingMode
	var modeErrs []error
	lw := NewListenerWrapper(ListenerWrapperParams{
		Listener:             hl,
		ListenerResourceName: "verif-listener",
		XDSClient:            fx,
		ModeCallback: func(_ net.Addr, m connectivity.ServingMode, err error) {
			modes = append(modes, m)
			modeErrs = append(modeErrs, err)
		},
	})
	defer lw.Close()
	ldsW := fx.watchers[vfC49AccWatchKey{version.V3ListenerURL, "verif-listener"}]
	if ldsW == nil {
		return vk.Bad("harness: NewListenerWrapper registered no Listener watch")
	}
	ldsW.ResourceChanged(dr.Resource, func() {})
	var routes []string
	for k := range fx.watchers {
		if k.typeURL == version.V3RouteConfigURL {
			routes = append(routes, k.name)
		}
	}
	sort.Strings(routes)
	for _, name := range routes {
		if w := fx.watchers[vfC49AccWatchKey{version.V3RouteConfigURL, name}]; w != nil {
			w.ResourceChanged(&xdsresource.RouteConfigResourceData{Resource: xdsresource.RouteConfigUpdate{}}, func() {})
		}
	}
	if len(modes) == 0 || modes[len(modes)-1] != connectivity.ServingModeServing {
		return vk.Bad("harness: listener %s:%d did not become SERVING after the Listener update and %d route updates (modes %v, errors %v)", p.LisIP, p.LisPort, len(routes), modes, modeErrs)
	}

	// --- connections
	for i, cn := range p.Conns {
		sem := vfC49Conn{Dst: cn.Local.IP, Src: cn.Remote.IP, SPort: cn.SPort}
		desc := fmt.Sprintf("conn %d local=%v (%T, %d-byte IP) remote=%v (%T, %d-byte IP) on listener %v", i, addrs[i].local, addrs[i].local, vfC49AccIPLen(addrs[i].local), addrs[i].remote, addrs[i].remote, vfC49AccIPLen(addrs[i].remote), hl.addr)
		got, rejected, errText := vfC49AccAccept(lw, hl, addrs[i].local, addrs[i].remote)
		if cn.Local.Kind != 0 || cn.Remote.Kind != 0 {
			// listener_wrapper.go: "If the incoming connection is not a TCP
			// connection ... we return an error which would cause us to stop
			// serving." No filter chain may be selected for it.
			res.Classes = append(res.Classes, "conn_non_tcp")
			if got != "" || (errText == "" && !rejected) {
				return vk.Bad("%s: a filter chain (%q) was selected for a connection with a non-TCP address", desc, got)
			}
			continue
		}
		if errText != "" {
			return vk.Bad("%s: %s", desc, errText)
		}
		wide := vfC49AccIsV4Wide(cn.Local) || vfC49AccIsV4Wide(cn.Remote)
		if wide {
			res.Classes = append(res.Classes, "conn_v4_in_16_byte_form")
		}
		if cn.Local.Zone != "" || cn.Remote.Zone != "" {
			res.Classes = append(res.Classes, "conn_with_zone")
		}
		want := vfC49Lookup(ref, p.Lis.Wildcard, sem.Dst, sem.Src, sem.SPort)
		var lerr error
		if rejected {
			lerr = errors.New("connection closed by Accept (no filter chain)")
		}
		violation, class, judged := vfC49Judge(p.Lis, want, sem, got, lerr)
		if violation != "" {
			return vk.Bad("%s: %s", desc, violation)
		}
		res.Classes = append(res.Classes, class)
		if judged {
			res.Steps++
			if want.multiLevel {
				res.Classes = append(res.Classes, "conn_competing_chains")
				if wide {
					res.NonTrivial = true
				}
			}
		}

		// --- metamorphic: the other representations of the same addresses
		// (4-byte <-> 16-byte form of an IPv4 address, local and remote
		// independently; with <-> without zone) select the same chain
		type variant struct {
			what          string
			local, remote vfC49AccAddr
		}
		var vs []variant
		flip := func(a vfC49AccAddr) vfC49AccAddr { a.Wide = !a.Wide; return a }
		l4, r4 := !vfC49AccIsV6(cn.Local.IP), !vfC49AccIsV6(cn.Remote.IP)
		if l4 {
			vs = append(vs, variant{"local address in the other IPv4 form", flip(cn.Local), cn.Remote})
		}
		if r4 {
			vs = append(vs, variant{"remote address in the other IPv4 form", cn.Local, flip(cn.Remote)})
		}
		if l4 && r4 {
			vs = append(vs, variant{"both addresses in the other IPv4 form", flip(cn.Local), flip(cn.Remote)})
		}
		if cn.Local.Zone != "" || cn.Remote.Zone != "" {
			l, r := cn.Local, cn.Remote
			l.Zone, r.Zone = "", ""
			vs = append(vs, variant{"addresses without zone", l, r})
		}
		for _, v := range vs {
			vl, ok1 := vfC49AccNetAddr(v.local, cn.LPort)
			vr, ok2 := vfC49AccNetAddr(v.remote, cn.SPort)
			if !ok1 || !ok2 {
				return vk.Bad("harness: variant address")
			}
			vgot, vrej, verr := vfC49AccAccept(lw, hl, vl, vr)
			if verr != "" {
				return vk.Bad("%s, %s (local=%v remote=%v): %s", desc, v.what, vl, vr, verr)
			}
			if vgot != got || vrej != rejected {
				return vk.Bad("%s selected chain %q (rejected=%v), but the same connection with the %s (local=%v, %d-byte IP; remote=%v, %d-byte IP) selected chain %q (rejected=%v): %+v",
					desc, got, rejected, v.what, vl, vfC49AccIPLen(vl), vr, vfC49AccIPLen(vr), vgot, vrej, p.Lis.Chains)
			}
			res.Steps++
		}
	}
	if res.NonTrivial {
		res.Classes = append(res.Classes, "v4_mapped_address_with_competing_chains")
	}
	return res
}

func vfC49AccIPLen(a net.Addr) int {
	if t, ok := a.(*net.TCPAddr); ok {
		return len(t.IP)
	}
	return 0
}

func TestVerifC49Accept(t *testing.T) {
	vk.Check(t, vk.Unit[vfC49AccPlan]{
		ID: "C49", Name: "accept",
		Rule: "Filter chain set of the chains unit (1-12 chains, optional default) with static overlaps removed by construction (sets that the real validation still rejects are discarded); real NewListenerWrapper over a harness net.Listener (wildcard [::] / 0.0.0.0 in 4- or 16-byte form in 75%, else a specific address; listening port from {8080,443,1000,65535,1}; resource port 0 in 1/6), Listener resource delivered through the registered LDS watcher and empty RouteConfigurations through the RDS watchers until SERVING; 1-8 harness connections accepted through listenerWrapper.Accept() with generated LocalAddr/RemoteAddr: *net.TCPAddr with IPv4 in 4-byte or (60%) 16-byte v4-mapped form, IPv6, link-local IPv6 with zone, same-IP/loopback sources, configured/listener/random source ports, in 1/8 of the plans one connection with a non-TCP address type; every connection is re-accepted in the other IPv4 forms / without zone. non-trivial = for some connection >= 2 chains match at one stage with different specificity AND at least one of its two addresses is an IPv4 address presented in 16-byte form",
		Gen:  vfC49AccGenPlan, Run: vfC49AccRun,
	})
}
