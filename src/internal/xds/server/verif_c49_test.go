package server

// C49: server filter chain selection is the most specific match.
//
// Generated Listener protos (filter chain match criteria: destination prefix
// ranges, source type, source prefix ranges, source ports; optional default
// filter chain) go through the real validation (the exported listener
// resource decoder = unmarshalListenerResource + listenerValidator), the
// resulting maps through newFilterChainManager, and lookups for generated
// (local, remote, port) triples are compared with a reference that works on
// the flat list of generated chains. White-box: filterChainManager is
// unexported.

import (
	"fmt"
	"net/netip"
	"strings"
	"sync"
	"testing"

	v3corepb "github.com/envoyproxy/go-control-plane/envoy/config/core/v3"
	v3listenerpb "github.com/envoyproxy/go-control-plane/envoy/config/listener/v3"
	v3routerpb "github.com/envoyproxy/go-control-plane/envoy/extensions/filters/http/router/v3"
	v3httppb "github.com/envoyproxy/go-control-plane/envoy/extensions/filters/network/http_connection_manager/v3"
	"google.golang.org/grpc/internal/verifkit/vk"
	"google.golang.org/grpc/internal/xds/bootstrap"
	"google.golang.org/grpc/internal/xds/clients/xdsclient"
	_ "google.golang.org/grpc/internal/xds/httpfilter/router" // the terminal HTTP filter every chain needs
	"google.golang.org/grpc/internal/xds/xdsclient/xdsresource"
	"google.golang.org/protobuf/types/known/anypb"
	"google.golang.org/protobuf/types/known/wrapperspb"
	"pgregory.net/rapid"
)

type vfC49Prefix struct {
	Addr string `json:"addr"` // may have host bits set: CIDR semantics mask them
	Len  uint32 `json:"len"`
}

type vfC49Chain struct {
	Dst   []vfC49Prefix `json:"dst"`
	SType int           `json:"stype"` // 0 any, 1 same-ip-or-loopback, 2 external
	Src   []vfC49Prefix `json:"src"`
	Ports []uint32      `json:"ports"`
}

type vfC49Conn struct {
	Dst   string `json:"dst"`
	Src   string `json:"src"`
	SPort int    `json:"sport"`
}

type vfC49Plan struct {
	Wildcard   bool         `json:"wildcard"` // listener bound to 0.0.0.0 / ::
	Chains     []vfC49Chain `json:"chains"`
	HasDefault bool         `json:"has_default"`
	Conns      []vfC49Conn  `json:"conns"`
}

var (
	vfC49V4    = []string{"10.0.0.1", "10.0.1.1", "10.1.0.1", "10.128.0.9", "192.168.1.1", "127.0.0.1", "127.1.2.3", "0.0.0.1", "255.255.255.255"}
	vfC49V6    = []string{"::1", "2001:db8::1", "2001:db8:1::1", "2001:db8:0:1::5", "fe80::1", "ffff::ffff"}
	vfC49Ports = []uint32{1000, 2000, 3000, 65535, 1}
)

func vfC49GenAddr(rt *rapid.T, label string) string {
	if rapid.IntRange(0, 3).Draw(rt, label+"_v6") == 0 {
		return rapid.SampledFrom(vfC49V6).Draw(rt, label)
	}
	return rapid.SampledFrom(vfC49V4).Draw(rt, label)
}

func vfC49GenPrefix(rt *rapid.T, label string) vfC49Prefix {
	a := vfC49GenAddr(rt, label)
	v6 := strings.Contains(a, ":")
	var l uint32
	switch rapid.IntRange(0, 3).Draw(rt, label+"_lk") {
	case 0:
		if v6 {
			l = uint32(rapid.IntRange(0, 128).Draw(rt, label+"_len"))
		} else {
			l = uint32(rapid.IntRange(0, 32).Draw(rt, label+"_len"))
		}
	default:
		if v6 {
			l = rapid.SampledFrom([]uint32{0, 16, 32, 48, 64, 127, 128}).Draw(rt, label+"_len")
		} else {
			l = rapid.SampledFrom([]uint32{0, 8, 9, 16, 24, 31, 32}).Draw(rt, label+"_len")
		}
	}
	return vfC49Prefix{Addr: a, Len: l}
}

func vfC49GenPlan(rt *rapid.T) vfC49Plan {
	p := vfC49GenChains(rt)
	vfC49GenConns(rt, &p)
	return p
}

// vfC49GenChains draws the listener part of a plan (wildcard flag, default
// chain flag, filter chain set); shared with the accept unit.
func vfC49GenChains(rt *rapid.T) vfC49Plan {
	p := vfC49Plan{Wildcard: rapid.IntRange(0, 3).Draw(rt, "wildcard") > 0, HasDefault: rapid.Bool().Draw(rt, "has_default")}
	n := rapid.IntRange(1, 12).Draw(rt, "nchains")
	for i := 0; i < n; i++ {
		var c vfC49Chain
		// copy-and-tweak an earlier chain in a third of the cases: near
		// duplicates are what validation has to tell apart
		if i > 0 && rapid.IntRange(0, 2).Draw(rt, "copy") == 0 {
			src := p.Chains[rapid.IntRange(0, i-1).Draw(rt, "copy_of")]
			c = vfC49Chain{Dst: append([]vfC49Prefix(nil), src.Dst...), SType: src.SType, Src: append([]vfC49Prefix(nil), src.Src...), Ports: append([]uint32(nil), src.Ports...)}
			switch rapid.IntRange(0, 4).Draw(rt, "tweak") {
			case 0:
				c.SType = rapid.IntRange(0, 2).Draw(rt, "stype")
			case 1:
				c.Ports = []uint32{rapid.SampledFrom(vfC49Ports).Draw(rt, "port")}
			case 2:
				c.Src = []vfC49Prefix{vfC49GenPrefix(rt, "src")}
			case 3:
				c.Dst = []vfC49Prefix{vfC49GenPrefix(rt, "dst")}
			default:
				if len(c.Ports) == 0 {
					c.Ports = []uint32{rapid.SampledFrom(vfC49Ports).Draw(rt, "port")}
				} else {
					c.Ports = nil
				}
			}
		} else {
			for j := rapid.SampledFrom([]int{0, 1, 1, 1, 2}).Draw(rt, "ndst"); j > 0; j-- {
				c.Dst = append(c.Dst, vfC49GenPrefix(rt, "dst"))
			}
			c.SType = rapid.SampledFrom([]int{0, 0, 1, 2}).Draw(rt, "stype")
			for j := rapid.SampledFrom([]int{0, 0, 1, 1, 2}).Draw(rt, "nsrc"); j > 0; j-- {
				c.Src = append(c.Src, vfC49GenPrefix(rt, "src"))
			}
			for j := rapid.SampledFrom([]int{0, 0, 1, 2}).Draw(rt, "nports"); j > 0; j-- {
				c.Ports = append(c.Ports, rapid.SampledFrom(vfC49Ports).Draw(rt, "port"))
			}
		}
		p.Chains = append(p.Chains, c)
	}
	return p
}

func vfC49GenConns(rt *rapid.T, p *vfC49Plan) {
	nc := rapid.IntRange(1, 8).Draw(rt, "nconns")
	pick := func(label string, fromDst bool) string {
		// an address inside one of the configured prefixes (its base address
		// is one of the pool addresses), or any pool address
		if rapid.IntRange(0, 2).Draw(rt, label+"_rel") > 0 {
			c := p.Chains[rapid.IntRange(0, len(p.Chains)-1).Draw(rt, label+"_chain")]
			ps := c.Src
			if fromDst {
				ps = c.Dst
			}
			if len(ps) > 0 {
				return ps[rapid.IntRange(0, len(ps)-1).Draw(rt, label+"_pfx")].Addr
			}
		}
		return vfC49GenAddr(rt, label)
	}
	for i := 0; i < nc; i++ {
		cn := vfC49Conn{Dst: pick("cdst", true), Src: pick("csrc", false)}
		switch rapid.IntRange(0, 5).Draw(rt, "same") {
		case 0:
			cn.Src = cn.Dst // same IP
		case 1:
			if strings.Contains(cn.Dst, ":") {
				cn.Src = "::1"
			} else {
				cn.Src = rapid.SampledFrom([]string{"127.0.0.1", "127.1.2.3"}).Draw(rt, "loop")
			}
		}
		if rapid.IntRange(0, 2).Draw(rt, "port_rel") > 0 {
			cn.SPort = int(rapid.SampledFrom(vfC49Ports).Draw(rt, "sport"))
		} else {
			cn.SPort = rapid.IntRange(1, 65535).Draw(rt, "sport")
		}
		p.Conns = append(p.Conns, cn)
	}
}

// ---- reference ---------------------------------------------------------------

type vfC49RefPrefix struct {
	v6   bool
	bits int
	addr [16]byte // masked
}

func vfC49ParseAddr(s string) (v6 bool, b [16]byte, ok bool) {
	a, err := netip.ParseAddr(s)
	if err != nil || a.Zone() != "" {
		return false, b, false
	}
	if a.Is4In6() {
		return false, b, false // not generated
	}
	if a.Is4() {
		a4 := a.As4()
		copy(b[:], a4[:])
		return false, b, true
	}
	return true, a.As16(), true
}

func vfC49MkPrefix(p vfC49Prefix) (vfC49RefPrefix, bool) {
	v6, b, ok := vfC49ParseAddr(p.Addr)
	max := 32
	if v6 {
		max = 128
	}
	if !ok || int(p.Len) > max {
		return vfC49RefPrefix{}, false
	}
	r := vfC49RefPrefix{v6: v6, bits: int(p.Len)}
	for i := 0; i < int(p.Len); i++ {
		r.addr[i/8] |= b[i/8] & (0x80 >> (i % 8))
	}
	return r, true
}

func (p vfC49RefPrefix) contains(v6 bool, a [16]byte) bool {
	if p.v6 != v6 {
		return false
	}
	for i := 0; i < p.bits; i++ {
		m := byte(0x80 >> (i % 8))
		if p.addr[i/8]&m != a[i/8]&m {
			return false
		}
	}
	return true
}

// bestPrefix returns the specificity with which the list matches a (bits of
// the longest containing prefix; -1 for an empty list = unspecified; -2 no
// match) and the matched prefix.
func vfC49Best(ps []vfC49RefPrefix, v6 bool, a [16]byte) (int, vfC49RefPrefix) {
	if len(ps) == 0 {
		return -1, vfC49RefPrefix{bits: -1}
	}
	best, bp := -2, vfC49RefPrefix{}
	for _, p := range ps {
		if p.contains(v6, a) && p.bits > best {
			best, bp = p.bits, p
		}
	}
	return best, bp
}

type vfC49RefChain struct {
	id       int
	dst, src []vfC49RefPrefix
	stype    int
	ports    []uint32
}

type vfC49RefResult struct {
	chains     []int // surviving chain ids (0 = use default / none)
	multiLevel bool  // some stage saw matching chains of >= 2 specificities
	stage3Dsts int   // distinct destination prefixes among the chains tied at the source-prefix stage
}

// vfC49Lookup is the most-specific-match algorithm of the statement over the
// flat list of chains: destination prefix (only for wildcard listeners), then
// source type, then source prefix, then source port; no backtracking.
func vfC49Lookup(chains []vfC49RefChain, wildcard bool, dst, src string, sport int) vfC49RefResult {
	var res vfC49RefResult
	dv6, da, _ := vfC49ParseAddr(dst)
	sv6, sa, _ := vfC49ParseAddr(src)
	type cand struct {
		c   vfC49RefChain
		dst vfC49RefPrefix // destination prefix under which the chain is reached
	}
	var cur []cand
	// stage 1
	if wildcard {
		best := -2
		levels := map[int]bool{}
		for _, c := range chains {
			if s, _ := vfC49Best(c.dst, dv6, da); s > -2 {
				levels[s] = true
				if s > best {
					best = s
				}
			}
		}
		res.multiLevel = res.multiLevel || len(levels) >= 2
		for _, c := range chains {
			if s, bp := vfC49Best(c.dst, dv6, da); s == best && s > -2 {
				cur = append(cur, cand{c, bp})
			}
		}
	} else {
		// destination prefixes are not considered; a chain is reachable under
		// each of its destination prefixes
		for _, c := range chains {
			if len(c.dst) == 0 {
				cur = append(cur, cand{c, vfC49RefPrefix{bits: -1}})
			}
			seen := map[vfC49RefPrefix]bool{}
			for _, d := range c.dst {
				if !seen[d] {
					seen[d] = true
					cur = append(cur, cand{c, d})
				}
			}
		}
	}
	if len(cur) == 0 {
		return res
	}
	// stage 2: source type
	connType := 2
	if src == dst || (sv6 == dv6 && sa == da) || vfC49IsLoopback(sv6, sa) {
		connType = 1
	}
	{
		var exact, any []cand
		for _, c := range cur {
			switch c.c.stype {
			case connType:
				exact = append(exact, c)
			case 0:
				any = append(any, c)
			}
		}
		if len(exact) > 0 && len(any) > 0 {
			res.multiLevel = true
		}
		// Most specific source type among the chains that survived stage 1:
		// judged per destination-prefix group, the specific type wins overall.
		if len(exact) > 0 {
			cur = exact
		} else {
			cur = any
		}
	}
	if len(cur) == 0 {
		return res
	}
	// stage 3: source prefix
	{
		best := -2
		levels := map[int]bool{}
		for _, c := range cur {
			if s, _ := vfC49Best(c.c.src, sv6, sa); s > -2 {
				levels[s] = true
				if s > best {
					best = s
				}
			}
		}
		res.multiLevel = res.multiLevel || len(levels) >= 2
		var next []cand
		dsts := map[vfC49RefPrefix]bool{}
		for _, c := range cur {
			if s, _ := vfC49Best(c.c.src, sv6, sa); s == best && s > -2 {
				next = append(next, c)
				dsts[c.dst] = true
			}
		}
		cur = next
		res.stage3Dsts = len(dsts)
	}
	if len(cur) == 0 {
		return res
	}
	// stage 4: source port
	{
		var exact, wild []cand
		for _, c := range cur {
			if len(c.c.ports) == 0 {
				wild = append(wild, c)
				continue
			}
			for _, p := range c.c.ports {
				if int(p) == sport {
					exact = append(exact, c)
					break
				}
			}
		}
		if len(exact) > 0 && len(wild) > 0 {
			res.multiLevel = true
		}
		if len(exact) > 0 {
			cur = exact
		} else {
			cur = wild
		}
	}
	seen := map[int]bool{}
	for _, c := range cur {
		if !seen[c.c.id] {
			seen[c.c.id] = true
			res.chains = append(res.chains, c.c.id)
		}
	}
	return res
}

func vfC49IsLoopback(v6 bool, a [16]byte) bool {
	if !v6 {
		return a[0] == 127
	}
	for i := 0; i < 15; i++ {
		if a[i] != 0 {
			return false
		}
	}
	return a[15] == 1
}

// ---- system under test ---------------------------------------------------------

var (
	vfC49BootOnce sync.Once
	vfC49Boot     *bootstrap.Config
	vfC49BootErr  error
)

func vfC49Bootstrap() (*bootstrap.Config, error) {
	vfC49BootOnce.Do(func() {
		vfC49Boot, vfC49BootErr = bootstrap.NewConfigFromContents([]byte(`{"xds_servers":[{"server_uri":"passthrough:///verif","channel_creds":[{"type":"insecure"}]}],"node":{"id":"verif-node"}}`))
	})
	return vfC49Boot, vfC49BootErr
}

func vfC49Filters(routeName string) ([]*v3listenerpb.Filter, error) {
	router, err := anypb.New(&v3routerpb.Router{})
	if err != nil {
		return nil, err
	}
	hcm, err := anypb.New(&v3httppb.HttpConnectionManager{
		RouteSpecifier: &v3httppb.HttpConnectionManager_Rds{Rds: &v3httppb.Rds{
			ConfigSource:    &v3corepb.ConfigSource{ConfigSourceSpecifier: &v3corepb.ConfigSource_Ads{Ads: &v3corepb.AggregatedConfigSource{}}},
			RouteConfigName: routeName,
		}},
		HttpFilters: []*v3httppb.HttpFilter{{Name: "router", ConfigType: &v3httppb.HttpFilter_TypedConfig{TypedConfig: router}}},
	})
	if err != nil {
		return nil, err
	}
	return []*v3listenerpb.Filter{{Name: "hcm", ConfigType: &v3listenerpb.Filter_TypedConfig{TypedConfig: hcm}}}, nil
}

func vfC49Cidrs(ps []vfC49Prefix) []*v3corepb.CidrRange {
	var out []*v3corepb.CidrRange
	for _, p := range ps {
		out = append(out, &v3corepb.CidrRange{AddressPrefix: p.Addr, PrefixLen: wrapperspb.UInt32(p.Len)})
	}
	return out
}

// vfC49Build turns the listener part of a plan into the Listener proto (socket
// address addr:port) and the reference chains (ids 1..n; "rc-<id>" is the route
// name that identifies the chain in the code under test; "rc-default" the
// default chain). ok=false: the plan is outside the domain.
func vfC49Build(p vfC49Plan, addr string, port uint32) (lis *v3listenerpb.Listener, ref []vfC49RefChain, ok bool, err error) {
	if len(p.Chains) == 0 || len(p.Chains) > 12 {
		return nil, nil, false, nil
	}
	ref = make([]vfC49RefChain, len(p.Chains))
	lis = &v3listenerpb.Listener{
		Name: "verif-listener",
		Address: &v3corepb.Address{Address: &v3corepb.Address_SocketAddress{SocketAddress: &v3corepb.SocketAddress{
			Address: addr, PortSpecifier: &v3corepb.SocketAddress_PortValue{PortValue: port}}}},
	}
	for i, c := range p.Chains {
		rc := vfC49RefChain{id: i + 1, stype: c.SType, ports: c.Ports}
		if c.SType < 0 || c.SType > 2 {
			return nil, nil, false, nil
		}
		for _, d := range c.Dst {
			rp, ok := vfC49MkPrefix(d)
			if !ok {
				return nil, nil, false, nil
			}
			rc.dst = append(rc.dst, rp)
		}
		for _, s := range c.Src {
			rp, ok := vfC49MkPrefix(s)
			if !ok {
				return nil, nil, false, nil
			}
			rc.src = append(rc.src, rp)
		}
		for _, pt := range c.Ports {
			if pt == 0 || pt > 65535 {
				return nil, nil, false, nil
			}
		}
		ref[i] = rc
		fs, err := vfC49Filters(fmt.Sprintf("rc-%d", i+1))
		if err != nil {
			return nil, nil, false, err
		}
		lis.FilterChains = append(lis.FilterChains, &v3listenerpb.FilterChain{
			Name: fmt.Sprintf("fc-%d", i+1),
			FilterChainMatch: &v3listenerpb.FilterChainMatch{
				PrefixRanges:       vfC49Cidrs(c.Dst),
				SourceType:         v3listenerpb.FilterChainMatch_ConnectionSourceType(c.SType),
				SourcePrefixRanges: vfC49Cidrs(c.Src),
				SourcePorts:        c.Ports,
			},
			Filters: fs,
		})
	}
	if p.HasDefault {
		fs, err := vfC49Filters("rc-default")
		if err != nil {
			return nil, nil, false, err
		}
		lis.DefaultFilterChain = &v3listenerpb.FilterChain{Name: "fc-default", Filters: fs}
	}
	return lis, ref, true, nil
}

type vfC49Tuple struct {
	dst, src vfC49RefPrefix
	stype    int
	port     uint32
}

// vfC49Tuples lists the (dst prefix, source type, src prefix, port) match
// tuples of one reference chain (unspecified prefix = bits -1, no port = 0).
func vfC49Tuples(c vfC49RefChain) []vfC49Tuple {
	dsts, srcs, ports := c.dst, c.src, c.ports
	if len(dsts) == 0 {
		dsts = []vfC49RefPrefix{{bits: -1}}
	}
	if len(srcs) == 0 {
		srcs = []vfC49RefPrefix{{bits: -1}}
	}
	if len(ports) == 0 {
		ports = []uint32{0}
	}
	var out []vfC49Tuple
	for _, d := range dsts {
		for _, s := range srcs {
			for _, pt := range ports {
				out = append(out, vfC49Tuple{d, s, c.stype, pt})
			}
		}
	}
	return out
}

// vfC49StaticOverlap: two (chain, dst, type, src, port) tuples coincide.
func vfC49StaticOverlap(ref []vfC49RefChain) bool {
	tuples := map[vfC49Tuple]int{}
	overlap := false
	for _, c := range ref {
		for _, t := range vfC49Tuples(c) {
			if _, dup := tuples[t]; dup {
				overlap = true
			}
			tuples[t] = c.id
		}
	}
	return overlap
}

// vfC49Judge compares the selection observed for one connection (got = route
// name of the selected chain, "" if none; lerr = the selection failed) with
// the reference result. It returns a violation text, or a class label, or
// judged=false when the case is counted but not judged.
func vfC49Judge(p vfC49Plan, want vfC49RefResult, cn vfC49Conn, got string, lerr error) (violation, class string, judged bool) {
	if len(want.chains) >= 2 && (p.Wildcard || want.stage3Dsts <= 1) {
		// an accepted configuration in which two chains tie for a connection
		return fmt.Sprintf("validation accepted a configuration in which chains %v tie for dst=%s src=%s sport=%d (wildcard=%v): %+v",
			want.chains, cn.Dst, cn.Src, cn.SPort, p.Wildcard, p.Chains), "", true
	}
	if !p.Wildcard && want.stage3Dsts >= 2 {
		// DESIGN 5, C49 reading: on a listener bound to a specific address
		// destination prefixes are not considered, so chains that differ
		// only in their destination prefix collide at lookup time. Neither
		// the statement nor the in-repo text says validation must reject
		// such a configuration; the lookup error is counted, not judged.
		if lerr == nil && got != "rc-default" {
			ok := false
			for _, id := range want.chains {
				ok = ok || got == fmt.Sprintf("rc-%d", id)
			}
			if !ok {
				return fmt.Sprintf("dst=%s src=%s sport=%d on a specific-address listener: chain %q selected, reference survivors %v: %+v", cn.Dst, cn.Src, cn.SPort, got, want.chains, p.Chains), "", true
			}
		}
		return "", "specific_listener_dst_collision", false
	}
	switch len(want.chains) {
	case 0:
		if p.HasDefault {
			if lerr != nil || got != "rc-default" {
				return fmt.Sprintf("dst=%s src=%s sport=%d (wildcard=%v): no chain matches, want the default chain, got chain %q err=%v: %+v", cn.Dst, cn.Src, cn.SPort, p.Wildcard, got, lerr, p.Chains), "", true
			}
			return "", "lookup_default", true
		}
		if lerr == nil {
			return fmt.Sprintf("dst=%s src=%s sport=%d (wildcard=%v): no chain matches and no default chain, but chain %q was selected: %+v", cn.Dst, cn.Src, cn.SPort, p.Wildcard, got, p.Chains), "", true
		}
		return "", "lookup_none", true
	default: // exactly one (ties were handled above)
		w := fmt.Sprintf("rc-%d", want.chains[0])
		if lerr != nil || got != w {
			return fmt.Sprintf("dst=%s src=%s sport=%d (wildcard=%v): most specific match is chain %s, got chain %q err=%v: %+v", cn.Dst, cn.Src, cn.SPort, p.Wildcard, w, got, lerr, p.Chains), "", true
		}
		return "", "lookup_chain", true
	}
}

func vfC49Run(_ *testing.T, p vfC49Plan) vk.Result {
	boot, err := vfC49Bootstrap()
	if err != nil {
		return vk.Bad("harness: bootstrap: %v", err)
	}
	if len(p.Conns) == 0 {
		return vk.Result{Discard: true}
	}
	lis, ref, ok, err := vfC49Build(p, "0.0.0.0", 8080)
	if err != nil {
		return vk.Bad("harness: %v", err)
	}
	if !ok {
		return vk.Result{Discard: true}
	}
	for _, cn := range p.Conns {
		_, _, ok1 := vfC49ParseAddr(cn.Dst)
		_, _, ok2 := vfC49ParseAddr(cn.Src)
		if !ok1 || !ok2 || cn.SPort < 1 || cn.SPort > 65535 {
			return vk.Result{Discard: true}
		}
	}

	res := vk.Result{}
	if p.Wildcard {
		res.Classes = append(res.Classes, "wildcard_listener")
	} else {
		res.Classes = append(res.Classes, "specific_address_listener")
	}

	// --- validation (real code)
	a, err := anypb.New(lis)
	if err != nil {
		return vk.Bad("harness: %v", err)
	}
	dec := xdsresource.NewListenerResourceTypeDecoder(boot, nil)
	dr, derr := dec.Decode(xdsclient.NewAnyProto(a), xdsclient.DecodeOptions{})

	overlap := vfC49StaticOverlap(ref)
	if overlap {
		res.Classes = append(res.Classes, "static_overlap")
	}

	if derr != nil {
		res.Classes = append(res.Classes, "rejected")
		if !overlap {
			res.Classes = append(res.Classes, "rejected_without_static_overlap")
		}
		return res
	}
	res.Classes = append(res.Classes, "accepted")
	lu := dr.Resource.(*xdsresource.ListenerResourceData).Resource
	if lu.TCPListener == nil {
		return vk.Bad("accepted server listener without TCPListener config")
	}
	fcm := newFilterChainManager(&lu.TCPListener.FilterChains, &lu.TCPListener.DefaultFilterChain)
	defer fcm.stop()

	for _, cn := range p.Conns {
		want := vfC49Lookup(ref, p.Wildcard, cn.Dst, cn.Src, cn.SPort)
		if want.multiLevel {
			res.NonTrivial = true
		}
		dstA, _ := netip.ParseAddr(cn.Dst)
		srcA, _ := netip.ParseAddr(cn.Src)
		fc, lerr := fcm.lookup(lookupParams{isUnspecifiedListener: p.Wildcard, dstAddr: dstA, srcAddr: srcA, srcPort: cn.SPort})
		got := ""
		if fc != nil {
			got = fc.routeConfigName
		}
		violation, class, judged := vfC49Judge(p, want, cn, got, lerr)
		if violation != "" {
			return vk.Bad("%s", violation)
		}
		res.Classes = append(res.Classes, class)
		if judged {
			res.Steps++
		}
	}
	return res
}

func TestVerifC49(t *testing.T) {
	vk.Check(t, vk.Unit[vfC49Plan]{
		ID: "C49", Name: "chains",
		Rule: "Listener with 1-12 filter chains (0-2 destination prefixes, source type any/same-or-loopback/external, 0-2 source prefixes, 0-2 source ports; v4 and v6 prefixes of pool addresses with boundary and random lengths, host bits set; a third of the chains are one-field tweaks of an earlier chain), optional default chain, listener on the wildcard address in 75%; validation by the real listener decoder; 1-8 lookups with addresses taken from the configured prefixes or the pool, same-IP and loopback sources, configured or random ports. non-trivial = accepted configuration and some lookup had matching chains of >= 2 different specificities at one stage",
		Gen:  vfC49GenPlan, Run: vfC49Run,
	})
}
