package lrsclient

// C50: load reports neither lose nor double count load.
//
//   - unit "seq":    deterministic single-goroutine op sequences (events and
//     snapshots) against an exact model;
//   - unit "stress": real multi-core stress (built with -race): goroutines
//     perform generated event lists while snapshot goroutines call stats();
//     conservation law over all reports + bracketing bounds for in-progress.

import (
	"errors"
	"fmt"
	"runtime"
	"sync"
	"sync/atomic"
	"testing"

	"google.golang.org/grpc/internal/verifkit/vk"
	"google.golang.org/grpc/internal/xds/clients"
	"pgregory.net/rapid"
)

const (
	vfC50R = 2 // reporters (cluster, service)
	vfC50L = 3 // localities
	vfC50C = 3 // drop categories ("" = uncategorised)
	vfC50N = 2 // server-load names

	vfC50SigIdleLoad = "c50.server_load_withheld_while_locality_idle"
)

var (
	vfC50Clusters   = [vfC50R][2]string{{"cluster-0", "service-0"}, {"cluster-1", ""}}
	vfC50Localities = [vfC50L]clients.Locality{{Region: "r0", Zone: "z0", SubZone: "s0"}, {Region: "r1"}, {}}
	vfC50Cats       = [vfC50C]string{"", "lb", "throttle"}
	vfC50Loads      = [vfC50N]string{"cpu_utilization", "named_metrics.q"}
	vfC50ErrCall    = errors.New("verif: rpc failed")
)

// vfC50Ev is one load event (K: 0 start, 1 finish ok, 2 finish err, 3 drop,
// 4 server load) or, in the sequential unit, a snapshot (K 5; Mode 0 whole
// store, 1 store filtered by cluster R, 2 reporter R only).
type vfC50Ev struct {
	K    int `json:"k"`
	R    int `json:"r,omitempty"`
	L    int `json:"l,omitempty"`
	C    int `json:"c,omitempty"`
	N    int `json:"n,omitempty"`
	V    int `json:"v,omitempty"`
	Mode int `json:"mode,omitempty"`
}

// vfC50Tot holds event or report totals.
type vfC50Tot struct {
	Issued, Succ, Err [vfC50R][vfC50L]uint64
	Drops             [vfC50R][vfC50C]uint64
	LoadCnt           [vfC50R][vfC50L][vfC50N]uint64
	LoadSum           [vfC50R][vfC50L][vfC50N]float64
}

func (t *vfC50Tot) apply(e vfC50Ev) {
	switch e.K {
	case 0:
		t.Issued[e.R][e.L]++
	case 1:
		t.Succ[e.R][e.L]++
	case 2:
		t.Err[e.R][e.L]++
	case 3:
		t.Drops[e.R][e.C]++
	case 4:
		t.LoadCnt[e.R][e.L][e.N]++
		t.LoadSum[e.R][e.L][e.N] += float64(e.V)
	}
}

func (t *vfC50Tot) add(o *vfC50Tot) {
	for r := 0; r < vfC50R; r++ {
		for l := 0; l < vfC50L; l++ {
			t.Issued[r][l] += o.Issued[r][l]
			t.Succ[r][l] += o.Succ[r][l]
			t.Err[r][l] += o.Err[r][l]
			for n := 0; n < vfC50N; n++ {
				t.LoadCnt[r][l][n] += o.LoadCnt[r][l][n]
				t.LoadSum[r][l][n] += o.LoadSum[r][l][n]
			}
		}
		for c := 0; c < vfC50C; c++ {
			t.Drops[r][c] += o.Drops[r][c]
		}
	}
}

// diff describes the first component in which reported differs from events
// ("" if equal); onlyLoadsMissing is true when every difference is a
// server-load count/sum that is *smaller* in reported.
func vfC50Diff(reported, events *vfC50Tot) (msg string, onlyLoadsMissing bool) {
	onlyLoadsMissing = true
	note := func(s string, load bool, less bool) {
		if msg == "" {
			msg = s
		}
		if !load || !less {
			onlyLoadsMissing = false
		}
	}
	for r := 0; r < vfC50R; r++ {
		for l := 0; l < vfC50L; l++ {
			if a, b := reported.Issued[r][l], events.Issued[r][l]; a != b {
				note(fmt.Sprintf("issued[%s,%v]: reports total %d, events %d", vfC50Clusters[r][0], vfC50Localities[l], a, b), false, a < b)
			}
			if a, b := reported.Succ[r][l], events.Succ[r][l]; a != b {
				note(fmt.Sprintf("succeeded[%s,%v]: reports total %d, events %d", vfC50Clusters[r][0], vfC50Localities[l], a, b), false, a < b)
			}
			if a, b := reported.Err[r][l], events.Err[r][l]; a != b {
				note(fmt.Sprintf("errored[%s,%v]: reports total %d, events %d", vfC50Clusters[r][0], vfC50Localities[l], a, b), false, a < b)
			}
			for n := 0; n < vfC50N; n++ {
				if a, b := reported.LoadCnt[r][l][n], events.LoadCnt[r][l][n]; a != b {
					note(fmt.Sprintf("server-load count[%s,%v,%s]: reports total %d, events %d", vfC50Clusters[r][0], vfC50Localities[l], vfC50Loads[n], a, b), true, a < b)
				}
				if a, b := reported.LoadSum[r][l][n], events.LoadSum[r][l][n]; a != b {
					note(fmt.Sprintf("server-load sum[%s,%v,%s]: reports total %v, events %v", vfC50Clusters[r][0], vfC50Localities[l], vfC50Loads[n], a, b), true, a < b)
				}
			}
		}
		for c := 0; c < vfC50C; c++ {
			if a, b := reported.Drops[r][c], events.Drops[r][c]; a != b {
				note(fmt.Sprintf("drops[%s,%q]: reports total %d, events %d", vfC50Clusters[r][0], vfC50Cats[c], a, b), false, a < b)
			}
		}
	}
	if msg == "" {
		onlyLoadsMissing = false
	}
	return msg, onlyLoadsMissing
}

// exceeds reports a component where reported > events (double counting).
func vfC50Exceeds(reported, events *vfC50Tot) string {
	for r := 0; r < vfC50R; r++ {
		for l := 0; l < vfC50L; l++ {
			if reported.Issued[r][l] > events.Issued[r][l] || reported.Succ[r][l] > events.Succ[r][l] || reported.Err[r][l] > events.Err[r][l] {
				return fmt.Sprintf("request counts of [%s,%v] reported so far (issued %d, ok %d, err %d) exceed the events so far (%d, %d, %d)", vfC50Clusters[r][0], vfC50Localities[l],
					reported.Issued[r][l], reported.Succ[r][l], reported.Err[r][l], events.Issued[r][l], events.Succ[r][l], events.Err[r][l])
			}
			for n := 0; n < vfC50N; n++ {
				if reported.LoadCnt[r][l][n] > events.LoadCnt[r][l][n] || reported.LoadSum[r][l][n] > events.LoadSum[r][l][n] {
					return fmt.Sprintf("server loads of [%s,%v,%s] reported so far exceed the events so far", vfC50Clusters[r][0], vfC50Localities[l], vfC50Loads[n])
				}
			}
		}
		for c := 0; c < vfC50C; c++ {
			if reported.Drops[r][c] > events.Drops[r][c] {
				return fmt.Sprintf("drops[%s,%q] reported so far %d exceed the events so far %d", vfC50Clusters[r][0], vfC50Cats[c], reported.Drops[r][c], events.Drops[r][c])
			}
		}
	}
	return ""
}

// vfC50Report is one decoded report: totals plus the in-progress values of
// the localities it contains.
type vfC50Report struct {
	tot     vfC50Tot
	inProg  [vfC50R][vfC50L]uint64
	present [vfC50R][vfC50L]bool
	seenR   [vfC50R]bool
}

// vfC50Decode converts the reports of one snapshot; returns a violation text
// for malformed reports.
func vfC50Decode(lds []*loadData) (*vfC50Report, string) {
	rep := &vfC50Report{}
	for _, ld := range lds {
		if ld == nil {
			return nil, "stats() returned a nil entry"
		}
		r := -1
		for i := range vfC50Clusters {
			if ld.cluster == vfC50Clusters[i][0] && ld.service == vfC50Clusters[i][1] {
				r = i
			}
		}
		if r < 0 {
			return nil, fmt.Sprintf("report for unknown cluster/service %q/%q", ld.cluster, ld.service)
		}
		if rep.seenR[r] {
			return nil, fmt.Sprintf("two reports for cluster %q in one snapshot", ld.cluster)
		}
		rep.seenR[r] = true
		var catSum uint64
		for cat, d := range ld.drops {
			c := -1
			for i := 1; i < vfC50C; i++ {
				if vfC50Cats[i] == cat {
					c = i
				}
			}
			if c < 0 {
				return nil, fmt.Sprintf("report contains unknown drop category %q", cat)
			}
			rep.tot.Drops[r][c] += d
			catSum += d
		}
		if ld.totalDrops < catSum {
			return nil, fmt.Sprintf("totalDrops %d < sum of per-category drops %d", ld.totalDrops, catSum)
		}
		rep.tot.Drops[r][0] += ld.totalDrops - catSum
		for loc, d := range ld.localityStats {
			l := -1
			for i := range vfC50Localities {
				if vfC50Localities[i] == loc {
					l = i
				}
			}
			if l < 0 {
				return nil, fmt.Sprintf("report contains unknown locality %v", loc)
			}
			rep.present[r][l] = true
			rep.tot.Issued[r][l] += d.requestStats.issued
			rep.tot.Succ[r][l] += d.requestStats.succeeded
			rep.tot.Err[r][l] += d.requestStats.errored
			rep.inProg[r][l] = d.requestStats.inProgress
			for name, sl := range d.loadStats {
				n := -1
				for i := range vfC50Loads {
					if vfC50Loads[i] == name {
						n = i
					}
				}
				if n < 0 {
					return nil, fmt.Sprintf("report contains unknown load name %q", name)
				}
				rep.tot.LoadCnt[r][l][n] += sl.count
				rep.tot.LoadSum[r][l][n] += sl.sum
			}
		}
	}
	return rep, ""
}

func vfC50Do(reps *[vfC50R]*PerClusterReporter, e vfC50Ev) {
	p := reps[e.R]
	switch e.K {
	case 0:
		p.CallStarted(vfC50Localities[e.L])
	case 1:
		p.CallFinished(vfC50Localities[e.L], nil)
	case 2:
		p.CallFinished(vfC50Localities[e.L], vfC50ErrCall)
	case 3:
		p.CallDropped(vfC50Cats[e.C])
	case 4:
		p.CallServerLoad(vfC50Localities[e.L], vfC50Loads[e.N], float64(e.V))
	}
}

func vfC50NewStore() (*LoadStore, *[vfC50R]*PerClusterReporter) {
	ls := newLoadStore()
	var reps [vfC50R]*PerClusterReporter
	for r := range reps {
		reps[r] = ls.ReporterForCluster(vfC50Clusters[r][0], vfC50Clusters[r][1])
	}
	return ls, &reps
}

// vfC50Finish performs the common end-of-case accounting: final snapshot,
// conservation check, and the precise predicate of the known finding
// (server loads recorded for a locality without request activity are
// withheld until that locality sees another call).
func vfC50Finish(ls *LoadStore, reps *[vfC50R]*PerClusterReporter, reported, events *vfC50Tot, res vk.Result) vk.Result {
	final, bad := vfC50Decode(ls.stats(nil))
	if bad != "" {
		return vk.Bad("final snapshot: %s", bad).With(res.Classes...)
	}
	reported.add(&final.tot)
	msg, onlyLoads := vfC50Diff(reported, events)
	if msg == "" {
		return res
	}
	if !onlyLoads {
		return vk.Bad("after all events and a final snapshot: %s", msg).With(res.Classes...)
	}
	// Candidate for the known finding: every missing load must belong to a
	// locality absent from the final report, and one more call on each such
	// locality must flush exactly the missing amounts.
	for r := 0; r < vfC50R; r++ {
		for l := 0; l < vfC50L; l++ {
			missing := false
			for n := 0; n < vfC50N; n++ {
				if reported.LoadCnt[r][l][n] != events.LoadCnt[r][l][n] || reported.LoadSum[r][l][n] != events.LoadSum[r][l][n] {
					missing = true
				}
			}
			if !missing {
				continue
			}
			if final.present[r][l] {
				return vk.Bad("after all events and a final snapshot: %s (the locality is present in the final report)", msg).With(res.Classes...)
			}
			for _, e := range []vfC50Ev{{K: 0, R: r, L: l}, {K: 1, R: r, L: l}} {
				vfC50Do(reps, e)
				events.apply(e)
			}
		}
	}
	flush, bad := vfC50Decode(ls.stats(nil))
	if bad != "" {
		return vk.Bad("flush snapshot: %s", bad).With(res.Classes...)
	}
	reported.add(&flush.tot)
	if m2, _ := vfC50Diff(reported, events); m2 != "" {
		return vk.Bad("after all events and a final snapshot: %s; still wrong after one more call per locality: %s", msg, m2).With(res.Classes...)
	}
	r := vk.Bad("after all events and a final snapshot: %s (the load was recorded while the locality had no request activity since the previous report; it is withheld until the locality sees another call)", msg).With(res.Classes...)
	r.Sig = vfC50SigIdleLoad
	return r
}

// ------------------------------------------------------------ sequential ---

type vfC50SeqPlan struct {
	LoadAfterFinish bool      `json:"load_after_finish"`
	Ops             []vfC50Ev `json:"ops"`
}

// vfC50GenEv draws an event that is valid for the given per-(r,l) balances
// (calls in progress that this actor may finish) and started flags. It
// returns false if it drew an event that is not possible right now.
func vfC50GenEv(rt *rapid.T, bal *[vfC50R][vfC50L]int, started *[vfC50R][vfC50L]bool, loadAfterFinish bool) (vfC50Ev, bool) {
	e := vfC50Ev{R: rapid.IntRange(0, vfC50R-1).Draw(rt, "r"), L: rapid.IntRange(0, vfC50L-1).Draw(rt, "l")}
	switch k := rapid.IntRange(0, 9).Draw(rt, "k"); {
	case k <= 2:
		e.K = 0
		bal[e.R][e.L]++
		started[e.R][e.L] = true
	case k <= 4:
		if bal[e.R][e.L] == 0 {
			return e, false
		}
		e.K = 1 + rapid.IntRange(0, 1).Draw(rt, "err")
		bal[e.R][e.L]--
	case k <= 6:
		e.K, e.L = 3, 0
		e.C = rapid.IntRange(0, vfC50C-1).Draw(rt, "c")
	default:
		// The production caller (clusterimpl picker) records server loads
		// right after CallFinished of a call it started on that locality.
		// load_after_finish=false restricts loads to localities on which this
		// actor has a call in progress.
		if !started[e.R][e.L] || (!loadAfterFinish && bal[e.R][e.L] == 0) {
			return e, false
		}
		e.K = 4
		e.N = rapid.IntRange(0, vfC50N-1).Draw(rt, "n")
		e.V = rapid.IntRange(0, 1000).Draw(rt, "v")
	}
	return e, true
}

func vfC50GenSeq(rt *rapid.T) vfC50SeqPlan {
	p := vfC50SeqPlan{LoadAfterFinish: rapid.Bool().Draw(rt, "laf1") && rapid.Bool().Draw(rt, "laf2")}
	var bal [vfC50R][vfC50L]int
	var started [vfC50R][vfC50L]bool
	n := rapid.IntRange(1, vk.Pick(60, 400)).Draw(rt, "nops")
	for i := 0; i < n; i++ {
		if rapid.IntRange(0, 5).Draw(rt, "snap") == 0 {
			p.Ops = append(p.Ops, vfC50Ev{K: 5, Mode: rapid.IntRange(0, 2).Draw(rt, "mode"), R: rapid.IntRange(0, vfC50R-1).Draw(rt, "sr")})
			continue
		}
		if e, ok := vfC50GenEv(rt, &bal, &started, p.LoadAfterFinish); ok {
			p.Ops = append(p.Ops, e)
		}
	}
	return p
}

func vfC50RunSeq(_ *testing.T, p vfC50SeqPlan) vk.Result {
	ls, reps := vfC50NewStore()
	var events, reported vfC50Tot
	var inProg [vfC50R][vfC50L]int64
	var started [vfC50R][vfC50L]bool
	res := vk.Result{}
	snaps, emptySnaps, loadsIdle := 0, 0, 0
	lastActivity := [vfC50R][vfC50L]bool{}
	for i, e := range p.Ops {
		if e.R < 0 || e.R >= vfC50R || e.L < 0 || e.L >= vfC50L || e.C < 0 || e.C >= vfC50C || e.N < 0 || e.N >= vfC50N {
			return vk.Result{Discard: true}
		}
		if e.K != 5 {
			// plan soundness (replayed / shrunk plans): never finish a call that is not in progress
			switch e.K {
			case 0:
				inProg[e.R][e.L]++
				started[e.R][e.L] = true
				lastActivity[e.R][e.L] = true
			case 1, 2:
				if inProg[e.R][e.L] == 0 {
					continue
				}
				inProg[e.R][e.L]--
				lastActivity[e.R][e.L] = true
			case 4:
				if !started[e.R][e.L] {
					continue
				}
				if !lastActivity[e.R][e.L] && inProg[e.R][e.L] == 0 {
					loadsIdle++
				}
			}
			vfC50Do(reps, e)
			events.apply(e)
			res.Steps++
			continue
		}
		var lds []*loadData
		covered := [vfC50R]bool{true, true}
		switch e.Mode {
		case 0:
			lds = ls.stats(nil)
		case 1:
			lds = ls.stats([]string{vfC50Clusters[e.R][0]})
			covered = [vfC50R]bool{}
			covered[e.R] = true
		default:
			if d := reps[e.R].stats(); d != nil {
				lds = []*loadData{d}
			}
			covered = [vfC50R]bool{}
			covered[e.R] = true
		}
		snaps++
		if len(lds) == 0 {
			emptySnaps++
		}
		rep, bad := vfC50Decode(lds)
		if bad != "" {
			return vk.Bad("snapshot at op %d: %s", i, bad)
		}
		for r := 0; r < vfC50R; r++ {
			if rep.seenR[r] && !covered[r] {
				return vk.Bad("snapshot at op %d (mode %d, cluster %d) contains a report for cluster %d", i, e.Mode, e.R, r)
			}
			if !covered[r] {
				continue
			}
			for l := 0; l < vfC50L; l++ {
				// single goroutine: "at some point during the snapshot" is now
				if got, want := rep.inProg[r][l], uint64(inProg[r][l]); got != want {
					return vk.Bad("snapshot at op %d: in-progress[%s,%v] = %d, started-finished = %d", i, vfC50Clusters[r][0], vfC50Localities[l], got, want)
				}
				lastActivity[r][l] = false
			}
		}
		reported.add(&rep.tot)
		if ex := vfC50Exceeds(&reported, &events); ex != "" {
			return vk.Bad("snapshot at op %d: %s", i, ex)
		}
	}
	res.NonTrivial = snaps >= 2 && res.Steps >= 10
	if snaps >= 2 {
		res.Classes = append(res.Classes, "snapshots>=2")
	}
	if emptySnaps > 0 {
		res.Classes = append(res.Classes, "empty_snapshot")
	}
	if loadsIdle > 0 {
		res.Classes = append(res.Classes, "load_on_idle_locality")
	}
	if p.LoadAfterFinish {
		res.Classes = append(res.Classes, "load_after_finish")
	}
	return vfC50Finish(ls, reps, &reported, &events, res)
}

func TestVerifC50Seq(t *testing.T) {
	vk.Check(t, vk.Unit[vfC50SeqPlan]{
		ID: "C50", Name: "seq",
		Rule: "single goroutine: sequences of CallStarted/CallFinished(ok|err)/CallDropped/CallServerLoad (integer loads) over 2 reporters x 3 localities x 3 drop categories x 2 load names, interleaved with snapshots (whole store, by cluster, single reporter); finishes only for calls in progress; loads only for localities that had a call (25% of the cases: also after the call finished, as the production caller does). non-trivial = >= 2 snapshots and >= 10 events",
		Gen:  vfC50GenSeq, Run: vfC50RunSeq,
	})
}

// ---------------------------------------------------------------- stress ---

type vfC50Actor struct {
	Pat []vfC50Ev `json:"pat"`
	Rep int       `json:"rep"`
}

type vfC50StressPlan struct {
	LoadAfterFinish bool         `json:"load_after_finish"`
	Actors          []vfC50Actor `json:"actors"`
	Snappers        int          `json:"snappers"`
	SnapMode        int          `json:"snap_mode"` // 0 whole store, 2 per reporter
}

func vfC50GenStress(rt *rapid.T) vfC50StressPlan {
	p := vfC50StressPlan{LoadAfterFinish: rapid.Bool().Draw(rt, "laf1") && rapid.Bool().Draw(rt, "laf2"),
		Snappers: rapid.IntRange(1, 3).Draw(rt, "snappers"), SnapMode: 2 * rapid.IntRange(0, 1).Draw(rt, "snapmode")}
	na := rapid.IntRange(4, vk.Pick(8, 16)).Draw(rt, "actors")
	for a := 0; a < na; a++ {
		var bal [vfC50R][vfC50L]int
		var started [vfC50R][vfC50L]bool
		act := vfC50Actor{Rep: rapid.IntRange(60, vk.Pick(200, 600)).Draw(rt, "rep")}
		n := rapid.IntRange(4, 24).Draw(rt, "patlen")
		for len(act.Pat) < n {
			if e, ok := vfC50GenEv(rt, &bal, &started, p.LoadAfterFinish); ok {
				act.Pat = append(act.Pat, e)
			}
		}
		p.Actors = append(p.Actors, act)
	}
	return p
}

type vfC50Counters struct {
	sBefore, sAfter, fBefore, fAfter [vfC50R][vfC50L]atomic.Int64
	events                           atomic.Int64
}

func vfC50RunStress(_ *testing.T, p vfC50StressPlan) vk.Result {
	if len(p.Actors) == 0 || p.Snappers < 1 {
		return vk.Result{Discard: true}
	}
	ls, reps := vfC50NewStore()
	var events vfC50Tot
	// plan soundness + event totals (computed up front, single-threaded)
	for _, a := range p.Actors {
		var bal [vfC50R][vfC50L]int
		var started [vfC50R][vfC50L]bool
		for it := 0; it < a.Rep; it++ {
			for _, e := range a.Pat {
				if e.R < 0 || e.R >= vfC50R || e.L < 0 || e.L >= vfC50L || e.C < 0 || e.C >= vfC50C || e.N < 0 || e.N >= vfC50N || e.K < 0 || e.K > 4 {
					return vk.Result{Discard: true}
				}
				switch e.K {
				case 0:
					bal[e.R][e.L]++
					started[e.R][e.L] = true
				case 1, 2:
					if bal[e.R][e.L] == 0 {
						return vk.Result{Discard: true}
					}
					bal[e.R][e.L]--
				case 4:
					if !started[e.R][e.L] {
						return vk.Result{Discard: true}
					}
				}
				events.apply(e)
			}
		}
	}
	var ctr vfC50Counters
	var wg sync.WaitGroup
	var done atomic.Bool
	start := make(chan struct{})
	for _, a := range p.Actors {
		wg.Add(1)
		go func(a vfC50Actor) {
			defer wg.Done()
			<-start
			for it := 0; it < a.Rep; it++ {
				for _, e := range a.Pat {
					switch e.K {
					case 0:
						ctr.sBefore[e.R][e.L].Add(1)
						vfC50Do(reps, e)
						ctr.sAfter[e.R][e.L].Add(1)
					case 1, 2:
						ctr.fBefore[e.R][e.L].Add(1)
						vfC50Do(reps, e)
						ctr.fAfter[e.R][e.L].Add(1)
					default:
						vfC50Do(reps, e)
					}
					ctr.events.Add(1)
				}
			}
		}(a)
	}
	type snapOut struct {
		tot      vfC50Tot
		bad      string
		n        int
		maxOverl int64
	}
	outs := make([]snapOut, p.Snappers)
	var swg sync.WaitGroup
	for s := 0; s < p.Snappers; s++ {
		swg.Add(1)
		go func(out *snapOut, s int) {
			defer swg.Done()
			<-start
			for k := 0; !done.Load(); k++ {
				var lo, hi [vfC50R][vfC50L]int64
				// lower bounds (read before the snapshot): started-and-applied minus finishes begun ... taken after
				var sA, fA [vfC50R][vfC50L]int64
				for r := 0; r < vfC50R; r++ {
					for l := 0; l < vfC50L; l++ {
						sA[r][l] = ctr.sAfter[r][l].Load()
						fA[r][l] = ctr.fAfter[r][l].Load()
					}
				}
				ev0 := ctr.events.Load()
				var lds []*loadData
				covered := [vfC50R]bool{true, true}
				if p.SnapMode == 0 {
					lds = ls.stats(nil)
				} else {
					r := (k + s) % vfC50R
					covered = [vfC50R]bool{}
					covered[r] = true
					if d := reps[r].stats(); d != nil {
						lds = []*loadData{d}
					}
				}
				ev1 := ctr.events.Load()
				for r := 0; r < vfC50R; r++ {
					for l := 0; l < vfC50L; l++ {
						sB, fB := ctr.sBefore[r][l].Load(), ctr.fBefore[r][l].Load()
						lo[r][l] = sA[r][l] - fB
						hi[r][l] = sB - fA[r][l]
					}
				}
				out.n++
				if d := ev1 - ev0; d > out.maxOverl {
					out.maxOverl = d
				}
				rep, bad := vfC50Decode(lds)
				if bad != "" {
					out.bad = bad
					return
				}
				for r := 0; r < vfC50R; r++ {
					for l := 0; l < vfC50L; l++ {
						if !covered[r] {
							continue
						}
						got := int64(rep.inProg[r][l]) // absent locality => 0
						if got < lo[r][l] || got > hi[r][l] {
							out.bad = fmt.Sprintf("in-progress[%s,%v] = %d in a report, but started-finished was within [%d,%d] during that snapshot", vfC50Clusters[r][0], vfC50Localities[l], got, lo[r][l], hi[r][l])
							return
						}
					}
				}
				out.tot.add(&rep.tot)
				runtime.Gosched()
			}
		}(&outs[s], s)
	}
	close(start)
	wg.Wait()
	done.Store(true)
	swg.Wait()
	var reported vfC50Tot
	res := vk.Result{Steps: int(ctr.events.Load())}
	var maxOverl int64
	nsnaps := 0
	for i := range outs {
		if outs[i].bad != "" {
			return vk.Bad("%s", outs[i].bad)
		}
		reported.add(&outs[i].tot)
		nsnaps += outs[i].n
		if outs[i].maxOverl > maxOverl {
			maxOverl = outs[i].maxOverl
		}
	}
	res.NonTrivial = maxOverl >= 100
	if maxOverl >= 100 {
		res.Classes = append(res.Classes, "snapshot_overlapped>=100_events")
	}
	if maxOverl >= 1000 {
		res.Classes = append(res.Classes, "snapshot_overlapped>=1000_events")
	}
	if nsnaps >= 10 {
		res.Classes = append(res.Classes, "snapshots>=10")
	}
	if p.LoadAfterFinish {
		res.Classes = append(res.Classes, "load_after_finish")
	}
	return vfC50Finish(ls, reps, &reported, &events, res)
}

func TestVerifC50Stress(t *testing.T) {
	vk.Check(t, vk.Unit[vfC50StressPlan]{
		ID: "C50", Name: "stress",
		Rule: "4-16 goroutines each repeat a generated event pattern (4-24 events, 20-600 repetitions; finishes only for own calls in progress) on a shared LoadStore while 1-3 snapshot goroutines call stats() (whole store or per reporter) until the actors are done; real parallelism, race detector on; schedule_control=stress (not replayable bit for bit). Oracle: sum of all reports + final snapshot == event totals per reporter/locality/category/load name; every reported in-progress within [started_applied - finishes_begun, starts_begun - finished_applied] bracketing the snapshot. non-trivial = some snapshot overlapped >= 100 events",
		Gen:  vfC50GenStress, Run: vfC50RunStress,
	})
}
