package xdsclient

// C38 (circuit-breaker counter): sequential StartRequest/EndRequest histories
// against a counting model — a request is admitted iff fewer than max are in
// flight, the counter equals the number of admitted-and-unfinished requests and
// is zero when all have finished; counters are shared per (cluster, service).

import (
	"fmt"
	"math"
	"sync/atomic"
	"testing"

	"google.golang.org/grpc/internal/verifkit/vk"
	"pgregory.net/rapid"
)

type vfC38CtrOp struct {
	// Kind 0: StartRequest(Max) on counter C; 1: EndRequest on counter C (only if
	// the model has a request in flight there); 2: re-fetch counter C by name.
	Kind int    `json:"kind"`
	C    int    `json:"c"`
	Max  uint32 `json:"max,omitempty"`
}

type vfC38CtrPlan struct {
	// Names[i] = (cluster index, service index): equal pairs must share a counter.
	Names [][2]int     `json:"names"`
	Ops   []vfC38CtrOp `json:"ops"`
}

var vfC38CtrSeq atomic.Uint64

func vfC38GenCtr(rt *rapid.T) vfC38CtrPlan {
	var p vfC38CtrPlan
	n := rapid.IntRange(1, 4).Draw(rt, "ncounters")
	for i := 0; i < n; i++ {
		p.Names = append(p.Names, [2]int{rapid.IntRange(0, 1).Draw(rt, "cluster"), rapid.IntRange(0, 1).Draw(rt, "service")})
	}
	base := rapid.SampledFrom([]uint32{0, 1, 2, 3, 5, math.MaxUint32}).Draw(rt, "basemax")
	nops := rapid.IntRange(1, vk.Pick(60, 300)).Draw(rt, "nops")
	for i := 0; i < nops; i++ {
		op := vfC38CtrOp{C: rapid.IntRange(0, n-1).Draw(rt, "c")}
		switch k := rapid.IntRange(0, 9).Draw(rt, "kind"); {
		case k <= 5:
			op.Kind = 0
			if rapid.IntRange(0, 4).Draw(rt, "samemax") > 0 {
				op.Max = base
			} else {
				op.Max = rapid.SampledFrom([]uint32{0, 1, 2, 3, 4, 1024, math.MaxUint32}).Draw(rt, "max")
			}
		case k <= 8:
			op.Kind = 1
		default:
			op.Kind = 2
		}
		p.Ops = append(p.Ops, op)
	}
	return p
}

func vfC38RunCtr(_ *testing.T, p vfC38CtrPlan) vk.Result {
	if len(p.Names) == 0 {
		return vk.Result{Discard: true}
	}
	id := vfC38CtrSeq.Add(1)
	name := func(i int) (string, string) {
		return fmt.Sprintf("vfC38-%d-c%d", id, p.Names[i][0]), fmt.Sprintf("vfC38-s%d", p.Names[i][1])
	}
	ctrs := make([]*ClusterRequestsCounter, len(p.Names))
	model := map[[2]int]uint32{}
	shared := false
	for i := range p.Names {
		c, s := name(i)
		ctrs[i] = GetClusterRequestsCounter(c, s)
		if ctrs[i] == nil {
			return vk.Bad("GetClusterRequestsCounter returned nil")
		}
		for j := 0; j < i; j++ {
			same := p.Names[i] == p.Names[j]
			if same {
				shared = true
			}
			if same != (ctrs[i] == ctrs[j]) {
				return vk.Bad("counters for %v and %v: same key=%v but same counter=%v", p.Names[i], p.Names[j], same, ctrs[i] == ctrs[j])
			}
		}
	}
	res := vk.Result{}
	rejected, atMax := false, false
	for i, op := range p.Ops {
		ci := ((op.C % len(ctrs)) + len(ctrs)) % len(ctrs)
		key := p.Names[ci]
		c := ctrs[ci]
		switch op.Kind {
		case 0:
			err := c.StartRequest(op.Max)
			admit := model[key] < op.Max
			if admit != (err == nil) {
				return vk.Bad("op %d: StartRequest(max=%d) with %d in flight: err=%v", i, op.Max, model[key], err)
			}
			if admit {
				model[key]++
				if model[key] == op.Max {
					atMax = true
				}
			} else {
				rejected = true
			}
		case 1:
			if model[key] == 0 {
				continue
			}
			c.EndRequest()
			model[key]--
		case 2:
			cn, sn := name(ci)
			if GetClusterRequestsCounter(cn, sn) != c {
				return vk.Bad("op %d: GetClusterRequestsCounter returned a different counter for the same names", i)
			}
		}
		for j := range ctrs {
			if got := atomic.LoadUint32(&ctrs[j].numRequests); got != model[p.Names[j]] {
				return vk.Bad("op %d (%+v): counter %v holds %d, %d requests in flight", i, op, p.Names[j], got, model[p.Names[j]])
			}
		}
	}
	for i := range ctrs {
		for model[p.Names[i]] > 0 {
			ctrs[i].EndRequest()
			model[p.Names[i]]--
		}
	}
	for i := range ctrs {
		if got := atomic.LoadUint32(&ctrs[i].numRequests); got != 0 {
			return vk.Bad("counter %v holds %d after all requests finished", p.Names[i], got)
		}
	}
	if rejected {
		res.Classes = append(res.Classes, "rejected_at_max")
	}
	if atMax {
		res.Classes = append(res.Classes, "reached_max")
	}
	if shared {
		res.Classes = append(res.Classes, "shared_counter")
	}
	res.NonTrivial = rejected && atMax
	res.Steps = len(p.Ops)
	return res
}

func TestVerifC38Counter(t *testing.T) {
	vk.Check(t, vk.Unit[vfC38CtrPlan]{
		ID: "C38", Name: "counter",
		Rule: "1..4 counters named from a 2x2 (cluster, service) grid (so sharing occurs), up to 60/300 sequential ops StartRequest(max in {0..5,1024,MaxUint32}) / EndRequest (only with a request in flight) / re-fetch; model: admit iff inflight < max, numRequests == inflight after every op and 0 at the end. non-trivial = the limit was reached and at least one request rejected",
		Gen:  vfC38GenCtr, Run: vfC38RunCtr,
	})
}
