package xdsresource

// C47 (path part): path matchers with case_insensitive match paths equal (or
// prefixed) up to ASCII case; regex path matchers are full-string matches.
// White-box: the path matchers are unexported.

import (
	"regexp"
	"strings"
	"testing"
	"unicode/utf8"

	"google.golang.org/grpc/internal/verifkit/vk"
	"google.golang.org/grpc/internal/xds/matcher"
	"pgregory.net/rapid"
)

const vfC47SigUnicodeFold = "c47.unicode_case_folding"

type vfC47PathPlan struct {
	Kind            int    `json:"kind"` // 0 exact, 1 prefix, 2 regex
	Pattern         []byte `json:"pattern"`
	Path            []byte `json:"path"`
	CaseInsensitive bool   `json:"case_insensitive"`
}

var vfC47KindNames = []string{"exact", "prefix", "regex"}

// fold groups: see internal/verifx/c47 (kept separate: this file lives in
// another package).
var vfC47Groups = [][]string{
	{"k", "K", "\u212a"},
	{"s", "S", "\u017f"},
	{"i", "I", "\u0131", "\u0130"},
	{"a", "A"},
	{"z", "Z"},
	{"\u00e9", "\u00c9"},
	{"\xff", "\xfe", "\ufffd"},
	{"\u00df"},
	{"/"}, {"."}, {"1"}, {"@"}, {"["}, {"`"}, {"{"}, {"_"},
}

func vfC47Atom(rt *rapid.T, label string) (int, int) {
	var g int
	if rapid.IntRange(0, 9).Draw(rt, label+"_bias") < 6 {
		g = rapid.IntRange(0, 4).Draw(rt, label+"_g")
	} else {
		g = rapid.IntRange(0, len(vfC47Groups)-1).Draw(rt, label+"_g")
	}
	return g, rapid.IntRange(0, len(vfC47Groups[g])-1).Draw(rt, label+"_m")
}

func vfC47Text(rt *rapid.T, label string, maxN int, validUTF8 bool) (string, [][2]int) {
	n := rapid.IntRange(0, maxN).Draw(rt, label+"_n")
	var sb strings.Builder
	sb.WriteString("/")
	var atoms [][2]int
	for i := 0; i < n; i++ {
		g, m := vfC47Atom(rt, label)
		if validUTF8 && !utf8.ValidString(vfC47Groups[g][m]) {
			m = 2
		}
		atoms = append(atoms, [2]int{g, m})
		sb.WriteString(vfC47Groups[g][m])
	}
	return sb.String(), atoms
}

func vfC47Related(rt *rapid.T, label string, atoms [][2]int) string {
	var sb strings.Builder
	sb.WriteString("/")
	for _, a := range atoms {
		switch rapid.IntRange(0, 9).Draw(rt, label+"_mut") {
		case 0, 1, 2, 3, 4:
			sb.WriteString(vfC47Groups[a[0]][a[1]])
		case 5, 6, 7, 8:
			sb.WriteString(vfC47Groups[a[0]][rapid.IntRange(0, len(vfC47Groups[a[0]])-1).Draw(rt, label+"_sib")])
		default:
			g, m := vfC47Atom(rt, label+"_x")
			sb.WriteString(vfC47Groups[g][m])
		}
	}
	for i := rapid.IntRange(0, 3).Draw(rt, label+"_post") / 2; i > 0; i-- {
		g, m := vfC47Atom(rt, label+"_q")
		sb.WriteString(vfC47Groups[g][m])
	}
	return sb.String()
}

func vfC47GenPath(rt *rapid.T) vfC47PathPlan {
	p := vfC47PathPlan{
		Kind:            rapid.SampledFrom([]int{0, 0, 1, 1, 2}).Draw(rt, "kind"),
		CaseInsensitive: rapid.IntRange(0, 3).Draw(rt, "ci") > 0,
	}
	pat, atoms := vfC47Text(rt, "pat", 5, true)
	if p.Kind == 2 {
		// regex: a quoted literal head of the path followed by a tail
		// expression, or an unrelated expression
		path, _ := vfC47Text(rt, "path", 5, false)
		cut := rapid.IntRange(0, len(path)).Draw(rt, "cut")
		for cut > 0 && cut < len(path) && !utf8.RuneStart(path[cut]) {
			cut--
		}
		head := strings.ToValidUTF8(path[:cut], "\ufffd")
		tail := rapid.SampledFrom([]string{".*", ".+", "", "[^/]*", "(?i:[ksi])*", "|/a", "$", ")|(", "(", "[", "a|" + regexp.QuoteMeta(path)}).Draw(rt, "tail")
		if !utf8.ValidString(tail) {
			tail = ".*"
		}
		p.Pattern = []byte(regexp.QuoteMeta(head) + tail)
		p.Path = []byte(path)
		return p
	}
	p.Pattern = []byte(pat)
	if rapid.IntRange(0, 4).Draw(rt, "related") > 0 {
		p.Path = []byte(vfC47Related(rt, "path", atoms))
	} else {
		s, _ := vfC47Text(rt, "path", 6, false)
		p.Path = []byte(s)
	}
	return p
}

func vfC47ASCIIUpper(s string) string {
	b := []byte(s)
	for i, c := range b {
		if 'a' <= c && c <= 'z' {
			b[i] = c - ('a' - 'A')
		}
	}
	return string(b)
}

func vfC47IsASCII(s string) bool {
	for i := 0; i < len(s); i++ {
		if s[i] >= 0x80 {
			return false
		}
	}
	return true
}

func vfC47Cross(s string) bool {
	return strings.ContainsAny(s, "\u212a\u017f\u0131\u0130")
}

// vfC47RefPath: reference written from the statement; fold is vfC47ASCIIUpper
// for the oracle.
func vfC47RefPath(kind int, pattern, path string, ci bool, fold func(string) string) bool {
	if ci {
		pattern, path = fold(pattern), fold(path)
	}
	if kind == 0 {
		return pattern == path
	}
	return len(path) >= len(pattern) && path[:len(pattern)] == pattern
}

func vfC47RunPath(_ *testing.T, p vfC47PathPlan) vk.Result {
	pattern, path := string(p.Pattern), string(p.Path)
	if p.Kind < 0 || p.Kind > 2 || !utf8.ValidString(pattern) {
		return vk.Result{Discard: true}
	}
	res := vk.Result{Classes: []string{"kind_" + vfC47KindNames[p.Kind]}}
	if p.CaseInsensitive && p.Kind != 2 {
		res.Classes = append(res.Classes, "case_insensitive")
	}
	cross := vfC47Cross(pattern) || vfC47Cross(path)
	if cross {
		res.Classes = append(res.Classes, "cross_rune")
	}
	if !utf8.ValidString(path) {
		res.Classes = append(res.Classes, "path_invalid_utf8")
	}
	res.NonTrivial = cross

	var pm pathMatcher
	var want bool
	switch p.Kind {
	case 0:
		pm = newPathExactMatcher(pattern, p.CaseInsensitive)
		want = vfC47RefPath(0, pattern, path, p.CaseInsensitive, vfC47ASCIIUpper)
	case 1:
		pm = newPathPrefixMatcher(pattern, p.CaseInsensitive)
		want = vfC47RefPath(1, pattern, path, p.CaseInsensitive, vfC47ASCIIUpper)
	case 2:
		// the route parser compiles path regexes with CompileSafeRegex
		re, err := matcher.CompileSafeRegex(pattern)
		ref, cerr := regexp.Compile(pattern)
		if (err != nil) != (cerr != nil) {
			return vk.Bad("path regex %q: reference compile error=%v, CompileSafeRegex error=%v", pattern, cerr, err)
		}
		if err != nil {
			return res.With("regex_rejected")
		}
		pm = newPathRegexMatcher(re)
		ref.Longest()
		loc := ref.FindStringIndex(path)
		want = loc != nil && loc[0] == 0 && loc[1] == len(path)
	}
	if want {
		res.Classes = append(res.Classes, "ref_match")
	} else {
		res.Classes = append(res.Classes, "ref_nomatch")
	}
	got := pm.match(path)
	if got != want {
		r := vk.Bad("path matcher %s pattern=%q case_insensitive=%v path=%q: match=%v, reference (ASCII-only folding)=%v",
			vfC47KindNames[p.Kind], pattern, p.CaseInsensitive, path, got, want)
		// Known shape: case_insensitive, a non-ASCII byte involved, and Go's
		// Unicode strings.ToUpper in place of ASCII folding explains the answer.
		if p.Kind != 2 && p.CaseInsensitive && !(vfC47IsASCII(pattern) && vfC47IsASCII(path)) &&
			vfC47RefPath(p.Kind, pattern, path, true, strings.ToUpper) == got {
			r.Sig = vfC47SigUnicodeFold
			r = r.With("known_shape_unicode_fold")
		}
		return r.With(res.Classes...)
	}
	if pm.match(path) != got {
		return vk.Bad("path matcher not deterministic")
	}
	return res
}

const vfC47PathRule = "pathExact/pathPrefix (case_insensitive in 75%) and pathRegex (through CompileSafeRegex); patterns (valid UTF-8) and paths (any bytes) are '/' + 0-6 atoms from case groups {k,K,U+212A} {s,S,U+017F} {i,I,U+0131,U+0130} {a,A} {z,Z} {e-acute pair} {0xff,0xfe,U+FFFD} and punctuation next to the ASCII letter range; 80% of paths derived from the pattern by swapping atoms inside their fold group plus a tail. non-trivial = pattern or path contains U+212A/U+017F/U+0131/U+0130"

func TestVerifC47Path(t *testing.T) {
	vk.Check(t, vk.Unit[vfC47PathPlan]{ID: "C47", Name: "path", Rule: vfC47PathRule, Gen: vfC47GenPath, Run: vfC47RunPath})
}

func FuzzVerifC47Path(f *testing.F) {
	seeds := [][]byte{
		{0x10, 2, '/', 'k', '/', 0xe2, 0x84, 0xaa},
		{0x11, 2, '/', 's', '/', 0xc5, 0xbf, 'x'},
		{0x02, 3, '/', '.', '*', '/', 'a'},
		{0x10, 2, '/', 'I', '/', 0xc4, 0xb1},
	}
	vk.Fuzz(f, vk.Unit[vfC47PathPlan]{ID: "C47", Name: "path", Run: vfC47RunPath}, seeds, func(b []byte) (vfC47PathPlan, bool) {
		if len(b) < 2 || len(b) > 40 {
			return vfC47PathPlan{}, false
		}
		p := vfC47PathPlan{Kind: int(b[0]&0x0f) % 3, CaseInsensitive: b[0]&0x10 != 0}
		n := int(b[1])
		rest := b[2:]
		if n > len(rest) {
			n = len(rest)
		}
		p.Pattern, p.Path = rest[:n], rest[n:]
		return p, utf8.Valid(p.Pattern)
	})
}
