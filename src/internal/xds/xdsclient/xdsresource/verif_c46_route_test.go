package xdsresource

// C46 (xdsresource part): virtual host selection, route matchers
// (CompositeMatcher built by RouteToMatcher) and the runtime-fraction matcher
// with the random source enumerated through RandInt64n, against a reference
// evaluator written from the property statement.

import (
	"fmt"
	"regexp"
	"strings"
	"testing"

	"google.golang.org/grpc/internal/verifkit/vk"
	"google.golang.org/grpc/internal/xds/matcher"
	"google.golang.org/grpc/metadata"
	"pgregory.net/rapid"
)

const vfC46SigFraction = "c46.fraction_off_by_one"

// ------------------------------------------------------------------ vhost

type vfC46VHPlan struct {
	Host   string     `json:"host"`
	VHosts [][]string `json:"vhosts"` // domains of each virtual host
}

func vfC46Label(rt *rapid.T, label string) string {
	return rapid.SampledFrom([]string{"a", "b", "ab", "ba", "svc", "x"}).Draw(rt, label)
}

func vfC46GenHost(rt *rapid.T) string {
	n := rapid.IntRange(1, 4).Draw(rt, "nlabels")
	parts := make([]string, n)
	for i := range parts {
		parts[i] = vfC46Label(rt, "label")
	}
	h := strings.Join(parts, ".")
	if rapid.IntRange(0, 3).Draw(rt, "port") == 0 {
		h += ":80"
	}
	return h
}

// vfC46GenDomain draws a valid domain pattern, mostly derived from host.
func vfC46GenDomain(rt *rapid.T, host string) string {
	switch rapid.IntRange(0, 9).Draw(rt, "dkind") {
	case 0:
		return "*"
	case 1, 2: // suffix pattern matching host
		i := rapid.IntRange(0, len(host)).Draw(rt, "cut")
		return "*" + host[i:]
	case 3, 4: // prefix pattern matching host
		i := rapid.IntRange(0, len(host)).Draw(rt, "cut")
		return host[:i] + "*"
	case 5, 6:
		return host
	case 7: // near miss
		other := vfC46GenHost(rt)
		switch rapid.IntRange(0, 2).Draw(rt, "nk") {
		case 0:
			return "*" + other
		case 1:
			return other + "*"
		}
		return other
	case 8: // host with one more / one less character
		if rapid.Bool().Draw(rt, "longer") {
			return host + "a"
		}
		return host[:len(host)-1]
	default:
		i := rapid.IntRange(0, len(host)).Draw(rt, "cut")
		if rapid.Bool().Draw(rt, "sfx") {
			return "*" + "a" + host[i:]
		}
		return host[:i] + "a" + "*"
	}
}

func vfC46GenVH(rt *rapid.T) vfC46VHPlan {
	p := vfC46VHPlan{Host: vfC46GenHost(rt)}
	seen := map[string]bool{}
	nvh := rapid.IntRange(0, 5).Draw(rt, "nvh")
	for i := 0; i < nvh; i++ {
		nd := rapid.IntRange(0, 4).Draw(rt, "nd")
		ds := []string{}
		for j := 0; j < nd; j++ {
			d := vfC46GenDomain(rt, p.Host)
			if d == "" {
				d = "*"
			}
			// duplicates across the configuration are allowed rarely (ties)
			if seen[d] && rapid.IntRange(0, 9).Draw(rt, "dup_ok") > 0 {
				continue
			}
			seen[d] = true
			ds = append(ds, d)
		}
		p.VHosts = append(p.VHosts, ds)
	}
	return p
}

// vfC46DomainKind: 4 exact, 3 suffix, 2 prefix, 1 wildcard, 0 outside the
// generated domain (not a valid pattern).
func vfC46DomainKind(d string) int {
	switch {
	case d == "":
		return 0
	case d == "*":
		return 1
	case strings.Count(d, "*") == 0:
		return 4
	case strings.Count(d, "*") > 1:
		return 0
	case d[0] == '*':
		return 3
	case d[len(d)-1] == '*':
		return 2
	}
	return 0
}

func vfC46DomainMatches(d, host string) bool {
	switch vfC46DomainKind(d) {
	case 1:
		return true
	case 4:
		return d == host
	case 3:
		s := d[1:]
		return len(host) >= len(s) && host[len(host)-len(s):] == s
	case 2:
		s := d[:len(d)-1]
		return len(host) >= len(s) && host[:len(s)] == s
	}
	return false
}

func vfC46RunVH(_ *testing.T, p vfC46VHPlan) vk.Result {
	vhs := make([]*VirtualHost, len(p.VHosts))
	bestKind, bestLen := 0, -1
	kindsMatching := map[int]bool{}
	nMatching := 0
	for i, ds := range p.VHosts {
		vhs[i] = &VirtualHost{Domains: ds}
		for _, d := range ds {
			k := vfC46DomainKind(d)
			if k == 0 {
				return vk.Result{Discard: true}
			}
			if !vfC46DomainMatches(d, p.Host) {
				continue
			}
			nMatching++
			kindsMatching[k] = true
			if k > bestKind || k == bestKind && len(d) > bestLen {
				bestKind, bestLen = k, len(d)
			}
		}
	}
	res := vk.Result{NonTrivial: len(kindsMatching) >= 2}
	res.Classes = append(res.Classes, fmt.Sprintf("matching_kinds_%d", len(kindsMatching)), fmt.Sprintf("best_kind_%d", bestKind))
	got := FindBestMatchingVirtualHost(p.Host, vhs)
	if bestKind == 0 {
		if got != nil {
			return vk.Bad("host %q matches no domain of %v but virtual host %v was selected", p.Host, p.VHosts, got.Domains)
		}
		return res
	}
	if got == nil {
		return vk.Bad("host %q: no virtual host selected, but domains of kind %d/len %d match in %v", p.Host, bestKind, bestLen, p.VHosts)
	}
	// The selected virtual host must be one of the configured ones and own a
	// matching domain of the best (kind, length).
	idx := -1
	for i := range vhs {
		if vhs[i] == got {
			idx = i
		}
	}
	if idx < 0 {
		return vk.Bad("selected virtual host is not one of the inputs")
	}
	ok := false
	owners := 0
	for i, ds := range p.VHosts {
		for _, d := range ds {
			if vfC46DomainKind(d) == bestKind && len(d) == bestLen && vfC46DomainMatches(d, p.Host) {
				owners++
				if i == idx {
					ok = true
				}
				break
			}
		}
	}
	if owners > 1 {
		res.Classes = append(res.Classes, "tie_duplicate_domain")
	}
	if !ok {
		return vk.Bad("host %q: selected virtual host #%d %v, but the best match is kind %d (4 exact,3 suffix,2 prefix,1 wildcard) with pattern length %d in %v",
			p.Host, idx, p.VHosts[idx], bestKind, bestLen, p.VHosts)
	}
	return res
}

func TestVerifC46VHost(t *testing.T) {
	vk.Check(t, vk.Unit[vfC46VHPlan]{
		ID: "C46", Name: "vhost",
		Rule: "authority of 1-4 labels (optional port); 0-5 virtual hosts with 0-4 valid domain patterns each, 70% derived from the authority (exact, '*'+tail, head+'*', '*'), the rest near misses (one char longer/shorter, inserted char, other host); duplicate patterns rare. non-trivial = domains of >= 2 different match kinds match the authority",
		Gen:  vfC46GenVH, Run: vfC46RunVH,
	})
}

// ------------------------------------------------------------------ composite

type vfC46Hdr struct {
	Name    string `json:"name"`
	Kind    int    `json:"kind"` // 0 exact 1 prefix 2 suffix 3 contains 4 regex 5 range 6 present
	Pattern string `json:"pattern"`
	Start   int64  `json:"start"`
	End     int64  `json:"end"`
	Present bool   `json:"present"`
	Invert  bool   `json:"invert"`
}

type vfC46Route struct {
	PathKind        int        `json:"path_kind"` // 0 prefix 1 exact 2 regex
	Path            string     `json:"path"`
	CaseInsensitive bool       `json:"ci"`
	Headers         []vfC46Hdr `json:"headers"`
	HasFraction     bool       `json:"has_fraction"`
	Fraction        uint32     `json:"fraction"`
}

type vfC46KV struct {
	Key  string   `json:"key"`
	Vals []string `json:"vals"`
}

type vfC46CompPlan struct {
	Route  vfC46Route `json:"route"`
	Method string     `json:"method"`
	MD     []vfC46KV  `json:"md"`
	Draw   int64      `json:"draw"` // value returned by the random source, in [0,1e6)
}

var vfC46Methods = []string{"/svc/M", "/svc/m", "/svc/Other", "/s/M", "/svc.v1/M", "/", "/svc/"}
var vfC46HdrNames = []string{"x-a", "x-b", "x-n"}
var vfC46Vals = []string{"a", "ab", "abc", "b", "1", "5", "10", "-1", "a,b"}

func vfC46GenRoute(rt *rapid.T, method string) vfC46Route {
	r := vfC46Route{PathKind: rapid.IntRange(0, 2).Draw(rt, "path_kind"), CaseInsensitive: rapid.IntRange(0, 3).Draw(rt, "ci") == 0}
	switch r.PathKind {
	case 0:
		if rapid.IntRange(0, 3).Draw(rt, "rel") > 0 {
			r.Path = method[:rapid.IntRange(0, len(method)).Draw(rt, "cut")]
		} else {
			r.Path = rapid.SampledFrom(vfC46Methods).Draw(rt, "p")
		}
	case 1:
		if rapid.IntRange(0, 2).Draw(rt, "rel") > 0 {
			r.Path = method
		} else {
			r.Path = rapid.SampledFrom(vfC46Methods).Draw(rt, "p")
		}
	default:
		r.Path = rapid.SampledFrom([]string{"/svc/.*", ".*", "/svc/[Mm]", "/s.*/M", "/svc", "", "/svc/M|/s/M", "/[^/]+/Other"}).Draw(rt, "re")
	}
	if r.CaseInsensitive && r.PathKind != 2 && rapid.Bool().Draw(rt, "flip") {
		r.Path = strings.ToUpper(r.Path) // ASCII only
	}
	nh := rapid.SampledFrom([]int{0, 0, 1, 1, 2, 3}).Draw(rt, "nh")
	for i := 0; i < nh; i++ {
		h := vfC46Hdr{Name: rapid.SampledFrom(vfC46HdrNames).Draw(rt, "hname"), Kind: rapid.IntRange(0, 6).Draw(rt, "hkind"), Invert: rapid.IntRange(0, 3).Draw(rt, "inv") == 0}
		switch h.Kind {
		case 4:
			h.Pattern = rapid.SampledFrom([]string{"a.*", ".*", "a|b", "[0-9]+", "a", ""}).Draw(rt, "hre")
		case 5:
			h.Start = rapid.Int64Range(-2, 6).Draw(rt, "start")
			h.End = h.Start + rapid.Int64Range(0, 6).Draw(rt, "len")
		case 6:
			h.Present = rapid.Bool().Draw(rt, "present")
		default:
			h.Pattern = rapid.SampledFrom([]string{"a", "ab", "b", "c", "a,b", ",", "1"}).Draw(rt, "hpat")
		}
		r.Headers = append(r.Headers, h)
	}
	if rapid.IntRange(0, 2).Draw(rt, "has_fraction") > 0 {
		r.HasFraction = true
		switch rapid.IntRange(0, 4).Draw(rt, "fk") {
		case 0:
			r.Fraction = rapid.SampledFrom([]uint32{0, 1, 2, 999998, 999999, 1000000, 1000001, 4294967295, 500000}).Draw(rt, "f")
		case 1:
			r.Fraction = rapid.Uint32().Draw(rt, "f")
		default:
			r.Fraction = rapid.Uint32Range(0, 1000000).Draw(rt, "f")
		}
	}
	return r
}

func vfC46GenMD(rt *rapid.T) []vfC46KV {
	var md []vfC46KV
	for _, k := range vfC46HdrNames {
		if rapid.IntRange(0, 3).Draw(rt, "has_"+k) == 0 {
			continue
		}
		n := rapid.SampledFrom([]int{1, 1, 1, 2}).Draw(rt, "nv")
		kv := vfC46KV{Key: k}
		for i := 0; i < n; i++ {
			kv.Vals = append(kv.Vals, rapid.SampledFrom(vfC46Vals).Draw(rt, "v"))
		}
		md = append(md, kv)
	}
	return md
}

// vfC46GenDraw draws a value of the random source near the fraction
// boundaries of the given routes or uniformly.
func vfC46GenDraw(rt *rapid.T, fractions []uint32) int64 {
	if len(fractions) > 0 && rapid.IntRange(0, 3).Draw(rt, "draw_rel") > 0 {
		f := int64(rapid.SampledFrom(fractions).Draw(rt, "draw_f"))
		d := f + rapid.Int64Range(-2, 2).Draw(rt, "draw_d")
		if d >= 0 && d < 1000000 {
			return d
		}
	}
	if rapid.IntRange(0, 3).Draw(rt, "draw_edge") == 0 {
		return rapid.SampledFrom([]int64{0, 1, 999999, 999998}).Draw(rt, "draw_e")
	}
	return rapid.Int64Range(0, 999999).Draw(rt, "draw")
}

func vfC46GenComp(rt *rapid.T) vfC46CompPlan {
	p := vfC46CompPlan{Method: rapid.SampledFrom(vfC46Methods).Draw(rt, "method")}
	p.Route = vfC46GenRoute(rt, p.Method)
	p.MD = vfC46GenMD(rt)
	var fs []uint32
	if p.Route.HasFraction {
		fs = append(fs, p.Route.Fraction)
	}
	p.Draw = vfC46GenDraw(rt, fs)
	return p
}

func vfC46Upper(s string) string {
	b := []byte(s)
	for i, c := range b {
		if 'a' <= c && c <= 'z' {
			b[i] = c - 32
		}
	}
	return string(b)
}

func vfC46FullMatch(pattern, s string) (bool, error) {
	re, err := regexp.Compile(pattern)
	if err != nil {
		return false, err
	}
	re.Longest()
	loc := re.FindStringIndex(s)
	return loc != nil && loc[0] == 0 && loc[1] == len(s), nil
}

func vfC46ParseInt(s string) (int64, bool) {
	neg, i := false, 0
	if len(s) > 0 && (s[0] == '+' || s[0] == '-') {
		neg, i = s[0] == '-', 1
	}
	if i == len(s) || len(s)-i > 15 {
		return 0, false
	}
	var v int64
	for ; i < len(s); i++ {
		if s[i] < '0' || s[i] > '9' {
			return 0, false
		}
		v = v*10 + int64(s[i]-'0')
	}
	if neg {
		v = -v
	}
	return v, true
}

// vfC46Ref is the reference: do path and header matchers of the route match
// (pre), and does the whole route match given the random draw.
func vfC46Ref(r vfC46Route, method string, md map[string][]string, draw int64) (pre, all bool) {
	path, m := r.Path, method
	if r.CaseInsensitive && r.PathKind != 2 {
		path, m = vfC46Upper(path), vfC46Upper(m)
	}
	switch r.PathKind {
	case 0:
		pre = len(m) >= len(path) && m[:len(path)] == path
	case 1:
		pre = m == path
	default:
		pre, _ = vfC46FullMatch(r.Path, method)
	}
	for _, h := range r.Headers {
		vs, present := md[h.Name]
		v := strings.Join(vs, ",")
		var hm bool
		if h.Kind == 6 {
			hm = (present == h.Present) != h.Invert
		} else if !present {
			hm = false
		} else {
			var base bool
			switch h.Kind {
			case 0:
				base = v == h.Pattern
			case 1:
				base = len(v) >= len(h.Pattern) && v[:len(h.Pattern)] == h.Pattern
			case 2:
				base = len(v) >= len(h.Pattern) && v[len(v)-len(h.Pattern):] == h.Pattern
			case 3:
				base = strings.Contains(v, h.Pattern)
			case 4:
				base, _ = vfC46FullMatch(h.Pattern, v)
			case 5:
				n, ok := vfC46ParseInt(v)
				base = ok && n >= h.Start && n < h.End
			}
			hm = base != h.Invert
		}
		pre = pre && hm
	}
	all = pre
	if r.HasFraction {
		// f per million matches exactly f of the draws 0..999999
		all = pre && draw < int64(r.Fraction)
	}
	return pre, all
}

// vfC46Build converts a plan route to the Route the RDS parser would produce.
func vfC46Build(r vfC46Route) (*Route, bool) {
	out := &Route{CaseInsensitive: r.CaseInsensitive}
	switch r.PathKind {
	case 0:
		s := r.Path
		out.Prefix = &s
	case 1:
		s := r.Path
		out.Path = &s
	case 2:
		re, err := matcher.CompileSafeRegex(r.Path)
		if err != nil {
			return nil, false
		}
		out.Regex = re
	default:
		return nil, false
	}
	for _, h := range r.Headers {
		inv := h.Invert
		hm := &HeaderMatcher{Name: h.Name, InvertMatch: &inv}
		switch h.Kind {
		case 0:
			sm := matcher.NewExactStringMatcher(h.Pattern, false)
			hm.StringMatch = &sm
		case 1:
			sm := matcher.NewPrefixStringMatcher(h.Pattern, false)
			hm.StringMatch = &sm
		case 2:
			sm := matcher.NewSuffixStringMatcher(h.Pattern, false)
			hm.StringMatch = &sm
		case 3:
			sm := matcher.NewContainsStringMatcher(h.Pattern, false)
			hm.StringMatch = &sm
		case 4:
			re, err := matcher.CompileSafeRegex(h.Pattern)
			if err != nil {
				return nil, false
			}
			hm.RegexMatch = re
		case 5:
			hm.RangeMatch = &Int64Range{Start: h.Start, End: h.End}
		case 6:
			pm := h.Present
			hm.PresentMatch = &pm
		default:
			return nil, false
		}
		out.Headers = append(out.Headers, hm)
	}
	if r.HasFraction {
		f := r.Fraction
		out.Fraction = &f
	}
	return out, true
}

// vfC46WithDraw runs f with the package's random source replaced by one that
// always returns draw; reports the bound argument(s) it was asked for.
func vfC46WithDraw(draw int64, f func()) (calls int, badBound int64) {
	old := RandInt64n
	defer func() { RandInt64n = old }()
	RandInt64n = func(n int64) int64 {
		calls++
		if n != 1000000 {
			badBound = n
		}
		return draw
	}
	f()
	return
}

func vfC46MD(kvs []vfC46KV) (metadata.MD, bool) {
	md := metadata.MD{}
	for _, kv := range kvs {
		if len(kv.Vals) == 0 || md[kv.Key] != nil {
			return nil, false
		}
		md[kv.Key] = append([]string(nil), kv.Vals...)
	}
	return md, true
}

func vfC46RunComp(_ *testing.T, p vfC46CompPlan) vk.Result {
	route, ok := vfC46Build(p.Route)
	md, ok2 := vfC46MD(p.MD)
	if !ok || !ok2 || p.Draw < 0 || p.Draw >= 1000000 {
		return vk.Result{Discard: true}
	}
	pre, want := vfC46Ref(p.Route, p.Method, md, p.Draw)
	res := vk.Result{}
	res.Classes = append(res.Classes, fmt.Sprintf("path_kind_%d", p.Route.PathKind), fmt.Sprintf("headers_%d", len(p.Route.Headers)))
	if pre {
		res.Classes = append(res.Classes, "path_and_headers_match")
	}
	if p.Route.HasFraction {
		res.Classes = append(res.Classes, "fraction")
		if pre {
			res.Classes = append(res.Classes, "fraction_decides")
		}
	}
	res.NonTrivial = pre && (p.Route.HasFraction || len(p.Route.Headers) > 0)

	var got bool
	cm := RouteToMatcher(route)
	_, badBound := vfC46WithDraw(p.Draw, func() { got = cm.Match(p.Method, md) })
	if badBound != 0 {
		return vk.Bad("runtime fraction drew from [0,%d), want [0,1000000)", badBound)
	}
	if got != want {
		r := vk.Bad("route %+v method=%q md=%v draw=%d: Match=%v, reference=%v", p.Route, p.Method, p.MD, p.Draw, got, want)
		if pre && p.Route.HasFraction && p.Draw == int64(p.Route.Fraction) && got {
			r.Sig = vfC46SigFraction
			r = r.With("known_shape_fraction_off_by_one")
		}
		return r.With(res.Classes...)
	}
	return res
}

func TestVerifC46Composite(t *testing.T) {
	vk.Check(t, vk.Unit[vfC46CompPlan]{
		ID: "C46", Name: "composite",
		Rule: "one validated route (prefix/exact/regex path derived from the method in 70%, optional ASCII case-insensitivity, 0-3 header matchers of all kinds with invert, runtime fraction in 2/3 of the cases incl. 0, 1, 999999, 1000000, >1e6) against a method, a 0-3 key metadata map and one value of the random source placed within +-2 of the fraction in 75%. non-trivial = path and header matchers match and the route has a header or fraction matcher",
		Gen:  vfC46GenComp, Run: vfC46RunComp,
	})
}

// ------------------------------------------------------------------ fraction

type vfC46FracPlan struct {
	Fraction uint32  `json:"fraction"`
	Full     bool    `json:"full"`  // enumerate all 10^6 draws
	Draws    []int64 `json:"draws"` // sampled draws otherwise
}

func vfC46GenFrac(rt *rapid.T) vfC46FracPlan {
	p := vfC46FracPlan{Full: vk.Thorough()}
	switch rapid.IntRange(0, 3).Draw(rt, "fk") {
	case 0:
		p.Fraction = rapid.SampledFrom([]uint32{0, 1, 2, 999998, 999999, 1000000, 1000001, 4294967295}).Draw(rt, "f")
	case 1:
		p.Fraction = rapid.Uint32().Draw(rt, "f")
	default:
		p.Fraction = rapid.Uint32Range(0, 1000000).Draw(rt, "f")
	}
	if !p.Full {
		f := int64(p.Fraction)
		seen := map[int64]bool{}
		for _, d := range []int64{0, 1, f - 2, f - 1, f, f + 1, f + 2, 999998, 999999} {
			if d >= 0 && d < 1000000 && !seen[d] {
				seen[d] = true
				p.Draws = append(p.Draws, d)
			}
		}
		// stratified sample: one draw from each of 50 strata of 20000
		for s := int64(0); s < 50; s++ {
			p.Draws = append(p.Draws, s*20000+rapid.Int64Range(0, 19999).Draw(rt, "strat"))
		}
	}
	return p
}

func vfC46RunFrac(_ *testing.T, p vfC46FracPlan) vk.Result {
	prefix := ""
	f := p.Fraction
	cm := RouteToMatcher(&Route{Prefix: &prefix, Fraction: &f})
	res := vk.Result{NonTrivial: p.Fraction <= 1000000}
	switch {
	case p.Fraction == 0:
		res.Classes = append(res.Classes, "fraction_0")
	case p.Fraction < 1000000:
		res.Classes = append(res.Classes, "fraction_inner")
	default:
		res.Classes = append(res.Classes, "fraction_ge_1e6")
	}
	var disagree []int64
	matched, refMatched := 0, 0
	cur := int64(0)
	old := RandInt64n
	defer func() { RandInt64n = old }()
	var badBound int64
	RandInt64n = func(n int64) int64 {
		if n != 1000000 {
			badBound = n
		}
		return cur
	}
	eval := func(d int64) {
		cur = d
		got := cm.Match("/x", nil)
		want := d < int64(p.Fraction)
		if got {
			matched++
		}
		if want {
			refMatched++
		}
		if got != want && len(disagree) < 8 {
			dup := false
			for _, x := range disagree {
				dup = dup || x == d
			}
			if !dup {
				disagree = append(disagree, d)
			}
		}
	}
	if p.Full {
		res.Classes = append(res.Classes, "full_enumeration")
		for d := int64(0); d < 1000000; d++ {
			eval(d)
		}
		res.Steps = 1000000
	} else {
		for _, d := range p.Draws {
			if d < 0 || d >= 1000000 {
				return vk.Result{Discard: true}
			}
			eval(d)
		}
		res.Steps = len(p.Draws)
	}
	if badBound != 0 {
		return vk.Bad("runtime fraction drew from [0,%d), want [0,1000000)", badBound)
	}
	if len(disagree) > 0 {
		r := vk.Bad("fraction %d per million: matched %d of the %d evaluated draws, reference %d; disagreeing draws %v (reference: draw r matches iff r < fraction)",
			p.Fraction, matched, res.Steps, refMatched, disagree)
		// known shape: the one and only disagreeing draw is r == fraction
		if len(disagree) == 1 && disagree[0] == int64(p.Fraction) {
			r.Sig = vfC46SigFraction
			r = r.With("known_shape_fraction_off_by_one")
		}
		r.Steps = res.Steps
		return r.With(res.Classes...)
	}
	return res
}

func TestVerifC46Fraction(t *testing.T) {
	vk.Check(t, vk.Unit[vfC46FracPlan]{
		ID: "C46", Name: "fraction",
		Rule: "runtime fraction f (specials 0,1,2,999998..1000001,MaxUint32; uniform uint32; uniform 0..1e6) on a route that otherwise always matches; random source replaced through RandInt64n: quick = draws {0,1,f-2..f+2,999998,999999} plus one draw from each of 50 strata, thorough = all 10^6 draws; oracle: r matches iff r < f (so exactly min(f,1e6) draws match). non-trivial = f <= 1e6",
		Gen:  vfC46GenFrac, Run: vfC46RunFrac,
	})
}
