package xdsresource

// C45: xDS resource parsing is total and accepted resources satisfy invariants.
//
// Plans are the serialized resources themselves (type URL + bytes, optional
// Resource wrapper, env-feature bits); Run feeds them to
// unmarshal{Listener,RouteConfig,Cluster,Endpoints}Resource twice with panic
// recovery disabled and checks: no panic, same answer both times, and the
// named invariants on accepted updates.

import (
	"encoding/json"
	"fmt"
	"math"
	"reflect"
	"regexp"
	"runtime/debug"
	"strings"
	"sync"
	"sync/atomic"
	"testing"

	v3discoverypb "github.com/envoyproxy/go-control-plane/envoy/service/discovery/v3"
	"google.golang.org/grpc/internal/envconfig"
	"google.golang.org/grpc/internal/verifkit/vk"
	"google.golang.org/grpc/internal/xds/bootstrap"
	"google.golang.org/protobuf/proto"
	"google.golang.org/protobuf/reflect/protoreflect"
	"google.golang.org/protobuf/reflect/protoregistry"
	"google.golang.org/protobuf/types/known/anypb"
	"pgregory.net/rapid"
)

const (
	vfC45LDS = iota
	vfC45RDS
	vfC45CDS
	vfC45EDS
)

var vfC45KindNames = []string{"listener", "routeconfig", "cluster", "endpoints"}
var vfC45Roots = []string{"envoy.config.listener.v3.Listener", "envoy.config.route.v3.RouteConfiguration", "envoy.config.cluster.v3.Cluster", "envoy.config.endpoint.v3.ClusterLoadAssignment"}

type vfC45Plan struct {
	Kind    int    `json:"kind"`
	TypeURL string `json:"type_url"`
	Value   []byte `json:"value"`
	Wrap    bool   `json:"wrap"` // wrap in envoy.service.discovery.v3.Resource
	Env     uint32 `json:"env"`  // feature bits, see vfC45ApplyEnv
	Shallow string `json:"shallow,omitempty"`
}

func vfC45GenPlan(kind int) func(rt *rapid.T) vfC45Plan {
	return func(rt *rapid.T) vfC45Plan {
		g := &vfC45G{rt: rt, budget: vfC45FieldBudet, kind: kind, wild: rapid.SampledFrom([]int{0, 0, 0, 1, 1, 2}).Draw(rt, "wild")}
		if w := g.roll("wild_roll"); w >= 60 {
			g.wild = 1 + (w-60)/30
		} else {
			g.wild = 0
		}
		mt, err := protoregistry.GlobalTypes.FindMessageByName(protoreflect.FullName(vfC45Roots[kind]))
		if err != nil {
			panic("root type not linked: " + vfC45Roots[kind])
		}
		m := mt.New()
		g.fill(m, 0)
		b, err := proto.MarshalOptions{Deterministic: true}.Marshal(m.Interface())
		if err != nil {
			panic(fmt.Sprintf("harness: cannot marshal generated %s: %v", vfC45Roots[kind], err))
		}
		p := vfC45Plan{Kind: kind, TypeURL: "type.googleapis.com/" + vfC45Roots[kind], Value: b,
			Wrap: g.roll("wrap") < 15, Env: uint32(g.roll("env_lo")) | uint32(g.roll("env_hi"))<<4&0xf0}
		// a few shallow corruptions of the envelope
		switch g.roll("shallow") * 2 / 5 { // 0..39
		case 0:
			p.TypeURL = "type.googleapis.com/" + vfC45Roots[(kind+1)%4]
			p.Shallow = "wrong_type_url"
		case 1:
			if len(p.Value) > 0 {
				p.Value = p.Value[:rapid.IntRange(0, len(p.Value)-1).Draw(rt, "cut")]
				p.Shallow = "truncated"
			}
		case 2:
			if len(p.Value) > 0 {
				i := rapid.IntRange(0, len(p.Value)-1).Draw(rt, "flip_at")
				p.Value = append([]byte(nil), p.Value...)
				p.Value[i] ^= byte(1 << rapid.IntRange(0, 7).Draw(rt, "flip_bit"))
				p.Shallow = "bitflip"
			}
		}
		return p
	}
}

// ---- environment -------------------------------------------------------------

var (
	vfC45BootOnce sync.Once
	vfC45Boot     *bootstrap.Config
	vfC45BootErr  error
	vfC45EnvMu    sync.Mutex
)

func vfC45Bootstrap() (*bootstrap.Config, *bootstrap.ServerConfig, error) {
	vfC45BootOnce.Do(func() {
		vfC45Boot, vfC45BootErr = bootstrap.NewConfigFromContents([]byte(`{"xds_servers":[{"server_uri":"passthrough:///verif","channel_creds":[{"type":"insecure"}],"server_features":["trusted_xds_server"]}],"node":{"id":"verif-node"},
		 "certificate_providers":{}}`))
	})
	if vfC45BootErr != nil {
		return nil, nil, vfC45BootErr
	}
	var sc *bootstrap.ServerConfig
	if s := vfC45Boot.XDSServers(); len(s) > 0 {
		sc = s[0]
	}
	return vfC45Boot, sc, nil
}

// vfC45ApplyEnv switches the experimental parsing features according to the
// plan's bits (so both settings of each are explored) and disables panic
// recovery; it returns the restore function.
func vfC45ApplyEnv(bits uint32) func() {
	vfC45EnvMu.Lock()
	flags := []*bool{&envconfig.XDSDualstackEndpointsEnabled, &envconfig.XDSHTTPConnectEnabled, &envconfig.XDSSNIEnabled, &envconfig.XDSORCAToLRSPropEnabled,
		&envconfig.GCPAuthenticationFilterEnabled, &envconfig.XDSAuthorityRewrite, &envconfig.XDSSystemRootCertsEnabled, &envconfig.XDSEndpointHashKeyBackwardCompat}
	old := make([]bool, len(flags))
	for i, f := range flags {
		old[i] = *f
		*f = bits&(1<<uint(i)) != 0
	}
	oldRecover := envconfig.XDSRecoverPanicInResourceParsing
	envconfig.XDSRecoverPanicInResourceParsing = false
	return func() {
		for i, f := range flags {
			*f = old[i]
		}
		envconfig.XDSRecoverPanicInResourceParsing = oldRecover
		vfC45EnvMu.Unlock()
	}
}

// ---- structural equality (determinism oracle) ----------------------------------

func vfC45Equal(a, b reflect.Value, depth int) bool {
	if depth > 80 {
		return true
	}
	if a.IsValid() != b.IsValid() {
		return false
	}
	if !a.IsValid() {
		return true
	}
	if a.Type() != b.Type() {
		return false
	}
	if a.CanInterface() {
		if am, ok := a.Interface().(proto.Message); ok {
			bm, _ := b.Interface().(proto.Message)
			if am == nil || bm == nil || reflect.ValueOf(am).IsNil() || reflect.ValueOf(bm).IsNil() {
				return (am == nil || reflect.ValueOf(am).IsNil()) == (bm == nil || reflect.ValueOf(bm).IsNil())
			}
			return proto.Equal(am, bm)
		}
		if ar, ok := a.Interface().(*regexp.Regexp); ok {
			br := b.Interface().(*regexp.Regexp)
			if ar == nil || br == nil {
				return ar == br
			}
			return ar.String() == br.String()
		}
	}
	switch a.Kind() {
	case reflect.Ptr, reflect.Interface:
		if a.IsNil() || b.IsNil() {
			return a.IsNil() == b.IsNil()
		}
		return vfC45Equal(a.Elem(), b.Elem(), depth+1)
	case reflect.Struct:
		for i := 0; i < a.NumField(); i++ {
			if !vfC45Equal(a.Field(i), b.Field(i), depth+1) {
				return false
			}
		}
		return true
	case reflect.Slice:
		if a.IsNil() != b.IsNil() {
			return false
		}
		fallthrough
	case reflect.Array:
		if a.Len() != b.Len() {
			return false
		}
		for i := 0; i < a.Len(); i++ {
			if !vfC45Equal(a.Index(i), b.Index(i), depth+1) {
				return false
			}
		}
		return true
	case reflect.Map:
		if a.IsNil() != b.IsNil() || a.Len() != b.Len() {
			return false
		}
		for _, k := range a.MapKeys() {
			bv := b.MapIndex(k)
			if !bv.IsValid() || !vfC45Equal(a.MapIndex(k), bv, depth+1) {
				return false
			}
		}
		return true
	case reflect.Func:
		return a.IsNil() == b.IsNil()
	case reflect.Bool:
		return a.Bool() == b.Bool()
	case reflect.Int, reflect.Int8, reflect.Int16, reflect.Int32, reflect.Int64:
		return a.Int() == b.Int()
	case reflect.Uint, reflect.Uint8, reflect.Uint16, reflect.Uint32, reflect.Uint64, reflect.Uintptr:
		return a.Uint() == b.Uint()
	case reflect.Float32, reflect.Float64:
		x, y := a.Float(), b.Float()
		return x == y || (x != x && y != y)
	case reflect.String:
		return a.String() == b.String()
	case reflect.Chan, reflect.UnsafePointer:
		return a.Pointer() == b.Pointer()
	}
	return true
}

// ---- invariants ----------------------------------------------------------------

type vfC45Inv struct {
	checked []string // names of predicates that had something to check
	failed  string
}

func (iv *vfC45Inv) check(name string, ok bool, format string, args ...any) {
	iv.checked = append(iv.checked, name)
	if !ok && iv.failed == "" {
		iv.failed = "invariant " + name + ": " + fmt.Sprintf(format, args...)
	}
}

func vfC45InvRoute(iv *vfC45Inv, rc *RouteConfigUpdate) {
	for vi, vh := range rc.VirtualHosts {
		if vh == nil {
			iv.check("rds_vhost_non_nil", false, "virtual host %d is nil", vi)
			continue
		}
		for ri, r := range vh.Routes {
			if r == nil {
				iv.check("rds_route_non_nil", false, "vhost %d route %d is nil", vi, ri)
				continue
			}
			n := 0
			if r.Path != nil {
				n++
			}
			if r.Prefix != nil {
				n++
			}
			if r.Regex != nil {
				n++
			}
			iv.check("rds_route_has_path_matcher", n == 1, "vhost %d route %d has %d path matchers", vi, ri, n)
			for hi, h := range r.Headers {
				hn := 0
				if h != nil {
					for _, set := range []bool{h.RegexMatch != nil, h.RangeMatch != nil, h.PresentMatch != nil, h.StringMatch != nil} {
						if set {
							hn++
						}
					}
				}
				iv.check("rds_header_has_one_specifier", hn == 1, "vhost %d route %d header %d has %d specifiers", vi, ri, hi, hn)
			}
			switch r.ActionType {
			case RouteActionRoute:
				hasWC, hasCSP := len(r.WeightedClusters) > 0, r.ClusterSpecifierPlugin != ""
				iv.check("rds_route_action_supported", hasWC != hasCSP, "vhost %d route %d: route action with %d weighted clusters and cluster specifier plugin %q", vi, ri, len(r.WeightedClusters), r.ClusterSpecifierPlugin)
				if hasCSP {
					_, ok := rc.ClusterSpecifierPlugins[r.ClusterSpecifierPlugin]
					iv.check("rds_csp_known", ok, "vhost %d route %d references plugin %q missing from the update", vi, ri, r.ClusterSpecifierPlugin)
				}
			case RouteActionNonForwardingAction, RouteActionUnsupported:
				// kept so that RPCs matching the route fail (gRFC A36); counted by the caller
			default:
				iv.check("rds_route_action_supported", false, "vhost %d route %d has action type %d", vi, ri, r.ActionType)
			}
			if len(r.WeightedClusters) > 0 {
				var sum uint64
				nz := true
				for _, wc := range r.WeightedClusters {
					sum += uint64(wc.Weight)
					nz = nz && wc.Weight != 0
				}
				iv.check("rds_weighted_clusters_total_positive", sum > 0 && sum <= math.MaxUint32 && nz, "vhost %d route %d: weighted clusters %+v (sum %d)", vi, ri, r.WeightedClusters, sum)
			}
			// consumer precondition: RouteToMatcher must accept every accepted route
			func() {
				defer func() {
					if x := recover(); x != nil {
						iv.check("rds_route_to_matcher", false, "RouteToMatcher panicked on accepted route %d/%d: %v", vi, ri, x)
					}
				}()
				if n == 1 {
					RouteToMatcher(r)
					iv.checked = append(iv.checked, "rds_route_to_matcher")
				}
			}()
		}
	}
}

func vfC45InvHCM(iv *vfC45Inv, where string, h *HTTPConnectionManagerConfig) {
	if h == nil {
		iv.check("lds_hcm_present", false, "%s: no HTTP connection manager config", where)
		return
	}
	iv.check("lds_route_source_exactly_one", (h.RouteConfigName != "") != (h.InlineRouteConfig != nil), "%s: route config name %q, inline %v", where, h.RouteConfigName, h.InlineRouteConfig != nil)
	if h.InlineRouteConfig != nil {
		vfC45InvRoute(iv, h.InlineRouteConfig)
	}
	names := map[string]bool{}
	ok := len(h.HTTPFilters) > 0
	for i, f := range h.HTTPFilters {
		if f.Name == "" || names[f.Name] || f.Filter == nil {
			ok = false
			continue
		}
		names[f.Name] = true
		if f.Filter.IsTerminal() != (i == len(h.HTTPFilters)-1) {
			ok = false
		}
	}
	iv.check("lds_http_filters_wellformed", ok, "%s: http filters %+v (need unique non-empty names, exactly the last one terminal)", where, h.HTTPFilters)
}

func vfC45Invariants(kind int, u any) vfC45Inv {
	var iv vfC45Inv
	switch kind {
	case vfC45EDS:
		up := u.(EndpointsUpdate)
		prios := map[uint32]bool{}
		type lp struct {
			id   string
			prio uint32
		}
		seenLP := map[lp]bool{}
		seenAddr := map[string]bool{}
		locSum := map[uint32]uint64{}
		for _, l := range up.Localities {
			prios[l.Priority] = true
			k := lp{fmt.Sprintf("%q/%q/%q", l.ID.Region, l.ID.Zone, l.ID.SubZone), l.Priority}
			iv.check("eds_locality_priority_unique", !seenLP[k], "locality %v appears twice at priority %d", l.ID, l.Priority)
			seenLP[k] = true
			locSum[l.Priority] += uint64(l.Weight)
			var epSum uint64
			for _, e := range l.Endpoints {
				iv.check("eds_endpoint_weight_nonzero", e.Weight != 0, "endpoint %v has weight 0", e.ResolverEndpoint.Addresses)
				epSum += uint64(e.Weight)
				for _, a := range e.ResolverEndpoint.Addresses {
					iv.check("eds_address_unique", !seenAddr[a.Addr], "address %q repeats", a.Addr)
					seenAddr[a.Addr] = true
				}
			}
			iv.check("eds_endpoint_weight_sum_fits_uint32", epSum <= math.MaxUint32, "locality %v: endpoint weights sum to %d", l.ID, epSum)
		}
		for p, s := range locSum {
			iv.check("eds_locality_weight_sum_fits_uint32", s <= math.MaxUint32, "priority %d: locality weights sum to %d", p, s)
		}
		contiguous := true
		for i := 0; i < len(prios); i++ {
			contiguous = contiguous && prios[uint32(i)]
		}
		if len(up.Localities) > 0 {
			iv.check("eds_priorities_contiguous_from_0", contiguous, "priorities %v", prios)
		}
	case vfC45RDS:
		up := u.(RouteConfigUpdate)
		vfC45InvRoute(&iv, &up)
	case vfC45CDS:
		up := u.(ClusterUpdate)
		iv.check("cds_name_set", up.ClusterName != "", "empty cluster name")
		iv.check("cds_lb_policy_json", len(up.LBPolicy) > 0 && json.Valid(up.LBPolicy), "LBPolicy %q is not valid JSON", up.LBPolicy)
		if up.OutlierDetection != nil {
			iv.check("cds_outlier_detection_json", json.Valid(up.OutlierDetection), "OutlierDetection %q is not valid JSON", up.OutlierDetection)
		}
		switch up.ClusterType {
		case ClusterTypeEDS:
		case ClusterTypeLogicalDNS:
			iv.check("cds_dns_hostname_set", up.DNSHostName != "" && strings.Contains(up.DNSHostName, ":"), "LOGICAL_DNS cluster with host name %q", up.DNSHostName)
		case ClusterTypeAggregate:
			iv.check("cds_aggregate_has_children", len(up.PrioritizedClusterNames) > 0, "aggregate cluster without children")
		default:
			iv.check("cds_cluster_type_known", false, "cluster type %d", up.ClusterType)
		}
		if up.SecurityCfg != nil {
			iv.check("cds_security_has_root", up.SecurityCfg.UseSystemRootCerts || up.SecurityCfg.RootInstanceName != "", "client security config without root provider: %+v", up.SecurityCfg)
			iv.check("cds_sni_length", len(up.SecurityCfg.SNI) <= 255, "SNI of length %d", len(up.SecurityCfg.SNI))
		}
	case vfC45LDS:
		up := u.(ListenerUpdate)
		iv.check("lds_exactly_one_side", (up.APIListener != nil) != (up.TCPListener != nil), "APIListener %v TCPListener %v", up.APIListener != nil, up.TCPListener != nil)
		if up.APIListener != nil {
			vfC45InvHCM(&iv, "api_listener", up.APIListener)
		}
		if t := up.TCPListener; t != nil {
			n := 0
			for di, d := range t.FilterChains.DstPrefixes {
				for si, st := range d.SourceTypeArr {
					seenPfx := map[string]bool{}
					for _, e := range st.Entries {
						key := e.Prefix.String()
						iv.check("lds_source_prefix_unique", !seenPfx[key], "dst %d source type %d: source prefix %s twice", di, si, key)
						seenPfx[key] = true
						for port, fc := range e.PortMap {
							n++
							vfC45InvHCM(&iv, fmt.Sprintf("filter chain dst=%v st=%d src=%v port=%d", d.Prefix, si, e.Prefix, port), fc.HTTPConnMgr)
							if fc.SecurityCfg != nil {
								iv.check("lds_server_security_has_identity", fc.SecurityCfg.IdentityInstanceName != "", "server security config without identity provider")
							}
						}
					}
				}
			}
			if !t.DefaultFilterChain.IsEmpty() {
				n++
				vfC45InvHCM(&iv, "default filter chain", t.DefaultFilterChain.HTTPConnMgr)
			}
			iv.check("lds_server_has_a_filter_chain", n > 0, "server listener without any filter chain")
		}
	}
	return iv
}

// ---- run ------------------------------------------------------------------------

type vfC45Out struct {
	name string
	u    any
	err  error
}

func vfC45Parse(kind int, a *anypb.Any, bc *bootstrap.Config, sc *bootstrap.ServerConfig) (out vfC45Out, panicked string) {
	defer func() {
		if x := recover(); x != nil {
			panicked = fmt.Sprint(x) + " at " + vfC45Stack()
		}
	}()
	switch kind {
	case vfC45LDS:
		n, u, err := unmarshalListenerResource(a, bc, sc)
		return vfC45Out{n, u, err}, ""
	case vfC45RDS:
		n, u, err := unmarshalRouteConfigResource(a, bc, sc)
		return vfC45Out{n, u, err}, ""
	case vfC45CDS:
		n, u, err := unmarshalClusterResource(a, sc)
		return vfC45Out{n, u, err}, ""
	default:
		n, u, err := unmarshalEndpointsResource(a)
		return vfC45Out{n, u, err}, ""
	}
}

// vfC45Stack returns the grpc frames of the current (panicking) stack, innermost
// first, as "function (file:line)", without addresses.
func vfC45Stack() string {
	var out []string
	lines := strings.Split(string(debug.Stack()), "\n")
	for i := 0; i+1 < len(lines); i++ {
		fn, loc := strings.TrimSpace(lines[i]), strings.TrimSpace(lines[i+1])
		if !strings.HasPrefix(fn, "google.golang.org/grpc/") || !strings.HasPrefix(loc, "/") {
			continue
		}
		if strings.Contains(loc, "verif_c45") || strings.Contains(loc, "verifkit") {
			continue
		}
		if j := strings.LastIndex(fn, "("); j > 0 {
			fn = fn[:j]
		}
		if j := strings.Index(loc, " +0x"); j > 0 {
			loc = loc[:j]
		}
		if j := strings.LastIndex(loc, "/"); j > 0 {
			loc = loc[j+1:]
		}
		out = append(out, strings.TrimPrefix(fn, "google.golang.org/grpc/")+" ("+loc+")")
		if len(out) >= 6 {
			break
		}
	}
	return strings.Join(out, " <- ")
}

// Known-finding signatures (precise predicates over the panic site).
const vfC45SigRBACNil = "c45.rbac_per_route_without_rbac_panics"

func vfC45PanicSig(pan string) string {
	// RBACPerRoute override whose rbac field is unset: parseConfig(nil)
	// dereferences rbacCfg.Rules.
	if strings.Contains(pan, "nil pointer dereference at internal/xds/httpfilter/rbac.parseConfig (") &&
		strings.Contains(pan, "<- internal/xds/httpfilter/rbac.builder.ParseFilterConfigOverride (") {
		return vfC45SigRBACNil
	}
	return ""
}

var vfC45Counts [4]struct{ total, accepted, deep atomic.Int64 }

// vfC45ErrClass maps an error to a short stable label (first words, digits and
// quoted parts removed) for the histogram.
var vfC45ErrRe = regexp.MustCompile(`[^a-zA-Z_ ]+`)

func vfC45ErrClass(err error) string {
	s := err.Error()
	head, tail := s, ""
	if i := strings.IndexAny(s, "{%\""); i > 0 {
		head = s[:i]
		if j := strings.LastIndexAny(s, "}\""); j > i {
			tail = s[j+1:]
		}
	}
	clean := func(x string, n int, fromEnd bool) string {
		w := strings.Fields(vfC45ErrRe.ReplaceAllString(x, " "))
		if len(w) > n {
			if fromEnd {
				w = w[len(w)-n:]
			} else {
				w = w[:n]
			}
		}
		return strings.Join(w, "_")
	}
	c := clean(head, 5, false)
	if i := strings.Index(s, "no filter implementation found for \""); i >= 0 {
		u := s[i+len("no filter implementation found for \""):]
		if j := strings.Index(u, "\""); j >= 0 {
			u = u[:j]
		}
		return "no_filter_implementation:" + u[strings.LastIndex(u, ".")+1:]
	}
	if t := clean(tail, 6, true); t != "" {
		c += ".." + t
	}
	return c
}

func vfC45Run(_ *testing.T, p vfC45Plan) vk.Result {
	if p.Kind < 0 || p.Kind > 3 || len(p.Value) > 1<<20 {
		return vk.Result{Discard: true}
	}
	bc, sc, err := vfC45Bootstrap()
	if err != nil {
		return vk.Bad("harness: bootstrap: %v", err)
	}
	restore := vfC45ApplyEnv(p.Env)
	defer restore()

	mk := func() *anypb.Any {
		a := &anypb.Any{TypeUrl: p.TypeURL, Value: append([]byte(nil), p.Value...)}
		if p.Wrap {
			w, err := anypb.New(&v3discoverypb.Resource{Name: "wrapped", Resource: a})
			if err == nil {
				return w
			}
		}
		return a
	}
	kn := vfC45KindNames[p.Kind]
	res := vk.Result{Classes: []string{kn}}
	o1, pan := vfC45Parse(p.Kind, mk(), bc, sc)
	if pan != "" {
		r := vk.Bad("unmarshal of a %s resource panicked: %s (type_url %q, %d bytes, env %#x)", kn, pan, p.TypeURL, len(p.Value), p.Env)
		r.Sig = vfC45PanicSig(pan)
		return r.With(kn + ":panic")
	}
	o2, pan := vfC45Parse(p.Kind, mk(), bc, sc)
	if pan != "" {
		r := vk.Bad("second unmarshal of a %s resource panicked (the first did not: map iteration order): %s", kn, pan)
		r.Sig = vfC45PanicSig(pan)
		return r.With(kn + ":panic")
	}
	if (o1.err == nil) != (o2.err == nil) || o1.name != o2.name {
		return vk.Bad("%s: not deterministic: first (name %q, err %v), second (name %q, err %v)", kn, o1.name, o1.err, o2.name, o2.err)
	}
	c := &vfC45Counts[p.Kind]
	c.total.Add(1)
	if o1.err != nil {
		deep := o1.name != "" // past envelope, proto decoding and the name check
		if deep {
			c.deep.Add(1)
			res.NonTrivial = true
			res.Classes = append(res.Classes, kn+":rejected_deep", kn+":err:"+vfC45ErrClass(o1.err))
		} else {
			res.Classes = append(res.Classes, kn+":rejected_shallow", kn+":shallow:"+vfC45ErrClass(o1.err))
		}
		// a rejected resource yields the zero update
		if !reflect.ValueOf(o1.u).IsZero() {
			return vk.Bad("%s: error %v returned together with a non-zero update", kn, o1.err)
		}
		return res
	}
	c.accepted.Add(1)
	res.NonTrivial = true
	res.Classes = append(res.Classes, kn+":accepted")
	// determinism of the update: ignore the Raw field (it aliases the input Any)
	if !vfC45Equal(reflect.ValueOf(o1.u), reflect.ValueOf(o2.u), 0) {
		return vk.Bad("%s %q: two parses of the same bytes gave different updates:\n%+v\n%+v", kn, o1.name, o1.u, o2.u)
	}
	iv := vfC45Invariants(p.Kind, o1.u)
	seen := map[string]bool{}
	for _, n := range iv.checked {
		if !seen[n] {
			seen[n] = true
			res.Classes = append(res.Classes, "inv:"+n)
		}
	}
	if iv.failed != "" {
		return vk.Bad("%s %q accepted but %s", kn, o1.name, iv.failed).With(res.Classes...)
	}
	switch u := o1.u.(type) {
	case RouteConfigUpdate:
		for _, vh := range u.VirtualHosts {
			for _, r := range vh.Routes {
				if r.ActionType == RouteActionUnsupported {
					res.Classes = append(res.Classes, "rds:route_with_unsupported_action_kept")
				}
			}
		}
	case ListenerUpdate:
		if u.APIListener != nil {
			res.Classes = append(res.Classes, "listener:client_side")
		} else {
			res.Classes = append(res.Classes, "listener:server_side")
		}
	case ClusterUpdate:
		res.Classes = append(res.Classes, fmt.Sprintf("cluster:type_%d", u.ClusterType))
	case EndpointsUpdate:
		res.Classes = append(res.Classes, fmt.Sprintf("endpoints:localities_%d", min(len(u.Localities), 3)))
	}
	return res
}

const vfC45Rule = "resource built by reflection over the message descriptor (fields the parsers read are set with a tuned probability and mostly-valid values from hint tables, every other field with 4% down to depth 6; oneofs choose at most one member; Any fields hold a generated message of a type chosen by context, a foreign type, or garbage), marshalled and wrapped in Any (1/6 in a discovery Resource wrapper); 1/13 get a wrong type URL, a truncation or a bit flip; experimental parsing features switched by 8 random bits; panic recovery disabled. non-trivial = accepted, or rejected after the envelope, proto decoding and name check passed"

func vfC45Test(t *testing.T, kind int) {
	if bad := vfC45CheckHints(); len(bad) > 0 {
		t.Fatalf("VERIF-HARNESS hint table does not match the descriptors: %v", bad)
	}
	vk.Check(t, vk.Unit[vfC45Plan]{ID: "C45", Name: vfC45KindNames[kind], Rule: vfC45Rule, Gen: vfC45GenPlan(kind), Run: vfC45Run})
	c := &vfC45Counts[kind]
	if n := c.total.Load(); n >= 300 {
		acc, deep := float64(c.accepted.Load())/float64(n), float64(c.deep.Load())/float64(n)
		if acc < 0.15 || deep < 0.30 {
			t.Fatalf("VERIF-HARNESS generator health: %s accepted share %.3f (floor 0.15), deep rejections %.3f (floor 0.30)", vfC45KindNames[kind], acc, deep)
		}
	}
}

func TestVerifC45Listener(t *testing.T)    { vfC45Test(t, vfC45LDS) }
func TestVerifC45RouteConfig(t *testing.T) { vfC45Test(t, vfC45RDS) }
func TestVerifC45Cluster(t *testing.T)     { vfC45Test(t, vfC45CDS) }
func TestVerifC45Endpoints(t *testing.T)   { vfC45Test(t, vfC45EDS) }

// ---- native fuzzing on raw bytes ----------------------------------------------

func vfC45FuzzSeeds(kind int) [][]byte {
	var seeds [][]byte
	for seed := 0; seed < 12; seed++ {
		ex := rapid.Custom(vfC45GenPlan(kind)).Example(seed)
		seeds = append(seeds, append([]byte{byte(seed)}, ex.Value...))
	}
	return seeds
}

func vfC45Fuzz(f *testing.F, kind int) {
	vk.Fuzz(f, vk.Unit[vfC45Plan]{ID: "C45", Name: vfC45KindNames[kind], Run: vfC45Run}, vfC45FuzzSeeds(kind), func(b []byte) (vfC45Plan, bool) {
		if len(b) < 1 || len(b) > 4096 {
			return vfC45Plan{}, false
		}
		return vfC45Plan{Kind: kind, TypeURL: "type.googleapis.com/" + vfC45Roots[kind], Value: b[1:], Env: uint32(b[0]), Wrap: false}, true
	})
}

func FuzzVerifC45Listener(f *testing.F)    { vfC45Fuzz(f, vfC45LDS) }
func FuzzVerifC45RouteConfig(f *testing.F) { vfC45Fuzz(f, vfC45RDS) }
func FuzzVerifC45Cluster(f *testing.F)     { vfC45Fuzz(f, vfC45CDS) }
func FuzzVerifC45Endpoints(f *testing.F)   { vfC45Fuzz(f, vfC45EDS) }
