package xdsresource

// C45 regression inputs: the minimal resources that made parsing panic before
// d13e73b (RBACPerRoute filter-config override without an rbac field), at every
// place an override can appear. They run through the same oracle as the
// generated resources, so a recurrence fails the check.

import (
	"testing"

	v3listenerpb "github.com/envoyproxy/go-control-plane/envoy/config/listener/v3"
	v3routepb "github.com/envoyproxy/go-control-plane/envoy/config/route/v3"
	v3rbacpb "github.com/envoyproxy/go-control-plane/envoy/extensions/filters/http/rbac/v3"
	v3routerpb "github.com/envoyproxy/go-control-plane/envoy/extensions/filters/http/router/v3"
	v3httppb "github.com/envoyproxy/go-control-plane/envoy/extensions/filters/network/http_connection_manager/v3"
	"google.golang.org/grpc/internal/verifkit/vk"
	_ "google.golang.org/grpc/internal/xds/httpfilter/rbac"
	_ "google.golang.org/grpc/internal/xds/httpfilter/router"
	"google.golang.org/protobuf/proto"
	"google.golang.org/protobuf/types/known/anypb"
	"google.golang.org/protobuf/types/known/wrapperspb"
)

func vfC45MustAny(m proto.Message) *anypb.Any {
	a, err := anypb.New(m)
	if err != nil {
		panic(err)
	}
	return a
}

func vfC45RegressPlans() []vfC45Plan {
	emptyOverride := map[string]*anypb.Any{"rbac": vfC45MustAny(&v3rbacpb.RBACPerRoute{})}
	wrapped := map[string]*anypb.Any{"rbac": vfC45MustAny(&v3routepb.FilterConfig{Config: vfC45MustAny(&v3rbacpb.RBACPerRoute{})})}
	route := func(over map[string]*anypb.Any, cw map[string]*anypb.Any) *v3routepb.Route {
		return &v3routepb.Route{
			Match: &v3routepb.RouteMatch{PathSpecifier: &v3routepb.RouteMatch_Prefix{Prefix: "/"}},
			Action: &v3routepb.Route_Route{Route: &v3routepb.RouteAction{ClusterSpecifier: &v3routepb.RouteAction_WeightedClusters{WeightedClusters: &v3routepb.WeightedCluster{
				Clusters: []*v3routepb.WeightedCluster_ClusterWeight{{Name: "c", Weight: wrapperspb.UInt32(1), TypedPerFilterConfig: cw}}}}}},
			TypedPerFilterConfig: over,
		}
	}
	rcs := []*v3routepb.RouteConfiguration{
		{Name: "r", VirtualHosts: []*v3routepb.VirtualHost{{Domains: []string{"*"}, TypedPerFilterConfig: emptyOverride}}},                   // the minimal one
		{Name: "r", VirtualHosts: []*v3routepb.VirtualHost{{Domains: []string{"*"}, Routes: []*v3routepb.Route{route(emptyOverride, nil)}}}}, // route level
		{Name: "r", VirtualHosts: []*v3routepb.VirtualHost{{Domains: []string{"*"}, Routes: []*v3routepb.Route{route(nil, emptyOverride)}}}}, // cluster-weight level
		{Name: "r", VirtualHosts: []*v3routepb.VirtualHost{{Domains: []string{"*"}, TypedPerFilterConfig: wrapped}}},                         // inside a FilterConfig wrapper
		{Name: "r", VirtualHosts: []*v3routepb.VirtualHost{{Domains: []string{"*"}, Routes: []*v3routepb.Route{route(nil, nil)}}}},           // control: accepted
	}
	var plans []vfC45Plan
	for _, rc := range rcs {
		b, _ := proto.MarshalOptions{Deterministic: true}.Marshal(rc)
		plans = append(plans, vfC45Plan{Kind: vfC45RDS, TypeURL: "type.googleapis.com/" + vfC45Roots[vfC45RDS], Value: b})
	}
	// the same override reached through a client Listener with an inline route configuration
	hcm := &v3httppb.HttpConnectionManager{
		RouteSpecifier: &v3httppb.HttpConnectionManager_RouteConfig{RouteConfig: rcs[0]},
		HttpFilters:    []*v3httppb.HttpFilter{{Name: "router", ConfigType: &v3httppb.HttpFilter_TypedConfig{TypedConfig: vfC45MustAny(&v3routerpb.Router{})}}},
	}
	lis := &v3listenerpb.Listener{Name: "l", ApiListener: &v3listenerpb.ApiListener{ApiListener: vfC45MustAny(hcm)}}
	b, _ := proto.MarshalOptions{Deterministic: true}.Marshal(lis)
	plans = append(plans, vfC45Plan{Kind: vfC45LDS, TypeURL: "type.googleapis.com/" + vfC45Roots[vfC45LDS], Value: b})
	return plans
}

func TestVerifC45Regress(t *testing.T) {
	vk.Enumerate(t, vk.Unit[vfC45Plan]{ID: "C45", Name: "regress", Run: vfC45Run,
		Rule: "hand-built minimal resources for defects found earlier (RBACPerRoute override without rbac at virtual-host, route, cluster-weight level, inside a FilterConfig wrapper, and through a Listener's inline route configuration) plus an accepted control; same oracle as the generated resources"},
		vfC45RegressPlans())
}
