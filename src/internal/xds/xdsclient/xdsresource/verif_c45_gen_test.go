package xdsresource

// C45 generator: schema-aware construction of xDS resources by reflection over
// the go-control-plane message descriptors.
//
// vfC45G.fill walks a message descriptor and sets fields with a probability and
// a value taken from (a) the hint table below for the fields the parsers read
// (biased towards values the validation accepts, but never exclusively), or
// (b) a generic per-kind generator for everything else (low probability, depth
// bounded). google.protobuf.Any fields are filled with a message of a type
// chosen by context (HttpConnectionManager under api_listener, TLS contexts
// under transport_socket, LB policies under typed_extension_config, ...),
// sometimes with a foreign type or garbage bytes.

import (
	"fmt"
	"math"
	"sort"
	"strings"

	"google.golang.org/protobuf/proto"
	"google.golang.org/protobuf/reflect/protoreflect"
	"google.golang.org/protobuf/reflect/protoregistry"
	"pgregory.net/rapid"
)

const (
	vfC45MaxDepth   = 12  // hinted skeleton paths (Listener -> HCM -> RouteConfiguration -> ... -> StringMatcher)
	vfC45FreeDepth  = 6   // un-hinted fields are not set below this depth (DESIGN: depth <= 6)
	vfC45FieldBudet = 600 // total number of fields set per resource
)

type vfC45G struct {
	rt      *rapid.T
	budget  int
	addrSeq int
	kind    int // root resource kind (vfC45LDS ...)
	// wild is the per-resource chaos level: 0 = fields the parsers require are
	// (almost) always set and get values from the "good" pools, forbidden
	// fields stay unset; 1 = the hint probabilities as written; 2 = additionally
	// foreign/garbage Any payloads and bad pool values are frequent.
	wild int
	// server > 0 while a listener FilterChain (server side) is being filled
	server int
}

type vfC45Hint struct {
	P   int    // percent chance that the field is set / the list is non-empty
	Max int    // lists and maps: maximal length (default 3)
	Str string // name of the string pool for string fields
	Gen func(g *vfC45G, m protoreflect.Message, fd protoreflect.FieldDescriptor, depth int) bool
}

// oneof weights: percent chance for each member (rest = none set)
type vfC45Oneof map[string]int

// string pools: [0] values the parsers accept, [1] values they (may) reject
var vfC45Pools = map[string][2][]string{
	"name":      {{"a", "b", "c", "cluster-1", "cluster-2", "route-1", "lis-1", "router", "f1", "f2"}, {"", "xdstp://auth/envoy.config.cluster.v3.Cluster/c1", "xdstp:"}},
	"regex":     {{"a.*", ".*", "/svc/[^/]+", "", "(?i)x", "a{1,2}"}, {"(", "a)|(b", "[", "\\"}},
	"ip":        {{"10.0.0.1", "10.0.0.2", "10.1.2.3", "::1", "2001:db8::1", "0.0.0.0", "::", "127.0.0.1", "192.168.0.0"}, {"not-an-ip", "", "256.1.1.1", "::ffff:10.0.0.1", "dns.example.com"}},
	"domain":    {{"*", "a.b", "*.b", "a.*", "svc:80"}, {"", "a*b"}},
	"path":      {{"/", "/svc/", "/svc/M", "", "svc"}, {"/\u212a"}},
	"header":    {{"x-a", "x-b", "content-type", ":path"}, {"x-c-bin", ""}},
	"retry_on":  {{"cancelled", "unavailable,internal", "deadline-exceeded, resource-exhausted", "CANCELLED"}, {"5xx", ""}},
	"tsname":    {{"envoy.transport_sockets.tls"}, {"tls", ""}},
	"instance":  {{"default", "rootca", "identity"}, {""}},
	"tproto":    {{"raw_buffer", ""}, {"tls"}},
	"fskey":     {{"io.grpc.channel_id"}, {"other", ""}},
	"ctype":     {{"envoy.clusters.aggregate"}, {"other", ""}},
	"metric":    {{"cpu_utilization", "mem_utilization", "application_utilization", "named_metrics.*", "named_metrics.foo"}, {"named_metrics.", "x"}},
	"category":  {{"lb", "throttle"}, {""}},
	"region":    {{"r1", "r2", ""}, {"r3"}},
	"generic":   {{"a", "b", "x-y", "0", "K"}, {"", "*"}},
	"mdkey":     {{"envoy.lb", "com.google.csm.telemetry_labels", "k"}, {"envoy.http11_proxy_transport_socket.proxy_address"}},
	"structkey": {{"hash_key", "service_name", "service_namespace", "k"}, {""}},
}

// Any contexts: parent message + field -> candidate message types.
const (
	vfC45HCM       = "envoy.extensions.filters.network.http_connection_manager.v3.HttpConnectionManager"
	vfC45Router    = "envoy.extensions.filters.http.router.v3.Router"
	vfC45Fault     = "envoy.extensions.filters.http.fault.v3.HTTPFault"
	vfC45RBAC      = "envoy.extensions.filters.http.rbac.v3.RBAC"
	vfC45RBACRoute = "envoy.extensions.filters.http.rbac.v3.RBACPerRoute"
	vfC45TSXds     = "xds.type.v3.TypedStruct"
	vfC45TSUdpa    = "udpa.type.v1.TypedStruct"
	vfC45UpTLS     = "envoy.extensions.transport_sockets.tls.v3.UpstreamTlsContext"
	vfC45DownTLS   = "envoy.extensions.transport_sockets.tls.v3.DownstreamTlsContext"
	vfC45H11Proxy  = "envoy.extensions.transport_sockets.http_11_proxy.v3.Http11ProxyUpstreamTransport"
	vfC45Aggregate = "envoy.extensions.clusters.aggregate.v3.ClusterConfig"
	vfC45FilterCfg = "envoy.config.route.v3.FilterConfig"
	vfC45Address   = "envoy.config.core.v3.Address"
)

var vfC45LBTypes = []string{
	"envoy.extensions.load_balancing_policies.round_robin.v3.RoundRobin",
	"envoy.extensions.load_balancing_policies.ring_hash.v3.RingHash",
	"envoy.extensions.load_balancing_policies.wrr_locality.v3.WrrLocality",
	"envoy.extensions.load_balancing_policies.pick_first.v3.PickFirst",
	"envoy.extensions.load_balancing_policies.least_request.v3.LeastRequest",
	"envoy.extensions.load_balancing_policies.client_side_weighted_round_robin.v3.ClientSideWeightedRoundRobin",
	vfC45TSXds,
}

var vfC45AnyCtx = map[string][]string{
	"envoy.config.listener.v3.ApiListener.api_listener":                                   {vfC45HCM},
	"envoy.config.listener.v3.Filter.typed_config":                                        {vfC45HCM},
	"envoy.extensions.filters.network.http_connection_manager.v3.HttpFilter.typed_config": {vfC45Router, vfC45Router, vfC45Fault, vfC45RBAC, vfC45TSXds, vfC45TSUdpa},
	"envoy.config.core.v3.TransportSocket.typed_config":                                   {vfC45UpTLS, vfC45DownTLS, vfC45H11Proxy},
	"envoy.config.cluster.v3.Cluster.CustomClusterType.typed_config":                      {vfC45Aggregate},
	"envoy.config.core.v3.TypedExtensionConfig.typed_config":                              vfC45LBTypes,
	"envoy.config.route.v3.VirtualHost.typed_per_filter_config":                           {vfC45FilterCfg, vfC45Fault, vfC45RBACRoute, vfC45Router},
	"envoy.config.route.v3.Route.typed_per_filter_config":                                 {vfC45FilterCfg, vfC45Fault, vfC45RBACRoute, vfC45Router},
	"envoy.config.route.v3.WeightedCluster.ClusterWeight.typed_per_filter_config":         {vfC45FilterCfg, vfC45Fault, vfC45RBACRoute},
	"envoy.config.route.v3.FilterConfig.config":                                           {vfC45Fault, vfC45RBACRoute, vfC45Router},
	"envoy.config.core.v3.Metadata.typed_filter_metadata":                                 {vfC45Address, vfC45TSXds},
	"xds.type.v3.TypedStruct.value":                                                       nil,
}

var vfC45AllAny = []string{vfC45HCM, vfC45Router, vfC45Fault, vfC45RBAC, vfC45RBACRoute, vfC45TSXds, vfC45UpTLS, vfC45DownTLS, vfC45H11Proxy, vfC45Aggregate, vfC45FilterCfg, vfC45Address,
	"envoy.config.cluster.v3.Cluster", "envoy.config.listener.v3.Listener", "envoy.config.route.v3.RouteConfiguration", "envoy.config.endpoint.v3.ClusterLoadAssignment"}

// Hints for the fields the parsers read. Key: message full name + "." + field.
var vfC45Hints map[string]vfC45Hint

func init() {
	vfC45Hints = map[string]vfC45Hint{
		// ---- Listener
		"envoy.config.listener.v3.Listener.name":                          {P: 96, Str: "name"},
		"envoy.config.listener.v3.Listener.api_listener":                  {P: 50},
		"envoy.config.listener.v3.Listener.address":                       {P: 90},
		"envoy.config.listener.v3.Listener.filter_chains":                 {P: 85, Max: 3},
		"envoy.config.listener.v3.Listener.default_filter_chain":          {P: 40},
		"envoy.config.listener.v3.Listener.listener_filters":              {P: 2, Max: 1},
		"envoy.config.listener.v3.Listener.use_original_dst":              {P: 3},
		"envoy.config.listener.v3.ApiListener.api_listener":               {P: 96},
		"envoy.config.listener.v3.FilterChain.filter_chain_match":         {P: 70},
		"envoy.config.listener.v3.FilterChain.filters":                    {P: 94, Max: 2},
		"envoy.config.listener.v3.FilterChain.transport_socket":           {P: 15},
		"envoy.config.listener.v3.FilterChain.name":                       {P: 50, Str: "name"},
		"envoy.config.listener.v3.Filter.name":                            {P: 96, Gen: vfC45GenUniqueName},
		"envoy.config.listener.v3.FilterChainMatch.prefix_ranges":         {P: 40, Max: 2},
		"envoy.config.listener.v3.FilterChainMatch.source_type":           {P: 40},
		"envoy.config.listener.v3.FilterChainMatch.source_prefix_ranges":  {P: 30, Max: 2},
		"envoy.config.listener.v3.FilterChainMatch.source_ports":          {P: 30, Max: 2},
		"envoy.config.listener.v3.FilterChainMatch.destination_port":      {P: 4},
		"envoy.config.listener.v3.FilterChainMatch.server_names":          {P: 4, Max: 1},
		"envoy.config.listener.v3.FilterChainMatch.transport_protocol":    {P: 12, Str: "tproto"},
		"envoy.config.listener.v3.FilterChainMatch.application_protocols": {P: 4, Max: 1},
		"envoy.config.core.v3.CidrRange.address_prefix":                   {P: 96, Str: "ip"},
		"envoy.config.core.v3.CidrRange.prefix_len":                       {P: 85, Gen: vfC45GenPrefixLen},
		"envoy.config.core.v3.SocketAddress.address":                      {P: 96, Gen: vfC45GenSockAddr},
		"envoy.config.core.v3.SocketAddress.port_value":                   {P: 90},
		"envoy.config.core.v3.SocketAddress.resolver_name":                {P: 4, Str: "generic"},
		"envoy.config.core.v3.TransportSocket.name":                       {P: 96, Str: "tsname"},
		"envoy.config.core.v3.TransportSocket.typed_config":               {P: 94},
		// ---- HttpConnectionManager
		vfC45HCM + ".http_filters":                                                           {P: 95, Gen: vfC45GenHTTPFilters},
		vfC45HCM + ".xff_num_trusted_hops":                                                   {P: 2},
		vfC45HCM + ".original_ip_detection_extensions":                                       {P: 2, Max: 1},
		vfC45HCM + ".common_http_protocol_options":                                           {P: 30},
		"envoy.config.core.v3.HttpProtocolOptions.max_stream_duration":                       {P: 80},
		"envoy.extensions.filters.network.http_connection_manager.v3.Rds.config_source":      {P: 94},
		"envoy.extensions.filters.network.http_connection_manager.v3.Rds.route_config_name":  {P: 94, Str: "name"},
		"envoy.extensions.filters.network.http_connection_manager.v3.HttpFilter.name":        {P: 96, Gen: vfC45GenUniqueName},
		"envoy.extensions.filters.network.http_connection_manager.v3.HttpFilter.is_optional": {P: 20},
		"envoy.extensions.filters.network.http_connection_manager.v3.HttpFilter.disabled":    {P: 10},
		"xds.type.v3.TypedStruct.type_url":                                                   {P: 90, Gen: vfC45GenTypeURL},
		"udpa.type.v1.TypedStruct.type_url":                                                  {P: 90, Gen: vfC45GenTypeURL},
		// ---- TLS contexts
		vfC45UpTLS + ".common_tls_context":                                                                                                                 {P: 92},
		vfC45UpTLS + ".sni":                                                                                                                                {P: 30, Str: "name"},
		vfC45DownTLS + ".common_tls_context":                                                                                                               {P: 92},
		vfC45DownTLS + ".require_client_certificate":                                                                                                       {P: 30},
		vfC45DownTLS + ".require_sni":                                                                                                                      {P: 4},
		vfC45DownTLS + ".ocsp_staple_policy":                                                                                                               {P: 4},
		vfC45H11Proxy + ".transport_socket":                                                                                                                {P: 60},
		"envoy.extensions.transport_sockets.tls.v3.CommonTlsContext.tls_params":                                                                            {P: 2},
		"envoy.extensions.transport_sockets.tls.v3.CommonTlsContext.custom_handshaker":                                                                     {P: 2},
		"envoy.extensions.transport_sockets.tls.v3.CommonTlsContext.tls_certificate_provider_instance":                                                     {P: 50},
		"envoy.extensions.transport_sockets.tls.v3.CommonTlsContext.tls_certificate_certificate_provider_instance":                                         {P: 25},
		"envoy.extensions.transport_sockets.tls.v3.CertificateProviderPluginInstance.instance_name":                                                        {P: 92, Str: "instance"},
		"envoy.extensions.transport_sockets.tls.v3.CommonTlsContext.CertificateProviderInstance.instance_name":                                             {P: 92, Str: "instance"},
		"envoy.extensions.transport_sockets.tls.v3.CertificateValidationContext.ca_certificate_provider_instance":                                          {P: 70},
		"envoy.extensions.transport_sockets.tls.v3.CertificateValidationContext.match_subject_alt_names":                                                   {P: 30, Max: 2},
		"envoy.extensions.transport_sockets.tls.v3.CertificateValidationContext.system_root_certs":                                                         {P: 10},
		"envoy.extensions.transport_sockets.tls.v3.CommonTlsContext.CombinedCertificateValidationContext.default_validation_context":                       {P: 80},
		"envoy.extensions.transport_sockets.tls.v3.CommonTlsContext.CombinedCertificateValidationContext.validation_context_certificate_provider_instance": {P: 50},
		// ---- RouteConfiguration
		"envoy.config.route.v3.RouteConfiguration.name":                               {P: 96, Str: "name"},
		"envoy.config.route.v3.RouteConfiguration.virtual_hosts":                      {P: 92, Max: 3},
		"envoy.config.route.v3.RouteConfiguration.cluster_specifier_plugins":          {P: 8, Max: 2},
		"envoy.config.route.v3.ClusterSpecifierPlugin.extension":                      {P: 90},
		"envoy.config.route.v3.ClusterSpecifierPlugin.is_optional":                    {P: 50},
		"envoy.config.core.v3.TypedExtensionConfig.name":                              {P: 90, Str: "name"},
		"envoy.config.core.v3.TypedExtensionConfig.typed_config":                      {P: 94},
		"envoy.config.route.v3.VirtualHost.domains":                                   {P: 92, Max: 3, Str: "domain"},
		"envoy.config.route.v3.VirtualHost.routes":                                    {P: 92, Max: 4},
		"envoy.config.route.v3.VirtualHost.retry_policy":                              {P: 20},
		"envoy.config.route.v3.VirtualHost.typed_per_filter_config":                   {P: 10, Max: 2},
		"envoy.config.route.v3.Route.match":                                           {P: 97},
		"envoy.config.route.v3.Route.typed_per_filter_config":                         {P: 10, Max: 2},
		"envoy.config.route.v3.RouteMatch.prefix":                                     {Str: "path"},
		"envoy.config.route.v3.RouteMatch.path":                                       {Str: "path"},
		"envoy.config.route.v3.RouteMatch.case_sensitive":                             {P: 30},
		"envoy.config.route.v3.RouteMatch.headers":                                    {P: 40, Max: 3},
		"envoy.config.route.v3.RouteMatch.runtime_fraction":                           {P: 30},
		"envoy.config.route.v3.RouteMatch.query_parameters":                           {P: 4, Max: 1},
		"envoy.type.matcher.v3.RegexMatcher.regex":                                    {P: 96, Str: "regex"},
		"envoy.config.route.v3.HeaderMatcher.name":                                    {P: 96, Str: "header"},
		"envoy.config.route.v3.HeaderMatcher.invert_match":                            {P: 30},
		"envoy.type.matcher.v3.StringMatcher.ignore_case":                             {P: 30},
		"envoy.config.core.v3.RuntimeFractionalPercent.default_value":                 {P: 92},
		"envoy.type.v3.FractionalPercent.numerator":                                   {P: 90},
		"envoy.type.v3.FractionalPercent.denominator":                                 {P: 60},
		"envoy.config.route.v3.RouteAction.hash_policy":                               {P: 30, Max: 3},
		"envoy.config.route.v3.RouteAction.max_stream_duration":                       {P: 30},
		"envoy.config.route.v3.RouteAction.retry_policy":                              {P: 25},
		"envoy.config.route.v3.RouteAction.auto_host_rewrite":                         {P: 10},
		"envoy.config.route.v3.RouteAction.cluster":                                   {Str: "name"},
		"envoy.config.route.v3.RouteAction.cluster_specifier_plugin":                  {Str: "name"},
		"envoy.config.route.v3.RouteAction.MaxStreamDuration.max_stream_duration":     {P: 60},
		"envoy.config.route.v3.RouteAction.MaxStreamDuration.grpc_timeout_header_max": {P: 40},
		"envoy.config.route.v3.WeightedCluster.clusters":                              {P: 94, Max: 4},
		"envoy.config.route.v3.WeightedCluster.ClusterWeight.name":                    {P: 96, Str: "name"},
		"envoy.config.route.v3.WeightedCluster.ClusterWeight.weight":                  {P: 92, Gen: vfC45GenWeight},
		"envoy.config.route.v3.WeightedCluster.ClusterWeight.typed_per_filter_config": {P: 8, Max: 1},
		"envoy.config.route.v3.RouteAction.HashPolicy.terminal":                       {P: 30},
		"envoy.config.route.v3.RouteAction.HashPolicy.Header.header_name":             {P: 94, Str: "header"},
		"envoy.config.route.v3.RouteAction.HashPolicy.Header.regex_rewrite":           {P: 30},
		"envoy.type.matcher.v3.RegexMatchAndSubstitute.pattern":                       {P: 92},
		"envoy.type.matcher.v3.RegexMatchAndSubstitute.substitution":                  {P: 60, Str: "generic"},
		"envoy.config.route.v3.RouteAction.HashPolicy.FilterState.key":                {P: 94, Str: "fskey"},
		"envoy.config.route.v3.RetryPolicy.retry_on":                                  {P: 85, Str: "retry_on"},
		"envoy.config.route.v3.RetryPolicy.num_retries":                               {P: 50},
		"envoy.config.route.v3.RetryPolicy.retry_back_off":                            {P: 50},
		"envoy.config.route.v3.RetryPolicy.RetryBackOff.base_interval":                {P: 85},
		"envoy.config.route.v3.RetryPolicy.RetryBackOff.max_interval":                 {P: 50},
		"envoy.config.route.v3.FilterConfig.config":                                   {P: 92},
		"envoy.config.route.v3.FilterConfig.is_optional":                              {P: 30},
		"envoy.config.route.v3.FilterConfig.disabled":                                 {P: 15},
		// ---- Cluster
		"envoy.config.cluster.v3.Cluster.name":                                      {P: 96, Str: "name"},
		"envoy.config.cluster.v3.Cluster.type":                                      {Gen: vfC45GenClusterType},
		vfC45RBACRoute + ".rbac":                                                    {P: 80},
		vfC45RBAC + ".rules":                                                        {P: 25},
		"envoy.config.cluster.v3.Cluster.eds_cluster_config":                        {P: 85},
		"envoy.config.cluster.v3.Cluster.EdsClusterConfig.eds_config":               {P: 94},
		"envoy.config.cluster.v3.Cluster.EdsClusterConfig.service_name":             {P: 50, Str: "name"},
		"envoy.config.cluster.v3.Cluster.lb_policy":                                 {P: 55, Gen: vfC45GenLBPolicy},
		"envoy.config.cluster.v3.Cluster.ring_hash_lb_config":                       {P: 30},
		"envoy.config.cluster.v3.Cluster.RingHashLbConfig.hash_function":            {P: 15},
		"envoy.config.cluster.v3.Cluster.RingHashLbConfig.minimum_ring_size":        {P: 50},
		"envoy.config.cluster.v3.Cluster.RingHashLbConfig.maximum_ring_size":        {P: 50},
		"envoy.config.cluster.v3.Cluster.least_request_lb_config":                   {P: 30},
		"envoy.config.cluster.v3.Cluster.LeastRequestLbConfig.choice_count":         {P: 60},
		"envoy.config.cluster.v3.Cluster.load_balancing_policy":                     {P: 8},
		"envoy.config.cluster.v3.LoadBalancingPolicy.policies":                      {P: 94, Max: 2},
		"envoy.config.cluster.v3.LoadBalancingPolicy.Policy.typed_extension_config": {P: 94},
		"envoy.config.cluster.v3.Cluster.transport_socket":                          {P: 15},
		"envoy.config.cluster.v3.Cluster.transport_socket_matches":                  {P: 2, Max: 1},
		"envoy.config.cluster.v3.Cluster.outlier_detection":                         {P: 20},
		"envoy.config.cluster.v3.Cluster.circuit_breakers":                          {P: 30},
		"envoy.config.cluster.v3.CircuitBreakers.thresholds":                        {P: 85, Max: 2},
		"envoy.config.cluster.v3.CircuitBreakers.Thresholds.priority":               {P: 40},
		"envoy.config.cluster.v3.CircuitBreakers.Thresholds.max_requests":           {P: 80},
		"envoy.config.cluster.v3.Cluster.lrs_server":                                {P: 30, Gen: vfC45GenLRSServer},
		"envoy.config.cluster.v3.Cluster.load_assignment":                           {P: 45, Gen: vfC45GenLoadAssignment},
		"envoy.config.cluster.v3.Cluster.metadata":                                  {P: 20},
		"envoy.config.cluster.v3.Cluster.lrs_report_endpoint_metrics":               {P: 20, Max: 3, Str: "metric"},
		"envoy.config.cluster.v3.Cluster.CustomClusterType.name":                    {P: 94, Str: "ctype"},
		"envoy.config.cluster.v3.Cluster.CustomClusterType.typed_config":            {P: 94},
		vfC45Aggregate + ".clusters":                                                {P: 90, Max: 3, Str: "name"},
		"envoy.config.core.v3.Metadata.filter_metadata":                             {P: 70, Max: 2, Str: "mdkey"},
		"envoy.config.core.v3.Metadata.typed_filter_metadata":                       {P: 40, Max: 2, Str: "mdkey"},
		"google.protobuf.Struct.fields":                                             {P: 80, Max: 2, Str: "structkey"},
		// ---- ClusterLoadAssignment
		"envoy.config.endpoint.v3.ClusterLoadAssignment.cluster_name":                        {P: 96, Str: "name"},
		"envoy.config.endpoint.v3.ClusterLoadAssignment.endpoints":                           {P: 92, Max: 4},
		"envoy.config.endpoint.v3.ClusterLoadAssignment.policy":                              {P: 30},
		"envoy.config.endpoint.v3.ClusterLoadAssignment.Policy.drop_overloads":               {P: 80, Max: 3},
		"envoy.config.endpoint.v3.ClusterLoadAssignment.Policy.DropOverload.category":        {P: 90, Str: "category"},
		"envoy.config.endpoint.v3.ClusterLoadAssignment.Policy.DropOverload.drop_percentage": {P: 90},
		"envoy.config.endpoint.v3.LocalityLbEndpoints.locality":                              {P: 94},
		"envoy.config.endpoint.v3.LocalityLbEndpoints.lb_endpoints":                          {P: 88, Max: 3},
		"envoy.config.endpoint.v3.LocalityLbEndpoints.load_balancing_weight":                 {P: 92, Gen: vfC45GenWeight},
		"envoy.config.endpoint.v3.LocalityLbEndpoints.priority":                              {P: 55, Gen: vfC45GenPriority},
		"envoy.config.endpoint.v3.LocalityLbEndpoints.metadata":                              {P: 10},
		"envoy.config.core.v3.Locality.region":                                               {P: 70, Str: "region"},
		"envoy.config.core.v3.Locality.zone":                                                 {P: 50, Str: "region"},
		"envoy.config.core.v3.Locality.sub_zone":                                             {P: 30, Str: "region"},
		"envoy.config.endpoint.v3.LbEndpoint.load_balancing_weight":                          {P: 50, Gen: vfC45GenWeight},
		"envoy.config.endpoint.v3.LbEndpoint.health_status":                                  {P: 40},
		"envoy.config.endpoint.v3.LbEndpoint.metadata":                                       {P: 12},
		"envoy.config.endpoint.v3.Endpoint.address":                                          {P: 96},
		"envoy.config.endpoint.v3.Endpoint.hostname":                                         {P: 20, Str: "name"},
		"envoy.config.endpoint.v3.Endpoint.additional_addresses":                             {P: 15, Max: 2},
		"envoy.config.endpoint.v3.Endpoint.AdditionalAddress.address":                        {P: 94},
	}
}

// Oneof biases (percent per member; members not listed share 6 %; the rest of
// the probability mass leaves the oneof unset).
var vfC45Oneofs = map[string]vfC45Oneof{
	vfC45HCM + ".route_specifier":                                                        {"rds": 65, "route_config": 28},
	"envoy.config.core.v3.ConfigSource.config_source_specifier":                          {"ads": 60, "self": 25},
	"envoy.extensions.filters.network.http_connection_manager.v3.HttpFilter.config_type": {"typed_config": 92},
	"envoy.config.listener.v3.Filter.config_type":                                        {"typed_config": 94},
	"envoy.config.core.v3.Address.address":                                               {"socket_address": 92},
	"envoy.config.core.v3.SocketAddress.port_specifier":                                  {"port_value": 90},
	"envoy.config.route.v3.Route.action":                                                 {"route": 74, "non_forwarding_action": 10, "redirect": 4, "direct_response": 3},
	"envoy.config.route.v3.RouteMatch.path_specifier":                                    {"prefix": 42, "path": 25, "safe_regex": 20, "connect_matcher": 2},
	"envoy.config.route.v3.RouteAction.cluster_specifier":                                {"cluster": 48, "weighted_clusters": 38, "cluster_header": 2, "cluster_specifier_plugin": 2},
	"envoy.config.route.v3.RouteAction.HashPolicy.policy_specifier":                      {"header": 50, "filter_state": 32},
	"envoy.config.route.v3.HeaderMatcher.header_match_specifier":                         {"exact_match": 10, "safe_regex_match": 14, "range_match": 12, "present_match": 12, "prefix_match": 8, "suffix_match": 8, "contains_match": 8, "string_match": 22},
	"envoy.type.matcher.v3.StringMatcher.match_pattern":                                  {"exact": 25, "prefix": 20, "suffix": 15, "safe_regex": 15, "contains": 15},
	"envoy.config.cluster.v3.Cluster.cluster_discovery_type":                             {"type": 78, "cluster_type": 16},
	"envoy.config.cluster.v3.Cluster.lb_config":                                          {"ring_hash_lb_config": 30, "least_request_lb_config": 30},
	"envoy.config.endpoint.v3.LbEndpoint.host_identifier":                                {"endpoint": 94},
	"envoy.extensions.transport_sockets.tls.v3.CommonTlsContext.validation_context_type": {"validation_context": 35, "combined_validation_context": 30, "validation_context_certificate_provider_instance": 15},
}

// roll returns a number in [0,100) that is (close to) uniformly distributed:
// rapid's integer generators are deliberately biased towards small values,
// which would inflate every "set this field with p %" decision, so the drawn
// value is spread by a multiplicative hash (still a pure function of the draw).
func (g *vfC45G) roll(label string) int {
	x := rapid.Uint64().Draw(g.rt, label)
	return int(((x + 0x1234567) * 0x9E3779B97F4A7C15 >> 33) % 100)
}

func (g *vfC45G) pct(p int, label string) bool {
	if g.wild == 0 {
		switch {
		case p >= 85:
			p = 99
		case p <= 5:
			p = 0
		}
	}
	if p <= 0 {
		return false
	}
	if p >= 100 {
		return true
	}
	return g.roll(label) < p
}

func (g *vfC45G) str(pool string, label string) string {
	ps, ok := vfC45Pools[pool]
	if !ok {
		ps = vfC45Pools["generic"]
	}
	bad := 0
	switch g.wild {
	case 1:
		bad = 8
	case 2:
		bad = 30
	}
	if bad > 0 && g.roll(label+"_bad") < bad {
		return rapid.SampledFrom(ps[1]).Draw(g.rt, label)
	}
	return rapid.SampledFrom(ps[0]).Draw(g.rt, label)
}

func vfC45GenUniqueName(g *vfC45G, m protoreflect.Message, fd protoreflect.FieldDescriptor, _ int) bool {
	g.addrSeq++
	s := fmt.Sprintf("f%d", g.addrSeq)
	if g.pct(12, "dup_name") {
		s = g.str("name", "name")
	}
	m.Set(fd, protoreflect.ValueOfString(s))
	return true
}

func vfC45GenSockAddr(g *vfC45G, m protoreflect.Message, fd protoreflect.FieldDescriptor, _ int) bool {
	// mostly unique addresses (the EDS parser rejects duplicates), sometimes
	// from the pool (duplicates, invalid, empty)
	g.addrSeq++
	s := fmt.Sprintf("10.0.%d.%d", g.addrSeq/250, g.addrSeq%250+1)
	if g.pct(12, "pool_addr") {
		s = g.str("ip", "ip")
	}
	m.Set(fd, protoreflect.ValueOfString(s))
	return true
}

func vfC45GenTypeURL(g *vfC45G, m protoreflect.Message, fd protoreflect.FieldDescriptor, _ int) bool {
	s := "type.googleapis.com/" + rapid.SampledFrom([]string{vfC45Router, vfC45Fault, vfC45RBAC, "unknown.Type", vfC45LBTypes[0], vfC45LBTypes[3]}).Draw(g.rt, "ts_type")
	m.Set(fd, protoreflect.ValueOfString(s))
	return true
}

func vfC45SetU32Wrapper(m protoreflect.Message, fd protoreflect.FieldDescriptor, v uint32) {
	w := m.Mutable(fd).Message()
	w.Set(w.Descriptor().Fields().ByName("value"), protoreflect.ValueOfUint32(v))
}

func vfC45GenPrefixLen(g *vfC45G, m protoreflect.Message, fd protoreflect.FieldDescriptor, _ int) bool {
	v := uint32(rapid.SampledFrom([]int{0, 8, 16, 24, 32, 33, 64, 128, 129}).Draw(g.rt, "prefix_len"))
	if g.wild == 0 {
		addr := m.Get(m.Descriptor().Fields().ByName("address_prefix")).String()
		if !strings.Contains(addr, ":") && v > 32 {
			v = 32
		}
		if v > 128 {
			v = 128
		}
	}
	vfC45SetU32Wrapper(m, fd, v)
	return true
}

// weights: UInt32Value, 0 rarely, small mostly, near 2^32 sometimes.
func vfC45GenWeight(g *vfC45G, m protoreflect.Message, fd protoreflect.FieldDescriptor, _ int) bool {
	var v uint32
	k := g.roll("weight_kind") / 5
	if g.wild == 0 && k <= 2 && g.roll("weight_tame") >= 25 {
		k = 10
	}
	switch {
	case k == 0:
		v = 0
	case k <= 2:
		v = rapid.SampledFrom([]uint32{math.MaxUint32, math.MaxUint32 - 1, 1 << 31, 1<<31 - 1, 1<<32 - 100}).Draw(g.rt, "weight_big")
	default:
		v = rapid.Uint32Range(1, 100).Draw(g.rt, "weight")
	}
	vfC45SetU32Wrapper(m, fd, v)
	return true
}

func vfC45GenPriority(g *vfC45G, m protoreflect.Message, fd protoreflect.FieldDescriptor, _ int) bool {
	v := rapid.SampledFrom([]uint32{0, 0, 1, 1, 2, 3, 7}).Draw(g.rt, "priority")
	m.Set(fd, protoreflect.ValueOfUint32(v))
	return true
}

func vfC45GenLBPolicy(g *vfC45G, m protoreflect.Message, fd protoreflect.FieldDescriptor, _ int) bool {
	// ROUND_ROBIN 0, LEAST_REQUEST 1, RING_HASH 2, RANDOM 3, MAGLEV 5, CLUSTER_PROVIDED 6, LOAD_BALANCING_POLICY_CONFIG 7
	v := rapid.SampledFrom([]int32{0, 1, 1, 2, 2, 2, 3, 5, 6, 7, 99}).Draw(g.rt, "lb_policy")
	if g.wild == 0 && v > 2 {
		v = 0
	}
	m.Set(fd, protoreflect.ValueOfEnum(protoreflect.EnumNumber(v)))
	return true
}

// Cluster.type: EDS 60 %, LOGICAL_DNS 25 %, anything 15 %.
func vfC45GenClusterType(g *vfC45G, m protoreflect.Message, fd protoreflect.FieldDescriptor, _ int) bool {
	v := rapid.SampledFrom([]int32{3, 3, 3, 3, 3, 3, 2, 2, 2, 0, 1, 4}).Draw(g.rt, "cluster_type") // EDS=3 LOGICAL_DNS=2
	m.Set(fd, protoreflect.ValueOfEnum(protoreflect.EnumNumber(v)))
	return true
}

// Cluster.lrs_server: ConfigSource{self} mostly (anything else is rejected).
func vfC45GenLRSServer(g *vfC45G, m protoreflect.Message, fd protoreflect.FieldDescriptor, depth int) bool {
	cs := m.Mutable(fd).Message()
	if g.pct(85, "lrs_self") {
		cs.Mutable(cs.Descriptor().Fields().ByName("self"))
		return true
	}
	g.fill(cs, depth+1)
	return true
}

// Cluster.load_assignment: for LOGICAL_DNS clusters mostly the required shape
// (one locality, one endpoint with host and port), otherwise generic.
func vfC45GenLoadAssignment(g *vfC45G, m protoreflect.Message, fd protoreflect.FieldDescriptor, depth int) bool {
	la := m.Mutable(fd).Message()
	isDNS := m.Get(m.Descriptor().Fields().ByName("type")).Enum() == 2 && m.Has(m.Descriptor().Fields().ByName("type"))
	if !isDNS || !g.pct(80, "dns_shape") {
		g.fill(la, depth+1)
		return true
	}
	loc := la.Mutable(la.Descriptor().Fields().ByName("endpoints")).List()
	le := loc.NewElement()
	eps := le.Message().Mutable(le.Message().Descriptor().Fields().ByName("lb_endpoints")).List()
	ep := eps.NewElement()
	endpoint := ep.Message().Mutable(ep.Message().Descriptor().Fields().ByName("endpoint")).Message()
	addr := endpoint.Mutable(endpoint.Descriptor().Fields().ByName("address")).Message()
	sa := addr.Mutable(addr.Descriptor().Fields().ByName("socket_address")).Message()
	sa.Set(sa.Descriptor().Fields().ByName("address"), protoreflect.ValueOfString(rapid.SampledFrom([]string{"dns.example.com", "localhost", "10.0.0.1", ""}).Draw(g.rt, "dns_host")))
	sa.Set(sa.Descriptor().Fields().ByName("port_value"), protoreflect.ValueOfUint32(rapid.SampledFrom([]uint32{443, 80, 8080, 0, 65535}).Draw(g.rt, "dns_port")))
	eps.Append(ep)
	loc.Append(le)
	return true
}

// vfC45GenHTTPFilters: k filters; with 85 % the last one is a router (terminal)
// and the others are not.
func vfC45GenHTTPFilters(g *vfC45G, m protoreflect.Message, fd protoreflect.FieldDescriptor, depth int) bool {
	n := rapid.IntRange(1, 3).Draw(g.rt, "n_http_filters")
	good := g.pct(85, "good_filter_order")
	if good && g.server == 0 {
		// the only non-terminal client-side filter is fault injection; when its
		// proto is not linked into this binary a well-formed client chain is
		// just the router
		if _, err := protoregistry.GlobalTypes.FindMessageByName(vfC45Fault); err != nil {
			n = 1
		}
	}
	list := m.Mutable(fd).List()
	shape := 0
	if good && g.wild > 0 {
		switch r := g.roll("filter_shape"); {
		case r < 12:
			shape = 1 // last filter is not terminal
		case r < 24:
			shape = 2 // terminal filter first, others after it
		}
	}
	for i := 0; i < n; i++ {
		el := list.NewElement()
		fm := el.Message()
		if good {
			fds := fm.Descriptor().Fields()
			g.addrSeq++
			fm.Set(fds.ByName("name"), protoreflect.ValueOfString(fmt.Sprintf("hf%d", g.addrSeq)))
			typ := vfC45Router
			// shape perturbations of an otherwise valid list: no terminal filter
			// at the end, or the terminal filter first
			if shape == 1 || (shape == 2 && i != 0 && n > 1) || (shape == 0 && i < n-1) {
				// fault injection is a client-side filter, RBAC a server-side one
				typ = vfC45Fault
				if g.server > 0 {
					typ = vfC45RBAC
				}
				if g.pct(8, "wrong_side_filter") {
					typ = rapid.SampledFrom([]string{vfC45Fault, vfC45RBAC}).Draw(g.rt, "mid_filter")
				}
			}
			if a, ok := g.anyOf(typ, depth+2); ok {
				fm.Set(fds.ByName("typed_config"), a)
			}
			if g.pct(10, "opt") {
				fm.Set(fds.ByName("is_optional"), protoreflect.ValueOfBool(true))
			}
		} else {
			g.fill(fm, depth+1)
		}
		list.Append(el)
	}
	return true
}

// anyOf builds a google.protobuf.Any holding a generated message of the given
// full name. ok=false if the type is not linked into this binary.
func (g *vfC45G) anyOf(full string, depth int) (protoreflect.Value, bool) {
	mt, err := protoregistry.GlobalTypes.FindMessageByName(protoreflect.FullName(full))
	if err != nil {
		return protoreflect.Value{}, false
	}
	inner := mt.New()
	g.fill(inner, depth)
	b, err := proto.MarshalOptions{Deterministic: true}.Marshal(inner.Interface())
	if err != nil {
		return protoreflect.Value{}, false
	}
	amt, _ := protoregistry.GlobalTypes.FindMessageByName("google.protobuf.Any")
	a := amt.New()
	a.Set(a.Descriptor().Fields().ByName("type_url"), protoreflect.ValueOfString("type.googleapis.com/"+full))
	a.Set(a.Descriptor().Fields().ByName("value"), protoreflect.ValueOfBytes(b))
	return protoreflect.ValueOfMessage(a), true
}

func (g *vfC45G) genAny(ctx string, depth int) (protoreflect.Value, bool) {
	cands := vfC45AnyCtx[ctx]
	k := g.roll("any_kind") / 5
	if g.wild == 0 && k <= 1 && len(cands) > 0 {
		k = 2
	}
	if ctx == "envoy.config.core.v3.TransportSocket.typed_config" && k >= 2 && g.roll("ts_side") < 85 {
		// the TLS context that fits the resource: downstream for listeners,
		// upstream (or the HTTP CONNECT proxy wrapper) for clusters
		switch {
		case g.kind == vfC45LDS:
			cands = []string{vfC45DownTLS}
		case rapid.IntRange(0, 4).Draw(g.rt, "ts_proxy") == 0:
			cands = []string{vfC45H11Proxy}
		default:
			cands = []string{vfC45UpTLS}
		}
	}
	switch {
	case k == 0: // garbage bytes under a plausible type
		amt, _ := protoregistry.GlobalTypes.FindMessageByName("google.protobuf.Any")
		a := amt.New()
		t := "unknown.Type"
		if len(cands) > 0 {
			t = cands[0]
		}
		a.Set(a.Descriptor().Fields().ByName("type_url"), protoreflect.ValueOfString("type.googleapis.com/"+t))
		a.Set(a.Descriptor().Fields().ByName("value"), protoreflect.ValueOfBytes(rapid.SliceOfN(rapid.Byte(), 0, 12).Draw(g.rt, "garbage")))
		return protoreflect.ValueOfMessage(a), true
	case k == 1 || len(cands) == 0:
		return g.anyOf(rapid.SampledFrom(vfC45AllAny).Draw(g.rt, "any_foreign"), depth)
	default:
		return g.anyOf(rapid.SampledFrom(cands).Draw(g.rt, "any_type"), depth)
	}
}

func (g *vfC45G) scalar(fd protoreflect.FieldDescriptor, pool string) protoreflect.Value {
	name := string(fd.Name())
	switch fd.Kind() {
	case protoreflect.BoolKind:
		return protoreflect.ValueOfBool(rapid.Bool().Draw(g.rt, name))
	case protoreflect.EnumKind:
		vals := fd.Enum().Values()
		if g.wild > 0 && g.pct(4, name+"_unknown_enum") {
			return protoreflect.ValueOfEnum(protoreflect.EnumNumber(rapid.Int32Range(-1, 50).Draw(g.rt, name)))
		}
		return protoreflect.ValueOfEnum(vals.Get(rapid.IntRange(0, vals.Len()-1).Draw(g.rt, name)).Number())
	case protoreflect.Int32Kind, protoreflect.Sint32Kind, protoreflect.Sfixed32Kind:
		return protoreflect.ValueOfInt32(rapid.SampledFrom([]int32{0, 1, -1, 2, 100, math.MaxInt32, math.MinInt32}).Draw(g.rt, name))
	case protoreflect.Int64Kind, protoreflect.Sint64Kind, protoreflect.Sfixed64Kind:
		return protoreflect.ValueOfInt64(rapid.SampledFrom([]int64{0, 1, -1, 2, 5, 100, math.MaxInt64, math.MinInt64, 315576000000, 315576000001}).Draw(g.rt, name))
	case protoreflect.Uint32Kind, protoreflect.Fixed32Kind:
		if g.pct(50, name+"_small") {
			return protoreflect.ValueOfUint32(rapid.Uint32Range(0, 100).Draw(g.rt, name))
		}
		return protoreflect.ValueOfUint32(rapid.SampledFrom([]uint32{0, 1, 2, 80, 8080, 65535, 65536, 1000000, 1000001, math.MaxUint32, math.MaxUint32 - 1, 1 << 31, 429497, 42950}).Draw(g.rt, name))
	case protoreflect.Uint64Kind, protoreflect.Fixed64Kind:
		return protoreflect.ValueOfUint64(rapid.SampledFrom([]uint64{0, 1, 2, 1024, 8388608, 8388609, math.MaxUint64, math.MaxUint32 + 1}).Draw(g.rt, name))
	case protoreflect.FloatKind:
		return protoreflect.ValueOfFloat32(rapid.SampledFrom([]float32{0, 1, -1, 0.5, 100, float32(math.Inf(1)), float32(math.NaN())}).Draw(g.rt, name))
	case protoreflect.DoubleKind:
		return protoreflect.ValueOfFloat64(rapid.SampledFrom([]float64{0, 1, -1, 0.5, 100, 1e300, math.Inf(1), math.NaN()}).Draw(g.rt, name))
	case protoreflect.StringKind:
		if pool == "" {
			switch {
			case strings.Contains(name, "regex"):
				pool = "regex"
			case strings.Contains(name, "name") || strings.Contains(name, "cluster"):
				pool = "name"
			case strings.Contains(name, "address") || strings.Contains(name, "prefix"):
				pool = "ip"
			default:
				pool = "generic"
			}
		}
		s := g.str(pool, name)
		if !strings.Contains(s, "\xff") {
			return protoreflect.ValueOfString(s)
		}
		return protoreflect.ValueOfString("x") // proto strings must be valid UTF-8 to marshal
	case protoreflect.BytesKind:
		return protoreflect.ValueOfBytes(rapid.SliceOfN(rapid.Byte(), 0, 6).Draw(g.rt, name))
	}
	return protoreflect.Value{}
}

// value produces one value for fd (element value for lists / map values).
func (g *vfC45G) value(parent protoreflect.MessageDescriptor, fd protoreflect.FieldDescriptor, newMsg func() protoreflect.Message, depth int, pool string) (protoreflect.Value, bool) {
	if fd.Kind() != protoreflect.MessageKind && fd.Kind() != protoreflect.GroupKind {
		return g.scalar(fd, pool), true
	}
	if depth >= vfC45MaxDepth {
		return protoreflect.Value{}, false
	}
	if fd.Message().FullName() == "google.protobuf.Any" {
		ctx := string(parent.FullName()) + "." + string(fd.Name())
		return g.genAny(ctx, depth+1)
	}
	m := newMsg()
	g.fill(m, depth+1)
	return protoreflect.ValueOfMessage(m), true
}

func (g *vfC45G) setField(m protoreflect.Message, fd protoreflect.FieldDescriptor, h vfC45Hint, depth int) {
	if g.budget <= 0 {
		return
	}
	g.budget--
	if h.Gen != nil {
		h.Gen(g, m, fd, depth)
		return
	}
	md := m.Descriptor()
	max := h.Max
	if max == 0 {
		max = 3
	}
	switch {
	case fd.IsMap():
		n := rapid.IntRange(1, max).Draw(g.rt, string(fd.Name())+"_n")
		mp := m.Mutable(fd).Map()
		for i := 0; i < n; i++ {
			var key protoreflect.MapKey
			switch fd.MapKey().Kind() {
			case protoreflect.StringKind:
				pool := h.Str
				if pool == "" {
					pool = "name"
				}
				key = protoreflect.ValueOfString(strings.ToValidUTF8(g.str(pool, "map_key"), "?")).MapKey()
			case protoreflect.BoolKind:
				key = protoreflect.ValueOfBool(i%2 == 0).MapKey()
			case protoreflect.Int32Kind, protoreflect.Sint32Kind, protoreflect.Sfixed32Kind:
				key = protoreflect.ValueOfInt32(int32(i)).MapKey()
			case protoreflect.Int64Kind, protoreflect.Sint64Kind, protoreflect.Sfixed64Kind:
				key = protoreflect.ValueOfInt64(int64(i)).MapKey()
			case protoreflect.Uint32Kind, protoreflect.Fixed32Kind:
				key = protoreflect.ValueOfUint32(uint32(i)).MapKey()
			default:
				key = protoreflect.ValueOfUint64(uint64(i)).MapKey()
			}
			v, ok := g.value(md, fd.MapValue(), func() protoreflect.Message { return mp.NewValue().Message() }, depth, "")
			if fd.MapValue().Kind() == protoreflect.MessageKind && fd.MapValue().Message().FullName() == "google.protobuf.Any" {
				v, ok = g.genAny(string(md.FullName())+"."+string(fd.Name()), depth+1)
			}
			if ok {
				mp.Set(key, v)
			}
		}
	case fd.IsList():
		n := rapid.IntRange(1, max).Draw(g.rt, string(fd.Name())+"_n")
		l := m.Mutable(fd).List()
		for i := 0; i < n; i++ {
			v, ok := g.value(md, fd, func() protoreflect.Message { return l.NewElement().Message() }, depth, h.Str)
			if ok {
				l.Append(v)
			}
		}
	default:
		v, ok := g.value(md, fd, func() protoreflect.Message { return m.NewField(fd).Message() }, depth, h.Str)
		if ok {
			m.Set(fd, v)
		}
	}
}

// fill sets the fields of m.
func (g *vfC45G) fill(m protoreflect.Message, depth int) {
	md := m.Descriptor()
	full := string(md.FullName())
	fds := md.Fields()
	if full == "envoy.config.listener.v3.FilterChain" {
		g.server++
		defer func() { g.server-- }()
	}
	// well-known wrappers, Duration, Timestamp, Value: simple direct rules
	switch {
	case full == "google.protobuf.Duration":
		m.Set(fds.ByName("seconds"), protoreflect.ValueOfInt64(rapid.SampledFrom([]int64{0, 0, 1, 5, 30, -1, 315576000000, 315576000001, math.MaxInt64}).Draw(g.rt, "dur_s")))
		m.Set(fds.ByName("nanos"), protoreflect.ValueOfInt32(rapid.SampledFrom([]int32{0, 0, 0, 1, 500000000, 999999999, -1, 1000000000}).Draw(g.rt, "dur_n")))
		return
	case strings.HasPrefix(full, "google.protobuf.") && fds.Len() == 1 && fds.Get(0).Name() == "value":
		if g.pct(85, "wrapper_set") {
			m.Set(fds.Get(0), g.scalar(fds.Get(0), ""))
		}
		return
	}
	// oneofs first: pick at most one member
	handled := map[protoreflect.FieldNumber]bool{}
	oos := md.Oneofs()
	for i := 0; i < oos.Len(); i++ {
		oo := oos.Get(i)
		if oo.IsSynthetic() {
			continue
		}
		weights := vfC45Oneofs[full+"."+string(oo.Name())]
		ofs := oo.Fields()
		names := make([]string, 0, ofs.Len())
		for j := 0; j < ofs.Len(); j++ {
			handled[ofs.Get(j).Number()] = true
			names = append(names, string(ofs.Get(j).Name()))
		}
		var pick protoreflect.FieldDescriptor
		if weights != nil || depth < vfC45FreeDepth {
			r := g.roll(string(oo.Name()) + "_oneof")
			acc := 0
			if weights != nil {
				if g.wild == 0 {
					// mostly-valid resources: (almost) always one of the listed members
					tot := 0
					for _, n := range names {
						tot += weights[n]
					}
					if tot >= 50 && r >= 2 {
						r = r * tot / 100
					}
				}
				rest := 0
				for _, n := range names {
					if w, ok := weights[n]; ok {
						acc += w
						if r < acc && pick == nil {
							pick = ofs.ByName(protoreflect.Name(n))
						}
					} else {
						rest++
					}
				}
				if pick == nil && rest > 0 && r < acc+6 && g.wild > 0 {
					// one of the unlisted members
					var others []string
					for _, n := range names {
						if _, ok := weights[n]; !ok {
							others = append(others, n)
						}
					}
					pick = ofs.ByName(protoreflect.Name(rapid.SampledFrom(others).Draw(g.rt, "oneof_other")))
				}
			} else if r < 15 { // un-hinted oneof: rarely set
				pick = ofs.Get(rapid.IntRange(0, ofs.Len()-1).Draw(g.rt, "oneof_member"))
			}
		}
		if pick != nil {
			g.setField(m, pick, vfC45Hints[full+"."+string(pick.Name())], depth)
		}
	}
	for i := 0; i < fds.Len(); i++ {
		fd := fds.Get(i)
		if handled[fd.Number()] {
			continue
		}
		h, hinted := vfC45Hints[full+"."+string(fd.Name())]
		p := h.P
		if !hinted {
			if depth >= vfC45FreeDepth {
				continue
			}
			p = 4
			if strings.HasPrefix(full, "google.protobuf.") || full == vfC45TSXds || full == vfC45TSUdpa {
				p = 50
			}
		} else if p == 0 {
			p = 50
		}
		if !g.pct(p, string(fd.Name())+"_set") {
			continue
		}
		g.setField(m, fd, h, depth)
	}
}

// vfC45CheckHints verifies that every key of the hint tables names an existing
// field / oneof of a linked message type (typos would silently disable a bias).
func vfC45CheckHints() []string {
	var bad []string
	check := func(key string, oneof bool) {
		i := strings.LastIndex(key, ".")
		mt, err := protoregistry.GlobalTypes.FindMessageByName(protoreflect.FullName(key[:i]))
		if err != nil {
			bad = append(bad, key+": message not linked")
			return
		}
		if oneof {
			if mt.Descriptor().Oneofs().ByName(protoreflect.Name(key[i+1:])) == nil {
				bad = append(bad, key+": no such oneof")
			}
			return
		}
		if mt.Descriptor().Fields().ByName(protoreflect.Name(key[i+1:])) == nil {
			bad = append(bad, key+": no such field")
		}
	}
	for k := range vfC45Hints {
		check(k, false)
	}
	for k, ws := range vfC45Oneofs {
		check(k, true)
		i := strings.LastIndex(k, ".")
		if mt, err := protoregistry.GlobalTypes.FindMessageByName(protoreflect.FullName(k[:i])); err == nil {
			for n := range ws {
				if mt.Descriptor().Fields().ByName(protoreflect.Name(n)) == nil {
					bad = append(bad, k+": no member "+n)
				}
			}
		}
	}
	for k := range vfC45AnyCtx {
		check(k, false)
	}
	sort.Strings(bad)
	return bad
}
