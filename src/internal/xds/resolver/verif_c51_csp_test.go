package resolver

// C51, unit "plugins": routes whose action is a CLUSTER SPECIFIER PLUGIN (gRFC A28)
// next to plain-cluster and weighted-cluster routes. Plugins have no watch in the
// dependency manager: when a plugin's refcount drops to zero (last OnCommitted, or
// stop() of the old selector) the selector asks the resolver for a "prune + push"
// through configSelector.sendNewServiceConfig - a path of its own, which the
// cluster-only unit "lifetime" never takes.
//
// This file also holds what both units share beyond verif_c51_test.go:
//   - the harness' ClusterSpecifier plugin type (registered like the repo's own test
//     plugin, under a type URL nobody else uses),
//   - a tracking HTTP filter: every route cluster of every config selector gets its
//     own interceptor instance; Close is logged into the channel's event log, and an
//     RPC learns which instance it is bound to by calling Interceptor.NewStream the
//     way the channel does ("its interceptor stays alive until the RPC is committed").

import (
	"context"
	"fmt"
	"sync"
	"testing"

	v3xdsxdstypepb "github.com/cncf/xds/go/xds/type/v3"
	v3corepb "github.com/envoyproxy/go-control-plane/envoy/config/core/v3"
	v3listenerpb "github.com/envoyproxy/go-control-plane/envoy/config/listener/v3"
	v3httppb "github.com/envoyproxy/go-control-plane/envoy/extensions/filters/network/http_connection_manager/v3"
	"google.golang.org/grpc"
	iresolver "google.golang.org/grpc/internal/resolver"
	"google.golang.org/grpc/internal/testutils"
	"google.golang.org/grpc/internal/testutils/xds/e2e"
	"google.golang.org/grpc/internal/verifkit/vk"
	"google.golang.org/grpc/internal/xds/clusterspecifier"
	"google.golang.org/grpc/internal/xds/httpfilter"
	rinternal "google.golang.org/grpc/internal/xds/resolver/internal"
	"google.golang.org/protobuf/proto"
	"google.golang.org/protobuf/types/known/anypb"
	"google.golang.org/protobuf/types/known/structpb"
	"google.golang.org/protobuf/types/known/wrapperspb"
	"pgregory.net/rapid"
)

const (
	vfC51CSPTypeURL    = "type.googleapis.com/google.protobuf.BytesValue" // the repo's test plugin uses StringValue
	vfC51FilterTypeURL = "verif.c51.tracking_filter"
	vfC51FilterNodeKey = "node"
)

func init() {
	clusterspecifier.Register(vfC51CSP{})
	httpfilter.Register(vfC51FilterBuilder{})
}

func vfC51MarshalAny(m proto.Message) *anypb.Any {
	a, err := anypb.New(m)
	if err != nil {
		panic(fmt.Sprintf("anypb.New(%v): %v", m, err))
	}
	return a
}

// ------------------------------------------------------------------ cluster specifier plugin type

// vfC51CSP turns a BytesValue into the child policy {"verif_c51_csp": {"value": ...}}.
// The recording channel does not parse LB policies, so no balancer is registered.
type vfC51CSP struct{}

func (vfC51CSP) TypeURLs() []string { return []string{vfC51CSPTypeURL} }

func (vfC51CSP) ParseClusterSpecifierConfig(cfg proto.Message) (clusterspecifier.BalancerConfig, error) {
	a, ok := cfg.(*anypb.Any)
	if !ok || a == nil {
		return nil, fmt.Errorf("vfC51CSP: got %T, want *anypb.Any", cfg)
	}
	v := new(wrapperspb.BytesValue)
	if err := anypb.UnmarshalTo(a, v, proto.UnmarshalOptions{}); err != nil {
		return nil, fmt.Errorf("vfC51CSP: %v", err)
	}
	return []map[string]any{{"verif_c51_csp": map[string]any{"value": string(v.GetValue())}}}, nil
}

// ------------------------------------------------------------------ tracking HTTP filter

// vfC51Channels maps the node id of a running case to its recording channel; the
// filter configuration in the case's listener carries the node id.
var vfC51Channels sync.Map

type vfC51FilterCfg struct {
	httpfilter.FilterConfig
	node string
}

type vfC51FilterBuilder struct{}

func (vfC51FilterBuilder) TypeURLs() []string { return []string{vfC51FilterTypeURL} }
func (vfC51FilterBuilder) IsTerminal() bool   { return false }

func (vfC51FilterBuilder) ParseFilterConfig(cfg proto.Message, _ httpfilter.ParseOptions) (httpfilter.FilterConfig, error) {
	ts, ok := cfg.(*v3xdsxdstypepb.TypedStruct)
	if !ok {
		return nil, fmt.Errorf("vfC51 filter: got %T, want TypedStruct", cfg)
	}
	return vfC51FilterCfg{node: ts.GetValue().GetFields()[vfC51FilterNodeKey].GetStringValue()}, nil
}

func (b vfC51FilterBuilder) ParseFilterConfigOverride(cfg proto.Message, o httpfilter.ParseOptions) (httpfilter.FilterConfig, error) {
	return b.ParseFilterConfig(cfg, o)
}

func (vfC51FilterBuilder) BuildClientFilter(httpfilter.ClientFilterOptions) httpfilter.ClientFilter {
	return vfC51Filter{}
}

type vfC51Filter struct{}

func (vfC51Filter) Close() {}

func (vfC51Filter) BuildClientInterceptor(config, _ httpfilter.FilterConfig) (httpfilter.ClientInterceptor, error) {
	cfg, _ := config.(vfC51FilterCfg)
	v, _ := vfC51Channels.Load(cfg.node)
	cc, _ := v.(*vfC51CC)
	ic := &vfC51Interceptor{cc: cc}
	if cc != nil {
		cc.mu.Lock()
		cc.icptSeq++
		ic.id = cc.icptSeq
		cc.mu.Unlock()
	}
	return ic, nil
}

type vfC51Interceptor struct {
	cc *vfC51CC
	id int
}

type vfC51ProbeKey struct{}

// vfC51Probe receives the identity of the interceptor instance that handles the RPC.
type vfC51Probe struct{ id int }

func (ic *vfC51Interceptor) NewStream(ctx context.Context, _ iresolver.RPCInfo, newStream func(ctx context.Context, opts ...grpc.CallOption) (grpc.ClientStream, error), opts ...grpc.CallOption) (grpc.ClientStream, error) {
	if p, ok := ctx.Value(vfC51ProbeKey{}).(*vfC51Probe); ok {
		p.id = ic.id
	}
	return newStream(ctx, opts...)
}

func (ic *vfC51Interceptor) Close() {
	if ic.cc == nil {
		return
	}
	ic.cc.mu.Lock()
	ic.cc.log = append(ic.cc.log, vfC51Event{kind: "iclose", icpt: ic.id})
	ic.cc.mu.Unlock()
}

// vfC51Listener is e2e.DefaultClientListener plus the tracking filter in front of
// the router filter.
func vfC51Listener(nodeID string) *v3listenerpb.Listener {
	st, err := structpb.NewStruct(map[string]any{vfC51FilterNodeKey: nodeID})
	if err != nil {
		panic(err)
	}
	hcm := vfC51MarshalAny(&v3httppb.HttpConnectionManager{
		RouteSpecifier: &v3httppb.HttpConnectionManager_Rds{Rds: &v3httppb.Rds{
			ConfigSource:    &v3corepb.ConfigSource{ConfigSourceSpecifier: &v3corepb.ConfigSource_Ads{Ads: &v3corepb.AggregatedConfigSource{}}},
			RouteConfigName: vfC51RouteName,
		}},
		HttpFilters: []*v3httppb.HttpFilter{
			{Name: "vfc51-tracking", ConfigType: &v3httppb.HttpFilter_TypedConfig{
				TypedConfig: vfC51MarshalAny(&v3xdsxdstypepb.TypedStruct{TypeUrl: vfC51FilterTypeURL, Value: st})}},
			e2e.RouterHTTPFilter,
		},
	})
	return &v3listenerpb.Listener{Name: vfC51Service, ApiListener: &v3listenerpb.ApiListener{ApiListener: hcm}}
}

// ------------------------------------------------------------------ generator of the unit "plugins"

// vfC51PTarget is a route target: plugin p (1..3) or cluster c (0..2).
type vfC51PTarget struct {
	plugin  int
	cluster int
}

func vfC51PRoute(rt *rapid.T, tg vfC51PTarget) vfC51Route {
	if tg.plugin > 0 {
		return vfC51Route{Plugin: tg.plugin, Cfg: rapid.IntRange(0, 1).Draw(rt, "cfg")}
	}
	r := vfC51Route{Clusters: []int{tg.cluster}, Weights: []int{rapid.IntRange(1, 3).Draw(rt, "w")}}
	switch rapid.IntRange(0, 3).Draw(rt, "cluster_action") {
	case 0:
		r.Plain = true // RouteAction.cluster
	case 1:
		// weighted_clusters with a second cluster
		r.Clusters = append(r.Clusters, (tg.cluster+1+rapid.IntRange(0, 1).Draw(rt, "second"))%3)
		r.Weights = append(r.Weights, rapid.IntRange(1, 3).Draw(rt, "w2"))
	}
	return r
}

func vfC51PGenTarget(rt *rapid.T) vfC51PTarget {
	// plugin : cluster = 3 : 2
	if rapid.IntRange(0, 4).Draw(rt, "action") < 3 {
		return vfC51PTarget{plugin: rapid.IntRange(1, len(vfC51Plugins)).Draw(rt, "plugin")}
	}
	return vfC51PTarget{cluster: rapid.IntRange(0, 2).Draw(rt, "cluster")}
}

// vfC51PGenRoutes: 1-3 routes; with a theme most routes point at the same target so
// that a push frequently replaces / removes / re-adds a plugin.
func vfC51PGenRoutes(rt *rapid.T, theme *vfC51PTarget) []vfC51Route {
	n := rapid.SampledFrom([]int{1, 1, 2, 2, 3}).Draw(rt, "nroutes")
	out := make([]vfC51Route, n)
	for i := range out {
		tg := vfC51PGenTarget(rt)
		if theme != nil && rapid.IntRange(0, 3).Draw(rt, "use_theme") > 0 {
			tg = *theme
		}
		out[i] = vfC51PRoute(rt, tg)
	}
	return out
}

// vfC51PGenScenario: the replace / prune / (re-add) skeleton around plugin x and a
// replacement y (another plugin or a cluster): k RPCs on x, x is replaced by y,
// optionally the channel is parked, the RPCs on x commit (x is pruned by the
// refcount-triggered push), new RPCs start on what the channel holds then, x comes
// back or not.
func vfC51PGenScenario(rt *rapid.T) vfC51Plan {
	x := vfC51PTarget{plugin: rapid.IntRange(1, len(vfC51Plugins)).Draw(rt, "x")}
	var y vfC51PTarget
	if rapid.IntRange(0, 4).Draw(rt, "y_kind") < 3 {
		y = vfC51PTarget{plugin: (x.plugin-1+rapid.IntRange(1, 2).Draw(rt, "y"))%len(vfC51Plugins) + 1}
	} else {
		y = vfC51PTarget{cluster: rapid.IntRange(0, 2).Draw(rt, "y_cluster")}
	}
	routes := func(last vfC51PTarget, first ...vfC51PTarget) []vfC51Route {
		var rs []vfC51Route
		for _, tg := range append(first, last) {
			rs = append(rs, vfC51PRoute(rt, tg))
		}
		return rs
	}
	var p vfC51Plan
	add := func(op vfC51Op) { p.Ops = append(p.Ops, op) }
	if rapid.IntRange(0, 3).Draw(rt, "init_extra") == 0 {
		p.Init = routes(x, vfC51PGenTarget(rt)) // /s0/ -> something, * -> x
	} else {
		p.Init = routes(x)
	}
	k := rapid.SampledFrom([]int{0, 1, 1, 2, 2, 3}).Draw(rt, "k")
	for i := 0; i < k; i++ {
		add(vfC51Op{Kind: "rpc", Method: rapid.SampledFrom([]int{1, 2, 2}).Draw(rt, "m")})
	}
	add(vfC51Op{Kind: "push", Routes: routes(y)}) // x replaced by y
	if rapid.Bool().Draw(rt, "noise_rpc") {
		add(vfC51Op{Kind: "rpc", Method: 2})
	}
	hold := rapid.IntRange(0, 3).Draw(rt, "hold") == 0
	if hold {
		add(vfC51Op{Kind: "hold", Routes: routes(y)})
	}
	readdEarly := rapid.IntRange(0, 5).Draw(rt, "readd_early") == 0
	if readdEarly {
		add(vfC51Op{Kind: "push", Routes: routes(y, x)}) // /s0/ -> x again while its RPCs are open
	}
	n := k
	if rapid.IntRange(0, 4).Draw(rt, "partial") == 0 {
		n = rapid.IntRange(0, k).Draw(rt, "ncommit")
	}
	for i := 0; i < n; i++ {
		// RPC 0.. are the RPCs on x (the noise RPC, if any, comes after them)
		add(vfC51Op{Kind: "commit", RPC: 0, Twice: rapid.IntRange(0, 4).Draw(rt, "twice") == 0})
	}
	if hold {
		if rapid.Bool().Draw(rt, "rpc_held") {
			add(vfC51Op{Kind: "rpc", Method: 2})
		}
		add(vfC51Op{Kind: "release"})
	}
	late := rapid.IntRange(1, 3).Draw(rt, "late_rpcs")
	for i := 0; i < late; i++ {
		add(vfC51Op{Kind: "rpc", Method: rapid.SampledFrom([]int{0, 2, 2}).Draw(rt, "late_m")})
		if rapid.IntRange(0, 2).Draw(rt, "late_commit") == 0 {
			add(vfC51Op{Kind: "commit", RPC: rapid.IntRange(0, 3).Draw(rt, "late_c"), Twice: rapid.IntRange(0, 4).Draw(rt, "late_twice") == 0})
		}
	}
	switch rapid.IntRange(0, 3).Draw(rt, "tail") {
	case 0:
		add(vfC51Op{Kind: "push", Routes: routes(x)}) // x comes back, y leaves
	case 1:
		add(vfC51Op{Kind: "push", Routes: routes(vfC51PGenTarget(rt))})
	case 2:
		add(vfC51Op{Kind: "push", Routes: routes(y, x)})
	}
	if rapid.Bool().Draw(rt, "tail_rpc") {
		add(vfC51Op{Kind: "rpc", Method: rapid.IntRange(0, 2).Draw(rt, "tail_m")})
		if rapid.Bool().Draw(rt, "tail_commit") {
			add(vfC51Op{Kind: "commit", RPC: rapid.IntRange(0, 7).Draw(rt, "tail_c")})
		}
		if rapid.Bool().Draw(rt, "tail_rpc2") {
			add(vfC51Op{Kind: "rpc", Method: 2})
		}
	}
	return p
}

func vfC51PGen(rt *rapid.T) vfC51Plan {
	if rapid.IntRange(0, 9).Draw(rt, "mode") < 6 {
		return vfC51PGenScenario(rt)
	}
	var p vfC51Plan
	p.Init = vfC51PGenRoutes(rt, nil)
	n := rapid.IntRange(6, vk.Pick(14, 40)).Draw(rt, "nops")
	held := false
	for i := 0; i < n; i++ {
		kinds := []string{"rpc", "rpc", "rpc", "rpc", "push", "push", "push", "commit", "commit", "commit", "hold"}
		if held {
			kinds = []string{"rpc", "rpc", "push", "push", "commit", "commit", "commit", "release"}
		}
		op := vfC51Op{Kind: rapid.SampledFrom(kinds).Draw(rt, "kind")}
		switch op.Kind {
		case "rpc":
			op.Method = rapid.SampledFrom([]int{0, 1, 2, 2, 2}).Draw(rt, "method")
		case "push", "hold":
			var theme *vfC51PTarget
			if rapid.IntRange(0, 3).Draw(rt, "themed") > 0 {
				tg := vfC51PGenTarget(rt)
				theme = &tg
			}
			op.Routes = vfC51PGenRoutes(rt, theme)
			if op.Kind == "hold" {
				held = true
			}
		case "commit":
			op.RPC = rapid.IntRange(0, 7).Draw(rt, "rpc")
			op.Twice = rapid.IntRange(0, 3).Draw(rt, "twice") == 0
		case "release":
			held = false
		}
		p.Ops = append(p.Ops, op)
	}
	return p
}

func TestVerifC51Plugins(t *testing.T) {
	orig := rinternal.NewWRR
	rinternal.NewWRR = testutils.NewTestWRR
	defer func() { rinternal.NewWRR = orig }()
	vk.Check(t, vk.Unit[vfC51Plan]{
		ID: "C51", Name: "plugins",
		Rule: "same harness and oracle as unit lifetime; every route's action is drawn from cluster | weighted_clusters | cluster_specifier_plugin (pool of 3 plugin names, 2 config variants, harness ClusterSpecifier type), 60 % of the plans from a replace / prune / re-add skeleton around a plugin (k in 0..3 RPCs on plugin x, x replaced by plugin or cluster y, optional parked channel, commits, new RPCs, x back or not), 40 % free op sequences. non-trivial = a plugin left the routes while >= 1 uncommitted RPC referenced it and a new RPC was started after the channel had received the config from which that plugin was pruned (class rpc_after_plugin_prune)",
		Gen:  vfC51PGen,
		Run: func(t *testing.T, p vfC51Plan) vk.Result {
			res := vfC51Run(t, p)
			if res.Violation == "" && !res.Discard {
				res.NonTrivial = false
				for _, c := range res.Classes {
					if c == "rpc_after_plugin_prune" {
						res.NonTrivial = true
					}
				}
			}
			return res
		},
	})
}
