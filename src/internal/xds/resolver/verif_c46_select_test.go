package resolver

// C46 (resolver part): the config selector built by the real
// xdsResolver.newConfigSelector picks the first route whose matchers all match,
// a cluster among that route's weighted clusters (the weights handed to the
// WRR are the configured ones), and a request hash that depends only on the
// route's hash-policy inputs (metamorphic). White-box: configSelector and
// newConfigSelector are unexported.

import (
	"context"
	"fmt"
	"regexp"
	"strings"
	"sync"
	"testing"

	"google.golang.org/grpc/internal/grpcsync"
	"google.golang.org/grpc/internal/grpcutil"
	iresolver "google.golang.org/grpc/internal/resolver"
	iringhash "google.golang.org/grpc/internal/ringhash"
	"google.golang.org/grpc/internal/verifkit/vk"
	"google.golang.org/grpc/internal/wrr"
	"google.golang.org/grpc/internal/xds/balancer/clustermanager"
	"google.golang.org/grpc/internal/xds/bootstrap"
	"google.golang.org/grpc/internal/xds/clients/lrsclient"
	ixdsclient "google.golang.org/grpc/internal/xds/clients/xdsclient"
	"google.golang.org/grpc/internal/xds/matcher"
	rinternal "google.golang.org/grpc/internal/xds/resolver/internal"
	"google.golang.org/grpc/internal/xds/xdsclient/xdsresource"
	"google.golang.org/grpc/internal/xds/xdsdepmgr"
	"google.golang.org/grpc/metadata"
	"pgregory.net/rapid"
)

type vfC46Hdr struct {
	Name    string `json:"name"`
	Kind    int    `json:"kind"` // 0 exact, 1 present, 2 prefix
	Pattern string `json:"pattern"`
	Present bool   `json:"present"`
	Invert  bool   `json:"invert"`
}

type vfC46WC struct {
	Name   string `json:"name"`
	Weight uint32 `json:"weight"`
}

type vfC46HP struct {
	Kind     int    `json:"kind"` // 0 header, 1 channel id
	Header   string `json:"header"`
	Regex    string `json:"regex"` // "" = none
	Subst    string `json:"subst"`
	Terminal bool   `json:"terminal"`
}

type vfC46Route struct {
	PathKind    int        `json:"path_kind"` // 0 prefix, 1 exact
	Path        string     `json:"path"`
	Headers     []vfC46Hdr `json:"headers"`
	HasFraction bool       `json:"has_fraction"`
	Fraction    uint32     `json:"fraction"`
	Action      int        `json:"action"` // 0 route, 1 non-forwarding, 2 unsupported
	Clusters    []vfC46WC  `json:"clusters"`
	Hash        []vfC46HP  `json:"hash"`
}

type vfC46KV struct {
	Key  string   `json:"key"`
	Vals []string `json:"vals"`
}

type vfC46SelPlan struct {
	Routes    []vfC46Route `json:"routes"`
	Method    string       `json:"method"`
	MD        []vfC46KV    `json:"md"`
	Extra     []vfC46KV    `json:"extra"`     // grpc's extra metadata (content-type ...)
	Unrelated []vfC46KV    `json:"unrelated"` // keys no matcher or hash policy names: added for the second RPC
	Draw      int64        `json:"draw"`
	ChannelID uint64       `json:"channel_id"`
	Picks     int          `json:"picks"`
}

var (
	vfC46Methods   = []string{"/svc/M", "/svc/N", "/s/M", "/svc.v1/M", "/"}
	vfC46HdrNames  = []string{"x-a", "x-b", "content-type"}
	vfC46Vals      = []string{"a", "ab", "b", "application/grpc", "a,b"}
	vfC46Unrelated = []string{"z-u1", "z-u2", "z-u3-bin"}
)

func vfC46GenSel(rt *rapid.T) vfC46SelPlan {
	p := vfC46SelPlan{
		Method:    rapid.SampledFrom(vfC46Methods).Draw(rt, "method"),
		ChannelID: rapid.Uint64().Draw(rt, "channel_id"),
		Picks:     rapid.IntRange(1, 6).Draw(rt, "picks"),
	}
	nr := rapid.IntRange(0, 5).Draw(rt, "nroutes")
	var fs []uint32
	for i := 0; i < nr; i++ {
		r := vfC46Route{PathKind: rapid.IntRange(0, 1).Draw(rt, "path_kind")}
		if rapid.IntRange(0, 3).Draw(rt, "rel") > 0 {
			if r.PathKind == 0 {
				r.Path = p.Method[:rapid.IntRange(0, len(p.Method)).Draw(rt, "cut")]
			} else {
				r.Path = p.Method
			}
		} else {
			r.Path = rapid.SampledFrom(vfC46Methods).Draw(rt, "path")
		}
		for j := rapid.SampledFrom([]int{0, 0, 1, 2}).Draw(rt, "nh"); j > 0; j-- {
			r.Headers = append(r.Headers, vfC46Hdr{
				Name: rapid.SampledFrom(vfC46HdrNames).Draw(rt, "hname"), Kind: rapid.IntRange(0, 2).Draw(rt, "hkind"),
				Pattern: rapid.SampledFrom([]string{"a", "ab", "b", "app"}).Draw(rt, "hpat"),
				Present: rapid.Bool().Draw(rt, "hpresent"), Invert: rapid.IntRange(0, 3).Draw(rt, "hinv") == 0})
		}
		if rapid.IntRange(0, 2).Draw(rt, "has_fraction") == 0 {
			r.HasFraction = true
			r.Fraction = rapid.SampledFrom([]uint32{0, 1, 250000, 500000, 999999, 1000000}).Draw(rt, "fraction")
			fs = append(fs, r.Fraction)
		}
		r.Action = rapid.SampledFrom([]int{0, 0, 0, 0, 0, 0, 1, 2}).Draw(rt, "action")
		for j := rapid.IntRange(1, 4).Draw(rt, "nclusters"); j > 0; j-- {
			wc := vfC46WC{Name: rapid.SampledFrom([]string{"A", "B", "C", "D", "E"}).Draw(rt, "cname")}
			switch rapid.IntRange(0, 3).Draw(rt, "wk") {
			case 0:
				wc.Weight = rapid.SampledFrom([]uint32{1, 2, 1 << 31, 4294967295}).Draw(rt, "w")
			default:
				wc.Weight = rapid.Uint32Range(1, 100).Draw(rt, "w")
			}
			r.Clusters = append(r.Clusters, wc)
		}
		for j := rapid.SampledFrom([]int{0, 1, 1, 2, 3}).Draw(rt, "nhash"); j > 0; j-- {
			hp := vfC46HP{Kind: rapid.SampledFrom([]int{0, 0, 0, 1}).Draw(rt, "hpk"), Terminal: rapid.IntRange(0, 3).Draw(rt, "term") == 0}
			if hp.Kind == 0 {
				// header names are case-insensitive: the RDS resource may spell them with capitals, request metadata keys are lower case
				hp.Header = rapid.SampledFrom([]string{"x-a", "x-b", "content-type", "x-missing", "x-c-bin", "X-A", "X-b", "Content-Type", "X-Missing"}).Draw(rt, "hph")
				if rapid.IntRange(0, 2).Draw(rt, "hpre") == 0 {
					hp.Regex = rapid.SampledFrom([]string{"a", "[ab]+", ",", "^"}).Draw(rt, "hpr")
					hp.Subst = rapid.SampledFrom([]string{"", "X", "$0$0"}).Draw(rt, "hps")
				}
			}
			r.Hash = append(r.Hash, hp)
		}
		p.Routes = append(p.Routes, r)
	}
	for _, k := range vfC46HdrNames[:2] {
		if rapid.IntRange(0, 2).Draw(rt, "has_"+k) > 0 {
			kv := vfC46KV{Key: k}
			for j := rapid.SampledFrom([]int{1, 1, 2}).Draw(rt, "nv"); j > 0; j-- {
				kv.Vals = append(kv.Vals, rapid.SampledFrom(vfC46Vals).Draw(rt, "v"))
			}
			p.MD = append(p.MD, kv)
		}
	}
	p.Extra = []vfC46KV{{Key: "content-type", Vals: []string{"application/grpc"}}}
	if rapid.IntRange(0, 3).Draw(rt, "extra_xa") == 0 {
		p.Extra = append(p.Extra, vfC46KV{Key: "x-a", Vals: []string{rapid.SampledFrom(vfC46Vals).Draw(rt, "ev")}})
	}
	for _, k := range vfC46Unrelated {
		if rapid.Bool().Draw(rt, "unrel_"+k) {
			p.Unrelated = append(p.Unrelated, vfC46KV{Key: k, Vals: []string{rapid.SampledFrom(vfC46Vals).Draw(rt, "uv")}})
		}
	}
	if len(p.Unrelated) == 0 {
		p.Unrelated = []vfC46KV{{Key: "z-u1", Vals: []string{"q"}}}
	}
	if len(fs) > 0 && rapid.IntRange(0, 3).Draw(rt, "draw_rel") > 0 {
		p.Draw = int64(rapid.SampledFrom(fs).Draw(rt, "draw_f")) + rapid.Int64Range(-2, 2).Draw(rt, "draw_d")
	} else {
		p.Draw = rapid.Int64Range(0, 999999).Draw(rt, "draw")
	}
	if p.Draw < 0 {
		p.Draw = 0
	}
	if p.Draw > 999999 {
		p.Draw = 999999
	}
	return p
}

// ---- fakes -----------------------------------------------------------------

type vfC46Client struct{ cfg *bootstrap.Config }

func (c *vfC46Client) WatchResource(string, string, ixdsclient.ResourceWatcher) func() {
	return func() {}
}
func (c *vfC46Client) ReportLoad(*bootstrap.ServerConfig) (*lrsclient.LoadStore, func(context.Context)) {
	return nil, func(context.Context) {}
}
func (c *vfC46Client) BootstrapConfig() *bootstrap.Config { return c.cfg }

type vfC46Watcher struct{}

func (vfC46Watcher) Update(*xdsresource.XDSConfig) {}
func (vfC46Watcher) Error(error)                   {}

var (
	vfC46BootOnce sync.Once
	vfC46Boot     *bootstrap.Config
	vfC46BootErr  error
)

func vfC46Bootstrap() (*bootstrap.Config, error) {
	vfC46BootOnce.Do(func() {
		vfC46Boot, vfC46BootErr = bootstrap.NewConfigFromContents([]byte(`{"xds_servers":[{"server_uri":"passthrough:///verif","channel_creds":[{"type":"insecure"}]}],"node":{"id":"verif-node"}}`))
	})
	return vfC46Boot, vfC46BootErr
}

// vfC46WRR records what the resolver adds and otherwise is the production
// random WRR.
type vfC46WRR struct {
	inner wrr.WRR
	items []any
	ws    []int64
}

func (w *vfC46WRR) Add(item any, weight int64) {
	w.items = append(w.items, item)
	w.ws = append(w.ws, weight)
	w.inner.Add(item, weight)
}
func (w *vfC46WRR) Next() any { return w.inner.Next() }

// ---- reference ---------------------------------------------------------------

func vfC46RefRoute(r vfC46Route, method string, md map[string][]string, draw int64) bool {
	if r.PathKind == 0 {
		if !(len(method) >= len(r.Path) && method[:len(r.Path)] == r.Path) {
			return false
		}
	} else if method != r.Path {
		return false
	}
	for _, h := range r.Headers {
		vs, present := md[h.Name]
		v := strings.Join(vs, ",")
		var m bool
		switch {
		case h.Kind == 1:
			m = (present == h.Present) != h.Invert
		case !present:
			m = false
		case h.Kind == 0:
			m = (v == h.Pattern) != h.Invert
		default:
			m = (len(v) >= len(h.Pattern) && v[:len(h.Pattern)] == h.Pattern) != h.Invert
		}
		if !m {
			return false
		}
	}
	if r.HasFraction && !(draw < int64(r.Fraction)) {
		return false
	}
	return true
}

func vfC46BuildRoute(r vfC46Route) (*xdsresource.Route, bool) {
	out := &xdsresource.Route{}
	path := r.Path
	if r.PathKind == 0 {
		out.Prefix = &path
	} else {
		out.Path = &path
	}
	for _, h := range r.Headers {
		inv := h.Invert
		hm := &xdsresource.HeaderMatcher{Name: h.Name, InvertMatch: &inv}
		switch h.Kind {
		case 0:
			sm := matcher.NewExactStringMatcher(h.Pattern, false)
			hm.StringMatch = &sm
		case 1:
			pm := h.Present
			hm.PresentMatch = &pm
		case 2:
			sm := matcher.NewPrefixStringMatcher(h.Pattern, false)
			hm.StringMatch = &sm
		default:
			return nil, false
		}
		out.Headers = append(out.Headers, hm)
	}
	if r.HasFraction {
		f := r.Fraction
		out.Fraction = &f
	}
	switch r.Action {
	case 0:
		out.ActionType = xdsresource.RouteActionRoute
	case 1:
		out.ActionType = xdsresource.RouteActionNonForwardingAction
	default:
		out.ActionType = xdsresource.RouteActionUnsupported
	}
	if len(r.Clusters) == 0 {
		return nil, false
	}
	for _, wc := range r.Clusters {
		if wc.Weight == 0 || wc.Name == "" {
			return nil, false // the RDS parser never yields a zero weight
		}
		out.WeightedClusters = append(out.WeightedClusters, xdsresource.WeightedCluster{Name: wc.Name, Weight: wc.Weight})
	}
	for _, hp := range r.Hash {
		o := &xdsresource.HashPolicy{Terminal: hp.Terminal}
		if hp.Kind == 1 {
			o.HashPolicyType = xdsresource.HashPolicyTypeChannelID
		} else {
			o.HashPolicyType = xdsresource.HashPolicyTypeHeader
			o.HeaderName = hp.Header
			if hp.Regex != "" {
				re, err := regexp.Compile(hp.Regex)
				if err != nil {
					return nil, false
				}
				o.Regex = re
				o.RegexSubstitution = hp.Subst
			}
		}
		out.HashPolicies = append(out.HashPolicies, o)
	}
	return out, true
}

func vfC46ToMD(kvs []vfC46KV) (metadata.MD, bool) {
	md := metadata.MD{}
	for _, kv := range kvs {
		if len(kv.Vals) == 0 || md[kv.Key] != nil || kv.Key != strings.ToLower(kv.Key) {
			return nil, false
		}
		md[kv.Key] = append([]string(nil), kv.Vals...)
	}
	return md, true
}

// vfC46HashDetermined: does the reference expect a generated (non-random)
// hash for this route and RPC? A header policy contributes when the header is
// not "-bin" and is present in extra or user metadata; channel-id always.
func vfC46HashDetermined(r vfC46Route, md, extra metadata.MD) bool {
	for _, hp := range r.Hash {
		if hp.Kind == 1 {
			return true
		}
		name := strings.ToLower(hp.Header)
		if strings.HasSuffix(name, "-bin") {
			continue
		}
		if len(extra[name]) > 0 || len(md[name]) > 0 {
			return true
		}
	}
	return false
}

func vfC46RunSel(_ *testing.T, p vfC46SelPlan) vk.Result {
	boot, err := vfC46Bootstrap()
	if err != nil {
		return vk.Bad("harness: bootstrap config: %v", err)
	}
	md, ok1 := vfC46ToMD(p.MD)
	extra, ok2 := vfC46ToMD(p.Extra)
	unrel, ok3 := vfC46ToMD(p.Unrelated)
	if !ok1 || !ok2 || !ok3 || p.Picks < 1 || p.Picks > 16 || len(unrel) == 0 {
		return vk.Result{Discard: true}
	}
	routes := make([]*xdsresource.Route, len(p.Routes))
	for i, r := range p.Routes {
		rr, ok := vfC46BuildRoute(r)
		if !ok {
			return vk.Result{Discard: true}
		}
		routes[i] = rr
	}
	for k := range unrel {
		named := md[k] != nil || extra[k] != nil
		for _, r := range p.Routes {
			for _, h := range r.Headers {
				named = named || h.Name == k
			}
			for _, hp := range r.Hash {
				named = named || strings.ToLower(hp.Header) == k
			}
		}
		if named {
			return vk.Result{Discard: true}
		}
	}
	// Known finding c46.fraction_off_by_one is excluded by construction here
	// (it is pinned down by the xdsresource units): the draw never equals a
	// configured fraction.
	draw := p.Draw
	res := vk.Result{}
	for changed := true; changed; {
		changed = false
		for _, r := range p.Routes {
			if r.HasFraction && int64(r.Fraction) == draw {
				draw = (draw + 1) % 1000000
				changed = true
				res.Classes = append(res.Classes, "draw_eq_fraction_avoided")
			}
		}
	}

	// what the matchers see: user metadata joined with extra metadata, without
	// "-bin" keys
	seen := map[string][]string{}
	for k, v := range metadata.Join(md, extra) {
		if !strings.HasSuffix(k, "-bin") {
			seen[k] = v
		}
	}
	want := -1
	matching := 0
	for i, r := range p.Routes {
		if vfC46RefRoute(r, p.Method, seen, draw) {
			matching++
			if want < 0 {
				want = i
			}
		}
	}
	res.Classes = append(res.Classes, fmt.Sprintf("matching_routes_%d", min(matching, 3)))
	if want > 0 {
		res.Classes = append(res.Classes, "first_match_not_route0")
	}
	res.NonTrivial = matching >= 2 || want > 0

	// --- build the selector with the real code
	oldRand := xdsresource.RandInt64n
	oldWRR := rinternal.NewWRR
	defer func() { xdsresource.RandInt64n = oldRand; rinternal.NewWRR = oldWRR }()
	xdsresource.RandInt64n = func(int64) int64 { return draw }
	var wrrs []*vfC46WRR
	rinternal.NewWRR = func() wrr.WRR {
		w := &vfC46WRR{inner: wrr.NewRandom()}
		wrrs = append(wrrs, w)
		return w
	}
	client := &vfC46Client{cfg: boot}
	dm := xdsdepmgr.New("verif-listener", "verif-authority", client, vfC46Watcher{})
	defer dm.Close()
	ctx, cancel := context.WithCancel(context.Background())
	defer cancel()
	r := &xdsResolver{
		xdsClient:      client,
		dm:             dm,
		channelID:      p.ChannelID,
		serializer:     grpcsync.NewCallbackSerializer(ctx),
		activeClusters: map[string]*clusterInfo{},
		activePlugins:  map[string]*clusterInfo{},
		xdsConfig: &xdsresource.XDSConfig{
			Listener:    &xdsresource.ListenerUpdate{APIListener: &xdsresource.HTTPConnectionManagerConfig{}},
			RouteConfig: &xdsresource.RouteConfigUpdate{},
			VirtualHost: &xdsresource.VirtualHost{Domains: []string{"*"}, Routes: routes},
		},
	}
	cs, err := r.newConfigSelector()
	if err != nil {
		return vk.Bad("newConfigSelector failed on a valid configuration: %v", err)
	}
	defer cs.stop()
	if len(wrrs) != len(p.Routes) {
		return vk.Bad("%d routes but %d WRRs created", len(p.Routes), len(wrrs))
	}
	// weights handed to the WRR of route i are the configured ones, in order
	for i, pr := range p.Routes {
		w := wrrs[i]
		if len(w.items) != len(pr.Clusters) {
			return vk.Bad("route %d: %d weighted clusters configured, %d added to the WRR", i, len(pr.Clusters), len(w.items))
		}
		for j, wc := range pr.Clusters {
			rc, ok := w.items[j].(*grpcsync.RefCounted[*routeCluster])
			if !ok {
				return vk.Bad("route %d: WRR item %d has type %T", i, j, w.items[j])
			}
			if rc.Value().name != "cluster:"+wc.Name || w.ws[j] != int64(wc.Weight) {
				return vk.Bad("route %d cluster %d: configured (%s, weight %d) but (%s, weight %d) was added to the WRR", i, j, wc.Name, wc.Weight, rc.Value().name, w.ws[j])
			}
		}
	}

	rpc := func(userMD metadata.MD) (cluster string, hash uint64, hasHash bool, err error) {
		c := metadata.NewOutgoingContext(context.Background(), userMD)
		c = grpcutil.WithExtraMetadata(c, extra)
		cfg, err := cs.SelectConfig(iresolver.RPCInfo{Context: c, Method: p.Method})
		if err != nil {
			return "", 0, false, err
		}
		if cfg.OnCommitted != nil {
			defer cfg.OnCommitted()
		}
		hash, hasHash = iringhash.XDSRequestHash(cfg.Context)
		return clustermanager.PickedCluster(cfg.Context), hash, hasHash, nil
	}

	md2 := metadata.Join(md, unrel)
	var firstHash uint64
	for k := 0; k < p.Picks; k++ {
		use := md
		if k%2 == 1 {
			use = md2 // same policy inputs, extra unrelated metadata
		}
		cluster, hash, hasHash, err := rpc(use)
		switch {
		case want < 0:
			if err == nil {
				return vk.Bad("no route matches method %q md=%v (draw %d) but SelectConfig picked cluster %q", p.Method, seen, draw, cluster)
			}
			res.Classes = append(res.Classes, "no_route")
			return res
		case p.Routes[want].Action != 0:
			if err == nil {
				return vk.Bad("first matching route %d has a non-route action but SelectConfig picked cluster %q", want, cluster)
			}
			res.Classes = append(res.Classes, "unsupported_action")
			return res
		case err != nil:
			return vk.Bad("route %d matches method %q md=%v (draw %d) but SelectConfig failed: %v", want, p.Method, seen, draw, err)
		}
		// the cluster must belong to the first matching route - and to no
		// other route's exclusive clusters
		okCluster := false
		for _, wc := range p.Routes[want].Clusters {
			okCluster = okCluster || cluster == "cluster:"+wc.Name
		}
		if !okCluster {
			return vk.Bad("first matching route is %d with clusters %v, but cluster %q was picked (method %q md=%v draw %d)", want, p.Routes[want].Clusters, cluster, p.Method, seen, draw)
		}
		if !hasHash {
			return vk.Bad("no request hash set in the RPC context")
		}
		if vfC46HashDetermined(p.Routes[want], use, extra) {
			if k == 0 {
				firstHash = hash
				res.Classes = append(res.Classes, "hash_determined")
			} else if hash != firstHash {
				return vk.Bad("request hash changed from %d to %d although only metadata unrelated to the hash policies %+v changed (md=%v unrelated=%v)", firstHash, hash, p.Routes[want].Hash, md, unrel)
			}
		} else if k == 0 {
			res.Classes = append(res.Classes, "hash_random")
		}
	}
	// distinguishing routes: at least one other route has a cluster the chosen
	// route does not have
	for i, r := range p.Routes {
		if i == want {
			continue
		}
		for _, wc := range r.Clusters {
			in := false
			for _, w2 := range p.Routes[want].Clusters {
				in = in || w2.Name == wc.Name
			}
			if !in {
				res.Classes = append(res.Classes, "cluster_distinguishes_route")
				return res
			}
		}
	}
	return res
}

func TestVerifC46Select(t *testing.T) {
	vk.Check(t, vk.Unit[vfC46SelPlan]{
		ID: "C46", Name: "select",
		Rule: "0-5 routes (prefix/exact path derived from the method in 75%, 0-2 header matchers, fraction in 1/3, action route/non-forwarding/unsupported, 1-4 weighted clusters from 5 names with weights 1..100 and extremes, 0-3 hash policies header(+regex rewrite)/channel-id, terminal flags) turned into a config selector by the real newConfigSelector (fake xDS client, recording WRR around the production random WRR, random source fixed through RandInt64n and never equal to a configured fraction); 1-6 SelectConfig calls alternating between the metadata and the metadata plus unrelated keys. non-trivial = >= 2 routes match or the first match is not route 0",
		Gen:  vfC46GenSel, Run: vfC46RunSel,
	})
}
