package resolver

// C51: a cluster stays usable until every RPC routed to it is committed.
//
// A real xdsResolver (real xDS client, real dependency manager) is built against
// the repo's in-process xDS management server on loopback TCP. The harness plays
// the channel: a recording resolver.ClientConn that swaps the config selector
// under a RWMutex exactly like grpc's safeConfigSelector does (no SelectConfig on
// a selector after a newer one was handed to the channel), and that can be made
// slow (UpdateState blocks until released). Ops: push a route configuration,
// start an RPC (SelectConfig), commit an RPC (OnCommitted, optionally twice),
// hold/release the channel. Every event goes into one totally ordered log; the
// oracle replays the log against the (service config, config selector) PAIR the
// channel holds (vfC51CheckLog). Routes may use cluster specifier plugins and a
// tracking HTTP filter observes interceptor lifetime (verif_c51_csp_test.go, which
// also holds the second unit "plugins").
//
// Waits for the management-server round trip use real time; a timed-out wait
// makes the case inconclusive (Discard), never a violation.

import (
	"context"
	"encoding/json"
	"fmt"
	"net/url"
	"os"
	"sort"
	"strings"
	"sync"
	"sync/atomic"
	"testing"
	"time"

	v3clusterpb "github.com/envoyproxy/go-control-plane/envoy/config/cluster/v3"
	v3corepb "github.com/envoyproxy/go-control-plane/envoy/config/core/v3"
	v3endpointpb "github.com/envoyproxy/go-control-plane/envoy/config/endpoint/v3"
	v3listenerpb "github.com/envoyproxy/go-control-plane/envoy/config/listener/v3"
	v3routepb "github.com/envoyproxy/go-control-plane/envoy/config/route/v3"
	"google.golang.org/grpc"
	"google.golang.org/grpc/internal"
	iresolver "google.golang.org/grpc/internal/resolver"
	"google.golang.org/grpc/internal/testutils"
	"google.golang.org/grpc/internal/testutils/xds/e2e"
	"google.golang.org/grpc/internal/verifkit/vk"
	"google.golang.org/grpc/internal/xds/balancer/clustermanager"
	"google.golang.org/grpc/internal/xds/httpfilter"
	rinternal "google.golang.org/grpc/internal/xds/resolver/internal"
	"google.golang.org/grpc/internal/xds/xdsclient/xdsresource"
	"google.golang.org/grpc/resolver"
	"google.golang.org/grpc/serviceconfig"
	"google.golang.org/protobuf/types/known/durationpb"
	"google.golang.org/protobuf/types/known/wrapperspb"
	"pgregory.net/rapid"
)

const (
	vfC51Service   = "c51-service"
	vfC51RouteName = "c51-route"
	vfC51Wait      = 10 * time.Second
)

var (
	vfC51Clusters = []string{"A", "B", "C"}
	vfC51Plugins  = []string{"cspP", "cspQ", "cspR"} // cluster specifier plugin names
	vfC51Prefixes = []string{"/s0/", "/s1/"}         // the catch-all route "" is always appended
)

// ------------------------------------------------------------------ plan

type vfC51Route struct {
	Clusters []int `json:"clusters"` // indices into the pool, distinct
	Weights  []int `json:"weights"`
	// Plugin > 0: the route action is cluster_specifier_plugin vfC51Plugins[Plugin-1]
	// (Clusters/Weights are ignored); Cfg selects the plugin's configuration variant
	// (the first route naming a plugin decides its configuration in that push).
	Plugin int `json:"plugin,omitempty"`
	Cfg    int `json:"cfg,omitempty"`
	// Plain: a single cluster sent as RouteAction.cluster instead of weighted_clusters.
	Plain bool `json:"plain,omitempty"`
}

type vfC51Op struct {
	Kind   string       `json:"kind"`             // push rpc commit hold release
	Routes []vfC51Route `json:"routes,omitempty"` // push/hold: routes for /s0/, /s1/ (optional) and the catch-all (last)
	Method int          `json:"method,omitempty"` // rpc: 0 -> /s0/m, 1 -> /s1/m, 2 -> /other/m
	RPC    int          `json:"rpc,omitempty"`    // commit: k-th uncommitted RPC (modulo)
	Twice  bool         `json:"twice,omitempty"`  // commit: call OnCommitted a second time
}

type vfC51Plan struct {
	Init []vfC51Route `json:"init"`
	Ops  []vfC51Op    `json:"ops"`
}

func vfC51GenRoutes(rt *rapid.T, bias []int) []vfC51Route {
	n := rapid.IntRange(1, 3).Draw(rt, "nroutes")
	out := make([]vfC51Route, n)
	for i := range out {
		k := rapid.SampledFrom([]int{1, 1, 1, 2}).Draw(rt, "nclusters")
		perm := rapid.Permutation([]int{0, 1, 2}).Draw(rt, "clusters")
		if len(bias) > 0 && rapid.Bool().Draw(rt, "use_bias") {
			perm = bias
		}
		out[i].Clusters = append([]int(nil), perm[:min(k, len(perm))]...)
		for range out[i].Clusters {
			out[i].Weights = append(out[i].Weights, rapid.IntRange(1, 3).Draw(rt, "w"))
		}
	}
	return out
}

// vfC51GenScenario builds the remove / re-add skeleton around two clusters x, y
// with drawn variations: k RPCs on x, x leaves the routes, (optionally) the
// channel is parked inside UpdateState, x comes back, the RPCs on x commit, the
// channel is released, a new RPC goes to x, x leaves again.
func vfC51GenScenario(rt *rapid.T) vfC51Plan {
	perm := rapid.Permutation([]int{0, 1, 2}).Draw(rt, "xy")
	x, y := perm[0], perm[1]
	one := func(c int) vfC51Route {
		return vfC51Route{Clusters: []int{c}, Weights: []int{rapid.IntRange(1, 3).Draw(rt, "w")}}
	}
	p := vfC51Plan{Init: []vfC51Route{one(x)}}
	add := func(op vfC51Op) { p.Ops = append(p.Ops, op) }
	k := rapid.IntRange(1, 3).Draw(rt, "k")
	for i := 0; i < k; i++ {
		add(vfC51Op{Kind: "rpc", Method: rapid.IntRange(0, 2).Draw(rt, "m")})
	}
	add(vfC51Op{Kind: "push", Routes: []vfC51Route{one(y)}})
	if rapid.Bool().Draw(rt, "noise_rpc") {
		add(vfC51Op{Kind: "rpc", Method: 2})
	}
	hold := rapid.IntRange(0, 3).Draw(rt, "hold") > 0
	if hold {
		add(vfC51Op{Kind: "hold", Routes: []vfC51Route{one(y)}})
	}
	readd := rapid.IntRange(0, 4).Draw(rt, "readd") > 0
	commitFirst := rapid.IntRange(0, 3).Draw(rt, "commit_first") == 0
	commits := func() {
		n := k
		if rapid.IntRange(0, 3).Draw(rt, "partial") == 0 {
			n = rapid.IntRange(0, k).Draw(rt, "ncommit")
		}
		for i := 0; i < n; i++ {
			add(vfC51Op{Kind: "commit", RPC: 0, Twice: rapid.IntRange(0, 4).Draw(rt, "twice") == 0})
		}
	}
	if commitFirst {
		commits()
	}
	if readd {
		add(vfC51Op{Kind: "push", Routes: []vfC51Route{one(x), one(y)}})
	}
	if !commitFirst {
		commits()
	}
	if hold {
		if rapid.Bool().Draw(rt, "rpc_held") {
			add(vfC51Op{Kind: "rpc", Method: 2})
		}
		add(vfC51Op{Kind: "release"})
	}
	n := rapid.IntRange(0, 2).Draw(rt, "late_rpcs")
	for i := 0; i < n; i++ {
		add(vfC51Op{Kind: "rpc", Method: 0})
	}
	add(vfC51Op{Kind: "push", Routes: []vfC51Route{one(y)}})
	if rapid.Bool().Draw(rt, "tail_rpc") {
		add(vfC51Op{Kind: "rpc", Method: 1})
	}
	return p
}

func vfC51Gen(rt *rapid.T) vfC51Plan {
	if rapid.IntRange(0, 9).Draw(rt, "mode") < 4 {
		return vfC51GenScenario(rt)
	}
	var p vfC51Plan
	p.Init = vfC51GenRoutes(rt, nil)
	n := rapid.IntRange(6, vk.Pick(14, 40)).Draw(rt, "nops")
	held := false
	for i := 0; i < n; i++ {
		kinds := []string{"rpc", "rpc", "rpc", "rpc", "rpc", "push", "push", "push", "commit", "commit", "hold"}
		if held {
			kinds = []string{"rpc", "rpc", "push", "push", "commit", "commit", "commit", "release"}
		}
		op := vfC51Op{Kind: rapid.SampledFrom(kinds).Draw(rt, "kind")}
		switch op.Kind {
		case "rpc":
			op.Method = rapid.SampledFrom([]int{0, 1, 2, 2, 2}).Draw(rt, "method")
		case "push", "hold":
			// a small pool makes removal and re-adding frequent; often a single cluster everywhere
			var bias []int
			if rapid.IntRange(0, 3).Draw(rt, "single") > 0 {
				bias = []int{rapid.IntRange(0, 2).Draw(rt, "only")}
			}
			op.Routes = vfC51GenRoutes(rt, bias)
			if op.Kind == "hold" {
				held = true
			}
		case "commit":
			op.RPC = rapid.IntRange(0, 7).Draw(rt, "rpc")
			op.Twice = rapid.IntRange(0, 3).Draw(rt, "twice") == 0
		case "release":
			held = false
		}
		p.Ops = append(p.Ops, op)
	}
	return p
}

// ------------------------------------------------------------------ management server (shared infrastructure, state per node id)

var (
	vfC51Once   sync.Once
	vfC51Server *e2e.ManagementServer
	vfC51Seq    atomic.Int64
)

func vfC51Mgmt(t *testing.T) *e2e.ManagementServer {
	vfC51Once.Do(func() {
		vfC51Server = e2e.StartManagementServer(t, e2e.ManagementServerOptions{AllowResourceSubset: true})
	})
	return vfC51Server
}

func vfC51RouteConfig(routes []vfC51Route, marker int) *v3routepb.RouteConfiguration {
	var rs []*v3routepb.Route
	var csps []*v3routepb.ClusterSpecifierPlugin
	declared := map[string]bool{}
	for i, r := range routes {
		prefix := ""
		if i < len(routes)-1 {
			prefix = vfC51Prefixes[i%len(vfC51Prefixes)]
		}
		action := &v3routepb.RouteAction{
			// the marker identifies which route configuration a pushed state is based on
			MaxStreamDuration: &v3routepb.RouteAction_MaxStreamDuration{MaxStreamDuration: durationpb.New(time.Duration(marker) * time.Millisecond)},
		}
		switch name := vfC51PluginName(r); {
		case name != "":
			// gRFC A28: the plugin is declared once per RouteConfiguration (name + typed
			// config) and referenced by name from the route action.
			if !declared[name] {
				declared[name] = true
				csps = append(csps, &v3routepb.ClusterSpecifierPlugin{Extension: &v3corepb.TypedExtensionConfig{
					Name:        name,
					TypedConfig: vfC51MarshalAny(&wrapperspb.BytesValue{Value: []byte(fmt.Sprintf("%s-cfg%d", name, r.Cfg))}),
				}})
			}
			action.ClusterSpecifier = &v3routepb.RouteAction_ClusterSpecifierPlugin{ClusterSpecifierPlugin: name}
		case r.Plain && len(r.Clusters) >= 1:
			action.ClusterSpecifier = &v3routepb.RouteAction_Cluster{Cluster: vfC51Clusters[((r.Clusters[0]%3)+3)%3]}
		default:
			wc := &v3routepb.WeightedCluster{}
			for j, c := range r.Clusters {
				w := 1
				if j < len(r.Weights) {
					w = max(1, r.Weights[j])
				}
				wc.Clusters = append(wc.Clusters, &v3routepb.WeightedCluster_ClusterWeight{Name: vfC51Clusters[((c%3)+3)%3], Weight: wrapperspb.UInt32(uint32(w))})
			}
			action.ClusterSpecifier = &v3routepb.RouteAction_WeightedClusters{WeightedClusters: wc}
		}
		rs = append(rs, &v3routepb.Route{
			Match:  &v3routepb.RouteMatch{PathSpecifier: &v3routepb.RouteMatch_Prefix{Prefix: prefix}},
			Action: &v3routepb.Route_Route{Route: action},
		})
	}
	return &v3routepb.RouteConfiguration{Name: vfC51RouteName, ClusterSpecifierPlugins: csps,
		VirtualHosts: []*v3routepb.VirtualHost{{Domains: []string{vfC51Service}, Routes: rs}}}
}

// vfC51PluginName returns the plugin a route refers to ("" for cluster routes).
func vfC51PluginName(r vfC51Route) string {
	if r.Plugin <= 0 {
		return ""
	}
	return vfC51Plugins[(r.Plugin-1)%len(vfC51Plugins)]
}

// vfC51RouteClusters returns the cluster-manager children ("cluster:NAME" /
// "cluster_specifier_plugin:NAME") a route configuration refers to.
func vfC51RouteClusters(routes []vfC51Route) map[string]bool {
	out := map[string]bool{}
	for _, r := range routes {
		if name := vfC51PluginName(r); name != "" {
			out[clusterSpecifierPluginPrefix+name] = true
			continue
		}
		cl := r.Clusters
		if r.Plain && len(cl) > 1 {
			cl = cl[:1]
		}
		for _, c := range cl {
			out[clusterPrefix+vfC51Clusters[((c%3)+3)%3]] = true
		}
	}
	return out
}

// ------------------------------------------------------------------ the recording channel

type vfC51Event struct {
	kind     string // state select commit iclose hold release
	children map[string]bool
	xdsOK    map[string]bool   // clusters with a usable entry in the XDSConfig attached to the state
	xdsErr   map[string]string // clusters whose entry in that XDSConfig carries a resource error (reported by the xDS client)
	marker   int
	rpc      int
	cluster  string
	empty    bool            // state without cluster-manager config (error path)
	routes   map[string]bool // state: children the routes of the state's XDSConfig (= of its selector) refer to
	icpt     int             // select: id of the HTTP-filter interceptor the RPC is bound to (0 = none); iclose: the interceptor closed
}

type vfC51SC struct {
	serviceconfig.Config
	js string
}

type vfC51CC struct {
	resolver.ClientConn // nil: NewAddress is never called by the xds resolver

	sel sync.RWMutex // write-held while the channel swaps the selector (safeConfigSelector)

	mu       sync.Mutex
	log      []vfC51Event
	latest   iresolver.ConfigSelector
	marker   int
	children map[string]bool
	// clusters referenced by the routes of the latest state's XDSConfig
	routeClusters map[string]bool
	errs          []error
	icptSeq       int // interceptors built so far for this channel (ids 1, 2, ...)
	holdNext      bool
	blocked       chan struct{} // closed when an UpdateState call is parked
	release       chan struct{}
	notify        chan struct{}
}

func (c *vfC51CC) ParseServiceConfig(js string) *serviceconfig.ParseResult {
	return &serviceconfig.ParseResult{Config: &vfC51SC{js: js}}
}

func (c *vfC51CC) ReportError(err error) {
	c.mu.Lock()
	c.errs = append(c.errs, err)
	c.mu.Unlock()
}

func (c *vfC51CC) UpdateState(s resolver.State) error {
	// a slow channel: park before the new selector becomes visible
	c.mu.Lock()
	var rel chan struct{}
	if c.holdNext {
		c.holdNext = false
		rel = c.release
		close(c.blocked)
	}
	c.mu.Unlock()
	if rel != nil {
		<-rel
	}

	ev := vfC51Event{kind: "state", children: map[string]bool{}, xdsOK: map[string]bool{}, xdsErr: map[string]string{}}
	if s.ServiceConfig != nil {
		if sc, ok := s.ServiceConfig.Config.(*vfC51SC); ok {
			var parsed struct {
				LB []map[string]struct {
					Children map[string]json.RawMessage `json:"children"`
				} `json:"loadBalancingConfig"`
			}
			if err := json.Unmarshal([]byte(sc.js), &parsed); err == nil && len(parsed.LB) > 0 {
				if cm, ok := parsed.LB[0][xdsClusterManagerName]; ok {
					for k := range cm.Children {
						ev.children[k] = true
					}
				} else {
					ev.empty = true
				}
			} else {
				ev.empty = true
			}
		}
	}
	if xc := xdsresource.XDSConfigFromResolverState(s); xc != nil {
		for name, cr := range xc.Clusters {
			if cr != nil && cr.Err == nil {
				ev.xdsOK[clusterPrefix+name] = true
			} else if cr != nil {
				ev.xdsErr[clusterPrefix+name] = cr.Err.Error()
			}
		}
		if xc.VirtualHost != nil && len(xc.VirtualHost.Routes) > 0 && xc.VirtualHost.Routes[0].MaxStreamDuration != nil {
			ev.marker = int(*xc.VirtualHost.Routes[0].MaxStreamDuration / time.Millisecond)
		}
	}
	cs := iresolver.GetConfigSelector(s)
	rcl := map[string]bool{}
	if xc := xdsresource.XDSConfigFromResolverState(s); xc != nil && xc.VirtualHost != nil {
		for _, rt := range xc.VirtualHost.Routes {
			for _, wc := range rt.WeightedClusters {
				rcl[clusterPrefix+wc.Name] = true
			}
			if rt.ClusterSpecifierPlugin != "" {
				rcl[clusterSpecifierPluginPrefix+rt.ClusterSpecifierPlugin] = true
			}
		}
	}

	ev.routes = rcl
	c.sel.Lock()
	c.mu.Lock()
	c.log = append(c.log, ev)
	c.latest, c.marker, c.children, c.routeClusters = cs, ev.marker, ev.children, rcl
	c.mu.Unlock()
	c.sel.Unlock()
	select {
	case c.notify <- struct{}{}:
	default:
	}
	return nil
}

// waitFor blocks until cond holds for the latest state or the real-time budget is spent.
func (c *vfC51CC) waitFor(cond func(marker int, children map[string]bool) bool) bool {
	deadline := time.NewTimer(vfC51Wait)
	defer deadline.Stop()
	for {
		c.mu.Lock()
		ok := c.latest != nil && cond(c.marker, c.children)
		c.mu.Unlock()
		if ok {
			return true
		}
		select {
		case <-c.notify:
		case <-deadline.C:
			return false
		}
	}
}

func vfC51SameSet(a, b map[string]bool) bool {
	if len(a) != len(b) {
		return false
	}
	for k := range a {
		if !b[k] {
			return false
		}
	}
	return true
}

func vfC51Keys(m map[string]bool) string {
	var ks []string
	for k := range m {
		if strings.HasPrefix(k, clusterSpecifierPluginPrefix) {
			k = "csp:" + strings.TrimPrefix(k, clusterSpecifierPluginPrefix)
		}
		ks = append(ks, strings.TrimPrefix(k, clusterPrefix))
	}
	sort.Strings(ks)
	return "{" + strings.Join(ks, ",") + "}"
}

// ------------------------------------------------------------------ run

type vfC51RPC struct {
	cluster   string
	commit    func()
	committed bool
}

func vfC51Run(t *testing.T, p vfC51Plan) (res vk.Result) {
	mgmt := vfC51Mgmt(t)
	nodeID := fmt.Sprintf("c51-%d-%d", os.Getpid(), vfC51Seq.Add(1))
	ctx, cancel := context.WithTimeout(context.Background(), 4*vfC51Wait)
	defer cancel()

	// The listener carries the harness' tracking HTTP filter (verif_c51_csp_test.go) in
	// front of the router filter: every route cluster of every config selector gets its
	// own interceptor instance whose Close is logged, and an RPC learns the instance it
	// is bound to by calling RPCConfig.Interceptor.NewStream like the channel does.
	listeners := []*v3listenerpb.Listener{vfC51Listener(nodeID)}
	var clusters []*v3clusterpb.Cluster
	var endpoints []*v3endpointpb.ClusterLoadAssignment
	for i, c := range vfC51Clusters {
		clusters = append(clusters, e2e.DefaultCluster(c, "eds-"+c, e2e.SecurityLevelNone))
		endpoints = append(endpoints, e2e.DefaultEndpoint("eds-"+c, "localhost", []uint32{uint32(18080 + i)}))
	}
	marker := 1
	push := func(routes []vfC51Route) error {
		return mgmt.Update(ctx, e2e.UpdateOptions{NodeID: nodeID, Listeners: listeners, Clusters: clusters, Endpoints: endpoints,
			Routes: []*v3routepb.RouteConfiguration{vfC51RouteConfig(routes, marker)}, SkipValidation: true})
	}
	if len(p.Init) == 0 {
		return vk.Result{Discard: true}
	}
	for _, r := range p.Init {
		if r.Plugin <= 0 && len(r.Clusters) == 0 {
			return vk.Result{Discard: true}
		}
	}
	for _, op := range p.Ops {
		for _, r := range op.Routes {
			if r.Plugin <= 0 && len(r.Clusters) == 0 {
				return vk.Result{Discard: true}
			}
		}
	}
	if err := push(p.Init); err != nil {
		return vk.Result{Discard: true, Classes: []string{"inconclusive:mgmt_update"}}
	}

	cc := &vfC51CC{notify: make(chan struct{}, 1), blocked: make(chan struct{}), release: make(chan struct{})}
	vfC51Channels.Store(nodeID, cc)
	defer vfC51Channels.Delete(nodeID)
	builder, err := internal.NewXDSResolverWithConfigForTesting.(func([]byte) (resolver.Builder, error))(e2e.DefaultBootstrapContents(t, nodeID, mgmt.Address))
	if err != nil {
		return vk.Result{Discard: true, Classes: []string{"inconclusive:builder"}}
	}
	target := resolver.Target{URL: *testutils.MustParseURL("xds:///" + vfC51Service)}
	rr, err := builder.Build(target, cc, resolver.BuildOptions{Authority: url.PathEscape(target.Endpoint())})
	if err != nil {
		return vk.Result{Discard: true, Classes: []string{"inconclusive:build"}}
	}
	xr := rr.(*xdsResolver)
	held := false
	unhold := func() {
		if held {
			// the parked UpdateState logs its state right after this event
			cc.mu.Lock()
			cc.log = append(cc.log, vfC51Event{kind: "release"})
			cc.mu.Unlock()
			close(cc.release)
			held = false
		}
		cc.mu.Lock()
		cc.holdNext = false
		cc.mu.Unlock()
	}
	defer func() {
		unhold()
		rr.Close()
	}()
	inconclusive := func(why string) vk.Result {
		fmt.Fprintf(os.Stderr, "VFC51-INCONCLUSIVE %s node=%s\n", why, nodeID)
		return vk.Result{Discard: true, Classes: []string{"inconclusive:" + why}}
	}
	// flush waits until the resolver's serializer has run everything queued so far.
	flush := func() bool {
		done := make(chan struct{})
		failed := false
		xr.serializer.ScheduleOr(func(context.Context) { close(done) }, func() { failed = true })
		if failed {
			return false
		}
		select {
		case <-done:
			return true
		case <-time.After(vfC51Wait):
			return false
		}
	}
	// settle: the Update callback that pushed a state stops the old selector after
	// UpdateState returned, and that may queue a prune push (plugin refcount -> 0).
	// The first flush ends after that callback, the second after what it queued.
	settle := func() bool { return flush() && flush() }
	waitMarker := func() bool {
		want := marker
		return cc.waitFor(func(m int, _ map[string]bool) bool { return m == want })
	}
	if !waitMarker() {
		return inconclusive("initial_state")
	}

	cur := vfC51RouteClusters(p.Init) // clusters of the last pushed route configuration
	var rpcs []*vfC51RPC
	uncommitted := func() []int {
		var idx []int
		for i, r := range rpcs {
			if !r.committed {
				idx = append(idx, i)
			}
		}
		return idx
	}
	cls := map[string]bool{}
	nt := false
	removedWith2 := map[string]bool{} // removed from the routes while >= 2 uncommitted RPCs reference it
	// plugins that left the routes while >= 1 uncommitted RPC referenced them (and did not come back since)
	pluginRemovedWithRPC := map[string]bool{}
	applyPush := func(routes []vfC51Route) {
		next := vfC51RouteClusters(routes)
		for c := range cur {
			if next[c] {
				continue
			}
			n := 0
			for _, i := range uncommitted() {
				if rpcs[i].cluster == c {
					n++
				}
			}
			if n >= 1 {
				cls["removed_with_uncommitted_rpc"] = true
			}
			if strings.HasPrefix(c, clusterSpecifierPluginPrefix) {
				cls["plugin_removed"] = true
				if n >= 1 {
					pluginRemovedWithRPC[c] = true
					cls["plugin_removed_with_uncommitted_rpc"] = true
				} else {
					cls["plugin_removed_idle"] = true
				}
			}
			if n >= 2 {
				nt = true
				removedWith2[c] = true
				cls["removed_with>=2_uncommitted"] = true
			}
		}
		for c := range next {
			if !cur[c] && strings.HasPrefix(c, clusterSpecifierPluginPrefix) {
				if pluginRemovedWithRPC[c] {
					cls["plugin_readded_before_prune_or_commit"] = true
				}
				delete(pluginRemovedWithRPC, c)
			}
			if !cur[c] && removedWith2[c] {
				n := 0
				for _, i := range uncommitted() {
					if rpcs[i].cluster == c {
						n++
					}
				}
				if n >= 1 {
					cls["readded_before_commit"] = true
				}
			}
		}
		cur = next
	}
	logEv := func(ev vfC51Event) {
		cc.mu.Lock()
		cc.log = append(cc.log, ev)
		cc.mu.Unlock()
	}
	// released[X]: the last open RPC on X was committed while the selector the
	// channel was using did not route to X any more, i.e. the resolver dropped its
	// last reference (and its cluster subscription) for X at that moment.
	released := map[string]bool{}
	doCommit := func(i int, twice bool) {
		r := rpcs[i]
		others := 0
		for _, j := range uncommitted() {
			if j != i && rpcs[j].cluster == r.cluster {
				others++
			}
		}
		cc.mu.Lock()
		inLatest := cc.routeClusters[r.cluster]
		cc.mu.Unlock()
		if others == 0 && !inLatest {
			released[r.cluster] = true
		}
		logEv(vfC51Event{kind: "commit", rpc: i, cluster: r.cluster}) // logged before the effect
		r.committed = true
		r.commit()
		if twice {
			r.commit()
			cls["committed_twice"] = true
		}
	}

	steps := 0
	for _, op := range p.Ops {
		steps++
		switch op.Kind {
		case "push", "hold":
			if len(op.Routes) == 0 {
				continue
			}
			if op.Kind == "hold" && !held {
				cc.mu.Lock()
				cc.log = append(cc.log, vfC51Event{kind: "hold"})
				cc.holdNext = true
				cc.blocked = make(chan struct{})
				cc.release = make(chan struct{})
				blocked := cc.blocked
				cc.mu.Unlock()
				marker++
				if err := push(op.Routes); err != nil {
					return inconclusive("mgmt_update")
				}
				applyPush(op.Routes)
				held = true
				select {
				case <-blocked:
					cls["channel_held"] = true
				case <-time.After(vfC51Wait):
					return inconclusive("hold_not_reached")
				}
				continue
			}
			marker++
			if err := push(op.Routes); err != nil {
				return inconclusive("mgmt_update")
			}
			applyPush(op.Routes)
			if held {
				// cannot observe the result while the channel is parked; give the xDS
				// client a moment so that later ops interleave with a queued update
				// (only shapes the schedule, never a verdict)
				time.Sleep(15 * time.Millisecond)
				cls["push_while_held"] = true
				continue
			}
			if !waitMarker() {
				return inconclusive("push_wait")
			}
			if !settle() {
				return inconclusive("push_settle")
			}
		case "rpc":
			method := []string{"/s0/m", "/s1/m", "/other/m"}[((op.Method%3)+3)%3]
			cc.sel.RLock()
			cc.mu.Lock()
			cs := cc.latest
			cc.mu.Unlock()
			var rc *iresolver.RPCConfig
			var err error
			if cs != nil {
				rc, err = cs.SelectConfig(iresolver.RPCInfo{Context: context.Background(), Method: method})
			}
			if cs == nil || err != nil || rc == nil {
				cc.sel.RUnlock()
				return vk.Bad("SelectConfig(%s) on the latest selector failed: %v", method, err)
			}
			cl := clustermanager.PickedCluster(rc.Context)
			// which interceptor instance is the RPC bound to? ask it the way the channel
			// uses it: NewStream (with a stream constructor that creates nothing)
			probe := &vfC51Probe{}
			if ic, ok := rc.Interceptor.(httpfilter.ClientInterceptor); ok {
				ic.NewStream(context.WithValue(context.Background(), vfC51ProbeKey{}, probe), iresolver.RPCInfo{Method: method},
					func(context.Context, ...grpc.CallOption) (grpc.ClientStream, error) { return nil, nil })
			}
			rpcs = append(rpcs, &vfC51RPC{cluster: cl, commit: rc.OnCommitted})
			logEv(vfC51Event{kind: "select", rpc: len(rpcs) - 1, cluster: cl, icpt: probe.id})
			cc.mu.Lock()
			for pl := range pluginRemovedWithRPC {
				// the channel already holds a config from which the removed plugin was pruned
				if !cc.children[pl] {
					cls["rpc_after_plugin_prune"] = true
				}
			}
			cc.mu.Unlock()
			cc.sel.RUnlock()
			if probe.id == 0 {
				return inconclusive("rpc_config_without_tracking_interceptor")
			}
			if strings.HasPrefix(cl, clusterSpecifierPluginPrefix) {
				cls["rpc_on_plugin"] = true
			}
			if rc.OnCommitted == nil {
				return vk.Bad("SelectConfig(%s) returned no OnCommitted hook", method)
			}
			if held {
				cls["rpc_while_held"] = true
			}
		case "commit":
			u := uncommitted()
			if len(u) == 0 {
				continue
			}
			doCommit(u[((op.RPC%len(u))+len(u))%len(u)], op.Twice)
			if held {
				cls["commit_while_held"] = true
			} else if !flush() {
				return inconclusive("flush")
			}
		case "release":
			if !held {
				continue
			}
			unhold()
			if !waitMarker() {
				return inconclusive("release_wait")
			}
			if !settle() {
				return inconclusive("release_settle")
			}
		}
	}
	// wind down: release, let the last route configuration arrive, finish every RPC
	if held {
		unhold()
	}
	if !waitMarker() {
		return inconclusive("final_marker")
	}
	if !settle() {
		return inconclusive("final_settle")
	}
	// first look at the log with the RPCs that are still open
	verdict := func() *vk.Result {
		v, dropped, env := vfC51CheckLog(cc)
		if env != "" {
			// the xDS client reported a resource error for a cluster the management
			// server serves all the time (a transport-level artefact of the in-process
			// server): outside the generated domain, like every other resource error
			r := inconclusive("cluster_resource_error " + env)
			return &r
		}
		if v == "" {
			return nil
		}
		r := vk.Bad("%s", v)
		if dropped != "" && released[dropped] {
			// known shape: the resolver released its subscription for the cluster when
			// the last RPC committed, then revived the not-yet-pruned entry for a
			// route configuration that re-added the cluster
			r.Sig = "c51.released_cluster_entry_revived"
		} else if dropped != "" && vfC51DeadEntryRevived(cc, dropped) {
			// every other way to the same root cause (notes/C51.md): the entry died by
			// stop() of the replaced selector, or by a commit while the channel was
			// parked, ... and was revived by a queued route update
			r.Sig = "c51.dead_cluster_entry_revived"
		}
		return &r
	}
	if r := verdict(); r != nil {
		return *r
	}
	for _, i := range uncommitted() {
		doCommit(i, false)
	}
	if !flush() {
		return inconclusive("final_flush")
	}
	want := cur
	converged := cc.waitFor(func(m int, ch map[string]bool) bool { return m == marker && vfC51SameSet(ch, want) })
	if r := verdict(); r != nil {
		return *r
	}
	cc.mu.Lock()
	nerr := len(cc.errs)
	lastChildren := cc.children
	cc.mu.Unlock()
	if nerr > 0 {
		return inconclusive("resolver_reported_error")
	}
	if !converged {
		// not a verdict by itself (real-time wait), but reported for the floor
		pj, _ := json.Marshal(p)
		return inconclusive("no_convergence have=" + vfC51Keys(lastChildren) + " want=" + vfC51Keys(want) + " plan=" + string(pj))
	}
	// white-box, read-only, inside the serializer: refcounts after everything is committed
	type snap struct {
		name string
		ref  int32
	}
	var snaps []snap
	done := make(chan struct{})
	snapFailed := false
	xr.serializer.ScheduleOr(func(context.Context) {
		for name, ci := range xr.activeClusters {
			snaps = append(snaps, snap{name, ci.refCount.Load()})
		}
		for name, ci := range xr.activePlugins {
			snaps = append(snaps, snap{name, ci.refCount.Load()})
		}
		close(done)
	}, func() { snapFailed = true })
	if snapFailed {
		return inconclusive("snapshot")
	}
	select {
	case <-done:
	case <-time.After(vfC51Wait):
		return inconclusive("snapshot")
	}
	for _, s := range snaps {
		if !want[s.name] {
			return vk.Bad("after all RPCs were committed child %s is still active (refcount %d) although the routes only use %s", s.name, s.ref, vfC51Keys(want))
		}
		if s.ref != 1 {
			return vk.Bad("after all RPCs were committed child %s has refcount %d, want 1 (the config selector's reference): a commit hook ran more or less than once", s.name, s.ref)
		}
	}
	if len(snaps) != len(want) {
		return vk.Bad("active clusters and plugins %v, routes use %s", snaps, vfC51Keys(want))
	}
	if len(rpcs) >= 2 {
		cls["rpcs>=2"] = true
	}
	res = vk.Result{NonTrivial: nt, Steps: steps}
	for k := range cls {
		res.Classes = append(res.Classes, k)
	}
	return res
}

// vfC51CheckLog replays the event log against what the channel really holds: the
// latest (service config, config selector) PAIR delivered by one UpdateState.
//   - An RPC is routed by the selector of the latest pair; the cluster-manager
//     child it picks must be a child in the service config of that same pair.
//   - Every later state must keep (as a cluster-manager child, for clusters also
//     with usable cluster data) every child picked by an RPC that was selected
//     before and is not yet committed.
//   - The interceptor an RPC is bound to must be alive when the RPC is selected
//     (a selector delivered to the channel must not be a stopped one) and must not
//     be closed before the RPC is committed.
func vfC51CheckLog(cc *vfC51CC) (msg string, watchDropped string, env string) {
	cc.mu.Lock()
	log := append([]vfC51Event(nil), cc.log...)
	cc.mu.Unlock()
	open := map[int]string{}
	openIcpt := map[int]int{}
	closed := map[int]int{} // interceptor id -> event index of its Close
	var held *vfC51Event    // the pair the channel holds
	heldAt := -1
	for i, ev := range log {
		switch ev.kind {
		case "select":
			if held != nil && !held.empty && !held.children[ev.cluster] {
				return fmt.Sprintf("event %d: RPC #%d was routed to %s by the config selector the channel holds, but the service config delivered together with that selector (event %d) has children %s: the RPC's cluster is not in the channel's configuration", i, ev.rpc, ev.cluster, heldAt, vfC51Keys(held.children)), "", ""
			}
			if at, ok := closed[ev.icpt]; ok && ev.icpt != 0 {
				return fmt.Sprintf("event %d: RPC #%d routed to %s got interceptor #%d, which was closed at event %d: the config selector the channel holds (delivered at event %d) is a stopped one", i, ev.rpc, ev.cluster, ev.icpt, at, heldAt), "", ""
			}
			open[ev.rpc] = ev.cluster
			openIcpt[ev.rpc] = ev.icpt
		case "commit":
			delete(open, ev.rpc)
			delete(openIcpt, ev.rpc)
		case "iclose":
			if _, dup := closed[ev.icpt]; !dup {
				closed[ev.icpt] = i
			}
			for rpc := 0; rpc < len(log); rpc++ {
				if id, ok := openIcpt[rpc]; ok && id == ev.icpt {
					return fmt.Sprintf("event %d: interceptor #%d was closed but RPC #%d routed to %s, which uses it, is not committed yet", i, ev.icpt, rpc, open[rpc]), "", ""
				}
			}
		case "state":
			held, heldAt = &log[i], i
			if ev.empty {
				continue // error path (resource removed / NACK): outside the generated domain
			}
			ids := make([]int, 0, len(open))
			for rpc := range open {
				ids = append(ids, rpc)
			}
			sort.Ints(ids)
			for _, rpc := range ids {
				cl := open[rpc]
				if !ev.children[cl] {
					return fmt.Sprintf("event %d: service config pushed to the channel has children %s but RPC #%d routed to %s is not committed yet", i, vfC51Keys(ev.children), rpc, cl), "", ""
				}
				if e, ok := ev.xdsErr[cl]; ok && strings.HasPrefix(cl, clusterPrefix) {
					return "", "", fmt.Sprintf("event %d: %s: %s", i, cl, e)
				}
				if strings.HasPrefix(cl, clusterPrefix) && !ev.xdsOK[cl] {
					return fmt.Sprintf("event %d: state pushed to the channel keeps child %s for uncommitted RPC #%d but its XDSConfig has no usable cluster entry for it (clusters with data: %s): the cluster's CDS/EDS watch was dropped", i, cl, rpc, vfC51Keys(ev.xdsOK)), cl, ""
				}
			}
		}
	}
	return "", "", ""
}

// vfC51DeadEntryRevived is the signature predicate for the general shape of the
// stale-entry defect on cluster x, from the event log and a reference model of the
// resolver's reference count: refs(x) = number of open RPCs on x + number of live
// config selectors routing to x. Live selectors are the one the channel holds and,
// while the channel is parked, also the selector of the parked state (built when
// the channel was parked, logged on release); queued route updates have not built
// a selector yet. The predicate holds iff at some point refs(x) was 0 while x was
// still a cluster-manager child (a dead entry: its cluster subscription is
// released), x then stayed a child in every state (never pruned), and a later
// state's selector routes to x again (the dead entry was revived).
func vfC51DeadEntryRevived(cc *vfC51CC, x string) bool {
	cc.mu.Lock()
	log := append([]vfC51Event(nil), cc.log...)
	cc.mu.Unlock()
	// the state logged first after a release is the one that was parked
	parkedOf := map[int]*vfC51Event{} // index of a hold event -> parked state
	lastHold := -1
	afterRelease := false
	for i := range log {
		switch log[i].kind {
		case "hold":
			lastHold = i
		case "release":
			afterRelease = true
		case "state":
			if afterRelease && lastHold >= 0 {
				parkedOf[lastHold] = &log[i]
			}
			afterRelease = false
		}
	}
	open := map[int]string{}
	var visible, parked *vfC51Event
	dead := false
	check := func() {
		if dead || visible == nil || !visible.children[x] {
			return
		}
		if visible.routes[x] || (parked != nil && parked.routes[x]) {
			return
		}
		for _, cl := range open {
			if cl == x {
				return
			}
		}
		dead = true
	}
	for i := range log {
		ev := &log[i]
		switch ev.kind {
		case "hold":
			parked = parkedOf[i] // nil if the run ended before a release
			if parked == nil {
				return false // cannot model the parked selector
			}
		case "select":
			open[ev.rpc] = ev.cluster
		case "commit":
			delete(open, ev.rpc)
			check()
		case "state":
			if ev.empty {
				continue
			}
			if parked == ev {
				parked = nil
			}
			if dead && !ev.children[x] {
				dead = false // pruned: a later entry for x is a fresh one
			}
			if dead && ev.routes[x] {
				return true
			}
			visible = ev
			check() // stop() of the replaced selector
		}
	}
	return false
}

func TestVerifC51(t *testing.T) {
	orig := rinternal.NewWRR
	rinternal.NewWRR = testutils.NewTestWRR
	defer func() { rinternal.NewWRR = orig }()
	vk.Check(t, vk.Unit[vfC51Plan]{
		ID: "C51", Name: "lifetime",
		Rule: "real xdsResolver + xDS client against the in-process management server; route configurations of 1-3 routes over a pool of 3 clusters (1-2 weighted clusters per route, deterministic WRR), 4-12 ops (40 thorough): start RPC, commit k-th open RPC (a quarter of them twice), push routes (often collapsing to one cluster so that removal and re-adding are frequent), hold the channel inside UpdateState while further pushes/commits/RPCs happen, release. non-trivial = a cluster was removed from the routes while >= 2 uncommitted RPCs referenced it",
		Gen:  vfC51Gen, Run: vfC51Run,
	})
}
