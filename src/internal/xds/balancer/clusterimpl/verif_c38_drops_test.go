package clusterimpl

// C38 (clusterimpl part): an xDS drop category numerator/denominator drops
// exactly min(num/den, 1) of the RPCs, only while the child is READY; circuit
// breaking admits a pick iff fewer than max_requests RPCs are in flight and
// the in-flight count returns to zero when all admitted RPCs finished.
//
// The real conversion (handleClusterConfigLocked -> dropRequestsPerMillion ->
// newDropper) and the real picker are exercised; the random selector is the
// package's NewRandomWRR hook replaced by an exact, enumerable selector (item
// for random value r by linear scan over the cumulated weights; the identity
// "randomWRR == that selector" is the `random` unit of C38).

import (
	"context"
	"errors"
	"fmt"
	"math"
	"math/big"
	"sync/atomic"
	"testing"

	"google.golang.org/grpc/balancer"
	"google.golang.org/grpc/codes"
	"google.golang.org/grpc/connectivity"
	"google.golang.org/grpc/internal/verifkit/vk"
	"google.golang.org/grpc/internal/wrr"
	"google.golang.org/grpc/internal/xds/balancer/loadstore"
	"google.golang.org/grpc/internal/xds/xdsclient/xdsresource"
	"google.golang.org/grpc/status"
	"pgregory.net/rapid"
)

type vfC38Drop struct {
	Num    uint32 `json:"num"`
	DenSel int    `json:"den_sel"` // 0:100 1:10000 2:1000000 (the only denominators EDS parsing produces)
}

func (d vfC38Drop) den() uint32 { return []uint32{100, 10000, 1000000}[((d.DenSel%3)+3)%3] }

type vfC38Op struct {
	// Kind: 0 pick, 1 done, 2 reconfigure (state and/or max_requests)
	Kind int `json:"kind"`
	// pick: R[c] is the random value for drop category c (mod its total).
	R []uint64 `json:"r,omitempty"`
	// pick: child outcome 0 success, 1 ErrNoSubConnAvailable, 2 other error
	Child int `json:"child,omitempty"`
	// done: index into outstanding (mod len)
	K int `json:"k,omitempty"`
	// reconfigure
	State  int    `json:"state,omitempty"` // connectivity.State 0..3 (Idle, Connecting, Ready, TransientFailure)
	HasMax bool   `json:"has_max,omitempty"`
	Max    uint32 `json:"max,omitempty"`
}

type vfC38DropPlan struct {
	Drops  []vfC38Drop `json:"drops"`
	State  int         `json:"state"`
	HasMax bool        `json:"has_max"`
	Max    uint32      `json:"max"`
	Ops    []vfC38Op   `json:"ops"`
	// Enumerate: additionally feed every random value to a READY picker with
	// only the first category (when its reduced total is small enough).
	Enumerate bool `json:"enumerate"`
}

// vfC38WRR records Add calls and answers Next by linear scan for the random
// value installed in *r.
type vfC38WRR struct {
	items   []any
	weights []int64
	r       *uint64
	nexts   *int
}

func (w *vfC38WRR) Add(item any, weight int64) {
	w.items = append(w.items, item)
	w.weights = append(w.weights, weight)
}

func (w *vfC38WRR) total() int64 {
	var s int64
	for _, x := range w.weights {
		s += x
	}
	return s
}

func (w *vfC38WRR) Next() any {
	*w.nexts++
	t := w.total()
	if t <= 0 {
		// all weights zero: uniform (what randomWRR does for equal weights)
		return w.items[int(*w.r%uint64(len(w.items)))]
	}
	v := int64(*w.r % uint64(t))
	var acc int64
	for i, x := range w.weights {
		acc += x
		if v < acc {
			return w.items[i]
		}
	}
	panic("unreachable")
}

var _ wrr.WRR = (*vfC38WRR)(nil)

type vfC38Child struct {
	outcome int
	calls   int
	dones   *int
}

var vfC38ErrChild = errors.New("vfC38 child pick error")

func (c *vfC38Child) Pick(balancer.PickInfo) (balancer.PickResult, error) {
	c.calls++
	switch c.outcome {
	case 1:
		return balancer.PickResult{}, balancer.ErrNoSubConnAvailable
	case 2:
		return balancer.PickResult{}, status.Error(codes.Internal, vfC38ErrChild.Error())
	}
	return balancer.PickResult{Done: func(balancer.DoneInfo) { *c.dones++ }}, nil
}

var vfC38Seq atomic.Uint64

func vfC38GenNum(rt *rapid.T, den uint32) uint32 {
	switch rapid.IntRange(0, 5).Draw(rt, "numkind") {
	case 0:
		return rapid.SampledFrom([]uint32{0, 1, den - 1, den, den + 1, 2 * den, math.MaxUint32, math.MaxUint32 - 1, 4294, 4295, 4296, 429497, 42949673}).Draw(rt, "num")
	case 1, 2:
		return rapid.Uint32Range(0, den).Draw(rt, "num")
	case 3:
		return rapid.Uint32Range(den, 10*den).Draw(rt, "num")
	case 4:
		return rapid.Uint32().Draw(rt, "num")
	default:
		return rapid.Uint32Range(0, 100).Draw(rt, "num")
	}
}

func vfC38GenMax(rt *rapid.T) (bool, uint32) {
	switch rapid.IntRange(0, 5).Draw(rt, "maxkind") {
	case 0:
		return false, 0
	case 1:
		return true, rapid.SampledFrom([]uint32{0, 1, math.MaxUint32, 1024}).Draw(rt, "max")
	default:
		return true, rapid.Uint32Range(0, 6).Draw(rt, "max")
	}
}

func vfC38GenState(rt *rapid.T) int {
	// READY twice as likely
	return rapid.SampledFrom([]int{0, 1, 2, 2, 2, 3}).Draw(rt, "state")
}

func vfC38GenDropPlan(rt *rapid.T) vfC38DropPlan {
	var p vfC38DropPlan
	nd := rapid.SampledFrom([]int{0, 1, 1, 1, 2, 3}).Draw(rt, "ndrops")
	for i := 0; i < nd; i++ {
		d := vfC38Drop{DenSel: rapid.IntRange(0, 2).Draw(rt, "den")}
		d.Num = vfC38GenNum(rt, d.den())
		p.Drops = append(p.Drops, d)
	}
	p.State = vfC38GenState(rt)
	p.HasMax, p.Max = vfC38GenMax(rt)
	p.Enumerate = rapid.IntRange(0, 3).Draw(rt, "enum") == 0
	nops := rapid.IntRange(0, vk.Pick(30, 100)).Draw(rt, "nops")
	for i := 0; i < nops; i++ {
		var op vfC38Op
		switch k := rapid.IntRange(0, 9).Draw(rt, "kind"); {
		case k <= 5:
			op.Kind = 0
			for range p.Drops {
				op.R = append(op.R, rapid.Uint64().Draw(rt, "r"))
			}
			op.Child = rapid.SampledFrom([]int{0, 0, 0, 0, 1, 2}).Draw(rt, "child")
		case k <= 8:
			op.Kind = 1
			op.K = rapid.IntRange(0, 1000).Draw(rt, "k")
		default:
			op.Kind = 2
			op.State = vfC38GenState(rt)
			op.HasMax, op.Max = vfC38GenMax(rt)
		}
		p.Ops = append(p.Ops, op)
	}
	return p
}

func vfC38RunDrops(_ *testing.T, p vfC38DropPlan) vk.Result {
	res := vk.Result{}
	savedWRR := NewRandomWRR
	defer func() { NewRandomWRR = savedWRR }()

	var curR uint64
	var nexts int
	var made []*vfC38WRR
	NewRandomWRR = func() wrr.WRR {
		w := &vfC38WRR{r: &curR, nexts: &nexts}
		made = append(made, w)
		return w
	}

	id := vfC38Seq.Add(1)
	cluster := fmt.Sprintf("vfC38-cluster-%d", id)
	b := &clusterImplBalancer{loadWrapper: loadstore.NewWrapper(), requestCountMax: defaultRequestCountMax}

	mkCfg := func(hasMax bool, max uint32) xdsresource.ClusterConfig {
		cu := &xdsresource.ClusterUpdate{ClusterType: xdsresource.ClusterTypeEDS, ClusterName: cluster, EDSServiceName: "vfC38-eds"}
		if hasMax {
			m := max
			cu.MaxRequests = &m
		}
		eu := &xdsresource.EndpointsUpdate{}
		for i, d := range p.Drops {
			eu.Drops = append(eu.Drops, xdsresource.OverloadDropConfig{Category: fmt.Sprintf("cat%d", i), Numerator: d.Num, Denominator: d.den()})
		}
		return xdsresource.ClusterConfig{Cluster: cu, EndpointConfig: &xdsresource.EndpointConfig{EDSUpdate: eu}}
	}

	dones := 0
	child := &vfC38Child{dones: &dones}
	b.mu.Lock()
	b.handleClusterConfigLocked(mkCfg(p.HasMax, p.Max))
	b.childState = balancer.State{ConnectivityState: connectivity.State(p.State), Picker: child}
	pk := b.newPickerLocked()
	b.mu.Unlock()

	// ---- drop fraction exactness: P(drop) as configured by the real code ----
	if len(made) != len(p.Drops) || len(pk.drops) != len(p.Drops) {
		return vk.Bad("%d drop categories configured, %d droppers built (%d in picker)", len(p.Drops), len(made), len(pk.drops))
	}
	type frac struct{ a, tot int64 } // P(drop) = a/tot
	fr := make([]frac, len(p.Drops))
	overCat := false
	for c, d := range p.Drops {
		w, ok := pk.drops[c].w.(*vfC38WRR)
		if !ok || w != made[c] {
			return vk.Bad("dropper %d does not use the WRR from NewRandomWRR in category order", c)
		}
		var a, tot int64
		for i, it := range w.items {
			bv, ok := it.(bool)
			if !ok || w.weights[i] < 0 {
				return vk.Bad("dropper %d: item %v weight %d", c, it, w.weights[i])
			}
			tot += w.weights[i]
			if bv {
				a += w.weights[i]
			}
		}
		if tot <= 0 {
			return vk.Bad("drop %d/%d: dropper total weight %d (weights %v)", d.Num, d.den(), tot, w.weights)
		}
		fr[c] = frac{a, tot}
		// want = min(num, den)/den ; a/tot == want  <=>  a*den == want_num*tot
		wn := int64(d.Num)
		if d.Num > d.den() {
			wn = int64(d.den())
			overCat = true
			res.Classes = append(res.Classes, "num>den")
		} else if d.Num == d.den() {
			res.Classes = append(res.Classes, "num==den")
		} else if d.Num == 0 {
			res.Classes = append(res.Classes, "num==0")
		}
		l := new(big.Int).Mul(big.NewInt(a), big.NewInt(int64(d.den())))
		r := new(big.Int).Mul(big.NewInt(wn), big.NewInt(tot))
		if l.Cmp(r) != 0 {
			return vk.Bad("drop category %d/%d: configured drop probability %d/%d, want min(num/den,1)", d.Num, d.den(), a, tot)
		}
	}
	res.NonTrivial = overCat
	res.Classes = append(res.Classes, fmt.Sprintf("ndrops_%d", len(p.Drops)))

	pick := func(pk *picker) (balancer.PickResult, error) {
		return pk.Pick(balancer.PickInfo{Ctx: context.Background(), FullMethodName: "/s/m"})
	}

	// ---- end-to-end enumeration of the random source for category 0 ----
	if p.Enumerate && len(p.Drops) > 0 && fr[0].tot <= 2000 {
		res.Classes = append(res.Classes, "enumerated_picks")
		for _, st := range []connectivity.State{connectivity.Ready, connectivity.Connecting, connectivity.Idle, connectivity.TransientFailure} {
			ech := &vfC38Child{dones: new(int)}
			ep := &picker{drops: pk.drops[:1], s: balancer.State{ConnectivityState: st, Picker: ech}, loadStore: b.loadWrapper}
			dropped := int64(0)
			for r := int64(0); r < fr[0].tot; r++ {
				curR = uint64(r)
				before := ech.calls
				_, err := pick(ep)
				if err != nil {
					if ech.calls != before {
						return vk.Bad("child picked and error %v", err)
					}
					dropped++
				}
			}
			want := fr[0].a
			if st != connectivity.Ready {
				want = 0
			}
			if dropped != want {
				return vk.Bad("drop %d/%d, child %v: %d of %d random values dropped, want %d", p.Drops[0].Num, p.Drops[0].den(), st, dropped, fr[0].tot, want)
			}
		}
	}

	// ---- pick / done / reconfigure walk vs model ----
	type outstanding struct{ done func(balancer.DoneInfo) }
	var out []outstanding
	inflight := uint32(0) // model
	state := connectivity.State(p.State)
	max := uint32(defaultRequestCountMax)
	if p.HasMax {
		max = p.Max
	}
	counter := pk.counter
	if counter == nil {
		return vk.Bad("picker has no request counter")
	}
	probe := func(when string) string {
		// counter value == inflight, via the exported API only:
		// StartRequest(x) succeeds iff value < x.
		if inflight > 0 {
			if err := counter.StartRequest(inflight); err == nil {
				counter.EndRequest()
				return fmt.Sprintf("%s: request counter is below the %d RPCs in flight", when, inflight)
			}
		}
		if inflight < math.MaxUint32 {
			if err := counter.StartRequest(inflight + 1); err != nil {
				return fmt.Sprintf("%s: request counter is above the %d RPCs in flight (%v)", when, inflight, err)
			}
			counter.EndRequest()
		}
		return ""
	}
	sawDropNotReady, sawBreaker, sawFailRelease := false, false, false
	wantDones := 0
	for i, op := range p.Ops {
		switch op.Kind {
		case 0:
			// model
			dropBy := -1
			if state == connectivity.Ready {
				for c := range p.Drops {
					var r uint64
					if c < len(op.R) {
						r = op.R[c]
					}
					if int64(r%uint64(fr[c].tot)) < fr[c].a {
						dropBy = c
						break
					}
				}
			} else {
				for c := range p.Drops {
					var r uint64
					if c < len(op.R) {
						r = op.R[c]
					}
					if int64(r%uint64(fr[c].tot)) < fr[c].a {
						sawDropNotReady = true
					}
				}
			}
			admitted := dropBy < 0 && inflight < max
			if dropBy < 0 && !admitted {
				sawBreaker = true
			}
			// execute: the stub WRR of category c reads curR; install per category
			// by making each WRR read its own slot.
			for c, w := range made {
				v := new(uint64)
				if c < len(op.R) {
					*v = op.R[c]
				}
				w.r = v
			}
			child.outcome = op.Child
			before := child.calls
			pr, err := pick(pk)
			called := child.calls - before
			switch {
			case !admitted:
				if err == nil {
					return vk.Bad("op %d: pick succeeded but model says %s (state %v, inflight %d, max %d)", i, map[bool]string{true: "dropped by category", false: "rejected by circuit breaker"}[dropBy >= 0], state, inflight, max)
				}
				if called != 0 {
					return vk.Bad("op %d: child picker consulted for a dropped/rejected RPC", i)
				}
				if status.Code(err) != codes.Unavailable {
					return vk.Bad("op %d: dropped RPC fails with %v, want UNAVAILABLE", i, err)
				}
			default:
				if called != 1 {
					return vk.Bad("op %d: admitted pick consulted the child %d times (err=%v, state %v, inflight %d, max %d, dropBy %d)", i, called, err, state, inflight, max, dropBy)
				}
				if op.Child == 0 {
					if err != nil || pr.Done == nil {
						return vk.Bad("op %d: child pick succeeded but wrapper returned err=%v done=%v", i, err, pr.Done != nil)
					}
					inflight++
					if inflight > max {
						return vk.Bad("op %d: %d RPCs in flight with max_requests %d", i, inflight, max)
					}
					out = append(out, outstanding{pr.Done})
				} else {
					if err == nil {
						return vk.Bad("op %d: child pick failed but wrapper returned success", i)
					}
					sawFailRelease = true
				}
			}
		case 1:
			if len(out) == 0 {
				continue
			}
			k := op.K % len(out)
			out[k].done(balancer.DoneInfo{})
			out = append(out[:k], out[k+1:]...)
			inflight--
			wantDones++
			if dones != wantDones {
				return vk.Bad("op %d: child Done callback ran %d times, want %d", i, dones, wantDones)
			}
		case 2:
			state = connectivity.State(op.State)
			max = defaultRequestCountMax
			if op.HasMax {
				max = op.Max
			}
			b.mu.Lock()
			nm := len(made)
			b.handleClusterConfigLocked(mkCfg(op.HasMax, op.Max))
			b.childState = balancer.State{ConnectivityState: state, Picker: child}
			pk = b.newPickerLocked()
			b.mu.Unlock()
			if len(made) != nm {
				return vk.Bad("op %d: droppers rebuilt although drop config is unchanged", i)
			}
			if pk.counter != counter {
				return vk.Bad("op %d: request counter changed although cluster/service are unchanged", i)
			}
		}
		if msg := probe(fmt.Sprintf("after op %d (%+v)", i, op)); msg != "" {
			return vk.Bad("%s", msg)
		}
	}
	// finish everything: the in-flight count must return to zero
	for len(out) > 0 {
		out[0].done(balancer.DoneInfo{})
		out = out[1:]
		inflight--
	}
	if inflight != 0 {
		return vk.Bad("model bug: inflight %d", inflight)
	}
	if msg := probe("after all admitted RPCs finished"); msg != "" {
		return vk.Bad("%s", msg)
	}
	if sawDropNotReady {
		res.Classes = append(res.Classes, "would_drop_but_not_ready")
	}
	if sawBreaker {
		res.Classes = append(res.Classes, "breaker_rejected")
	}
	if sawFailRelease {
		res.Classes = append(res.Classes, "failed_pick_released")
	}
	res.Steps = len(p.Ops)
	return res
}

func TestVerifC38Drops(t *testing.T) {
	vk.Check(t, vk.Unit[vfC38DropPlan]{
		ID: "C38", Name: "drops",
		Rule: "0..3 drop categories numerator/denominator (denominator in {100,1e4,1e6} as produced by EDS parsing, numerator any uint32 incl. 0, den±1, >den, MaxUint32), max_requests in {unset,0..6,1024,MaxUint32}, child state, then up to 30/100 ops pick(random value per category, child outcome) / done(k-th outstanding) / reconfigure(state,max). The real handleClusterConfigLocked+newDropper+picker run with NewRandomWRR replaced by an exact enumerable selector; oracle: configured P(drop) == min(num/den,1) as exact rationals, full enumeration of the random source for small totals, and a model of drop-only-when-READY / admit iff inflight<max / counter == in-flight ledger (probed through StartRequest) / zero at the end. non-trivial = some category has numerator > denominator",
		Gen:  vfC38GenDropPlan, Run: vfC38RunDrops,
	})
}
