// Package e2e is a shared kit of the /verif harness: it starts a real
// grpc.ClientConn (grpc.NewClient, passthrough target, WithContextDialer) and a
// real grpc.Server over test/bufconn. It is meant to be used inside a
// testing/synctest bubble (vk.Bubble); nothing in here uses wall-clock time.
//
// Pieces:
//
//	Codec            raw-bytes encoding.CodecV2 ("verifraw"): messages are *[]byte / []byte
//	Service          hand-written grpc.ServiceDesc builder (unary + streaming handler funcs)
//	Start / Pair     client/server pair with options and a clean teardown
//	Tap / DecodeWire net.Conn wrapper that tees both directions of the client's
//	                 connection; DecodeWire parses the captured bytes with an
//	                 independent x/net/http2 Framer + hpack decoder
//	                 (StreamIDs / HeadersOf / MessagesOf slice the result).
//	RawClient        minimal scripted HTTP/2 client (own framer + hpack encoder)
//	                 against the real server: Options.NoClient + Pair.DialRaw.
//
// Typical use (inside vk.Bubble):
//
//	pair, err := e2e.Start(e2e.Options{Unary: h, Stream: sh, Tap: &e2e.Tap{}})
//	defer pair.Close()
//	resp, err := pair.Unary(ctx, e2e.UnaryMethod, []byte("req"))
//
// Read server-side logs only after the RPC has completed (or after
// pair.Close() + synctest.Wait()): goroutine scheduling in a bubble is not
// deterministic.
package e2e

import (
	"bytes"
	"context"
	"encoding/binary"
	"errors"
	"fmt"
	"io"
	"net"
	"sort"
	"sync"

	"golang.org/x/net/http2"
	"golang.org/x/net/http2/hpack"
	"google.golang.org/grpc"
	"google.golang.org/grpc/credentials/insecure"
	"google.golang.org/grpc/mem"
	"google.golang.org/grpc/test/bufconn"
)

// ---------------------------------------------------------------- codec

// Codec is a raw-bytes CodecV2. Marshal accepts []byte, *[]byte and nil
// pointers (empty message); Unmarshal needs *[]byte and always stores a fresh
// copy (never aliases transport buffers).
type Codec struct{}

// CodecName is the content-subtype the codec announces.
const CodecName = "verifraw"

func (Codec) Name() string { return CodecName }

func (Codec) Marshal(v any) (mem.BufferSlice, error) {
	var b []byte
	switch x := v.(type) {
	case []byte:
		b = x
	case *[]byte:
		if x != nil {
			b = *x
		}
	default:
		return nil, fmt.Errorf("e2e.Codec: cannot marshal %T", v)
	}
	cp := make([]byte, len(b))
	copy(cp, b)
	return mem.BufferSlice{mem.SliceBuffer(cp)}, nil
}

func (Codec) Unmarshal(data mem.BufferSlice, v any) error {
	p, ok := v.(*[]byte)
	if !ok || p == nil {
		return fmt.Errorf("e2e.Codec: cannot unmarshal into %T", v)
	}
	*p = data.Materialize()
	if *p == nil {
		*p = []byte{}
	}
	return nil
}

// ---------------------------------------------------------------- service descriptors

// UnaryFunc is a unary handler on raw bytes.
type UnaryFunc func(ctx context.Context, req []byte) ([]byte, error)

// StreamFunc is a streaming handler (use RecvBytes/SendBytes on the stream).
type StreamFunc func(stream grpc.ServerStream) error

// StreamSpec describes one streaming method.
type StreamSpec struct {
	Handler       StreamFunc
	ClientStreams bool
	ServerStreams bool
}

// Service builds a grpc.ServiceDesc by hand (no protobuf). Method order is
// sorted so registration is deterministic. Register with
// srv.RegisterService(desc, nil).
func Service(name string, unary map[string]UnaryFunc, streams map[string]StreamSpec) *grpc.ServiceDesc {
	sd := &grpc.ServiceDesc{ServiceName: name, HandlerType: (*any)(nil), Metadata: "verif/e2e"}
	var un []string
	for m := range unary {
		un = append(un, m)
	}
	sort.Strings(un)
	for _, m := range un {
		h := unary[m]
		full := "/" + name + "/" + m
		sd.Methods = append(sd.Methods, grpc.MethodDesc{
			MethodName: m,
			Handler: func(srv any, ctx context.Context, dec func(any) error, interceptor grpc.UnaryServerInterceptor) (any, error) {
				var in []byte
				if err := dec(&in); err != nil {
					return nil, err
				}
				if interceptor == nil {
					out, err := h(ctx, in)
					if err != nil {
						return nil, err
					}
					return &out, nil
				}
				info := &grpc.UnaryServerInfo{Server: srv, FullMethod: full}
				return interceptor(ctx, &in, info, func(ctx context.Context, req any) (any, error) {
					out, err := h(ctx, *(req.(*[]byte)))
					if err != nil {
						return nil, err
					}
					return &out, nil
				})
			},
		})
	}
	var sn []string
	for m := range streams {
		sn = append(sn, m)
	}
	sort.Strings(sn)
	for _, m := range sn {
		sp := streams[m]
		sd.Streams = append(sd.Streams, grpc.StreamDesc{
			StreamName:    m,
			Handler:       func(_ any, stream grpc.ServerStream) error { return sp.Handler(stream) },
			ClientStreams: sp.ClientStreams,
			ServerStreams: sp.ServerStreams,
		})
	}
	return sd
}

// RecvBytes receives one raw message from a client or server stream.
func RecvBytes(s interface{ RecvMsg(any) error }) ([]byte, error) {
	var b []byte
	if err := s.RecvMsg(&b); err != nil {
		return nil, err
	}
	return b, nil
}

// SendBytes sends one raw message on a client or server stream.
func SendBytes(s interface{ SendMsg(any) error }, b []byte) error {
	return s.SendMsg(&b)
}

// Default service / method names used by Options.Unary / Options.Stream.
const (
	DefaultService = "verif.E2E"
	UnaryMethod    = "/verif.E2E/Unary"
	StreamMethod   = "/verif.E2E/Stream"       // bidi
	SStreamMethod  = "/verif.E2E/ServerStream" // server streaming
	CStreamMethod  = "/verif.E2E/ClientStream" // client streaming
)

// ---------------------------------------------------------------- pair

// Options configures Start.
type Options struct {
	// ServerOpts / DialOpts are appended after the kit's own options (raw
	// codec, insecure credentials, bufconn dialer).
	ServerOpts []grpc.ServerOption
	DialOpts   []grpc.DialOption
	// Unary / Stream are the handlers of the default service verif.E2E
	// (methods Unary; Stream, ServerStream, ClientStream share Stream). Nil
	// handlers are not registered.
	Unary  UnaryFunc
	Stream StreamFunc
	// Register registers additional services before Serve.
	Register func(*grpc.Server)
	// NoDefaultService suppresses verif.E2E altogether.
	NoDefaultService bool
	// Tap, when non-nil, records every byte the client connection writes
	// and reads (see DecodeWire).
	Tap *Tap
	// WrapClientConn wraps the client side net.Conn (applied after Tap).
	WrapClientConn func(net.Conn) net.Conn
	// BufSize is the bufconn buffer size (default 256 KiB).
	BufSize int
	// NoRawCodec leaves the codec choice to the caller.
	NoRawCodec bool
	// NoClient starts only the server (Pair.CC is nil); use Pair.DialRaw.
	NoClient bool
}

// Pair is a running client/server pair.
type Pair struct {
	CC  *grpc.ClientConn
	Srv *grpc.Server
	Lis *bufconn.Listener

	serveDone chan struct{}
	closeOnce sync.Once
}

// Start creates the listener, server and client. The server goroutine is
// started with `go` (inside a bubble when called from one). Call Close before
// the bubble function returns.
func Start(o Options) (*Pair, error) {
	sz := o.BufSize
	if sz <= 0 {
		sz = 256 << 10
	}
	lis := bufconn.Listen(sz)
	var sopts []grpc.ServerOption
	if !o.NoRawCodec {
		sopts = append(sopts, grpc.ForceServerCodecV2(Codec{}))
	}
	sopts = append(sopts, o.ServerOpts...)
	srv := grpc.NewServer(sopts...)
	if !o.NoDefaultService {
		un := map[string]UnaryFunc{}
		st := map[string]StreamSpec{}
		if o.Unary != nil {
			un["Unary"] = o.Unary
		}
		if o.Stream != nil {
			st["Stream"] = StreamSpec{Handler: o.Stream, ClientStreams: true, ServerStreams: true}
			st["ServerStream"] = StreamSpec{Handler: o.Stream, ServerStreams: true}
			st["ClientStream"] = StreamSpec{Handler: o.Stream, ClientStreams: true}
		}
		if len(un)+len(st) > 0 {
			srv.RegisterService(Service(DefaultService, un, st), nil)
		}
	}
	if o.Register != nil {
		o.Register(srv)
	}
	p := &Pair{Srv: srv, Lis: lis, serveDone: make(chan struct{})}
	go func() {
		defer close(p.serveDone)
		_ = srv.Serve(lis)
	}()
	if o.NoClient {
		return p, nil
	}
	dial := func(ctx context.Context, _ string) (net.Conn, error) {
		c, err := lis.DialContext(ctx)
		if err != nil {
			return nil, err
		}
		if o.Tap != nil {
			c = o.Tap.wrap(c)
		}
		if o.WrapClientConn != nil {
			c = o.WrapClientConn(c)
		}
		return c, nil
	}
	dopts := []grpc.DialOption{
		grpc.WithTransportCredentials(insecure.NewCredentials()),
		grpc.WithContextDialer(dial),
	}
	if !o.NoRawCodec {
		dopts = append(dopts, grpc.WithDefaultCallOptions(grpc.ForceCodecV2(Codec{})))
	}
	dopts = append(dopts, o.DialOpts...)
	cc, err := grpc.NewClient("passthrough:///bufnet", dopts...)
	if err != nil {
		srv.Stop()
		lis.Close()
		<-p.serveDone
		return nil, err
	}
	p.CC = cc
	return p, nil
}

// Close tears the pair down: cc.Close(), srv.Stop(), listener close; waits for
// Serve to return. Idempotent.
func (p *Pair) Close() {
	p.closeOnce.Do(func() {
		if p.CC != nil {
			_ = p.CC.Close()
		}
		p.Srv.Stop()
		_ = p.Lis.Close()
		<-p.serveDone
	})
}

// DialRaw opens a raw connection to the server and performs the HTTP/2 client
// preface on it.
func (p *Pair) DialRaw() (*RawClient, error) {
	c, err := p.Lis.Dial()
	if err != nil {
		return nil, err
	}
	rc, err := NewRawClient(c)
	if err != nil {
		c.Close()
		return nil, err
	}
	return rc, nil
}

// Unary performs a unary RPC with raw bytes.
func (p *Pair) Unary(ctx context.Context, method string, req []byte, opts ...grpc.CallOption) ([]byte, error) {
	var resp []byte
	err := p.CC.Invoke(ctx, method, &req, &resp, opts...)
	return resp, err
}

// NewStream opens a client stream of the given shape.
func (p *Pair) NewStream(ctx context.Context, method string, clientStreams, serverStreams bool, opts ...grpc.CallOption) (grpc.ClientStream, error) {
	return p.CC.NewStream(ctx, &grpc.StreamDesc{ClientStreams: clientStreams, ServerStreams: serverStreams}, method, opts...)
}

// ---------------------------------------------------------------- wire tap

// Tap records both directions of every client connection it wraps.
type Tap struct {
	mu    sync.Mutex
	conns []*tapConn
}

type tapConn struct {
	net.Conn
	mu   sync.Mutex
	c2s  bytes.Buffer // bytes written by the client
	s2c  bytes.Buffer // bytes read by the client
	tapp *Tap
}

func (t *Tap) wrap(c net.Conn) net.Conn {
	tc := &tapConn{Conn: c, tapp: t}
	t.mu.Lock()
	t.conns = append(t.conns, tc)
	t.mu.Unlock()
	return tc
}

// Write records the bytes *before* handing them to the connection: the peer
// may react (and the test may look at the tap) before this goroutine runs
// again after the underlying Write returned. Writes on a connection are
// serialised by the transport's single writer goroutine; a short write
// un-records the unsent tail.
func (c *tapConn) Write(b []byte) (int, error) {
	c.mu.Lock()
	c.c2s.Write(b)
	c.mu.Unlock()
	n, err := c.Conn.Write(b)
	if n < len(b) {
		c.mu.Lock()
		c.c2s.Truncate(c.c2s.Len() - (len(b) - n))
		c.mu.Unlock()
	}
	return n, err
}

func (c *tapConn) Read(b []byte) (int, error) {
	n, err := c.Conn.Read(b)
	if n > 0 {
		c.mu.Lock()
		c.s2c.Write(b[:n])
		c.mu.Unlock()
	}
	return n, err
}

// NumConns reports how many connections were dialled through the tap.
func (t *Tap) NumConns() int {
	t.mu.Lock()
	defer t.mu.Unlock()
	return len(t.conns)
}

// Bytes returns a copy of the bytes captured so far on connection i
// (client-to-server, server-to-client).
func (t *Tap) Bytes(i int) (c2s, s2c []byte) {
	t.mu.Lock()
	if i < 0 || i >= len(t.conns) {
		t.mu.Unlock()
		return nil, nil
	}
	c := t.conns[i]
	t.mu.Unlock()
	c.mu.Lock()
	defer c.mu.Unlock()
	return append([]byte(nil), c.c2s.Bytes()...), append([]byte(nil), c.s2c.Bytes()...)
}

// HeaderField is one decoded header field.
type HeaderField struct{ Name, Value string }

// WireFrame is one decoded HTTP/2 frame (HEADERS+CONTINUATION merged).
type WireFrame struct {
	Type      http2.FrameType
	StreamID  uint32
	Flags     http2.Flags
	EndStream bool
	Fields    []HeaderField // HEADERS
	Data      []byte        // DATA payload (padding removed)
	ErrCode   http2.ErrCode // RST_STREAM / GOAWAY
	Length    uint32
}

// Get returns the values of a header field name in order.
func (f *WireFrame) Get(name string) []string {
	var out []string
	for _, hf := range f.Fields {
		if hf.Name == name {
			out = append(out, hf.Value)
		}
	}
	return out
}

// DecodeWire parses one direction of a captured HTTP/2 connection. For the
// client-to-server direction the 24-byte preface is skipped. Trailing partial
// frames are ignored (the capture may stop mid-frame). It uses its own
// hpack decoder, independent of grpc-go's.
func DecodeWire(b []byte, clientToServer bool) ([]WireFrame, error) {
	if clientToServer {
		if len(b) < len(http2.ClientPreface) {
			if len(b) == 0 {
				return nil, nil
			}
			return nil, fmt.Errorf("short client preface (%d bytes)", len(b))
		}
		if string(b[:len(http2.ClientPreface)]) != http2.ClientPreface {
			return nil, errors.New("bad client preface")
		}
		b = b[len(http2.ClientPreface):]
	}
	fr := http2.NewFramer(io.Discard, bytes.NewReader(b))
	fr.SetMaxReadFrameSize(1<<24 - 1)
	dec := hpack.NewDecoder(4096, nil)
	dec.SetAllowedMaxDynamicTableSize(1 << 20)
	fr.ReadMetaHeaders = dec
	fr.MaxHeaderListSize = 64 << 20
	var out []WireFrame
	for {
		f, err := fr.ReadFrame()
		if err != nil {
			if err == io.EOF || err == io.ErrUnexpectedEOF {
				return out, nil
			}
			return out, err
		}
		h := f.Header()
		wf := WireFrame{Type: h.Type, StreamID: h.StreamID, Flags: h.Flags, Length: h.Length}
		switch x := f.(type) {
		case *http2.MetaHeadersFrame:
			wf.Type = http2.FrameHeaders
			wf.EndStream = x.StreamEnded()
			for _, hf := range x.Fields {
				wf.Fields = append(wf.Fields, HeaderField{hf.Name, hf.Value})
			}
		case *http2.DataFrame:
			wf.EndStream = x.StreamEnded()
			wf.Data = append([]byte(nil), x.Data()...)
		case *http2.RSTStreamFrame:
			wf.ErrCode = x.ErrCode
		case *http2.GoAwayFrame:
			wf.ErrCode = x.ErrCode
		}
		out = append(out, wf)
	}
}

// StreamIDs returns the ids of streams that have at least one HEADERS or DATA
// frame, in order of first appearance.
func StreamIDs(frames []WireFrame) []uint32 {
	seen := map[uint32]bool{}
	var ids []uint32
	for _, f := range frames {
		if f.StreamID == 0 || (f.Type != http2.FrameHeaders && f.Type != http2.FrameData) {
			continue
		}
		if !seen[f.StreamID] {
			seen[f.StreamID] = true
			ids = append(ids, f.StreamID)
		}
	}
	return ids
}

// HeadersOf returns the HEADERS frames of a stream in order.
func HeadersOf(frames []WireFrame, id uint32) []WireFrame {
	var out []WireFrame
	for _, f := range frames {
		if f.StreamID == id && f.Type == http2.FrameHeaders {
			out = append(out, f)
		}
	}
	return out
}

// GRPCMessage is one length-prefixed gRPC message found in a stream's DATA.
type GRPCMessage struct {
	Flag    byte
	Payload []byte
}

// MessagesOf concatenates the DATA payloads of a stream and splits them into
// gRPC messages. rest holds trailing bytes that do not form a whole message.
func MessagesOf(frames []WireFrame, id uint32) (msgs []GRPCMessage, rest []byte) {
	var all []byte
	for _, f := range frames {
		if f.StreamID == id && f.Type == http2.FrameData {
			all = append(all, f.Data...)
		}
	}
	for len(all) >= 5 {
		n := int(binary.BigEndian.Uint32(all[1:5]))
		if len(all)-5 < n {
			break
		}
		msgs = append(msgs, GRPCMessage{Flag: all[0], Payload: append([]byte(nil), all[5:5+n]...)})
		all = all[5+n:]
	}
	return msgs, all
}

// ---------------------------------------------------------------- raw HTTP/2 client

// RawClient is a minimal scripted HTTP/2 client (x/net/http2 Framer + its own
// hpack encoder/decoder) for sending requests the grpc-go client API would
// never emit (arbitrary :path, padded base64, arbitrary grpc-encoding / flag
// bytes) to a real grpc.Server. It handles just enough of the protocol for
// short exchanges: preface, SETTINGS + ACK, PING ACK; flow control is ignored
// (keep messages well below 64 KiB).
type RawClient struct {
	Conn   net.Conn
	fr     *http2.Framer
	enc    *hpack.Encoder
	encBuf bytes.Buffer
	nextID uint32
	// Frames collects every frame read so far (all streams).
	Frames []WireFrame
}

// NewRawClient writes the client preface and an empty SETTINGS frame.
func NewRawClient(conn net.Conn) (*RawClient, error) {
	c := &RawClient{Conn: conn, nextID: 1}
	if _, err := conn.Write([]byte(http2.ClientPreface)); err != nil {
		return nil, err
	}
	c.fr = http2.NewFramer(conn, conn)
	c.fr.SetMaxReadFrameSize(1<<24 - 1)
	dec := hpack.NewDecoder(4096, nil)
	c.fr.ReadMetaHeaders = dec
	c.fr.MaxHeaderListSize = 64 << 20
	c.enc = hpack.NewEncoder(&c.encBuf)
	if err := c.fr.WriteSettings(); err != nil {
		return nil, err
	}
	return c, nil
}

// GRPCRequestHeaders returns the header fields of a well-formed gRPC request
// for path followed by extra.
func GRPCRequestHeaders(path string, extra ...HeaderField) []HeaderField {
	hf := []HeaderField{
		{":method", "POST"}, {":scheme", "http"}, {":path", path}, {":authority", "bufnet"},
		{"content-type", "application/grpc+" + CodecName}, {"user-agent", "verif-rawclient/1"}, {"te", "trailers"},
	}
	return append(hf, extra...)
}

// StartStream sends a HEADERS frame (END_HEADERS set) opening a new stream.
func (c *RawClient) StartStream(fields []HeaderField, endStream bool) (uint32, error) {
	id := c.nextID
	c.nextID += 2
	c.encBuf.Reset()
	for _, f := range fields {
		if err := c.enc.WriteField(hpack.HeaderField{Name: f.Name, Value: f.Value}); err != nil {
			return 0, err
		}
	}
	err := c.fr.WriteHeaders(http2.HeadersFrameParam{StreamID: id, BlockFragment: c.encBuf.Bytes(), EndStream: endStream, EndHeaders: true})
	return id, err
}

// WriteMessage sends one length-prefixed gRPC message with the given flag byte.
func (c *RawClient) WriteMessage(id uint32, flag byte, payload []byte, endStream bool) error {
	b := make([]byte, 5+len(payload))
	b[0] = flag
	binary.BigEndian.PutUint32(b[1:5], uint32(len(payload)))
	copy(b[5:], payload)
	return c.fr.WriteData(id, endStream, b)
}

// WriteRawData sends an arbitrary DATA frame.
func (c *RawClient) WriteRawData(id uint32, data []byte, endStream bool) error {
	return c.fr.WriteData(id, endStream, data)
}

// ReadUntilEnd reads frames until stream id is ended by the server (HEADERS
// or DATA with END_STREAM, or RST_STREAM) or the connection fails / GOAWAY.
// SETTINGS and PING are acknowledged. Returns the frames of that stream.
func (c *RawClient) ReadUntilEnd(id uint32) ([]WireFrame, error) {
	var mine []WireFrame
	for {
		f, err := c.fr.ReadFrame()
		if err != nil {
			return mine, err
		}
		h := f.Header()
		wf := WireFrame{Type: h.Type, StreamID: h.StreamID, Flags: h.Flags, Length: h.Length}
		switch x := f.(type) {
		case *http2.MetaHeadersFrame:
			wf.Type = http2.FrameHeaders
			wf.EndStream = x.StreamEnded()
			for _, hf := range x.Fields {
				wf.Fields = append(wf.Fields, HeaderField{hf.Name, hf.Value})
			}
		case *http2.DataFrame:
			wf.EndStream = x.StreamEnded()
			wf.Data = append([]byte(nil), x.Data()...)
		case *http2.RSTStreamFrame:
			wf.ErrCode = x.ErrCode
		case *http2.GoAwayFrame:
			wf.ErrCode = x.ErrCode
		case *http2.SettingsFrame:
			if !x.IsAck() {
				if err := c.fr.WriteSettingsAck(); err != nil {
					return mine, err
				}
			}
		case *http2.PingFrame:
			if !x.IsAck() {
				if err := c.fr.WritePing(true, x.Data); err != nil {
					return mine, err
				}
			}
		}
		c.Frames = append(c.Frames, wf)
		if wf.StreamID == id {
			mine = append(mine, wf)
			if wf.EndStream || wf.Type == http2.FrameRSTStream {
				return mine, nil
			}
		}
		if wf.Type == http2.FrameGoAway {
			return mine, fmt.Errorf("GOAWAY code=%v", wf.ErrCode)
		}
	}
}
