package h2peer

import (
	"fmt"
	"strings"
	"sync"

	"golang.org/x/net/http2"
	"golang.org/x/net/http2/hpack"
)

// Dir is the direction of a frame relative to the peer.
type Dir int

const (
	// In: the frame was read from the connection, i.e. written by grpc-go.
	In Dir = iota
	// Out: the frame was written by the peer (the harness).
	Out
)

func (d Dir) String() string {
	if d == In {
		return "in"
	}
	return "out"
}

// MaxWindow is 2^31-1.
const MaxWindow = 1<<31 - 1

// DefaultWindow is the HTTP/2 default initial window (65535).
const DefaultWindow = 65535

// MaxFrameLen is the frame size grpc-go must respect (16 KiB).
const MaxFrameLen = 16384

// Frame is the record of one HTTP/2 frame in either direction.
type Frame struct {
	Seq      int // position in the ledger's total order (both directions)
	Dir      Dir
	Type     http2.FrameType
	Flags    http2.Flags
	StreamID uint32
	Length   uint32 // payload length on the wire (DATA: incl. pad-length byte and padding)

	Data   []byte // DATA: payload without padding (copy)
	PadLen int    // DATA: -1 when the PADDED flag is clear, else the pad length

	FragLen       int                 // HEADERS/CONTINUATION: header block fragment length
	Fields        []hpack.HeaderField // HEADERS: decoded header list of the whole block (set once the block is complete)
	BlockComplete bool                // HEADERS: END_HEADERS seen for this block
	BlockFrags    []int               // HEADERS: fragment sizes of the block (HEADERS first, then CONTINUATIONs)

	Settings     []http2.Setting // SETTINGS
	Increment    uint32          // WINDOW_UPDATE
	ErrCode      http2.ErrCode   // RST_STREAM, GOAWAY
	LastStreamID uint32          // GOAWAY
	Debug        []byte          // GOAWAY
	PingData     [8]byte         // PING
}

// EndStream reports the END_STREAM flag of a DATA or HEADERS frame.
func (f *Frame) EndStream() bool {
	return (f.Type == http2.FrameData || f.Type == http2.FrameHeaders) && f.Flags.Has(http2.FlagDataEndStream)
}

// EndHeaders reports END_HEADERS of a HEADERS/CONTINUATION frame.
func (f *Frame) EndHeaders() bool {
	return (f.Type == http2.FrameHeaders || f.Type == http2.FrameContinuation) && f.Flags.Has(http2.FlagHeadersEndHeaders)
}

// IsAck reports the ACK flag of SETTINGS/PING.
func (f *Frame) IsAck() bool {
	return (f.Type == http2.FrameSettings || f.Type == http2.FramePing) && f.Flags.Has(http2.FlagSettingsAck)
}

// Field returns the first value of header name in a decoded HEADERS frame.
func (f *Frame) Field(name string) (string, bool) {
	for _, hf := range f.Fields {
		if hf.Name == name {
			return hf.Value, true
		}
	}
	return "", false
}

func (f *Frame) String() string {
	var b strings.Builder
	fmt.Fprintf(&b, "#%d %s %v sid=%d len=%d", f.Seq, f.Dir, f.Type, f.StreamID, f.Length)
	switch f.Type {
	case http2.FrameData:
		fmt.Fprintf(&b, " data=%d pad=%d", len(f.Data), f.PadLen)
		if f.EndStream() {
			b.WriteString(" END_STREAM")
		}
	case http2.FrameHeaders, http2.FrameContinuation:
		fmt.Fprintf(&b, " frag=%d", f.FragLen)
		if f.EndStream() {
			b.WriteString(" END_STREAM")
		}
		if f.EndHeaders() {
			b.WriteString(" END_HEADERS")
		}
	case http2.FrameSettings:
		if f.IsAck() {
			b.WriteString(" ACK")
		}
		for _, s := range f.Settings {
			fmt.Fprintf(&b, " %v=%d", s.ID, s.Val)
		}
	case http2.FrameWindowUpdate:
		fmt.Fprintf(&b, " inc=%d", f.Increment)
	case http2.FrameRSTStream:
		fmt.Fprintf(&b, " code=%v", f.ErrCode)
	case http2.FrameGoAway:
		fmt.Fprintf(&b, " last=%d code=%v debug=%q", f.LastStreamID, f.ErrCode, f.Debug)
	case http2.FramePing:
		if f.IsAck() {
			b.WriteString(" ACK")
		}
	}
	return b.String()
}

// Stream is the ledger's view of one HTTP/2 stream. "In*" fields describe
// what grpc-go wrote, "Out*" what the peer wrote. Returned by value
// (snapshot); InData aliases the ledger's append-only buffer.
type Stream struct {
	ID      uint32
	OpenSeq int // Seq of the frame that opened the stream

	InHeaderBlocks    int  // header blocks started by grpc-go
	InEnd             bool // grpc-go sent END_STREAM
	InEndSeq          int  // Seq of that frame
	InEndOnHeaders    bool // END_STREAM was carried by a HEADERS frame (trailers / trailers-only)
	InRST             bool // grpc-go sent RST_STREAM
	InRSTCode         http2.ErrCode
	InRSTSeq          int
	InData            []byte // concatenated DATA payload written by grpc-go
	InDataFrames      int
	InDataAfterOutRST int   // DATA frames from grpc-go after the peer's RST_STREAM was written (in flight; legal)
	InWUAfterClose    int   // WINDOW_UPDATEs from grpc-go after its own END_STREAM/RST (statistic)
	InContentSeqs     []int // Seq of every DATA/HEADERS/CONTINUATION frame written by grpc-go on this stream

	OutHeaderBlocks int
	OutEnd          bool
	OutEndSeq       int
	OutRST          bool
	OutRSTCode      http2.ErrCode
	OutRSTSeq       int
	OutDataBytes    int64 // DATA payload bytes (without padding) written by the peer
	OutFlowBytes    int64 // flow-controlled bytes (with padding) written by the peer

	// InWindow is the send window of grpc-go on this stream as granted by the
	// peer (IWS in force + WINDOW_UPDATEs - DATA). May be negative after the
	// peer lowered SETTINGS_INITIAL_WINDOW_SIZE.
	InWindow int64
	// OutWindow is the send window of the peer on this stream as granted by
	// grpc-go.
	OutWindow int64

	InZeroWindowHits int  // times a DATA frame from grpc-go left InWindow == 0
	InWentNegative   bool // an IWS decrease made InWindow negative
	OutOverWindow    bool // the peer sent DATA beyond OutWindow (peer was not conforming)

	Closed    bool // RST either way, or END_STREAM both ways
	ClosedSeq int
}

// Violation is a ledger invariant violated by grpc-go.
type Violation struct {
	Kind string // dotted name, see package doc
	Seq  int
	Msg  string
}

func (v Violation) String() string { return fmt.Sprintf("[%s] at #%d: %s", v.Kind, v.Seq, v.Msg) }

// Stats are counters useful for class labels / non-trivial rules.
type Stats struct {
	InDataFrames, InDataBytes   int64
	InConnZeroHits              int // times a DATA frame from grpc-go left the connection window == 0
	InStreamZeroHits            int // same for stream windows (sum over streams)
	IWSLoweredBelowOutstanding  int // stream windows made negative by an acknowledged IWS decrease
	InSettingsAcks              int
	InMaxFragLen                int
	InContinuations             int
	InWUAfterClose              int
	InRSTAfterTrailers          int // server role: RST_STREAM(NO_ERROR) after trailers
	OutDataFrames, OutFlowBytes int64
	OutOverWindow               int // DATA frames the peer sent beyond a window
	MaxOpen                     int // maximum of OpenCount seen
	MaxOpenAtHeaders            int
	StreamsAtLimit              int // client role: HEADERS that brought open count == limit
	OpenAboveLimitAfterLowering int // client role: ACKs after which open count > new limit
}

// Ledger is the independent window / stream-state accounting fed with every
// frame in both directions. All methods are safe for concurrent use; read
// results at quiescence.
type Ledger struct {
	mu   sync.Mutex
	role Role

	seq     int
	frames  []*Frame
	streams map[uint32]*Stream
	order   []uint32

	// grpc-go as sender.
	inConnWindow    int64
	inIWS           int64             // peer's SETTINGS_INITIAL_WINDOW_SIZE in force for grpc-go
	pendingSettings [][]http2.Setting // sent by the peer, not yet acknowledged by grpc-go
	maxConcurrent   uint32            // peer's MAX_CONCURRENT_STREAMS in force for grpc-go (client)
	maxConcSet      bool
	peerSettings    map[http2.SettingID]uint32 // acknowledged peer settings

	// peer as sender.
	outConnWindow int64
	outIWS        int64
	goSettings    map[http2.SettingID]uint32 // settings advertised by grpc-go (applied on receipt)
	goUnacked     int                        // SETTINGS from grpc-go the peer has not acknowledged

	lastInNewID  uint32 // highest stream id opened by grpc-go (client)
	lastOutNewID uint32
	openCount    int
	inBlock      uint32 // stream id of the header block grpc-go is in the middle of (0 = none)
	inBlockFrame *Frame
	outBlock     uint32

	inGoAways, outGoAways []*Frame
	inPings               []*Frame // non-ACK PINGs from grpc-go
	inPingAcks            int

	violations []Violation
	stats      Stats
	tainted    bool // raw bytes were written: Out accounting may be incomplete
}

func newLedger(role Role) *Ledger {
	return &Ledger{role: role, streams: map[uint32]*Stream{}, inConnWindow: DefaultWindow, inIWS: DefaultWindow,
		outConnWindow: DefaultWindow, outIWS: DefaultWindow, peerSettings: map[http2.SettingID]uint32{},
		goSettings: map[http2.SettingID]uint32{}}
}

func (l *Ledger) violate(kind string, f *Frame, format string, a ...any) {
	l.violations = append(l.violations, Violation{Kind: kind, Seq: f.Seq, Msg: fmt.Sprintf(format, a...) + " (" + f.String() + ")"})
}

func (l *Ledger) stream(id uint32) *Stream { return l.streams[id] }

func (l *Ledger) openStream(id uint32, f *Frame) *Stream {
	s := &Stream{ID: id, OpenSeq: f.Seq, InWindow: l.inIWS, OutWindow: l.outIWS}
	l.streams[id] = s
	l.order = append(l.order, id)
	l.openCount++
	if l.openCount > l.stats.MaxOpen {
		l.stats.MaxOpen = l.openCount
	}
	return s
}

func (l *Ledger) refreshClosed(s *Stream, f *Frame) {
	if s.Closed {
		return
	}
	if s.InRST || s.OutRST || (s.InEnd && s.OutEnd) {
		s.Closed = true
		s.ClosedSeq = f.Seq
		l.openCount--
	}
}

// record assigns the sequence number and applies the frame. Callers hold no lock.
func (l *Ledger) record(f *Frame) {
	l.mu.Lock()
	defer l.mu.Unlock()
	f.Seq = l.seq
	l.seq++
	l.frames = append(l.frames, f)
	if f.Dir == In {
		l.applyIn(f)
	} else {
		l.applyOut(f)
	}
}

func (l *Ledger) grpcIsClient() bool { return l.role == ServerRole }

func (l *Ledger) applyIn(f *Frame) {
	if f.Length > MaxFrameLen {
		switch f.Type {
		case http2.FrameData:
			l.violate("frame.size.data", f, "DATA frame of %d bytes exceeds 16384", f.Length)
		case http2.FrameHeaders, http2.FrameContinuation:
			l.violate("frame.size.headers", f, "%v frame of %d bytes exceeds 16384", f.Type, f.Length)
		default:
			l.violate("frame.size.other", f, "%v frame of %d bytes exceeds 16384", f.Type, f.Length)
		}
	}
	switch f.Type {
	case http2.FrameData:
		l.stats.InDataFrames++
		l.stats.InDataBytes += int64(f.Length)
		n := int64(f.Length)
		if n > 0 && n > l.inConnWindow { // a zero-length DATA frame is always allowed (RFC 7540 6.9.1)
			l.violate("window.conn", f, "DATA of %d bytes exceeds the connection window %d granted by the peer", n, l.inConnWindow)
		}
		l.inConnWindow -= n
		if n > 0 && l.inConnWindow == 0 {
			l.stats.InConnZeroHits++
		}
		s := l.stream(f.StreamID)
		if s == nil {
			l.violate("stream.idle", f, "DATA on a stream without HEADERS")
			return
		}
		if n > 0 && n > s.InWindow {
			l.violate("window.stream", f, "DATA of %d bytes exceeds the stream window %d granted by the peer (IWS in force %d)", n, s.InWindow, l.inIWS)
		}
		s.InWindow -= n
		if n > 0 && s.InWindow == 0 {
			s.InZeroWindowHits++
			l.stats.InStreamZeroHits++
		}
		l.inContent(s, f)
		if s.OutRST {
			s.InDataAfterOutRST++
		}
		s.InData = append(s.InData, f.Data...)
		s.InDataFrames++
		if f.EndStream() {
			s.InEnd, s.InEndSeq = true, f.Seq
		}
		l.refreshClosed(s, f)
	case http2.FrameHeaders:
		if f.FragLen > l.stats.InMaxFragLen {
			l.stats.InMaxFragLen = f.FragLen
		}
		s := l.stream(f.StreamID)
		if l.grpcIsClient() {
			if s == nil {
				if f.StreamID%2 != 1 || f.StreamID <= l.lastInNewID {
					l.violate("stream.id", f, "new stream id %d is not odd and greater than the previous one (%d)", f.StreamID, l.lastInNewID)
				}
				if f.StreamID > l.lastInNewID {
					l.lastInNewID = f.StreamID
				}
				s = l.openStream(f.StreamID, f)
				if l.openCount > l.stats.MaxOpenAtHeaders {
					l.stats.MaxOpenAtHeaders = l.openCount
				}
				if l.maxConcSet {
					if uint64(l.openCount) > uint64(l.maxConcurrent) {
						// Streams the peer (server) has ended with END_STREAM while the
						// client has neither ended nor reset them are half-closed: they
						// count (RFC 7540 5.1.2) but get their own kind.
						dangling := 0
						var danglingIDs []string
						for _, id := range l.order {
							if st := l.streams[id]; !st.Closed && st.OutEnd && !st.InEnd {
								dangling++
								danglingIDs = append(danglingIDs, fmt.Sprint(id))
							}
						}
						if uint64(l.openCount-dangling) > uint64(l.maxConcurrent) {
							l.violate("stream.maxconcurrent", f, "HEADERS opens stream %d: %d streams open (%d of them ended by the peer only) > MAX_CONCURRENT_STREAMS %d in force", f.StreamID, l.openCount, dangling, l.maxConcurrent)
						} else {
							l.violate("stream.halfclosed_over_limit", f, "HEADERS opens stream %d: %d streams open > MAX_CONCURRENT_STREAMS %d in force, counting %d stream(s) that the peer ended (END_STREAM) but grpc-go neither ended nor reset [dangling ids: %s]", f.StreamID, l.openCount, l.maxConcurrent, dangling, strings.Join(danglingIDs, " "))
						}
					} else if uint64(l.openCount) == uint64(l.maxConcurrent) {
						l.stats.StreamsAtLimit++
					}
				}
			} else {
				l.violate("stream.headers", f, "client sent a second header block on stream %d", f.StreamID)
			}
		} else {
			if s == nil {
				l.violate("stream.idle", f, "server sent HEADERS on a stream the peer never opened")
				s = l.openStream(f.StreamID, f)
			} else if s.InHeaderBlocks >= 1 && !f.EndStream() {
				l.violate("stream.headers", f, "server sent a second header block without END_STREAM on stream %d", f.StreamID)
			}
		}
		l.inContent(s, f)
		s.InHeaderBlocks++
		if f.EndStream() {
			s.InEnd, s.InEndSeq, s.InEndOnHeaders = true, f.Seq, true
		}
		if !f.EndHeaders() {
			l.inBlock, l.inBlockFrame = f.StreamID, f
		}
		l.refreshClosed(s, f)
	case http2.FrameContinuation:
		l.stats.InContinuations++
		if f.FragLen > l.stats.InMaxFragLen {
			l.stats.InMaxFragLen = f.FragLen
		}
		if s := l.stream(f.StreamID); s != nil {
			s.InContentSeqs = append(s.InContentSeqs, f.Seq)
		}
		if f.EndHeaders() {
			l.inBlock, l.inBlockFrame = 0, nil
		}
	case http2.FrameRSTStream:
		s := l.stream(f.StreamID)
		if s == nil {
			l.violate("stream.idle", f, "RST_STREAM on an idle stream")
			return
		}
		if s.InRST {
			l.violate("stream.rst_twice", f, "second RST_STREAM from grpc-go on stream %d", f.StreamID)
		}
		if s.InEnd && !l.grpcIsClient() {
			if f.ErrCode == http2.ErrCodeNo && !s.InRST {
				l.stats.InRSTAfterTrailers++
			} else if !s.InRST {
				l.violate("stream.rst_after_trailers", f, "server sent RST_STREAM(%v) after its END_STREAM on stream %d", f.ErrCode, f.StreamID)
			}
		}
		if !s.InRST {
			s.InRST, s.InRSTCode, s.InRSTSeq = true, f.ErrCode, f.Seq
		}
		l.refreshClosed(s, f)
	case http2.FrameWindowUpdate:
		if f.StreamID == 0 {
			l.outConnWindow += int64(f.Increment)
			if l.outConnWindow > MaxWindow {
				l.violate("window.overflow.conn", f, "connection window advertised by grpc-go reaches %d > 2^31-1", l.outConnWindow)
			}
			return
		}
		s := l.stream(f.StreamID)
		if s == nil {
			l.violate("stream.idle", f, "WINDOW_UPDATE on an idle stream")
			return
		}
		if s.InEnd || s.InRST {
			s.InWUAfterClose++
			l.stats.InWUAfterClose++
		}
		s.OutWindow += int64(f.Increment)
		if s.OutWindow > MaxWindow {
			l.violate("window.overflow.stream", f, "stream window advertised by grpc-go reaches %d > 2^31-1", s.OutWindow)
		}
	case http2.FrameSettings:
		if f.IsAck() {
			l.stats.InSettingsAcks++
			if len(l.pendingSettings) == 0 {
				l.violate("settings.ack", f, "SETTINGS ACK without an outstanding SETTINGS from the peer")
				return
			}
			ss := l.pendingSettings[0]
			l.pendingSettings = l.pendingSettings[1:]
			l.applyPeerSettings(ss, f)
			return
		}
		l.goUnacked++
		for _, s := range f.Settings {
			l.goSettings[s.ID] = s.Val
			if s.ID == http2.SettingInitialWindowSize {
				delta := int64(s.Val) - l.outIWS
				l.outIWS = int64(s.Val)
				for _, id := range l.order {
					st := l.streams[id]
					st.OutWindow += delta
					if st.OutWindow > MaxWindow && !st.Closed {
						l.violate("window.overflow.stream", f, "SETTINGS_INITIAL_WINDOW_SIZE=%d raises the advertised window of stream %d to %d > 2^31-1", s.Val, id, st.OutWindow)
					}
				}
			}
		}
	case http2.FramePing:
		if f.IsAck() {
			l.inPingAcks++
		} else {
			l.inPings = append(l.inPings, f)
		}
	case http2.FrameGoAway:
		if n := len(l.inGoAways); n > 0 && f.LastStreamID > l.inGoAways[n-1].LastStreamID {
			l.violate("goaway.increasing", f, "GOAWAY last-stream-id %d exceeds the previous one %d", f.LastStreamID, l.inGoAways[n-1].LastStreamID)
		}
		l.inGoAways = append(l.inGoAways, f)
	}
}

// inContent checks placement of a content frame (DATA/HEADERS) written by grpc-go.
func (l *Ledger) inContent(s *Stream, f *Frame) {
	if s.InRST {
		l.violate("stream.after_rst", f, "%v on stream %d after grpc-go's own RST_STREAM (#%d)", f.Type, s.ID, s.InRSTSeq)
	} else if s.InEnd {
		l.violate("stream.after_end", f, "%v on stream %d after grpc-go's own END_STREAM (#%d)", f.Type, s.ID, s.InEndSeq)
	}
	s.InContentSeqs = append(s.InContentSeqs, f.Seq)
}

func (l *Ledger) applyPeerSettings(ss []http2.Setting, ack *Frame) {
	for _, s := range ss {
		l.peerSettings[s.ID] = s.Val
		switch s.ID {
		case http2.SettingInitialWindowSize:
			delta := int64(s.Val) - l.inIWS
			l.inIWS = int64(s.Val)
			for _, id := range l.order {
				st := l.streams[id]
				was := st.InWindow
				st.InWindow += delta
				if was >= 0 && st.InWindow < 0 && !st.Closed {
					st.InWentNegative = true
					l.stats.IWSLoweredBelowOutstanding++
				}
			}
		case http2.SettingMaxConcurrentStreams:
			l.maxConcurrent, l.maxConcSet = s.Val, true
			if uint64(l.openCount) > uint64(s.Val) {
				l.stats.OpenAboveLimitAfterLowering++
			}
		}
	}
}

func (l *Ledger) applyOut(f *Frame) {
	switch f.Type {
	case http2.FrameData:
		n := int64(f.Length)
		l.stats.OutDataFrames++
		l.stats.OutFlowBytes += n
		over := n > l.outConnWindow
		l.outConnWindow -= n
		s := l.stream(f.StreamID)
		if s != nil {
			if n > s.OutWindow {
				over = true
				s.OutOverWindow = true
			}
			s.OutWindow -= n
			s.OutDataBytes += int64(len(f.Data))
			s.OutFlowBytes += n
			if f.EndStream() {
				s.OutEnd, s.OutEndSeq = true, f.Seq
			}
			l.refreshClosed(s, f)
		}
		if over {
			l.stats.OutOverWindow++
		}
	case http2.FrameHeaders:
		s := l.stream(f.StreamID)
		if s == nil {
			// The peer opens a stream (client role) -- or pushes nonsense (server role).
			s = l.openStream(f.StreamID, f)
			if f.StreamID > l.lastOutNewID {
				l.lastOutNewID = f.StreamID
			}
		}
		s.OutHeaderBlocks++
		if f.EndStream() {
			s.OutEnd, s.OutEndSeq = true, f.Seq
		}
		l.refreshClosed(s, f)
	case http2.FrameRSTStream:
		if s := l.stream(f.StreamID); s != nil {
			if !s.OutRST {
				s.OutRST, s.OutRSTCode, s.OutRSTSeq = true, f.ErrCode, f.Seq
			}
			l.refreshClosed(s, f)
		}
	case http2.FrameWindowUpdate:
		if f.StreamID == 0 {
			l.inConnWindow += int64(f.Increment)
			return
		}
		if s := l.stream(f.StreamID); s != nil {
			s.InWindow += int64(f.Increment)
		}
	case http2.FrameSettings:
		if f.IsAck() {
			if l.goUnacked > 0 {
				l.goUnacked--
			}
			return
		}
		l.pendingSettings = append(l.pendingSettings, append([]http2.Setting(nil), f.Settings...))
	case http2.FrameGoAway:
		l.outGoAways = append(l.outGoAways, f)
	}
}

// ---- queries ----

// Violations returns the violations whose Kind starts with one of the given
// prefixes (all violations when none is given), formatted.
func (l *Ledger) Violations(prefixes ...string) []string {
	l.mu.Lock()
	defer l.mu.Unlock()
	var out []string
	for _, v := range l.violations {
		if len(prefixes) == 0 {
			out = append(out, v.String())
			continue
		}
		for _, p := range prefixes {
			if strings.HasPrefix(v.Kind, p) {
				out = append(out, v.String())
				break
			}
		}
	}
	return out
}

// ViolationList returns the raw violations.
func (l *Ledger) ViolationList() []Violation {
	l.mu.Lock()
	defer l.mu.Unlock()
	return append([]Violation(nil), l.violations...)
}

// Stats returns the counters.
func (l *Ledger) Stats() Stats { l.mu.Lock(); defer l.mu.Unlock(); return l.stats }

// Stream returns a snapshot of stream id.
func (l *Ledger) Stream(id uint32) (Stream, bool) {
	l.mu.Lock()
	defer l.mu.Unlock()
	s := l.streams[id]
	if s == nil {
		return Stream{}, false
	}
	c := *s
	c.InContentSeqs = append([]int(nil), s.InContentSeqs...)
	return c, true
}

// StreamIDByPath returns the id of the first stream whose opening HEADERS
// (either direction) carried the given :path.
func (l *Ledger) StreamIDByPath(path string) (uint32, bool) {
	l.mu.Lock()
	defer l.mu.Unlock()
	for _, f := range l.frames {
		if f.Type != http2.FrameHeaders || !f.BlockComplete {
			continue
		}
		for _, hf := range f.Fields {
			if hf.Name == ":path" {
				if hf.Value == path {
					return f.StreamID, true
				}
				break
			}
		}
	}
	return 0, false
}

// StreamIDs returns the ids of all streams in creation order.
func (l *Ledger) StreamIDs() []uint32 {
	l.mu.Lock()
	defer l.mu.Unlock()
	return append([]uint32(nil), l.order...)
}

// Streams returns snapshots of all streams in creation order.
func (l *Ledger) Streams() []Stream {
	l.mu.Lock()
	defer l.mu.Unlock()
	out := make([]Stream, 0, len(l.order))
	for _, id := range l.order {
		out = append(out, *l.streams[id])
	}
	return out
}

// Frames returns all recorded frames in ledger order (do not modify).
func (l *Ledger) Frames() []*Frame {
	l.mu.Lock()
	defer l.mu.Unlock()
	return append([]*Frame(nil), l.frames...)
}

// NumFrames returns the number of frames recorded so far.
func (l *Ledger) NumFrames() int { l.mu.Lock(); defer l.mu.Unlock(); return len(l.frames) }

// FramesOf returns the frames of one direction (and one stream if id != 0 or
// anyStream is false).
func (l *Ledger) FramesOf(dir Dir, streamID uint32, anyStream bool) []*Frame {
	l.mu.Lock()
	defer l.mu.Unlock()
	var out []*Frame
	for _, f := range l.frames {
		if f.Dir == dir && (anyStream || f.StreamID == streamID) {
			out = append(out, f)
		}
	}
	return out
}

// InConnWindow is grpc-go's connection send window as granted by the peer.
func (l *Ledger) InConnWindow() int64 { l.mu.Lock(); defer l.mu.Unlock(); return l.inConnWindow }

// InStreamWindow is grpc-go's send window on stream id as granted by the peer.
func (l *Ledger) InStreamWindow(id uint32) int64 {
	l.mu.Lock()
	defer l.mu.Unlock()
	if s := l.streams[id]; s != nil {
		return s.InWindow
	}
	return l.inIWS
}

// InIWS is the peer's SETTINGS_INITIAL_WINDOW_SIZE in force for grpc-go (i.e. acknowledged).
func (l *Ledger) InIWS() int64 { l.mu.Lock(); defer l.mu.Unlock(); return l.inIWS }

// PendingIWS returns the largest SETTINGS_INITIAL_WINDOW_SIZE value among the
// peer SETTINGS that grpc-go has not yet acknowledged (grpc-go may already be
// applying any of them).
func (l *Ledger) PendingIWS() (int64, bool) {
	l.mu.Lock()
	defer l.mu.Unlock()
	v, ok := int64(0), false
	for _, ss := range l.pendingSettings {
		for _, s := range ss {
			if s.ID == http2.SettingInitialWindowSize && (!ok || int64(s.Val) > v) {
				v, ok = int64(s.Val), true
			}
		}
	}
	return v, ok
}

// UnackedPeerSettings is the number of peer SETTINGS frames grpc-go has not acknowledged.
func (l *Ledger) UnackedPeerSettings() int {
	l.mu.Lock()
	defer l.mu.Unlock()
	return len(l.pendingSettings)
}

// OutConnWindow is the peer's connection send window as granted by grpc-go.
func (l *Ledger) OutConnWindow() int64 { l.mu.Lock(); defer l.mu.Unlock(); return l.outConnWindow }

// OutStreamWindow is the peer's send window on stream id as granted by grpc-go.
func (l *Ledger) OutStreamWindow(id uint32) int64 {
	l.mu.Lock()
	defer l.mu.Unlock()
	if s := l.streams[id]; s != nil {
		return s.OutWindow
	}
	return l.outIWS
}

// OutIWS is grpc-go's advertised SETTINGS_INITIAL_WINDOW_SIZE.
func (l *Ledger) OutIWS() int64 { l.mu.Lock(); defer l.mu.Unlock(); return l.outIWS }

// OpenCount is the number of streams that are open or half-closed.
func (l *Ledger) OpenCount() int { l.mu.Lock(); defer l.mu.Unlock(); return l.openCount }

// MaxConcurrentInForce returns the peer's MAX_CONCURRENT_STREAMS acknowledged
// by grpc-go (ok=false: never set, i.e. unlimited).
func (l *Ledger) MaxConcurrentInForce() (uint32, bool) {
	l.mu.Lock()
	defer l.mu.Unlock()
	return l.maxConcurrent, l.maxConcSet
}

// GoSetting returns a setting advertised by grpc-go.
func (l *Ledger) GoSetting(id http2.SettingID) (uint32, bool) {
	l.mu.Lock()
	defer l.mu.Unlock()
	v, ok := l.goSettings[id]
	return v, ok
}

// GoAways returns the GOAWAY frames seen in the given direction.
func (l *Ledger) GoAways(dir Dir) []*Frame {
	l.mu.Lock()
	defer l.mu.Unlock()
	if dir == In {
		return append([]*Frame(nil), l.inGoAways...)
	}
	return append([]*Frame(nil), l.outGoAways...)
}

// InPings returns the non-ACK PING frames received from grpc-go.
func (l *Ledger) InPings() []*Frame {
	l.mu.Lock()
	defer l.mu.Unlock()
	return append([]*Frame(nil), l.inPings...)
}

// Tainted reports whether raw bytes were written (Out accounting incomplete).
func (l *Ledger) Tainted() bool { l.mu.Lock(); defer l.mu.Unlock(); return l.tainted }

func (l *Ledger) setTainted() { l.mu.Lock(); l.tainted = true; l.mu.Unlock() }
