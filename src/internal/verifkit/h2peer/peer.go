// Package h2peer is a scripted HTTP/2 endpoint (client role or server role)
// for driving a real grpc-go transport from the /verif harness. It is built on
// an independent golang.org/x/net/http2.Framer and hpack encoder/decoder (it
// shares no code with grpc-go's internal/transport) and imports nothing from
// grpc, so it can also be used from in-package tests of internal/transport.
// Helpers that start a real grpc-go transport against a Peer are in the
// sub-package h2peer/h2grpc.
//
// A Peer
//   - performs its half of the connection preface on New (server role: sends
//     SETTINGS; client role: sends the magic + SETTINGS) and consumes the other
//     half in its reader goroutine;
//   - lets the harness write arbitrary frames (WriteHeaders incl. CONTINUATION
//     splitting / END_STREAM, WriteData with optional padding,
//     WriteWindowUpdate, WriteSettings(+Ack), WritePing, WriteRSTStream,
//     WriteGoAway, WriteRaw);
//   - records every frame read from grpc-go in wire order, with decoded header
//     lists (Ledger().Frames());
//   - acknowledges SETTINGS and PING automatically unless told otherwise;
//   - maintains a Ledger: per direction the connection window and per-stream
//     windows, SETTINGS_INITIAL_WINDOW_SIZE in force (a peer SETTINGS applies to
//     grpc-go as sender at the moment grpc-go's SETTINGS ACK is seen on the wire;
//     WINDOW_UPDATE credit counts from the moment the peer writes it), stream
//     states, END_STREAM / RST_STREAM / trailers placement, concatenated DATA
//     payload per stream, HEADERS/CONTINUATION fragment sizes,
//     MAX_CONCURRENT_STREAMS in force, GOAWAY ids. Invariants are evaluated on
//     every frame; violations are collected as strings (Ledger().Violations()).
//
// Violation kinds (prefix-selectable in Ledger.Violations):
//
//	frame.size.data / frame.size.headers / frame.size.other   frame longer than 16384
//	frame.invalid                 the independent framer rejected what grpc-go wrote
//	window.conn / window.stream   DATA beyond the window granted by the peer
//	window.overflow.conn/.stream  grpc-go advertised a window > 2^31-1
//	stream.idle                   frame on a stream that was never opened
//	stream.after_end / stream.after_rst   DATA/HEADERS after grpc-go's own END_STREAM / RST_STREAM
//	stream.rst_twice / stream.rst_after_trailers
//	stream.headers                header block not allowed by the gRPC protocol
//	stream.id                     client stream id not odd / not increasing
//	stream.maxconcurrent          client opened a stream above MAX_CONCURRENT_STREAMS in force
//	stream.halfclosed_over_limit  same, but only when streams ended by the peer and neither ended
//	                              nor reset by the client are counted (they are half-closed)
//	settings.ack                  SETTINGS ACK without outstanding SETTINGS
//	goaway.increasing             GOAWAY last-stream-id increased
//
// All goroutines block only on channels (durably, for testing/synctest) as
// long as the net.Conn does (use vpipe). Create the Peer inside the bubble.
//
// Example (real grpc-go client against a scripted server, inside a bubble):
//
//	rig, err := h2grpc.NewClient(h2peer.Config{Settings: []http2.Setting{{ID: http2.SettingInitialWindowSize, Val: 100}}}, transport.ConnectOptions{})
//	s, _ := rig.CT.NewStream(ctx, &transport.CallHdr{Host: "h", Method: "/s/m"}, nil)
//	s.Write(hdr, payload, &transport.WriteOptions{Last: true})
//	synctest.Wait()
//	p := rig.Peer
//	p.WriteWindowUpdate(1, 1000)                     // grant stream credit
//	synctest.Wait()
//	st, _ := p.Ledger().Stream(1)                    // st.InData, st.InEnd, st.InWindow ...
//	p.WriteHeaders(h2peer.Headers{StreamID: 1, Fields: h2peer.ResponseHeaders()})
//	p.WriteHeaders(h2peer.Headers{StreamID: 1, Fields: h2peer.Trailers(0, ""), EndStream: true})
//	if v := p.Ledger().Violations("window.", "frame.size."); len(v) > 0 { ... }
//	rig.Close()
package h2peer

import (
	"bytes"
	"errors"
	"fmt"
	"io"
	"net"
	"strconv"
	"sync"

	"golang.org/x/net/http2"
	"golang.org/x/net/http2/hpack"
)

// Role is the HTTP/2 role the peer plays.
type Role int

const (
	// ServerRole: the peer is the HTTP/2 server; grpc-go is the client.
	ServerRole Role = iota
	// ClientRole: the peer is the HTTP/2 client; grpc-go is the server.
	ClientRole
)

// ClientPreface is the HTTP/2 connection preface magic.
const ClientPreface = "PRI * HTTP/2.0\r\n\r\nSM\r\n\r\n"

// Config configures a Peer. The zero value is a server-role peer that sends
// an empty SETTINGS frame and acknowledges SETTINGS and PINGs automatically.
type Config struct {
	Role Role
	// Settings are sent in the peer's preface SETTINGS frame.
	Settings []http2.Setting
	// ConnWindowBump > 0 sends WINDOW_UPDATE(0, n) right after the preface.
	ConnWindowBump uint32
	// ManualPreface: New writes nothing; the harness writes the preface
	// itself (WriteRaw / WriteSettings). The reader still consumes grpc-go's.
	ManualPreface bool
	// ManualSettingsAck / ManualPingAck disable the automatic ACKs.
	ManualSettingsAck bool
	ManualPingAck     bool
	// OnFrame, if set, is called on the reader goroutine for every frame read
	// from grpc-go after the ledger was updated and before automatic ACKs are
	// written. It may call the peer's Write methods.
	OnFrame func(*Frame)
}

// Peer is a scripted HTTP/2 endpoint.
type Peer struct {
	cfg  Config
	conn net.Conn
	led  *Ledger

	wmu  sync.Mutex // serialises writes; ledger Out order == wire order
	wbuf bytes.Buffer
	fr   *http2.Framer // writes into wbuf
	henc *hpack.Encoder
	hbuf bytes.Buffer
	werr error

	rfr  *http2.Framer // reads from conn
	dmu  sync.Mutex    // guards hdec
	hdec *hpack.Decoder

	nextID uint32 // client role: next stream id to open

	mu       sync.Mutex
	changed  chan struct{} // closed and replaced after every frame read / on exit
	done     chan struct{} // closed when the reader exits
	readErr  error
	prefaced bool
}

// New creates a Peer on conn, writes its half of the preface (unless
// cfg.ManualPreface) and starts the reader goroutine. With an unbounded vpipe
// New never blocks.
func New(conn net.Conn, cfg Config) *Peer {
	p := &Peer{cfg: cfg, conn: conn, led: newLedger(cfg.Role), changed: make(chan struct{}), done: make(chan struct{}), nextID: 1}
	p.fr = http2.NewFramer(&p.wbuf, nil)
	p.fr.AllowIllegalWrites = true
	p.henc = hpack.NewEncoder(&p.hbuf)
	p.rfr = http2.NewFramer(io.Discard, conn)
	p.rfr.SetMaxReadFrameSize(1<<24 - 1)
	p.rfr.AllowIllegalReads = true
	p.hdec = hpack.NewDecoder(4096, nil)
	if !cfg.ManualPreface {
		if cfg.Role == ClientRole {
			p.WriteRawUntainted([]byte(ClientPreface))
		}
		p.WriteSettings(cfg.Settings...)
		if cfg.ConnWindowBump > 0 {
			p.WriteWindowUpdate(0, cfg.ConnWindowBump)
		}
	}
	go p.reader()
	return p
}

// Ledger returns the peer's ledger.
func (p *Peer) Ledger() *Ledger { return p.led }

// Conn returns the peer's end of the connection.
func (p *Peer) Conn() net.Conn { return p.conn }

// Role returns the peer's role.
func (p *Peer) Role() Role { return p.cfg.Role }

// Done is closed when the reader goroutine has exited (connection closed by
// grpc-go, read error, or Close).
func (p *Peer) Done() <-chan struct{} { return p.done }

// ReadErr returns the error that ended the reader (nil while running).
func (p *Peer) ReadErr() error { p.mu.Lock(); defer p.mu.Unlock(); return p.readErr }

// Close closes the peer's end of the connection; the reader exits.
func (p *Peer) Close() { p.conn.Close() }

// Wait blocks until the reader goroutine has exited.
func (p *Peer) Wait() { <-p.done }

// Await blocks until cond() is true (evaluated after every frame read) or the
// reader exits; it returns cond()'s last value. In a bubble prefer
// synctest.Wait().
func (p *Peer) Await(cond func() bool) bool {
	for {
		p.mu.Lock()
		ch := p.changed
		p.mu.Unlock()
		if cond() {
			return true
		}
		select {
		case <-ch:
		case <-p.done:
			return cond()
		}
	}
}

func (p *Peer) signal() {
	p.mu.Lock()
	close(p.changed)
	p.changed = make(chan struct{})
	p.mu.Unlock()
}

func (p *Peer) reader() {
	var err error
	defer func() {
		p.mu.Lock()
		p.readErr = err
		p.mu.Unlock()
		close(p.done)
		p.signal()
	}()
	if p.cfg.Role == ServerRole {
		buf := make([]byte, len(ClientPreface))
		if _, err = io.ReadFull(p.conn, buf); err != nil {
			return
		}
		if string(buf) != ClientPreface {
			err = fmt.Errorf("h2peer: bad client preface %q", buf)
			p.led.mu.Lock()
			p.led.violations = append(p.led.violations, Violation{Kind: "frame.invalid", Msg: err.Error()})
			p.led.mu.Unlock()
			return
		}
	}
	p.mu.Lock()
	p.prefaced = true
	p.mu.Unlock()
	var block *Frame // HEADERS frame whose block is being assembled
	var blockBuf []byte
	for {
		var raw http2.Frame
		raw, err = p.rfr.ReadFrame()
		if err != nil {
			var se http2.StreamError
			var ce http2.ConnectionError
			if errors.As(err, &se) || errors.As(err, &ce) {
				p.led.mu.Lock()
				p.led.violations = append(p.led.violations, Violation{Kind: "frame.invalid", Seq: p.led.seq, Msg: "independent framer rejected a frame written by grpc-go: " + err.Error()})
				p.led.mu.Unlock()
				if errors.As(err, &se) {
					continue
				}
			}
			return
		}
		h := raw.Header()
		f := &Frame{Dir: In, Type: h.Type, Flags: h.Flags, StreamID: h.StreamID, Length: h.Length, PadLen: -1}
		switch fr := raw.(type) {
		case *http2.DataFrame:
			f.Data = append([]byte(nil), fr.Data()...)
			if h.Flags.Has(http2.FlagDataPadded) {
				f.PadLen = int(h.Length) - 1 - len(f.Data)
			}
		case *http2.HeadersFrame:
			frag := fr.HeaderBlockFragment()
			f.FragLen = len(frag)
			f.BlockFrags = []int{len(frag)}
			block, blockBuf = f, append([]byte(nil), frag...)
			if fr.HeadersEnded() {
				p.finishBlock(block, blockBuf)
				block, blockBuf = nil, nil
			}
		case *http2.ContinuationFrame:
			frag := fr.HeaderBlockFragment()
			f.FragLen = len(frag)
			if block != nil {
				block.BlockFrags = append(block.BlockFrags, len(frag))
				blockBuf = append(blockBuf, frag...)
				if fr.HeadersEnded() {
					p.finishBlock(block, blockBuf)
					block, blockBuf = nil, nil
				}
			}
		case *http2.SettingsFrame:
			if !fr.IsAck() {
				fr.ForeachSetting(func(s http2.Setting) error { f.Settings = append(f.Settings, s); return nil })
			}
		case *http2.WindowUpdateFrame:
			f.Increment = fr.Increment
		case *http2.RSTStreamFrame:
			f.ErrCode = fr.ErrCode
		case *http2.GoAwayFrame:
			f.ErrCode, f.LastStreamID = fr.ErrCode, fr.LastStreamID
			f.Debug = append([]byte(nil), fr.DebugData()...)
		case *http2.PingFrame:
			f.PingData = fr.Data
		}
		p.led.record(f)
		// Our hpack encoder must honour grpc-go's SETTINGS_HEADER_TABLE_SIZE.
		if f.Type == http2.FrameSettings && !f.IsAck() {
			for _, s := range f.Settings {
				if s.ID == http2.SettingHeaderTableSize {
					p.wmu.Lock()
					p.henc.SetMaxDynamicTableSizeLimit(s.Val)
					p.wmu.Unlock()
				}
			}
		}
		if p.cfg.OnFrame != nil {
			p.cfg.OnFrame(f)
		}
		if f.Type == http2.FrameSettings && !f.IsAck() && !p.cfg.ManualSettingsAck {
			p.WriteSettingsAck()
		}
		if f.Type == http2.FramePing && !f.IsAck() && !p.cfg.ManualPingAck {
			p.WritePing(true, f.PingData)
		}
		p.signal()
	}
}

func (p *Peer) finishBlock(hf *Frame, block []byte) {
	p.dmu.Lock()
	fields, err := p.hdec.DecodeFull(block)
	p.dmu.Unlock()
	if err != nil {
		p.led.mu.Lock()
		p.led.violations = append(p.led.violations, Violation{Kind: "frame.invalid", Seq: p.led.seq, Msg: "independent hpack decoder rejected a header block written by grpc-go: " + err.Error()})
		p.led.mu.Unlock()
	}
	// hf may already be in the ledger (block completed by a CONTINUATION):
	// publish under the ledger lock.
	p.led.mu.Lock()
	hf.Fields = fields
	hf.BlockComplete = true
	p.led.mu.Unlock()
}

// ---- writing ----

// flushLocked writes the framer's buffer to the connection as one Write.
func (p *Peer) flushLocked() error {
	if p.wbuf.Len() == 0 {
		return p.werr
	}
	if p.werr != nil {
		p.wbuf.Reset()
		return p.werr
	}
	// net.Conn.Write must not retain the slice, so no copy is needed.
	if _, err := p.conn.Write(p.wbuf.Bytes()); err != nil {
		p.werr = err
	}
	p.wbuf.Reset()
	return p.werr
}

func (p *Peer) out(f *Frame, write func() error) error {
	p.wmu.Lock()
	defer p.wmu.Unlock()
	f.Dir = Out
	if err := write(); err != nil {
		p.wbuf.Reset()
		return err
	}
	if f.Length == 0 && p.wbuf.Len() >= 9 {
		f.Length = uint32(p.wbuf.Len() - 9)
	}
	p.led.record(f) // before the bytes can reach grpc-go
	return p.flushLocked()
}

// WriteSettings writes a SETTINGS frame. For the ledger it takes effect on
// grpc-go's sending side when grpc-go's ACK is read.
func (p *Peer) WriteSettings(ss ...http2.Setting) error {
	f := &Frame{Type: http2.FrameSettings, Settings: append([]http2.Setting(nil), ss...), PadLen: -1}
	for _, s := range ss {
		if s.ID == http2.SettingHeaderTableSize {
			p.dmu.Lock()
			p.hdec.SetAllowedMaxDynamicTableSize(max(s.Val, 4096))
			p.dmu.Unlock()
		}
	}
	return p.out(f, func() error { return p.fr.WriteSettings(ss...) })
}

// WriteSettingsAck writes a SETTINGS ACK.
func (p *Peer) WriteSettingsAck() error {
	f := &Frame{Type: http2.FrameSettings, Flags: http2.FlagSettingsAck, PadLen: -1}
	return p.out(f, func() error { return p.fr.WriteSettingsAck() })
}

// WritePing writes a PING.
func (p *Peer) WritePing(ack bool, data [8]byte) error {
	f := &Frame{Type: http2.FramePing, PingData: data, PadLen: -1}
	if ack {
		f.Flags = http2.FlagPingAck
	}
	return p.out(f, func() error { return p.fr.WritePing(ack, data) })
}

// WriteWindowUpdate writes WINDOW_UPDATE (streamID 0 = connection). The
// ledger credits grpc-go immediately.
func (p *Peer) WriteWindowUpdate(streamID, incr uint32) error {
	f := &Frame{Type: http2.FrameWindowUpdate, StreamID: streamID, Increment: incr, PadLen: -1}
	return p.out(f, func() error { return p.fr.WriteWindowUpdate(streamID, incr) })
}

// WriteRSTStream writes RST_STREAM.
func (p *Peer) WriteRSTStream(streamID uint32, code http2.ErrCode) error {
	f := &Frame{Type: http2.FrameRSTStream, StreamID: streamID, ErrCode: code, PadLen: -1}
	return p.out(f, func() error { return p.fr.WriteRSTStream(streamID, code) })
}

// WriteGoAway writes GOAWAY.
func (p *Peer) WriteGoAway(lastStreamID uint32, code http2.ErrCode, debug []byte) error {
	f := &Frame{Type: http2.FrameGoAway, LastStreamID: lastStreamID, ErrCode: code, Debug: append([]byte(nil), debug...), PadLen: -1}
	return p.out(f, func() error { return p.fr.WriteGoAway(lastStreamID, code, debug) })
}

// WriteData writes one DATA frame. padLen < 0: unpadded; 0..255: PADDED flag
// set with that many padding bytes (the flow-controlled length is then
// len(data)+1+padLen). No size or window check is made.
func (p *Peer) WriteData(streamID uint32, data []byte, endStream bool, padLen int) error {
	f := &Frame{Type: http2.FrameData, StreamID: streamID, Data: append([]byte(nil), data...), PadLen: -1}
	if endStream {
		f.Flags |= http2.FlagDataEndStream
	}
	length := len(data)
	if padLen >= 0 {
		if padLen > 255 {
			padLen = 255
		}
		f.Flags |= http2.FlagDataPadded
		f.PadLen = padLen
		length += 1 + padLen
	}
	f.Length = uint32(length)
	return p.out(f, func() error {
		hdr := []byte{byte(length >> 16), byte(length >> 8), byte(length), byte(http2.FrameData), byte(f.Flags),
			byte(streamID >> 24), byte(streamID >> 16), byte(streamID >> 8), byte(streamID)}
		p.wbuf.Write(hdr)
		if padLen >= 0 {
			p.wbuf.WriteByte(byte(padLen))
		}
		p.wbuf.Write(data)
		if padLen > 0 {
			p.wbuf.Write(make([]byte, padLen))
		}
		return nil
	})
}

// Headers describes a header block to write.
type Headers struct {
	StreamID  uint32
	Fields    []hpack.HeaderField
	EndStream bool
	// FragSizes splits the encoded block: the HEADERS frame carries
	// FragSizes[0] bytes, each following CONTINUATION FragSizes[i] (the last
	// entry is repeated; entries < 1 count as 1). Empty = one HEADERS frame if
	// the block fits into 16384 bytes, else 16384-byte fragments.
	FragSizes []int
	// Block, if non-nil, is used instead of encoding Fields.
	Block []byte
	// NoEndHeaders leaves END_HEADERS off the last frame (hostile).
	NoEndHeaders bool
}

// EncodeHeaders hpack-encodes fields with the peer's encoder state.
func (p *Peer) EncodeHeaders(fields []hpack.HeaderField) []byte {
	p.wmu.Lock()
	defer p.wmu.Unlock()
	return p.encodeLocked(fields)
}

func (p *Peer) encodeLocked(fields []hpack.HeaderField) []byte {
	p.hbuf.Reset()
	for _, f := range fields {
		p.henc.WriteField(f)
	}
	return append([]byte(nil), p.hbuf.Bytes()...)
}

// WriteHeaders writes a header block as HEADERS (+ CONTINUATION) frames,
// contiguously.
func (p *Peer) WriteHeaders(h Headers) error {
	p.wmu.Lock()
	defer p.wmu.Unlock()
	block := h.Block
	if block == nil {
		block = p.encodeLocked(h.Fields)
	}
	var frags [][]byte
	sizes := h.FragSizes
	if len(sizes) == 0 {
		sizes = []int{MaxFrameLen}
	}
	rest := block
	for i := 0; ; i++ {
		sz := sizes[min(i, len(sizes)-1)]
		if sz < 1 {
			sz = 1
		}
		if sz >= len(rest) {
			frags = append(frags, rest)
			break
		}
		frags = append(frags, rest[:sz])
		rest = rest[sz:]
	}
	for i, frag := range frags {
		last := i == len(frags)-1
		endHeaders := last && !h.NoEndHeaders
		f := &Frame{Dir: Out, StreamID: h.StreamID, FragLen: len(frag), PadLen: -1, Length: uint32(len(frag))}
		var err error
		if i == 0 {
			f.Type = http2.FrameHeaders
			f.Fields = append([]hpack.HeaderField(nil), h.Fields...)
			f.BlockComplete = !h.NoEndHeaders
			for _, g := range frags {
				f.BlockFrags = append(f.BlockFrags, len(g))
			}
			if h.EndStream {
				f.Flags |= http2.FlagHeadersEndStream
			}
			if endHeaders {
				f.Flags |= http2.FlagHeadersEndHeaders
			}
			err = p.fr.WriteHeaders(http2.HeadersFrameParam{StreamID: h.StreamID, BlockFragment: frag, EndStream: h.EndStream, EndHeaders: endHeaders})
		} else {
			f.Type = http2.FrameContinuation
			if endHeaders {
				f.Flags |= http2.FlagContinuationEndHeaders
			}
			err = p.fr.WriteContinuation(h.StreamID, endHeaders, frag)
		}
		if err != nil {
			p.wbuf.Reset()
			return err
		}
		p.led.record(f)
	}
	return p.flushLocked()
}

// WriteContinuation writes a single CONTINUATION frame.
func (p *Peer) WriteContinuation(streamID uint32, endHeaders bool, frag []byte) error {
	f := &Frame{Type: http2.FrameContinuation, StreamID: streamID, FragLen: len(frag), PadLen: -1}
	if endHeaders {
		f.Flags = http2.FlagContinuationEndHeaders
	}
	return p.out(f, func() error { return p.fr.WriteContinuation(streamID, endHeaders, frag) })
}

// WriteRaw writes arbitrary bytes. They are not parsed: the ledger's Out
// accounting is marked tainted.
func (p *Peer) WriteRaw(b []byte) error {
	p.led.setTainted()
	return p.WriteRawUntainted(b)
}

// WriteRawUntainted writes bytes that do not affect the ledger (e.g. the
// client preface magic, unknown frame types).
func (p *Peer) WriteRawUntainted(b []byte) error {
	p.wmu.Lock()
	defer p.wmu.Unlock()
	p.wbuf.Write(b)
	return p.flushLocked()
}

// NextStreamID returns the next client-initiated stream id (1, 3, 5, ...) and
// advances the counter.
func (p *Peer) NextStreamID() uint32 {
	p.wmu.Lock()
	defer p.wmu.Unlock()
	id := p.nextID
	p.nextID += 2
	return id
}

// ---- gRPC header helpers ----

// RequestHeaders returns a valid gRPC request header list.
func RequestHeaders(method, authority string, extra ...hpack.HeaderField) []hpack.HeaderField {
	hf := []hpack.HeaderField{
		{Name: ":method", Value: "POST"},
		{Name: ":scheme", Value: "http"},
		{Name: ":path", Value: method},
		{Name: ":authority", Value: authority},
		{Name: "content-type", Value: "application/grpc"},
		{Name: "te", Value: "trailers"},
	}
	return append(hf, extra...)
}

// ResponseHeaders returns a valid gRPC response header list.
func ResponseHeaders(extra ...hpack.HeaderField) []hpack.HeaderField {
	hf := []hpack.HeaderField{{Name: ":status", Value: "200"}, {Name: "content-type", Value: "application/grpc"}}
	return append(hf, extra...)
}

// Trailers returns a gRPC trailer list (not trailers-only: no :status).
func Trailers(code int, msg string, extra ...hpack.HeaderField) []hpack.HeaderField {
	hf := []hpack.HeaderField{{Name: "grpc-status", Value: strconv.Itoa(code)}}
	if msg != "" {
		hf = append(hf, hpack.HeaderField{Name: "grpc-message", Value: msg})
	}
	return append(hf, extra...)
}

// TrailersOnly returns a gRPC trailers-only response header list.
func TrailersOnly(code int, msg string, extra ...hpack.HeaderField) []hpack.HeaderField {
	return append(ResponseHeaders(), Trailers(code, msg, extra...)...)
}
