// Package h2grpc starts a real grpc-go transport (internal/transport
// http2Client or http2Server) against a scripted h2peer.Peer over a vpipe.
// Call it inside a testing/synctest bubble (vk.Bubble); everything it
// creates blocks durably only.
//
// Client under test:
//
//	rig, err := h2grpc.NewClient(h2peer.Config{Settings: ...}, transport.ConnectOptions{})
//	defer rig.Close()
//	s, err := rig.CT.NewStream(ctx, &transport.CallHdr{Host: "h", Method: "/svc/m"}, nil)
//	... rig.Peer.WriteHeaders / WriteWindowUpdate ..., synctest.Wait(), rig.Peer.Ledger() ...
//
// Server under test:
//
//	rig, err := h2grpc.NewServer(h2peer.Config{}, &transport.ServerConfig{}, func(s *transport.ServerStream) { ... })
//	defer rig.Close()
//	id := rig.Peer.NextStreamID()
//	rig.Peer.WriteHeaders(h2peer.Headers{StreamID: id, Fields: h2peer.RequestHeaders("/svc/m", "h")})
//
// NOTE: the stream handler passed to NewServer runs on the transport's reader
// goroutine (like grpc.Server's); it must not block — hand the stream to
// another goroutine.
package h2grpc

import (
	"context"
	"errors"
	"math"
	"net"
	"sync"

	"google.golang.org/grpc/internal/transport"
	"google.golang.org/grpc/internal/verifkit/h2peer"
	"google.golang.org/grpc/internal/verifkit/vpipe"
	"google.golang.org/grpc/mem"
	"google.golang.org/grpc/resolver"
)

// ClientRig is a real http2Client connected to a server-role Peer.
type ClientRig struct {
	Peer     *h2peer.Peer
	CT       transport.ClientTransport
	Conn     *vpipe.Conn // grpc-go's end
	PeerConn *vpipe.Conn // the peer's end

	mu     sync.Mutex
	closes []transport.GoAwayInfo // onClose callbacks received
	closed bool
}

// CloseInfos returns the GoAwayInfo values passed to the transport's onClose callback so far.
func (r *ClientRig) CloseInfos() []transport.GoAwayInfo {
	r.mu.Lock()
	defer r.mu.Unlock()
	return append([]transport.GoAwayInfo(nil), r.closes...)
}

// ClientOptions tune NewClientWith.
type ClientOptions struct {
	// Pipe customises the two ends before use (addresses, segmentation, faults).
	Pipe func(grpcEnd, peerEnd *vpipe.Conn)
	// Addr is the resolver address handed to NewHTTP2Client (default Addr "vpipe").
	Addr resolver.Address
	// ConnectCtx / Ctx default to context.Background().
	ConnectCtx, Ctx context.Context
}

// NewClient creates a vpipe, a server-role Peer on one end (cfg.Role is
// forced to ServerRole) and a real grpc-go client transport on the other.
// opts.Dialer and opts.BufferPool are filled in when unset.
func NewClient(cfg h2peer.Config, opts transport.ConnectOptions) (*ClientRig, error) {
	return NewClientWith(cfg, opts, ClientOptions{})
}

// NewClientWith is NewClient with extra knobs.
func NewClientWith(cfg h2peer.Config, opts transport.ConnectOptions, co ClientOptions) (*ClientRig, error) {
	cfg.Role = h2peer.ServerRole
	gc, pc := vpipe.New()
	if co.Pipe != nil {
		co.Pipe(gc, pc)
	}
	r := &ClientRig{Conn: gc, PeerConn: pc}
	r.Peer = h2peer.New(pc, cfg)
	if opts.Dialer == nil {
		opts.Dialer = func(context.Context, string) (net.Conn, error) { return gc, nil }
	}
	if opts.BufferPool == nil {
		opts.BufferPool = mem.DefaultBufferPool()
	}
	if co.Addr.Addr == "" {
		co.Addr.Addr = "vpipe"
	}
	if co.ConnectCtx == nil {
		co.ConnectCtx = context.Background()
	}
	if co.Ctx == nil {
		co.Ctx = context.Background()
	}
	ct, err := transport.NewHTTP2Client(co.ConnectCtx, co.Ctx, co.Addr, opts, func(gi transport.GoAwayInfo) {
		r.mu.Lock()
		r.closes = append(r.closes, gi)
		r.mu.Unlock()
	})
	if err != nil {
		pc.Close()
		gc.Close()
		r.Peer.Wait()
		return nil, err
	}
	r.CT = ct
	return r, nil
}

// Close tears everything down: the client transport is closed (all streams
// fail), then the peer's end; it returns when the peer's reader has exited.
// Safe to call more than once.
func (r *ClientRig) Close() {
	r.mu.Lock()
	if r.closed {
		r.mu.Unlock()
		return
	}
	r.closed = true
	r.mu.Unlock()
	r.CT.Close(errors.New("h2grpc: rig closed"))
	r.Peer.Close()
	r.Peer.Wait()
}

// ServerRig is a real http2Server connected to a client-role Peer.
type ServerRig struct {
	Peer     *h2peer.Peer
	ST       transport.ServerTransport
	Conn     *vpipe.Conn // grpc-go's end
	PeerConn *vpipe.Conn // the peer's end

	cancel context.CancelFunc
	done   chan struct{} // HandleStreams returned
	once   sync.Once
}

// ServerOptions tune NewServerWith.
type ServerOptions struct {
	Pipe func(grpcEnd, peerEnd *vpipe.Conn)
	Ctx  context.Context // context passed to HandleStreams (default Background)
}

// NewServer creates a vpipe, a client-role Peer on one end (cfg.Role is
// forced to ClientRole) and a real grpc-go server transport on the other, and
// starts HandleStreams with handle. sc may be nil; MaxStreams == 0 means
// unlimited (math.MaxUint32); BufferPool is filled in when unset.
func NewServer(cfg h2peer.Config, sc *transport.ServerConfig, handle func(*transport.ServerStream)) (*ServerRig, error) {
	return NewServerWith(cfg, sc, handle, ServerOptions{})
}

// NewServerWith is NewServer with extra knobs.
func NewServerWith(cfg h2peer.Config, sc *transport.ServerConfig, handle func(*transport.ServerStream), so ServerOptions) (*ServerRig, error) {
	cfg.Role = h2peer.ClientRole
	gc, pc := vpipe.New()
	if so.Pipe != nil {
		so.Pipe(gc, pc)
	}
	var c transport.ServerConfig
	if sc != nil {
		c = *sc
	}
	if c.MaxStreams == 0 {
		c.MaxStreams = math.MaxUint32
	}
	if c.BufferPool == nil {
		c.BufferPool = mem.DefaultBufferPool()
	}
	r := &ServerRig{Conn: gc, PeerConn: pc, done: make(chan struct{})}
	r.Peer = h2peer.New(pc, cfg)
	st, err := transport.NewServerTransport(gc, &c)
	if err != nil || st == nil {
		pc.Close()
		gc.Close()
		r.Peer.Wait()
		if err == nil {
			err = errors.New("h2grpc: NewServerTransport returned nil transport")
		}
		return nil, err
	}
	r.ST = st
	ctx := so.Ctx
	if ctx == nil {
		ctx = context.Background()
	}
	ctx, r.cancel = context.WithCancel(ctx)
	go func() {
		defer close(r.done)
		st.HandleStreams(ctx, handle)
	}()
	return r, nil
}

// HandleStreamsDone is closed when HandleStreams has returned.
func (r *ServerRig) HandleStreamsDone() <-chan struct{} { return r.done }

// Close closes the server transport and the peer and waits for
// HandleStreams and the peer's reader to exit. Safe to call more than once.
func (r *ServerRig) Close() {
	r.once.Do(func() {
		r.ST.Close(errors.New("h2grpc: rig closed"))
		r.Peer.Close()
		<-r.done
		r.cancel()
		r.Peer.Wait()
	})
}
