package sched

import "pgregory.net/rapid"

// Uniform draws an int (nearly) uniformly from [lo, hi]. rapid.IntRange and
// friends prefer small values and boundaries, strongly so for wide ranges;
// rapid.Bool is unbiased, so the value is assembled from boolean draws (it still
// shrinks towards lo). Use it where the harness needs an even spread.
func Uniform(rt *rapid.T, label string, lo, hi int) int {
	n := uint64(hi - lo + 1)
	if n <= 1 {
		return lo
	}
	bits := 3
	for m := n - 1; m > 0; m >>= 1 {
		bits++
	}
	var v uint64
	for i := 0; i < bits; i++ {
		v <<= 1
		if rapid.Bool().Draw(rt, label) {
			v |= 1
		}
	}
	return lo + int(v%n)
}

// GenSchedule draws a schedule list of at most maxLen choices in [0, width).
// The length is uniform in [0, maxLen] (unused elements are harmless), and
// choices come in short runs (the same value for 1..maxRun consecutive
// decisions), because races need one goroutine to take a few steps in a row
// while another one sits inside its critical window. The result is a plain
// list, so it shrinks element-wise (towards 0 = lowest id first) and replays
// without this function.
func GenSchedule(rt *rapid.T, label string, maxLen, width, maxRun int) []int {
	n := Uniform(rt, label+"_len", 0, maxLen)
	out := make([]int, 0, n)
	for len(out) < n {
		v := rapid.IntRange(0, width-1).Draw(rt, label+"_c")
		r := 1
		if maxRun > 1 {
			r = rapid.IntRange(1, maxRun).Draw(rt, label+"_r")
		}
		for ; r > 0 && len(out) < n; r-- {
			out = append(out, v)
		}
	}
	return out
}
