// Package sched is the cooperative scheduler of the /verif harness (DESIGN §4).
//
// It turns the verifhook yield points compiled into grpc-go (build tag
// "verif") into scheduling decisions taken from a list of small integers, so
// that an interleaving of a few goroutines is a *plan value* that rapid can
// generate, shrink and replay.
//
// Usage (always inside a testing/synctest bubble, e.g. vk.Bubble; the
// controller runs on the bubble's main goroutine):
//
//	c := sched.New(plan.Schedule)      // installs the verifhook handler
//	defer c.Close()                    // removes it
//	c.Go(0, func() { ... code under test ... })   // worker 0
//	c.Go(1, func() { ...; c.Yield("op"); ... })   // worker 1, with a harness yield point
//	for {
//		st := c.Step()                 // one scheduling decision, returns at quiescence
//		... inspect c.State(id), the real object, the model ...
//		if st.Kind != sched.Released { break }
//	}
//
// Semantics. Only goroutines registered as workers (Go, or Enter/Exit called on
// the goroutine itself) are affected: when a worker reaches a yield point
// (verifhook.Point in grpc-go, or Controller.Yield / Controller.Sleep in harness
// code) it parks on its own channel. Every other goroutine passes straight
// through the handler. Step does: synctest.Wait() (so every worker is parked,
// finished, or durably blocked inside the code under test) -> order the parked
// workers by id -> pick parked[choice mod len(parked)] where choice is the next
// unused element of the schedule (0 when the list is exhausted; no element is
// consumed when only one worker is parked) -> release it -> synctest.Wait()
// again -> return. Thus between two Steps exactly one worker is started; it
// runs until its next yield point, its end, or a blocking operation. A
// goroutine it wakes up on the way (channel send, close) also runs until its
// next yield point. Put a harness Yield at the start of every operation of
// every worker so that two goroutines never execute conflicting code
// concurrently; then the execution is a deterministic function of the schedule.
//
// Wedge detection: when Step finds nothing parked but unfinished workers, it
// returns Kind == Stuck with their ids: they are durably blocked inside the code
// under test and no registered worker can move. Whether that is a lost wake-up
// (violation) or legitimate blocking is the caller's model's decision. The
// caller may then act (close a channel, start another worker with Go, advance
// virtual time with Advance) and keep calling Step. Before leaving the bubble
// call Kill (after unblocking stuck workers) so that no goroutine is left.
//
// Yield points must not be reached while holding a mutex that another worker
// may need (mutex contention is not "durably blocked" for synctest.Wait and
// would hang the bubble); all verifhook points in grpc-go satisfy this.
package sched

import (
	"fmt"
	"runtime"
	"runtime/debug"
	"sort"
	"sync"
	"testing/synctest"
	"time"

	"google.golang.org/grpc/internal/verifhook"
)

// WorkerState is the controller's view of a worker at quiescence.
type WorkerState int

const (
	// Unknown: no worker with that id was ever registered.
	Unknown WorkerState = iota
	// Parked: waiting at a yield point for the controller.
	Parked
	// Running: released and not parked again; at quiescence (after Step
	// returned) this means "durably blocked inside the code under test".
	Running
	// Finished: the worker function returned (or was killed).
	Finished
)

func (s WorkerState) String() string {
	switch s {
	case Parked:
		return "parked"
	case Running:
		return "running/blocked"
	case Finished:
		return "finished"
	}
	return "unknown"
}

// Kind classifies the result of Step.
type Kind int

const (
	// Released: one parked worker was released and the system is quiescent again.
	Released Kind = iota
	// Done: nothing parked and every worker finished.
	Done
	// Stuck: nothing parked, but the workers listed in Step.Blocked have not
	// finished: they are durably blocked and no worker can move.
	Stuck
	// Panicked: a worker panicked (Step.Panic has value and stack). Nothing is
	// released any more; call Kill and leave.
	Panicked
	// Overrun: the step limit was exceeded (harness error / livelock).
	Overrun
)

func (k Kind) String() string {
	return [...]string{"released", "done", "stuck", "panicked", "overrun"}[k]
}

// Step is the result of one scheduling decision.
type Step struct {
	Kind    Kind
	Worker  int    // Released: id of the released worker
	Point   string // Released: the point it was released from
	Blocked []int  // Stuck: ids of unfinished workers, ascending
	Panic   string // Panicked
}

// TraceEntry records one release.
type TraceEntry struct {
	Worker int
	Point  string
}

type worker struct {
	id      int
	gid     uint64
	state   WorkerState
	point   string
	sleep   time.Duration
	release chan struct{}
}

// Controller is a cooperative scheduler for one bubble. Not reusable.
type Controller struct {
	// Filter, if set before the first Go, restricts parking to verifhook
	// points for which it returns true (Yield/Sleep always park).
	Filter func(point string) bool
	// MaxSteps bounds the number of releases (default 100000).
	MaxSteps int

	mu       sync.Mutex
	schedule []int
	next     int
	workers  map[int]*worker
	byGID    map[uint64]*worker
	killed   bool
	panicMsg string
	trace    []TraceEntry
	steps    int
}

// New creates a controller for the given schedule and installs the verifhook
// handler (process-global: one controller at a time).
func New(schedule []int) *Controller {
	c := &Controller{schedule: schedule, workers: map[int]*worker{}, byGID: map[uint64]*worker{}, MaxSteps: 100000}
	verifhook.SetHandler(c.handle)
	return c
}

// Close removes the verifhook handler.
func (c *Controller) Close() { verifhook.ClearHandler() }

func goid() uint64 {
	var buf [64]byte
	n := runtime.Stack(buf[:], false)
	const prefix = len("goroutine ")
	var id uint64
	for i := prefix; i < n; i++ {
		ch := buf[i]
		if ch < '0' || ch > '9' {
			break
		}
		id = id*10 + uint64(ch-'0')
	}
	return id
}

// Go starts f as worker id on a new goroutine. The worker first parks at the
// point "start". Ids must be unique among unfinished workers; parked workers
// are ordered by id when a choice is applied.
func (c *Controller) Go(id int, f func()) {
	w := c.register(id, 0)
	go func() {
		c.mu.Lock()
		w.gid = goid()
		c.byGID[w.gid] = w
		c.mu.Unlock()
		defer func() { c.finish(w, recover()) }()
		c.park(w, "start", 0)
		f()
	}()
}

// Enter registers the calling goroutine as worker id and parks it at "start"
// (for goroutines the harness does not create itself, e.g. timer callbacks).
// The goroutine must call Exit before it ends; write
//
//	defer c.Exit()
//	c.Enter(id)
//
// in this order, because a killed worker leaves Enter through runtime.Goexit.
// Choose id deterministically (e.g. a counter advanced where the goroutine is
// created, not where it starts running).
func (c *Controller) Enter(id int) {
	w := c.register(id, goid())
	c.park(w, "start", 0)
}

// Exit marks the calling goroutine's worker as finished. Use it as
// "defer c.Exit()": a panic of the goroutine is then recorded (Step returns
// Panicked) instead of killing the process.
func (c *Controller) Exit() {
	r := recover()
	c.mu.Lock()
	w := c.byGID[goid()]
	c.mu.Unlock()
	if w != nil {
		c.finish(w, r)
	} else if r != nil {
		panic(r)
	}
}

func (c *Controller) register(id int, gid uint64) *worker {
	c.mu.Lock()
	defer c.mu.Unlock()
	if old := c.workers[id]; old != nil && old.state != Finished {
		panic(fmt.Sprintf("sched: worker id %d registered twice", id))
	}
	w := &worker{id: id, gid: gid, state: Running, release: make(chan struct{}, 1)}
	c.workers[id] = w
	if gid != 0 {
		c.byGID[gid] = w
	}
	return w
}

func (c *Controller) finish(w *worker, r any) {
	c.mu.Lock()
	if r != nil && c.panicMsg == "" {
		c.panicMsg = fmt.Sprintf("worker %d panicked: %v\n%s", w.id, r, debug.Stack())
	}
	w.state = Finished
	delete(c.byGID, w.gid)
	c.mu.Unlock()
}

func (c *Controller) handle(point string) {
	if c.Filter != nil && !c.Filter(point) {
		return
	}
	gid := goid()
	c.mu.Lock()
	w := c.byGID[gid]
	c.mu.Unlock()
	if w == nil {
		return
	}
	c.park(w, point, 0)
}

// Yield is a harness-inserted yield point for the calling worker (no-op on
// goroutines that are not workers).
func (c *Controller) Yield(point string) {
	c.mu.Lock()
	w := c.byGID[goid()]
	c.mu.Unlock()
	if w != nil {
		c.park(w, point, 0)
	}
}

// Sleep parks the calling worker at point; when the controller chooses it, the
// controller first advances the bubble's virtual clock by d (timers that expire
// run, and timer goroutines that are workers park), then releases the worker.
func (c *Controller) Sleep(point string, d time.Duration) {
	c.mu.Lock()
	w := c.byGID[goid()]
	c.mu.Unlock()
	if w != nil {
		c.park(w, point, d)
	}
}

func (c *Controller) park(w *worker, point string, sleep time.Duration) {
	c.mu.Lock()
	if c.killed {
		c.mu.Unlock()
		runtime.Goexit()
	}
	w.state = Parked
	w.point = point
	w.sleep = sleep
	c.mu.Unlock()
	<-w.release
	c.mu.Lock()
	killed := c.killed
	c.mu.Unlock()
	if killed {
		runtime.Goexit()
	}
}

// Step performs one scheduling decision (see package comment). Must be called
// on the bubble's main goroutine.
func (c *Controller) Step() Step {
	synctest.Wait()
	c.mu.Lock()
	if c.panicMsg != "" {
		msg := c.panicMsg
		c.mu.Unlock()
		return Step{Kind: Panicked, Panic: msg}
	}
	var parked []*worker
	var unfinished []int
	for _, w := range c.workers {
		switch w.state {
		case Parked:
			parked = append(parked, w)
			unfinished = append(unfinished, w.id)
		case Running:
			unfinished = append(unfinished, w.id)
		}
	}
	if len(parked) == 0 {
		c.mu.Unlock()
		if len(unfinished) == 0 {
			return Step{Kind: Done}
		}
		sort.Ints(unfinished)
		return Step{Kind: Stuck, Blocked: unfinished}
	}
	if c.steps >= c.MaxSteps {
		c.mu.Unlock()
		return Step{Kind: Overrun}
	}
	c.steps++
	sort.Slice(parked, func(i, j int) bool { return parked[i].id < parked[j].id })
	choice := 0
	if len(parked) > 1 && c.next < len(c.schedule) {
		choice = c.schedule[c.next]
		c.next++
		if choice < 0 {
			choice = -(choice + 1)
		}
	}
	w := parked[choice%len(parked)]
	w.state = Running
	point, sleep := w.point, w.sleep
	c.trace = append(c.trace, TraceEntry{w.id, point})
	c.mu.Unlock()
	if sleep > 0 {
		time.Sleep(sleep)
		synctest.Wait()
	}
	w.release <- struct{}{}
	synctest.Wait()
	c.mu.Lock()
	msg := c.panicMsg
	c.mu.Unlock()
	if msg != "" {
		return Step{Kind: Panicked, Panic: msg}
	}
	return Step{Kind: Released, Worker: w.id, Point: point}
}

// Run calls Step until it returns something other than Released.
func (c *Controller) Run() Step {
	for {
		if st := c.Step(); st.Kind != Released {
			return st
		}
	}
}

// Advance moves the bubble's virtual clock forward by d and waits for
// quiescence (for use when Stuck workers may be waiting on timers).
func (c *Controller) Advance(d time.Duration) {
	time.Sleep(d)
	synctest.Wait()
}

// State returns the state of worker id and, if parked, the point. Meaningful
// at quiescence (after Step returned).
func (c *Controller) State(id int) (WorkerState, string) {
	c.mu.Lock()
	defer c.mu.Unlock()
	w := c.workers[id]
	if w == nil {
		return Unknown, ""
	}
	if w.state == Parked {
		return Parked, w.point
	}
	return w.state, ""
}

// Unused returns how many schedule elements were not consumed.
func (c *Controller) Unused() int {
	c.mu.Lock()
	defer c.mu.Unlock()
	return len(c.schedule) - c.next
}

// Trace returns the releases so far (worker id, point released from).
func (c *Controller) Trace() []TraceEntry {
	c.mu.Lock()
	defer c.mu.Unlock()
	return append([]TraceEntry(nil), c.trace...)
}

// Kill terminates all workers: parked workers, and every worker that reaches a
// yield point from now on, leave through runtime.Goexit (deferred functions
// run). Workers durably blocked inside the code under test must be unblocked by
// the caller first (or afterwards, followed by synctest.Wait). Kill waits for
// quiescence and reports the ids of workers that still have not finished.
func (c *Controller) Kill() []int {
	c.mu.Lock()
	c.killed = true
	for _, w := range c.workers {
		if w.state == Parked {
			w.state = Running
			w.release <- struct{}{}
		}
	}
	c.mu.Unlock()
	synctest.Wait()
	c.mu.Lock()
	defer c.mu.Unlock()
	var left []int
	for _, w := range c.workers {
		if w.state != Finished {
			left = append(left, w.id)
		}
	}
	sort.Ints(left)
	return left
}
