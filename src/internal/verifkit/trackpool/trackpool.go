// Package trackpool provides a mem.BufferPool-shaped pool that keeps a ledger
// of every Get and Put so that a check can decide "every pooled buffer is
// released exactly once and never used after its release".
//
// What it detects (each finding is appended to Violations(), nothing panics,
// so it is safe to use from goroutines of the code under test):
//
//   - double Put: a buffer is Put again while its allocation is already
//     released;
//   - foreign Put: a buffer that was never handed out by this pool, or a slice
//     that is not a prefix of the handed-out buffer (different base address or
//     capacity — the documented BufferPool.Put contract);
//   - use after Put: Put overwrites the whole capacity with the byte Poison
//     (0xDB). A stale *reader* therefore sees poison instead of the data it
//     expects (the caller's content oracle notices), and a stale *writer* is
//     found by CheckPoison(), which verifies that every released-and-not-
//     reissued buffer still holds only poison;
//   - leaks: Outstanding() lists allocations that were never Put;
//   - an inner pool handing out memory that is still outstanding.
//
// The pool either allocates its own memory (Inner == nil; optionally
// recycling released buffers LIFO when Reuse is set, which makes a premature
// release visible as two owners of one array) or delegates to a real pool
// (Inner != nil, e.g. a tiered pool from google.golang.org/grpc/mem); in the
// latter case buffers are poisoned before they are handed back to Inner.
//
// All memory ever handed out is retained by the Pool until the Pool itself is
// garbage, so base addresses identify allocations unambiguously. Use one Pool
// per test case.
//
// The interface is typed locally (Get(int) *[]byte / Put(*[]byte)), so a *Pool
// satisfies both mem.BufferPool and the internal bufferPool interfaces without
// importing them.
package trackpool

import (
	"bytes"
	"fmt"
	"sync"
	"unsafe"
)

// Poison is the byte every released buffer is filled with (whole capacity).
const Poison = 0xDB

// Dirty is the byte recycled or fresh buffers are filled with on Get when
// Options.DirtyGet is set (models a non-zeroing pool).
const Dirty = 0xC7

// BufferPool is the shape shared by mem.BufferPool and internal/mem pools.
type BufferPool interface {
	Get(length int) *[]byte
	Put(*[]byte)
}

// Options configure a Pool. The zero value is a fresh-allocating, zeroing,
// non-recycling tracking pool.
type Options struct {
	// Inner, if non-nil, provides the memory; the tracking pool only keeps
	// the ledger and poisons buffers before passing them to Inner.Put.
	Inner BufferPool
	// Reuse (only without Inner): Get recycles the most recently released
	// buffer whose capacity fits instead of allocating.
	Reuse bool
	// DirtyGet (only without Inner): buffers are handed out filled with Dirty
	// instead of zeros.
	DirtyGet bool
	// Slack (only without Inner) is called for each fresh allocation with
	// the requested length and returns extra capacity to add (pools are
	// allowed to return more capacity than requested). nil = exact capacity.
	Slack func(length int) int
}

// Alloc describes one allocation (one Get).
type Alloc struct {
	ID       int  // 1-based, in Get order
	Len, Cap int  // as handed out
	Released bool // Put has been called for it
	GetSeq   int  // value of the event counter at Get
	PutSeq   int  // value of the event counter at Put (0 = not released)
}

type alloc struct {
	Alloc
	hdr  *[]byte // the pointer handed out
	full []byte  // the whole capacity
	// reissued: the memory was handed out again (by Reuse or by Inner) after
	// this allocation was released; its poison can no longer be checked.
	reissued bool
}

// Pool is the tracking pool. It is safe for concurrent use.
type Pool struct {
	mu     sync.Mutex
	opt    Options
	allocs []*alloc
	byBase map[uintptr]*alloc // current (latest) allocation per base address
	byHdr  map[*[]byte]*alloc // zero-capacity buffers have no base address
	free   []*alloc           // released, recyclable (Reuse)
	events int
	vio    []string
	gets   int
	puts   int
	reuses int
}

// New returns a tracking pool.
func New(opt Options) *Pool {
	return &Pool{opt: opt, byBase: map[uintptr]*alloc{}, byHdr: map[*[]byte]*alloc{}}
}

func base(b []byte) uintptr {
	b = b[:cap(b)]
	if len(b) == 0 {
		return 0
	}
	return uintptr(unsafe.Pointer(unsafe.SliceData(b)))
}

func fill(b []byte, v byte) {
	if len(b) == 0 {
		return
	}
	b[0] = v
	for n := 1; n < len(b); n *= 2 {
		copy(b[n:], b[:n])
	}
}

// allEqual returns the index of the first byte of b that differs from v, or -1.
func allEqual(b []byte, v byte) int {
	var blk [256]byte
	fill(blk[:], v)
	for off := 0; off < len(b); off += len(blk) {
		end := min(off+len(blk), len(b))
		if !bytes.Equal(b[off:end], blk[:end-off]) {
			for i := off; i < end; i++ {
				if b[i] != v {
					return i
				}
			}
		}
	}
	return -1
}

// FirstNot returns the index of the first byte of b that differs from v, or
// -1 if there is none (helper for "all zero" / "all poison" oracles).
func FirstNot(b []byte, v byte) int { return allEqual(b, v) }

func (p *Pool) violate(format string, args ...any) {
	p.vio = append(p.vio, fmt.Sprintf(format, args...))
}

// Get implements BufferPool.
func (p *Pool) Get(length int) *[]byte {
	p.mu.Lock()
	defer p.mu.Unlock()
	p.events++
	p.gets++
	var hdr *[]byte
	switch {
	case p.opt.Inner != nil:
		hdr = p.opt.Inner.Get(length)
		if hdr == nil {
			p.violate("inner pool Get(%d) returned nil", length)
			b := make([]byte, length)
			hdr = &b
		}
	default:
		for i := len(p.free) - 1; i >= 0 && p.opt.Reuse; i-- {
			a := p.free[i]
			if cap(a.full) >= length && cap(a.full) > 0 {
				p.free = append(p.free[:i], p.free[i+1:]...)
				p.checkPoisonLocked(a)
				a.reissued = true
				b := a.full[:length]
				if p.opt.DirtyGet {
					fill(a.full, Dirty)
				} else {
					fill(a.full, 0)
				}
				hdr = &b
				p.reuses++
				break
			}
		}
		if hdr == nil {
			c := length
			if p.opt.Slack != nil {
				if s := p.opt.Slack(length); s > 0 {
					c += s
				}
			}
			b := make([]byte, length, c)
			if p.opt.DirtyGet {
				fill(b[:c], Dirty)
			}
			hdr = &b
		}
	}
	a := &alloc{Alloc: Alloc{ID: len(p.allocs) + 1, Len: len(*hdr), Cap: cap(*hdr), GetSeq: p.events}, hdr: hdr, full: (*hdr)[:cap(*hdr)]}
	p.allocs = append(p.allocs, a)
	if k := base(a.full); k != 0 {
		if old := p.byBase[k]; old != nil {
			if !old.Released {
				p.violate("Get(%d): memory of outstanding allocation #%d handed out again as #%d", length, old.ID, a.ID)
			} else {
				old.reissued = true
			}
		}
		p.byBase[k] = a
	} else {
		p.byHdr[hdr] = a
	}
	return hdr
}

// Put implements BufferPool.
func (p *Pool) Put(b *[]byte) {
	p.mu.Lock()
	defer p.mu.Unlock()
	p.events++
	p.puts++
	if b == nil {
		p.violate("Put(nil)")
		return
	}
	var a *alloc
	if k := base(*b); k != 0 {
		a = p.byBase[k]
		if a == nil {
			p.violate("Put of a buffer this pool never handed out (len %d cap %d)", len(*b), cap(*b))
			return
		}
		if cap(*b) != cap(a.full) {
			p.violate("Put of allocation #%d with capacity %d, handed out with capacity %d (not a prefix of the buffer)", a.ID, cap(*b), cap(a.full))
		}
	} else {
		a = p.byHdr[b]
		if a == nil {
			p.violate("Put of a zero-capacity buffer this pool never handed out")
			return
		}
	}
	if a.Released {
		p.violate("double Put of allocation #%d (len %d cap %d; first released at event %d)", a.ID, a.Len, a.Cap, a.PutSeq)
		return
	}
	a.Released = true
	a.PutSeq = p.events
	fill(a.full, Poison)
	if p.opt.Inner != nil {
		p.opt.Inner.Put(b)
		return
	}
	if p.opt.Reuse {
		p.free = append(p.free, a)
	}
}

func (p *Pool) checkPoisonLocked(a *alloc) {
	if i := allEqual(a.full, Poison); i >= 0 {
		p.violate("allocation #%d was written after its release: byte %d is %#x, want poison %#x", a.ID, i, a.full[i], Poison)
	}
}

// CheckPoison verifies that every released buffer whose memory has not been
// handed out again still contains only poison; a mismatch (a write after
// release) is added to the violations. With an Inner pool the check is only
// meaningful if Inner does not touch pooled memory (sync.Pool based pools do
// not).
func (p *Pool) CheckPoison() {
	p.mu.Lock()
	defer p.mu.Unlock()
	for _, a := range p.allocs {
		if a.Released && !a.reissued {
			p.checkPoisonLocked(a)
		}
	}
}

// Violations returns the findings so far (nil if none).
func (p *Pool) Violations() []string {
	p.mu.Lock()
	defer p.mu.Unlock()
	return append([]string(nil), p.vio...)
}

// Events returns a counter that increases on every Get and Put; callers use
// it to notice that pool state changed during an operation.
func (p *Pool) Events() int {
	p.mu.Lock()
	defer p.mu.Unlock()
	return p.events
}

// Lookup returns the current allocation record for the buffer b points to
// (matching by base address, so any prefix/reslice of the buffer works).
func (p *Pool) Lookup(b *[]byte) (Alloc, bool) {
	p.mu.Lock()
	defer p.mu.Unlock()
	if b == nil {
		return Alloc{}, false
	}
	var a *alloc
	if k := base(*b); k != 0 {
		a = p.byBase[k]
	} else {
		a = p.byHdr[b]
	}
	if a == nil {
		return Alloc{}, false
	}
	return a.Alloc, true
}

// LookupData is Lookup for a plain slice (e.g. Buffer.ReadOnlyData()): it
// finds the allocation whose memory contains the first byte of data.
func (p *Pool) LookupData(data []byte) (Alloc, bool) {
	p.mu.Lock()
	defer p.mu.Unlock()
	if cap(data) == 0 {
		return Alloc{}, false
	}
	ptr := uintptr(unsafe.Pointer(unsafe.SliceData(data[:1])))
	for i := len(p.allocs) - 1; i >= 0; i-- {
		a := p.allocs[i]
		if k := base(a.full); k != 0 && ptr >= k && ptr < k+uintptr(cap(a.full)) {
			return a.Alloc, true
		}
	}
	return Alloc{}, false
}

// Alloc returns the record of allocation id (1-based).
func (p *Pool) Alloc(id int) (Alloc, bool) {
	p.mu.Lock()
	defer p.mu.Unlock()
	if id < 1 || id > len(p.allocs) {
		return Alloc{}, false
	}
	return p.allocs[id-1].Alloc, true
}

// Allocs returns all allocation records in Get order.
func (p *Pool) Allocs() []Alloc {
	p.mu.Lock()
	defer p.mu.Unlock()
	out := make([]Alloc, len(p.allocs))
	for i, a := range p.allocs {
		out[i] = a.Alloc
	}
	return out
}

// Outstanding returns the allocations that have not been released (leaks, if
// called when everything should have been freed).
func (p *Pool) Outstanding() []Alloc {
	p.mu.Lock()
	defer p.mu.Unlock()
	var out []Alloc
	for _, a := range p.allocs {
		if !a.Released {
			out = append(out, a.Alloc)
		}
	}
	return out
}

// Stats returns the number of Get calls, Put calls and recycled buffers.
func (p *Pool) Stats() (gets, puts, reuses int) {
	p.mu.Lock()
	defer p.mu.Unlock()
	return p.gets, p.puts, p.reuses
}
