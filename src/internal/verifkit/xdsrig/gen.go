package xdsrig

import (
	"pgregory.net/rapid"
)

// GenCfg biases the plan generator.
type GenCfg struct {
	MaxServers int
	MinOps     int
	MaxOps     int
	// weights of the op kinds
	WWatch, WUnwatch, WResp, WBreak, WGrant, WRelease, WAdvance int
	WRestart                                                    int // macro: break + release all + grant(accept)
	WViv                                                        int // macro: two watchers on one resource, then valid / invalid / valid responses
	WFailover                                                   int // macro: refuse/break a stream, establish another stream, respond
	WRevert                                                     int // macro: establish the highest-priority pending stream and let that server answer
	UnknownPct                                                  int // share of responses with an unregistered type URL
	HoldPct                                                     int // share of watchers that hold their done callbacks
	BadPct                                                      int // share of invalid resources inside responses
	RefusePct                                                   int // share of refused NewStream calls
	IgnoreDel                                                   bool
	// MaxAuths > 0: up to MaxAuths named authorities (at least one with
	// probability AuthPct/100) with server lists drawn as ordered subsets of
	// the server pool; watches and response resources then carry an authority.
	// Zero value: only the top-level authority (old behaviour, identical
	// draw sequence).
	MaxAuths, AuthPct int
}

// genCtx is what op generation needs to know about the plan being drawn.
type genCtx struct {
	auths int // number of authorities including the top-level one
}

func (c genCtx) auth(rt *rapid.T, label string) int {
	if c.auths <= 1 {
		return 0
	}
	return uniform(rt, c.auths, label)
}

// names r0 and r1 are favoured so that several watchers meet on one resource
var (
	inPct    = [maxNames]int{70, 55, 30, 20}
	nameBias = []int{0, 0, 0, 0, 1, 1, 1, 2, 2, 3}
)

// GenName draws a biased name index.
func GenName(rt *rapid.T) int { return rapid.SampledFrom(nameBias).Draw(rt, "n") }

// uniform draws an (almost) uniformly distributed value in [0,n) from fair
// coin flips: rapid's integer generators are deliberately biased towards
// small and boundary values, which would distort the op mix. All-false (the
// shrink target) maps to 0.
func uniform(rt *rapid.T, n int, label string) int {
	v := 0
	for i := 0; i < 7; i++ {
		v <<= 1
		if rapid.Bool().Draw(rt, label) {
			v |= 1
		}
	}
	return v * n / 128
}

// pct is true with probability ~p/100; the shrink target is false.
func pct(rt *rapid.T, p int, label string) bool {
	if p <= 0 {
		return false
	}
	return 99-uniform(rt, 100, label) < p
}

func genRes(rt *rapid.T, cfg GenCfg, gc genCtx) []ResSpec {
	// distinct names by construction: a subset of the name space
	var res []ResSpec
	if gc.auths > 1 {
		// a shared server answers for several authorities at once: each
		// authority contributes a (smaller) subset of its names
		for a := 0; a < gc.auths; a++ {
			if !pct(rt, 60, "ina") {
				continue
			}
			for n := 0; n < maxNames; n++ {
				if !pct(rt, inPct[n]*2/3, "in") {
					continue
				}
				rs := ResSpec{N: n, A: a, V: rapid.IntRange(0, 2).Draw(rt, "v")}
				if pct(rt, cfg.BadPct*2/3, "bad") {
					rs.Kind = 1
				}
				res = append(res, rs)
			}
		}
	} else {
		for n := 0; n < maxNames; n++ {
			if !pct(rt, inPct[n], "in") {
				continue
			}
			rs := ResSpec{N: n, V: rapid.IntRange(0, 2).Draw(rt, "v")}
			if pct(rt, cfg.BadPct, "bad") {
				rs.Kind = 1
			}
			res = append(res, rs)
		}
	}
	if pct(rt, 6, "junk") {
		res = append(res, ResSpec{Kind: 2, V: rapid.IntRange(0, 1).Draw(rt, "jv")})
	}
	// order inside the response is free
	if len(res) > 1 && rapid.Bool().Draw(rt, "rev") {
		for i, j := 0, len(res)-1; i < j; i, j = i+1, j-1 {
			res[i], res[j] = res[j], res[i]
		}
	}
	return res
}

// GenOps draws one op or a macro of several ops (top-level authority only).
func GenOps(rt *rapid.T, cfg GenCfg) []Op { return genOps(rt, cfg, genCtx{auths: 1}) }

// GenOpsAuth is GenOps for a plan with `auths` authorities (including the
// top-level one): watches and response resources are spread over them.
func GenOpsAuth(rt *rapid.T, cfg GenCfg, auths int) []Op {
	return genOps(rt, cfg, genCtx{auths: auths})
}

func genOps(rt *rapid.T, cfg GenCfg, gc genCtx) []Op {
	total := cfg.WWatch + cfg.WUnwatch + cfg.WResp + cfg.WBreak + cfg.WGrant + cfg.WRelease + cfg.WAdvance + cfg.WRestart
	total += cfg.WViv + cfg.WFailover + cfg.WRevert
	x := uniform(rt, total, "kind")
	if x >= total-cfg.WRevert {
		r := Op{K: "resp", S: 0, T: rapid.IntRange(0, 1).Draw(rt, "t"), Ver: rapid.IntRange(0, 3).Draw(rt, "ver"), Nonce: rapid.IntRange(0, 5).Draw(rt, "nonce")}
		r.Res = genRes(rt, cfg, gc)
		return []Op{{K: "release", All: true}, {K: "grant", S: 0, Accept: true}, r}
	}
	total -= cfg.WRevert
	if x >= total-cfg.WFailover {
		// fail whichever stream attempt is next, bring up another server, let it answer
		ops := []Op{{K: "release", All: true}}
		if rapid.Bool().Draw(rt, "viaBreak") {
			ops = append(ops, Op{K: "break", S: rapid.IntRange(0, 2).Draw(rt, "s")})
		} else {
			ops = append(ops, Op{K: "grant", S: rapid.IntRange(0, 2).Draw(rt, "s"), Accept: false})
		}
		s2 := rapid.IntRange(0, 2).Draw(rt, "s2")
		ops = append(ops, Op{K: "grant", S: s2, Accept: true})
		r := Op{K: "resp", S: rapid.IntRange(0, 2).Draw(rt, "s3"), T: rapid.IntRange(0, 1).Draw(rt, "t"), Ver: rapid.IntRange(0, 3).Draw(rt, "ver"), Nonce: rapid.IntRange(0, 5).Draw(rt, "nonce")}
		r.Res = genRes(rt, cfg, gc)
		return append(ops, r)
	}
	total -= cfg.WFailover
	if x >= total-cfg.WViv {
		t, n := rapid.IntRange(0, 1).Draw(rt, "t"), GenName(rt)
		au := gc.auth(rt, "a")
		v := rapid.IntRange(0, 2).Draw(rt, "v")
		v2 := v
		if rapid.Bool().Draw(rt, "same") == false {
			v2 = rapid.IntRange(0, 2).Draw(rt, "v2")
		}
		mk := func(kind, vv int) Op {
			return Op{K: "resp", T: t, Ver: rapid.IntRange(0, 3).Draw(rt, "ver"), Nonce: rapid.IntRange(0, 5).Draw(rt, "nonce"), Res: []ResSpec{{N: n, Kind: kind, V: vv, A: au}}}
		}
		return []Op{{K: "watch", T: t, N: n, A: au, Hold: pct(rt, cfg.HoldPct, "hold")}, {K: "watch", T: t, N: n, A: au, Hold: pct(rt, cfg.HoldPct, "hold")},
			{K: "release", All: true}, mk(0, v), {K: "release", All: true}, mk(1, rapid.IntRange(0, 1).Draw(rt, "reason")), {K: "release", All: true}, mk(0, v2)}
	}
	total -= cfg.WViv
	if x >= total-cfg.WRestart {
		s := rapid.IntRange(0, 2).Draw(rt, "s")
		return []Op{{K: "break", S: s}, {K: "release", All: true}, {K: "grant", S: s, Accept: true}}
	}
	return []Op{genOp(rt, cfg, gc, x)}
}

func genOp(rt *rapid.T, cfg GenCfg, gc genCtx, x int) Op {
	switch {
	case x < cfg.WWatch:
		return Op{K: "watch", T: rapid.IntRange(0, 1).Draw(rt, "t"), N: GenName(rt), A: gc.auth(rt, "a"), Hold: pct(rt, cfg.HoldPct, "hold")}
	case x < cfg.WWatch+cfg.WUnwatch:
		return Op{K: "unwatch", N: rapid.IntRange(0, 7).Draw(rt, "k")}
	case x < cfg.WWatch+cfg.WUnwatch+cfg.WResp:
		op := Op{K: "resp", S: rapid.IntRange(0, 2).Draw(rt, "s"), T: rapid.IntRange(0, 1).Draw(rt, "t"),
			Ver: rapid.IntRange(-1, 3).Draw(rt, "ver"), Nonce: rapid.IntRange(0, 5).Draw(rt, "nonce")}
		if pct(rt, cfg.UnknownPct, "unknown") {
			op.T = 2
		}
		op.Res = genRes(rt, cfg, gc)
		return op
	case x < cfg.WWatch+cfg.WUnwatch+cfg.WResp+cfg.WBreak:
		return Op{K: "break", S: rapid.IntRange(0, 2).Draw(rt, "s")}
	case x < cfg.WWatch+cfg.WUnwatch+cfg.WResp+cfg.WBreak+cfg.WGrant:
		return Op{K: "grant", S: rapid.IntRange(0, 2).Draw(rt, "s"), Accept: !pct(rt, cfg.RefusePct, "refuse")}
	case x < cfg.WWatch+cfg.WUnwatch+cfg.WResp+cfg.WBreak+cfg.WGrant+cfg.WRelease:
		return Op{K: "release", N: rapid.IntRange(0, 7).Draw(rt, "k"), All: rapid.Bool().Draw(rt, "all")}
	default:
		return Op{K: "advance", Half: rapid.Bool().Draw(rt, "half")}
	}
}

// Gen draws a plan.
func Gen(rt *rapid.T, cfg GenCfg) Plan {
	p := Plan{Servers: rapid.IntRange(1, cfg.MaxServers).Draw(rt, "servers")}
	if cfg.MaxServers > 1 && p.Servers == 1 && pct(rt, 70, "more") {
		p.Servers = rapid.IntRange(2, cfg.MaxServers).Draw(rt, "servers2")
	}
	p.IgnoreDel = make([]bool, p.Servers)
	if cfg.IgnoreDel {
		for i := range p.IgnoreDel {
			p.IgnoreDel[i] = pct(rt, 25, "ignoredel")
		}
	}
	p.ReleaseAtEnd = rapid.Bool().Draw(rt, "release_at_end")
	gc := genCtx{auths: 1}
	if cfg.MaxAuths > 0 && p.Servers > 1 && pct(rt, cfg.AuthPct, "auths") {
		p.Auths = GenAuths(rt, p.Servers, cfg.MaxAuths)
		gc.auths = 1 + len(p.Auths)
	}
	n := rapid.IntRange(cfg.MinOps, cfg.MaxOps).Draw(rt, "nops")
	for len(p.Ops) < n {
		p.Ops = append(p.Ops, genOps(rt, cfg, gc)...)
	}
	return p
}

// GenAuths draws 1..max named authorities over a pool of `servers` servers.
// Each list is a non-empty ordered subset of the pool (any order: two
// authorities may rank the same two servers differently), so a server is
// commonly the primary of one authority and a fallback of another. The
// top-level authority always has the whole pool in index order.
func GenAuths(rt *rapid.T, servers, max int) [][]int {
	k := 1 + uniform(rt, max, "nauth")
	var out [][]int
	for a := 0; a < k; a++ {
		// a random permutation of the pool (Fisher-Yates from fair coins) ...
		perm := make([]int, servers)
		for i := range perm {
			perm[i] = i
		}
		for i := servers - 1; i > 0; i-- {
			j := uniform(rt, i+1, "perm")
			perm[i], perm[j] = perm[j], perm[i]
		}
		// ... cut to a length of 1..servers (length 1 is as likely as each other)
		l := 1 + uniform(rt, servers, "len")
		out = append(out, perm[:l])
	}
	return out
}
