// Package xdsrig is the shared rig for the xDS-client properties C42, C43 and
// C44: a generic xdsclient.XDSClient driven through a harness-written fake
// clients.TransportBuilder / Transport / Stream (one fake "server" per
// configured management server), a harness-defined ResourceType with a trivial
// decoder, recording watchers, an independent reference model of the ADS
// protocol / resource cache / gRFC A71 fallback (model.go) and an executor that
// interprets a serialisable plan one event at a time, comparing the client's
// reactions at quiescence (synctest.Wait) with the model's predictions.
//
// Everything here must run inside a testing/synctest bubble.
package xdsrig

import (
	"context"
	"errors"
	"fmt"
	"sort"
	"strings"
	"sync"
	"testing/synctest"
	"time"

	"google.golang.org/grpc/internal/xds/clients"
	"google.golang.org/grpc/internal/xds/clients/xdsclient"
	"google.golang.org/protobuf/proto"
	"google.golang.org/protobuf/types/known/anypb"

	v3discoverypb "github.com/envoyproxy/go-control-plane/envoy/service/discovery/v3"
)

// TypeSpec describes one harness resource type.
type TypeSpec struct {
	URL, Name   string
	AllRequired bool
}

// Types are the two resource types known to the client. Type 0 behaves like
// LDS/CDS (a SotW response must contain every resource), type 1 like RDS/EDS.
var Types = []TypeSpec{
	{URL: "type.googleapis.com/verif.TypeA", Name: "VerifTypeA", AllRequired: true},
	{URL: "type.googleapis.com/verif.TypeB", Name: "VerifTypeB", AllRequired: false},
}

// UnknownURL is a type URL that is not registered with the client.
const UnknownURL = "type.googleapis.com/verif.Unregistered"

// NodeID is the node identity configured on the client.
const NodeID = "verif-node-id"

// ADSMethod is the only method the ADS stream may open.
const ADSMethod = "/envoy.service.discovery.v3.AggregatedDiscoveryService/StreamAggregatedResources"

// Data is the decoded resource: its payload string.
type Data struct{ Payload string }

// Equal implements xdsclient.ResourceData.
func (d *Data) Equal(o xdsclient.ResourceData) bool {
	od, ok := o.(*Data)
	return ok && od != nil && d != nil && od.Payload == d.Payload
}

// Bytes implements xdsclient.ResourceData.
func (d *Data) Bytes() []byte { return []byte(d.Payload) }

type decoder struct{}

// Decode parses the payload grammar
//
//	"ok:<name>:<v>"       valid resource <name>            (<v>, <reason>: integers;
//	"bad:<name>:<reason>" resource <name> that fails validation with <reason>   <name> may contain ':')
//	anything else         not deserialisable (no name)
func (decoder) Decode(res *xdsclient.AnyProto, _ xdsclient.DecodeOptions) (*xdsclient.DecodeResult, error) {
	p := string(res.ToAny().GetValue())
	// <kind>:<name>:<int>; the name itself may contain ':' (xdstp://...), the
	// first and the last field cannot.
	i, j := strings.Index(p, ":"), strings.LastIndex(p, ":")
	if i > 0 && j > i+1 {
		kind, name, arg := p[:i], p[i+1:j], p[j+1:]
		if kind == "ok" {
			return &xdsclient.DecodeResult{Name: name, Resource: &Data{Payload: p}}, nil
		}
		if kind == "bad" {
			return &xdsclient.DecodeResult{Name: name}, fmt.Errorf("verif-reject[%s:%s]", name, arg)
		}
	}
	return nil, fmt.Errorf("verif-undecodable[%s]", p)
}

// Request is one DiscoveryRequest observed on a fake stream.
type Request struct {
	Seq, Op             int
	Server, Gen, Stream int
	TypeURL             string
	Version, Nonce      string
	Names               []string
	HasNode             bool
	NodeID              string
	HasErr              bool
	ErrCode             int32
	ErrMsg              string
	At                  time.Time
}

func (r *Request) String() string {
	n := ""
	if r.HasNode {
		n = " node=" + r.NodeID
	}
	e := ""
	if r.HasErr {
		e = fmt.Sprintf(" NACK(code=%d,%q)", r.ErrCode, r.ErrMsg)
	}
	return fmt.Sprintf("{srv%d/s%d %s ver=%q nonce=%q names=%v%s%s}", r.Server, r.Stream, shortURL(r.TypeURL), r.Version, r.Nonce, sortedCopy(r.Names), n, e)
}

func shortURL(u string) string {
	if i := strings.LastIndex(u, "."); i >= 0 {
		return u[i+1:]
	}
	return u
}

func sortedCopy(s []string) []string {
	c := append([]string(nil), s...)
	sort.Strings(c)
	return c
}

// Call is one watcher callback.
type Call struct {
	Seq, Op  int
	W        *Watcher
	Kind     string // "changed" | "reserr" | "amberr"
	Payload  string
	Err      string
	done     func()
	Released bool
}

func (c *Call) String() string {
	if c.Kind == "changed" {
		return fmt.Sprintf("w%d.changed(%s)", c.W.ID, c.Payload)
	}
	return fmt.Sprintf("w%d.%s", c.W.ID, c.Kind)
}

// Release invokes the done callback of a held call.
func (c *Call) Release() {
	r := c.W.rig
	r.mu.Lock()
	if c.Released {
		r.mu.Unlock()
		return
	}
	c.Released = true
	r.mu.Unlock()
	c.done()
}

// Watcher records the callbacks of one registered watch.
type Watcher struct {
	ID        int
	A         int // authority index: 0 = top-level (old-style names), k = named authority k
	T         int
	Name      string
	Hold      bool // keep the done callbacks until the plan releases them
	Cancelled bool
	Calls     []*Call
	rig       *Rig
	cancel    func()
}

func (w *Watcher) record(kind, payload, errs string, done func()) {
	r := w.rig
	r.mu.Lock()
	r.seq++
	c := &Call{Seq: r.seq, Op: r.CurOp, W: w, Kind: kind, Payload: payload, Err: errs, done: done}
	w.Calls = append(w.Calls, c)
	r.Calls = append(r.Calls, c)
	hold := w.Hold
	if !hold {
		c.Released = true
	}
	r.mu.Unlock()
	if !hold {
		done()
	}
}

// ResourceChanged implements xdsclient.ResourceWatcher.
func (w *Watcher) ResourceChanged(d xdsclient.ResourceData, done func()) {
	p := "<non-Data>"
	if dd, ok := d.(*Data); ok && dd != nil {
		p = dd.Payload
	}
	w.record("changed", p, "", done)
}

// ResourceError implements xdsclient.ResourceWatcher.
func (w *Watcher) ResourceError(err error, done func()) {
	w.record("reserr", "", fmt.Sprint(err), done)
}

// AmbientError implements xdsclient.ResourceWatcher.
func (w *Watcher) AmbientError(err error, done func()) { w.record("amberr", "", fmt.Sprint(err), done) }

// ChanEvent is a transport build / close event.
type ChanEvent struct {
	Seq, Op int
	Kind    string // "build" | "close"
	Server  int
	Gen     int
}

// Stream is the fake clients.Stream.
type Stream struct {
	rig             *Rig
	Server, Gen, ID int
	ctx             context.Context
	recvCh          chan []byte
	brokenCh        chan struct{}
	Broken          bool
	RecvCalls       int
	RecvPending     bool
	Pushed          int
	SendsAfterBreak int
}

// Send implements clients.Stream.
func (s *Stream) Send(b []byte) error {
	r := s.rig
	r.mu.Lock()
	defer r.mu.Unlock()
	if s.Broken || s.ctx.Err() != nil {
		s.SendsAfterBreak++
		return errors.New("verif: send on broken stream")
	}
	var req v3discoverypb.DiscoveryRequest
	if err := proto.Unmarshal(b, &req); err != nil {
		r.Problems = append(r.Problems, fmt.Sprintf("undecodable DiscoveryRequest on server %d: %v", s.Server, err))
		return nil
	}
	r.seq++
	rq := &Request{Seq: r.seq, Op: r.CurOp, Server: s.Server, Gen: s.Gen, Stream: s.ID, TypeURL: req.GetTypeUrl(),
		Version: req.GetVersionInfo(), Nonce: req.GetResponseNonce(), Names: append([]string(nil), req.GetResourceNames()...), At: time.Now()}
	if req.GetNode() != nil {
		rq.HasNode = true
		rq.NodeID = req.GetNode().GetId()
	}
	if ed := req.GetErrorDetail(); ed != nil {
		rq.HasErr = true
		rq.ErrCode = ed.GetCode()
		rq.ErrMsg = ed.GetMessage()
	}
	r.Requests = append(r.Requests, rq)
	return nil
}

// Recv implements clients.Stream.
func (s *Stream) Recv() ([]byte, error) {
	r := s.rig
	r.mu.Lock()
	s.RecvCalls++
	// Flow-control oracle (C42): a read must not start while a watcher
	// callback caused by the previous response on this server still holds
	// its done callback.
	if op := r.lastPushOp[s.Server]; op >= 0 {
		for _, c := range r.Calls {
			if c.Op == op && !c.Released {
				r.FlowViolations = append(r.FlowViolations, fmt.Sprintf("Recv #%d on server %d stream %d invoked while %s (caused by the response delivered in op %d) has not called done", s.RecvCalls, s.Server, s.ID, c, op))
				break
			}
		}
	}
	if s.Broken {
		r.mu.Unlock()
		return nil, errors.New("verif: stream broken")
	}
	s.RecvPending = true
	r.mu.Unlock()
	select {
	case b := <-s.recvCh:
		return b, nil
	case <-s.brokenCh:
		r.mu.Lock()
		s.RecvPending = false
		r.mu.Unlock()
		return nil, errors.New("verif: stream broken")
	case <-s.ctx.Done():
		r.mu.Lock()
		s.RecvPending = false
		r.mu.Unlock()
		return nil, s.ctx.Err()
	}
}

// Transport is the fake clients.Transport of one xdsChannel incarnation.
type Transport struct {
	rig         *Rig
	Server, Gen int
	Closed      bool
	Streams     []*Stream
	NewCalls    int
	pending     *newReq
}

type newReq struct {
	ctx   context.Context
	reply chan *Stream
}

// NewStream implements clients.Transport: it blocks until the plan grants or
// refuses the stream (or the client gives up).
func (tr *Transport) NewStream(ctx context.Context, method string) (clients.Stream, error) {
	r := tr.rig
	r.mu.Lock()
	if method != ADSMethod {
		r.Problems = append(r.Problems, "NewStream for unexpected method "+method)
	}
	if tr.pending != nil {
		r.Problems = append(r.Problems, fmt.Sprintf("two concurrent NewStream calls on server %d", tr.Server))
	}
	tr.NewCalls++
	req := &newReq{ctx: ctx, reply: make(chan *Stream)}
	tr.pending = req
	r.mu.Unlock()
	select {
	case s := <-req.reply:
		if s == nil {
			return nil, errors.New("verif: stream refused")
		}
		return s, nil
	case <-ctx.Done():
		r.mu.Lock()
		if tr.pending == req {
			tr.pending = nil
		}
		r.mu.Unlock()
		return nil, ctx.Err()
	}
}

// Close implements clients.Transport.
func (tr *Transport) Close() {
	r := tr.rig
	r.mu.Lock()
	defer r.mu.Unlock()
	if tr.Closed {
		r.Problems = append(r.Problems, fmt.Sprintf("transport of server %d closed twice", tr.Server))
		return
	}
	tr.Closed = true
	r.seq++
	r.ChanEvents = append(r.ChanEvents, ChanEvent{Seq: r.seq, Op: r.CurOp, Kind: "close", Server: tr.Server, Gen: tr.Gen})
}

// PendingNew reports whether a NewStream call is waiting for a verdict.
func (tr *Transport) PendingNew() bool {
	tr.rig.mu.Lock()
	defer tr.rig.mu.Unlock()
	return tr.pending != nil
}

// Grant answers the pending NewStream call.
func (tr *Transport) Grant(accept bool) *Stream {
	r := tr.rig
	r.mu.Lock()
	req := tr.pending
	tr.pending = nil
	var s *Stream
	if accept {
		r.streamSeq++
		s = &Stream{rig: r, Server: tr.Server, Gen: tr.Gen, ID: r.streamSeq, ctx: req.ctx, recvCh: make(chan []byte), brokenCh: make(chan struct{})}
		tr.Streams = append(tr.Streams, s)
		r.lastPushOp[tr.Server] = -1
	}
	r.mu.Unlock()
	req.reply <- s
	return s
}

// Cur returns the most recent stream (nil if none).
func (tr *Transport) Cur() *Stream {
	tr.rig.mu.Lock()
	defer tr.rig.mu.Unlock()
	if len(tr.Streams) == 0 {
		return nil
	}
	return tr.Streams[len(tr.Streams)-1]
}

// Pending reports RecvPending under the lock.
func (s *Stream) Pending() bool {
	s.rig.mu.Lock()
	defer s.rig.mu.Unlock()
	return s.RecvPending
}

// Push delivers a response to the blocked Recv call. The caller must have
// checked Pending().
func (s *Stream) Push(b []byte) {
	r := s.rig
	r.mu.Lock()
	s.RecvPending = false
	s.Pushed++
	r.lastPushOp[s.Server] = r.CurOp
	r.mu.Unlock()
	s.recvCh <- b
}

// Break fails the stream: a blocked or future Recv returns an error and
// Send fails from now on.
func (s *Stream) Break() {
	r := s.rig
	r.mu.Lock()
	if s.Broken {
		r.mu.Unlock()
		return
	}
	s.Broken = true
	r.mu.Unlock()
	close(s.brokenCh)
}

// Rig bundles the client and its fakes.
type Rig struct {
	Client *xdsclient.XDSClient
	N      int
	Expiry time.Duration

	mu             sync.Mutex
	seq            int
	streamSeq      int
	CurOp          int
	Transports     [][]*Transport // per server, in build order
	Requests       []*Request
	Calls          []*Call
	ChanEvents     []ChanEvent
	Watchers       []*Watcher
	FlowViolations []string
	Problems       []string
	lastPushOp     []int
}

// ServerURI is the URI of server i.
func ServerURI(i int) string { return fmt.Sprintf("verif-server-%d", i) }

// Build implements clients.TransportBuilder.
func (r *Rig) Build(si clients.ServerIdentifier) (clients.Transport, error) {
	r.mu.Lock()
	defer r.mu.Unlock()
	idx := -1
	for i := 0; i < r.N; i++ {
		if si.ServerURI == ServerURI(i) {
			idx = i
		}
	}
	if idx < 0 {
		r.Problems = append(r.Problems, "Build for unknown server "+si.ServerURI)
		return nil, errors.New("verif: unknown server")
	}
	tr := &Transport{rig: r, Server: idx, Gen: len(r.Transports[idx])}
	r.Transports[idx] = append(r.Transports[idx], tr)
	r.seq++
	r.ChanEvents = append(r.ChanEvents, ChanEvent{Seq: r.seq, Op: r.CurOp, Kind: "build", Server: idx, Gen: tr.Gen})
	return tr, nil
}

// Options configure a rig.
type Options struct {
	Servers   int
	IgnoreDel []bool // per server: ignore_resource_deletion feature
	Expiry    time.Duration
	// Auths are the named authorities "verif-auth-<k>", k = 1..len(Auths): the
	// ordered list of server indices of each (distinct, < Servers). An empty
	// list means "inherit the top-level server list". nil = no named
	// authorities (old behaviour: only the top-level authority exists).
	Auths [][]int
}

// AuthName is the name of named authority k (k >= 1) in the client config.
func AuthName(k int) string { return fmt.Sprintf("verif-auth-%d", k) }

// New creates the client. Must be called inside a bubble.
func New(o Options) (*Rig, error) {
	r := &Rig{N: o.Servers, Expiry: o.Expiry, Transports: make([][]*Transport, o.Servers), lastPushOp: make([]int, o.Servers)}
	for i := range r.lastPushOp {
		r.lastPushOp[i] = -1
	}
	cfg := xdsclient.Config{
		Node:               clients.Node{ID: NodeID, Cluster: "verif-cluster", UserAgentName: "verif"},
		TransportBuilder:   r,
		ResourceTypes:      map[string]xdsclient.ResourceType{},
		WatchExpiryTimeout: o.Expiry,
	}
	// one ServerConfig value per server: authorities that list the same server
	// share its xdsChannel (channels are keyed by ServerConfig).
	var scs []xdsclient.ServerConfig
	for i := 0; i < o.Servers; i++ {
		sc := xdsclient.ServerConfig{ServerIdentifier: clients.ServerIdentifier{ServerURI: ServerURI(i)}}
		if i < len(o.IgnoreDel) && o.IgnoreDel[i] {
			sc.ServerFeature = xdsclient.ServerFeatureIgnoreResourceDeletion
		}
		scs = append(scs, sc)
	}
	cfg.Servers = append(cfg.Servers, scs...)
	if len(o.Auths) > 0 {
		cfg.Authorities = map[string]xdsclient.Authority{}
		for k, list := range o.Auths {
			var a xdsclient.Authority
			for _, i := range list {
				a.XDSServers = append(a.XDSServers, scs[i])
			}
			cfg.Authorities[AuthName(k+1)] = a
		}
	}
	for _, ts := range Types {
		cfg.ResourceTypes[ts.URL] = xdsclient.ResourceType{TypeURL: ts.URL, TypeName: ts.Name, AllResourcesRequiredInSotW: ts.AllRequired, Decoder: decoder{}}
	}
	c, err := xdsclient.New(cfg)
	if err != nil {
		return nil, err
	}
	r.Client = c
	return r, nil
}

// Settle waits until the client has finished reacting.
func (r *Rig) Settle() { synctest.Wait() }

// SetOp tags subsequently recorded events with the plan op index.
func (r *Rig) SetOp(i int) {
	r.mu.Lock()
	r.CurOp = i
	r.mu.Unlock()
}

// Watch registers a new watcher for a resource of the top-level authority.
func (r *Rig) Watch(t int, name string, hold bool) *Watcher { return r.WatchAuth(0, t, name, hold) }

// WatchAuth registers a new watcher; a is the authority the name belongs to
// (only recorded, the client derives it from the name).
func (r *Rig) WatchAuth(a, t int, name string, hold bool) *Watcher {
	r.mu.Lock()
	w := &Watcher{ID: len(r.Watchers), A: a, T: t, Name: name, Hold: hold, rig: r}
	r.Watchers = append(r.Watchers, w)
	r.mu.Unlock()
	w.cancel = r.Client.WatchResource(Types[t].URL, name, w)
	return w
}

// Cancel cancels the watch.
func (w *Watcher) Cancel() {
	w.rig.mu.Lock()
	w.Cancelled = true
	w.rig.mu.Unlock()
	w.cancel()
}

// CurTransport returns the live (not closed) transport of server i, or nil.
func (r *Rig) CurTransport(i int) *Transport {
	r.mu.Lock()
	defer r.mu.Unlock()
	ts := r.Transports[i]
	if len(ts) == 0 || ts[len(ts)-1].Closed {
		return nil
	}
	return ts[len(ts)-1]
}

// OpenTransports returns how many transports of server i are not closed.
func (r *Rig) OpenTransports(i int) int {
	r.mu.Lock()
	defer r.mu.Unlock()
	n := 0
	for _, t := range r.Transports[i] {
		if !t.Closed {
			n++
		}
	}
	return n
}

// Held returns the calls whose done callback has not been invoked, oldest first.
func (r *Rig) Held() []*Call {
	r.mu.Lock()
	defer r.mu.Unlock()
	var h []*Call
	for _, c := range r.Calls {
		if !c.Released {
			h = append(h, c)
		}
	}
	return h
}

// Snapshot returns the lengths of the logs (to slice the events of one op).
func (r *Rig) Snapshot() (reqs, calls, chans int) {
	r.mu.Lock()
	defer r.mu.Unlock()
	return len(r.Requests), len(r.Calls), len(r.ChanEvents)
}

// Since returns the events recorded after the snapshot.
func (r *Rig) Since(reqs, calls, chans int) ([]*Request, []*Call, []ChanEvent) {
	r.mu.Lock()
	defer r.mu.Unlock()
	return append([]*Request(nil), r.Requests[reqs:]...), append([]*Call(nil), r.Calls[calls:]...), append([]ChanEvent(nil), r.ChanEvents[chans:]...)
}

// Flow returns recorded flow-control violations and rig problems.
func (r *Rig) Flow() (flow, problems []string) {
	r.mu.Lock()
	defer r.mu.Unlock()
	return append([]string(nil), r.FlowViolations...), append([]string(nil), r.Problems...)
}

// ResSpec is one resource inside a generated response.
type ResSpec struct {
	N    int `json:"n"`           // name index
	Kind int `json:"kind"`        // 0 ok, 1 bad, 2 undecodable
	V    int `json:"v"`           // content version (ok) or reason (bad)
	A    int `json:"a,omitempty"` // authority of the name (0 = top-level, old-style name)
}

// ResName maps a name index to an old-style resource name (top-level authority).
func ResName(n int) string { return fmt.Sprintf("r%d", n) }

// ResNameA is the name of resource n of type t (0,1 registered; anything else:
// the unregistered type) in authority a: old-style "r<n>" for the top-level
// authority, "xdstp://verif-auth-<a>/<type>/r<n>" for a named one. Names of
// different authorities are distinct by construction; the client routes a
// watch to an authority by parsing the name.
func ResNameA(a, t, n int) string {
	if a <= 0 {
		return ResName(n)
	}
	u := UnknownURL
	if t >= 0 && t < len(Types) {
		u = Types[t].URL
	}
	return fmt.Sprintf("xdstp://%s/%s/r%d", AuthName(a), strings.TrimPrefix(u, "type.googleapis.com/"), n)
}

// Payload renders the resource payload for a response of type t.
func (rs ResSpec) Payload(t int) string {
	switch rs.Kind {
	case 0:
		return fmt.Sprintf("ok:%s:%d", ResNameA(rs.A, t, rs.N), rs.V)
	case 1:
		return fmt.Sprintf("bad:%s:%d", ResNameA(rs.A, t, rs.N), rs.V)
	}
	return fmt.Sprintf("junk%d", rs.V)
}

// MarshalResponse builds a DiscoveryResponse of type t (2 = unregistered).
func MarshalResponse(t int, version, nonce string, res []ResSpec) []byte {
	typeURL := UnknownURL
	if t >= 0 && t < len(Types) {
		typeURL = Types[t].URL
	}
	resp := &v3discoverypb.DiscoveryResponse{TypeUrl: typeURL, VersionInfo: version, Nonce: nonce}
	for _, rs := range res {
		resp.Resources = append(resp.Resources, &anypb.Any{TypeUrl: typeURL, Value: []byte(rs.Payload(t))})
	}
	b, err := proto.Marshal(resp)
	if err != nil {
		panic(err)
	}
	return b
}
