package xdsrig

import (
	"fmt"
	"sort"
	"strings"
	"testing"
	"time"

	"google.golang.org/grpc/internal/verifkit/vk"
)

// Aspects select which observation classes are asserted by a check.
const (
	AspWire     = 1 << iota // C42: requests, stream handling, flow control
	AspWatch                // C43: watcher callbacks, unsubscribe on last unwatch
	AspFallback             // C44: channels created/released, subscriptions per server
)

// Known-finding signatures (see notes/C42.md, notes/C44.md).
const (
	SigUnknownTypeStall   = "c42.unknown_type_response_stalls_stream"
	SigFallbackNonActive  = "c44.fallback_on_nonactive_server_failure"
	reconnectSleep        = 150 * time.Second // > max stream backoff (120s * 1.2)
	DefaultExpiry         = 20 * time.Minute
	maxNames              = 4
	stRequested, stAcked  = 0, 1
	stNacked, stNotExist  = 2, 3
	wsStarted, wsReq      = 0, 1
	wsReceived, wsTimeout = 2, 3
	cNone, cWaitNew       = 0, 1
	cBackoff, cUp         = 2, 3
)

// Op is one plan step. Operands are relative (resolved against the model
// state at execution time) so that shrunk plans stay meaningful.
type Op struct {
	K      string    `json:"k"` // watch | unwatch | resp | break | grant | release | advance
	S      int       `json:"s,omitempty"`
	T      int       `json:"t,omitempty"` // 0,1 registered types; 2 unregistered (resp only)
	N      int       `json:"n,omitempty"`
	A      int       `json:"a,omitempty"` // watch: authority (0 top-level, k named authority k; modulo the number configured)
	Hold   bool      `json:"hold,omitempty"`
	Ver    int       `json:"ver,omitempty"`
	Nonce  int       `json:"nonce,omitempty"`
	Res    []ResSpec `json:"res,omitempty"`
	Accept bool      `json:"accept,omitempty"`
	Half   bool      `json:"half,omitempty"`
	All    bool      `json:"all,omitempty"`
}

// Plan is a complete serialisable case.
type Plan struct {
	Servers   int    `json:"servers"`
	IgnoreDel []bool `json:"ignore_del,omitempty"`
	// Auths: named authorities (k = 1..len) with their ordered server lists
	// (indices modulo Servers, duplicates dropped; empty = inherits the
	// top-level list 0..Servers-1). Absent = only the top-level authority.
	Auths        [][]int `json:"auths,omitempty"`
	Ops          []Op    `json:"ops"`
	ReleaseAtEnd bool    `json:"release_at_end"`
}

// Stats are per-case counters used by the non-trivial rules.
type Stats struct {
	Nacks             int // NACKed responses (of a subscribed type)
	Acks              int
	RestartsWithSubs  int // streams re-created while >=1 resource was subscribed
	UnknownResp       int
	HeldCallbacks     int // callbacks whose done was held
	BlockedReads      int // quiescent points at which the read loop was blocked by flow control
	Expiries          int
	Deletions         int
	ValidInvalidValid int // resources that went valid -> invalid -> valid with >= 2 watchers
	Fallbacks         int
	Reverts           int
	IgnoredDeletes    int
	NewWatcherCached  int
	Unsubscribes      int
	ChannelCloses     int
	StreamFailNoMsg   int
	StreamFailAfter   int
	DupNack           int
	GrayNoRevert      int
	Applied           int
	Skipped           int
	// several authorities (C44)
	SharedAcquire     int // an authority took a reference on a channel that another authority already held
	SharedFallbacks   int // ... as the target of a fallback
	SharedReverts     int // an authority reverted while another authority still used one of the lower-priority servers it left
	SharedRevertUnsub int // ... and its names had to disappear from a usable stream of that server
	ReleaseKeepsOpen  int // a reference was released and the channel had to stay open
	SharedFailures    int // a stream failure observed by >= 2 authorities
	SharedResponses   int // a response on a channel used by >= 2 authorities
}

// Report is the outcome of Execute.
type Report struct {
	Violation string
	Sig       string
	Known     map[string]string // known-finding signatures observed -> description
	Classes   map[string]bool
	Stats     Stats
	Steps     int
	OffAspect string // non-empty: stopped early because an unasserted aspect diverged
}

// ---------------------------------------------------------------- model ---
//
// Two layers, as in gRFC A71 / A47:
//   - per management server: the (shared, reference-counted) channel with its
//     ADS stream state and the subscription list of each type = the union of
//     what the authorities using that server want from it;
//   - per authority: its ordered server list, which of those channels it holds
//     a reference on, the active one, and its resource cache.
// A channel exists iff at least one authority holds a reference.

type mWatchState struct {
	state    int
	deadline time.Time
}

type mType struct {
	hasState bool
	version  string
	nonce    string
	subs     map[string]*mWatchState
}

type mServer struct {
	conn     int
	broken   bool // fake stream broken but the client has not observed it yet
	gotMsg   bool
	nodeSent bool
	stalled  bool
	streams  int // streams granted on the current channel
	types    [2]*mType
	refs     map[int]bool // authorities holding a reference on the channel
}

func freshServer() *mServer {
	s := &mServer{refs: map[int]bool{}}
	for i := range s.types {
		s.types[i] = &mType{subs: map[string]*mWatchState{}}
	}
	return s
}

func (s *mServer) refIDs() []int {
	var ids []int
	for id := range s.refs {
		ids = append(ids, id)
	}
	sort.Ints(ids)
	return ids
}

type mRes struct {
	watchers   []*Watcher
	cache      string
	status     int
	lastErr    string
	delIgnored bool
	chans      map[int]bool // servers (global index) this resource is subscribed on
	// opt: existing non-active channels on which the subscription is
	// optional and not yet observable (the resource was first watched while
	// the client was on a fallback server and that channel had no usable
	// stream). gRFC A71 / the C++ client subscribe such a resource on every
	// channel of the authority, grpc-go only on the active one; the branch is
	// resolved from the first request that becomes observable.
	opt map[int]bool
	viv int // valid/invalid/valid tracker
}

// mAuth is one authority (0 = top-level).
type mAuth struct {
	id     int
	srvs   []int       // server indices in priority order
	pos    map[int]int // server index -> position in srvs
	active int         // position of the active server, -1 = no channel at all
	held   []bool      // per position: the authority holds a reference on that server's channel
	res    [2]map[string]*mRes
}

func (a *mAuth) anyResource() bool { return len(a.res[0])+len(a.res[1]) > 0 }

// uncached reports (definitely uncached, gray): "requested" resources have no
// cached value; a resource whose only responses were rejected has no cached
// value either, but the implementation (like the other gRPC implementations)
// does not count it -> gray zone, either decision is accepted.
func (a *mAuth) uncached() (yes, gray bool) {
	for t := 0; t < 2; t++ {
		for _, r := range a.res[t] {
			if r.status == stRequested {
				yes = true
			}
			if r.status == stNacked && r.cache == "" {
				gray = true
			}
		}
	}
	return yes, gray && !yes
}

type expReq struct {
	srv, t         int
	version, nonce string
	names          []string
	pre            []string // subscription list before the change that caused this request
	nack           bool
}

type expCall struct {
	w        *Watcher
	kind     string
	payload  string
	optional bool
}

type expect struct {
	reqs   []expReq
	loose  map[int]bool // servers whose channel is closed in this op: request count not asserted
	calls  []expCall
	builds []int
	closes []int
}

// observation of the client's reactions during the current op; used only at
// the points where the statement leaves freedom (gray zones) or a listed
// finding is recognised.
type observed struct {
	built  map[int]bool // servers to which a channel was created
	closed map[int]bool // servers whose channel was closed
	had    map[int]bool // servers that had a channel (per model) when the op started
}

type model struct {
	n         int
	ignoreDel []bool
	expiry    time.Duration
	srv       []*mServer
	auths     []*mAuth
	now       time.Time
	exp       *expect
	st        *Stats
	known     map[string]string
	// obsReq reports whether a request of type t listing name was sent to
	// server srv during the current op; obsReqWithout whether one of type t
	// NOT listing name was.
	obsReq        func(srv, t int, name string) bool
	obsReqWithout func(srv, t int, name string) bool
	// unobservable: a gray-zone decision of the client could not be read off
	// its reactions in this op; the case is stopped (not a verdict).
	unobservable string
}

func newAuth(id int, srvs []int) *mAuth {
	a := &mAuth{id: id, srvs: srvs, pos: map[int]int{}, active: -1, held: make([]bool, len(srvs))}
	for p, s := range srvs {
		a.pos[s] = p
	}
	a.res[0] = map[string]*mRes{}
	a.res[1] = map[string]*mRes{}
	return a
}

func (m *model) names(mt *mType) []string {
	var n []string
	for k := range mt.subs {
		n = append(n, k)
	}
	sort.Strings(n)
	return n
}

func (m *model) sendable(i int) bool { return m.srv[i].conn == cUp && !m.srv[i].broken }

func (m *model) expectReq(i, t int, nack bool, pre []string) {
	mt := m.srv[i].types[t]
	names := m.names(mt)
	if pre == nil {
		pre = names
	}
	m.exp.reqs = append(m.exp.reqs, expReq{srv: i, t: t, version: mt.version, nonce: mt.nonce, names: names, pre: pre, nack: nack})
}

func (m *model) startTimers(i, t int, names []string) {
	mt := m.srv[i].types[t]
	for _, n := range names {
		if ws := mt.subs[n]; ws != nil && ws.state == wsStarted {
			ws.state = wsReq
			ws.deadline = m.now.Add(m.expiry)
		}
	}
}

func (m *model) subscribe(i, t int, name string) {
	mt := m.srv[i].types[t]
	pre := m.names(mt)
	mt.hasState = true
	mt.subs[name] = &mWatchState{state: wsStarted}
	if m.sendable(i) {
		m.expectReq(i, t, false, pre)
		m.startTimers(i, t, m.names(mt))
	}
}

func (m *model) unsubscribe(i, t int, name string) {
	mt := m.srv[i].types[t]
	if _, ok := mt.subs[name]; !ok {
		return
	}
	pre := m.names(mt)
	delete(mt.subs, name)
	m.st.Unsubscribes++
	if m.sendable(i) {
		m.expectReq(i, t, false, pre)
	}
}

func (m *model) buildChannel(i int) {
	m.srv[i] = freshServer()
	m.srv[i].conn = cWaitNew // the runner calls NewStream right away
	m.exp.builds = append(m.exp.builds, i)
}

func (m *model) closeChannel(i int) {
	if m.srv[i].conn == cNone {
		return
	}
	m.srv[i] = freshServer()
	for _, a := range m.auths {
		for t := 0; t < 2; t++ {
			for _, r := range a.res[t] {
				delete(r.opt, i)
			}
		}
	}
	m.exp.closes = append(m.exp.closes, i)
	m.exp.loose[i] = true
	m.st.ChannelCloses++
}

// acquire: authority a takes a reference on the channel of its p-th server;
// the channel is created if nobody holds one.
func (m *model) acquire(a *mAuth, p int) {
	i := a.srvs[p]
	if len(m.srv[i].refs) == 0 {
		m.buildChannel(i)
	} else {
		m.st.SharedAcquire++
	}
	m.srv[i].refs[a.id] = true
	a.held[p] = true
}

// release: authority a drops its reference; the channel is closed iff it was
// the last one.
func (m *model) release(a *mAuth, p int) {
	if !a.held[p] {
		return
	}
	a.held[p] = false
	i := a.srvs[p]
	for t := 0; t < 2; t++ {
		for _, r := range a.res[t] {
			delete(r.opt, i)
		}
	}
	delete(m.srv[i].refs, a.id)
	if len(m.srv[i].refs) == 0 {
		m.closeChannel(i)
	} else {
		m.st.ReleaseKeepsOpen++
	}
}

func (m *model) watch(w *Watcher) {
	a := m.auths[w.A]
	if a.active < 0 {
		m.acquire(a, 0)
		a.active = 0
	}
	act := a.srvs[a.active]
	r := a.res[w.T][w.Name]
	if r == nil {
		r = &mRes{status: stRequested, chans: map[int]bool{act: true}, opt: map[int]bool{}}
		a.res[w.T][w.Name] = r
		m.subscribe(act, w.T, w.Name)
		for p, j := range a.srvs {
			if p == a.active || !a.held[p] {
				continue
			}
			if !m.sendable(j) {
				r.opt[j] = true
			} else if m.obsReq(j, w.T, w.Name) {
				m.subscribe(j, w.T, w.Name)
				r.chans[j] = true
			}
		}
	}
	r.watchers = append(r.watchers, w)
	if r.cache != "" {
		m.exp.calls = append(m.exp.calls, expCall{w: w, kind: "changed", payload: r.cache})
		m.st.NewWatcherCached++
	}
	if r.status == stNacked {
		m.exp.calls = append(m.exp.calls, expCall{w: w, kind: errKind(r)})
	}
	if r.status == stNotExist {
		m.exp.calls = append(m.exp.calls, expCall{w: w, kind: "reserr"})
	}
}

func errKind(r *mRes) string {
	if r.cache == "" {
		return "reserr"
	}
	return "amberr"
}

func (m *model) unwatch(w *Watcher) {
	a := m.auths[w.A]
	r := a.res[w.T][w.Name]
	if r == nil {
		return
	}
	for i, x := range r.watchers {
		if x == w {
			r.watchers = append(r.watchers[:i:i], r.watchers[i+1:]...)
			break
		}
	}
	if len(r.watchers) > 0 {
		return
	}
	for _, i := range a.srvs {
		if r.chans[i] {
			m.unsubscribe(i, w.T, w.Name)
		}
	}
	delete(a.res[w.T], w.Name)
	if !a.anyResource() {
		for p := range a.srvs {
			m.release(a, p)
		}
		a.active = -1
	}
}

func (m *model) propagateConnErr(a *mAuth, optional bool) {
	for t := 0; t < 2; t++ {
		for _, name := range sortedKeys(a.res[t]) {
			r := a.res[t][name]
			for _, w := range r.watchers {
				m.exp.calls = append(m.exp.calls, expCall{w: w, kind: errKind(r), optional: optional})
			}
		}
	}
}

func sortedKeys(mp map[string]*mRes) []string {
	var k []string
	for n := range mp {
		k = append(k, n)
	}
	sort.Strings(k)
	return k
}

// streamFailed models the client observing a stream failure on server i
// (Recv error or NewStream error). Every authority that holds the channel is
// notified and decides on its own. obs (what the client did in this op)
// selects the branch at the points where the statement leaves freedom or the
// implementation is known to deviate.
func (m *model) streamFailed(i int, afterMsg bool, obs observed) {
	s := m.srv[i]
	for t := 0; t < 2; t++ {
		for _, ws := range s.types[t].subs {
			if ws.state == wsReq {
				ws.state = wsStarted
			}
		}
	}
	s.broken = false
	s.gotMsg = false
	if afterMsg {
		// gRFC A57: not a failure; the stream is re-created immediately.
		s.conn = cWaitNew
		m.st.StreamFailAfter++
		return
	}
	s.conn = cBackoff
	m.st.StreamFailNoMsg++
	ids := s.refIDs()
	if len(ids) > 1 {
		m.st.SharedFailures++
	}
	// cand: for every server, the authorities that may (definitely or in a
	// gray zone) take it into use as their fallback target in this op. A
	// channel creation can only be attributed to an authority if it is the
	// only candidate for that server.
	cand := map[int][]int{}
	for _, id := range ids {
		a := m.auths[id]
		yes, gray := a.uncached()
		if p := a.pos[i]; p == a.active && (yes || gray) {
			if q := a.nextUnheld(p); q >= 0 {
				cand[a.srvs[q]] = append(cand[a.srvs[q]], id)
			}
		}
	}
	for _, id := range ids {
		m.authStreamFailed(m.auths[id], i, obs, cand)
	}
}

// nextUnheld returns the first position after p whose channel the authority
// does not hold (-1: none).
func (a *mAuth) nextUnheld(p int) int {
	for q := p + 1; q < len(a.srvs); q++ {
		if !a.held[q] {
			return q
		}
	}
	return -1
}

// observedFallback: did authority a take the channel of its q-th server into
// use in this op? ok=false: cannot be told from the client's reactions.
func (m *model) observedFallback(a *mAuth, q int, obs observed, cand map[int][]int) (did, ok bool) {
	j := a.srvs[q]
	if !obs.had[j] {
		for _, id := range cand[j] {
			if id != a.id {
				// possibly created on behalf of another authority in this very op
				return false, false
			}
		}
		return obs.built[j], true
	}
	if !m.sendable(j) {
		return false, false
	}
	for t := 0; t < 2; t++ {
		for _, name := range sortedKeys(a.res[t]) {
			return m.obsReq(j, t, name), true
		}
	}
	return false, false
}

func (m *model) authStreamFailed(a *mAuth, i int, obs observed, cand map[int][]int) {
	p := a.pos[i]
	yes, gray := a.uncached()
	next := a.nextUnheld(p)
	fallback := false
	switch {
	case next < 0:
	case yes && p == a.active:
		fallback = true
	case yes && p != a.active:
		// Statement: switch "only when the active server's stream failed".
		// (The implementation used to fall back from whichever server failed.)
		if did, ok := m.observedFallback(a, next, obs, cand); ok && did {
			m.known[SigFallbackNonActive] = fmt.Sprintf("stream to server %d failed while server %d was active for authority %d; the client took server %d into use", i, a.srvs[a.active], a.id, a.srvs[next])
			fallback = true
		}
	case gray && p == a.active:
		did, ok := m.observedFallback(a, next, obs, cand)
		if !ok {
			m.unobservable = "gray fallback decision (only rejected resources uncached) onto a channel without observable reaction"
		}
		fallback = did
	}
	if fallback {
		j := a.srvs[next]
		shared := len(m.srv[j].refs) > 0
		m.acquire(a, next)
		a.active = next
		m.st.Fallbacks++
		if shared {
			m.st.SharedFallbacks++
		}
		for t := 0; t < 2; t++ {
			for _, name := range sortedKeys(a.res[t]) {
				m.subscribe(j, t, name)
				a.res[t][name].chans[j] = true
			}
		}
		return
	}
	// A failure of a server other than the active one: the statement does not
	// say whether watchers hear about it (grpc-go: yes, C++: no).
	m.propagateConnErr(a, p != a.active)
}

// revertTo: authority a makes its p-th server the active one: every
// lower-priority server is unsubscribed from (a's names only) and released.
func (m *model) revertTo(a *mAuth, p int) {
	if p >= a.active {
		return
	}
	m.st.Reverts++
	shared, sharedUnsub := false, false
	for q := p + 1; q < len(a.srvs); q++ {
		j := a.srvs[q]
		others := len(m.srv[j].refs) > 1 && a.held[q]
		for t := 0; t < 2; t++ {
			for _, name := range sortedKeys(a.res[t]) {
				r := a.res[t][name]
				if r.chans[j] {
					if others && m.sendable(j) {
						sharedUnsub = true
					}
					m.unsubscribe(j, t, name)
					delete(r.chans, j)
				}
				delete(r.opt, j)
			}
		}
		if others {
			shared = true
		}
		m.release(a, q)
	}
	a.active = p
	if shared {
		m.st.SharedReverts++
	}
	if sharedUnsub {
		m.st.SharedRevertUnsub++
	}
}

// observedRevert: did authority a leave its servers below position p in this
// op? ok=false: cannot be told from the client's reactions.
func (m *model) observedRevert(a *mAuth, p int, obs observed) (did, ok bool) {
	for q := p + 1; q < len(a.srvs); q++ {
		if !a.held[q] {
			continue
		}
		j := a.srvs[q]
		if obs.closed[j] {
			// closed = every holder, a included, has released it
			return true, true
		}
		if len(m.srv[j].refs) == 1 {
			return false, true
		}
		if !m.sendable(j) {
			continue
		}
		for t := 0; t < 2; t++ {
			for _, name := range sortedKeys(a.res[t]) {
				if a.res[t][name].chans[j] {
					return m.obsReqWithout(j, t, name), true
				}
			}
		}
	}
	return false, false
}

type decoded struct {
	name    string
	bad     bool
	reason  string
	payload string
}

func decodeSpecs(t int, res []ResSpec) (items []decoded, nack bool) {
	for _, rs := range res {
		name := ResNameA(rs.A, t, rs.N)
		switch rs.Kind {
		case 0:
			items = append(items, decoded{name: name, payload: rs.Payload(t)})
		case 1:
			items = append(items, decoded{name: name, bad: true, reason: fmt.Sprintf("%s:%d", name, rs.V)})
			nack = true
		default:
			nack = true
		}
	}
	return items, nack
}

// respond models a response of registered type t on server i: the channel
// ACKs/NACKs it, and every authority that holds the channel processes it.
func (m *model) respond(i, t int, version, nonce string, res []ResSpec, obs observed) {
	s := m.srv[i]
	s.gotMsg = true
	items, nack := decodeSpecs(t, res)
	mt := s.types[t]
	// wire
	for _, it := range items {
		if ws := mt.subs[it.name]; ws != nil && (ws.state == wsStarted || ws.state == wsReq) {
			ws.state = wsReceived
		}
	}
	mt.nonce = nonce
	if nack {
		m.st.Nacks++
	} else {
		mt.version = version
		m.st.Acks++
	}
	m.expectReq(i, t, nack, nil)
	// authorities
	ids := s.refIDs()
	if len(ids) > 1 {
		m.st.SharedResponses++
	}
	for _, id := range ids {
		m.authRespond(m.auths[id], i, t, items, obs)
	}
}

// authRespond: authority a processes a response from server i.
//
// A response from a server with higher priority than a's active one that
// carries no valid resource at all (empty, or everything rejected) is a gray
// zone for "delivers an update" - the client may or may not revert on it.
func (m *model) authRespond(a *mAuth, i, t int, items []decoded, obs observed) {
	p := a.pos[i]
	if a.active < 0 || p > a.active {
		return
	}
	if p < a.active {
		definite := false
		for _, it := range items {
			if !it.bad {
				definite = true
			}
		}
		if !definite {
			did, ok := m.observedRevert(a, p, obs)
			if !ok {
				m.unobservable = "gray revert decision (response without a valid resource) without observable reaction"
				return
			}
			if !did {
				m.st.GrayNoRevert++
				return
			}
		}
	}
	m.revertTo(a, p)
	inResp := map[string]bool{}
	for _, it := range items {
		inResp[it.name] = true
		r := a.res[t][it.name]
		if r == nil {
			continue
		}
		if it.bad {
			dup := r.status == stNacked && r.lastErr == it.reason
			if dup {
				m.st.DupNack++
			}
			for _, w := range r.watchers {
				m.exp.calls = append(m.exp.calls, expCall{w: w, kind: errKind(r), optional: dup})
			}
			r.status = stNacked
			r.lastErr = it.reason
			if r.viv == 1 && len(r.watchers) >= 2 {
				r.viv = 2
			}
			continue
		}
		r.delIgnored = false
		if r.cache == "" || r.cache != it.payload || r.status == stNacked {
			r.cache = it.payload
			for _, w := range r.watchers {
				m.exp.calls = append(m.exp.calls, expCall{w: w, kind: "changed", payload: it.payload})
			}
		}
		r.status = stAcked
		r.lastErr = ""
		if len(r.watchers) >= 2 {
			if r.viv == 0 {
				r.viv = 1
			} else if r.viv == 2 {
				r.viv = 3
				m.st.ValidInvalidValid++
			}
		}
	}
	if !Types[t].AllRequired {
		return
	}
	for _, name := range sortedKeys(a.res[t]) {
		r := a.res[t][name]
		if r.cache == "" || inResp[name] {
			continue
		}
		if m.ignoreDel[i] {
			r.delIgnored = true
			m.st.IgnoredDeletes++
			continue
		}
		r.cache = ""
		r.status = stNotExist
		r.lastErr = ""
		m.st.Deletions++
		for _, w := range r.watchers {
			m.exp.calls = append(m.exp.calls, expCall{w: w, kind: "reserr"})
		}
	}
}

// granted models a newly established stream on server i.
func (m *model) granted(i int) {
	s := m.srv[i]
	s.conn = cUp
	s.broken = false
	s.gotMsg = false
	s.nodeSent = false
	s.stalled = false
	s.streams++
	for _, a := range m.auths {
		for t := 0; t < 2; t++ {
			for _, name := range sortedKeys(a.res[t]) {
				r := a.res[t][name]
				if !r.opt[i] {
					continue
				}
				delete(r.opt, i)
				if m.obsReq(i, t, name) {
					s.types[t].hasState = true
					s.types[t].subs[name] = &mWatchState{state: wsStarted}
					r.chans[i] = true
				}
			}
		}
	}
	withSubs := false
	for t := 0; t < 2; t++ {
		mt := s.types[t]
		if !mt.hasState {
			continue
		}
		mt.nonce = ""
		if len(mt.subs) == 0 {
			continue
		}
		withSubs = true
		m.expectReq(i, t, false, nil)
		m.startTimers(i, t, m.names(mt))
	}
	if withSubs && s.streams > 1 {
		m.st.RestartsWithSubs++
	}
}

// owner returns the resource state of (t, name) in whichever authority owns
// the name (names of different authorities are distinct).
func (m *model) owner(t int, name string) *mRes {
	for _, a := range m.auths {
		if r := a.res[t][name]; r != nil {
			return r
		}
	}
	return nil
}

// advanceTo fires the watch-expiry timers that are due.
func (m *model) advanceTo(now time.Time) {
	m.now = now
	type due struct {
		at   time.Time
		i, t int
		name string
	}
	var ds []due
	for i, s := range m.srv {
		for t := 0; t < 2; t++ {
			for name, ws := range s.types[t].subs {
				if ws.state == wsReq && !ws.deadline.After(now) {
					ds = append(ds, due{ws.deadline, i, t, name})
				}
			}
		}
	}
	sort.Slice(ds, func(a, b int) bool {
		if !ds[a].at.Equal(ds[b].at) {
			return ds[a].at.Before(ds[b].at)
		}
		if ds[a].i != ds[b].i {
			return ds[a].i < ds[b].i
		}
		if ds[a].t != ds[b].t {
			return ds[a].t < ds[b].t
		}
		return ds[a].name < ds[b].name
	})
	for _, d := range ds {
		m.srv[d.i].types[d.t].subs[d.name].state = wsTimeout
		m.st.Expiries++
		r := m.owner(d.t, d.name)
		if r == nil {
			continue
		}
		r.cache = ""
		r.status = stNotExist
		r.lastErr = ""
		for _, w := range r.watchers {
			m.exp.calls = append(m.exp.calls, expCall{w: w, kind: "reserr"})
		}
	}
}

// ------------------------------------------------------------- executor ---

type exec struct {
	p       Plan
	aspects int
	rig     *Rig
	m       *model
	rep     *Report
	live    []*Watcher
	curOp   int
}

func (e *exec) class(c string) { e.rep.Classes[c] = true }

func (e *exec) fail(asp int, format string, args ...any) bool {
	msg := fmt.Sprintf(format, args...)
	if e.aspects&asp == 0 {
		if e.rep.OffAspect == "" {
			e.rep.OffAspect = msg
		}
		return true
	}
	if e.rep.Violation == "" {
		e.rep.Violation = fmt.Sprintf("op %d (%s): %s", e.curOp, e.opName(), msg)
	}
	return true
}

func (e *exec) opName() string {
	if e.curOp >= 0 && e.curOp < len(e.p.Ops) {
		return e.p.Ops[e.curOp].K
	}
	return "end"
}

func (e *exec) fcBlocked(i int) bool {
	op := e.rig.lastPushOp[i]
	if op < 0 {
		return false
	}
	for _, c := range e.rig.Held() {
		if c.Op == op {
			return true
		}
	}
	return false
}

// reading predicts whether the client is blocked in Recv on server i.
func (e *exec) reading(i int) bool {
	s := e.m.srv[i]
	return s.conn == cUp && !s.broken && !s.stalled && !e.fcBlocked(i)
}

func pick(cands []int, k int) int {
	if len(cands) == 0 {
		return -1
	}
	if k < 0 {
		k = -k
	}
	return cands[k%len(cands)]
}

func (e *exec) servers(pred func(int) bool) []int {
	var c []int
	for i := 0; i < e.m.n; i++ {
		if pred(i) {
			c = append(c, i)
		}
	}
	return c
}

// Execute runs the plan inside a bubble and returns the report.
func Execute(t *testing.T, p Plan, aspects int) Report {
	rep := Report{Classes: map[string]bool{}, Known: map[string]string{}}
	if p.Servers < 1 {
		p.Servers = 1
	}
	if p.Servers > 3 {
		p.Servers = 3
	}
	p.Auths = NormAuths(p.Servers, p.Auths)
	msg := vk.Bubble(t, func(t *testing.T) {
		e := &exec{p: p, aspects: aspects, rep: &rep}
		e.run()
	})
	if msg != "" && rep.Violation == "" && rep.OffAspect == "" {
		rep.Violation = "client did not shut down cleanly / harness bubble failure: " + msg
	}
	return rep
}

// NormAuths makes the authority lists of a plan well-formed: at most 3 named
// authorities, indices modulo the number of servers, duplicates dropped.
func NormAuths(servers int, auths [][]int) [][]int {
	if len(auths) > 3 {
		auths = auths[:3]
	}
	var out [][]int
	for _, l := range auths {
		seen := map[int]bool{}
		n := []int{}
		for _, x := range l {
			x = abs(x) % servers
			if !seen[x] {
				seen[x] = true
				n = append(n, x)
			}
		}
		out = append(out, n)
	}
	return out
}

func (e *exec) run() {
	p := e.p
	ign := make([]bool, p.Servers)
	copy(ign, p.IgnoreDel)
	rig, err := New(Options{Servers: p.Servers, IgnoreDel: ign, Expiry: DefaultExpiry, Auths: p.Auths})
	if err != nil {
		e.rep.Violation = "xdsclient.New failed: " + err.Error()
		return
	}
	e.rig = rig
	e.m = &model{n: p.Servers, ignoreDel: ign, expiry: DefaultExpiry, now: time.Now(), st: &e.rep.Stats, known: e.rep.Known}
	top := make([]int, p.Servers)
	for i := 0; i < p.Servers; i++ {
		e.m.srv = append(e.m.srv, freshServer())
		top[i] = i
	}
	e.m.auths = []*mAuth{newAuth(0, top)}
	for k, l := range p.Auths {
		if len(l) == 0 {
			l = top // an authority without servers of its own uses the top-level list
		}
		e.m.auths = append(e.m.auths, newAuth(k+1, append([]int(nil), l...)))
	}
	defer func() {
		// Shut down: optionally release held callbacks first, then Close.
		e.curOp = len(p.Ops)
		rig.SetOp(e.curOp)
		if p.ReleaseAtEnd {
			for _, c := range rig.Held() {
				c.Release()
			}
			rig.Settle()
		}
		rig.Client.Close()
		// unblock anything still parked in the fakes (a correct client has
		// cancelled all stream contexts by now)
		for _, c := range rig.Held() {
			c.Release()
		}
		rig.Settle()
		for i := 0; i < rig.N; i++ {
			if n := rig.OpenTransports(i); n != 0 && e.rep.Violation == "" && e.rep.OffAspect == "" {
				e.fail(AspFallback|AspWire, "after Close() %d transport(s) to server %d are still open", n, i)
			}
		}
	}()
	for i, op := range p.Ops {
		e.curOp = i
		rig.SetOp(i)
		if stop := e.step(op); stop {
			break
		}
		e.rep.Steps++
	}
	// classes from stats
	st := e.rep.Stats
	flag := func(b bool, c string) {
		if b {
			e.class(c)
		}
	}
	flag(st.Nacks > 0, "nack")
	flag(st.RestartsWithSubs > 0, "restart_with_subs")
	flag(st.UnknownResp > 0, "unknown_type_resp")
	flag(st.HeldCallbacks > 0, "held_done")
	flag(st.BlockedReads > 0, "read_blocked_by_flow_control")
	flag(st.Expiries > 0, "watch_expired")
	flag(st.Deletions > 0, "sotw_deletion")
	flag(st.IgnoredDeletes > 0, "deletion_ignored")
	flag(st.ValidInvalidValid > 0, "valid_invalid_valid_2watchers")
	flag(st.Fallbacks > 0, "fallback")
	flag(st.Fallbacks > 1, "fallback_multi")
	flag(st.Reverts > 0, "revert")
	flag(st.NewWatcherCached > 0, "new_watcher_gets_cache")
	flag(st.Unsubscribes > 0, "unsubscribe")
	flag(st.ChannelCloses > 0, "channel_closed")
	flag(st.StreamFailNoMsg > 0, "stream_fail_before_msg")
	flag(st.StreamFailAfter > 0, "stream_fail_after_msg")
	flag(st.DupNack > 0, "duplicate_nack")
	flag(st.GrayNoRevert > 0, "gray_response_without_revert")
	flag(p.Servers > 1, fmt.Sprintf("servers_%d", p.Servers))
	flag(len(p.Auths) > 0, fmt.Sprintf("authorities_%d", 1+len(p.Auths)))
	flag(st.SharedAcquire > 0, "shared_channel")
	flag(st.SharedFallbacks > 0, "fallback_onto_shared_channel")
	flag(st.SharedReverts > 0, "revert_with_shared_fallback_channel")
	flag(st.SharedRevertUnsub > 0, "revert_unsubscribes_on_live_shared_stream")
	flag(st.ReleaseKeepsOpen > 0, "release_keeps_channel_open")
	flag(st.SharedFailures > 0, "stream_failure_seen_by_2plus_authorities")
	flag(st.SharedResponses > 0, "response_on_shared_channel")
	flag(st.Skipped > st.Applied, "mostly_skipped_ops")
}

// step executes one op; returns true to stop the case.
func (e *exec) step(op Op) bool {
	m, rig := e.m, e.rig
	m.exp = &expect{loose: map[int]bool{}}
	r0, c0, h0 := rig.Snapshot()
	scan := func(srv, t int, name string, with bool) bool {
		reqs, _, _ := rig.Since(r0, c0, h0)
		for _, r := range reqs {
			if r.Server != srv || r.TypeURL != Types[t].URL {
				continue
			}
			has := false
			for _, n := range r.Names {
				if n == name {
					has = true
				}
			}
			if has == with {
				return true
			}
		}
		return false
	}
	m.obsReq = func(srv, t int, name string) bool { return scan(srv, t, name, true) }
	m.obsReqWithout = func(srv, t int, name string) bool { return scan(srv, t, name, false) }
	had := map[int]bool{}
	for i, s := range m.srv {
		had[i] = s.conn != cNone
	}
	m.unobservable = ""
	m.now = time.Now()
	applied := true
	needSleep := false
	// failure branch selection needs to see whether a channel was built:
	// those ops settle first, then model.
	switch op.K {
	case "watch":
		t := op.T & 1
		a := abs(op.A) % len(m.auths)
		name := ResNameA(a, t, abs(op.N)%maxNames)
		w := rig.WatchAuth(a, t, name, op.Hold)
		e.live = append(e.live, w)
		rig.Settle()
		m.watch(w)
	case "unwatch":
		if len(e.live) == 0 {
			applied = false
			break
		}
		k := abs(op.N) % len(e.live)
		w := e.live[k]
		e.live = append(e.live[:k:k], e.live[k+1:]...)
		w.Cancel()
		rig.Settle()
		m.unwatch(w)
	case "resp":
		cands := e.servers(func(i int) bool { return e.reading(i) })
		i := pick(cands, op.S)
		if i < 0 {
			applied = false
			break
		}
		tr := rig.CurTransport(i)
		if tr == nil || tr.Cur() == nil || !tr.Cur().Pending() {
			return e.fail(AspWire, "client is not reading from the stream to server %d although nothing blocks it (no held watcher callback)", i)
		}
		version, nonce := fmt.Sprintf("v%d", op.Ver), fmt.Sprintf("n%d", op.Nonce)
		if op.Ver < 0 {
			version = ""
		}
		t := op.T
		if t != 2 {
			t &= 1
			if !m.srv[i].types[t].hasState {
				t ^= 1
			}
			if !m.srv[i].types[t].hasState {
				applied = false
				break
			}
		}
		res := make([]ResSpec, len(op.Res))
		for k, rs := range op.Res {
			rs.A = abs(rs.A) % len(m.auths)
			res[k] = rs
		}
		if t == 2 {
			tr.Cur().Push(MarshalResponse(2, version, nonce, res))
			rig.Settle()
			m.srv[i].gotMsg = true
			m.st.UnknownResp++
			// Neither ACK nor NACK is expected. Afterwards the client
			// must be ready to read again.
			if !tr.Cur().Pending() {
				m.srv[i].stalled = true
				m.known[SigUnknownTypeStall] = fmt.Sprintf("after a response with unregistered type URL on server %d the client never calls Recv again", i)
			}
		} else {
			tr.Cur().Push(MarshalResponse(t, version, nonce, res))
			rig.Settle()
			m.respond(i, t, version, nonce, res, e.observe(h0, had))
		}
	case "break":
		cands := e.servers(func(i int) bool { return m.srv[i].conn == cUp && !m.srv[i].broken })
		i := pick(cands, op.S)
		if i < 0 {
			applied = false
			break
		}
		wasReading := e.reading(i)
		rig.CurTransport(i).Cur().Break()
		rig.Settle()
		m.srv[i].broken = true
		if wasReading {
			m.streamFailed(i, m.srv[i].gotMsg, e.observe(h0, had))
			needSleep = m.srv[i].conn == cBackoff
		} else {
			e.class("break_unnoticed")
		}
	case "grant":
		cands := e.servers(func(i int) bool { return m.srv[i].conn == cWaitNew })
		i := pick(cands, op.S)
		if i < 0 {
			applied = false
			break
		}
		tr := rig.CurTransport(i)
		if tr == nil || !tr.PendingNew() {
			return e.fail(AspWire, "client did not try to (re)create the ADS stream to server %d", i)
		}
		tr.Grant(op.Accept)
		rig.Settle()
		if op.Accept {
			m.granted(i)
		} else {
			m.streamFailed(i, false, e.observe(h0, had))
			needSleep = true
		}
	case "release":
		held := rig.Held()
		if len(held) == 0 {
			applied = false
			break
		}
		var rel []*Call
		if op.All {
			rel = held
		} else {
			rel = []*Call{held[abs(op.N)%len(held)]}
		}
		for _, c := range rel {
			c.Release()
		}
		rig.Settle()
		// a server whose read loop was blocked may now notice a broken stream
		for i := 0; i < m.n; i++ {
			s := m.srv[i]
			if s.conn == cUp && s.broken && !s.stalled && !e.fcBlocked(i) {
				m.streamFailed(i, s.gotMsg, e.observe(h0, had))
				if m.srv[i].conn == cBackoff {
					needSleep = true
				}
			}
		}
	case "advance":
		d := DefaultExpiry
		if op.Half {
			d = DefaultExpiry / 2
		}
		time.Sleep(d)
		rig.Settle()
		m.advanceTo(time.Now())
		for _, s := range m.srv {
			if s.conn == cBackoff {
				s.conn = cWaitNew
			}
		}
	default:
		applied = false
	}
	if !applied {
		e.rep.Stats.Skipped++
		return false
	}
	e.rep.Stats.Applied++
	if m.unobservable != "" {
		// not a verdict: the model cannot follow the client any further
		e.class("stopped_unobservable_gray_decision")
		return true
	}
	if needSleep {
		time.Sleep(reconnectSleep)
		rig.Settle()
		m.advanceTo(time.Now())
	}
	for _, s := range m.srv {
		if s.conn == cBackoff && needSleep {
			s.conn = cWaitNew
		}
	}
	return e.verify(r0, c0, h0)
}

func abs(x int) int {
	if x < 0 {
		return -x
	}
	return x
}

// observe collects the channels built / closed since the snapshot.
func (e *exec) observe(h0 int, had map[int]bool) observed {
	r, c, _ := e.rig.Snapshot()
	_, _, ch := e.rig.Since(r, c, h0)
	o := observed{built: map[int]bool{}, closed: map[int]bool{}, had: had}
	for _, x := range ch {
		if x.Kind == "build" {
			o.built[x.Server] = true
		} else {
			o.closed[x.Server] = true
		}
	}
	return o
}

func subset(a []string, of ...[]string) bool {
	in := map[string]bool{}
	for _, l := range of {
		for _, x := range l {
			in[x] = true
		}
	}
	for _, x := range a {
		if !in[x] {
			return false
		}
	}
	return true
}

func sameSet(a, b []string) bool {
	if len(a) != len(b) {
		return false
	}
	x, y := sortedCopy(a), sortedCopy(b)
	for i := range x {
		if x[i] != y[i] {
			return false
		}
	}
	return true
}

func (e *exec) verify(r0, c0, h0 int) bool {
	m, rig := e.m, e.rig
	reqs, calls, chans := rig.Since(r0, c0, h0)
	exp := m.exp

	// ---- rig-level problems and the flow-control clause
	flow, problems := rig.Flow()
	if len(problems) > 0 {
		return e.fail(AspWire|AspWatch|AspFallback, "protocol misuse: %s", problems[0])
	}
	if len(flow) > 0 {
		return e.fail(AspWire, "flow control: %s", flow[0])
	}

	// ---- channels (C44)
	var gotB, gotC []int
	for _, c := range chans {
		if c.Kind == "build" {
			gotB = append(gotB, c.Server)
		} else {
			gotC = append(gotC, c.Server)
		}
	}
	sort.Ints(gotB)
	sort.Ints(gotC)
	eb, ec := append([]int(nil), exp.builds...), append([]int(nil), exp.closes...)
	sort.Ints(eb)
	sort.Ints(ec)
	if fmt.Sprint(gotB) != fmt.Sprint(eb) || fmt.Sprint(gotC) != fmt.Sprint(ec) {
		return e.fail(AspFallback, "channels: client created channels to servers %v and released %v; A71 model expects created %v, released %v (%s)", gotB, gotC, eb, ec, m.describe())
	}
	for i := 0; i < m.n; i++ {
		want := 0
		if m.srv[i].conn != cNone {
			want = 1
		}
		if got := rig.OpenTransports(i); got != want {
			return e.fail(AspFallback, "channels: %d open transport(s) to server %d, model expects %d", got, i, want)
		}
	}

	// ---- requests (C42)
	perSrv := map[int][]*Request{}
	for _, r := range reqs {
		perSrv[r.Server] = append(perSrv[r.Server], r)
	}
	for i := 0; i < m.n; i++ {
		got := perSrv[i]
		var want []expReq
		for _, x := range exp.reqs {
			if x.srv == i {
				want = append(want, x)
			}
		}
		if exp.loose[i] {
			// the channel was closed in this op: unsubscribe requests race with
			// the shutdown; only well-formedness is checked.
			for _, r := range got {
				if r.HasErr {
					return e.fail(AspWire, "unexpected NACK %s while closing the channel", r)
				}
			}
			continue
		}
		// Node identity: only on the first request of each stream.
		for _, r := range got {
			s := m.srv[i]
			if s.conn == cNone {
				break
			}
			if !s.nodeSent {
				if !r.HasNode || r.NodeID != NodeID {
					return e.fail(AspWire, "first request on a stream lacks the node identity: %s", r)
				}
				s.nodeSent = true
			} else if r.HasNode {
				return e.fail(AspWire, "node identity repeated on a later request of the same stream: %s", r)
			}
		}
		// Per type: the same number of requests as subscription changes /
		// responses the model saw in this op. Each request is a snapshot of the
		// subscription list taken when the change was made; several authorities
		// (or several resources of one authority during a fallback / revert)
		// may change the list of one shared stream in one op, in an order the
		// statement does not fix. So: the LAST request of a type must carry
		// exactly the final list (and version / nonce / error detail); earlier
		// ones must have the size of the model's corresponding snapshot (every
		// change adds or removes one name) and list only names that were
		// subscribed before or after the op.
		if len(got) != len(want) {
			return e.fail(AspWire|AspWatch|AspFallback, "requests to server %d: got %v, protocol model expects %s", i, got, fmtExp(want))
		}
		for t := 0; t < 2; t++ {
			var g []*Request
			var w []expReq
			for _, r := range got {
				if r.TypeURL == Types[t].URL {
					g = append(g, r)
				}
			}
			for _, x := range want {
				if x.t == t {
					w = append(w, x)
				}
			}
			if len(g) != len(w) {
				return e.fail(AspWire|AspWatch|AspFallback, "requests to server %d: got %v, protocol model expects %s", i, got, fmtExp(want))
			}
			for k, r := range g {
				x := w[k]
				last := k == len(g)-1
				switch {
				case r.Version != x.version:
					return e.fail(AspWire, "request %s carries version %q; last accepted version of that type is %q", r, r.Version, x.version)
				case r.Nonce != x.nonce:
					return e.fail(AspWire, "request %s carries nonce %q; nonce of the latest response of that type on this stream is %q", r, r.Nonce, x.nonce)
				case last && !sameSet(r.Names, x.names):
					return e.fail(AspWire|AspWatch|AspFallback, "request %s lists %v; currently subscribed names are %v", r, sortedCopy(r.Names), x.names)
				case !last && (len(r.Names) != len(x.names) || !subset(r.Names, w[0].pre, w[len(w)-1].names)):
					return e.fail(AspWire|AspWatch|AspFallback, "request %s (one of %d of that type in this step) lists %v; the subscription list goes from %v to %v, this snapshot should have %d names", r, len(g), sortedCopy(r.Names), w[0].pre, w[len(w)-1].names, len(x.names))
				case x.nack && (!r.HasErr || r.ErrMsg == ""):
					return e.fail(AspWire, "rejected response was not NACKed with an error detail: %s", r)
				case !x.nack && r.HasErr:
					return e.fail(AspWire, "request %s carries an error detail although no response was rejected", r)
				}
			}
		}
		for _, r := range got {
			if r.TypeURL != Types[0].URL && r.TypeURL != Types[1].URL {
				return e.fail(AspWire, "request %s for a type nobody subscribed to", r)
			}
		}
		// must be on the current stream
		if tr := rig.CurTransport(i); tr != nil && tr.Cur() != nil {
			for _, r := range got {
				if r.Stream != tr.Cur().ID {
					return e.fail(AspWire, "request %s sent on a stale stream (current is s%d)", r, tr.Cur().ID)
				}
			}
		}
	}

	// ---- stream handling
	for i := 0; i < m.n; i++ {
		s := m.srv[i]
		tr := rig.CurTransport(i)
		if tr == nil {
			continue
		}
		if want, got := s.conn == cWaitNew, tr.PendingNew(); want != got {
			if want {
				return e.fail(AspWire, "client did not try to (re)create the ADS stream to server %d", i)
			}
			return e.fail(AspWire, "unexpected NewStream call on server %d (model state %d)", i, s.conn)
		}
		if s.conn == cUp {
			cur := tr.Cur()
			want, got := e.reading(i), cur != nil && cur.Pending()
			if got && !want && e.fcBlocked(i) {
				return e.fail(AspWire, "flow control: client reads from server %d although a watcher has not finished processing the previous response", i)
			}
			if want && !got {
				return e.fail(AspWire, "client is not reading from the stream to server %d although nothing blocks it", i)
			}
			if e.fcBlocked(i) {
				e.rep.Stats.BlockedReads++
			}
		}
	}

	// ---- callbacks (C43)
	perW := map[*Watcher][]*Call{}
	var order []*Watcher
	for _, c := range calls {
		if _, ok := perW[c.W]; !ok {
			order = append(order, c.W)
		}
		perW[c.W] = append(perW[c.W], c)
		if c.W.Hold {
			e.rep.Stats.HeldCallbacks++
		}
	}
	expW := map[*Watcher][]expCall{}
	for _, x := range exp.calls {
		if _, ok := expW[x.w]; !ok {
			if _, ok2 := perW[x.w]; !ok2 {
				order = append(order, x.w)
			}
		}
		expW[x.w] = append(expW[x.w], x)
	}
	for _, w := range order {
		got, want := perW[w], expW[w]
		j := 0
		for _, x := range want {
			if j < len(got) && got[j].Kind == x.kind && (x.kind != "changed" || got[j].Payload == x.payload) {
				j++
				continue
			}
			if x.optional {
				continue
			}
			return e.fail(AspWatch, "watcher w%d of %s/%s (cancelled=%v): callbacks %s, cache model expects %s", w.ID, Types[w.T].Name, w.Name, w.Cancelled, fmtCalls(got), fmtExpCalls(want))
		}
		if j != len(got) {
			return e.fail(AspWatch, "watcher w%d of %s/%s (cancelled=%v): callbacks %s, cache model expects %s", w.ID, Types[w.T].Name, w.Name, w.Cancelled, fmtCalls(got), fmtExpCalls(want))
		}
	}

	// ---- subscriptions on the wire at quiescence (C43 last clause, C44)
	for i := 0; i < m.n; i++ {
		if !m.sendable(i) {
			continue
		}
		tr := rig.CurTransport(i)
		if tr == nil || tr.Cur() == nil {
			continue
		}
		sid := tr.Cur().ID
		for t := 0; t < 2; t++ {
			var last *Request
			for _, r := range rig.Requests {
				if r.Server == i && r.Stream == sid && r.TypeURL == Types[t].URL {
					last = r
				}
			}
			want := m.names(m.srv[i].types[t])
			if last == nil {
				if len(want) > 0 {
					return e.fail(AspWatch|AspFallback, "server %d was never asked for %s resources %v on the current stream", i, Types[t].Name, want)
				}
				continue
			}
			if !sameSet(last.Names, want) {
				return e.fail(AspWatch|AspFallback, "server %d: last %s request lists %v but the watched set for this server is %v", i, Types[t].Name, sortedCopy(last.Names), want)
			}
		}
	}

	// ---- statistic: is every watched resource subscribed on the active server?
	for _, a := range m.auths {
		if a.active < 0 {
			continue
		}
		act := a.srvs[a.active]
		for t := 0; t < 2; t++ {
			for _, name := range sortedKeys(a.res[t]) {
				if _, ok := m.srv[act].types[t].subs[name]; !ok && !a.res[t][name].opt[act] {
					// Observation beyond the C44 statement (not asserted): a
					// resource first watched while on a fallback server is
					// requested from that server only; after the revert it is
					// requested from no server at all. See notes/C44.md.
					e.class("OBS_watched_resource_requested_from_no_server_after_revert")
				}
			}
		}
	}
	return false
}

// describe renders the authority layer of the model for messages.
func (m *model) describe() string {
	var parts []string
	for _, a := range m.auths {
		act := "none"
		if a.active >= 0 {
			act = fmt.Sprint(a.srvs[a.active])
		}
		var held []int
		for p, h := range a.held {
			if h {
				held = append(held, a.srvs[p])
			}
		}
		parts = append(parts, fmt.Sprintf("authority %d servers %v holds %v active %s", a.id, a.srvs, held, act))
	}
	return "per model after this step: " + strings.Join(parts, "; ")
}

func fmtExp(w []expReq) string {
	var s []string
	for _, x := range w {
		k := "req"
		if x.nack {
			k = "NACK"
		}
		s = append(s, fmt.Sprintf("{%s %s ver=%q nonce=%q names=%v}", k, shortURL(Types[x.t].URL), x.version, x.nonce, x.names))
	}
	return "[" + strings.Join(s, " ") + "]"
}

func fmtCalls(c []*Call) string {
	var s []string
	for _, x := range c {
		if x.Kind == "changed" {
			s = append(s, "changed("+x.Payload+")")
		} else {
			s = append(s, x.Kind)
		}
	}
	return "[" + strings.Join(s, " ") + "]"
}

func fmtExpCalls(c []expCall) string {
	var s []string
	for _, x := range c {
		o := ""
		if x.optional {
			o = "?"
		}
		if x.kind == "changed" {
			s = append(s, "changed("+x.payload+")"+o)
		} else {
			s = append(s, x.kind+o)
		}
	}
	return "[" + strings.Join(s, " ") + "]"
}
