package xdsrig

import (
	"fmt"
	"sort"
	"strings"
	"testing"
	"time"

	"google.golang.org/grpc/internal/verifkit/vk"
)

// Aspects select which observation classes are asserted by a check.
const (
	AspWire     = 1 << iota // C42: requests, stream handling, flow control
	AspWatch                // C43: watcher callbacks, unsubscribe on last unwatch
	AspFallback             // C44: channels created/released, subscriptions per server
)

// Known-finding signatures (see notes/C42.md, notes/C44.md).
const (
	SigUnknownTypeStall   = "c42.unknown_type_response_stalls_stream"
	SigFallbackNonActive  = "c44.fallback_on_nonactive_server_failure"
	reconnectSleep        = 150 * time.Second // > max stream backoff (120s * 1.2)
	DefaultExpiry         = 20 * time.Minute
	maxNames              = 4
	stRequested, stAcked  = 0, 1
	stNacked, stNotExist  = 2, 3
	wsStarted, wsReq      = 0, 1
	wsReceived, wsTimeout = 2, 3
	cNone, cWaitNew       = 0, 1
	cBackoff, cUp         = 2, 3
)

// Op is one plan step. Operands are relative (resolved against the model
// state at execution time) so that shrunk plans stay meaningful.
type Op struct {
	K      string    `json:"k"` // watch | unwatch | resp | break | grant | release | advance
	S      int       `json:"s,omitempty"`
	T      int       `json:"t,omitempty"` // 0,1 registered types; 2 unregistered (resp only)
	N      int       `json:"n,omitempty"`
	Hold   bool      `json:"hold,omitempty"`
	Ver    int       `json:"ver,omitempty"`
	Nonce  int       `json:"nonce,omitempty"`
	Res    []ResSpec `json:"res,omitempty"`
	Accept bool      `json:"accept,omitempty"`
	Half   bool      `json:"half,omitempty"`
	All    bool      `json:"all,omitempty"`
}

// Plan is a complete serialisable case.
type Plan struct {
	Servers      int    `json:"servers"`
	IgnoreDel    []bool `json:"ignore_del,omitempty"`
	Ops          []Op   `json:"ops"`
	ReleaseAtEnd bool   `json:"release_at_end"`
}

// Stats are per-case counters used by the non-trivial rules.
type Stats struct {
	Nacks             int // NACKed responses (of a subscribed type)
	Acks              int
	RestartsWithSubs  int // streams re-created while >=1 resource was subscribed
	UnknownResp       int
	HeldCallbacks     int // callbacks whose done was held
	BlockedReads      int // quiescent points at which the read loop was blocked by flow control
	Expiries          int
	Deletions         int
	ValidInvalidValid int // resources that went valid -> invalid -> valid with >= 2 watchers
	Fallbacks         int
	Reverts           int
	IgnoredDeletes    int
	NewWatcherCached  int
	Unsubscribes      int
	ChannelCloses     int
	StreamFailNoMsg   int
	StreamFailAfter   int
	DupNack           int
	GrayNoRevert      int
	Applied           int
	Skipped           int
}

// Report is the outcome of Execute.
type Report struct {
	Violation string
	Sig       string
	Known     map[string]string // known-finding signatures observed -> description
	Classes   map[string]bool
	Stats     Stats
	Steps     int
	OffAspect string // non-empty: stopped early because an unasserted aspect diverged
}

// ---------------------------------------------------------------- model ---

type mWatchState struct {
	state    int
	deadline time.Time
}

type mType struct {
	hasState bool
	version  string
	nonce    string
	subs     map[string]*mWatchState
}

type mServer struct {
	conn     int
	broken   bool // fake stream broken but the client has not observed it yet
	gotMsg   bool
	nodeSent bool
	stalled  bool
	streams  int // streams granted on the current channel
	types    [2]*mType
}

func freshServer() *mServer {
	s := &mServer{}
	for i := range s.types {
		s.types[i] = &mType{subs: map[string]*mWatchState{}}
	}
	return s
}

type mRes struct {
	watchers   []*Watcher
	cache      string
	status     int
	lastErr    string
	delIgnored bool
	chans      map[int]bool
	// opt: existing non-active channels on which the subscription is
	// optional and not yet observable (the resource was first watched while
	// the client was on a fallback server and that channel had no usable
	// stream). gRFC A71 / the C++ client subscribe such a resource on every
	// channel of the authority, grpc-go only on the active one; the branch is
	// resolved from the first request that becomes observable.
	opt map[int]bool
	viv int // valid/invalid/valid tracker
}

type expReq struct {
	srv, t         int
	version, nonce string
	names          []string
	nack           bool
}

type expCall struct {
	w        *Watcher
	kind     string
	payload  string
	optional bool
}

type expect struct {
	reqs   []expReq
	loose  map[int]bool // servers whose channel is closed in this op: request count not asserted
	calls  []expCall
	builds []int
	closes []int
}

type model struct {
	n         int
	ignoreDel []bool
	expiry    time.Duration
	srv       []*mServer
	active    int
	res       [2]map[string]*mRes
	now       time.Time
	exp       *expect
	st        *Stats
	known     map[string]string
	// obsReq reports whether a request of type t listing name was sent to
	// server srv during the current op.
	obsReq func(srv, t int, name string) bool
}

func (m *model) names(mt *mType) []string {
	var n []string
	for k := range mt.subs {
		n = append(n, k)
	}
	sort.Strings(n)
	return n
}

func (m *model) sendable(i int) bool { return m.srv[i].conn == cUp && !m.srv[i].broken }

func (m *model) expectReq(i, t int, nack bool) {
	mt := m.srv[i].types[t]
	m.exp.reqs = append(m.exp.reqs, expReq{srv: i, t: t, version: mt.version, nonce: mt.nonce, names: m.names(mt), nack: nack})
}

func (m *model) startTimers(i, t int, names []string) {
	mt := m.srv[i].types[t]
	for _, n := range names {
		if ws := mt.subs[n]; ws != nil && ws.state == wsStarted {
			ws.state = wsReq
			ws.deadline = m.now.Add(m.expiry)
		}
	}
}

func (m *model) subscribe(i, t int, name string) {
	mt := m.srv[i].types[t]
	mt.hasState = true
	mt.subs[name] = &mWatchState{state: wsStarted}
	if m.sendable(i) {
		m.expectReq(i, t, false)
		m.startTimers(i, t, m.names(mt))
	}
}

func (m *model) unsubscribe(i, t int, name string) {
	mt := m.srv[i].types[t]
	if _, ok := mt.subs[name]; !ok {
		return
	}
	delete(mt.subs, name)
	m.st.Unsubscribes++
	if m.sendable(i) {
		m.expectReq(i, t, false)
	}
}

func (m *model) buildChannel(i int) {
	m.srv[i] = freshServer()
	m.srv[i].conn = cWaitNew // the runner calls NewStream right away
	m.exp.builds = append(m.exp.builds, i)
}

func (m *model) closeChannel(i int) {
	if m.srv[i].conn == cNone {
		return
	}
	m.srv[i] = freshServer()
	for t := 0; t < 2; t++ {
		for _, r := range m.res[t] {
			delete(r.opt, i)
		}
	}
	m.exp.closes = append(m.exp.closes, i)
	m.exp.loose[i] = true
	m.st.ChannelCloses++
}

func (m *model) anyResource() bool { return len(m.res[0])+len(m.res[1]) > 0 }

func (m *model) watch(w *Watcher) {
	if m.active < 0 {
		m.buildChannel(0)
		m.active = 0
	}
	r := m.res[w.T][w.Name]
	if r == nil {
		r = &mRes{status: stRequested, chans: map[int]bool{m.active: true}, opt: map[int]bool{}}
		m.res[w.T][w.Name] = r
		m.subscribe(m.active, w.T, w.Name)
		for j := 0; j < m.n; j++ {
			if j == m.active || m.srv[j].conn == cNone {
				continue
			}
			if !m.sendable(j) {
				r.opt[j] = true
			} else if m.obsReq(j, w.T, w.Name) {
				m.subscribe(j, w.T, w.Name)
				r.chans[j] = true
			}
		}
	}
	r.watchers = append(r.watchers, w)
	if r.cache != "" {
		m.exp.calls = append(m.exp.calls, expCall{w: w, kind: "changed", payload: r.cache})
		m.st.NewWatcherCached++
	}
	if r.status == stNacked {
		m.exp.calls = append(m.exp.calls, expCall{w: w, kind: errKind(r)})
	}
	if r.status == stNotExist {
		m.exp.calls = append(m.exp.calls, expCall{w: w, kind: "reserr"})
	}
}

func errKind(r *mRes) string {
	if r.cache == "" {
		return "reserr"
	}
	return "amberr"
}

func (m *model) unwatch(w *Watcher) {
	r := m.res[w.T][w.Name]
	if r == nil {
		return
	}
	for i, x := range r.watchers {
		if x == w {
			r.watchers = append(r.watchers[:i:i], r.watchers[i+1:]...)
			break
		}
	}
	if len(r.watchers) > 0 {
		return
	}
	for i := 0; i < m.n; i++ {
		if r.chans[i] {
			m.unsubscribe(i, w.T, w.Name)
		}
	}
	delete(m.res[w.T], w.Name)
	if !m.anyResource() {
		for i := 0; i < m.n; i++ {
			m.closeChannel(i)
		}
		m.active = -1
	}
}

func (m *model) propagateConnErr(optional bool) {
	for t := 0; t < 2; t++ {
		for _, name := range sortedKeys(m.res[t]) {
			r := m.res[t][name]
			for _, w := range r.watchers {
				m.exp.calls = append(m.exp.calls, expCall{w: w, kind: errKind(r), optional: optional})
			}
		}
	}
}

func sortedKeys(mp map[string]*mRes) []string {
	var k []string
	for n := range mp {
		k = append(k, n)
	}
	sort.Strings(k)
	return k
}

// uncached reports (definitely uncached, gray): "requested" resources have no
// cached value; a resource whose only responses were rejected has no cached
// value either, but the implementation (like the other gRPC implementations)
// does not count it -> gray zone, either decision is accepted.
func (m *model) uncached() (yes, gray bool) {
	for t := 0; t < 2; t++ {
		for _, r := range m.res[t] {
			if r.status == stRequested {
				yes = true
			}
			if r.status == stNacked && r.cache == "" {
				gray = true
			}
		}
	}
	return yes, gray && !yes
}

// streamFailed models the client observing a stream failure on server i
// (Recv error or NewStream error). observedBuild is the server index of a
// channel built during this op (-1 if none): it selects the branch at the two
// points where the statement leaves freedom or the implementation is known to
// deviate.
func (m *model) streamFailed(i int, afterMsg bool, observedBuild int) {
	s := m.srv[i]
	for t := 0; t < 2; t++ {
		for _, ws := range s.types[t].subs {
			if ws.state == wsReq {
				ws.state = wsStarted
			}
		}
	}
	s.broken = false
	s.gotMsg = false
	if afterMsg {
		// gRFC A57: not a failure; the stream is re-created immediately.
		s.conn = cWaitNew
		m.st.StreamFailAfter++
		return
	}
	s.conn = cBackoff
	m.st.StreamFailNoMsg++
	yes, gray := m.uncached()
	next := -1
	for j := i + 1; j < m.n; j++ {
		if m.srv[j].conn == cNone {
			next = j
			break
		}
	}
	fallback := false
	switch {
	case next < 0:
	case yes && i == m.active:
		fallback = true
	case yes && i != m.active:
		// Statement: switch "only when the active server's stream failed".
		// The implementation falls back from whichever server failed.
		if observedBuild == next {
			m.known[SigFallbackNonActive] = fmt.Sprintf("stream to server %d failed while server %d was active; client created a channel to server %d", i, m.active, next)
			fallback = true
		}
	case gray && i == m.active:
		fallback = observedBuild == next
	}
	if fallback {
		m.buildChannel(next)
		m.active = next
		m.st.Fallbacks++
		for t := 0; t < 2; t++ {
			for _, name := range sortedKeys(m.res[t]) {
				m.subscribe(next, t, name)
				m.res[t][name].chans[next] = true
			}
		}
		return
	}
	// A failure of a server other than the active one: the statement does not
	// say whether watchers hear about it (grpc-go: yes, C++: no).
	m.propagateConnErr(i != m.active)
}

func (m *model) revertTo(i int) {
	if i >= m.active {
		return
	}
	m.st.Reverts++
	for j := i + 1; j < m.n; j++ {
		for t := 0; t < 2; t++ {
			for _, r := range m.res[t] {
				delete(r.chans, j)
			}
		}
		m.closeChannel(j)
	}
	m.active = i
}

type decoded struct {
	name    string
	bad     bool
	reason  string
	payload string
}

func decodeSpecs(res []ResSpec) (items []decoded, nack bool) {
	for _, rs := range res {
		switch rs.Kind {
		case 0:
			items = append(items, decoded{name: ResName(rs.N), payload: rs.Payload()})
		case 1:
			items = append(items, decoded{name: ResName(rs.N), bad: true, reason: fmt.Sprintf("%s:%d", ResName(rs.N), rs.V)})
			nack = true
		default:
			nack = true
		}
	}
	return items, nack
}

// respond models a response of registered type t on server i.
//
// observedClose reports whether the client released a channel in this op: a
// response from a higher-priority server that carries no valid resource at
// all (empty, or everything rejected) is a gray zone for "delivers an update"
// - the client may or may not revert on it.
func (m *model) respond(i, t int, version, nonce string, res []ResSpec, observedClose bool) {
	s := m.srv[i]
	s.gotMsg = true
	items, nack := decodeSpecs(res)
	mt := s.types[t]
	// wire
	for _, it := range items {
		if ws := mt.subs[it.name]; ws != nil && (ws.state == wsStarted || ws.state == wsReq) {
			ws.state = wsReceived
		}
	}
	mt.nonce = nonce
	if nack {
		m.st.Nacks++
	} else {
		mt.version = version
		m.st.Acks++
	}
	m.expectReq(i, t, nack)
	// authority
	if m.active < 0 || i > m.active {
		return
	}
	if i < m.active {
		definite := false
		for _, it := range items {
			if !it.bad {
				definite = true
			}
		}
		if !definite && !observedClose {
			m.st.GrayNoRevert++
			return
		}
	}
	m.revertTo(i)
	inResp := map[string]bool{}
	for _, it := range items {
		inResp[it.name] = true
		r := m.res[t][it.name]
		if r == nil {
			continue
		}
		if it.bad {
			dup := r.status == stNacked && r.lastErr == it.reason
			if dup {
				m.st.DupNack++
			}
			for _, w := range r.watchers {
				m.exp.calls = append(m.exp.calls, expCall{w: w, kind: errKind(r), optional: dup})
			}
			r.status = stNacked
			r.lastErr = it.reason
			if r.viv == 1 && len(r.watchers) >= 2 {
				r.viv = 2
			}
			continue
		}
		r.delIgnored = false
		if r.cache == "" || r.cache != it.payload || r.status == stNacked {
			r.cache = it.payload
			for _, w := range r.watchers {
				m.exp.calls = append(m.exp.calls, expCall{w: w, kind: "changed", payload: it.payload})
			}
		}
		r.status = stAcked
		r.lastErr = ""
		if len(r.watchers) >= 2 {
			if r.viv == 0 {
				r.viv = 1
			} else if r.viv == 2 {
				r.viv = 3
				m.st.ValidInvalidValid++
			}
		}
	}
	if !Types[t].AllRequired {
		return
	}
	for _, name := range sortedKeys(m.res[t]) {
		r := m.res[t][name]
		if r.cache == "" || inResp[name] {
			continue
		}
		if m.ignoreDel[i] {
			r.delIgnored = true
			m.st.IgnoredDeletes++
			continue
		}
		r.cache = ""
		r.status = stNotExist
		r.lastErr = ""
		m.st.Deletions++
		for _, w := range r.watchers {
			m.exp.calls = append(m.exp.calls, expCall{w: w, kind: "reserr"})
		}
	}
}

// granted models a newly established stream on server i.
func (m *model) granted(i int) {
	s := m.srv[i]
	s.conn = cUp
	s.broken = false
	s.gotMsg = false
	s.nodeSent = false
	s.stalled = false
	s.streams++
	for t := 0; t < 2; t++ {
		for _, name := range sortedKeys(m.res[t]) {
			r := m.res[t][name]
			if !r.opt[i] {
				continue
			}
			delete(r.opt, i)
			if m.obsReq(i, t, name) {
				s.types[t].hasState = true
				s.types[t].subs[name] = &mWatchState{state: wsStarted}
				r.chans[i] = true
			}
		}
	}
	withSubs := false
	for t := 0; t < 2; t++ {
		mt := s.types[t]
		if !mt.hasState {
			continue
		}
		mt.nonce = ""
		if len(mt.subs) == 0 {
			continue
		}
		withSubs = true
		m.expectReq(i, t, false)
		m.startTimers(i, t, m.names(mt))
	}
	if withSubs && s.streams > 1 {
		m.st.RestartsWithSubs++
	}
}

// advanceTo fires the watch-expiry timers that are due.
func (m *model) advanceTo(now time.Time) {
	m.now = now
	type due struct {
		at   time.Time
		i, t int
		name string
	}
	var ds []due
	for i, s := range m.srv {
		for t := 0; t < 2; t++ {
			for name, ws := range s.types[t].subs {
				if ws.state == wsReq && !ws.deadline.After(now) {
					ds = append(ds, due{ws.deadline, i, t, name})
				}
			}
		}
	}
	sort.Slice(ds, func(a, b int) bool {
		if !ds[a].at.Equal(ds[b].at) {
			return ds[a].at.Before(ds[b].at)
		}
		if ds[a].i != ds[b].i {
			return ds[a].i < ds[b].i
		}
		if ds[a].t != ds[b].t {
			return ds[a].t < ds[b].t
		}
		return ds[a].name < ds[b].name
	})
	for _, d := range ds {
		m.srv[d.i].types[d.t].subs[d.name].state = wsTimeout
		m.st.Expiries++
		r := m.res[d.t][d.name]
		if r == nil {
			continue
		}
		r.cache = ""
		r.status = stNotExist
		r.lastErr = ""
		for _, w := range r.watchers {
			m.exp.calls = append(m.exp.calls, expCall{w: w, kind: "reserr"})
		}
	}
}

// ------------------------------------------------------------- executor ---

type exec struct {
	p       Plan
	aspects int
	rig     *Rig
	m       *model
	rep     *Report
	live    []*Watcher
	curOp   int
}

func (e *exec) class(c string) { e.rep.Classes[c] = true }

func (e *exec) fail(asp int, format string, args ...any) bool {
	msg := fmt.Sprintf(format, args...)
	if e.aspects&asp == 0 {
		if e.rep.OffAspect == "" {
			e.rep.OffAspect = msg
		}
		return true
	}
	if e.rep.Violation == "" {
		e.rep.Violation = fmt.Sprintf("op %d (%s): %s", e.curOp, e.opName(), msg)
	}
	return true
}

func (e *exec) opName() string {
	if e.curOp >= 0 && e.curOp < len(e.p.Ops) {
		return e.p.Ops[e.curOp].K
	}
	return "end"
}

func (e *exec) fcBlocked(i int) bool {
	op := e.rig.lastPushOp[i]
	if op < 0 {
		return false
	}
	for _, c := range e.rig.Held() {
		if c.Op == op {
			return true
		}
	}
	return false
}

// reading predicts whether the client is blocked in Recv on server i.
func (e *exec) reading(i int) bool {
	s := e.m.srv[i]
	return s.conn == cUp && !s.broken && !s.stalled && !e.fcBlocked(i)
}

func pick(cands []int, k int) int {
	if len(cands) == 0 {
		return -1
	}
	if k < 0 {
		k = -k
	}
	return cands[k%len(cands)]
}

func (e *exec) servers(pred func(int) bool) []int {
	var c []int
	for i := 0; i < e.m.n; i++ {
		if pred(i) {
			c = append(c, i)
		}
	}
	return c
}

// Execute runs the plan inside a bubble and returns the report.
func Execute(t *testing.T, p Plan, aspects int) Report {
	rep := Report{Classes: map[string]bool{}, Known: map[string]string{}}
	if p.Servers < 1 {
		p.Servers = 1
	}
	if p.Servers > 3 {
		p.Servers = 3
	}
	msg := vk.Bubble(t, func(t *testing.T) {
		e := &exec{p: p, aspects: aspects, rep: &rep}
		e.run()
	})
	if msg != "" && rep.Violation == "" && rep.OffAspect == "" {
		rep.Violation = "client did not shut down cleanly / harness bubble failure: " + msg
	}
	return rep
}

func (e *exec) run() {
	p := e.p
	ign := make([]bool, p.Servers)
	copy(ign, p.IgnoreDel)
	rig, err := New(Options{Servers: p.Servers, IgnoreDel: ign, Expiry: DefaultExpiry})
	if err != nil {
		e.rep.Violation = "xdsclient.New failed: " + err.Error()
		return
	}
	e.rig = rig
	e.m = &model{n: p.Servers, ignoreDel: ign, expiry: DefaultExpiry, active: -1, now: time.Now(), st: &e.rep.Stats, known: e.rep.Known}
	for i := 0; i < p.Servers; i++ {
		e.m.srv = append(e.m.srv, freshServer())
	}
	e.m.res[0] = map[string]*mRes{}
	e.m.res[1] = map[string]*mRes{}
	defer func() {
		// Shut down: optionally release held callbacks first, then Close.
		e.curOp = len(p.Ops)
		rig.SetOp(e.curOp)
		if p.ReleaseAtEnd {
			for _, c := range rig.Held() {
				c.Release()
			}
			rig.Settle()
		}
		rig.Client.Close()
		// unblock anything still parked in the fakes (a correct client has
		// cancelled all stream contexts by now)
		for _, c := range rig.Held() {
			c.Release()
		}
		rig.Settle()
		for i := 0; i < rig.N; i++ {
			if n := rig.OpenTransports(i); n != 0 && e.rep.Violation == "" && e.rep.OffAspect == "" {
				e.fail(AspFallback|AspWire, "after Close() %d transport(s) to server %d are still open", n, i)
			}
		}
	}()
	for i, op := range p.Ops {
		e.curOp = i
		rig.SetOp(i)
		if stop := e.step(op); stop {
			break
		}
		e.rep.Steps++
	}
	// classes from stats
	st := e.rep.Stats
	flag := func(b bool, c string) {
		if b {
			e.class(c)
		}
	}
	flag(st.Nacks > 0, "nack")
	flag(st.RestartsWithSubs > 0, "restart_with_subs")
	flag(st.UnknownResp > 0, "unknown_type_resp")
	flag(st.HeldCallbacks > 0, "held_done")
	flag(st.BlockedReads > 0, "read_blocked_by_flow_control")
	flag(st.Expiries > 0, "watch_expired")
	flag(st.Deletions > 0, "sotw_deletion")
	flag(st.IgnoredDeletes > 0, "deletion_ignored")
	flag(st.ValidInvalidValid > 0, "valid_invalid_valid_2watchers")
	flag(st.Fallbacks > 0, "fallback")
	flag(st.Fallbacks > 1, "fallback_multi")
	flag(st.Reverts > 0, "revert")
	flag(st.NewWatcherCached > 0, "new_watcher_gets_cache")
	flag(st.Unsubscribes > 0, "unsubscribe")
	flag(st.ChannelCloses > 0, "channel_closed")
	flag(st.StreamFailNoMsg > 0, "stream_fail_before_msg")
	flag(st.StreamFailAfter > 0, "stream_fail_after_msg")
	flag(st.DupNack > 0, "duplicate_nack")
	flag(st.GrayNoRevert > 0, "gray_response_without_revert")
	flag(p.Servers > 1, fmt.Sprintf("servers_%d", p.Servers))
	flag(st.Skipped > st.Applied, "mostly_skipped_ops")
}

// step executes one op; returns true to stop the case.
func (e *exec) step(op Op) bool {
	m, rig := e.m, e.rig
	m.exp = &expect{loose: map[int]bool{}}
	r0, c0, h0 := rig.Snapshot()
	m.obsReq = func(srv, t int, name string) bool {
		reqs, _, _ := rig.Since(r0, c0, h0)
		for _, r := range reqs {
			if r.Server != srv || r.TypeURL != Types[t].URL {
				continue
			}
			for _, n := range r.Names {
				if n == name {
					return true
				}
			}
		}
		return false
	}
	m.now = time.Now()
	applied := true
	needSleep := false
	// failure branch selection needs to see whether a channel was built:
	// those ops settle first, then model.
	switch op.K {
	case "watch":
		t := op.T & 1
		name := ResName(abs(op.N) % maxNames)
		w := rig.Watch(t, name, op.Hold)
		e.live = append(e.live, w)
		rig.Settle()
		m.watch(w)
	case "unwatch":
		if len(e.live) == 0 {
			applied = false
			break
		}
		k := abs(op.N) % len(e.live)
		w := e.live[k]
		e.live = append(e.live[:k:k], e.live[k+1:]...)
		w.Cancel()
		rig.Settle()
		m.unwatch(w)
	case "resp":
		cands := e.servers(func(i int) bool { return e.reading(i) })
		i := pick(cands, op.S)
		if i < 0 {
			applied = false
			break
		}
		tr := rig.CurTransport(i)
		if tr == nil || tr.Cur() == nil || !tr.Cur().Pending() {
			return e.fail(AspWire, "client is not reading from the stream to server %d although nothing blocks it (no held watcher callback)", i)
		}
		version, nonce := fmt.Sprintf("v%d", op.Ver), fmt.Sprintf("n%d", op.Nonce)
		if op.Ver < 0 {
			version = ""
		}
		t := op.T
		if t != 2 {
			t &= 1
			if !m.srv[i].types[t].hasState {
				t ^= 1
			}
			if !m.srv[i].types[t].hasState {
				applied = false
				break
			}
		}
		if t == 2 {
			tr.Cur().Push(MarshalResponse(UnknownURL, version, nonce, op.Res))
			rig.Settle()
			m.srv[i].gotMsg = true
			m.st.UnknownResp++
			// Neither ACK nor NACK is expected. Afterwards the client
			// must be ready to read again.
			if !tr.Cur().Pending() {
				m.srv[i].stalled = true
				m.known[SigUnknownTypeStall] = fmt.Sprintf("after a response with unregistered type URL on server %d the client never calls Recv again", i)
			}
		} else {
			tr.Cur().Push(MarshalResponse(Types[t].URL, version, nonce, op.Res))
			rig.Settle()
			m.respond(i, t, version, nonce, op.Res, e.closedSince(h0))
		}
	case "break":
		cands := e.servers(func(i int) bool { return m.srv[i].conn == cUp && !m.srv[i].broken })
		i := pick(cands, op.S)
		if i < 0 {
			applied = false
			break
		}
		wasReading := e.reading(i)
		rig.CurTransport(i).Cur().Break()
		rig.Settle()
		m.srv[i].broken = true
		if wasReading {
			m.streamFailed(i, m.srv[i].gotMsg, e.builtSince(h0))
			needSleep = m.srv[i].conn == cBackoff
		} else {
			e.class("break_unnoticed")
		}
	case "grant":
		cands := e.servers(func(i int) bool { return m.srv[i].conn == cWaitNew })
		i := pick(cands, op.S)
		if i < 0 {
			applied = false
			break
		}
		tr := rig.CurTransport(i)
		if tr == nil || !tr.PendingNew() {
			return e.fail(AspWire, "client did not try to (re)create the ADS stream to server %d", i)
		}
		tr.Grant(op.Accept)
		rig.Settle()
		if op.Accept {
			m.granted(i)
		} else {
			m.streamFailed(i, false, e.builtSince(h0))
			needSleep = true
		}
	case "release":
		held := rig.Held()
		if len(held) == 0 {
			applied = false
			break
		}
		var rel []*Call
		if op.All {
			rel = held
		} else {
			rel = []*Call{held[abs(op.N)%len(held)]}
		}
		for _, c := range rel {
			c.Release()
		}
		rig.Settle()
		// a server whose read loop was blocked may now notice a broken stream
		for i := 0; i < m.n; i++ {
			s := m.srv[i]
			if s.conn == cUp && s.broken && !s.stalled && !e.fcBlocked(i) {
				m.streamFailed(i, s.gotMsg, e.builtSince(h0))
				if m.srv[i].conn == cBackoff {
					needSleep = true
				}
			}
		}
	case "advance":
		d := DefaultExpiry
		if op.Half {
			d = DefaultExpiry / 2
		}
		time.Sleep(d)
		rig.Settle()
		m.advanceTo(time.Now())
		for _, s := range m.srv {
			if s.conn == cBackoff {
				s.conn = cWaitNew
			}
		}
	default:
		applied = false
	}
	if !applied {
		e.rep.Stats.Skipped++
		return false
	}
	e.rep.Stats.Applied++
	if needSleep {
		time.Sleep(reconnectSleep)
		rig.Settle()
		m.advanceTo(time.Now())
	}
	for _, s := range m.srv {
		if s.conn == cBackoff && needSleep {
			s.conn = cWaitNew
		}
	}
	return e.verify(r0, c0, h0)
}

func abs(x int) int {
	if x < 0 {
		return -x
	}
	return x
}

// builtSince returns the server index of the (last) channel built since the
// snapshot, -1 if none.
func (e *exec) builtSince(h0 int) int {
	r, c, _ := e.rig.Snapshot()
	_, _, ch := e.rig.Since(r, c, h0)
	b := -1
	for _, c := range ch {
		if c.Kind == "build" {
			b = c.Server
		}
	}
	return b
}

// closedSince reports whether a transport was closed since the snapshot.
func (e *exec) closedSince(h0 int) bool {
	r, c, _ := e.rig.Snapshot()
	_, _, ch := e.rig.Since(r, c, h0)
	for _, x := range ch {
		if x.Kind == "close" {
			return true
		}
	}
	return false
}

func sameSet(a, b []string) bool {
	if len(a) != len(b) {
		return false
	}
	x, y := sortedCopy(a), sortedCopy(b)
	for i := range x {
		if x[i] != y[i] {
			return false
		}
	}
	return true
}

func (e *exec) verify(r0, c0, h0 int) bool {
	m, rig := e.m, e.rig
	reqs, calls, chans := rig.Since(r0, c0, h0)
	exp := m.exp

	// ---- rig-level problems and the flow-control clause
	flow, problems := rig.Flow()
	if len(problems) > 0 {
		return e.fail(AspWire|AspWatch|AspFallback, "protocol misuse: %s", problems[0])
	}
	if len(flow) > 0 {
		return e.fail(AspWire, "flow control: %s", flow[0])
	}

	// ---- channels (C44)
	var gotB, gotC []int
	for _, c := range chans {
		if c.Kind == "build" {
			gotB = append(gotB, c.Server)
		} else {
			gotC = append(gotC, c.Server)
		}
	}
	sort.Ints(gotB)
	sort.Ints(gotC)
	eb, ec := append([]int(nil), exp.builds...), append([]int(nil), exp.closes...)
	sort.Ints(eb)
	sort.Ints(ec)
	if fmt.Sprint(gotB) != fmt.Sprint(eb) || fmt.Sprint(gotC) != fmt.Sprint(ec) {
		return e.fail(AspFallback, "channels: client created channels to servers %v and released %v; A71 model expects created %v, released %v (active server before/after per model: %d)", gotB, gotC, eb, ec, m.active)
	}
	for i := 0; i < m.n; i++ {
		want := 0
		if m.srv[i].conn != cNone {
			want = 1
		}
		if got := rig.OpenTransports(i); got != want {
			return e.fail(AspFallback, "channels: %d open transport(s) to server %d, model expects %d", got, i, want)
		}
	}

	// ---- requests (C42)
	perSrv := map[int][]*Request{}
	for _, r := range reqs {
		perSrv[r.Server] = append(perSrv[r.Server], r)
	}
	for i := 0; i < m.n; i++ {
		got := perSrv[i]
		var want []expReq
		for _, x := range exp.reqs {
			if x.srv == i {
				want = append(want, x)
			}
		}
		if exp.loose[i] {
			// the channel was closed in this op: unsubscribe requests race with
			// the shutdown; only well-formedness is checked.
			for _, r := range got {
				if r.HasErr {
					return e.fail(AspWire, "unexpected NACK %s while closing the channel", r)
				}
			}
			continue
		}
		// Node identity: only on the first request of each stream.
		for _, r := range got {
			s := m.srv[i]
			if s.conn == cNone {
				break
			}
			if !s.nodeSent {
				if !r.HasNode || r.NodeID != NodeID {
					return e.fail(AspWire, "first request on a stream lacks the node identity: %s", r)
				}
				s.nodeSent = true
			} else if r.HasNode {
				return e.fail(AspWire, "node identity repeated on a later request of the same stream: %s", r)
			}
		}
		// exact multiset match by type (at most one request per type per op)
		if len(got) != len(want) {
			return e.fail(AspWire|AspWatch|AspFallback, "requests to server %d: got %v, protocol model expects %s", i, got, fmtExp(want))
		}
		used := make([]bool, len(got))
		for _, w := range want {
			found := false
			for k, r := range got {
				if used[k] || r.TypeURL != Types[w.t].URL {
					continue
				}
				used[k] = true
				found = true
				switch {
				case r.Version != w.version:
					return e.fail(AspWire, "request %s carries version %q; last accepted version of that type is %q", r, r.Version, w.version)
				case r.Nonce != w.nonce:
					return e.fail(AspWire, "request %s carries nonce %q; nonce of the latest response of that type on this stream is %q", r, r.Nonce, w.nonce)
				case !sameSet(r.Names, w.names):
					return e.fail(AspWire|AspWatch|AspFallback, "request %s lists %v; currently subscribed names are %v", r, sortedCopy(r.Names), w.names)
				case w.nack && (!r.HasErr || r.ErrMsg == ""):
					return e.fail(AspWire, "rejected response was not NACKed with an error detail: %s", r)
				case !w.nack && r.HasErr:
					return e.fail(AspWire, "request %s carries an error detail although no response was rejected", r)
				}
				break
			}
			if !found {
				return e.fail(AspWire|AspWatch|AspFallback, "requests to server %d: got %v, protocol model expects %s", i, got, fmtExp(want))
			}
		}
		// must be on the current stream
		if tr := rig.CurTransport(i); tr != nil && tr.Cur() != nil {
			for _, r := range got {
				if r.Stream != tr.Cur().ID {
					return e.fail(AspWire, "request %s sent on a stale stream (current is s%d)", r, tr.Cur().ID)
				}
			}
		}
	}

	// ---- stream handling
	for i := 0; i < m.n; i++ {
		s := m.srv[i]
		tr := rig.CurTransport(i)
		if tr == nil {
			continue
		}
		if want, got := s.conn == cWaitNew, tr.PendingNew(); want != got {
			if want {
				return e.fail(AspWire, "client did not try to (re)create the ADS stream to server %d", i)
			}
			return e.fail(AspWire, "unexpected NewStream call on server %d (model state %d)", i, s.conn)
		}
		if s.conn == cUp {
			cur := tr.Cur()
			want, got := e.reading(i), cur != nil && cur.Pending()
			if got && !want && e.fcBlocked(i) {
				return e.fail(AspWire, "flow control: client reads from server %d although a watcher has not finished processing the previous response", i)
			}
			if want && !got {
				return e.fail(AspWire, "client is not reading from the stream to server %d although nothing blocks it", i)
			}
			if e.fcBlocked(i) {
				e.rep.Stats.BlockedReads++
			}
		}
	}

	// ---- callbacks (C43)
	perW := map[*Watcher][]*Call{}
	var order []*Watcher
	for _, c := range calls {
		if _, ok := perW[c.W]; !ok {
			order = append(order, c.W)
		}
		perW[c.W] = append(perW[c.W], c)
		if c.W.Hold {
			e.rep.Stats.HeldCallbacks++
		}
	}
	expW := map[*Watcher][]expCall{}
	for _, x := range exp.calls {
		if _, ok := expW[x.w]; !ok {
			if _, ok2 := perW[x.w]; !ok2 {
				order = append(order, x.w)
			}
		}
		expW[x.w] = append(expW[x.w], x)
	}
	for _, w := range order {
		got, want := perW[w], expW[w]
		j := 0
		for _, x := range want {
			if j < len(got) && got[j].Kind == x.kind && (x.kind != "changed" || got[j].Payload == x.payload) {
				j++
				continue
			}
			if x.optional {
				continue
			}
			return e.fail(AspWatch, "watcher w%d of %s/%s (cancelled=%v): callbacks %s, cache model expects %s", w.ID, Types[w.T].Name, w.Name, w.Cancelled, fmtCalls(got), fmtExpCalls(want))
		}
		if j != len(got) {
			return e.fail(AspWatch, "watcher w%d of %s/%s (cancelled=%v): callbacks %s, cache model expects %s", w.ID, Types[w.T].Name, w.Name, w.Cancelled, fmtCalls(got), fmtExpCalls(want))
		}
	}

	// ---- subscriptions on the wire at quiescence (C43 last clause, C44)
	for i := 0; i < m.n; i++ {
		if !m.sendable(i) {
			continue
		}
		tr := rig.CurTransport(i)
		if tr == nil || tr.Cur() == nil {
			continue
		}
		sid := tr.Cur().ID
		for t := 0; t < 2; t++ {
			var last *Request
			for _, r := range rig.Requests {
				if r.Server == i && r.Stream == sid && r.TypeURL == Types[t].URL {
					last = r
				}
			}
			want := m.names(m.srv[i].types[t])
			if last == nil {
				if len(want) > 0 {
					return e.fail(AspWatch|AspFallback, "server %d was never asked for %s resources %v on the current stream", i, Types[t].Name, want)
				}
				continue
			}
			if !sameSet(last.Names, want) {
				return e.fail(AspWatch|AspFallback, "server %d: last %s request lists %v but the watched set for this server is %v", i, Types[t].Name, sortedCopy(last.Names), want)
			}
		}
	}

	// ---- statistic: is every watched resource subscribed on the active server?
	if m.active >= 0 {
		for t := 0; t < 2; t++ {
			for _, name := range sortedKeys(m.res[t]) {
				if _, ok := m.srv[m.active].types[t].subs[name]; !ok && !m.res[t][name].opt[m.active] {
					// Observation beyond the C44 statement (not asserted): a
					// resource first watched while on a fallback server is
					// requested from that server only; after the revert it is
					// requested from no server at all. See notes/C44.md.
					e.class("OBS_watched_resource_requested_from_no_server_after_revert")
				}
			}
		}
	}
	return false
}

func fmtExp(w []expReq) string {
	var s []string
	for _, x := range w {
		k := "req"
		if x.nack {
			k = "NACK"
		}
		s = append(s, fmt.Sprintf("{%s %s ver=%q nonce=%q names=%v}", k, shortURL(Types[x.t].URL), x.version, x.nonce, x.names))
	}
	return "[" + strings.Join(s, " ") + "]"
}

func fmtCalls(c []*Call) string {
	var s []string
	for _, x := range c {
		if x.Kind == "changed" {
			s = append(s, "changed("+x.Payload+")")
		} else {
			s = append(s, x.Kind)
		}
	}
	return "[" + strings.Join(s, " ") + "]"
}

func fmtExpCalls(c []expCall) string {
	var s []string
	for _, x := range c {
		o := ""
		if x.optional {
			o = "?"
		}
		if x.kind == "changed" {
			s = append(s, "changed("+x.payload+")"+o)
		} else {
			s = append(s, x.kind+o)
		}
	}
	return "[" + strings.Join(s, " ") + "]"
}
