// Package vk is the shared core of the /verif harness: it runs a property as
//
//	plan := gen(rapid)      (serialisable value)
//	res  := run(plan)       (executes the plan against the real code + oracle)
//
// and takes care of evidence recording, replay files, known findings and
// native-fuzz adaptation. It is overlaid into the grpc module at build time
// (it does not exist in /repo).
package vk

import (
	"crypto/sha256"
	"encoding/binary"
	"encoding/json"
	"fmt"
	"os"
	"path/filepath"
	"runtime/debug"
	"sort"
	"strings"
	"sync"
	"testing"
	"testing/synctest"
	"time"

	"pgregory.net/rapid"
)

// Result is the verdict of one executed plan.
type Result struct {
	// Violation is non-empty iff the property was violated by this case.
	Violation string
	// Sig names the known-finding signature this violation matches ("" if
	// none). Only violations whose Sig is listed as "known" in
	// known_findings.jsonl are tolerated.
	Sig string
	// NonTrivial reports whether the case is non-trivial by the unit's rule.
	NonTrivial bool
	// Classes are labels counted into the evidence histogram.
	Classes []string
	// Steps is the number of operations the case executed (optional).
	Steps int
	// Discard marks a case that fell outside the property's domain.
	Discard bool
}

// OK is a convenience constructor.
func OK(nontrivial bool, classes ...string) Result {
	return Result{NonTrivial: nontrivial, Classes: classes}
}

// Bad is a convenience constructor for a violation.
func Bad(format string, args ...any) Result {
	return Result{Violation: fmt.Sprintf(format, args...), NonTrivial: true}
}

// Badf adds classes to a violation.
func (r Result) With(classes ...string) Result {
	r.Classes = append(r.Classes, classes...)
	return r
}

type recorder struct {
	mu          sync.Mutex
	id, unit    string
	rule        string
	start       time.Time
	evals       int64
	ntCases     int64
	steps       int64
	discards    int64
	nontrivial  map[uint64]struct{}
	ntOverflow  bool
	classes     map[string]int64
	samples     []json.RawMessage
	trivSample  json.RawMessage
	violations  int64
	knownHits   map[string]int64
	knownSample map[string]json.RawMessage
	mode        string
}

const maxHashes = 400000

var (
	knownOnce sync.Once
	knownSigs map[string]map[string]bool // property -> sig -> known
)

func loadKnown() {
	knownSigs = map[string]map[string]bool{}
	p := os.Getenv("VERIF_KNOWN")
	if p == "" {
		return
	}
	b, err := os.ReadFile(p)
	if err != nil {
		return
	}
	for _, line := range strings.Split(string(b), "\n") {
		line = strings.TrimSpace(line)
		if line == "" || strings.HasPrefix(line, "#") {
			continue
		}
		// format: "known: property=<ID> signature=<sig> <what fails>"
		// ("fixed: ..." lines suppress nothing and are ignored here)
		if !strings.HasPrefix(line, "known:") {
			continue
		}
		var prop, sig string
		for _, f := range strings.Fields(line) {
			if v, ok := strings.CutPrefix(f, "property="); ok && prop == "" {
				prop = v
			}
			if v, ok := strings.CutPrefix(f, "signature="); ok && sig == "" {
				sig = v
			}
		}
		if prop == "" || sig == "" {
			continue
		}
		if knownSigs[prop] == nil {
			knownSigs[prop] = map[string]bool{}
		}
		knownSigs[prop][sig] = true
	}
}

// IsKnown reports whether sig is a listed (status "known") finding for id.
func IsKnown(id, sig string) bool {
	knownOnce.Do(loadKnown)
	return sig != "" && knownSigs[id][sig]
}

func newRecorder(id, unit, rule, mode string) *recorder {
	return &recorder{id: id, unit: unit, rule: rule, start: time.Now(), mode: mode,
		nontrivial: map[uint64]struct{}{}, classes: map[string]int64{},
		knownHits: map[string]int64{}, knownSample: map[string]json.RawMessage{}}
}

func planJSON(p any) json.RawMessage {
	b, err := json.Marshal(p)
	if err != nil {
		b, _ = json.Marshal(fmt.Sprintf("%+v", p))
	}
	return b
}

func hash64(b []byte) uint64 {
	h := sha256.Sum256(b)
	return binary.LittleEndian.Uint64(h[:8])
}

func truncateSample(b json.RawMessage) json.RawMessage {
	const max = 1500
	if len(b) <= max {
		return b
	}
	s, _ := json.Marshal(string(b[:max]) + "…(truncated)")
	return s
}

// heartbeat tells the driver that cases are still completing (liveness signal
// only, never a verdict): the driver kills and re-runs a shard that burns CPU
// without finishing a case (a rare runtime spin inside testing/synctest bubbles,
// see notes/C18.md).
var (
	hbMu   sync.Mutex
	hbLast time.Time
	hbN    int64
)

func heartbeat() {
	path := os.Getenv("VERIF_HEARTBEAT")
	if path == "" {
		return
	}
	hbMu.Lock()
	defer hbMu.Unlock()
	hbN++
	now := time.Now()
	if now.Sub(hbLast) < 200*time.Millisecond {
		return
	}
	hbLast = now
	_ = os.WriteFile(path, []byte(fmt.Sprint(hbN)), 0o644)
}

func (r *recorder) record(pj json.RawMessage, res Result) {
	heartbeat()
	r.mu.Lock()
	defer r.mu.Unlock()
	r.evals++
	r.steps += int64(res.Steps)
	if res.Discard {
		r.discards++
		return
	}
	for _, c := range res.Classes {
		r.classes[c]++
	}
	if res.NonTrivial {
		r.ntCases++
		h := hash64(pj)
		if _, ok := r.nontrivial[h]; !ok {
			if len(r.nontrivial) < maxHashes {
				r.nontrivial[h] = struct{}{}
			} else {
				r.ntOverflow = true
			}
			// Reservoir-free sampling: keep the 1st, then sparser ones.
			n := len(r.nontrivial)
			if len(r.samples) < 5 && (n == 1 || n == 7 || n == 53 || n == 211 || n == 997) {
				r.samples = append(r.samples, truncateSample(pj))
			}
		}
	} else if r.trivSample == nil {
		r.trivSample = truncateSample(pj)
	}
}

type shardEvidence struct {
	Property    string                     `json:"property"`
	Unit        string                     `json:"unit"`
	Mode        string                     `json:"mode"`
	Rule        string                     `json:"rule"`
	Evaluations int64                      `json:"evaluations"`
	Steps       int64                      `json:"steps"`
	Discards    int64                      `json:"discards"`
	NTCount     int                        `json:"nontrivial_count"`
	NTCases     int64                      `json:"nontrivial_cases"`
	NTHashes    []uint64                   `json:"nontrivial_hashes,omitempty"`
	NTOverflow  bool                       `json:"nontrivial_overflow"`
	Classes     map[string]int64           `json:"classes"`
	Samples     []json.RawMessage          `json:"samples"`
	TrivSample  json.RawMessage            `json:"trivial_sample,omitempty"`
	Violations  int64                      `json:"violations"`
	KnownHits   map[string]int64           `json:"known_hits"`
	KnownSample map[string]json.RawMessage `json:"known_samples,omitempty"`
	WallS       float64                    `json:"wall_s"`
}

func (r *recorder) flush() {
	dir := os.Getenv("VERIF_EV_OUT")
	if dir == "" {
		return
	}
	r.mu.Lock()
	defer r.mu.Unlock()
	se := shardEvidence{Property: r.id, Unit: r.unit, Mode: r.mode, Rule: r.rule, Evaluations: r.evals,
		Steps: r.steps, Discards: r.discards, NTCount: len(r.nontrivial), NTCases: r.ntCases, NTOverflow: r.ntOverflow,
		Classes: r.classes, Samples: r.samples, TrivSample: r.trivSample, Violations: r.violations,
		KnownHits: r.knownHits, KnownSample: r.knownSample, WallS: time.Since(r.start).Seconds()}
	if len(r.nontrivial) <= 60000 {
		for h := range r.nontrivial {
			se.NTHashes = append(se.NTHashes, h)
		}
		sort.Slice(se.NTHashes, func(i, j int) bool { return se.NTHashes[i] < se.NTHashes[j] })
	} else {
		se.NTOverflow = true
	}
	b, _ := json.Marshal(se)
	name := fmt.Sprintf("ev-%s-%s-%d-%d.json", r.id, sanitize(r.unit), os.Getpid(), time.Now().UnixNano())
	_ = os.MkdirAll(dir, 0o755)
	_ = os.WriteFile(filepath.Join(dir, name), b, 0o644)
}

func sanitize(s string) string {
	return strings.Map(func(r rune) rune {
		if r >= 'a' && r <= 'z' || r >= 'A' && r <= 'Z' || r >= '0' && r <= '9' || r == '_' || r == '-' {
			return r
		}
		return '_'
	}, s)
}

type replayFile struct {
	Property  string          `json:"property"`
	Unit      string          `json:"unit"`
	Violation string          `json:"violation,omitempty"`
	Sig       string          `json:"sig,omitempty"`
	Plan      json.RawMessage `json:"plan"`
}

func writeReplay(id, unit string, pj json.RawMessage, res Result, tag string) string {
	dir := os.Getenv("VERIF_REPLAY_OUT")
	if dir == "" {
		return ""
	}
	_ = os.MkdirAll(dir, 0o755)
	b, _ := json.MarshalIndent(replayFile{Property: id, Unit: unit, Violation: res.Violation, Sig: res.Sig, Plan: pj}, "", " ")
	p := filepath.Join(dir, fmt.Sprintf("%s-%s-%s-%d.json", id, sanitize(unit), tag, os.Getpid()))
	_ = os.WriteFile(p, b, 0o644)
	return p
}

func trackCurrent(id, unit string, pj json.RawMessage) {
	if os.Getenv("VERIF_TRACK_CURRENT") == "" {
		return
	}
	dir := os.Getenv("VERIF_REPLAY_OUT")
	if dir == "" {
		return
	}
	_ = os.MkdirAll(dir, 0o755)
	b, _ := json.Marshal(replayFile{Property: id, Unit: unit, Violation: "process died while executing this plan", Plan: pj})
	_ = os.WriteFile(filepath.Join(dir, fmt.Sprintf("%s-%s-current-%d.json", id, sanitize(unit), os.Getpid())), b, 0o644)
}

func clearCurrent(id, unit string) {
	if os.Getenv("VERIF_TRACK_CURRENT") == "" {
		return
	}
	dir := os.Getenv("VERIF_REPLAY_OUT")
	if dir != "" {
		_ = os.Remove(filepath.Join(dir, fmt.Sprintf("%s-%s-current-%d.json", id, sanitize(unit), os.Getpid())))
	}
}

// Tier returns "quick" or "thorough".
func Tier() string {
	if os.Getenv("VERIF_TIER") == "thorough" {
		return "thorough"
	}
	return "quick"
}

// Thorough reports whether the thorough tier is running.
func Thorough() bool { return Tier() == "thorough" }

// Pick returns q in the quick tier and th in the thorough tier.
func Pick[T any](q, th T) T {
	if Thorough() {
		return th
	}
	return q
}

// Unit describes one generated check.
type Unit[P any] struct {
	ID   string // property id, e.g. "C07"
	Name string // unit name within the property
	Rule string // how cases are generated and what makes one non-trivial
	Gen  func(*rapid.T) P
	Run  func(*testing.T, P) Result
}

// unitSelected implements VERIF_UNIT filtering (exact unit name).
func unitSelected(name string) bool {
	u := os.Getenv("VERIF_UNIT")
	return u == "" || u == name
}

// Check runs the unit under rapid (or replays one plan when VERIF_REPLAY is set).
func Check[P any](t *testing.T, u Unit[P]) {
	t.Helper()
	if !unitSelected(u.Name) {
		t.Skip("unit not selected")
	}
	if rp := os.Getenv("VERIF_REPLAY"); rp != "" {
		replay(t, u, rp)
		return
	}
	rec := newRecorder(u.ID, u.Name, u.Rule, "rapid")
	defer rec.flush()
	rapid.Check(t, func(rt *rapid.T) {
		p := u.Gen(rt)
		pj := planJSON(p)
		trackCurrent(u.ID, u.Name, pj)
		res := runGuarded(t, u, p)
		clearCurrent(u.ID, u.Name)
		rec.record(pj, res)
		if res.Violation == "" {
			return
		}
		if IsKnown(u.ID, res.Sig) {
			rec.mu.Lock()
			rec.knownHits[res.Sig]++
			if _, ok := rec.knownSample[res.Sig]; !ok {
				rec.knownSample[res.Sig] = truncateSample(pj)
			}
			rec.mu.Unlock()
			return
		}
		rec.mu.Lock()
		rec.violations++
		rec.mu.Unlock()
		path := writeReplay(u.ID, u.Name, pj, res, "fail")
		rt.Fatalf("VERIF-VIOLATION property=%s unit=%s replay=%s sig=%q :: %s", u.ID, u.Name, path, res.Sig, res.Violation)
	})
}

// runGuarded converts a panic on the calling goroutine into a violation-free
// re-panic: rapid itself catches panics and shrinks them, which is what we
// want (a panic in code under test is a failure of the case).
func runGuarded[P any](t *testing.T, u Unit[P], p P) Result {
	return u.Run(t, p)
}

func replay[P any](t *testing.T, u Unit[P], path string) {
	b, err := os.ReadFile(path)
	if err != nil {
		t.Fatalf("VERIF-HARNESS cannot read replay %s: %v", path, err)
	}
	var rf replayFile
	if err := json.Unmarshal(b, &rf); err != nil {
		t.Fatalf("VERIF-HARNESS bad replay file: %v", err)
	}
	if rf.Unit != u.Name || rf.Property != u.ID {
		t.Skip("replay is for another unit")
	}
	var p P
	if err := json.Unmarshal(rf.Plan, &p); err != nil {
		t.Fatalf("VERIF-HARNESS cannot decode plan: %v", err)
	}
	rec := newRecorder(u.ID, u.Name, u.Rule, "replay")
	defer rec.flush()
	res := u.Run(t, p)
	rec.record(rf.Plan, res)
	if res.Violation == "" {
		fmt.Printf("VERIF-REPLAY-OK property=%s unit=%s\n", u.ID, u.Name)
		return
	}
	if IsKnown(u.ID, res.Sig) {
		rec.knownHits[res.Sig]++
		fmt.Printf("VERIF-REPLAY-KNOWN property=%s unit=%s sig=%s :: %s\n", u.ID, u.Name, res.Sig, res.Violation)
		return
	}
	rec.violations++
	t.Fatalf("VERIF-VIOLATION property=%s unit=%s replay=%s sig=%q :: %s", u.ID, u.Name, path, res.Sig, res.Violation)
}

// Fuzz adapts a unit to Go's native fuzzer: decode turns bytes into a plan
// (returning false for bytes outside the domain).
func Fuzz[P any](f *testing.F, u Unit[P], seeds [][]byte, decode func([]byte) (P, bool)) {
	if !unitSelected(u.Name) {
		f.Skip("unit not selected")
	}
	for _, s := range seeds {
		f.Add(s)
	}
	f.Fuzz(func(t *testing.T, data []byte) {
		p, ok := decode(data)
		if !ok {
			return
		}
		res := u.Run(t, p)
		if res.Violation == "" || IsKnown(u.ID, res.Sig) {
			return
		}
		pj := planJSON(p)
		path := writeReplay(u.ID, u.Name, pj, res, fmt.Sprintf("fuzz-%016x", hash64(pj)))
		t.Fatalf("VERIF-VIOLATION property=%s unit=%s replay=%s sig=%q :: %s", u.ID, u.Name, path, res.Sig, res.Violation)
	})
}

// Enumerate runs the unit over an explicit finite list of plans (exhaustive
// tables); recorded like generated cases with mode "enumerate".
func Enumerate[P any](t *testing.T, u Unit[P], plans []P) {
	t.Helper()
	if !unitSelected(u.Name) {
		t.Skip("unit not selected")
	}
	if rp := os.Getenv("VERIF_REPLAY"); rp != "" {
		replay(t, u, rp)
		return
	}
	rec := newRecorder(u.ID, u.Name, u.Rule, "enumerate")
	defer rec.flush()
	for _, p := range plans {
		pj := planJSON(p)
		res := u.Run(t, p)
		rec.record(pj, res)
		if res.Violation == "" {
			continue
		}
		if IsKnown(u.ID, res.Sig) {
			rec.knownHits[res.Sig]++
			if _, ok := rec.knownSample[res.Sig]; !ok {
				rec.knownSample[res.Sig] = truncateSample(pj)
			}
			continue
		}
		rec.violations++
		path := writeReplay(u.ID, u.Name, pj, res, "fail")
		t.Fatalf("VERIF-VIOLATION property=%s unit=%s replay=%s sig=%q :: %s", u.ID, u.Name, path, res.Sig, res.Violation)
	}
}

// Bubble runs f inside a testing/synctest bubble and converts a bubble panic
// on the calling goroutine (deadlock = goroutines left durably blocked after f
// returned, or a panic inside f itself) into a string. It returns "" when the
// bubble drained cleanly. f must not call t.Fatal/t.Error (carry verdicts out
// as values) so that rapid can shrink the failing plan.
func Bubble(t *testing.T, f func(t *testing.T)) (panicMsg string) {
	inner := ""
	defer func() {
		if r := recover(); r != nil {
			// e.g. "deadlock: main bubble goroutine has exited but blocked goroutines remain"
			panicMsg = "bubble: " + fmt.Sprint(r)
		}
		if inner != "" {
			panicMsg = inner
		}
	}()
	synctest.Test(t, func(t *testing.T) {
		// f runs on its own goroutine: a panic there would kill the process.
		defer func() {
			if r := recover(); r != nil {
				inner = fmt.Sprintf("panic in bubble main goroutine: %v\n%s", r, debug.Stack())
			}
		}()
		f(t)
	})
	return ""
}
