package vpipe

import (
	"errors"
	"io"
	"os"
	"testing"
	"testing/synctest"
	"time"
)

func TestVpipeSemantics(t *testing.T) {
	synctest.Test(t, func(t *testing.T) {
		a, b := New()
		a.SetRemoteAddr(Addr{"tcp", "10.0.0.1:443"})
		if b.LocalAddr().String() != "10.0.0.1:443" || a.RemoteAddr().Network() != "tcp" {
			t.Fatalf("addresses: %v %v", b.LocalAddr(), a.RemoteAddr())
		}
		// unbounded write, segmented reads, EOF after buffered data
		b.SetReadSizes(1, 3)
		if n, err := a.Write([]byte("hello world")); n != 11 || err != nil {
			t.Fatalf("write: %d %v", n, err)
		}
		a.Close()
		buf := make([]byte, 64)
		var sizes []int
		var got []byte
		for {
			n, err := b.Read(buf)
			if err == io.EOF {
				break
			}
			if err != nil {
				t.Fatalf("read: %v", err)
			}
			sizes = append(sizes, n)
			got = append(got, buf[:n]...)
		}
		if string(got) != "hello world" || sizes[0] != 1 || sizes[1] != 3 || sizes[2] != 1 {
			t.Fatalf("got %q sizes %v", got, sizes)
		}
		if _, err := b.Write([]byte("x")); err != io.ErrClosedPipe {
			t.Fatalf("write to closed peer: %v", err)
		}
		if _, err := a.Read(buf); err != io.ErrClosedPipe {
			t.Fatalf("read on closed end: %v", err)
		}

		// bounded buffer: writer blocks until the reader drains
		c, d := New()
		c.SetWriteBuffer(4)
		done := make(chan int, 1)
		go func() { n, _ := c.Write([]byte("0123456789")); done <- n }()
		synctest.Wait()
		select {
		case <-done:
			t.Fatal("bounded write did not block")
		default:
		}
		all, _ := io.ReadAll(io.LimitReader(d, 10))
		if string(all) != "0123456789" || <-done != 10 {
			t.Fatalf("bounded transfer: %q", all)
		}

		// read deadline on the fake clock
		d.SetReadDeadline(time.Now().Add(time.Second))
		start := time.Now()
		_, err := d.Read(buf)
		if !errors.Is(err, os.ErrDeadlineExceeded) || time.Since(start) != time.Second {
			t.Fatalf("deadline: %v after %v", err, time.Since(start))
		}
		d.SetReadDeadline(time.Time{})

		// blocked reader is woken by peer Close with EOF
		res := make(chan error, 1)
		go func() { _, err := d.Read(buf); res <- err }()
		synctest.Wait()
		c.Close()
		if err := <-res; err != io.EOF {
			t.Fatalf("blocked read after peer close: %v", err)
		}
		d.Close()

		// fault injection
		e, f := New()
		e.CloseAfterWrite(5)
		n, err := e.Write([]byte("abcdefgh"))
		if n != 5 || err != io.ErrClosedPipe || !e.Closed() {
			t.Fatalf("CloseAfterWrite: %d %v", n, err)
		}
		rest, _ := io.ReadAll(f)
		if string(rest) != "abcde" {
			t.Fatalf("after fault: %q", rest)
		}
		f.Close()

		// listener
		l := Listen(nil)
		go func() {
			s, _ := l.Accept()
			s.Write([]byte("hi"))
			s.Close()
		}()
		cc, err := l.Dial()
		if err != nil {
			t.Fatal(err)
		}
		x, _ := io.ReadAll(cc)
		if string(x) != "hi" {
			t.Fatalf("listener: %q", x)
		}
		cc.Close()
		l.Close()
	})
}
