// Package vpipe is an in-memory, full-duplex net.Conn pair for the /verif
// harness. It is testing/synctest friendly: every blocking operation blocks
// on a channel that was created by the pipe itself (durable blocking, no real
// I/O), so synctest.Wait() sees a goroutine blocked in Read/Write as idle.
//
// IMPORTANT: create the pipe INSIDE the bubble that uses it (channels made
// outside a bubble are not durably blocking for synctest).
//
// Semantics (TCP-like):
//   - Writes never block by default (unbounded buffer). SetWriteBuffer(n)
//     bounds the bytes in flight in that direction; a writer then blocks
//     until the peer has read enough.
//   - Close closes both directions of the local end. The peer still reads
//     everything that was buffered before the Close and then gets io.EOF;
//     peer writes fail with io.ErrClosedPipe. Local Read/Write after Close
//     fail with io.ErrClosedPipe. Blocked operations are woken.
//   - CloseWrite half-closes (peer reads drain, then io.EOF).
//   - Deadlines work like net.Pipe (error is os.ErrDeadlineExceeded, which is
//     a net.Error with Timeout() == true); in a bubble they run on the fake
//     clock.
//   - LocalAddr/RemoteAddr are settable (SetLocalAddr/SetRemoteAddr; the
//     peer's view is updated too).
//   - Segmentation: SetReadSizes(k1,k2,...) makes the i-th Read on that end
//     return at most k_i bytes (the list is cycled; 0 or an empty list = no
//     limit).
//   - Fault injection: CloseAfterWrite(n) closes the local end (as Close
//     does) once n bytes in total have been written on it; the Write that
//     crosses the limit delivers the bytes up to the limit and returns
//     io.ErrClosedPipe. CloseAfterRead(n) likewise for bytes read.
//   - SetWriteTap(f) calls f(bytes) for every successful (partial) write, in
//     wire order, before the bytes become readable by the peer.
//
// Usage:
//
//	vk.Bubble(t, func(t *testing.T) {
//		c, s := vpipe.New()                       // client end, server end
//		c.SetRemoteAddr(vpipe.Addr{Net: "tcp", Str: "10.0.0.1:443"})
//		s.SetReadSizes(1, 7, 16384)               // server reads are segmented
//		go func() { c.Write([]byte("hello")); c.Close() }()
//		b, _ := io.ReadAll(s)                     // "hello", then EOF
//	})
//
// A Listener (Listen / Dial / Accept) is provided for code that wants a
// net.Listener (grpc.Server.Serve + grpc.WithContextDialer).
package vpipe

import (
	"context"
	"errors"
	"io"
	"net"
	"os"
	"sync"
	"time"
)

// Addr is a settable net.Addr.
type Addr struct {
	Net string
	Str string
}

// Network implements net.Addr.
func (a Addr) Network() string { return a.Net }

// String implements net.Addr.
func (a Addr) String() string { return a.Str }

// deadline is net.Pipe's pipeDeadline.
type deadline struct {
	mu     sync.Mutex
	timer  *time.Timer
	cancel chan struct{}
}

func makeDeadline() deadline { return deadline{cancel: make(chan struct{})} }

func (d *deadline) set(t time.Time) {
	d.mu.Lock()
	defer d.mu.Unlock()
	if d.timer != nil && !d.timer.Stop() {
		<-d.cancel // wait for the timer callback to finish and close cancel
	}
	d.timer = nil
	closed := isClosed(d.cancel)
	if t.IsZero() {
		if closed {
			d.cancel = make(chan struct{})
		}
		return
	}
	if dur := time.Until(t); dur > 0 {
		if closed {
			d.cancel = make(chan struct{})
		}
		ch := d.cancel
		d.timer = time.AfterFunc(dur, func() { close(ch) })
		return
	}
	if !closed {
		close(d.cancel)
	}
}

func (d *deadline) stop() {
	d.mu.Lock()
	defer d.mu.Unlock()
	if d.timer != nil {
		d.timer.Stop()
		d.timer = nil
	}
}

func (d *deadline) wait() chan struct{} {
	d.mu.Lock()
	defer d.mu.Unlock()
	return d.cancel
}

func isClosed(c chan struct{}) bool {
	select {
	case <-c:
		return true
	default:
		return false
	}
}

// half is one direction of the pipe.
type half struct {
	mu      sync.Mutex
	buf     []byte
	off     int           // read offset into buf
	limit   int           // max bytes in flight; 0 = unbounded
	wclosed bool          // writer side closed: reader gets EOF after draining
	rclosed bool          // reader side closed: writes fail
	changed chan struct{} // closed and replaced on every state change
}

func (h *half) signalLocked() {
	close(h.changed)
	h.changed = make(chan struct{})
}

func (h *half) inflightLocked() int { return len(h.buf) - h.off }

// Conn is one end of a pipe. It implements net.Conn.
type Conn struct {
	rd, wr *half // rd: peer -> us, wr: us -> peer
	peer   *Conn

	rdl, wdl deadline

	mu         sync.Mutex
	local      net.Addr
	remote     net.Addr
	closed     bool
	closedCh   chan struct{}
	readSizes  []int
	readIdx    int
	nWritten   int64
	nRead      int64
	failWrite  int64 // -1 = off
	failRead   int64 // -1 = off
	tap        func([]byte)
	writeMu    sync.Mutex // serialises Writes (so a large bounded write is not interleaved)
	closeHooks []func()
}

// New returns the two ends of a fresh pipe with unbounded buffering.
func New() (a, b *Conn) {
	ab := &half{changed: make(chan struct{})}
	ba := &half{changed: make(chan struct{})}
	a = &Conn{rd: ba, wr: ab, rdl: makeDeadline(), wdl: makeDeadline(), closedCh: make(chan struct{}),
		local: Addr{"vpipe", "a"}, remote: Addr{"vpipe", "b"}, failWrite: -1, failRead: -1}
	b = &Conn{rd: ab, wr: ba, rdl: makeDeadline(), wdl: makeDeadline(), closedCh: make(chan struct{}),
		local: Addr{"vpipe", "b"}, remote: Addr{"vpipe", "a"}, failWrite: -1, failRead: -1}
	a.peer, b.peer = b, a
	return a, b
}

// Peer returns the other end.
func (c *Conn) Peer() *Conn { return c.peer }

// LocalAddr implements net.Conn.
func (c *Conn) LocalAddr() net.Addr { c.mu.Lock(); defer c.mu.Unlock(); return c.local }

// RemoteAddr implements net.Conn.
func (c *Conn) RemoteAddr() net.Addr { c.mu.Lock(); defer c.mu.Unlock(); return c.remote }

// SetLocalAddr sets this end's local address and the peer's remote address.
func (c *Conn) SetLocalAddr(a net.Addr) {
	c.mu.Lock()
	c.local = a
	c.mu.Unlock()
	c.peer.mu.Lock()
	c.peer.remote = a
	c.peer.mu.Unlock()
}

// SetRemoteAddr sets this end's remote address and the peer's local address.
func (c *Conn) SetRemoteAddr(a net.Addr) { c.peer.SetLocalAddr(a) }

// SetWriteBuffer bounds the bytes in flight from this end to the peer
// (0 = unbounded, the default). A Write blocks while the buffer is full.
func (c *Conn) SetWriteBuffer(n int) {
	c.wr.mu.Lock()
	c.wr.limit = n
	c.wr.signalLocked()
	c.wr.mu.Unlock()
}

// SetReadSizes makes successive Reads on this end return at most
// sizes[i%len] bytes (entries <= 0 mean "no limit").
func (c *Conn) SetReadSizes(sizes ...int) {
	c.mu.Lock()
	c.readSizes = append([]int(nil), sizes...)
	c.readIdx = 0
	c.mu.Unlock()
}

// CloseAfterWrite arms fault injection: once n bytes in total have been
// written on this end it is closed (n < 0 disarms).
func (c *Conn) CloseAfterWrite(n int64) { c.mu.Lock(); c.failWrite = n; c.mu.Unlock() }

// CloseAfterRead arms fault injection: once n bytes in total have been read
// on this end it is closed (n < 0 disarms).
func (c *Conn) CloseAfterRead(n int64) { c.mu.Lock(); c.failRead = n; c.mu.Unlock() }

// SetWriteTap installs f, called with every chunk written on this end.
func (c *Conn) SetWriteTap(f func([]byte)) { c.mu.Lock(); c.tap = f; c.mu.Unlock() }

// OnClose registers f to run (once, on the closing goroutine) when this end
// is closed.
func (c *Conn) OnClose(f func()) { c.mu.Lock(); c.closeHooks = append(c.closeHooks, f); c.mu.Unlock() }

// BytesWritten returns the total number of bytes written on this end.
func (c *Conn) BytesWritten() int64 { c.mu.Lock(); defer c.mu.Unlock(); return c.nWritten }

// BytesRead returns the total number of bytes read on this end.
func (c *Conn) BytesRead() int64 { c.mu.Lock(); defer c.mu.Unlock(); return c.nRead }

// Buffered returns the number of bytes written by the peer and not yet read.
func (c *Conn) Buffered() int { c.rd.mu.Lock(); defer c.rd.mu.Unlock(); return c.rd.inflightLocked() }

// Closed reports whether Close was called on this end.
func (c *Conn) Closed() bool { c.mu.Lock(); defer c.mu.Unlock(); return c.closed }

// Done is closed when this end is closed.
func (c *Conn) Done() <-chan struct{} { return c.closedCh }

type timeoutError struct{}

func (timeoutError) Error() string   { return "vpipe: i/o timeout" }
func (timeoutError) Timeout() bool   { return true }
func (timeoutError) Temporary() bool { return true }
func (timeoutError) Is(err error) bool {
	return err == os.ErrDeadlineExceeded || err == context.DeadlineExceeded
}

var errTimeout net.Error = timeoutError{}

// Read implements net.Conn.
func (c *Conn) Read(p []byte) (int, error) {
	c.mu.Lock()
	max := 0
	if len(c.readSizes) > 0 {
		max = c.readSizes[c.readIdx%len(c.readSizes)]
	}
	c.mu.Unlock()
	if max > 0 && len(p) > max {
		p = p[:max]
	}
	h := c.rd
	for {
		if isClosed(c.rdl.wait()) {
			return 0, errTimeout
		}
		h.mu.Lock()
		if h.rclosed {
			h.mu.Unlock()
			return 0, io.ErrClosedPipe
		}
		if len(p) == 0 {
			h.mu.Unlock()
			return 0, nil
		}
		if n := h.inflightLocked(); n > 0 {
			k := copy(p, h.buf[h.off:])
			h.off += k
			if h.off == len(h.buf) {
				h.buf, h.off = h.buf[:0], 0
				if cap(h.buf) > 1<<20 {
					h.buf = nil
				}
			}
			h.signalLocked()
			h.mu.Unlock()
			c.mu.Lock()
			c.nRead += int64(k)
			if len(c.readSizes) > 0 {
				c.readIdx++
			}
			trip := c.failRead >= 0 && c.nRead >= c.failRead
			c.mu.Unlock()
			if trip {
				c.Close()
			}
			return k, nil
		}
		if h.wclosed {
			h.mu.Unlock()
			return 0, io.EOF
		}
		ch := h.changed
		h.mu.Unlock()
		select {
		case <-ch:
		case <-c.rdl.wait():
			return 0, errTimeout
		}
	}
}

// Write implements net.Conn.
func (c *Conn) Write(p []byte) (int, error) {
	c.writeMu.Lock()
	defer c.writeMu.Unlock()
	h := c.wr
	total := 0
	for {
		if isClosed(c.wdl.wait()) {
			return total, errTimeout
		}
		c.mu.Lock()
		budget := int64(-1)
		if c.failWrite >= 0 {
			budget = c.failWrite - c.nWritten
			if budget < 0 {
				budget = 0
			}
		}
		tap := c.tap
		c.mu.Unlock()
		h.mu.Lock()
		if h.wclosed || h.rclosed {
			h.mu.Unlock()
			return total, io.ErrClosedPipe
		}
		if len(p) == 0 {
			h.mu.Unlock()
			return total, nil
		}
		room := len(p)
		if h.limit > 0 {
			room = h.limit - h.inflightLocked()
			if room > len(p) {
				room = len(p)
			}
		}
		if budget >= 0 && int64(room) > budget {
			room = int(budget)
		}
		if room > 0 || budget == 0 {
			if room > 0 {
				if tap != nil {
					tap(p[:room])
				}
				if h.off > 0 && h.off == len(h.buf) {
					h.buf, h.off = h.buf[:0], 0
				} else if h.off > 1<<16 && h.off > len(h.buf)/2 {
					n := copy(h.buf, h.buf[h.off:])
					h.buf, h.off = h.buf[:n], 0
				}
				h.buf = append(h.buf, p[:room]...)
				h.signalLocked()
			}
			h.mu.Unlock()
			c.mu.Lock()
			c.nWritten += int64(room)
			trip := c.failWrite >= 0 && c.nWritten >= c.failWrite
			c.mu.Unlock()
			total += room
			p = p[room:]
			if trip {
				c.Close()
				if len(p) == 0 && room > 0 {
					return total, nil
				}
				return total, io.ErrClosedPipe
			}
			if len(p) == 0 {
				return total, nil
			}
			continue
		}
		ch := h.changed
		h.mu.Unlock()
		select {
		case <-ch:
		case <-c.wdl.wait():
			return total, errTimeout
		}
	}
}

// CloseWrite half-closes: the peer reads what is buffered and then io.EOF.
func (c *Conn) CloseWrite() error {
	c.wr.mu.Lock()
	c.wr.wclosed = true
	c.wr.signalLocked()
	c.wr.mu.Unlock()
	return nil
}

// Close implements net.Conn.
func (c *Conn) Close() error {
	c.mu.Lock()
	if c.closed {
		c.mu.Unlock()
		return nil
	}
	c.closed = true
	close(c.closedCh)
	hooks := c.closeHooks
	c.closeHooks = nil
	c.mu.Unlock()
	c.wr.mu.Lock()
	c.wr.wclosed = true
	c.wr.signalLocked()
	c.wr.mu.Unlock()
	c.rd.mu.Lock()
	c.rd.rclosed = true
	c.rd.buf, c.rd.off = nil, 0
	c.rd.signalLocked()
	c.rd.mu.Unlock()
	c.rdl.stop()
	c.wdl.stop()
	for _, f := range hooks {
		f()
	}
	return nil
}

// SetDeadline implements net.Conn.
func (c *Conn) SetDeadline(t time.Time) error {
	if c.Closed() {
		return io.ErrClosedPipe
	}
	c.rdl.set(t)
	c.wdl.set(t)
	return nil
}

// SetReadDeadline implements net.Conn.
func (c *Conn) SetReadDeadline(t time.Time) error {
	if c.Closed() {
		return io.ErrClosedPipe
	}
	c.rdl.set(t)
	return nil
}

// SetWriteDeadline implements net.Conn.
func (c *Conn) SetWriteDeadline(t time.Time) error {
	if c.Closed() {
		return io.ErrClosedPipe
	}
	c.wdl.set(t)
	return nil
}

var _ net.Conn = (*Conn)(nil)

// Listener is a net.Listener whose connections are vpipes.
type Listener struct {
	addr   net.Addr
	ch     chan *Conn
	done   chan struct{}
	once   sync.Once
	mu     sync.Mutex
	nDials int
	// OnDial, if set before the first Dial, may customise both ends of every
	// new connection (addresses, segmentation, fault injection ...).
	OnDial func(n int, client, server *Conn)
}

// Listen returns a Listener with the given address (nil = vpipe "listener").
func Listen(addr net.Addr) *Listener {
	if addr == nil {
		addr = Addr{"vpipe", "listener"}
	}
	return &Listener{addr: addr, ch: make(chan *Conn), done: make(chan struct{})}
}

// ErrListenerClosed is returned by Accept/Dial after Close.
var ErrListenerClosed = errors.New("vpipe: listener closed")

// Accept implements net.Listener.
func (l *Listener) Accept() (net.Conn, error) {
	select {
	case c := <-l.ch:
		return c, nil
	case <-l.done:
		return nil, ErrListenerClosed
	}
}

// Close implements net.Listener.
func (l *Listener) Close() error { l.once.Do(func() { close(l.done) }); return nil }

// Addr implements net.Listener.
func (l *Listener) Addr() net.Addr { return l.addr }

// DialContext connects to the listener; it blocks until Accept takes the
// server end, ctx is done or the listener is closed.
func (l *Listener) DialContext(ctx context.Context) (net.Conn, error) {
	c, s := New()
	l.mu.Lock()
	n := l.nDials
	l.nDials++
	l.mu.Unlock()
	s.SetLocalAddr(l.addr)
	c.SetLocalAddr(Addr{"vpipe", "client"})
	if l.OnDial != nil {
		l.OnDial(n, c, s)
	}
	select {
	case l.ch <- s:
		return c, nil
	case <-ctx.Done():
		return nil, ctx.Err()
	case <-l.done:
		return nil, ErrListenerClosed
	}
}

// Dial is DialContext(context.Background()).
func (l *Listener) Dial() (net.Conn, error) { return l.DialContext(context.Background()) }

// Dialer adapts the listener to grpc.WithContextDialer.
func (l *Listener) Dialer() func(context.Context, string) (net.Conn, error) {
	return func(ctx context.Context, _ string) (net.Conn, error) { return l.DialContext(ctx) }
}
