// Package stubs provides stub child LB policies for driving parent policies
// (gracefulswitch, endpointsharding, weighted_target, priority, outlier
// detection) in the /verif harness.
//
// Six builders are registered once (package init) under the fixed names
// Names[0..5] = "verif_stub_a" … "verif_stub_f"; their ParseConfig accepts any
// JSON object and returns *Config. Every balancer they build attaches itself to
// the Hub of the *current case*: the Hub is found through
// balancer.BuildOptions.Authority (or, as a fallback, ClientConn.Target()),
// which must be the value returned by Hub.Key(). A Hub is created per case
// with NewHub and released with Hub.Release, so no state is shared between
// cases.
//
// A stub Child records every call made by its parent in Child.Calls and in the
// hub-wide ordered Hub.Log, and does nothing on its own except what the
// optional Hub hooks (OnBuild, OnUpdate, OnResolverError, OnExitIdle, OnClose)
// do inline — e.g. report an initial state synchronously like real policies do.
// The harness makes "child i reports state s" happen with Child.Report, which
// sends a fresh *Picker (pointer identity identifies child and report) through
// the ClientConn the parent gave to the child. Children may create and shut
// down SubConns through Child.NewSubConn / ShutdownSubConn.
package stubs

import (
	"encoding/json"
	"fmt"
	"sync"
	"sync/atomic"

	"google.golang.org/grpc/balancer"
	"google.golang.org/grpc/connectivity"
	"google.golang.org/grpc/resolver"
	"google.golang.org/grpc/serviceconfig"
)

// Names are the registered stub policy names.
var Names = []string{"verif_stub_a", "verif_stub_b", "verif_stub_c", "verif_stub_d", "verif_stub_e", "verif_stub_f"}

// Config is the parsed LB config of a stub policy.
type Config struct {
	serviceconfig.LoadBalancingConfig `json:"-"`
	Raw                               string
}

// CallKind names a balancer.Balancer method (or Build).
type CallKind int

// Call kinds.
const (
	CBuild CallKind = iota
	CUpdateClientConnState
	CResolverError
	CUpdateSubConnState
	CExitIdle
	CClose
	CSubConnState // a StateListener of a SubConn created by the child fired
)

func (k CallKind) String() string {
	return [...]string{"Build", "UpdateClientConnState", "ResolverError", "UpdateSubConnState", "ExitIdle", "Close", "SubConnState"}[k]
}

// Call is one recorded call into a stub child.
type Call struct {
	Seq   int // position in Hub.Log
	Child *Child
	Kind  CallKind
	CCS   balancer.ClientConnState // CUpdateClientConnState
	Err   error                    // CResolverError
	SC    balancer.SubConn         // CUpdateSubConnState / CSubConnState
	SCS   balancer.SubConnState    // CUpdateSubConnState / CSubConnState
	// AfterClose is set when the call arrived after Close() (a parent bug for
	// every kind except CSubConnState, which the channel may still deliver).
	AfterClose bool
}

var (
	hubsMu  sync.Mutex
	hubs    = map[string]*Hub{}
	hubNext int
)

// Hub collects the stub children built during one case.
type Hub struct {
	key string

	// Hooks, called inline on the goroutine of the parent's call, without any
	// hub lock held. All optional. Set them before the parent is driven.
	OnBuild         func(*Child)
	OnUpdate        func(*Child, balancer.ClientConnState) error
	OnResolverError func(*Child, error)
	OnExitIdle      func(*Child)
	OnClose         func(*Child)
	OnSubConnState  func(*Child, balancer.SubConn, balancer.SubConnState)

	mu       sync.Mutex
	children []*Child
	log      []Call
	pickerID int
}

// NewHub creates the hub for one case.
func NewHub() *Hub {
	hubsMu.Lock()
	defer hubsMu.Unlock()
	hubNext++
	h := &Hub{key: fmt.Sprintf("verif-hub-%d", hubNext)}
	hubs[h.key] = h
	return h
}

// Key is the string to put into BuildOptions.Authority (and/or to use as the
// fake ClientConn's target) so that stub builders find this hub.
func (h *Hub) Key() string { return h.key }

// BuildOptions returns BuildOptions carrying the hub key.
func (h *Hub) BuildOptions() balancer.BuildOptions { return balancer.BuildOptions{Authority: h.key} }

// Release forgets the hub (call at the end of the case).
func (h *Hub) Release() {
	hubsMu.Lock()
	delete(hubs, h.key)
	hubsMu.Unlock()
}

// Children returns all children built so far, in build order.
func (h *Hub) Children() []*Child {
	h.mu.Lock()
	defer h.mu.Unlock()
	return append([]*Child(nil), h.children...)
}

// Open returns the children that have not been closed, in build order.
func (h *Hub) Open() []*Child {
	h.mu.Lock()
	defer h.mu.Unlock()
	var out []*Child
	for _, c := range h.children {
		if c.closeCount == 0 {
			out = append(out, c)
		}
	}
	return out
}

// Log returns a copy of the hub-wide ordered call log.
func (h *Hub) Log() []Call {
	h.mu.Lock()
	defer h.mu.Unlock()
	return append([]Call(nil), h.log...)
}

func (h *Hub) record(c *Child, call Call) {
	h.mu.Lock()
	call.Seq = len(h.log)
	call.Child = c
	call.AfterClose = c.closeCount > 0 && call.Kind != CClose
	if call.Kind == CClose {
		call.AfterClose = c.closeCount > 0 // double close
		c.closeCount++
	}
	h.log = append(h.log, call)
	c.calls = append(c.calls, call)
	h.mu.Unlock()
}

// Builder returns the registered stub builder with the given name.
func Builder(name string) balancer.Builder { return balancer.Get(name) }

type builder struct{ name string }

func (b builder) Name() string { return b.name }

func (b builder) ParseConfig(js json.RawMessage) (serviceconfig.LoadBalancingConfig, error) {
	var v map[string]any
	if err := json.Unmarshal(js, &v); err != nil {
		return nil, err
	}
	return &Config{Raw: string(js)}, nil
}

func (b builder) Build(cc balancer.ClientConn, opts balancer.BuildOptions) balancer.Balancer {
	hubsMu.Lock()
	h := hubs[opts.Authority]
	if h == nil {
		h = hubs[cc.Target()]
	}
	hubsMu.Unlock()
	if h == nil {
		panic(fmt.Sprintf("stubs: no hub for authority %q / target %q", opts.Authority, cc.Target()))
	}
	c := &Child{Hub: h, Name: b.name, CC: cc, Opts: opts}
	h.mu.Lock()
	c.Index = len(h.children)
	h.children = append(h.children, c)
	h.mu.Unlock()
	h.record(c, Call{Kind: CBuild})
	if h.OnBuild != nil {
		h.OnBuild(c)
	}
	return c
}

func init() {
	for _, n := range Names {
		balancer.Register(builder{name: n})
	}
}

// Child is one stub balancer instance.
type Child struct {
	Hub   *Hub
	Name  string // builder name
	Index int    // build order within the hub
	CC    balancer.ClientConn
	Opts  balancer.BuildOptions
	// Tag is free for the harness (e.g. the model's id for this child).
	Tag any

	// guarded by Hub.mu
	calls      []Call
	closeCount int
	subConns   []balancer.SubConn
	reports    []*Picker
}

func (c *Child) String() string { return fmt.Sprintf("child%d(%s)", c.Index, c.Name) }

// UpdateClientConnState implements balancer.Balancer.
func (c *Child) UpdateClientConnState(s balancer.ClientConnState) error {
	c.Hub.record(c, Call{Kind: CUpdateClientConnState, CCS: s})
	if c.Hub.OnUpdate != nil {
		return c.Hub.OnUpdate(c, s)
	}
	return nil
}

// ResolverError implements balancer.Balancer.
func (c *Child) ResolverError(err error) {
	c.Hub.record(c, Call{Kind: CResolverError, Err: err})
	if c.Hub.OnResolverError != nil {
		c.Hub.OnResolverError(c, err)
	}
}

// UpdateSubConnState implements balancer.Balancer (deprecated path).
func (c *Child) UpdateSubConnState(sc balancer.SubConn, s balancer.SubConnState) {
	c.Hub.record(c, Call{Kind: CUpdateSubConnState, SC: sc, SCS: s})
}

// ExitIdle implements balancer.Balancer.
func (c *Child) ExitIdle() {
	c.Hub.record(c, Call{Kind: CExitIdle})
	if c.Hub.OnExitIdle != nil {
		c.Hub.OnExitIdle(c)
	}
}

// Close implements balancer.Balancer.
func (c *Child) Close() {
	c.Hub.record(c, Call{Kind: CClose})
	if c.Hub.OnClose != nil {
		c.Hub.OnClose(c)
	}
}

// Calls returns the calls recorded for this child.
func (c *Child) Calls() []Call {
	c.Hub.mu.Lock()
	defer c.Hub.mu.Unlock()
	return append([]Call(nil), c.calls...)
}

// Count returns how many calls of kind k this child received.
func (c *Child) Count(k CallKind) int {
	n := 0
	for _, call := range c.Calls() {
		if call.Kind == k {
			n++
		}
	}
	return n
}

// CloseCount returns how often Close() was called.
func (c *Child) CloseCount() int {
	c.Hub.mu.Lock()
	defer c.Hub.mu.Unlock()
	return c.closeCount
}

// Closed reports whether Close() was called at least once.
func (c *Child) Closed() bool { return c.CloseCount() > 0 }

// LastUpdate returns the most recent ClientConnState received.
func (c *Child) LastUpdate() (balancer.ClientConnState, bool) {
	calls := c.Calls()
	for i := len(calls) - 1; i >= 0; i-- {
		if calls[i].Kind == CUpdateClientConnState {
			return calls[i].CCS, true
		}
	}
	return balancer.ClientConnState{}, false
}

// Picker is the stub picker; its pointer identifies the child and the report.
type Picker struct {
	Child *Child
	ID    int // unique within the hub, increasing
	State connectivity.State
	// Result/Err are returned by Pick unless PickFn is set.
	Result balancer.PickResult
	Err    error
	PickFn func(balancer.PickInfo) (balancer.PickResult, error)
	picks  atomic.Int64
}

// Pick implements balancer.Picker and counts the delegation.
func (p *Picker) Pick(info balancer.PickInfo) (balancer.PickResult, error) {
	p.picks.Add(1)
	if p.PickFn != nil {
		return p.PickFn(info)
	}
	return p.Result, p.Err
}

// Picks returns how often Pick was called on this picker.
func (p *Picker) Picks() int { return int(p.picks.Load()) }

func (p *Picker) String() string {
	return fmt.Sprintf("picker%d(child%d,%v)", p.ID, p.Child.Index, p.State)
}

// NewPicker creates a picker with identity for this child without reporting it.
func (c *Child) NewPicker(s connectivity.State) *Picker {
	c.Hub.mu.Lock()
	c.Hub.pickerID++
	p := &Picker{Child: c, ID: c.Hub.pickerID, State: s}
	c.Hub.mu.Unlock()
	if s != connectivity.Ready {
		p.Err = balancer.ErrNoSubConnAvailable
		if s == connectivity.TransientFailure {
			p.Err = fmt.Errorf("stub child %d in TRANSIENT_FAILURE (picker %d)", c.Index, p.ID)
		}
	}
	return p
}

// Report makes the child report state s with a fresh picker through the
// ClientConn its parent gave it, and returns that picker.
func (c *Child) Report(s connectivity.State) *Picker {
	p := c.NewPicker(s)
	c.ReportPicker(p)
	return p
}

// ReportPicker reports p.State with picker p.
func (c *Child) ReportPicker(p *Picker) {
	c.Hub.mu.Lock()
	c.reports = append(c.reports, p)
	c.Hub.mu.Unlock()
	c.CC.UpdateState(balancer.State{ConnectivityState: p.State, Picker: p})
}

// Reports returns all pickers this child reported, in order.
func (c *Child) Reports() []*Picker {
	c.Hub.mu.Lock()
	defer c.Hub.mu.Unlock()
	return append([]*Picker(nil), c.reports...)
}

// LastReport returns the most recently reported picker, or nil.
func (c *Child) LastReport() *Picker {
	c.Hub.mu.Lock()
	defer c.Hub.mu.Unlock()
	if len(c.reports) == 0 {
		return nil
	}
	return c.reports[len(c.reports)-1]
}

// NewSubConn creates a SubConn for addr through the child's ClientConn, with a
// StateListener that records CSubConnState calls (and runs Hub.OnSubConnState).
func (c *Child) NewSubConn(addr resolver.Address) (balancer.SubConn, error) {
	var sc balancer.SubConn
	sc, err := c.CC.NewSubConn([]resolver.Address{addr}, balancer.NewSubConnOptions{
		StateListener: func(s balancer.SubConnState) {
			c.Hub.record(c, Call{Kind: CSubConnState, SC: sc, SCS: s})
			if c.Hub.OnSubConnState != nil {
				c.Hub.OnSubConnState(c, sc, s)
			}
		},
	})
	if err != nil {
		return nil, err
	}
	c.Hub.mu.Lock()
	c.subConns = append(c.subConns, sc)
	c.Hub.mu.Unlock()
	return sc, nil
}

// SubConns returns the SubConns this child created (as returned by its
// ClientConn, i.e. possibly wrapped by the parent).
func (c *Child) SubConns() []balancer.SubConn {
	c.Hub.mu.Lock()
	defer c.Hub.mu.Unlock()
	return append([]balancer.SubConn(nil), c.subConns...)
}
