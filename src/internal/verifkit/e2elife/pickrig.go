package e2elife

// pickrig: executes a PickPlan (picker scripts + operations) against a real
// ClientConn using the plan LB policy and one real grpc.Server per backend,
// inside a synctest bubble, and records a history that the C23 / C32 / C24
// oracles evaluate at every quiescence point.

import (
	"context"
	"errors"
	"fmt"
	"io"
	"net"
	"sort"
	"strconv"
	"sync"
	"testing/synctest"
	"time"

	"google.golang.org/grpc"
	"google.golang.org/grpc/balancer"
	"google.golang.org/grpc/codes"
	"google.golang.org/grpc/connectivity"
	"google.golang.org/grpc/metadata"
	"google.golang.org/grpc/status"
	"pgregory.net/rapid"
)

// PickRes is one scripted picker answer.
type PickRes struct {
	Kind   string `json:"kind"`             // err | nosc | status | notready | ready
	Code   int    `json:"code,omitempty"`   // status: the code
	Addr   int    `json:"addr,omitempty"`   // ready: backend index (mod Backends)
	NoDone bool   `json:"nodone,omitempty"` // result carries no Done callback
	Shut   bool   `json:"shut,omitempty"`   // notready: the SubConn the policy has already Shutdown (else the never-connecting one)
}

// RPCPlan describes one RPC: its call options and the answers its Pick calls get
// (one per Pick call, the last one is sticky).
type RPCPlan struct {
	WaitForReady bool      `json:"wfr,omitempty"`
	Unary        bool      `json:"unary,omitempty"`
	Picks        []PickRes `json:"picks"`
}

// PickOp is one harness operation.
type PickOp struct {
	Kind   string   `json:"kind"` // start | publish | finish | cancel | down | up | kill | sleep
	K      int      `json:"k,omitempty"`
	Code   int      `json:"code,omitempty"`
	Dur    int64    `json:"dur,omitempty"`
	NoWait bool     `json:"nowait,omitempty"`
	RPC    *RPCPlan `json:"rpc,omitempty"`
	// publish: the connectivity state the policy reports with the picker - a
	// free choice, independent of what the picker answers: "" / "ready",
	// "idle", "connecting", "tf".
	State string `json:"state,omitempty"`
	// publish: hand the channel the picker OBJECT of the previous publish again
	// (a stateful picker; its answers come from the RPC scripts at Pick time, so
	// they differ from publish to publish). Drive inserts a quiescence point in
	// front of such a publish (see planlb.go on generation stamps).
	Reuse bool `json:"reuse,omitempty"`
}

// PubState decodes PickOp.State.
func PubState(s string) connectivity.State {
	switch s {
	case "idle":
		return connectivity.Idle
	case "connecting":
		return connectivity.Connecting
	case "tf":
		return connectivity.TransientFailure
	}
	return connectivity.Ready
}

// PubStates are the values of PickOp.State.
var PubStates = []string{"ready", "idle", "connecting", "tf"}

// PickPlan is a whole case.
type PickPlan struct {
	Backends int      `json:"backends"` // 1..3 servers; one more address never becomes ready
	Retry    bool     `json:"retry"`    // service config retry policy (3 attempts on UNAVAILABLE)
	Ops      []PickOp `json:"ops"`
}

// DoneRec counts the invocations of one Done callback.
type DoneRec struct {
	Calls int
	Infos []balancer.DoneInfo
}

// PickRec is one Pick call of an RPC and the answer it got.
type PickRec struct {
	Seq       int
	Gen       int
	Idx       int // index among the RPC's picks
	Res       PickRes
	Addr      int  // resolved backend index (ready) / index of the never-ready address (notready)
	AddrReady bool // the policy's view of the returned SubConn was READY when Pick returned
	AddrShut  bool // the policy had been told that the returned SubConn is in SHUTDOWN when Pick returned
	Stable    bool // no readiness-changing operation was in flight (issued since the last quiescence point)
	Done      *DoneRec
}

// DefinitelyQueues reports whether the channel must queue the RPC after this
// answer, and the harness is sure of it: like Blocking, but an answer with a
// backend's SubConn only counts when it was seen not READY while no
// readiness-changing operation was in flight.
func (p *PickRec) DefinitelyQueues(waitForReady bool) bool {
	if p.Res.Kind == "ready" {
		return p.Stable && !p.AddrReady
	}
	return p.Blocking(waitForReady)
}

// Blocking reports whether the channel must queue the RPC after this answer.
func (p *PickRec) Blocking(waitForReady bool) bool {
	switch p.Res.Kind {
	case "nosc", "notready":
		return true
	case "err":
		return waitForReady
	case "ready":
		return !p.AddrReady
	}
	return false
}

// RPCRec is the history of one RPC.
type RPCRec struct {
	ID     string
	Plan   RPCPlan
	MinGen int // generation published (UpdateState returned) before the RPC was started
	cancel context.CancelFunc

	Picks     []*PickRec
	StreamOK  bool
	Finished  bool
	Err       error
	FinishSeq int
	C24       string // first CheckRPCError complaint

	// harness-goroutine bookkeeping
	Cancelled    bool
	CancelRacing bool // the cancel was issued without a quiescence point before/after a concurrent op
	Quiesced     bool
	QPicks       int  // number of picks at the previous quiescence point
	QBlocked     bool // queued in the channel at the previous quiescence point
	QSure        bool // ... and the harness is sure of it (see PickRec.DefinitelyQueues)
	QFinished    bool
}

// PickRig is the running system.
type PickRig struct {
	Plan     PickPlan
	Ctl      *Controller
	CC       *grpc.ClientConn
	Servers  []*Server
	Handlers *Handlers
	NeverIdx int // index of the never-ready address
	ShutIdx  int // index of the address whose SubConn the policy shut down right after creating it

	mu    sync.Mutex // guards RPC records and DoneRecs
	RPCs  []*RPCRec
	byID  map[string]*RPCRec
	dial  []*backendDial
	Viol  string // violation detected inside callbacks (picker/Done)
	dirty bool   // a down/up/kill operation was issued since the last quiescence point
	Steps int

	// per-quiescence bookkeeping
	PublishesSinceQ int
	OpsSinceQ       []PickOp

	opts PickRigOpts
}

// PickRigOpts are optional extensions of the rig; the zero value is the plain
// rig used by C23 / C32 "picker".
type PickRigOpts struct {
	// NewServer builds and starts the server of backend i (h is the Life
	// handler of that backend). nil: StartServer(h).
	NewServer func(r *PickRig, i int, h func(grpc.ServerStream) error) *Server
	// HealthCheck[i]: the SubConn of backend i is created with HealthCheckEnabled.
	HealthCheck []bool
	// ServiceConfig is spliced in front of the other top-level members of the
	// default service config (e.g. `"healthCheckConfig":{"serviceName":"x"},`).
	ServiceConfig string
	// DialOpts are appended to the dial options (later options win).
	DialOpts []grpc.DialOption
	// Op executes operation kinds the rig does not know; it reports whether it
	// handled the operation. An op that can change the readiness of a SubConn
	// must call r.SetDirty() before acting.
	Op func(r *PickRig, o PickOp) bool
}

type backendDial struct {
	mu    sync.Mutex
	up    bool
	wake  chan struct{}
	conns []net.Conn
}

func (b *backendDial) set(up bool) {
	b.mu.Lock()
	b.up = up
	close(b.wake)
	b.wake = make(chan struct{})
	b.mu.Unlock()
}

func (b *backendDial) killAll() {
	b.mu.Lock()
	cs := b.conns
	b.conns = nil
	b.mu.Unlock()
	for _, c := range cs {
		c.Close()
	}
}

// Lock / Unlock guard reads of RPC and Done records from oracles.
func (r *PickRig) Lock()   { r.mu.Lock() }
func (r *PickRig) Unlock() { r.mu.Unlock() }

func (r *PickRig) violate(format string, a ...any) {
	if r.Viol == "" {
		r.Viol = fmt.Sprintf(format, a...)
	}
}

const pickSeqKey = "vf-pick"

// pickFn is the Controller.PickFn: answers from the RPC's script.
func (r *PickRig) pickFn(c *Controller, gen int, info balancer.PickInfo) (balancer.PickResult, error) {
	id := OutgoingID(info.Ctx)
	r.mu.Lock()
	rec := r.byID[id]
	if rec == nil {
		r.mu.Unlock()
		return balancer.PickResult{}, balancer.ErrNoSubConnAvailable
	}
	idx := len(rec.Picks)
	res := rec.Plan.Picks[min(idx, len(rec.Plan.Picks)-1)]
	pr := &PickRec{Seq: c.NextSeq(), Gen: gen, Idx: idx, Res: res, Stable: !r.dirty}
	// A queued pick must wait for a newer picker: picking again on the same
	// generation right after an answer that queues the RPC is a violation (and
	// would livelock a broken channel, so it gets a terminal answer). A new
	// attempt (retry) may legitimately pick on the same generation again.
	if n := len(rec.Picks); n > 0 {
		old := rec.Picks[n-1]
		queued := old.Res.Kind == "nosc" || old.Res.Kind == "notready" || (old.Res.Kind == "err" && rec.Plan.WaitForReady) ||
			(old.Res.Kind == "ready" && old.Stable && !old.AddrReady)
		if old.Gen > gen || (old.Gen == gen && queued) {
			r.violate("rpc %s: Pick #%d on picker generation %d after pick #%d on generation %d was answered with %q (a queued pick must wait for a newer picker; generations never go back)", id, idx, gen, idx-1, old.Gen, old.Res.Kind)
			rec.Picks = append(rec.Picks, pr)
			r.mu.Unlock()
			return balancer.PickResult{}, status.Error(codes.Aborted, "e2elife: repeated pick on the same picker generation")
		}
	}
	rec.Picks = append(rec.Picks, pr)
	var out balancer.PickResult
	var err error
	switch res.Kind {
	case "err":
		err = errors.New("e2elife: plain picker error")
	case "nosc":
		err = balancer.ErrNoSubConnAvailable
	case "status":
		err = status.Error(codes.Code(res.Code), "e2elife: picker status")
	case "notready", "ready":
		pr.Addr = r.NeverIdx
		if res.Shut {
			pr.Addr = r.ShutIdx
		}
		if res.Kind == "ready" {
			pr.Addr = res.Addr % r.Plan.Backends
		}
		out.SubConn = c.SubConn(pr.Addr)
		pr.AddrReady = c.State(pr.Addr) == connectivity.Ready
		pr.AddrShut = c.State(pr.Addr) == connectivity.Shutdown
		out.Metadata = metadata.Pairs(pickSeqKey, strconv.Itoa(pr.Seq))
		if !res.NoDone {
			d := &DoneRec{}
			pr.Done = d
			out.Done = func(di balancer.DoneInfo) {
				r.mu.Lock()
				d.Calls++
				d.Infos = append(d.Infos, di)
				if d.Calls > 1 {
					r.violate("rpc %s: Done of pick #%d (generation %d) invoked %d times", id, idx, gen, d.Calls)
				}
				r.mu.Unlock()
			}
		}
	}
	r.mu.Unlock()
	return out, err
}

// HandlerPickSeq returns the pick sequence number carried by a handler's
// incoming metadata (0 if absent).
func HandlerPickSeq(h *HCall) int {
	md, _ := metadata.FromIncomingContext(h.Ctx)
	if v := md.Get(pickSeqKey); len(v) > 0 {
		n, _ := strconv.Atoi(v[len(v)-1])
		return n
	}
	return 0
}

const retrySC = `"methodConfig":[{"name":[{"service":"verif.Life"}],"retryPolicy":{"maxAttempts":3,"initialBackoff":"0.001s","maxBackoff":"0.002s","backoffMultiplier":1.0,"retryableStatusCodes":["UNAVAILABLE"]}}],`

// StartPickRig builds servers, controller and channel. Must run in a bubble.
func StartPickRig(p PickPlan) (*PickRig, error) { return StartPickRigOpts(p, PickRigOpts{}) }

// StartPickRigOpts is StartPickRig with optional extensions.
func StartPickRigOpts(p PickPlan, opts PickRigOpts) (*PickRig, error) {
	r := &PickRig{Plan: p, Handlers: NewHandlers(), byID: map[string]*RPCRec{}, NeverIdx: p.Backends, ShutIdx: p.Backends + 1, opts: opts}
	addrs := make([]string, 0, p.Backends+1)
	for i := 0; i < p.Backends; i++ {
		tag := fmt.Sprintf("b%d", i)
		addrs = append(addrs, tag)
		if opts.NewServer != nil {
			r.Servers = append(r.Servers, opts.NewServer(r, i, r.Handlers.HandleTagged(tag)))
		} else {
			r.Servers = append(r.Servers, StartServer(r.Handlers.HandleTagged(tag)))
		}
		r.dial = append(r.dial, &backendDial{up: true, wake: make(chan struct{})})
	}
	addrs = append(addrs, "never", "shut")
	r.dial = append(r.dial, &backendDial{up: false, wake: make(chan struct{})}, &backendDial{up: false, wake: make(chan struct{})})
	r.Ctl = NewController("pickrig", addrs)
	r.Ctl.Shut = map[int]bool{r.ShutIdx: true}
	r.Ctl.PickFn = r.pickFn
	r.Ctl.HealthCheck = opts.HealthCheck
	dialer := func(ctx context.Context, addr string) (net.Conn, error) {
		idx := -1
		for i, a := range addrs {
			if a == addr {
				idx = i
			}
		}
		if idx < 0 {
			return nil, fmt.Errorf("e2elife: unknown address %q", addr)
		}
		b := r.dial[idx]
		for {
			b.mu.Lock()
			up, wake := b.up, b.wake
			b.mu.Unlock()
			if up {
				c, err := r.Servers[idx].Lis.DialContext(ctx)
				if err != nil {
					return nil, err
				}
				b.mu.Lock()
				b.conns = append(b.conns, c)
				b.mu.Unlock()
				return c, nil
			}
			select {
			case <-wake:
			case <-ctx.Done():
				return nil, ctx.Err()
			}
		}
	}
	sc := "{" + opts.ServiceConfig + `"loadBalancingConfig":[{"` + PlanLBName + `":{}}]}`
	if p.Retry {
		sc = "{" + opts.ServiceConfig + retrySC + `"loadBalancingConfig":[{"` + PlanLBName + `":{}}]}`
	}
	cc, err := Dial(r.Ctl.Name, dialer, append([]grpc.DialOption{grpc.WithDefaultServiceConfig(sc)}, opts.DialOpts...)...)
	if err != nil {
		return nil, err
	}
	r.CC = cc
	cc.Connect()
	synctest.Wait()
	if !r.Ctl.Built() {
		r.Close()
		return nil, errors.New("e2elife: plan LB policy was not built")
	}
	return r, nil
}

// Close tears everything down; the bubble must be drained afterwards.
func (r *PickRig) Close() {
	r.Handlers.ReleaseAll()
	r.mu.Lock()
	for _, rec := range r.RPCs {
		rec.cancel()
	}
	r.mu.Unlock()
	if r.CC != nil {
		r.CC.Close()
	}
	for _, s := range r.Servers {
		s.Close()
	}
	for _, b := range r.dial {
		b.set(false)
	}
	r.Ctl.Unregister()
	synctest.Wait()
}

func (r *PickRig) runRPC(ctx context.Context, rec *RPCRec) {
	var opts []grpc.CallOption
	if rec.Plan.WaitForReady {
		opts = append(opts, grpc.WaitForReady(true))
	}
	note := func(err error) {
		if err != nil && err != io.EOF {
			if m := CheckRPCError(err); m != "" {
				r.mu.Lock()
				if rec.C24 == "" {
					rec.C24 = m
				}
				r.mu.Unlock()
			}
		}
	}
	finish := func(err error) {
		seq := r.Ctl.NextSeq()
		r.mu.Lock()
		rec.Finished, rec.Err, rec.FinishSeq = true, err, seq
		r.mu.Unlock()
	}
	if rec.Plan.Unary {
		req, resp := []byte{1}, []byte{}
		err := r.CC.Invoke(ctx, Method, &req, &resp, opts...)
		note(err)
		finish(err)
		return
	}
	cs, err := r.CC.NewStream(ctx, BidiDesc, Method, opts...)
	note(err)
	if err != nil {
		finish(err)
		return
	}
	r.mu.Lock()
	rec.StreamOK = true
	r.mu.Unlock()
	msg := []byte{1}
	if err := cs.SendMsg(&msg); err != nil && err != io.EOF {
		note(err)
		finish(err)
		return
	}
	cs.CloseSend()
	for {
		var b []byte
		if err := cs.RecvMsg(&b); err != nil {
			note(err)
			finish(err)
			return
		}
	}
}

// Live returns the RPCs that have not finished, in start order.
func (r *PickRig) Live() []*RPCRec {
	r.mu.Lock()
	defer r.mu.Unlock()
	var out []*RPCRec
	for _, rec := range r.RPCs {
		if !rec.Finished {
			out = append(out, rec)
		}
	}
	return out
}

// Apply executes one operation (without waiting for quiescence).
func (r *PickRig) Apply(o PickOp) {
	r.Steps++
	r.OpsSinceQ = append(r.OpsSinceQ, o)
	switch o.Kind {
	case "start":
		if o.RPC == nil || len(o.RPC.Picks) == 0 {
			return
		}
		r.mu.Lock()
		rec := &RPCRec{ID: fmt.Sprintf("r%d", len(r.RPCs)), Plan: *o.RPC, MinGen: r.Ctl.Gen()}
		ctx, cancel := context.WithCancel(WithID(context.Background(), rec.ID))
		rec.cancel = cancel
		r.RPCs = append(r.RPCs, rec)
		r.byID[rec.ID] = rec
		r.mu.Unlock()
		go r.runRPC(ctx, rec)
	case "publish":
		r.PublishesSinceQ++
		r.Ctl.PublishOpts(PubOpts{State: PubState(o.State), Reuse: o.Reuse})
	case "finish":
		run := r.Handlers.Running()
		var cand []*HCall
		for _, h := range run {
			if !h.FinishQueued() {
				cand = append(cand, h)
			}
		}
		if len(cand) == 0 {
			return
		}
		h := cand[o.K%len(cand)]
		m := ""
		if o.Code != 0 {
			m = fmt.Sprintf("st-%s-%d", h.ID, o.Code)
		}
		r.Handlers.Do(h, Cmd{Kind: CmdFinish, Code: codes.Code(o.Code), Msg: m})
		if r.Plan.Retry {
			time.Sleep(5 * time.Millisecond) // past the retry backoff (<= 2.4ms)
		}
	case "cancel":
		live := r.Live()
		var cand []*RPCRec
		for _, rec := range live {
			if !rec.Cancelled {
				cand = append(cand, rec)
			}
		}
		if len(cand) == 0 {
			return
		}
		rec := cand[o.K%len(cand)]
		rec.Cancelled = true
		rec.CancelRacing = !rec.Quiesced || o.NoWait || len(r.OpsSinceQ) > 1
		rec.cancel()
	case "down":
		r.setDirty()
		b := r.dial[o.K%r.Plan.Backends]
		b.set(false)
		b.killAll()
	case "up":
		r.setDirty()
		r.dial[o.K%r.Plan.Backends].set(true)
	case "kill":
		r.setDirty()
		r.dial[o.K%r.Plan.Backends].killAll()
	case "sleep":
		time.Sleep(time.Duration(o.Dur))
	default:
		if r.opts.Op != nil {
			r.opts.Op(r, o)
		}
	}
}

// NextAnswer is the answer the (stateful) picker gives to the RPC's next Pick
// call (call with the rig locked).
func (r *PickRig) NextAnswer(rec *RPCRec) PickRes {
	return rec.Plan.Picks[min(len(rec.Picks), len(rec.Plan.Picks)-1)]
}

// WouldQueue reports whether the answer keeps the RPC queued whatever the
// readiness of the backends ("ready" answers: unknown, reported as false).
func (a PickRes) WouldQueue(waitForReady bool) bool {
	return a.Kind == "nosc" || a.Kind == "notready" || (a.Kind == "err" && waitForReady)
}

// DescribePub renders publish gen for messages (call with the rig locked or not;
// it only takes the controller's lock).
func (r *PickRig) DescribePub(gen int) string {
	pubs := r.Ctl.Pubs()
	if gen < 1 || gen > len(pubs) {
		return fmt.Sprintf("generation %d", gen)
	}
	p := pubs[gen-1]
	prev := "CONNECTING (channel state after Connect, no publish before)"
	if gen >= 2 {
		prev = pubs[gen-2].State.String()
	}
	obj := "a new picker object"
	if p.Reused {
		obj = "the SAME picker object as the previous publish"
	}
	return fmt.Sprintf("generation %d [UpdateState(%v, %s); previous state %s]", gen, p.State, obj, prev)
}

// PubEffect says, post hoc from the logs, what one publish meant for the RPCs
// that were queued on the generation before it.
type PubEffect struct {
	Pub       PubLog
	SameState bool // same connectivity state as the previous publish (first publish: as the channel's own CONNECTING)
	Requeued  int  // RPCs queued by generation Gen-1 whose next Pick call was on this generation and queued them again
	Released  int  // ... and was answered with something else (READY SubConn, status error, fail-fast error)
}

// PubEffects evaluates the publish log against the pick records.
func (r *PickRig) PubEffects() []PubEffect {
	pubs := r.Ctl.Pubs()
	out := make([]PubEffect, len(pubs))
	for i, p := range pubs {
		out[i].Pub = p
		prev := connectivity.Connecting
		if i > 0 {
			prev = pubs[i-1].State
		}
		out[i].SameState = p.State == prev
	}
	r.mu.Lock()
	defer r.mu.Unlock()
	for _, rec := range r.RPCs {
		w := rec.Plan.WaitForReady
		for i := 0; i+1 < len(rec.Picks); i++ {
			a, b := rec.Picks[i], rec.Picks[i+1]
			if !a.Blocking(w) || b.Gen != a.Gen+1 || b.Gen > len(out) {
				continue
			}
			if b.Blocking(w) {
				out[b.Gen-1].Requeued++
			} else {
				out[b.Gen-1].Released++
			}
		}
		// queued before any picker existed: the first pick is the re-evaluation
		if len(rec.Picks) > 0 && rec.MinGen == 0 && rec.Picks[0].Gen == 1 && len(out) > 0 {
			if rec.Picks[0].Blocking(w) {
				out[0].Requeued++
			} else {
				out[0].Released++
			}
		}
	}
	return out
}

// PublishClasses are the histogram classes about publishes that do not look
// like news at the channel level (same state and / or same picker object).
func (r *PickRig) PublishClasses() []string {
	cl := map[string]bool{}
	run := 0
	for i, e := range r.PubEffects() {
		cl["pub_state_"+e.Pub.State.String()] = true
		if e.SameState {
			run++
		} else {
			run = 1
		}
		if i == 0 {
			run = 1
		}
		if run >= 3 {
			cl["same_state_run_ge3"] = true
		}
		if e.SameState && e.Released > 0 {
			cl["same_state_publish_with_queued_rpc"] = true
			cl["same_state_"+e.Pub.State.String()+"_publish_with_queued_rpc"] = true
		}
		if e.SameState && e.Requeued > 0 {
			cl["same_state_publish_requeues_rpc"] = true
		}
		if e.Pub.Reused && e.Released+e.Requeued > 0 {
			cl["same_picker_object_republished_with_queued_rpc"] = true
		}
		if e.Pub.Reused && e.Released > 0 {
			cl["same_picker_object_republished_releases_queued_rpc"] = true
		}
		if e.Pub.Reused && e.SameState && e.Released > 0 {
			cl["same_state_and_same_object_releases_queued_rpc"] = true
		}
		if !e.SameState && e.Released > 0 {
			cl["state_change_publish_with_queued_rpc"] = true
		}
	}
	r.mu.Lock()
	for _, rec := range r.RPCs {
		if rec.MinGen == 0 {
			cl["rpc_started_before_first_publish"] = true
		}
	}
	r.mu.Unlock()
	var out []string
	for c := range cl {
		out = append(out, c)
	}
	sort.Strings(out)
	return out
}

// Dirty reports whether a down/up/kill operation was issued since the last
// quiescence point (call with the rig locked).
func (r *PickRig) Dirty() bool { return r.dirty }

// SetDirty marks a readiness-changing operation as in flight until the next
// quiescence point (for operations implemented by PickRigOpts.Op).
func (r *PickRig) SetDirty() { r.setDirty() }

func (r *PickRig) setDirty() {
	r.mu.Lock()
	r.dirty = true
	r.mu.Unlock()
}

// Quiesce waits for quiescence. After the oracle has looked at the state the
// caller must call Mark to roll the per-quiescence bookkeeping forward.
func (r *PickRig) Quiesce() { synctest.Wait() }

// Mark records the state at this quiescence point for the next comparison.
func (r *PickRig) Mark() {
	r.mu.Lock()
	defer r.mu.Unlock()
	for _, rec := range r.RPCs {
		rec.Quiesced = true
		rec.QPicks = len(rec.Picks)
		rec.QFinished = rec.Finished
		rec.QBlocked = !rec.Finished && len(rec.Picks) > 0 && rec.Picks[len(rec.Picks)-1].Blocking(rec.Plan.WaitForReady)
		rec.QSure = rec.QBlocked && rec.Picks[len(rec.Picks)-1].DefinitelyQueues(rec.Plan.WaitForReady)
		if !rec.Finished && len(rec.Picks) == 0 {
			rec.QBlocked = true // no picker published yet
			rec.QSure = r.Ctl.Gen() == 0
		}
	}
	r.PublishesSinceQ = 0
	r.OpsSinceQ = nil
	r.dirty = false
}

// ---------------------------------------------------------------------------
// Generator.

// uniform draws a (nearly) uniform number in [0, n) from single bits (rapid's
// integer generators are deliberately biased towards small values and the
// bounds). It shrinks towards 0.
func uniform(rt *rapid.T, n int, label string) int {
	v := 0
	for i := 0; i < 10; i++ {
		v <<= 1
		if rapid.Bool().Draw(rt, label) {
			v |= 1
		}
	}
	return v % n
}

// GenPickPlan draws a plan. profile "done" favours Done-carrying results,
// retries and cancellations; "gen" favours picker generations, readiness
// changes and racing publishes; "err" favours error results.
func GenPickPlan(rt *rapid.T, profile string, maxOps int) PickPlan {
	p := PickPlan{Backends: rapid.IntRange(1, 2).Draw(rt, "backends")}
	p.Retry = profile != "gen" && rapid.IntRange(0, 5).Draw(rt, "retry") > 0
	genRes := func() PickRes {
		w := map[string][]int{ // err nosc status notready ready
			"done": {2, 8, 3, 35, 52},
			"gen":  {6, 30, 6, 18, 40},
			"err":  {25, 10, 40, 5, 20},
		}[profile]
		n := rapid.IntRange(0, 99).Draw(rt, "res")
		res := PickRes{}
		switch {
		case n < w[0]:
			res.Kind = "err"
		case n < w[0]+w[1]:
			res.Kind = "nosc"
		case n < w[0]+w[1]+w[2]:
			res.Kind = "status"
			res.Code = rapid.IntRange(1, 16).Draw(rt, "code")
		case n < w[0]+w[1]+w[2]+w[3]:
			res.Kind = "notready"
			res.NoDone = rapid.IntRange(0, 9).Draw(rt, "nodone") == 0
			res.Shut = rapid.IntRange(0, 2).Draw(rt, "shut") == 0
		default:
			res.Kind = "ready"
			res.Addr = rapid.IntRange(0, p.Backends-1).Draw(rt, "addr")
			res.NoDone = rapid.IntRange(0, 7).Draw(rt, "nodone") == 0
		}
		return res
	}
	genRPC := func() *RPCPlan {
		rp := &RPCPlan{WaitForReady: rapid.IntRange(0, 2).Draw(rt, "wfr") == 0, Unary: rapid.IntRange(0, 3).Draw(rt, "unary") == 0}
		minPicks := 1
		if profile == "done" {
			minPicks = 3
		}
		if profile == "gen" {
			minPicks = 2
		}
		for i, n := 0, rapid.IntRange(minPicks, 5).Draw(rt, "npicks"); i < n; i++ {
			rp.Picks = append(rp.Picks, genRes())
		}
		return rp
	}
	// publishes: the reported state is a free choice with runs of equal states
	// (a policy aggregating to CONNECTING while its picker serves some RPCs);
	// a third re-publish the previous picker object.
	prevState, npub := "connecting", 0 // the channel itself is CONNECTING after Connect
	genPub := func() PickOp {
		o := PickOp{Kind: "publish"}
		if uniform(rt, 100, "samestate") < 45 {
			o.State = prevState
		} else {
			o.State = PubStates[uniform(rt, len(PubStates), "state")]
		}
		o.Reuse = npub > 0 && uniform(rt, 100, "reuse") < 30
		prevState = o.State
		npub++
		return o
	}
	// RPCs started before the policy has published anything wait on the nil picker
	if uniform(rt, 10, "firstpub") < 8 {
		p.Ops = append(p.Ops, genPub())
	}
	if profile == "done" {
		// RPCs first, so that the publish / finish operations that follow walk them through their scripts
		for i, n := 0, rapid.IntRange(1, 3).Draw(rt, "nstart"); i < n; i++ {
			p.Ops = append(p.Ops, PickOp{Kind: "start", RPC: genRPC(), NoWait: rapid.IntRange(0, 4).Draw(rt, "nowait") == 0})
		}
	}
	minOps := 3
	if profile == "done" {
		minOps = 7
	}
	if profile == "gen" {
		minOps = 6
	}
	nops := rapid.IntRange(minOps, maxOps).Draw(rt, "nops")
	for i := 0; i < nops; i++ {
		o := PickOp{}
		w := map[string][]int{ // start publish finish cancel down up kill
			"done": {8, 42, 34, 5, 3, 3, 5},
			"gen":  {22, 40, 8, 5, 10, 10, 5},
			"err":  {45, 30, 10, 5, 4, 4, 2},
		}[profile]
		n := rapid.IntRange(0, 99).Draw(rt, "op")
		acc := 0
		kinds := []string{"start", "publish", "finish", "cancel", "down", "up", "kill"}
		o.Kind = kinds[len(kinds)-1]
		for j, k := range kinds {
			acc += w[j]
			if n < acc {
				o.Kind = k
				break
			}
		}
		switch o.Kind {
		case "start":
			o.RPC = genRPC()
		case "publish":
			o = genPub()
		case "finish":
			o.K = rapid.IntRange(0, 5).Draw(rt, "k")
			o.Code = rapid.SampledFrom([]int{0, 0, 14, 14, 14, 14, 13, 5}).Draw(rt, "code")
		case "cancel", "down", "up", "kill":
			o.K = rapid.IntRange(0, 5).Draw(rt, "k")
		}
		nw := 5
		if profile == "gen" {
			nw = 3
		}
		o.NoWait = rapid.IntRange(0, nw-1).Draw(rt, "nowait") == 0
		p.Ops = append(p.Ops, o)
	}
	return p
}

// Drive runs the plan: after every operation that is not NoWait it waits for
// quiescence, evaluates oracle (final=false) and rolls the bookkeeping
// forward. At the end every parked handler is finished with OK, every live
// RPC is cancelled and oracle is evaluated with final=true (all RPCs have
// ended). It returns the first violation ("" if none) and the rig (already
// torn down) for classification.
func Drive(p PickPlan, oracle func(r *PickRig, final bool) string) (string, *PickRig, error) {
	return DriveOpts(p, PickRigOpts{}, oracle)
}

// DriveOpts is Drive on a rig with optional extensions.
func DriveOpts(p PickPlan, opts PickRigOpts, oracle func(r *PickRig, final bool) string) (string, *PickRig, error) {
	r, err := StartPickRigOpts(p, opts)
	if err != nil {
		return "", nil, err
	}
	eval := func(final bool) string {
		r.Quiesce()
		r.mu.Lock()
		v := r.Viol
		r.mu.Unlock()
		if v == "" {
			v = oracle(r, final)
		}
		r.Mark()
		return v
	}
	for _, o := range p.Ops {
		if o.Kind == "publish" && o.Reuse && len(r.OpsSinceQ) > 0 {
			// re-stamping a picker object needs a quiescent moment (planlb.go)
			if v := eval(false); v != "" {
				r.Close()
				return fmt.Sprintf("before op %d (%s): %s", r.Steps, o.Kind, v), r, nil
			}
		}
		r.Apply(o)
		if o.NoWait {
			continue
		}
		if v := eval(false); v != "" {
			r.Close()
			return fmt.Sprintf("after op %d (%s): %s", r.Steps-1, o.Kind, v), r, nil
		}
	}
	if v := eval(false); v != "" {
		r.Close()
		return "end of plan: " + v, r, nil
	}
	// drain
	for round := 0; round < 8; round++ {
		run := r.Handlers.Running()
		if len(run) == 0 {
			break
		}
		for _, h := range run {
			if !h.FinishQueued() {
				r.Handlers.Do(h, Cmd{Kind: CmdFinish, Code: codes.OK})
			}
		}
		if v := eval(false); v != "" {
			r.Close()
			return "drain: " + v, r, nil
		}
	}
	for _, rec := range r.Live() {
		if !rec.Cancelled {
			rec.Cancelled = true
			rec.CancelRacing = true
			rec.cancel()
		}
	}
	r.Handlers.ReleaseAll()
	v := eval(true)
	r.Close()
	if v != "" {
		v = "final: " + v
	}
	return v, r, nil
}
