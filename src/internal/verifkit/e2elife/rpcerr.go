package e2elife

import (
	"fmt"
	"io"

	"google.golang.org/grpc/codes"
	"google.golang.org/grpc/status"
)

// CheckRPCError is the C24 harvest oracle: err is a non-nil error returned to
// the application by Invoke, NewStream, SendMsg or RecvMsg (io.EOF from
// SendMsg/RecvMsg must be filtered out by the caller, where it is the
// documented end-of-stream signal). It returns "" if err carries a legal gRPC
// status (status.FromError succeeds and the code is one of the 17 defined
// codes and is not OK), else a description of what is wrong.
func CheckRPCError(err error) string {
	if err == nil {
		return ""
	}
	if err == io.EOF {
		return "io.EOF returned where a status error is required"
	}
	st, ok := status.FromError(err)
	if !ok {
		return fmt.Sprintf("error %T %q does not carry a gRPC status", err, err.Error())
	}
	if st == nil {
		return fmt.Sprintf("error %T %q converts to a nil status", err, err.Error())
	}
	c := st.Code()
	if c == codes.OK {
		return fmt.Sprintf("non-nil error %T %q carries code OK", err, err.Error())
	}
	if uint32(c) > uint32(codes.Unauthenticated) {
		return fmt.Sprintf("error %q carries undefined status code %d", err.Error(), uint32(c))
	}
	return ""
}

// StatusOf maps the final error of an RPC (io.EOF / nil = OK) to (code, message).
func StatusOf(err error) (codes.Code, string) {
	if err == nil || err == io.EOF {
		return codes.OK, ""
	}
	st := status.Convert(err)
	return st.Code(), st.Message()
}
