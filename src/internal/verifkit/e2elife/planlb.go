package e2elife

// A plan-driven LB policy. One builder is registered once (init) under
// PlanLBName; the per-channel harness state (Controller) is looked up by the
// channel's target endpoint, which the harness makes unique per case
// (UniqueName) and unregisters at teardown.
//
// The policy creates one SubConn per Controller address, keeps them connected
// (Connect on creation and whenever they report IDLE), records every state
// change, and publishes pickers only when the harness says so
// (Controller.Publish / PublishOpts). Every publish (UpdateState call) is a new
// generation; the connectivity state reported with it is the caller's free
// choice (it is not derived from what the picker answers - like policies that
// aggregate to CONNECTING while their pickers serve some RPCs), and a publish
// may hand the channel the previously published picker OBJECT again (a
// stateful picker: its answers come from Controller.PickFn at Pick time).
// A picker object carries the generation of its latest publish; each Pick call
// is logged with that stamp and answered by Controller.PickFn.
//
// Generation stamps and object reuse: a fresh object is stamped once, so a
// Pick call on it is attributed exactly. A re-published object is re-stamped
// right before UpdateState is called, so a Pick call that the channel issued
// through the older generation but that reads the stamp after the bump would
// be attributed to the newer one. PublishOpts{Reuse: true} must therefore be
// called at a quiescent moment (synctest.Wait() returned and nothing was
// started since): then no goroutine is between loading the channel's picker
// and calling Pick, and every stamp is exact. pickrig.Drive enforces this.

import (
	"fmt"
	"sync"
	"time"

	"google.golang.org/grpc/balancer"
	"google.golang.org/grpc/connectivity"
	"google.golang.org/grpc/resolver"
)

// PlanLBName is the registered name of the plan-driven LB policy.
const PlanLBName = "verif_e2elife_plan"

// PlanLBServiceConfig selects the policy (use with WithDefaultServiceConfig).
const PlanLBServiceConfig = `{"loadBalancingConfig":[{"` + PlanLBName + `":{}}]}`

var (
	ctlMu sync.Mutex
	ctls  = map[string]*Controller{}
)

func init() { balancer.Register(planBuilder{}) }

// SCState is one state change delivered to the policy for a SubConn.
type SCState struct {
	Seq   int
	State connectivity.State
	At    time.Time
}

// PickLog is one Pick call.
type PickLog struct {
	Seq int
	Gen int
	Obj int    // picker object the call was made on (objects are numbered from 1)
	RPC string // harness RPC id from the outgoing metadata
	At  time.Time
}

// PubLog is one publish (UpdateState call) of the policy.
type PubLog struct {
	Gen     int // generation number = index+1 in Pubs()
	Seq     int // event counter right before UpdateState was called
	DoneSeq int // event counter right after UpdateState returned (0: still inside)
	State   connectivity.State
	Obj     int  // picker object handed to the channel
	Reused  bool // Obj is the object of the previous publish
}

// PubOpts are the choices of one publish.
type PubOpts struct {
	State connectivity.State
	// Reuse hands the channel the picker object of the previous publish again
	// (ignored for the first publish). See the package comment on stamps.
	Reuse bool
}

// Controller is the harness side of one channel's plan policy.
type Controller struct {
	Name  string   // target endpoint (unique)
	Addrs []string // one SubConn per address
	// PickFn answers a Pick call made on the picker of generation gen. It is
	// called without any Controller lock held.
	PickFn func(c *Controller, gen int, info balancer.PickInfo) (balancer.PickResult, error)
	// HealthCheck is optional: SubConn i is created with
	// NewSubConnOptions.HealthCheckEnabled when i < len(HealthCheck) and
	// HealthCheck[i] (nil = no SubConn asks for health checking). Set it before
	// the channel is created.
	HealthCheck []bool
	// Shut is optional: SubConn i is Shutdown() by the policy right after it
	// was created (and never asked to connect) when Shut[i]. A picker answer
	// may still return it: a SubConn in SHUTDOWN is one more non-READY SubConn.
	Shut map[int]bool

	mu     sync.Mutex
	cc     balancer.ClientConn
	scs    []balancer.SubConn
	states [][]SCState
	seq    int
	gen    int
	picks  []PickLog
	pubs   []PubLog
	last   *planPicker // object of the latest publish
	objs   int
	closed bool
}

// NewController registers a controller under a fresh unique name.
func NewController(prefix string, addrs []string) *Controller {
	c := &Controller{Name: UniqueName(prefix), Addrs: addrs, states: make([][]SCState, len(addrs))}
	ctlMu.Lock()
	ctls[c.Name] = c
	ctlMu.Unlock()
	return c
}

// Unregister removes the controller from the registry (teardown).
func (c *Controller) Unregister() {
	ctlMu.Lock()
	delete(ctls, c.Name)
	ctlMu.Unlock()
}

// Built reports whether the policy has been built and its SubConns created.
func (c *Controller) Built() bool {
	c.mu.Lock()
	defer c.mu.Unlock()
	return c.cc != nil
}

// SubConn returns the i-th SubConn (nil before Built).
func (c *Controller) SubConn(i int) balancer.SubConn {
	c.mu.Lock()
	defer c.mu.Unlock()
	if i < 0 || i >= len(c.scs) {
		return nil
	}
	return c.scs[i]
}

// State returns the last state delivered for SubConn i (IDLE before any).
func (c *Controller) State(i int) connectivity.State {
	c.mu.Lock()
	defer c.mu.Unlock()
	if i < 0 || i >= len(c.states) || len(c.states[i]) == 0 {
		return connectivity.Idle
	}
	return c.states[i][len(c.states[i])-1].State
}

// States returns a copy of the state log of SubConn i.
func (c *Controller) States(i int) []SCState {
	c.mu.Lock()
	defer c.mu.Unlock()
	return append([]SCState(nil), c.states[i]...)
}

// Gen returns the generation of the latest published picker (0 = none).
func (c *Controller) Gen() int {
	c.mu.Lock()
	defer c.mu.Unlock()
	return c.gen
}

// Picks returns a copy of the Pick call log.
func (c *Controller) Picks() []PickLog {
	c.mu.Lock()
	defer c.mu.Unlock()
	return append([]PickLog(nil), c.picks...)
}

// NextSeq returns the next value of the controller's global event counter
// (shared by pick and state logs), so callers can order their own events.
func (c *Controller) NextSeq() int {
	c.mu.Lock()
	defer c.mu.Unlock()
	c.seq++
	return c.seq
}

// Pubs returns a copy of the publish log.
func (c *Controller) Pubs() []PubLog {
	c.mu.Lock()
	defer c.mu.Unlock()
	return append([]PubLog(nil), c.pubs...)
}

// Publish publishes a new picker generation (a fresh picker object) with the
// given channel state and returns its generation number (0 if the policy is
// not built or closed).
func (c *Controller) Publish(s connectivity.State) int {
	return c.PublishOpts(PubOpts{State: s})
}

// PublishOpts is Publish with all choices: every call is one generation,
// whether or not the picker object is new.
func (c *Controller) PublishOpts(o PubOpts) int {
	c.mu.Lock()
	if c.cc == nil || c.closed {
		c.mu.Unlock()
		return 0
	}
	c.gen++
	g := c.gen
	p := c.last
	reused := o.Reuse && p != nil
	if reused {
		p.gen = g // the stamp is per publish, not per object
	} else {
		c.objs++
		p = &planPicker{c: c, gen: g, obj: c.objs}
		c.last = p
	}
	c.seq++
	c.pubs = append(c.pubs, PubLog{Gen: g, Seq: c.seq, State: o.State, Obj: p.obj, Reused: reused})
	cc := c.cc
	c.mu.Unlock()
	cc.UpdateState(balancer.State{ConnectivityState: o.State, Picker: p})
	c.mu.Lock()
	c.seq++
	c.pubs[g-1].DoneSeq = c.seq
	c.mu.Unlock()
	return g
}

// planPicker is stateful: its answers come from Controller.PickFn at Pick
// time and its generation stamp (guarded by c.mu) is that of its latest publish.
type planPicker struct {
	c   *Controller
	gen int
	obj int
}

func (p *planPicker) Pick(info balancer.PickInfo) (balancer.PickResult, error) {
	c := p.c
	c.mu.Lock()
	gen := p.gen
	c.seq++
	c.picks = append(c.picks, PickLog{Seq: c.seq, Gen: gen, Obj: p.obj, RPC: OutgoingID(info.Ctx), At: time.Now()})
	fn := c.PickFn
	c.mu.Unlock()
	if fn == nil {
		return balancer.PickResult{}, balancer.ErrNoSubConnAvailable
	}
	return fn(c, gen, info)
}

type planBuilder struct{}

func (planBuilder) Name() string { return PlanLBName }

func (planBuilder) Build(cc balancer.ClientConn, opts balancer.BuildOptions) balancer.Balancer {
	ctlMu.Lock()
	c := ctls[opts.Target.Endpoint()]
	ctlMu.Unlock()
	return &planBalancer{cc: cc, c: c}
}

type planBalancer struct {
	cc    balancer.ClientConn
	c     *Controller
	built bool
}

func (b *planBalancer) UpdateClientConnState(balancer.ClientConnState) error {
	if b.c == nil {
		return fmt.Errorf("e2elife: no controller registered for this target")
	}
	if b.built {
		return nil
	}
	b.built = true
	c := b.c
	scs := make([]balancer.SubConn, len(c.Addrs))
	for i, a := range c.Addrs {
		i := i
		var sc balancer.SubConn
		sc, err := b.cc.NewSubConn([]resolver.Address{{Addr: a}}, balancer.NewSubConnOptions{
			HealthCheckEnabled: i < len(c.HealthCheck) && c.HealthCheck[i],
			StateListener: func(s balancer.SubConnState) {
				c.mu.Lock()
				c.seq++
				c.states[i] = append(c.states[i], SCState{Seq: c.seq, State: s.ConnectivityState, At: time.Now()})
				closed := c.closed
				c.mu.Unlock()
				if s.ConnectivityState == connectivity.Idle && !closed {
					sc.Connect()
				}
			},
		})
		if err != nil {
			return err
		}
		scs[i] = sc
	}
	c.mu.Lock()
	c.cc, c.scs = b.cc, scs
	c.mu.Unlock()
	for i, sc := range scs {
		if c.Shut[i] {
			sc.Shutdown()
			continue
		}
		sc.Connect()
	}
	return nil
}

func (b *planBalancer) ResolverError(error) {}

func (b *planBalancer) UpdateSubConnState(balancer.SubConn, balancer.SubConnState) {}

func (b *planBalancer) ExitIdle() {}

func (b *planBalancer) Close() {
	if b.c != nil {
		b.c.mu.Lock()
		b.c.closed = true
		b.c.mu.Unlock()
	}
}
