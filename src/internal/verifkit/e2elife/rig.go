// Package e2elife is the harness kit for the system-level "RPC life cycle"
// checks (C22, C23, C24, C25, C32, C58): a real grpc.ClientConn and a real
// grpc.Server over test/bufconn, meant to be used inside a testing/synctest
// bubble (vk.Bubble). It provides
//
//   - a raw-bytes codec, a hand-written ServiceDesc with one bidi method whose
//     handler is harness code (Handlers: command-driven, records entry / exit /
//     ctx state),
//   - Server / Dial helpers over bufconn and clean teardown,
//   - a plan-driven LB policy ("verif_e2elife_plan", see planlb.go),
//   - CheckRPCError, the C24 harvest oracle.
//
// Nothing here keeps state between cases except two keyed registries
// (controllers by unique target name) whose entries are removed at teardown.
package e2elife

import (
	"context"
	"fmt"
	"net"
	"sync"
	"sync/atomic"
	"time"

	"google.golang.org/grpc"
	"google.golang.org/grpc/codes"
	"google.golang.org/grpc/credentials/insecure"
	"google.golang.org/grpc/internal/transport"
	"google.golang.org/grpc/metadata"
	"google.golang.org/grpc/status"
	"google.golang.org/grpc/test/bufconn"
)

// RawCodec passes byte slices through unchanged (messages are *[]byte or []byte).
type RawCodec struct{}

// Marshal implements encoding.Codec.
func (RawCodec) Marshal(v any) ([]byte, error) {
	switch m := v.(type) {
	case *[]byte:
		return *m, nil
	case []byte:
		return m, nil
	}
	return nil, fmt.Errorf("e2elife.RawCodec: cannot marshal %T", v)
}

// Unmarshal implements encoding.Codec.
func (RawCodec) Unmarshal(data []byte, v any) error {
	m, ok := v.(*[]byte)
	if !ok {
		return fmt.Errorf("e2elife.RawCodec: cannot unmarshal into %T", v)
	}
	*m = append((*m)[:0], data...)
	return nil
}

// Name implements encoding.Codec.
func (RawCodec) Name() string { return "verifraw" }

// Method is the full name of the only registered method.
const Method = "/verif.Life/Call"

// MethodFill is a second method served by the same handler (for auxiliary RPCs
// that must not be matched by a per-method service config of Method).
const MethodFill = "/verif.Life/Fill"

// BidiDesc is the client-side stream descriptor for Method.
var BidiDesc = &grpc.StreamDesc{StreamName: "Call", ServerStreams: true, ClientStreams: true}

// IDKey is the metadata key carrying the harness RPC id.
const IDKey = "vf-id"

// WithID attaches the harness RPC id to an outgoing context.
func WithID(ctx context.Context, id string) context.Context {
	return metadata.AppendToOutgoingContext(ctx, IDKey, id)
}

// OutgoingID extracts the harness RPC id from an outgoing (client) context.
func OutgoingID(ctx context.Context) string {
	md, _ := metadata.FromOutgoingContext(ctx)
	if v := md.Get(IDKey); len(v) > 0 {
		return v[0]
	}
	return ""
}

// IncomingID extracts the harness RPC id from a handler context.
func IncomingID(ctx context.Context) string {
	md, _ := metadata.FromIncomingContext(ctx)
	if v := md.Get(IDKey); len(v) > 0 {
		return v[0]
	}
	return ""
}

// ServiceDesc returns a service with the single bidi method Method handled by h.
func ServiceDesc(h func(grpc.ServerStream) error) *grpc.ServiceDesc {
	return &grpc.ServiceDesc{
		ServiceName: "verif.Life",
		HandlerType: (*any)(nil),
		Streams: []grpc.StreamDesc{{
			StreamName:    "Call",
			Handler:       func(_ any, ss grpc.ServerStream) error { return h(ss) },
			ServerStreams: true,
			ClientStreams: true,
		}, {
			StreamName:    "Fill",
			Handler:       func(_ any, ss grpc.ServerStream) error { return h(ss) },
			ServerStreams: true,
			ClientStreams: true,
		}},
		Metadata: "verif/e2elife",
	}
}

// Server is a grpc.Server serving on a bufconn listener.
type Server struct {
	Srv *grpc.Server
	Lis *bufconn.Listener

	mu       sync.Mutex
	serveErr error
	served   bool
}

// StartServer creates a server with the raw codec and the Life service and
// starts Serve on its own goroutine.
func StartServer(h func(grpc.ServerStream) error, opts ...grpc.ServerOption) *Server {
	return StartServerSetup(h, nil, opts...)
}

// StartServerSetup is StartServer with a hook that may register further
// services on the grpc.Server before Serve is called (nil = none).
func StartServerSetup(h func(grpc.ServerStream) error, setup func(*grpc.Server), opts ...grpc.ServerOption) *Server {
	opts = append([]grpc.ServerOption{grpc.ForceServerCodec(RawCodec{})}, opts...)
	s := &Server{Srv: grpc.NewServer(opts...), Lis: bufconn.Listen(1 << 20)}
	s.Srv.RegisterService(ServiceDesc(h), nil)
	if setup != nil {
		setup(s.Srv)
	}
	go func() {
		err := s.Srv.Serve(s.Lis)
		s.mu.Lock()
		s.serveErr, s.served = err, true
		s.mu.Unlock()
	}()
	return s
}

// ServeReturned reports whether Serve has returned, and its error.
func (s *Server) ServeReturned() (bool, error) {
	s.mu.Lock()
	defer s.mu.Unlock()
	return s.served, s.serveErr
}

// Dialer returns a context dialer that connects to the server's listener.
func (s *Server) Dialer() func(context.Context, string) (net.Conn, error) {
	return func(ctx context.Context, _ string) (net.Conn, error) { return s.Lis.DialContext(ctx) }
}

// Close stops the server hard and closes the listener.
func (s *Server) Close() {
	s.Srv.Stop()
	s.Lis.Close()
}

// NewListener returns a fresh bufconn listener (for servers the check builds itself).
func NewListener() *bufconn.Listener { return bufconn.Listen(1 << 20) }

var targetSeq atomic.Int64

// UniqueName returns a process-unique name (for targets / registries).
func UniqueName(prefix string) string {
	return fmt.Sprintf("%s-%d", prefix, targetSeq.Add(1))
}

// Dial creates a ClientConn on passthrough:///<name> with the raw codec and the
// given dialer. Insecure transport credentials are added unless noCreds is set
// by passing them in opts (later options win).
func Dial(name string, dialer func(context.Context, string) (net.Conn, error), opts ...grpc.DialOption) (*grpc.ClientConn, error) {
	base := []grpc.DialOption{
		grpc.WithTransportCredentials(insecure.NewCredentials()),
		grpc.WithContextDialer(dialer),
		grpc.WithDefaultCallOptions(grpc.ForceCodec(RawCodec{})),
	}
	return grpc.NewClient("passthrough:///"+name, append(base, opts...)...)
}

// ---------------------------------------------------------------------------
// Command-driven handlers.

// CmdKind selects what a parked handler does next.
type CmdKind int

const (
	// CmdFinish makes the handler return status (Code, Msg) (OK: return nil).
	CmdFinish CmdKind = iota
	// CmdRecv makes the handler call RecvMsg once (result recorded).
	CmdRecv
	// CmdSend makes the handler send one message of N bytes.
	CmdSend
	// CmdWaitCtx makes the handler block until its context is done.
	CmdWaitCtx
	// CmdHeader makes the handler send its response headers.
	CmdHeader
)

// Cmd is one instruction for a parked handler.
type Cmd struct {
	Kind CmdKind
	Code codes.Code
	Msg  string
	N    int
}

// HCall is the record of one handler invocation. Fields other than ID, Conn,
// Ctx are guarded by the owning Handlers' mutex; read them via Snapshot or
// while holding Lock.
type HCall struct {
	ID   string
	Conn net.Conn
	Ctx  context.Context
	Seq  int    // entry order
	Tag  string // server tag (HandleTagged)

	EnterAt     time.Time
	Deadline    time.Time
	HasDeadline bool

	Exited   bool
	ExitAt   time.Time
	ExitCode codes.Code
	ExitMsg  string

	CtxDone   bool
	CtxDoneAt time.Time
	CtxErr    error

	Recvd     int   // messages received
	RecvBytes int   // bytes received
	RecvErrs  []error
	SendErrs  []error
	Busy      bool // executing a command (not parked on the command channel)

	cmds         chan Cmd
	closed       bool
	finishQueued bool
}

// FinishQueued reports whether a CmdFinish has been queued for the handler.
func (c *HCall) FinishQueued() bool { return c.finishQueued }

// Handlers implements the Life service: every invocation registers an HCall
// and then executes commands sent by the harness.
type Handlers struct {
	mu      sync.Mutex
	Calls   []*HCall
	running map[net.Conn]int
	// MaxRunning is the maximum number of simultaneously running handlers seen
	// per connection.
	MaxRunning map[net.Conn]int
	released   bool
	obey       chan struct{} // closed by ObeyCtx
	obeyed     bool
	// OnEnter, if set, is called (with the lock held) when a handler starts.
	OnEnter func(*HCall)
}

// NewHandlers returns an empty handler registry.
func NewHandlers() *Handlers {
	return &Handlers{running: map[net.Conn]int{}, MaxRunning: map[net.Conn]int{}, obey: make(chan struct{})}
}

// Lock / Unlock expose the registry mutex for consistent reads of HCall fields.
func (h *Handlers) Lock()   { h.mu.Lock() }
func (h *Handlers) Unlock() { h.mu.Unlock() }

// Handle is the stream handler.
func (h *Handlers) Handle(ss grpc.ServerStream) error { return h.handle("", ss) }

// HandleTagged returns a stream handler that records tag in every HCall (to
// tell several servers sharing one registry apart).
func (h *Handlers) HandleTagged(tag string) func(grpc.ServerStream) error {
	return func(ss grpc.ServerStream) error { return h.handle(tag, ss) }
}

func (h *Handlers) handle(tag string, ss grpc.ServerStream) error {
	ctx := ss.Context()
	c := &HCall{Tag: tag, ID: IncomingID(ctx), Conn: transport.GetConnection(ctx), Ctx: ctx, cmds: make(chan Cmd, 256)}
	c.Deadline, c.HasDeadline = ctx.Deadline()
	h.mu.Lock()
	c.EnterAt = time.Now()
	c.Seq = len(h.Calls)
	h.Calls = append(h.Calls, c)
	h.running[c.Conn]++
	if h.running[c.Conn] > h.MaxRunning[c.Conn] {
		h.MaxRunning[c.Conn] = h.running[c.Conn]
	}
	if h.released {
		c.closed = true
		close(c.cmds)
	}
	if h.OnEnter != nil {
		h.OnEnter(c)
	}
	h.mu.Unlock()
	stop := context.AfterFunc(ctx, func() {
		h.mu.Lock()
		c.CtxDone, c.CtxDoneAt, c.CtxErr = true, time.Now(), ctx.Err()
		h.mu.Unlock()
	})
	_ = stop

	code, msg := codes.Aborted, "e2elife: handler released at teardown"
	obey := h.obey
	var ctxDone <-chan struct{} // non-nil once cancellation-obedient
loop:
	for {
		var cmd Cmd
		var ok bool
		select {
		case cmd, ok = <-c.cmds:
		case <-obey:
			// cancellation-obedient from now on: a parked handler also
			// returns (OK) when its context is done.
			obey, ctxDone = nil, ctx.Done()
			continue
		case <-ctxDone:
			code, msg = codes.OK, ""
			break loop
		}
		if !ok {
			break
		}
		h.mu.Lock()
		c.Busy = true
		h.mu.Unlock()
		switch cmd.Kind {
		case CmdFinish:
			code, msg = cmd.Code, cmd.Msg
			break loop
		case CmdRecv:
			var b []byte
			err := ss.RecvMsg(&b)
			h.mu.Lock()
			if err == nil {
				c.Recvd++
				c.RecvBytes += len(b)
			} else {
				c.RecvErrs = append(c.RecvErrs, err)
			}
			h.mu.Unlock()
		case CmdSend:
			b := make([]byte, cmd.N)
			if err := ss.SendMsg(&b); err != nil {
				h.mu.Lock()
				c.SendErrs = append(c.SendErrs, err)
				h.mu.Unlock()
			}
		case CmdHeader:
			if err := ss.SendHeader(nil); err != nil {
				h.mu.Lock()
				c.SendErrs = append(c.SendErrs, err)
				h.mu.Unlock()
			}
		case CmdWaitCtx:
			<-ctx.Done()
		}
		h.mu.Lock()
		c.Busy = false
		h.mu.Unlock()
	}
	h.mu.Lock()
	c.Exited, c.ExitAt, c.ExitCode, c.ExitMsg = true, time.Now(), code, msg
	c.Busy = false
	h.running[c.Conn]--
	h.mu.Unlock()
	if code == codes.OK {
		return nil
	}
	return status.Error(code, msg)
}

// Do queues a command for a handler (never blocks; false if the handler's
// queue is closed or full).
func (h *Handlers) Do(c *HCall, cmd Cmd) bool {
	h.mu.Lock()
	defer h.mu.Unlock()
	if c.closed {
		return false
	}
	select {
	case c.cmds <- cmd:
		if cmd.Kind == CmdFinish {
			c.finishQueued = true
		}
		return true
	default:
		return false
	}
}

// ByID returns the handler invocations recorded for an RPC id, in entry order.
func (h *Handlers) ByID(id string) []*HCall {
	h.mu.Lock()
	defer h.mu.Unlock()
	var out []*HCall
	for _, c := range h.Calls {
		if c.ID == id {
			out = append(out, c)
		}
	}
	return out
}

// Running returns the handlers that have entered and not exited, in entry order.
func (h *Handlers) Running() []*HCall {
	h.mu.Lock()
	defer h.mu.Unlock()
	var out []*HCall
	for _, c := range h.Calls {
		if !c.Exited {
			out = append(out, c)
		}
	}
	return out
}

// Count returns the number of handler invocations so far.
func (h *Handlers) Count() int {
	h.mu.Lock()
	defer h.mu.Unlock()
	return len(h.Calls)
}

// ObeyCtx makes every parked handler (current and future) return OK as soon
// as its context is done, in addition to executing commands.
func (h *Handlers) ObeyCtx() {
	h.mu.Lock()
	defer h.mu.Unlock()
	if !h.obeyed {
		h.obeyed = true
		close(h.obey)
	}
}

// ReleaseAll makes every current and future handler return (status ABORTED
// unless it already has a queued finish command). Call at teardown.
func (h *Handlers) ReleaseAll() {
	h.mu.Lock()
	defer h.mu.Unlock()
	h.released = true
	for _, c := range h.Calls {
		if !c.closed {
			c.closed = true
			close(c.cmds)
		}
	}
}
