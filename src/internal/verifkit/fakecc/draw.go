package fakecc

import "pgregory.net/rapid"

// Plan-drawing helpers. rapid's integer generators deliberately over-sample
// small values and range ends, which skews "pick operation kind k with weight
// w" style generators badly. These helpers build integers from fair coin
// flips (rapid.Bool), so the distribution is (almost exactly) uniform while
// shrinking still moves towards 0.

// Uniform draws an integer in [0, n) (n >= 1) with near-uniform distribution.
func Uniform(rt *rapid.T, label string, n int) int {
	bits := 5 // log2(n) + 5 bits: modulo bias below 1/32 of a slot
	for m := n - 1; m > 0; m >>= 1 {
		bits++
	}
	v := 0
	for i := 0; i < bits; i++ {
		if rapid.Bool().Draw(rt, label) {
			v |= 1 << i
		}
	}
	return v % n
}

// Weighted draws an index i with probability weights[i]/sum(weights).
func Weighted(rt *rapid.T, label string, weights ...int) int {
	total := 0
	for _, w := range weights {
		total += w
	}
	r := Uniform(rt, label, total)
	for i, w := range weights {
		if r < w {
			return i
		}
		r -= w
	}
	return 0
}
