// Package fakecc is a recording balancer.ClientConn plus a realistic fake
// SubConn for driving LB policies in the /verif harness (layer L2).
//
// The fake SubConn is an automaton that only delivers state sequences a real
// addrConn (via acBalancerWrapper) can deliver to an LB policy:
//
//	IDLE --Connect()--> CONNECTING --> READY | TRANSIENT_FAILURE | IDLE
//	TRANSIENT_FAILURE --> IDLE        READY --> IDLE
//	after Shutdown(): (at most CC.QueuedAfterShutdown already-queued ordinary
//	transitions, default 0), then exactly one SHUTDOWN, then nothing.
//
// Nothing is delivered spontaneously: the harness asks SubConn.Enabled() which
// states may be delivered next and calls SubConn.Deliver(state, err); that
// invokes the StateListener given in NewSubConnOptions on the caller's
// goroutine (LB policies are called serially, so the harness must not call
// Deliver concurrently with other balancer methods). Connect() on a SubConn
// whose last delivered state is not IDLE is a no-op, like addrConn.connect.
//
// Health listeners: RegisterHealthListener is honoured only while the last
// delivered state is READY (as acBalancerWrapper does) and is dropped when the
// SubConn leaves READY. The harness delivers health states with
// DeliverHealth while HealthEnabled().
//
// All recording is guarded by one mutex (policies such as gracefulswitch shut
// SubConns down from a helper goroutine); listeners are invoked outside it.
package fakecc

import (
	"fmt"
	"sync"

	"google.golang.org/grpc/balancer"
	"google.golang.org/grpc/connectivity"
	estats "google.golang.org/grpc/experimental/stats"
	"google.golang.org/grpc/internal"
	istats "google.golang.org/grpc/internal/stats"
	"google.golang.org/grpc/resolver"
)

// Kind identifies a recorded event.
type Kind int

// Event kinds, in the order they are typically seen.
const (
	KNewSubConn Kind = iota
	KConnect
	KShutdown // SubConn.Shutdown() called by the policy
	KUpdateState
	KResolveNow
	KDeliver        // harness delivered a connectivity state to the listener
	KDeliverHealth  // harness delivered a health state
	KRegisterHealth // policy registered (or cleared) a health listener
	KUpdateAddresses
)

func (k Kind) String() string {
	return [...]string{"NewSubConn", "Connect", "Shutdown", "UpdateState", "ResolveNow", "Deliver", "DeliverHealth", "RegisterHealth", "UpdateAddresses"}[k]
}

// Entry is one element of the totally ordered event log.
type Entry struct {
	Seq   int
	Kind  Kind
	SC    *SubConn           // for SubConn events
	State balancer.State     // for KUpdateState
	Conn  connectivity.State // for KDeliver / KDeliverHealth
}

func (e Entry) String() string {
	switch e.Kind {
	case KUpdateState:
		return fmt.Sprintf("#%d UpdateState(%v,%p)", e.Seq, e.State.ConnectivityState, e.State.Picker)
	case KDeliver, KDeliverHealth:
		return fmt.Sprintf("#%d %v(sc%d,%v)", e.Seq, e.Kind, e.SC.ID, e.Conn)
	case KResolveNow:
		return fmt.Sprintf("#%d ResolveNow", e.Seq)
	}
	return fmt.Sprintf("#%d %v(sc%d)", e.Seq, e.Kind, e.SC.ID)
}

// CC is the recording balancer.ClientConn.
type CC struct {
	internal.EnforceClientConnEmbedding

	// QueuedAfterShutdown is the number of ordinary transitions a SubConn may
	// still deliver between Shutdown() and its SHUTDOWN update (models updates
	// that were already queued in the channel's serializer). Set before use.
	QueuedAfterShutdown int
	// NewSubConnErr, when non-nil, makes NewSubConn fail with it.
	NewSubConnErr error
	// Legacy receives updates of SubConns created without a StateListener.
	Legacy func(balancer.SubConn, balancer.SubConnState)
	// Gate, when non-nil, is called on the caller's goroutine with no fakecc
	// lock held: at entry of NewSubConn (sc == nil, post == false), just before
	// NewSubConn returns the SubConn it created and recorded (post == true), and
	// at entry (before the call is recorded or has any effect, post == false) of
	// UpdateAddresses, ResolveNow, SubConn.Connect and SubConn.Shutdown. It may
	// block: that models a channel that is slow inside the call, so a harness
	// can keep a policy's call "in flight" while it drives other operations.
	// Set before use; nil (the zero value) = calls never block.
	Gate func(k Kind, sc *SubConn, post bool)

	target string

	mu          sync.Mutex
	log         []Entry
	subConns    []*SubConn
	states      []balancer.State
	resolveNows int
}

// New returns an empty recording ClientConn whose Target() is target.
func New(target string) *CC { return &CC{target: target} }

func (c *CC) appendLocked(e Entry) {
	e.Seq = len(c.log)
	c.log = append(c.log, e)
}

// NewSubConn implements balancer.ClientConn.
func (c *CC) NewSubConn(addrs []resolver.Address, opts balancer.NewSubConnOptions) (balancer.SubConn, error) {
	if g := c.Gate; g != nil {
		g(KNewSubConn, nil, false)
	}
	c.mu.Lock()
	if c.NewSubConnErr != nil {
		c.mu.Unlock()
		return nil, c.NewSubConnErr
	}
	sc := &SubConn{cc: c, ID: len(c.subConns), Addrs: append([]resolver.Address(nil), addrs...), Opts: opts,
		cur: connectivity.Idle, queued: c.QueuedAfterShutdown}
	c.subConns = append(c.subConns, sc)
	c.appendLocked(Entry{Kind: KNewSubConn, SC: sc})
	c.mu.Unlock()
	if g := c.Gate; g != nil {
		g(KNewSubConn, sc, true)
	}
	return sc, nil
}

// RemoveSubConn implements balancer.ClientConn (deprecated API): shuts sc down.
func (c *CC) RemoveSubConn(sc balancer.SubConn) { sc.Shutdown() }

// UpdateAddresses implements balancer.ClientConn (recorded, otherwise ignored).
func (c *CC) UpdateAddresses(sc balancer.SubConn, _ []resolver.Address) {
	if f, ok := sc.(*SubConn); ok {
		if g := c.Gate; g != nil {
			g(KUpdateAddresses, f, false)
		}
		c.mu.Lock()
		c.appendLocked(Entry{Kind: KUpdateAddresses, SC: f})
		c.mu.Unlock()
	}
}

// UpdateState implements balancer.ClientConn.
func (c *CC) UpdateState(s balancer.State) {
	c.mu.Lock()
	c.states = append(c.states, s)
	c.appendLocked(Entry{Kind: KUpdateState, State: s})
	c.mu.Unlock()
}

// ResolveNow implements balancer.ClientConn.
func (c *CC) ResolveNow(resolver.ResolveNowOptions) {
	if g := c.Gate; g != nil {
		g(KResolveNow, nil, false)
	}
	c.mu.Lock()
	c.resolveNows++
	c.appendLocked(Entry{Kind: KResolveNow})
	c.mu.Unlock()
}

// Target implements balancer.ClientConn.
func (c *CC) Target() string { return c.target }

// MetricsRecorder implements balancer.ClientConn with a recorder that drops
// everything.
func (c *CC) MetricsRecorder() estats.MetricsRecorder { return istats.NewMetricsRecorderList(nil) }

// SubConns returns every SubConn ever created, in creation order.
func (c *CC) SubConns() []*SubConn {
	c.mu.Lock()
	defer c.mu.Unlock()
	return append([]*SubConn(nil), c.subConns...)
}

// Live returns the SubConns on which Shutdown() has not been called.
func (c *CC) Live() []*SubConn {
	c.mu.Lock()
	defer c.mu.Unlock()
	var out []*SubConn
	for _, s := range c.subConns {
		if !s.shutdownCalled {
			out = append(out, s)
		}
	}
	return out
}

// Deliverable returns the SubConns that have at least one enabled event
// (connectivity or health), in creation order.
func (c *CC) Deliverable() []*SubConn {
	var out []*SubConn
	for _, s := range c.SubConns() {
		if len(s.Enabled()) > 0 || s.HealthEnabled() {
			out = append(out, s)
		}
	}
	return out
}

// States returns a copy of all states passed to UpdateState, in order.
func (c *CC) States() []balancer.State {
	c.mu.Lock()
	defer c.mu.Unlock()
	return append([]balancer.State(nil), c.states...)
}

// NumStates returns the number of UpdateState calls so far.
func (c *CC) NumStates() int {
	c.mu.Lock()
	defer c.mu.Unlock()
	return len(c.states)
}

// LastState returns the most recent UpdateState argument.
func (c *CC) LastState() (balancer.State, bool) {
	c.mu.Lock()
	defer c.mu.Unlock()
	if len(c.states) == 0 {
		return balancer.State{}, false
	}
	return c.states[len(c.states)-1], true
}

// ResolveNows returns the number of ResolveNow calls.
func (c *CC) ResolveNows() int {
	c.mu.Lock()
	defer c.mu.Unlock()
	return c.resolveNows
}

// Log returns a copy of the event log.
func (c *CC) Log() []Entry {
	c.mu.Lock()
	defer c.mu.Unlock()
	return append([]Entry(nil), c.log...)
}

// Seq returns the current length of the event log.
func (c *CC) Seq() int {
	c.mu.Lock()
	defer c.mu.Unlock()
	return len(c.log)
}

// SubConn is the fake subchannel. Exported fields are immutable after creation.
type SubConn struct {
	internal.EnforceSubConnEmbedding
	cc *CC

	ID    int
	Addrs []resolver.Address
	Opts  balancer.NewSubConnOptions

	// guarded by cc.mu
	cur            connectivity.State
	connectPending bool
	connects       int
	shutdownCalled bool
	done           bool
	queued         int
	history        []connectivity.State
	health         func(balancer.SubConnState)
	healthHistory  []connectivity.State
}

func (s *SubConn) String() string { return fmt.Sprintf("sc%d%v", s.ID, addrStrings(s.Addrs)) }

func addrStrings(a []resolver.Address) []string {
	out := make([]string, len(a))
	for i := range a {
		out[i] = a[i].Addr
	}
	return out
}

// UpdateAddresses implements balancer.SubConn (recorded only).
func (s *SubConn) UpdateAddresses(a []resolver.Address) { s.cc.UpdateAddresses(s, a) }

// Connect implements balancer.SubConn.
func (s *SubConn) Connect() {
	if g := s.cc.Gate; g != nil {
		g(KConnect, s, false)
	}
	s.cc.mu.Lock()
	defer s.cc.mu.Unlock()
	s.connects++
	s.cc.appendLocked(Entry{Kind: KConnect, SC: s})
	if s.cur == connectivity.Idle && !s.shutdownCalled {
		s.connectPending = true
	}
}

// GetOrBuildProducer implements balancer.SubConn; no producers are supported.
func (s *SubConn) GetOrBuildProducer(balancer.ProducerBuilder) (balancer.Producer, func()) {
	return nil, func() {}
}

// Shutdown implements balancer.SubConn. Idempotent.
func (s *SubConn) Shutdown() {
	if g := s.cc.Gate; g != nil {
		g(KShutdown, s, false)
	}
	s.cc.mu.Lock()
	defer s.cc.mu.Unlock()
	s.cc.appendLocked(Entry{Kind: KShutdown, SC: s})
	if s.shutdownCalled {
		return
	}
	s.shutdownCalled = true
	s.connectPending = s.connectPending && s.queued > 0
	s.health = nil
}

// RegisterHealthListener implements balancer.SubConn.
func (s *SubConn) RegisterHealthListener(l func(balancer.SubConnState)) {
	s.cc.mu.Lock()
	defer s.cc.mu.Unlock()
	s.cc.appendLocked(Entry{Kind: KRegisterHealth, SC: s})
	if s.cur != connectivity.Ready || s.shutdownCalled {
		return
	}
	s.health = l
}

// State returns the last delivered connectivity state (IDLE initially).
func (s *SubConn) State() connectivity.State {
	s.cc.mu.Lock()
	defer s.cc.mu.Unlock()
	return s.cur
}

// Connects returns the number of Connect() calls.
func (s *SubConn) Connects() int {
	s.cc.mu.Lock()
	defer s.cc.mu.Unlock()
	return s.connects
}

// ConnectPending reports whether a Connect() is waiting to be turned into a
// CONNECTING update.
func (s *SubConn) ConnectPending() bool {
	s.cc.mu.Lock()
	defer s.cc.mu.Unlock()
	return s.connectPending
}

// Shutdowns returns the number of Shutdown() calls made on this SubConn.
func (s *SubConn) Shutdowns() int {
	s.cc.mu.Lock()
	defer s.cc.mu.Unlock()
	n := 0
	for _, e := range s.cc.log {
		if e.Kind == KShutdown && e.SC == s {
			n++
		}
	}
	return n
}

// ShutdownCalled reports whether the policy called Shutdown().
func (s *SubConn) ShutdownCalled() bool {
	s.cc.mu.Lock()
	defer s.cc.mu.Unlock()
	return s.shutdownCalled
}

// Done reports whether the final SHUTDOWN update was delivered.
func (s *SubConn) Done() bool {
	s.cc.mu.Lock()
	defer s.cc.mu.Unlock()
	return s.done
}

// History returns all connectivity states delivered so far.
func (s *SubConn) History() []connectivity.State {
	s.cc.mu.Lock()
	defer s.cc.mu.Unlock()
	return append([]connectivity.State(nil), s.history...)
}

func (s *SubConn) enabledLocked() []connectivity.State {
	if s.done {
		return nil
	}
	var out []connectivity.State
	if !s.shutdownCalled || s.queued > 0 {
		switch s.cur {
		case connectivity.Idle:
			if s.connectPending {
				out = append(out, connectivity.Connecting)
			}
		case connectivity.Connecting:
			out = append(out, connectivity.Ready, connectivity.TransientFailure, connectivity.Idle)
		case connectivity.TransientFailure, connectivity.Ready:
			out = append(out, connectivity.Idle)
		}
	}
	if s.shutdownCalled {
		out = append(out, connectivity.Shutdown)
	}
	return out
}

// Enabled returns the connectivity states that may be delivered next, in a
// fixed order (CONNECTING | READY, TRANSIENT_FAILURE, IDLE | IDLE; SHUTDOWN last).
func (s *SubConn) Enabled() []connectivity.State {
	s.cc.mu.Lock()
	defer s.cc.mu.Unlock()
	return s.enabledLocked()
}

// Deliver delivers st (with err as ConnectionError for TRANSIENT_FAILURE) to
// the StateListener if the automaton allows it, and reports whether it did.
func (s *SubConn) Deliver(st connectivity.State, err error) bool {
	s.cc.mu.Lock()
	ok := false
	for _, e := range s.enabledLocked() {
		if e == st {
			ok = true
		}
	}
	if !ok {
		s.cc.mu.Unlock()
		return false
	}
	if st == connectivity.Shutdown {
		s.done = true
	} else if s.shutdownCalled {
		s.queued--
	}
	if st == connectivity.Connecting {
		s.connectPending = false
	}
	s.cur = st
	s.health = nil // any connectivity change invalidates the health listener
	s.history = append(s.history, st)
	s.cc.appendLocked(Entry{Kind: KDeliver, SC: s, Conn: st})
	l, legacy := s.Opts.StateListener, s.cc.Legacy
	s.cc.mu.Unlock()
	scs := balancer.SubConnState{ConnectivityState: st}
	if st == connectivity.TransientFailure {
		scs.ConnectionError = err
	}
	if l != nil {
		l(scs)
	} else if legacy != nil {
		legacy(s, scs)
	}
	return true
}

// HealthEnabled reports whether a health update can be delivered now.
func (s *SubConn) HealthEnabled() bool {
	s.cc.mu.Lock()
	defer s.cc.mu.Unlock()
	return s.health != nil && s.cur == connectivity.Ready && !s.shutdownCalled
}

// DeliverHealth delivers a health state (CONNECTING, READY or
// TRANSIENT_FAILURE) to the registered health listener, if any.
func (s *SubConn) DeliverHealth(st connectivity.State, err error) bool {
	s.cc.mu.Lock()
	if s.health == nil || s.cur != connectivity.Ready || s.shutdownCalled {
		s.cc.mu.Unlock()
		return false
	}
	l := s.health
	s.healthHistory = append(s.healthHistory, st)
	s.cc.appendLocked(Entry{Kind: KDeliverHealth, SC: s, Conn: st})
	s.cc.mu.Unlock()
	scs := balancer.SubConnState{ConnectivityState: st}
	if st == connectivity.TransientFailure {
		scs.ConnectionError = err
	}
	l(scs)
	return true
}
