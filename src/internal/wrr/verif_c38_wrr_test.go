package wrr

// C38 (wrr part): the weighted random selector returns item i with probability
// exactly w_i / Σw (uniform when all weights are equal, never a zero-weight
// item otherwise) — decided by enumerating EVERY value of the random source —
// and the EDF selector returns items in proportion to their weights.

import (
	"fmt"
	"math/big"
	"testing"

	"google.golang.org/grpc/internal/verifkit/vk"
	"pgregory.net/rapid"
)

// ---------------------------------------------------------------- random --

type vfC38RandPlan struct {
	Weights []int64 `json:"weights"`
	// Big selects the boundary-probing mode (weights too large to enumerate).
	Big bool `json:"big"`
	// Probes are extra random-source values (taken modulo the bound the
	// selector asks for) used in Big mode in addition to all boundaries.
	Probes []uint64 `json:"probes,omitempty"`
}

func vfC38GenWeights(rt *rapid.T, n int, budget int64) []int64 {
	w := make([]int64, n)
	shape := rapid.IntRange(0, 6).Draw(rt, "shape")
	for i := range w {
		switch shape {
		case 0: // small arbitrary, zeros likely
			w[i] = rapid.Int64Range(0, 6).Draw(rt, "w")
		case 1: // all equal (possibly zero)
			if i == 0 {
				w[i] = rapid.Int64Range(0, 50).Draw(rt, "w")
			} else {
				w[i] = w[0]
			}
		case 2: // equal except one
			w[i] = 3
		case 3: // skewed
			if rapid.IntRange(0, 3).Draw(rt, "heavy") == 0 {
				w[i] = rapid.Int64Range(1, budget/int64(n)).Draw(rt, "w")
			} else {
				w[i] = rapid.Int64Range(0, 3).Draw(rt, "w")
			}
		case 4: // uniform in budget
			w[i] = rapid.Int64Range(0, budget/int64(n)).Draw(rt, "w")
		case 5: // zeros and ones
			w[i] = rapid.Int64Range(0, 1).Draw(rt, "w")
		default: // powers of two +-1
			b := rapid.IntRange(0, 62).Draw(rt, "bits")
			v := int64(1)<<uint(b) + rapid.Int64Range(-1, 1).Draw(rt, "d")
			if v > budget/int64(n) {
				v = budget / int64(n)
			}
			w[i] = v
		}
	}
	if shape == 2 {
		k := rapid.IntRange(0, n-1).Draw(rt, "odd")
		w[k] = rapid.Int64Range(0, 5).Draw(rt, "oddw")
	}
	return w
}

func vfC38GenRand(rt *rapid.T) vfC38RandPlan {
	n := rapid.IntRange(1, 12).Draw(rt, "n")
	if rapid.IntRange(0, 4).Draw(rt, "mode") == 0 {
		p := vfC38RandPlan{Big: true, Weights: vfC38GenWeights(rt, n, 1<<62)}
		p.Probes = rapid.SliceOfN(rapid.Uint64(), 0, 16).Draw(rt, "probes")
		return p
	}
	budget := int64(vk.Pick(20000, 100000))
	if rapid.Bool().Draw(rt, "smallbudget") {
		budget = 200
	}
	return vfC38RandPlan{Weights: vfC38GenWeights(rt, n, budget)}
}

// vfC38RefPick is the reference: the item whose half-open interval
// [acc_{i-1}, acc_i) contains r (linear scan); uniform index when all weights
// are equal.
func vfC38RefPick(w []int64, equal bool, r int64) int {
	if equal {
		return int(r)
	}
	var acc int64
	for i, x := range w {
		acc += x
		if r < acc {
			return i
		}
	}
	return -1
}

func vfC38RunRand(_ *testing.T, p vfC38RandPlan) vk.Result {
	w := p.Weights
	n := len(w)
	if n == 0 {
		return vk.Result{Discard: true}
	}
	var sum int64
	equal, zeros := true, 0
	for _, x := range w {
		if x < 0 {
			return vk.Result{Discard: true}
		}
		sum += x
		if sum < 0 {
			return vk.Result{Discard: true}
		}
		if x != w[0] {
			equal = false
		}
		if x == 0 {
			zeros++
		}
	}
	rw := NewRandom()
	for i, x := range w {
		rw.Add(i, x)
	}
	res := vk.Result{NonTrivial: zeros > 0 && !equal}
	switch {
	case equal && w[0] == 0:
		res.Classes = append(res.Classes, "all_zero")
	case equal:
		res.Classes = append(res.Classes, "all_equal")
	case zeros > 0:
		res.Classes = append(res.Classes, "zero_among_unequal")
	default:
		res.Classes = append(res.Classes, "unequal_positive")
	}
	if n == 1 {
		res.Classes = append(res.Classes, "single")
	}

	saved := randInt64n
	defer func() { randInt64n = saved }()
	var cur, bound int64
	calls := 0
	randInt64n = func(m int64) int64 {
		calls++
		bound = m
		if m <= 0 {
			panic(fmt.Sprintf("random source asked for Int64N(%d)", m))
		}
		return cur % m
	}
	next := func(r int64) (int, string) {
		cur, calls = r, 0
		it := rw.Next()
		if calls != 1 {
			return 0, fmt.Sprintf("Next consulted the random source %d times", calls)
		}
		i, ok := it.(int)
		if !ok || i < 0 || i >= n {
			return 0, fmt.Sprintf("Next returned %v, not one of the added items", it)
		}
		return i, ""
	}

	// First call: learn the bound N the selector draws from.
	if _, msg := next(0); msg != "" {
		return vk.Bad("weights=%v: %s", w, msg)
	}
	N := bound

	if p.Big {
		res.Classes = append(res.Classes, "mode_boundaries")
		// Exact probability via interval structure: Next(r) must be the
		// reference item at every interval boundary (±1) and at the probes; and
		// the bound must be the total so that the interval lengths are the
		// probabilities. Complete for any selector that is piecewise constant
		// between boundaries; the enumerating mode below has no such assumption.
		wantN := sum
		if equal {
			wantN = int64(n)
		}
		if N != wantN {
			return vk.Bad("weights=%v: random source bound %d, want %d", w, N, wantN)
		}
		var rs []int64
		var acc int64
		for i, x := range w {
			if equal {
				acc = int64(i + 1)
			} else {
				acc += x
			}
			for d := int64(-2); d <= 1; d++ {
				if r := acc + d; r >= 0 && r < N {
					rs = append(rs, r)
				}
			}
		}
		rs = append(rs, 0, N-1)
		for _, pr := range p.Probes {
			rs = append(rs, int64(pr%uint64(N)))
		}
		for _, r := range rs {
			got, msg := next(r)
			if msg != "" {
				return vk.Bad("weights=%v r=%d: %s", w, r, msg)
			}
			if bound != N {
				return vk.Bad("weights=%v: bound changed from %d to %d", w, N, bound)
			}
			if want := vfC38RefPick(w, equal, r); got != want {
				return vk.Bad("weights=%v random=%d of %d: got item %d (weight %d), want item %d", w, r, N, got, w[got], want)
			}
		}
		res.Steps = len(rs)
		return res
	}

	res.Classes = append(res.Classes, "mode_enumerate")
	if N > 1<<21 {
		return vk.Bad("weights=%v: random source bound %d is far above the total weight %d", w, N, sum)
	}
	counts := make([]int64, n)
	for r := int64(0); r < N; r++ {
		got, msg := next(r)
		if msg != "" {
			return vk.Bad("weights=%v r=%d: %s", w, r, msg)
		}
		if bound != N {
			return vk.Bad("weights=%v: bound changed from %d to %d", w, N, bound)
		}
		counts[got]++
	}
	res.Steps = int(N)
	// P(i) = counts[i]/N must equal w_i/sum (or 1/n when all equal).
	for i := range w {
		num, den := w[i], sum
		if equal {
			num, den = 1, int64(n)
		}
		l := new(big.Int).Mul(big.NewInt(counts[i]), big.NewInt(den))
		r := new(big.Int).Mul(big.NewInt(num), big.NewInt(N))
		if l.Cmp(r) != 0 {
			return vk.Bad("weights=%v: item %d chosen for %d of %d values of the random source, want probability %d/%d", w, i, counts[i], N, num, den)
		}
	}
	return res
}

func TestVerifC38Random(t *testing.T) {
	vk.Check(t, vk.Unit[vfC38RandPlan]{
		ID: "C38", Name: "random",
		Rule: "1..12 non-negative weights from 7 shapes (small with zeros, all equal incl. all zero, equal-but-one, skewed, uniform, 0/1, 2^k±1). Enumerate mode (80%): Σw bounded, EVERY value 0..N-1 of the overridden randInt64n is fed and counts[i]/N == w_i/Σw is checked in exact integer arithmetic. Boundary mode (20%): weights up to 2^62, all interval boundaries ±1 plus probes vs a linear-scan reference. non-trivial = at least one zero weight among unequal weights",
		Gen:  vfC38GenRand, Run: vfC38RunRand,
	})
}

// ------------------------------------------------------------------- EDF --

type vfC38EDFPlan struct {
	Weights []int64 `json:"weights"`
	Rounds  int     `json:"rounds"`
}

func vfC38GenEDF(rt *rapid.T) vfC38EDFPlan {
	n := rapid.IntRange(1, 10).Draw(rt, "n")
	budget := int64(vk.Pick(6000, 30000))
	if rapid.Bool().Draw(rt, "smallbudget") {
		budget = 100
	}
	w := vfC38GenWeights(rt, n, budget)
	for i := range w {
		if w[i] < 1 {
			w[i] = 1
		}
	}
	return vfC38EDFPlan{Weights: w, Rounds: rapid.IntRange(1, 3).Draw(rt, "rounds")}
}

func vfC38RunEDF(_ *testing.T, p vfC38EDFPlan) vk.Result {
	w := p.Weights
	n := len(w)
	if n == 0 || p.Rounds < 1 {
		return vk.Result{Discard: true}
	}
	var sum int64
	distinct := false
	for _, x := range w {
		if x < 1 {
			return vk.Result{Discard: true}
		}
		sum += x
		if x != w[0] {
			distinct = true
		}
	}
	e := NewEDF()
	for i, x := range w {
		e.Add(i, x)
	}
	res := vk.Result{NonTrivial: distinct && n >= 2}
	if distinct {
		res.Classes = append(res.Classes, "distinct_weights")
	} else {
		res.Classes = append(res.Classes, "equal_weights")
	}
	counts := make([]int64, n)
	total := sum * int64(p.Rounds)
	fsum := float64(sum)
	for m := int64(1); m <= total; m++ {
		it, ok := e.Next().(int)
		if !ok || it < 0 || it >= n {
			return vk.Bad("weights=%v: Next returned a foreign item", w)
		}
		counts[it]++
		// Prefix bound implied by EDF with deadlines k/w_i:
		// -1 <= count_i - m*w_i/Σw <= n*w_i/Σw  (checked for the picked item
		// and, at window ends, exactly for all).
		exp := float64(m) * float64(w[it]) / fsum
		if d := float64(counts[it]) - exp; d < -1-1e-6 || d > float64(n)*float64(w[it])/fsum+1e-6 {
			return vk.Bad("weights=%v: after %d picks item %d (weight %d) was chosen %d times, proportional share %.4f", w, m, it, w[it], counts[it], exp)
		}
		if m%sum == 0 {
			k := m / sum
			for i := range w {
				if counts[i] != k*w[i] {
					return vk.Bad("weights=%v: after %d full windows of Σw=%d picks item %d (weight %d) was chosen %d times, want %d", w, k, sum, i, w[i], counts[i], k*w[i])
				}
			}
		}
	}
	res.Steps = int(total)
	return res
}

func TestVerifC38EDF(t *testing.T) {
	vk.Check(t, vk.Unit[vfC38EDFPlan]{
		ID: "C38", Name: "edf",
		Rule: "1..10 positive integer weights (same 7 shapes, zeros raised to 1), 1..3 full windows of Σw picks from NewEDF: after each full window count_i == k*w_i exactly; at every prefix the picked item's count is within [-1, n*w_i/Σw] of its proportional share. non-trivial = at least two distinct weights",
		Gen:  vfC38GenEDF, Run: vfC38RunEDF,
	})
}
