package wrr

// C46 (weighted-cluster part): the random WRR used by the xDS config selector
// picks each item in proportion to its weight. The random source
// (randInt64n) is enumerated over its whole range, so the proportion is exact:
// item i must be returned for exactly weight_i of the sum(weights) draws.

import (
	"fmt"
	"testing"

	"google.golang.org/grpc/internal/verifkit/vk"
	"pgregory.net/rapid"
)

type vfC46WRRPlan struct {
	Weights []int64 `json:"weights"` // >= 1 each (the RDS parser never yields 0)
}

func vfC46GenWRR(rt *rapid.T) vfC46WRRPlan {
	n := rapid.IntRange(1, 6).Draw(rt, "n")
	p := vfC46WRRPlan{}
	equal := rapid.IntRange(0, 4).Draw(rt, "equal") == 0
	w0 := rapid.Int64Range(1, 40).Draw(rt, "w0")
	for i := 0; i < n; i++ {
		if equal {
			p.Weights = append(p.Weights, w0)
			continue
		}
		switch rapid.IntRange(0, 3).Draw(rt, "wk") {
		case 0:
			p.Weights = append(p.Weights, 1)
		case 1:
			p.Weights = append(p.Weights, rapid.Int64Range(1, 2000).Draw(rt, "w"))
		default:
			p.Weights = append(p.Weights, rapid.Int64Range(1, 40).Draw(rt, "w"))
		}
	}
	return p
}

func vfC46RunWRR(_ *testing.T, p vfC46WRRPlan) vk.Result {
	var sum int64
	for _, w := range p.Weights {
		if w < 1 || w > 1<<20 {
			return vk.Result{Discard: true}
		}
		sum += w
	}
	if len(p.Weights) == 0 || sum > 1<<22 {
		return vk.Result{Discard: true}
	}
	w := NewRandom()
	for i, wt := range p.Weights {
		w.Add(i, wt)
	}
	old := randInt64n
	defer func() { randInt64n = old }()
	// The WRR may draw from [0,sum) or, for equal weights, from [0,n); the
	// proportion is asserted over the whole range it asks for, whatever it is.
	var bound, cur int64
	randInt64n = func(n int64) int64 {
		bound = n
		return cur % n
	}
	counts := make([]int64, len(p.Weights))
	item, ok := w.Next().(int)
	if !ok || bound <= 0 {
		return vk.Bad("Next returned %v (bound %d)", item, bound)
	}
	total := bound
	for cur = 0; cur < total; cur++ {
		it, ok := w.Next().(int)
		if !ok || it < 0 || it >= len(counts) {
			return vk.Bad("Next returned a foreign item for draw %d", cur)
		}
		if bound != total {
			return vk.Bad("random bound changed from %d to %d", total, bound)
		}
		counts[it]++
	}
	res := vk.Result{Steps: int(total), NonTrivial: len(p.Weights) >= 2}
	allEq := true
	for _, wt := range p.Weights {
		allEq = allEq && wt == p.Weights[0]
	}
	if allEq {
		res.Classes = append(res.Classes, "equal_weights")
	} else {
		res.Classes = append(res.Classes, "unequal_weights")
	}
	res.Classes = append(res.Classes, fmt.Sprintf("items_%d", len(p.Weights)))
	// counts[i]/total == weight[i]/sum, exactly (integers: cross-multiplied)
	for i, wt := range p.Weights {
		if counts[i]*sum != wt*total {
			return vk.Bad("weights %v: item %d returned for %d of %d draws, want the share %d/%d", p.Weights, i, counts[i], total, wt, sum)
		}
	}
	return res
}

func TestVerifC46WRR(t *testing.T) {
	vk.Check(t, vk.Unit[vfC46WRRPlan]{
		ID: "C46", Name: "wrr",
		Rule: "1-6 items with weights >= 1 (20% all equal, else mixtures of 1, 1..40, 1..2000); the random source of the production random WRR is enumerated over its full range and the per-item counts must be exactly proportional to the weights. non-trivial = >= 2 items",
		Gen:  vfC46GenWRR, Run: vfC46RunWRR,
	})
}
