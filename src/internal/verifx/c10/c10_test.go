package c10_test

// C10: a handler's status reaches the client unchanged (code, message with
// invalid UTF-8 replaced by U+FFFD, details); nil <=> OK.
//
// Layer L3(c): real grpc.ClientConn + real grpc.Server over bufconn inside a
// synctest bubble. The oracle is a reference computed from the plan alone.

import (
	"bytes"
	"context"
	"fmt"
	"io"
	"testing"
	"time"
	"unicode/utf8"

	"golang.org/x/net/http2"
	spb "google.golang.org/genproto/googleapis/rpc/status"
	"google.golang.org/grpc"
	"google.golang.org/grpc/codes"
	"google.golang.org/grpc/internal/verifkit/e2e"
	"google.golang.org/grpc/internal/verifkit/vk"
	"google.golang.org/grpc/metadata"
	"google.golang.org/grpc/status"
	"google.golang.org/protobuf/types/known/anypb"
	"pgregory.net/rapid"
)

type detail struct {
	TypeURL string `json:"type_url"`
	Value   []byte `json:"value"`
}

const (
	shapeUnary = iota
	shapeServerStream
	shapeBidi
	shapeClientStream
	numShapes
)

type rpcPlan struct {
	Code    uint32   `json:"code"`
	Msg     []byte   `json:"msg"`
	Details []detail `json:"details"`
	Shape   int      `json:"shape"`
	// NResp: response messages the handler sends before returning (streaming
	// shapes; unary sends 1 iff the code is OK).
	NResp int `json:"nresp"`
	// HeaderMode: 0 nothing (trailers-only when no message is sent), 1 SetHeader, 2 SendHeader.
	HeaderMode int `json:"header_mode"`
	// ReadReq: streaming handler reads the request before answering.
	ReadReq bool `json:"read_req"`
	// ViaProto: build the error with status.ErrorProto instead of status.New(...).Err().
	ViaProto bool `json:"via_proto"`
}

type plan struct {
	RPCs []rpcPlan `json:"rpcs"`
	// MaxHeaderList: 0 = default, else grpc.WithMaxHeaderListSize on the client.
	MaxHeaderList uint32 `json:"max_header_list"`
}

// ---------------------------------------------------------------- generator

var specialCodes = []uint32{17, 18, 99, 255, 256, 1 << 16, 1<<31 - 1, 1 << 31, 1<<32 - 1, 1<<32 - 2}

func genCode(rt *rapid.T) uint32 {
	switch rapid.IntRange(0, 9).Draw(rt, "code_kind") {
	case 0:
		return 0
	case 1, 2, 3, 4, 5:
		return uint32(rapid.IntRange(1, 16).Draw(rt, "code"))
	case 6, 7:
		return rapid.SampledFrom(specialCodes).Draw(rt, "code")
	case 8:
		return uint32(rapid.IntRange(0, 16).Draw(rt, "code"))
	default:
		return rapid.Uint32().Draw(rt, "code")
	}
}

var fragments = [][]byte{
	[]byte("%"), []byte("%%"), []byte("%4"), []byte("%41"), []byte("%zz"), []byte("%E2%82"), []byte("\xff"), []byte("\xc0\xaf"),
	[]byte("\xe2\x82"), []byte("\xe2\x82\xac"), []byte("\xef\xbf\xbd"), []byte("\xf0\x9f\x98\x80"), []byte("\xed\xa0\x80"),
	[]byte("\x00"), []byte("\n"), []byte("\r\n"), []byte("\t"), []byte("\x7f"), []byte(" "), []byte("~"), []byte("é"), []byte("日本語"),
	[]byte("grpc-status: 0"), []byte("a"), []byte("Z"), []byte("\x80"), []byte("\xf4\x90\x80\x80"), []byte("%FF%FD"), []byte("25"),
}

func genMsg(rt *rapid.T) []byte {
	switch rapid.IntRange(0, 6).Draw(rt, "msg_kind") {
	case 0:
		return nil
	case 1: // printable ASCII
		n := rapid.IntRange(1, 40).Draw(rt, "n")
		b := make([]byte, n)
		for i := range b {
			b[i] = byte(rapid.IntRange(0x20, 0x7e).Draw(rt, "c"))
		}
		return b
	case 2, 3: // fragments glued together
		n := rapid.IntRange(1, 8).Draw(rt, "n")
		var b []byte
		for i := 0; i < n; i++ {
			b = append(b, rapid.SampledFrom(fragments).Draw(rt, "frag")...)
		}
		return b
	case 4: // arbitrary bytes
		return rapid.SliceOfN(rapid.Byte(), 1, 48).Draw(rt, "bytes")
	case 5: // valid unicode string
		return []byte(rapid.StringN(1, 24, 96).Draw(rt, "str"))
	default: // long run of one fragment
		f := rapid.SampledFrom(fragments).Draw(rt, "frag")
		n := rapid.IntRange(50, 700).Draw(rt, "reps")
		return bytes.Repeat(f, n)
	}
}

func genDetails(rt *rapid.T) []detail {
	var n int
	switch rapid.IntRange(0, 4).Draw(rt, "det_kind") {
	case 0, 1:
		return nil
	case 2:
		n = 1
	case 3:
		n = rapid.IntRange(1, 4).Draw(rt, "ndet")
	default:
		n = rapid.IntRange(1, 12).Draw(rt, "ndet")
	}
	out := make([]detail, n)
	for i := range out {
		switch rapid.IntRange(0, 3).Draw(rt, "url_kind") {
		case 0:
			out[i].TypeURL = ""
		case 1:
			out[i].TypeURL = "type.googleapis.com/google.rpc.ErrorInfo"
		case 2:
			out[i].TypeURL = "type.googleapis.com/" + rapid.StringMatching(`[a-z]{1,8}(\.[A-Za-z0-9_]{1,8}){0,3}`).Draw(rt, "url")
		default:
			out[i].TypeURL = rapid.StringN(0, 16, 48).Draw(rt, "url") // any valid UTF-8 (proto3 string)
		}
		switch rapid.IntRange(0, 2).Draw(rt, "val_kind") {
		case 0:
			out[i].Value = nil
		case 1:
			out[i].Value = rapid.SliceOfN(rapid.Byte(), 1, 32).Draw(rt, "val")
		default:
			out[i].Value = bytes.Repeat([]byte{byte(rapid.IntRange(0, 255).Draw(rt, "fill"))}, rapid.IntRange(100, 1500).Draw(rt, "vlen"))
		}
	}
	return out
}

func genRPC(rt *rapid.T) rpcPlan {
	r := rpcPlan{Code: genCode(rt), Msg: genMsg(rt), Details: genDetails(rt)}
	r.Shape = rapid.IntRange(0, numShapes-1).Draw(rt, "shape")
	r.HeaderMode = rapid.SampledFrom([]int{0, 0, 1, 2}).Draw(rt, "header_mode")
	r.ReadReq = rapid.IntRange(0, 3).Draw(rt, "read_req") > 0
	r.ViaProto = rapid.Bool().Draw(rt, "via_proto")
	switch r.Shape {
	case shapeUnary:
		r.ReadReq = true
		if r.Code == 0 {
			r.NResp = 1
		}
	case shapeClientStream:
		// exactly one response on success (anything else is a handler bug:
		// cardinality violation), zero or one before an error.
		if r.Code == 0 {
			r.NResp = 1
		} else {
			r.NResp = rapid.IntRange(0, 1).Draw(rt, "nresp")
		}
	default:
		r.NResp = rapid.SampledFrom([]int{0, 0, 1, 2, 3}).Draw(rt, "nresp")
	}
	return r
}

func genPlan(rt *rapid.T) plan {
	p := plan{}
	n := rapid.IntRange(1, 3).Draw(rt, "nrpcs")
	for i := 0; i < n; i++ {
		p.RPCs = append(p.RPCs, genRPC(rt))
	}
	if rapid.IntRange(0, 9).Draw(rt, "hl_kind") == 0 {
		p.MaxHeaderList = uint32(rapid.IntRange(200, 4000).Draw(rt, "max_header_list"))
	}
	return p
}

// ---------------------------------------------------------------- reference

// repairUTF8 is the reference for "invalid UTF-8 replaced by U+FFFD": every
// byte that does not start a valid encoding becomes one U+FFFD.
func repairUTF8(b []byte) string {
	var out []byte
	for len(b) > 0 {
		r, sz := utf8.DecodeRune(b)
		if r == utf8.RuneError && sz <= 1 {
			out = append(out, "\uFFFD"...)
			b = b[1:]
			continue
		}
		out = append(out, b[:sz]...)
		b = b[sz:]
	}
	return string(out)
}

func isASCIIPrintable(b []byte) bool {
	for _, c := range b {
		if c < 0x20 || c > 0x7e {
			return false
		}
	}
	return true
}

// handlerErr builds the error the handler returns for r.
func handlerErr(r rpcPlan) error {
	if len(r.Details) == 0 && !r.ViaProto {
		return status.New(codes.Code(r.Code), string(r.Msg)).Err()
	}
	sp := &spb.Status{Code: int32(r.Code), Message: string(r.Msg)}
	for _, d := range r.Details {
		sp.Details = append(sp.Details, &anypb.Any{TypeUrl: d.TypeURL, Value: d.Value})
	}
	return status.ErrorProto(sp)
}

// trailerSizeLowerBound is the HTTP/2 header-list size (RFC 7540 §6.5.2: name +
// value + 32 per field) of the status fields alone.
func trailerSizeLowerBound(r rpcPlan) int {
	n := len("grpc-status") + 1 + 32 + len("grpc-message") + len(r.Msg) + 32
	if len(r.Details) > 0 {
		d := 0
		for _, x := range r.Details {
			d += len(x.TypeURL) + len(x.Value) + 4
		}
		n += len("grpc-status-details-bin") + d*4/3 + 32
	}
	return n
}

// trailerSizeUpperBound bounds the same from above (message fully
// percent-encoded, details proto overhead, :status/content-type of a
// trailers-only response).
func trailerSizeUpperBound(r rpcPlan) int {
	n := 200 + 3*len(repairUTF8(r.Msg))
	if len(r.Details) > 0 {
		d := 16 + len(r.Msg)
		for _, x := range r.Details {
			d += len(x.TypeURL) + len(x.Value) + 16
		}
		n += 64 + d*4/3 + 4
	}
	return n
}

// ---------------------------------------------------------------- executor

const sigInvalidUTF8Details = "c10.invalid_utf8_message_drops_details"

func respPayload(i int) []byte { return []byte(fmt.Sprintf("resp-%d", i)) }

func run(t *testing.T, p plan) vk.Result {
	var res vk.Result
	msg := vk.Bubble(t, func(t *testing.T) { res = runInBubble(p) })
	if msg != "" && res.Violation == "" {
		return vk.Bad("harness/bubble: %s", msg).With(res.Classes...)
	}
	return res
}

func runInBubble(p plan) vk.Result {
	var cur rpcPlan // set before each (sequential) RPC
	apply := func(ctx context.Context, stream grpc.ServerStream) {
		md := metadata.Pairs("x-verif", "h")
		switch cur.HeaderMode {
		case 1:
			if stream != nil {
				_ = stream.SetHeader(md)
			} else {
				_ = grpc.SetHeader(ctx, md)
			}
		case 2:
			if stream != nil {
				_ = stream.SendHeader(md)
			} else {
				_ = grpc.SendHeader(ctx, md)
			}
		}
	}
	tap := &e2e.Tap{}
	opts := e2e.Options{
		Tap: tap,
		Unary: func(ctx context.Context, req []byte) ([]byte, error) {
			apply(ctx, nil)
			if err := handlerErr(cur); err != nil {
				return nil, err
			}
			return respPayload(0), nil
		},
		Stream: func(stream grpc.ServerStream) error {
			if cur.ReadReq {
				if _, err := e2e.RecvBytes(stream); err != nil {
					return err
				}
			}
			apply(stream.Context(), stream)
			for i := 0; i < cur.NResp; i++ {
				if err := e2e.SendBytes(stream, respPayload(i)); err != nil {
					return err
				}
			}
			return handlerErr(cur)
		},
	}
	if p.MaxHeaderList != 0 {
		opts.DialOpts = append(opts.DialOpts, grpc.WithMaxHeaderListSize(p.MaxHeaderList))
	}
	pair, err := e2e.Start(opts)
	if err != nil {
		return vk.Bad("harness: start: %v", err)
	}
	defer pair.Close()

	out := vk.Result{}
	for i, r := range p.RPCs {
		cur = r
		got, gotErr := doRPC(pair, r)
		v := judge(p, i, r, got, gotErr)
		out.Classes = append(out.Classes, v.Classes...)
		out.NonTrivial = out.NonTrivial || v.NonTrivial
		out.Steps++
		if v.Violation != "" {
			if out.Violation == "" || (out.Sig != "" && v.Sig == "") {
				out.Violation, out.Sig = fmt.Sprintf("rpc %d: %s", i, v.Violation), v.Sig
			}
		}
	}
	// wire classes: how many RPCs were answered trailers-only (measurement only)
	_, s2c := tap.Bytes(0)
	if frames, err := e2e.DecodeWire(s2c, false); err == nil {
		for _, id := range e2e.StreamIDs(frames) {
			hs := e2e.HeadersOf(frames, id)
			if len(hs) == 1 && hs[0].EndStream {
				out.Classes = append(out.Classes, "wire_trailers_only")
			} else if len(hs) == 2 {
				out.Classes = append(out.Classes, "wire_headers_and_trailers")
			}
			for _, f := range frames {
				if f.Type == http2.FrameRSTStream && f.StreamID == id && f.ErrCode != http2.ErrCodeNo {
					out.Classes = append(out.Classes, "wire_rst_error")
				}
			}
		}
	}
	return out
}

// doRPC runs one RPC and returns the response messages and the final error
// (nil for success; io.EOF from a stream is mapped to nil).
func doRPC(pair *e2e.Pair, r rpcPlan) (msgs [][]byte, err error) {
	ctx, cancel := context.WithTimeout(context.Background(), 30*time.Second)
	defer cancel()
	switch r.Shape {
	case shapeUnary:
		resp, err := pair.Unary(ctx, e2e.UnaryMethod, []byte("req"))
		if err == nil {
			msgs = append(msgs, resp)
		}
		return msgs, err
	}
	method, cs, ss := e2e.SStreamMethod, false, true
	switch r.Shape {
	case shapeBidi:
		method, cs, ss = e2e.StreamMethod, true, true
	case shapeClientStream:
		method, cs, ss = e2e.CStreamMethod, true, false
	}
	st, err := pair.NewStream(ctx, method, cs, ss)
	if err != nil {
		return nil, err
	}
	if err := e2e.SendBytes(st, []byte("req")); err != nil && err != io.EOF {
		return nil, err
	}
	_ = st.CloseSend()
	for {
		b, err := e2e.RecvBytes(st)
		if err == io.EOF {
			return msgs, nil
		}
		if err != nil {
			return msgs, err
		}
		msgs = append(msgs, b)
		if !ss {
			// client-streaming: the wrapper's RecvMsg already waited for the status.
			return msgs, nil
		}
	}
}

func judge(p plan, idx int, r rpcPlan, msgs [][]byte, gotErr error) vk.Result {
	res := vk.Result{}
	cls := func(c string) { res.Classes = append(res.Classes, c) }
	cls(fmt.Sprintf("shape_%d", r.Shape))
	validUTF8 := utf8.Valid(r.Msg)
	switch {
	case r.Code == 0:
		cls("code_ok")
	case r.Code <= 16:
		cls("code_1_16")
	case r.Code < 1<<31:
		cls("code_17_2p31")
	default:
		cls("code_ge_2p31")
	}
	if !validUTF8 {
		cls("msg_invalid_utf8")
	} else if !isASCIIPrintable(r.Msg) {
		cls("msg_valid_nonascii")
	}
	if bytes.IndexByte(r.Msg, '%') >= 0 {
		cls("msg_percent")
	}
	if len(r.Details) > 0 {
		cls("details")
	}
	if r.NResp == 0 && r.HeaderMode == 0 {
		cls("plan_trailers_only")
	}
	res.NonTrivial = r.Code != 0 && (!isASCIIPrintable(r.Msg) || len(r.Details) > 0)

	bad := func(f string, a ...any) vk.Result {
		v := vk.Bad(f, a...)
		v.Classes = res.Classes
		return v
	}

	// nil <=> OK
	if r.Code == 0 {
		if gotErr != nil {
			return bad("handler returned OK but the client got error %v", gotErr)
		}
		if len(msgs) != r.NResp {
			return bad("OK rpc: client received %d messages, handler sent %d", len(msgs), r.NResp)
		}
		return res
	}
	if gotErr == nil {
		return bad("handler returned code %d but the client got a nil error", r.Code)
	}
	st, ok := status.FromError(gotErr)
	if !ok {
		return bad("client error %T %v is not a status error", gotErr, gotErr)
	}
	if st.Code() == codes.OK {
		return bad("client error carries code OK: %v", gotErr)
	}

	// header-list-size limited runs: only "never nil" unless clearly under the limit.
	if p.MaxHeaderList != 0 {
		if trailerSizeLowerBound(r) > int(p.MaxHeaderList) {
			cls("over_header_limit")
			return res
		}
		if trailerSizeUpperBound(r)+64 > int(p.MaxHeaderList) {
			cls("near_header_limit")
			return res
		}
		cls("under_header_limit")
	}

	wantMsg := repairUTF8(r.Msg)
	var problems []string
	if uint32(st.Code()) != r.Code {
		problems = append(problems, fmt.Sprintf("code: got %d want %d (client message %q)", uint32(st.Code()), r.Code, st.Message()))
	}
	if st.Message() != wantMsg && uint32(st.Code()) == r.Code {
		problems = append(problems, fmt.Sprintf("message: got %q want %q", st.Message(), wantMsg))
	}
	gotDet := st.Proto().GetDetails()
	detOK := len(gotDet) == len(r.Details)
	if detOK {
		for i, d := range r.Details {
			if gotDet[i].GetTypeUrl() != d.TypeURL || !bytes.Equal(gotDet[i].GetValue(), d.Value) {
				detOK = false
			}
		}
	}
	if !detOK && uint32(st.Code()) == r.Code {
		problems = append(problems, fmt.Sprintf("details: got %d details %v, want %d", len(gotDet), gotDet, len(r.Details)))
	}
	if len(problems) == 0 {
		// messages sent before the status must all have arrived, in order
		// (Invoke and non-server-streaming RecvMsg return only the error, by API design).
		want := r.NResp
		if r.Shape == shapeUnary || r.Shape == shapeClientStream {
			want = 0
		}
		if len(msgs) != want {
			return bad("client received %d messages before the status, handler sent %d", len(msgs), r.NResp)
		}
		for i, m := range msgs {
			if !bytes.Equal(m, respPayload(i)) {
				return bad("response %d corrupted: %q", i, m)
			}
		}
		return res
	}
	v := bad("status changed in transit: %v", problems)
	// known-finding signatures: precise predicates, everything else stays a plain violation.
	// (codes >= 2^31 arriving as Unknown was fixed in /repo f2150f1: a recurrence is a plain violation.)
	switch {
	case !validUTF8 && len(r.Details) > 0 && uint32(st.Code()) == r.Code &&
		st.Message() == wantMsg && len(gotDet) == 0 && len(problems) == 1:
		v.Sig = sigInvalidUTF8Details
	}
	return v
}

func TestVerifC10(t *testing.T) {
	vk.Check(t, vk.Unit[plan]{
		ID: "C10", Name: "status",
		Rule: "1-3 sequential RPCs per client/server pair; each: code from {0, 1..16, 17, 99, 2^31-1, 2^31, 2^32-1, any uint32}, message from 7 generators (ASCII, %-fragments, invalid UTF-8 fragments, raw bytes, unicode, long runs), 0-12 anypb details, shape unary/server-stream/bidi/client-stream, 0-3 responses before the status, header none/SetHeader/SendHeader (none+0 responses = trailers-only), 10% with a small client MaxHeaderListSize. non-trivial = some RPC with non-OK code and (message not printable ASCII or >= 1 detail)",
		Gen:  genPlan, Run: run,
	})
}
