package c10_test

// C10, unit "sequence": SEQUENCES of 2-8 RPCs on ONE ClientConn / connection,
// each with its own generated status, whose sizes (message, details, response
// header metadata, trailer metadata) deliberately cover the whole legal range of
// header-block sizes: tiny, ~4 KiB, around k*16 KiB (one HTTP/2 frame ->
// CONTINUATION frames), around 64 KiB, 100-400 KiB and (thorough) a few MiB,
// far below the client's default max header list size (16 MiB).
//
// The per-RPC oracle is the one of unit "status" (judge): same code, message ==
// UTF-8 repair, details equal, nil <=> OK; it is evaluated for every RPC of the
// sequence in order, so state that survives on the connection from one status to
// the next (the server's HPACK encoder / header buffer, the client's HPACK
// decoder, anything cached per connection) is exercised.
//
// Large byte strings are kept compact in the plan (blob = head + frag*reps +
// tail + fill*n), so plans stay small, serialisable and shrinkable. The
// generator aims at exact HPACK block lengths (k*16384, +-1) with a *model* of
// what the server will put on the wire (its own hpack.Encoder fed with the
// header fields the plan implies). The model is used for aiming and for class
// labels only -- never for the verdict; the class model_block_len_exact /
// model_block_len_miss measures how well it aims (compared with the block
// lengths scanned from the captured server->client bytes).

import (
	"bytes"
	"context"
	"encoding/base64"
	"encoding/binary"
	"fmt"
	"strconv"
	"testing"
	"unicode/utf8"

	"golang.org/x/net/http2/hpack"
	spb "google.golang.org/genproto/googleapis/rpc/status"
	"google.golang.org/grpc"
	"google.golang.org/grpc/internal/verifkit/e2e"
	"google.golang.org/grpc/internal/verifkit/vk"
	"google.golang.org/grpc/metadata"
	"google.golang.org/protobuf/proto"
	"google.golang.org/protobuf/types/known/anypb"
	"pgregory.net/rapid"
)

// ---------------------------------------------------------------- plan

// blob is a compact big byte string: Head + Frag*Reps + Tail + Fill*FillN.
type blob struct {
	Head  []byte `json:"head,omitempty"`
	Frag  []byte `json:"frag,omitempty"`
	Reps  int    `json:"reps,omitempty"`
	Tail  []byte `json:"tail,omitempty"`
	Fill  byte   `json:"fill,omitempty"`
	FillN int    `json:"fill_n,omitempty"`
}

func (b blob) size() int { return len(b.Head) + len(b.Frag)*b.Reps + len(b.Tail) + b.FillN }

func (b blob) bytes() []byte {
	n := b.size()
	if n == 0 {
		return nil
	}
	out := make([]byte, 0, n)
	out = append(out, b.Head...)
	for i := 0; i < b.Reps; i++ {
		out = append(out, b.Frag...)
	}
	out = append(out, b.Tail...)
	for i := 0; i < b.FillN; i++ {
		out = append(out, b.Fill)
	}
	return out
}

func (b blob) clone() blob {
	b.Head = append([]byte(nil), b.Head...)
	b.Frag = append([]byte(nil), b.Frag...)
	b.Tail = append([]byte(nil), b.Tail...)
	return b
}

type seqDetail struct {
	TypeURL string `json:"type_url"`
	Value   blob   `json:"value"`
}

type seqRPC struct {
	Code       uint32      `json:"code"`
	Msg        blob        `json:"msg"`
	Details    []seqDetail `json:"details,omitempty"`
	Shape      int         `json:"shape"`
	NResp      int         `json:"nresp"`
	HeaderMode int         `json:"header_mode"`
	ReadReq    bool        `json:"read_req"`
	ViaProto   bool        `json:"via_proto"`
	// Response header metadata (HeaderMode != 0): one key ("x-verif", or
	// "x-verif-bin" when HdrBin) with the values "h" and, when HdrVal != nil,
	// HdrVal. One key only: the server iterates the MD map, one key keeps the
	// wire order (and so the model) deterministic.
	HdrBin bool  `json:"hdr_bin,omitempty"`
	HdrVal *blob `json:"hdr_val,omitempty"`
	// Trailer metadata (SetTrailer), travels in the same block as the status:
	// key "x-trl" / "x-trl-bin" with the single value TrlVal. nil = no SetTrailer.
	TrlBin bool  `json:"trl_bin,omitempty"`
	TrlVal *blob `json:"trl_val,omitempty"`

	// Generator annotations (labels and model predictions; never used by the oracle).
	Class    string `json:"class"`
	Loc      string `json:"loc,omitempty"`
	Target   int    `json:"target,omitempty"`
	Derived  string `json:"derived,omitempty"`
	ModelHdr int    `json:"model_hdr"` // predicted HPACK length of the response-header block (0 = none)
	ModelTrl int    `json:"model_trl"` // predicted HPACK length of the trailer block
}

type seqPlan struct {
	RPCs          []seqRPC `json:"rpcs"`
	MaxHeaderList uint32   `json:"max_header_list"`
}

// rpc materialises the RPC for the shared executor / oracle of unit "status".
func (r seqRPC) rpc() rpcPlan {
	out := rpcPlan{Code: r.Code, Msg: r.Msg.bytes(), Shape: r.Shape, NResp: r.NResp, HeaderMode: r.HeaderMode,
		ReadReq: r.ReadReq, ViaProto: r.ViaProto}
	for _, d := range r.Details {
		out.Details = append(out.Details, detail{TypeURL: d.TypeURL, Value: d.Value.bytes()})
	}
	return out
}

func (r seqRPC) hdrKV() (string, []string) {
	key := "x-verif"
	if r.HdrBin {
		key = "x-verif-bin"
	}
	vals := []string{"h"}
	if r.HdrVal != nil {
		vals = append(vals, string(r.HdrVal.bytes()))
	}
	return key, vals
}

func (r seqRPC) trlKV() (string, []string) {
	if r.TrlVal == nil {
		return "", nil
	}
	key := "x-trl"
	if r.TrlBin {
		key = "x-trl-bin"
	}
	return key, []string{string(r.TrlVal.bytes())}
}

// ---------------------------------------------------------------- wire model (aiming + labels only)

// modelGrpcMessage is the generator's idea of the grpc-message value: printable
// ASCII except '%' verbatim, every other byte of a valid rune as %XX, every
// byte that does not start a valid rune as %EF%BF%BD.
func modelGrpcMessage(msg []byte) string {
	const hex = "0123456789ABCDEF"
	out := make([]byte, 0, len(msg)+16)
	for len(msg) > 0 {
		c := msg[0]
		if c >= 0x20 && c <= 0x7e && c != '%' {
			out = append(out, c)
			msg = msg[1:]
			continue
		}
		r, sz := utf8.DecodeRune(msg)
		if r == utf8.RuneError && sz <= 1 {
			out = append(out, "%EF%BF%BD"...)
			msg = msg[1:]
			continue
		}
		for _, b := range msg[:sz] {
			out = append(out, '%', hex[b>>4], hex[b&15])
		}
		msg = msg[sz:]
	}
	return string(out)
}

const modelContentType = "application/grpc+" + e2e.CodecName

// serverBlocks lists the header fields the plan implies for the response-header
// block (nil if the response is trailers-only) and for the trailer block.
func serverBlocks(r seqRPC) (hdr, trl []hpack.HeaderField) {
	pre := []hpack.HeaderField{{Name: ":status", Value: "200"}, {Name: "content-type", Value: modelContentType}}
	encMD := func(bin bool, v string) string {
		if bin {
			return base64.RawStdEncoding.EncodeToString([]byte(v))
		}
		return v
	}
	if r.HeaderMode != 0 || r.NResp > 0 {
		hdr = pre
		if r.HeaderMode != 0 {
			k, vals := r.hdrKV()
			for _, v := range vals {
				hdr = append(hdr, hpack.HeaderField{Name: k, Value: encMD(r.HdrBin, v)})
			}
		}
	} else {
		trl = pre
	}
	trl = append(trl, hpack.HeaderField{Name: "grpc-status", Value: strconv.FormatUint(uint64(r.Code), 10)})
	if r.Code == 0 {
		trl = append(trl, hpack.HeaderField{Name: "grpc-message", Value: ""})
	} else {
		msg := r.Msg.bytes()
		trl = append(trl, hpack.HeaderField{Name: "grpc-message", Value: modelGrpcMessage(msg)})
		if len(r.Details) > 0 {
			sp := &spb.Status{Code: int32(r.Code), Message: string(msg)}
			for _, d := range r.Details {
				sp.Details = append(sp.Details, &anypb.Any{TypeUrl: d.TypeURL, Value: d.Value.bytes()})
			}
			if b, err := proto.Marshal(sp); err == nil {
				trl = append(trl, hpack.HeaderField{Name: "grpc-status-details-bin", Value: base64.RawStdEncoding.EncodeToString(b)})
			}
		}
	}
	if k, vals := r.trlKV(); k != "" {
		for _, v := range vals {
			trl = append(trl, hpack.HeaderField{Name: k, Value: encMD(r.TrlBin, v)})
		}
	}
	return hdr, trl
}

// wireModel replays the header fields of the RPCs so far through an own
// hpack.Encoder to predict block lengths. Fields larger than the dynamic table
// never enter it (and evict nothing), so only the small ones are remembered.
type wireModel struct{ hist []hpack.HeaderField }

const hpackTableSize = 4096

func (m *wireModel) lensOf(hdr, trl []hpack.HeaderField) (hdrLen, trlLen int) {
	var buf bytes.Buffer
	enc := hpack.NewEncoder(&buf)
	for _, f := range m.hist {
		_ = enc.WriteField(f)
	}
	buf.Reset()
	for _, f := range hdr {
		_ = enc.WriteField(f)
	}
	hdrLen = buf.Len()
	buf.Reset()
	for _, f := range trl {
		_ = enc.WriteField(f)
	}
	return hdrLen, buf.Len()
}

func (m *wireModel) lens(r seqRPC) (hdrLen, trlLen int) {
	hdr, trl := serverBlocks(r)
	return m.lensOf(hdr, trl)
}

// lensAndCommit predicts the block lengths of r and appends r to the history.
func (m *wireModel) lensAndCommit(r seqRPC) (hdrLen, trlLen int) {
	hdr, trl := serverBlocks(r)
	hdrLen, trlLen = m.lensOf(hdr, trl)
	for _, fs := range [][]hpack.HeaderField{hdr, trl} {
		for _, f := range fs {
			if f.Size() <= hpackTableSize {
				m.hist = append(m.hist, f)
			}
		}
	}
	return hdrLen, trlLen
}

// tune sets the coarse knob (and, when exact, the fine knob) so that eval()
// becomes T (or as close below/around it as the knobs allow). Returns the length reached.
func tune(T int, exact bool, eval func() int, coarse, fine func(int)) int {
	coarse(0)
	fine(0)
	L := eval()
	if L >= T {
		return L
	}
	L0 := L
	coarse(32)
	per := float64(eval()-L0) / 32
	if per <= 0 {
		coarse(0)
		return L0
	}
	n := int(float64(T-L0) / per)
	for it := 0; it < 6; it++ {
		if n < 0 {
			n = 0
		}
		coarse(n)
		L = eval()
		if L <= T && float64(T-L) < per+1 {
			break
		}
		d := int(float64(T-L) / per)
		if L > T {
			d--
		}
		if d == 0 {
			break
		}
		n += d
	}
	for k := 0; k < 8 && L > T && n > 0; k++ {
		n--
		coarse(n)
		L = eval()
	}
	if !exact || L >= T {
		return L
	}
	base := L
	fine(16)
	perF := float64(eval()-base) / 16
	if perF <= 0 {
		fine(0)
		return base
	}
	f := int(float64(T-base) / perF)
	seen := map[int]int{0: base}
	bestF, bestL := 0, base
	for it := 0; it < 10; it++ {
		if f < 0 {
			f = 0
		}
		if _, dup := seen[f]; dup {
			// oscillation: look for an unvisited neighbour
			found := false
			for d := 1; d <= 3 && !found; d++ {
				for _, c := range []int{f + d, f - d} {
					if _, s := seen[c]; !s && c >= 0 {
						f, found = c, true
						break
					}
				}
			}
			if !found {
				break
			}
		}
		fine(f)
		L = eval()
		seen[f] = L
		if abs(L-T) < abs(bestL-T) {
			bestF, bestL = f, L
		}
		if L == T {
			return L
		}
		d := int(float64(T-L)/perF + 0.5)
		if T < L {
			d = -int(float64(L-T)/perF + 0.5)
		}
		if d == 0 {
			if T > L {
				d = 1
			} else {
				d = -1
			}
		}
		f += d
	}
	fine(bestF)
	return bestL
}

func abs(x int) int {
	if x < 0 {
		return -x
	}
	return x
}

// ---------------------------------------------------------------- generator

const (
	clsTiny = "tiny"
	cls4k   = "4k"
	cls16k  = "16k"  // around k*16384, k in 1..3
	cls64k  = "64k"  // around 65536 / k*16384, k in 4..6
	cls100k = "100k" // 100-400 KiB
	clsMiB  = "mib"  // 1-3 MiB (thorough)
)

const frameLen = 16384

// genTarget draws the aimed HPACK block length for a size class; exact = aim at
// that very number (a frame-size boundary).
func genTarget(rt *rapid.T, class string, mustExceed64k bool) (T int, exact bool) {
	near := func(k int) (int, bool) {
		switch rapid.IntRange(0, 9).Draw(rt, "boundary_kind") {
		case 0, 1, 2, 3:
			return k * frameLen, true
		case 4:
			return k*frameLen - 1, true
		case 5:
			return k*frameLen + 1, true
		case 6:
			return k*frameLen + rapid.IntRange(-9, 9).Draw(rt, "delta"), true
		default:
			return k*frameLen + rapid.IntRange(-3000, 3000).Draw(rt, "delta"), false
		}
	}
	switch class {
	case cls4k:
		return rapid.IntRange(2500, 7000).Draw(rt, "target"), false
	case cls16k:
		return near(rapid.IntRange(1, 3).Draw(rt, "k"))
	case cls64k:
		if mustExceed64k {
			if rapid.Bool().Draw(rt, "just_above") {
				return 4*frameLen + rapid.IntRange(1, 4000).Draw(rt, "delta"), false
			}
			return near(rapid.IntRange(5, 6).Draw(rt, "k"))
		}
		return near(rapid.IntRange(4, 6).Draw(rt, "k"))
	case cls100k:
		if rapid.IntRange(0, 2).Draw(rt, "snap") == 0 {
			return near(rapid.IntRange(7, 25).Draw(rt, "k"))
		}
		return rapid.IntRange(100<<10, 400<<10).Draw(rt, "target"), false
	case clsMiB:
		if rapid.IntRange(0, 2).Draw(rt, "snap") == 0 {
			return near(rapid.IntRange(64, 192).Draw(rt, "k"))
		}
		return rapid.IntRange(1<<20, 3<<20).Draw(rt, "target"), false
	}
	return 0, false
}

func genASCII(rt *rapid.T, lo, hi int, noPercent bool) []byte {
	n := rapid.IntRange(lo, hi).Draw(rt, "n")
	b := make([]byte, n)
	for i := range b {
		c := byte(rapid.IntRange(0x20, 0x7e).Draw(rt, "c"))
		if noPercent && c == '%' {
			c = '_'
		}
		b[i] = c
	}
	return b
}

// genPadFrag draws the repeated fragment of a pad.
func genPadFrag(rt *rapid.T, kind string) []byte {
	switch kind {
	case "msg":
		switch rapid.IntRange(0, 5).Draw(rt, "frag_kind") {
		case 0, 1:
			return genASCII(rt, 1, 24, false)
		case 2:
			return []byte("validation failed for item: value out of range; ")
		case 3:
			return append([]byte(nil), rapid.SampledFrom(fragments).Draw(rt, "frag")...)
		case 4:
			return []byte(rapid.StringN(1, 6, 24).Draw(rt, "str"))
		default:
			return rapid.SliceOfN(rapid.Byte(), 1, 8).Draw(rt, "bytes")
		}
	case "ascii":
		return genASCII(rt, 1, 24, false)
	default: // binary
		if rapid.Bool().Draw(rt, "single") {
			return []byte{rapid.Byte().Draw(rt, "b")}
		}
		return rapid.SliceOfN(rapid.Byte(), 1, 12).Draw(rt, "bytes")
	}
}

func normalise(r *seqRPC) {
	switch r.Shape {
	case shapeUnary:
		r.ReadReq = true
		r.NResp = 0
		if r.Code == 0 {
			r.NResp = 1
		}
	case shapeClientStream:
		if r.Code == 0 {
			r.NResp = 1
		} else if r.NResp > 1 {
			r.NResp = 1
		}
	}
}

func genSeqBase(rt *rapid.T) seqRPC {
	b := genRPC(rt) // the generator of unit "status" (small statuses)
	r := seqRPC{Code: b.Code, Msg: blob{Head: b.Msg}, Shape: b.Shape, NResp: b.NResp, HeaderMode: b.HeaderMode,
		ReadReq: b.ReadReq, ViaProto: b.ViaProto, Class: clsTiny}
	for _, d := range b.Details {
		r.Details = append(r.Details, seqDetail{TypeURL: d.TypeURL, Value: blob{Head: d.Value}})
	}
	if r.HeaderMode != 0 {
		r.HdrBin = rapid.IntRange(0, 3).Draw(rt, "hdr_bin") == 0
	}
	return r
}

func nonOKCode(rt *rapid.T) uint32 {
	for {
		if c := genCode(rt); c != 0 {
			return c
		}
	}
}

// applySize turns r into an RPC of the given size class by padding one location.
func applySize(rt *rapid.T, r *seqRPC, class string, mustExceed64k bool, m *wireModel, limited bool) {
	r.Class = class
	T, exact := genTarget(rt, class, mustExceed64k)
	r.Target = T
	locs := []string{"msg", "msg", "msg", "detail", "detail", "details_many", "hdr", "hdr", "trl"}
	if limited {
		// a small client MaxHeaderListSize: keep the existing (status-only) size bounds of judge valid
		locs = []string{"msg", "msg", "detail", "details_many"}
	}
	loc := rapid.SampledFrom(locs).Draw(rt, "loc")
	r.Loc = loc
	onHdr := false
	var coarse, fine func(int)
	switch loc {
	case "msg":
		if r.Code == 0 {
			r.Code = nonOKCode(rt)
		}
		r.Msg.Frag = genPadFrag(rt, "msg")
		r.Msg.Fill = rapid.SampledFrom([]byte("aeiot 012s")).Draw(rt, "fill")
		coarse = func(n int) { r.Msg.Reps = n }
		fine = func(n int) { r.Msg.FillN = n }
	case "detail", "details_many":
		if r.Code == 0 {
			r.Code = nonOKCode(rt)
		}
		if !utf8.Valid(r.Msg.bytes()) {
			// an invalid-UTF-8 message makes the server drop the details
			// (listed known finding): the pad would never reach the wire.
			r.Msg = blob{Head: []byte(repairUTF8(r.Msg.bytes()))}
		}
		nd := 1
		if loc == "details_many" {
			nd = rapid.IntRange(2, 40).Draw(rt, "npad_details")
		}
		first := len(r.Details)
		frag := genPadFrag(rt, "bin")
		for i := 0; i < nd; i++ {
			url := "type.googleapis.com/google.rpc.DebugInfo"
			if i%3 == 1 {
				url = "type.googleapis.com/verif.Pad" + strconv.Itoa(i)
			}
			r.Details = append(r.Details, seqDetail{TypeURL: url, Value: blob{Frag: frag}})
		}
		if rapid.Bool().Draw(rt, "pad_detail_first") && first > 0 {
			// move the padded details to the front
			r.Details = append(r.Details[first:], r.Details[:first]...)
			first = 0
		}
		pad := r.Details[first : first+nd]
		coarse = func(n int) {
			for i := range pad {
				pad[i].Value.Reps = n
			}
		}
		fine = func(n int) { pad[nd-1].Value.FillN = n } // Fill byte 0 ("A" in base64)
	case "hdr":
		if r.HeaderMode == 0 {
			r.HeaderMode = rapid.IntRange(1, 2).Draw(rt, "header_mode")
			r.HdrBin = rapid.IntRange(0, 3).Draw(rt, "hdr_bin") == 0
		}
		kind := "ascii"
		if r.HdrBin {
			kind = "bin"
		}
		v := &blob{Frag: genPadFrag(rt, kind), Fill: 'a'}
		if r.HdrBin {
			v.Fill = 0
		}
		r.HdrVal = v
		coarse = func(n int) { v.Reps = n }
		fine = func(n int) { v.FillN = n }
		onHdr = true
	case "trl":
		r.TrlBin = rapid.IntRange(0, 3).Draw(rt, "trl_bin") == 0
		kind := "ascii"
		if r.TrlBin {
			kind = "bin"
		}
		v := &blob{Frag: genPadFrag(rt, kind), Fill: 'e'}
		if r.TrlBin {
			v.Fill = 0
		}
		r.TrlVal = v
		coarse = func(n int) { v.Reps = n }
		fine = func(n int) { v.FillN = n }
	}
	normalise(r)
	eval := func() int {
		h, t := m.lens(*r)
		if onHdr {
			return h
		}
		return t
	}
	tune(T, exact, eval, coarse, fine)
}

// derive makes a status related to an earlier one of the sequence (state that
// leaks from one status to the next shows best on near-identical neighbours).
func derive(rt *rapid.T, src seqRPC) seqRPC {
	r := src
	r.Msg = src.Msg.clone()
	r.Details = nil
	for _, d := range src.Details {
		r.Details = append(r.Details, seqDetail{TypeURL: d.TypeURL, Value: d.Value.clone()})
	}
	if src.HdrVal != nil {
		v := src.HdrVal.clone()
		r.HdrVal = &v
	}
	if src.TrlVal != nil {
		v := src.TrlVal.clone()
		r.TrlVal = &v
	}
	// a fresh shape most of the time
	if rapid.IntRange(0, 2).Draw(rt, "new_shape") > 0 {
		r.Shape = rapid.IntRange(0, numShapes-1).Draw(rt, "shape")
		r.NResp = rapid.SampledFrom([]int{0, 0, 1, 2}).Draw(rt, "nresp")
		r.ReadReq = rapid.IntRange(0, 3).Draw(rt, "read_req") > 0
	}
	sameKind := func(old byte) byte {
		if old >= 0x20 && old <= 0x7e && old != '%' {
			for {
				c := byte(rapid.IntRange(0x20, 0x7e).Draw(rt, "c"))
				if c != old && c != '%' {
					return c
				}
			}
		}
		for {
			c := rapid.Byte().Draw(rt, "b")
			if c != old {
				return c
			}
		}
	}
	flip := func(b []byte) {
		i := rapid.IntRange(0, len(b)-1).Draw(rt, "pos")
		b[i] = sameKind(b[i])
	}
	kind := rapid.SampledFrom([]string{"same", "same_len", "same_len", "same_len", "code", "details", "len_pm1"}).Draw(rt, "derive_kind")
	switch kind {
	case "same":
	case "same_len": // same message length, different content
		switch {
		case len(r.Msg.Head) > 0 && (r.Msg.Reps == 0 || rapid.Bool().Draw(rt, "in_head")):
			flip(r.Msg.Head)
		case len(r.Msg.Frag) > 0 && r.Msg.Reps > 0:
			flip(r.Msg.Frag)
		case len(r.Msg.Tail) > 0:
			flip(r.Msg.Tail)
		case r.Msg.FillN > 0:
			r.Msg.Fill = sameKind(r.Msg.Fill)
		default:
			kind = "same"
		}
	case "code":
		r.Code = genCode(rt)
	case "details":
		switch {
		case len(r.Details) > 0 && rapid.Bool().Draw(rt, "drop"):
			r.Details = r.Details[:len(r.Details)-1]
		case len(r.Details) > 0 && len(r.Details[0].Value.Head) > 0:
			flip(r.Details[0].Value.Head)
		default:
			r.Details = append(r.Details, seqDetail{TypeURL: "type.googleapis.com/google.rpc.ErrorInfo",
				Value: blob{Head: rapid.SliceOfN(rapid.Byte(), 0, 16).Draw(rt, "val")}})
		}
	case "len_pm1":
		if rapid.Bool().Draw(rt, "shorter") && len(r.Msg.Head) > 0 {
			r.Msg.Head = r.Msg.Head[:len(r.Msg.Head)-1]
		} else {
			r.Msg.Tail = append(r.Msg.Tail, byte(rapid.IntRange(0x20, 0x7e).Draw(rt, "c")))
		}
	}
	r.Derived = kind
	normalise(&r)
	return r
}

func genSeqPlan(rt *rapid.T) seqPlan {
	p := seqPlan{}
	budget := vk.Pick(1<<20, 8<<20) // bound on the sum of aimed block sizes per case
	n := rapid.SampledFrom([]int{2, 2, 3, 3, 3, 4, 4, 5, 5, 6, 7, 8}).Draw(rt, "nrpcs")
	if rapid.IntRange(0, 11).Draw(rt, "hl_kind") == 0 {
		switch rapid.IntRange(0, 3).Draw(rt, "hl_range") {
		case 0:
			p.MaxHeaderList = uint32(rapid.IntRange(200, 4000).Draw(rt, "max_header_list"))
		case 1:
			p.MaxHeaderList = uint32(rapid.IntRange(14<<10, 40<<10).Draw(rt, "max_header_list"))
		case 2:
			p.MaxHeaderList = uint32(rapid.IntRange(60<<10, 140<<10).Draw(rt, "max_header_list"))
		default:
			p.MaxHeaderList = uint32(rapid.IntRange(200<<10, 900<<10).Draw(rt, "max_header_list"))
		}
	}
	limited := p.MaxHeaderList != 0
	forced := -1
	if rapid.IntRange(0, 99).Draw(rt, "force_large") < 38 {
		forced = rapid.IntRange(0, n-2).Draw(rt, "large_pos")
	}
	bigClasses := []string{cls64k, cls64k, cls64k, cls100k}
	classes := []string{clsTiny, clsTiny, clsTiny, clsTiny, clsTiny, clsTiny, clsTiny, clsTiny, clsTiny, clsTiny, clsTiny, clsTiny,
		cls4k, cls4k, cls16k, cls16k, cls16k, cls64k, cls64k, cls100k}
	if vk.Thorough() {
		// the MiB class is expensive (generation, transfer, comparison): ~1 RPC in 40, 1 forced block in 9
		bigClasses = append(append(bigClasses, bigClasses...), clsMiB)
		classes = append(append(classes, classes...), clsMiB)
	}
	cost := func(class string) int {
		switch class {
		case cls4k:
			return 8 << 10
		case cls16k:
			return 52 << 10
		case cls64k:
			return 104 << 10
		case cls100k:
			return 420 << 10
		case clsMiB:
			return 3<<20 + 64<<10
		}
		return 0
	}
	m := &wireModel{}
	for i := 0; i < n; i++ {
		var r seqRPC
		derived := false
		if i > 0 && i != forced && rapid.IntRange(0, 99).Draw(rt, "derive") < 30 {
			src := p.RPCs[rapid.IntRange(0, i-1).Draw(rt, "derive_from")]
			// copies of the really big ones are kept rare (cost)
			rare := (src.Class == cls100k || src.Class == clsMiB) && rapid.IntRange(0, 3).Draw(rt, "derive_big") != 0
			if c := cost(src.Class); c <= budget && !rare {
				budget -= c
				r = derive(rt, src)
				derived = true
			}
		}
		if !derived {
			r = genSeqBase(rt)
			class := rapid.SampledFrom(classes).Draw(rt, "size_class")
			if i == forced {
				class = rapid.SampledFrom(bigClasses).Draw(rt, "size_class")
			}
			if cost(class) > budget {
				class = clsTiny
			}
			budget -= cost(class)
			if class != clsTiny {
				applySize(rt, &r, class, i == forced, m, limited)
			}
		}
		r.ModelHdr, r.ModelTrl = m.lensAndCommit(r)
		p.RPCs = append(p.RPCs, r)
	}
	return p
}

// ---------------------------------------------------------------- executor

// hblock is one header block (HEADERS + CONTINUATION*) seen on the wire.
type hblock struct {
	Stream uint32
	Len    int
	Frames int
}

// scanHeaderBlocks walks the raw server->client byte stream (9-byte frame
// headers; nothing of grpc-go or x/net is involved) and returns the header
// blocks in order. A trailing partial frame is ignored.
func scanHeaderBlocks(b []byte) []hblock {
	var out []hblock
	open := false
	for len(b) >= 9 {
		n := int(b[0])<<16 | int(b[1])<<8 | int(b[2])
		typ, flags := b[3], b[4]
		sid := binary.BigEndian.Uint32(b[5:9]) & 0x7fffffff
		if len(b) < 9+n {
			break
		}
		switch {
		case typ == 0x1: // HEADERS (the grpc server never pads / sets priority)
			out = append(out, hblock{Stream: sid, Len: n, Frames: 1})
			open = flags&0x4 == 0
		case typ == 0x9 && open && len(out) > 0: // CONTINUATION
			out[len(out)-1].Len += n
			out[len(out)-1].Frames++
			open = flags&0x4 == 0
		}
		b = b[9+n:]
	}
	return out
}

func clip(s string) string {
	const max = 1500
	if len(s) <= max {
		return s
	}
	return s[:max] + fmt.Sprintf("...(%d bytes)", len(s))
}

func runSeq(t *testing.T, p seqPlan) vk.Result {
	var res vk.Result
	msg := vk.Bubble(t, func(t *testing.T) { res = runSeqInBubble(p) })
	if msg != "" && res.Violation == "" {
		return vk.Bad("harness/bubble: %s", clip(msg)).With(res.Classes...)
	}
	return res
}

func runSeqInBubble(p seqPlan) vk.Result {
	if len(p.RPCs) == 0 {
		return vk.Result{Discard: true}
	}
	var (
		cur    rpcPlan // materialised RPC; set before each (sequential) RPC
		curHdr metadata.MD
		curTrl metadata.MD
	)
	apply := func(ctx context.Context, stream grpc.ServerStream) {
		if curTrl != nil {
			if stream != nil {
				stream.SetTrailer(curTrl)
			} else {
				_ = grpc.SetTrailer(ctx, curTrl)
			}
		}
		switch cur.HeaderMode {
		case 1:
			if stream != nil {
				_ = stream.SetHeader(curHdr)
			} else {
				_ = grpc.SetHeader(ctx, curHdr)
			}
		case 2:
			if stream != nil {
				_ = stream.SendHeader(curHdr)
			} else {
				_ = grpc.SendHeader(ctx, curHdr)
			}
		}
	}
	tap := &e2e.Tap{}
	opts := e2e.Options{
		Tap: tap,
		Unary: func(ctx context.Context, req []byte) ([]byte, error) {
			apply(ctx, nil)
			if err := handlerErr(cur); err != nil {
				return nil, err
			}
			return respPayload(0), nil
		},
		Stream: func(stream grpc.ServerStream) error {
			if cur.ReadReq {
				if _, err := e2e.RecvBytes(stream); err != nil {
					return err
				}
			}
			apply(stream.Context(), stream)
			for i := 0; i < cur.NResp; i++ {
				if err := e2e.SendBytes(stream, respPayload(i)); err != nil {
					return err
				}
			}
			return handlerErr(cur)
		},
	}
	if p.MaxHeaderList != 0 {
		opts.DialOpts = append(opts.DialOpts, grpc.WithMaxHeaderListSize(p.MaxHeaderList))
	}
	pair, err := e2e.Start(opts)
	if err != nil {
		return vk.Bad("harness: start: %v", err)
	}
	defer pair.Close()

	out := vk.Result{}
	cls := func(c string) { out.Classes = append(out.Classes, c) }
	cls(fmt.Sprintf("seq_len_%d", len(p.RPCs)))
	jp := plan{MaxHeaderList: p.MaxHeaderList}
	firstBad := -1
	for i, sr := range p.RPCs {
		cur = sr.rpc()
		curHdr, curTrl = nil, nil
		if sr.HeaderMode != 0 {
			k, vals := sr.hdrKV()
			curHdr = metadata.MD{k: vals}
		}
		if k, vals := sr.trlKV(); k != "" {
			curTrl = metadata.MD{k: vals}
		}
		cls("size_" + sr.Class)
		if sr.Loc != "" {
			cls("pad_" + sr.Loc)
		}
		if sr.Derived != "" {
			cls("derived_" + sr.Derived)
		}
		got, gotErr := doRPC(pair, cur)
		v := judge(jp, i, cur, got, gotErr)
		out.Classes = append(out.Classes, v.Classes...)
		out.Steps++
		if v.Violation != "" {
			if firstBad < 0 && v.Sig == "" {
				firstBad = i
			}
			if out.Violation == "" || (out.Sig != "" && v.Sig == "") {
				out.Violation, out.Sig = fmt.Sprintf("rpc %d of %d (class %s, model blocks hdr=%d trl=%d): %s", i, len(p.RPCs), sr.Class, sr.ModelHdr, sr.ModelTrl, clip(v.Violation)), v.Sig
			}
		}
	}

	// Wire classes (measurement of the generator and the non-trivial rule; no verdict).
	if tap.NumConns() == 1 {
		cls("single_connection")
	} else {
		cls("reconnected")
	}
	afterLarge, cont := false, false
	for c := 0; c < tap.NumConns(); c++ {
		_, s2c := tap.Bytes(c)
		blocks := scanHeaderBlocks(s2c)
		var largeOn uint32 // lowest stream id with a block > 64 KiB
		for _, b := range blocks {
			if b.Frames > 1 {
				cont = true
			}
			if b.Len > 4*frameLen && (largeOn == 0 || b.Stream < largeOn) {
				largeOn = b.Stream
			}
			if b.Len >= 2*frameLen && b.Len%frameLen == 0 {
				cls("block_exact_multiple_of_16k")
			} else if b.Len > frameLen && (b.Len%frameLen == 1 || b.Len%frameLen == frameLen-1) {
				cls("block_multiple_of_16k_pm1")
			}
			if b.Len == frameLen {
				cls("block_exactly_one_frame")
			}
			switch {
			case b.Len > 1<<20:
				cls("wire_block_gt_1m")
			case b.Len > 4*frameLen:
				cls("wire_block_64k_1m")
			case b.Len > frameLen:
				cls("wire_block_16k_64k")
			}
		}
		if largeOn != 0 {
			for _, b := range blocks {
				if b.Stream > largeOn {
					afterLarge = true
				}
			}
		}
		// how well did the model aim? (only when streams map 1:1 onto the RPCs)
		if tap.NumConns() == 1 && out.Violation == "" && p.MaxHeaderList == 0 {
			var want []int
			for _, sr := range p.RPCs {
				if sr.ModelHdr > 0 {
					want = append(want, sr.ModelHdr)
				}
				want = append(want, sr.ModelTrl)
			}
			exact := len(want) == len(blocks)
			for i := 0; exact && i < len(want); i++ {
				exact = want[i] == blocks[i].Len
			}
			if exact {
				cls("model_block_len_exact")
			} else {
				cls("model_block_len_miss")
			}
		}
	}
	if cont {
		cls("continuation_frames_used")
	}
	if afterLarge {
		cls("rpc_after_large_header_block")
	}
	if firstBad >= 0 && afterLarge {
		cls("violation_after_large_block")
	}
	out.NonTrivial = afterLarge
	return out
}

func TestVerifC10Seq(t *testing.T) {
	vk.Check(t, vk.Unit[seqPlan]{
		ID: "C10", Name: "sequence",
		Rule: "2-8 sequential RPCs on ONE ClientConn/connection, each with its own status from the generator of unit status (any code, 7 message generators, 0-12 details, unary/server-stream/bidi/client-stream, trailers-only or header+trailers, 0-3 responses); 30% of the later RPCs are derived from an earlier one (identical / same message length with one byte changed / other code / details changed / length +-1). Per RPC a size class: tiny (60%), ~4 KiB, around k*16 KiB (k=1..3), around 64 KiB (k=4..6), 100-400 KiB, thorough: 1-3 MiB; the pad sits in the message, one detail, 2-40 details, response header metadata (SetHeader/SendHeader) or trailer metadata; a model of the server's HPACK output aims at exact block lengths k*16384 (+-1); 45% of the cases force a > 64 KiB block at a non-final position; total aimed bytes per case <= 1 MiB (thorough 8 MiB), all far below the default 16 MiB header list limit; 8% with a client MaxHeaderListSize (existing weaker over-limit expectation). Every RPC is judged with the oracle of unit status. non-trivial = on the wire some stream's header block exceeds 64 KiB and a later stream exists on the same connection (class rpc_after_large_header_block)",
		Gen:  genSeqPlan, Run: runSeq,
	})
}
