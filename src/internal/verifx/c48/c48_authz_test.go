package c48_test

// C48 (units authz, authz_dupnames): authz.NewStatic(policy JSON) interceptors
// against a reference evaluator of the SDK authorization policy (gRFC A43):
// a request is denied if it matches any deny rule and otherwise allowed exactly
// when it matches some allow rule.

import (
	"context"
	"encoding/json"
	"strings"
	"testing"

	"google.golang.org/grpc"
	"google.golang.org/grpc/authz"
	"google.golang.org/grpc/codes"
	"google.golang.org/grpc/internal/verifkit/vk"
	"google.golang.org/grpc/status"
	"pgregory.net/rapid"
)

type sdkHeader struct {
	Key    string   `json:"key"`
	Values []string `json:"values,omitempty"`
}

type sdkSource struct {
	Principals []string `json:"principals,omitempty"`
}

type sdkRequest struct {
	Paths   []string    `json:"paths,omitempty"`
	Headers []sdkHeader `json:"headers,omitempty"`
}

type sdkRule struct {
	Name    string      `json:"name"`
	Source  *sdkSource  `json:"source,omitempty"`
	Request *sdkRequest `json:"request,omitempty"`
}

type sdkPolicy struct {
	Name  string    `json:"name"`
	Deny  []sdkRule `json:"deny_rules,omitempty"`
	Allow []sdkRule `json:"allow_rules,omitempty"`
}

type authzPlan struct {
	Policy sdkPolicy `json:"policy"`
	Reqs   []reqP    `json:"reqs"`
	Stream []bool    `json:"stream"` // per request: use the stream interceptor
}

var (
	sdkHdrKeys    = []string{"x-user", "x-id", "X-User", "content-type", "x-missing", "x-num"}
	sdkBadHdrKeys = []string{"", ":path", ":authority", "grpc-timeout", "GRPC-foo", "host", "Host", "te", "connection", "transfer-encoding", "upgrade", "keep-alive", "trailer", "proxy-authorization", "proxy-authenticate"}
)

// genPattern draws an SDK wildcard pattern built from a pool value.
func genPattern(rt *rapid.T, pool []string, label string) string {
	base := rapid.SampledFrom(pool).Draw(rt, label)
	switch rapid.IntRange(0, 7).Draw(rt, label+"_shape") {
	case 0:
		return "*"
	case 1:
		if base == "" {
			return base
		}
		return base[:rapid.IntRange(0, len(base)).Draw(rt, label+"_n")] + "*"
	case 2:
		if base == "" {
			return base
		}
		return "*" + base[rapid.IntRange(0, len(base)).Draw(rt, label+"_n"):]
	case 3:
		return rapid.SampledFrom([]string{"", "**", "*a*", "a*b", "zzz"}).Draw(rt, label+"_odd")
	default:
		return base
	}
}

func genRule(rt *rapid.T, name string, allowBad bool) sdkRule {
	certs()
	r := sdkRule{Name: name}
	if rapid.IntRange(0, 2).Draw(rt, "has_source") > 0 {
		r.Source = &sdkSource{}
		n := rapid.IntRange(0, 3).Draw(rt, "nprinc")
		for i := 0; i < n; i++ {
			r.Source.Principals = append(r.Source.Principals, genPattern(rt, idPool, "princ"))
		}
	}
	if rapid.IntRange(0, 3).Draw(rt, "has_request") > 0 {
		r.Request = &sdkRequest{}
		n := rapid.IntRange(0, 3).Draw(rt, "npaths")
		for i := 0; i < n; i++ {
			r.Request.Paths = append(r.Request.Paths, genPattern(rt, methods, "path"))
		}
		n = rapid.SampledFrom([]int{0, 0, 1, 1, 2}).Draw(rt, "nhdr")
		for i := 0; i < n; i++ {
			h := sdkHeader{Key: rapid.SampledFrom(sdkHdrKeys).Draw(rt, "hkey")}
			if allowBad && rapid.IntRange(0, 2).Draw(rt, "bad_key") == 0 {
				h.Key = rapid.SampledFrom(sdkBadHdrKeys).Draw(rt, "hkey_bad")
			}
			nv := rapid.IntRange(1, 3).Draw(rt, "nvals")
			if allowBad && rapid.IntRange(0, 4).Draw(rt, "no_vals") == 0 {
				nv = 0
			}
			for j := 0; j < nv; j++ {
				h.Values = append(h.Values, genPattern(rt, hdrValues, "hval"))
			}
			r.Request.Headers = append(r.Request.Headers, h)
		}
	}
	return r
}

func genAuthz(dup bool) func(rt *rapid.T) authzPlan {
	return func(rt *rapid.T) authzPlan {
		var p authzPlan
		allowBad := !dup && rapid.IntRange(0, 5).Draw(rt, "allow_invalid") == 0
		p.Policy.Name = rapid.SampledFrom([]string{"authz", "p", "a_b"}).Draw(rt, "pname")
		if allowBad && rapid.IntRange(0, 5).Draw(rt, "no_name") == 0 {
			p.Policy.Name = ""
		}
		names := []string{"r0", "r1", "r2", "r3", "r4", "r5"}
		gen := func(label string, lo int) []sdkRule {
			n := rapid.IntRange(lo, 4).Draw(rt, label)
			var out []sdkRule
			for i := 0; i < n; i++ {
				name := names[i]
				if dup && i > 0 && rapid.Bool().Draw(rt, "dup") {
					name = out[rapid.IntRange(0, i-1).Draw(rt, "dup_of")].Name
				}
				if allowBad && rapid.IntRange(0, 9).Draw(rt, "noname") == 0 {
					name = ""
				}
				out = append(out, genRule(rt, name, allowBad))
			}
			return out
		}
		p.Policy.Deny = gen("ndeny", 0)
		lo := 1
		if allowBad {
			lo = 0
		}
		p.Policy.Allow = gen("nallow", lo)
		if dup { // make sure some list has >= 2 rules sharing a name
			l := &p.Policy.Allow
			if len(p.Policy.Deny) >= 2 && rapid.Bool().Draw(rt, "dup_in_deny") {
				l = &p.Policy.Deny
			}
			if len(*l) < 2 {
				*l = append(*l, genRule(rt, "x", false))
			}
			(*l)[len(*l)-1].Name = (*l)[0].Name
		}
		n := rapid.IntRange(1, 4).Draw(rt, "nreq")
		for i := 0; i < n; i++ {
			p.Reqs = append(p.Reqs, genReq(rt))
			p.Stream = append(p.Stream, rapid.Bool().Draw(rt, "stream"))
		}
		return p
	}
}

// ------------------------------------------------------------------ reference (written from gRFC A43)

func sdkUnsupportedKey(k string) bool {
	switch k {
	case "host", "connection", "keep-alive", "proxy-authenticate", "proxy-authorization", "te", "trailer", "transfer-encoding", "upgrade":
		return true
	}
	return strings.HasPrefix(k, ":") || strings.HasPrefix(k, "grpc-")
}

func sdkValid(p sdkPolicy) bool {
	if p.Name == "" || len(p.Allow) == 0 {
		return false
	}
	for _, l := range [][]sdkRule{p.Deny, p.Allow} {
		seen := map[string]bool{}
		for _, r := range l {
			if r.Name == "" {
				return false
			}
			// rule names must be unique within deny_rules and within allow_rules
			// (rules are keyed by name; a repeated name would shadow a rule)
			if seen[r.Name] {
				return false
			}
			seen[r.Name] = true
			if r.Request == nil {
				continue
			}
			for _, h := range r.Request.Headers {
				if h.Key == "" || sdkUnsupportedKey(asciiLower(h.Key)) || len(h.Values) == 0 {
					return false
				}
			}
		}
	}
	return true
}

// wildcard: "*" = any non-empty value, "p*" prefix, "*s" suffix, else exact.
func wildcard(pat, s string) bool {
	switch {
	case pat == "*":
		return s != ""
	case strings.HasSuffix(pat, "*"):
		return strings.HasPrefix(s, pat[:len(pat)-1])
	case strings.HasPrefix(pat, "*"):
		return strings.HasSuffix(s, pat[1:])
	}
	return s == pat
}

func sdkRuleMatches(r sdkRule, q *refReq) bool {
	if r.Source != nil && len(r.Source.Principals) > 0 {
		ok := false
		if q.tls {
			for _, pat := range r.Source.Principals {
				for _, id := range q.ids {
					ok = ok || wildcard(pat, id)
				}
			}
		}
		if !ok {
			return false
		}
	}
	if r.Request == nil {
		return true
	}
	if len(r.Request.Paths) > 0 {
		ok := false
		for _, pat := range r.Request.Paths {
			ok = ok || wildcard(pat, q.method)
		}
		if !ok {
			return false
		}
	}
	for _, h := range r.Request.Headers {
		v, present := q.hdr[asciiLower(h.Key)]
		ok := false
		if present {
			for _, pat := range h.Values {
				ok = ok || wildcard(pat, v)
			}
		}
		if !ok {
			return false
		}
	}
	return true
}

func sdkAllows(p sdkPolicy, q *refReq) bool {
	for _, r := range p.Deny {
		if sdkRuleMatches(r, q) {
			return false
		}
	}
	for _, r := range p.Allow {
		if sdkRuleMatches(r, q) {
			return true
		}
	}
	return false
}

func hasDupNames(p sdkPolicy) bool {
	for _, l := range [][]sdkRule{p.Deny, p.Allow} {
		seen := map[string]bool{}
		for _, r := range l {
			if seen[r.Name] {
				return true
			}
			seen[r.Name] = true
		}
	}
	return false
}

// ------------------------------------------------------------------ run

type fakeServerStream struct {
	grpc.ServerStream
	ctx context.Context
}

func (s *fakeServerStream) Context() context.Context { return s.ctx }

func runAuthz(_ *testing.T, p authzPlan) (res vk.Result) {
	defer func() {
		if r := recover(); r != nil {
			res = vk.Bad("panic: %v", r)
		}
	}()
	text, err := json.Marshal(p.Policy)
	if err != nil {
		return vk.Result{Discard: true}
	}
	valid := sdkValid(p.Policy)
	si, err := authz.NewStatic(string(text))
	dup := hasDupNames(p.Policy)
	if !valid {
		if err == nil {
			return vk.Bad("NewStatic accepted a policy that violates the validation rules (missing names, unsupported header keys, empty values, no allow rules, rule name repeated within a list): %s", text)
		}
		if dup {
			return vk.OK(true, "policy_rejected", "duplicate_rule_names_rejected")
		}
		return vk.OK(false, "policy_rejected")
	}
	if err != nil {
		return vk.Bad("NewStatic rejected a valid policy %s: %v", text, err)
	}
	cls := map[string]bool{}
	wild, sameAcross := false, false
	for _, l := range [][]sdkRule{p.Policy.Deny, p.Policy.Allow} {
		for _, r := range l {
			var pats []string
			if r.Source != nil {
				pats = append(pats, r.Source.Principals...)
				if len(r.Source.Principals) > 0 {
					cls["rule_with_principals"] = true
				}
			}
			if r.Request != nil {
				pats = append(pats, r.Request.Paths...)
				for _, h := range r.Request.Headers {
					pats = append(pats, h.Values...)
					cls["rule_with_headers"] = true
				}
			}
			for _, s := range pats {
				if strings.Contains(s, "*") {
					wild = true
				}
			}
		}
	}
	for _, d := range p.Policy.Deny {
		for _, a := range p.Policy.Allow {
			if d.Name == a.Name {
				sameAcross = true
			}
		}
	}
	if wild {
		cls["wildcards"] = true
	}
	if sameAcross {
		cls["same_name_in_deny_and_allow"] = true
	}
	if len(p.Policy.Deny) > 0 {
		cls["has_deny_rules"] = true
	}
	for i, r := range p.Reqs {
		ctx, ref := buildCtx(r)
		want := sdkAllows(p.Policy, ref)
		called := false
		stream := i < len(p.Stream) && p.Stream[i]
		if stream {
			err = si.StreamInterceptor(nil, &fakeServerStream{ctx: ctx}, &grpc.StreamServerInfo{FullMethod: r.Method},
				func(any, grpc.ServerStream) error { called = true; return nil })
		} else {
			_, err = si.UnaryInterceptor(ctx, nil, &grpc.UnaryServerInfo{FullMethod: r.Method},
				func(context.Context, any) (any, error) { called = true; return nil, nil })
		}
		got := err == nil
		if got != called {
			return vk.Bad("request %d: interceptor returned %v but handler called=%v", i, err, called)
		}
		if !got && status.Code(err) != codes.PermissionDenied {
			return vk.Bad("request %d: interceptor failed with %v, want PermissionDenied or success", i, err)
		}
		if want {
			cls["decision=allow"] = true
		} else {
			cls["decision=deny"] = true
		}
		if got == want {
			continue
		}
		return vk.Bad("policy %s request %d %+v: policy semantics say allowed=%v, interceptor allowed=%v", text, i, r, want, got)
	}
	res = vk.Result{NonTrivial: len(p.Policy.Deny) > 0 && wild}
	for k := range cls {
		res.Classes = append(res.Classes, k)
	}
	return res
}

func TestVerifC48Authz(t *testing.T) {
	vk.Check(t, vk.Unit[authzPlan]{
		ID: "C48", Name: "authz",
		Rule: "SDK policies with 0-4 deny and 1-4 allow rules (unique names within a list; the same name may appear in both lists), principals/paths/header values as exact, prefix*, *suffix, * and odd patterns, header keys in mixed case; one case in six contains an invalid element (missing name, unsupported header key, empty values, no allow rules) and must be rejected; 1-4 requests through the unary or stream interceptor. non-trivial = accepted policy with deny rules and at least one wildcard pattern",
		Gen:  genAuthz(false), Run: runAuthz,
	})
}

func TestVerifC48AuthzDupNames(t *testing.T) {
	vk.Check(t, vk.Unit[authzPlan]{
		ID: "C48", Name: "authz_dupnames",
		Rule: "as unit authz but at least two rules of deny_rules or of allow_rules share a name: such a policy must be rejected by NewStatic (before repo commit 610d1e6 the later rule silently replaced the earlier one, dropping e.g. a deny rule). non-trivial = the policy has a repeated name and was rejected",
		Gen:  genAuthz(true), Run: runAuthz,
	})
}
