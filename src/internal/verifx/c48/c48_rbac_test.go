package c48_test

// C48 (unit rbac): rbac.NewChainEngine(...).IsAuthorized(ctx) against a reference
// evaluator of the policy tree. The plan holds its own tree representation
// (node); Run converts it to v3rbacpb protos (through a marshal/unmarshal round
// trip, as xDS would deliver them) for the engine, while the reference evaluates
// the plan tree directly on the plan's request description.

import (
	"context"
	"crypto/ed25519"
	"crypto/tls"
	"crypto/x509"
	"crypto/x509/pkix"
	"fmt"
	"math/big"
	"net"
	"net/url"
	"regexp"
	"strconv"
	"strings"
	"sync"
	"testing"
	"time"

	v3corepb "github.com/envoyproxy/go-control-plane/envoy/config/core/v3"
	v3rbacpb "github.com/envoyproxy/go-control-plane/envoy/config/rbac/v3"
	v3routepb "github.com/envoyproxy/go-control-plane/envoy/config/route/v3"
	v3matcherpb "github.com/envoyproxy/go-control-plane/envoy/type/matcher/v3"
	v3typepb "github.com/envoyproxy/go-control-plane/envoy/type/v3"
	"google.golang.org/grpc"
	"google.golang.org/grpc/codes"
	"google.golang.org/grpc/credentials"
	"google.golang.org/grpc/internal/transport"
	"google.golang.org/grpc/internal/verifkit/vk"
	"google.golang.org/grpc/internal/xds/rbac"
	"google.golang.org/grpc/metadata"
	"google.golang.org/grpc/peer"
	"google.golang.org/grpc/status"
	"google.golang.org/protobuf/proto"
	"google.golang.org/protobuf/types/known/wrapperspb"
	"pgregory.net/rapid"
)

// ------------------------------------------------------------------ plan types

type strM struct {
	Kind string `json:"k"` // exact prefix suffix contains regex unset
	Val  string `json:"v"`
	IC   bool   `json:"ic,omitempty"`
}

type hdrM struct {
	Name    string `json:"name"`
	Kind    string `json:"k"` // exact regex range present prefix suffix contains string none
	Val     string `json:"v,omitempty"`
	Start   int64  `json:"start,omitempty"`
	End     int64  `json:"end,omitempty"`
	Present bool   `json:"present,omitempty"`
	Str     *strM  `json:"str,omitempty"`
	Invert  bool   `json:"invert,omitempty"`
}

type cidrM struct {
	Addr int `json:"addr"` // index into cidrAddrs
	Len  int `json:"len"`  // -1: prefix_len unset
}

// node is a permission or a principal (the kind sets are disjoint where needed).
type node struct {
	K    string `json:"k"`
	Kids []node `json:"kids,omitempty"`
	Hdr  *hdrM  `json:"hdr,omitempty"`
	Str  *strM  `json:"str,omitempty"` // path / sni / authenticated (nil = any authenticated / no path)
	Cidr *cidrM `json:"cidr,omitempty"`
	Port uint32 `json:"port,omitempty"`
	Inv  bool   `json:"inv,omitempty"` // metadata.invert
}

type policyP struct {
	Name   string `json:"name"`
	Perms  []node `json:"perms"`
	Princs []node `json:"princs"`
}

type engineP struct {
	Action   string    `json:"action"` // ALLOW DENY LOG
	Policies []policyP `json:"policies"`
}

type reqP struct {
	Method    string     `json:"method"`
	MD        [][]string `json:"md"`       // key, values...
	PeerNet   string     `json:"peer_net"` // tcp unix
	PeerIP    int        `json:"peer_ip"`  // index into reqAddrs
	PeerPort  int        `json:"peer_port"`
	Peer16    bool       `json:"peer16"` // keep the 16-byte form of an IPv4 address
	LocalIP   int        `json:"local_ip"`
	LocalPort int        `json:"local_port"`
	Local16   bool       `json:"local16"`
	Auth      string     `json:"auth"` // none other tls tls_nocert
	Cert      int        `json:"cert"`
	Cert2     int        `json:"cert2"` // second peer certificate (ignored by the spec), -1 none
}

type rbacPlan struct {
	Chain []engineP `json:"chain"`
	Reqs  []reqP    `json:"reqs"`
}

// ------------------------------------------------------------------ pools

var (
	methods    = []string{"/svc.A/Get", "/svc.A/Put", "/svc.B/Get", "/pkg.Svc/Method", "/", "/svc.a/get"}
	hdrNames   = []string{"x-user", "x-id", "x-num", ":method", ":path", ":authority", "content-type", "x-missing"}
	hdrValues  = []string{"alice", "bob", "Alice", "42", "-7", "9223372036854775807", "9223372036854775808", "a,b", " 42", "POST", "GET", "application/grpc", "svc.example.com"}
	regexes    = []string{".*", ".+", "a.*", "[a-z]+", "/svc\\.[AB]/.*", "(alice|bob)", "[0-9]+", "spiffe://.*", "", "a", "(", "[a-", "(?i)ALICE", ".*example\\.com"}
	regexValid = map[string]bool{"(": false, "[a-": false}
	// request addresses
	reqAddrs = []string{"10.0.0.1", "10.0.1.7", "10.255.255.255", "192.168.1.1", "127.0.0.1", "0.0.0.0", "::1", "2001:db8::1", "2001:db8:1::5", "fe80::1", "::"}
	// CIDR address_prefix values with their hand-determined validity for "<addr>/<len>" parsing
	cidrAddrs = []struct {
		s     string
		valid bool
	}{
		{"10.0.0.0", true}, {"10.0.1.7", true}, {"10.0.0.1", true}, {"192.168.0.0", true}, {"127.0.0.1", true}, {"0.0.0.0", true},
		{"::", true}, {"::1", true}, {"2001:db8::", true}, {"2001:db8:1::5", true}, {"fe80::", true}, {"::ffff:10.0.0.1", true},
		{"", false}, {"not-an-ip", false}, {"10.0.0", false}, {"10.0.0.0/8", false}, {"10.0.0.256", false}, {"fe80::1%eth0", false}, {"2001:db8:::1", false},
	}
	ports = []int{80, 443, 8080, 50051, 0, 65535}
)

type certInfo struct {
	cert *x509.Certificate
	ids  []string // the identities the spec says are matched (URI SANs, else DNS SANs, else subject)
}

var (
	certOnce sync.Once
	certPool []certInfo
	idPool   []string
)

func mustURL(s string) *url.URL {
	u, err := url.Parse(s)
	if err != nil {
		panic(err)
	}
	return u
}

// certs builds a fixed pool of real (self-signed, parsed back) certificates. The
// key is derived from a constant seed and ed25519 signing is deterministic, so
// the pool is identical in every process.
func certs() []certInfo {
	certOnce.Do(func() {
		seed := make([]byte, ed25519.SeedSize)
		for i := range seed {
			seed[i] = byte(0xC4 + i)
		}
		key := ed25519.NewKeyFromSeed(seed)
		tmpl := []struct {
			uris, dns []string
			subj      pkix.Name
		}{
			{[]string{"spiffe://foo.bar/ns/a", "https://x.example/p"}, []string{"a.example.com"}, pkix.Name{CommonName: "alice"}},
			{[]string{"spiffe://foo.bar/ns/b"}, nil, pkix.Name{Organization: []string{"Org"}, CommonName: "bob"}},
			{nil, []string{"a.example.com", "b.example.com"}, pkix.Name{CommonName: "carol"}},
			{nil, []string{"*.example.com"}, pkix.Name{}},
			{nil, nil, pkix.Name{CommonName: "dave", Organization: []string{"Org"}, Country: []string{"US"}}},
			{nil, nil, pkix.Name{CommonName: "alice"}},
			{nil, nil, pkix.Name{}},
		}
		seen := map[string]bool{}
		for i, tp := range tmpl {
			t := &x509.Certificate{SerialNumber: big.NewInt(int64(100 + i)), Subject: tp.subj, DNSNames: tp.dns,
				NotBefore: time.Unix(1700000000, 0), NotAfter: time.Unix(2000000000, 0)}
			for _, u := range tp.uris {
				t.URIs = append(t.URIs, mustURL(u))
			}
			der, err := x509.CreateCertificate(zeroReader{}, t, t, key.Public(), key)
			if err != nil {
				panic(fmt.Sprintf("c48: CreateCertificate %d: %v", i, err))
			}
			c, err := x509.ParseCertificate(der)
			if err != nil {
				panic(fmt.Sprintf("c48: ParseCertificate %d: %v", i, err))
			}
			ci := certInfo{cert: c}
			// identities by the spec, taken from the template (not from the parsed cert)
			switch {
			case len(tp.uris) > 0:
				ci.ids = tp.uris
			case len(tp.dns) > 0:
				ci.ids = tp.dns
			default:
				ci.ids = []string{tp.subj.String()}
			}
			certPool = append(certPool, ci)
			for _, s := range append(append(append([]string{}, tp.uris...), tp.dns...), tp.subj.String()) {
				if !seen[s] {
					seen[s] = true
					idPool = append(idPool, s)
				}
			}
		}
	})
	return certPool
}

type zeroReader struct{}

func (zeroReader) Read(b []byte) (int, error) {
	for i := range b {
		b[i] = 0
	}
	return len(b), nil
}

// ------------------------------------------------------------------ generators

func genStrVal(rt *rapid.T, label string) string {
	certs()
	var base string
	switch rapid.IntRange(0, 3).Draw(rt, label+"_src") {
	case 0:
		base = rapid.SampledFrom(methods).Draw(rt, label+"_m")
	case 1:
		base = rapid.SampledFrom(hdrValues).Draw(rt, label+"_h")
	case 2:
		base = rapid.SampledFrom(idPool).Draw(rt, label+"_id")
	default:
		return rapid.SampledFrom([]string{"", "a", "A", "/", "x", "POST", "zzz"}).Draw(rt, label+"_lit")
	}
	if base == "" {
		return base
	}
	switch rapid.IntRange(0, 4).Draw(rt, label+"_cut") {
	case 0:
		return base
	case 1:
		return base[:rapid.IntRange(0, len(base)).Draw(rt, label+"_n")]
	case 2:
		return base[rapid.IntRange(0, len(base)).Draw(rt, label+"_n"):]
	case 3:
		a := rapid.IntRange(0, len(base)).Draw(rt, label+"_a")
		b := rapid.IntRange(a, len(base)).Draw(rt, label+"_b")
		return base[a:b]
	default:
		return strings.ToUpper(base)
	}
}

func genStrM(rt *rapid.T, label string) *strM {
	k := rapid.SampledFrom([]string{"exact", "exact", "prefix", "suffix", "contains", "regex", "regex", "unset"}).Draw(rt, label+"_k")
	if k == "unset" && rapid.IntRange(0, 3).Draw(rt, label+"_keep_unset") > 0 {
		k = "exact"
	}
	m := &strM{Kind: k}
	switch k {
	case "regex":
		m.Val = rapid.SampledFrom(regexes).Draw(rt, label+"_re")
	case "unset":
	default:
		m.Val = genStrVal(rt, label)
		m.IC = rapid.IntRange(0, 2).Draw(rt, label+"_ic") == 0
	}
	return m
}

func genHdrM(rt *rapid.T) *hdrM {
	h := &hdrM{Name: rapid.SampledFrom(hdrNames).Draw(rt, "h_name")}
	h.Kind = rapid.SampledFrom([]string{"exact", "regex", "range", "present", "prefix", "suffix", "contains", "string", "none"}).Draw(rt, "h_k")
	if h.Kind == "none" && rapid.IntRange(0, 3).Draw(rt, "h_keep_none") > 0 {
		h.Kind = "exact"
	}
	h.Invert = rapid.IntRange(0, 3).Draw(rt, "h_inv") == 0
	switch h.Kind {
	case "exact", "prefix", "suffix", "contains":
		h.Val = genStrVal(rt, "h_v")
	case "regex":
		h.Val = rapid.SampledFrom(regexes).Draw(rt, "h_re")
	case "range":
		h.Start = rapid.SampledFrom([]int64{-10, 0, 42, 43, -1 << 63, 1<<63 - 1}).Draw(rt, "h_start")
		h.End = rapid.SampledFrom([]int64{-7, 0, 42, 43, 100, 1<<63 - 1, -1 << 63}).Draw(rt, "h_end")
	case "present":
		h.Present = rapid.Bool().Draw(rt, "h_present")
	case "string":
		h.Str = genStrM(rt, "h_s")
	}
	return h
}

func genCidr(rt *rapid.T) *cidrM {
	c := &cidrM{Addr: rapid.IntRange(0, len(cidrAddrs)-1).Draw(rt, "c_addr")}
	if rapid.IntRange(0, 4).Draw(rt, "c_valid_bias") > 0 {
		c.Addr = rapid.IntRange(0, 11).Draw(rt, "c_addr_valid")
	}
	c.Len = rapid.SampledFrom([]int{-1, 0, 1, 8, 16, 23, 24, 31, 32, 33, 48, 64, 127, 128, 129}).Draw(rt, "c_len")
	return c
}

var (
	permLeaves  = []string{"any", "header", "header", "path", "path", "dst_ip", "dst_port", "metadata", "sni", "x_port_range", "x_matcher", "x_uri_template", "x_sourced_md", "x_nil"}
	princLeaves = []string{"any", "auth", "auth", "auth", "direct_ip", "source_ip", "remote_ip", "header", "path", "metadata", "x_filter_state", "x_sourced_md", "x_custom", "x_nil"}
)

func genNode(rt *rapid.T, princ bool, depth int, allowBad bool) node {
	if depth > 0 && rapid.IntRange(0, 9).Draw(rt, "composite") < 7+min(depth-1, 2) {
		k := rapid.SampledFrom([]string{"and", "or", "not", "not"}).Draw(rt, "ck")
		n := node{K: k}
		if k == "not" {
			n.Kids = []node{genNode(rt, princ, depth-1, allowBad)}
			return n
		}
		cnt := rapid.SampledFrom([]int{0, 1, 2, 2, 2, 3}).Draw(rt, "nkids")
		for i := 0; i < cnt; i++ {
			n.Kids = append(n.Kids, genNode(rt, princ, depth-1, allowBad))
		}
		return n
	}
	leaves := permLeaves
	if princ {
		leaves = princLeaves
	}
	k := rapid.SampledFrom(leaves).Draw(rt, "leaf")
	if strings.HasPrefix(k, "x_") && !allowBad {
		k = "any"
	}
	n := node{K: k}
	switch k {
	case "header":
		n.Hdr = genHdrM(rt)
	case "path":
		if rapid.IntRange(0, 15).Draw(rt, "nopath") > 0 {
			n.Str = genStrM(rt, "p")
		}
	case "sni":
		n.Str = genStrM(rt, "sni")
	case "auth":
		if rapid.IntRange(0, 4).Draw(rt, "auth_named") > 0 {
			n.Str = genStrM(rt, "auth")
		}
	case "dst_ip", "direct_ip", "source_ip", "remote_ip":
		n.Cidr = genCidr(rt)
	case "dst_port":
		n.Port = uint32(rapid.SampledFrom(ports).Draw(rt, "port"))
		if rapid.IntRange(0, 9).Draw(rt, "bigport") == 0 {
			n.Port = rapid.SampledFrom([]uint32{65536, 65536 + 80, 1<<32 - 1}).Draw(rt, "port_big")
		}
	case "metadata":
		n.Inv = rapid.Bool().Draw(rt, "md_inv")
	}
	return n
}

// sanitize removes the constructs that make the engine reject the config, so that
// most cases reach the decision oracle.
func sanitizeStr(m *strM) {
	if m == nil {
		return
	}
	if m.Kind == "unset" {
		m.Kind, m.Val = "exact", "alice"
	}
	if (m.Kind == "prefix" || m.Kind == "suffix" || m.Kind == "contains") && m.Val == "" {
		m.Val = "a"
	}
	if m.Kind == "regex" {
		if v, ok := regexValid[m.Val]; ok && !v {
			m.Val = ".*"
		}
	}
}

func sanitize(n *node, princ bool) {
	for i := range n.Kids {
		sanitize(&n.Kids[i], princ)
	}
	if strings.HasPrefix(n.K, "x_") {
		n.K = "any"
	}
	sanitizeStr(n.Str)
	if n.K == "path" && n.Str == nil {
		n.Str = &strM{Kind: "prefix", Val: "/svc.A/"}
	}
	if n.Hdr != nil {
		sanitizeStr(n.Hdr.Str)
		if n.Hdr.Kind == "none" {
			n.Hdr.Kind, n.Hdr.Present = "present", true
		}
		if n.Hdr.Kind == "regex" {
			if v, ok := regexValid[n.Hdr.Val]; ok && !v {
				n.Hdr.Val = ".+"
			}
		}
	}
	if n.Cidr != nil {
		if !cidrAddrs[n.Cidr.Addr].valid {
			n.Cidr.Addr = 0
		}
		if !strings.Contains(cidrAddrs[n.Cidr.Addr].s, ":") && n.Cidr.Len > 32 {
			n.Cidr.Len = 8
		}
		if n.Cidr.Len > 128 {
			n.Cidr.Len = 64
		}
	}
}

func genReq(rt *rapid.T) reqP {
	certs()
	r := reqP{Method: rapid.SampledFrom(methods).Draw(rt, "method")}
	nh := rapid.IntRange(0, 4).Draw(rt, "nhdr")
	used := map[string]bool{}
	for i := 0; i < nh; i++ {
		name := rapid.SampledFrom(hdrNames[:7]).Draw(rt, "rh_name")
		if used[name] {
			continue
		}
		used[name] = true
		kv := []string{name}
		nv := rapid.SampledFrom([]int{1, 1, 1, 2, 3}).Draw(rt, "rh_nv")
		for j := 0; j < nv; j++ {
			kv = append(kv, rapid.SampledFrom(hdrValues).Draw(rt, "rh_v"))
		}
		r.MD = append(r.MD, kv)
	}
	r.PeerNet = rapid.SampledFrom([]string{"tcp", "tcp", "tcp", "tcp", "unix"}).Draw(rt, "peer_net")
	r.PeerIP = rapid.IntRange(0, len(reqAddrs)-1).Draw(rt, "peer_ip")
	r.PeerPort = rapid.SampledFrom(ports).Draw(rt, "peer_port")
	r.Peer16 = rapid.Bool().Draw(rt, "peer16")
	r.LocalIP = rapid.IntRange(0, len(reqAddrs)-1).Draw(rt, "local_ip")
	r.LocalPort = rapid.SampledFrom(ports).Draw(rt, "local_port")
	r.Local16 = rapid.Bool().Draw(rt, "local16")
	r.Auth = rapid.SampledFrom([]string{"none", "other", "tls", "tls", "tls", "tls", "tls_nocert"}).Draw(rt, "auth")
	r.Cert = rapid.IntRange(0, len(certPool)-1).Draw(rt, "cert")
	r.Cert2 = rapid.IntRange(-1, len(certPool)-1).Draw(rt, "cert2")
	return r
}

func genRBAC(rt *rapid.T) rbacPlan {
	var p rbacPlan
	allowBad := rapid.IntRange(0, 4).Draw(rt, "allow_invalid") == 0
	ne := rapid.SampledFrom([]int{0, 1, 1, 1, 1, 2, 2, 2, 3}).Draw(rt, "nengines")
	for e := 0; e < ne; e++ {
		eng := engineP{Action: rapid.SampledFrom([]string{"ALLOW", "ALLOW", "DENY", "DENY", "LOG"}).Draw(rt, "action")}
		if eng.Action == "LOG" && !allowBad {
			eng.Action = "ALLOW"
		}
		np := rapid.SampledFrom([]int{0, 1, 1, 1, 1, 2, 2, 3}).Draw(rt, "npolicies")
		for i := 0; i < np; i++ {
			pol := policyP{Name: "p" + strconv.Itoa(i)}
			depth := rapid.SampledFrom([]int{0, 1, 2, 3, 4, 4, 5, 5, 5, 5}).Draw(rt, "depth")
			nperm := rapid.SampledFrom([]int{0, 1, 1, 1, 2, 2, 3}).Draw(rt, "nperm")
			for j := 0; j < nperm; j++ {
				pol.Perms = append(pol.Perms, genNode(rt, false, depth, allowBad))
			}
			nprinc := rapid.SampledFrom([]int{0, 1, 1, 1, 2, 2, 3}).Draw(rt, "nprinc")
			for j := 0; j < nprinc; j++ {
				pol.Princs = append(pol.Princs, genNode(rt, true, depth, allowBad))
			}
			if !allowBad {
				for j := range pol.Perms {
					sanitize(&pol.Perms[j], false)
				}
				for j := range pol.Princs {
					sanitize(&pol.Princs[j], true)
				}
			}
			eng.Policies = append(eng.Policies, pol)
		}
		p.Chain = append(p.Chain, eng)
	}
	nr := rapid.IntRange(1, 4).Draw(rt, "nreq")
	for i := 0; i < nr; i++ {
		p.Reqs = append(p.Reqs, genReq(rt))
	}
	return p
}

// ------------------------------------------------------------------ plan -> proto

func strProto(m *strM) *v3matcherpb.StringMatcher {
	if m == nil {
		return nil
	}
	sm := &v3matcherpb.StringMatcher{IgnoreCase: m.IC}
	switch m.Kind {
	case "exact":
		sm.MatchPattern = &v3matcherpb.StringMatcher_Exact{Exact: m.Val}
	case "prefix":
		sm.MatchPattern = &v3matcherpb.StringMatcher_Prefix{Prefix: m.Val}
	case "suffix":
		sm.MatchPattern = &v3matcherpb.StringMatcher_Suffix{Suffix: m.Val}
	case "contains":
		sm.MatchPattern = &v3matcherpb.StringMatcher_Contains{Contains: m.Val}
	case "regex":
		sm.MatchPattern = &v3matcherpb.StringMatcher_SafeRegex{SafeRegex: &v3matcherpb.RegexMatcher{Regex: m.Val}}
	}
	return sm
}

func hdrProto(h *hdrM) *v3routepb.HeaderMatcher {
	hm := &v3routepb.HeaderMatcher{Name: h.Name, InvertMatch: h.Invert}
	switch h.Kind {
	case "exact":
		hm.HeaderMatchSpecifier = &v3routepb.HeaderMatcher_ExactMatch{ExactMatch: h.Val}
	case "regex":
		hm.HeaderMatchSpecifier = &v3routepb.HeaderMatcher_SafeRegexMatch{SafeRegexMatch: &v3matcherpb.RegexMatcher{Regex: h.Val}}
	case "range":
		hm.HeaderMatchSpecifier = &v3routepb.HeaderMatcher_RangeMatch{RangeMatch: &v3typepb.Int64Range{Start: h.Start, End: h.End}}
	case "present":
		hm.HeaderMatchSpecifier = &v3routepb.HeaderMatcher_PresentMatch{PresentMatch: h.Present}
	case "prefix":
		hm.HeaderMatchSpecifier = &v3routepb.HeaderMatcher_PrefixMatch{PrefixMatch: h.Val}
	case "suffix":
		hm.HeaderMatchSpecifier = &v3routepb.HeaderMatcher_SuffixMatch{SuffixMatch: h.Val}
	case "contains":
		hm.HeaderMatchSpecifier = &v3routepb.HeaderMatcher_ContainsMatch{ContainsMatch: h.Val}
	case "string":
		sm := strProto(h.Str)
		if sm == nil {
			sm = &v3matcherpb.StringMatcher{}
		}
		hm.HeaderMatchSpecifier = &v3routepb.HeaderMatcher_StringMatch{StringMatch: sm}
	}
	return hm
}

func cidrProto(c *cidrM) *v3corepb.CidrRange {
	r := &v3corepb.CidrRange{AddressPrefix: cidrAddrs[c.Addr].s}
	if c.Len >= 0 {
		r.PrefixLen = wrapperspb.UInt32(uint32(c.Len))
	}
	return r
}

func pathProto(m *strM) *v3matcherpb.PathMatcher {
	if m == nil {
		return &v3matcherpb.PathMatcher{}
	}
	return &v3matcherpb.PathMatcher{Rule: &v3matcherpb.PathMatcher_Path{Path: strProto(m)}}
}

func permProto(n node) *v3rbacpb.Permission {
	set := func() *v3rbacpb.Permission_Set {
		s := &v3rbacpb.Permission_Set{}
		for _, k := range n.Kids {
			s.Rules = append(s.Rules, permProto(k))
		}
		return s
	}
	switch n.K {
	case "and":
		return &v3rbacpb.Permission{Rule: &v3rbacpb.Permission_AndRules{AndRules: set()}}
	case "or":
		return &v3rbacpb.Permission{Rule: &v3rbacpb.Permission_OrRules{OrRules: set()}}
	case "not":
		return &v3rbacpb.Permission{Rule: &v3rbacpb.Permission_NotRule{NotRule: permProto(n.Kids[0])}}
	case "any":
		return &v3rbacpb.Permission{Rule: &v3rbacpb.Permission_Any{Any: true}}
	case "header":
		return &v3rbacpb.Permission{Rule: &v3rbacpb.Permission_Header{Header: hdrProto(n.Hdr)}}
	case "path":
		return &v3rbacpb.Permission{Rule: &v3rbacpb.Permission_UrlPath{UrlPath: pathProto(n.Str)}}
	case "dst_ip":
		return &v3rbacpb.Permission{Rule: &v3rbacpb.Permission_DestinationIp{DestinationIp: cidrProto(n.Cidr)}}
	case "dst_port":
		return &v3rbacpb.Permission{Rule: &v3rbacpb.Permission_DestinationPort{DestinationPort: n.Port}}
	case "metadata":
		return &v3rbacpb.Permission{Rule: &v3rbacpb.Permission_Metadata{Metadata: &v3matcherpb.MetadataMatcher{Invert: n.Inv}}}
	case "sni":
		sm := strProto(n.Str)
		if sm == nil {
			sm = &v3matcherpb.StringMatcher{}
		}
		return &v3rbacpb.Permission{Rule: &v3rbacpb.Permission_RequestedServerName{RequestedServerName: sm}}
	case "x_port_range":
		return &v3rbacpb.Permission{Rule: &v3rbacpb.Permission_DestinationPortRange{DestinationPortRange: &v3typepb.Int32Range{Start: 0, End: 65536}}}
	case "x_matcher":
		return &v3rbacpb.Permission{Rule: &v3rbacpb.Permission_Matcher{Matcher: &v3corepb.TypedExtensionConfig{Name: "m"}}}
	case "x_uri_template":
		return &v3rbacpb.Permission{Rule: &v3rbacpb.Permission_UriTemplate{UriTemplate: &v3corepb.TypedExtensionConfig{Name: "u"}}}
	case "x_sourced_md":
		return &v3rbacpb.Permission{Rule: &v3rbacpb.Permission_SourcedMetadata{SourcedMetadata: &v3rbacpb.SourcedMetadata{MetadataMatcher: &v3matcherpb.MetadataMatcher{Invert: true}}}}
	default: // x_nil
		return &v3rbacpb.Permission{}
	}
}

func princProto(n node) *v3rbacpb.Principal {
	set := func() *v3rbacpb.Principal_Set {
		s := &v3rbacpb.Principal_Set{}
		for _, k := range n.Kids {
			s.Ids = append(s.Ids, princProto(k))
		}
		return s
	}
	switch n.K {
	case "and":
		return &v3rbacpb.Principal{Identifier: &v3rbacpb.Principal_AndIds{AndIds: set()}}
	case "or":
		return &v3rbacpb.Principal{Identifier: &v3rbacpb.Principal_OrIds{OrIds: set()}}
	case "not":
		return &v3rbacpb.Principal{Identifier: &v3rbacpb.Principal_NotId{NotId: princProto(n.Kids[0])}}
	case "any":
		return &v3rbacpb.Principal{Identifier: &v3rbacpb.Principal_Any{Any: true}}
	case "auth":
		return &v3rbacpb.Principal{Identifier: &v3rbacpb.Principal_Authenticated_{Authenticated: &v3rbacpb.Principal_Authenticated{PrincipalName: strProto(n.Str)}}}
	case "direct_ip":
		return &v3rbacpb.Principal{Identifier: &v3rbacpb.Principal_DirectRemoteIp{DirectRemoteIp: cidrProto(n.Cidr)}}
	case "source_ip":
		return &v3rbacpb.Principal{Identifier: &v3rbacpb.Principal_SourceIp{SourceIp: cidrProto(n.Cidr)}}
	case "remote_ip":
		return &v3rbacpb.Principal{Identifier: &v3rbacpb.Principal_RemoteIp{RemoteIp: cidrProto(n.Cidr)}}
	case "header":
		return &v3rbacpb.Principal{Identifier: &v3rbacpb.Principal_Header{Header: hdrProto(n.Hdr)}}
	case "path":
		return &v3rbacpb.Principal{Identifier: &v3rbacpb.Principal_UrlPath{UrlPath: pathProto(n.Str)}}
	case "metadata":
		return &v3rbacpb.Principal{Identifier: &v3rbacpb.Principal_Metadata{Metadata: &v3matcherpb.MetadataMatcher{Invert: n.Inv}}}
	case "x_filter_state":
		return &v3rbacpb.Principal{Identifier: &v3rbacpb.Principal_FilterState{FilterState: &v3matcherpb.FilterStateMatcher{Key: "k"}}}
	case "x_sourced_md":
		return &v3rbacpb.Principal{Identifier: &v3rbacpb.Principal_SourcedMetadata{SourcedMetadata: &v3rbacpb.SourcedMetadata{MetadataMatcher: &v3matcherpb.MetadataMatcher{Invert: true}}}}
	case "x_custom":
		return &v3rbacpb.Principal{Identifier: &v3rbacpb.Principal_Custom{Custom: &v3corepb.TypedExtensionConfig{Name: "c"}}}
	default:
		return &v3rbacpb.Principal{}
	}
}

func chainProto(chain []engineP) ([]*v3rbacpb.RBAC, error) {
	var out []*v3rbacpb.RBAC
	for _, e := range chain {
		r := &v3rbacpb.RBAC{Policies: map[string]*v3rbacpb.Policy{}}
		switch e.Action {
		case "ALLOW":
			r.Action = v3rbacpb.RBAC_ALLOW
		case "DENY":
			r.Action = v3rbacpb.RBAC_DENY
		default:
			r.Action = v3rbacpb.RBAC_LOG
		}
		for _, p := range e.Policies {
			pol := &v3rbacpb.Policy{}
			for _, n := range p.Perms {
				pol.Permissions = append(pol.Permissions, permProto(n))
			}
			for _, n := range p.Princs {
				pol.Principals = append(pol.Principals, princProto(n))
			}
			r.Policies[p.Name] = pol
		}
		// what arrives over xDS went through the wire format
		b, err := proto.Marshal(r)
		if err != nil {
			return nil, err
		}
		r2 := &v3rbacpb.RBAC{}
		if err := proto.Unmarshal(b, r2); err != nil {
			return nil, err
		}
		out = append(out, r2)
	}
	return out, nil
}

// ------------------------------------------------------------------ reference evaluator

func asciiLower(s string) string {
	b := []byte(s)
	for i, c := range b {
		if c >= 'A' && c <= 'Z' {
			b[i] = c + 32
		}
	}
	return string(b)
}

func regexOK(p string) bool {
	if v, ok := regexValid[p]; ok {
		return v
	}
	return true
}

func fullMatch(p, s string) bool {
	return regexp.MustCompile(`\A(?:` + p + `)\z`).MatchString(s)
}

func strValid(m *strM) bool {
	if m == nil {
		return false
	}
	switch m.Kind {
	case "exact":
		return true
	case "prefix", "suffix", "contains":
		return m.Val != ""
	case "regex":
		return regexOK(m.Val)
	}
	return false
}

func strMatch(m *strM, s string) bool {
	v := m.Val
	if m.IC && m.Kind != "regex" {
		v, s = asciiLower(v), asciiLower(s)
	}
	switch m.Kind {
	case "exact":
		return s == v
	case "prefix":
		return len(s) >= len(v) && s[:len(v)] == v
	case "suffix":
		return len(s) >= len(v) && s[len(s)-len(v):] == v
	case "contains":
		return strings.Contains(s, v)
	case "regex":
		return fullMatch(v, s)
	}
	return false
}

func hdrValid(h *hdrM) bool {
	switch h.Kind {
	case "exact", "range", "present", "prefix", "suffix", "contains":
		return true
	case "regex":
		return regexOK(h.Val)
	case "string":
		return strValid(h.Str)
	}
	return false
}

// refReq is the request as the spec sees it.
type refReq struct {
	hdr       map[string]string // joined values, incl. :method and :path
	method    string
	peerIP    net.IP // nil: not an IP address
	localIP   net.IP
	localPort uint32
	tls       bool
	ids       []string
}

func hdrMatch(h *hdrM, r *refReq) bool {
	v, ok := r.hdr[h.Name]
	if h.Kind == "present" {
		return ok == (h.Present != h.Invert) // header values are never empty in this domain
	}
	if !ok {
		return false
	}
	var m bool
	switch h.Kind {
	case "exact":
		m = v == h.Val
	case "regex":
		m = fullMatch(h.Val, v)
	case "range":
		i, err := strconv.ParseInt(v, 10, 64)
		m = err == nil && i >= h.Start && i < h.End
	case "prefix":
		m = strings.HasPrefix(v, h.Val)
	case "suffix":
		m = strings.HasSuffix(v, h.Val)
	case "contains":
		m = strings.Contains(v, h.Val)
	case "string":
		m = strMatch(h.Str, v)
	}
	return m != h.Invert
}

func cidrValid(c *cidrM) bool {
	a := cidrAddrs[c.Addr]
	if !a.valid {
		return false
	}
	bits := 32
	if strings.Contains(a.s, ":") {
		bits = 128
	}
	return c.Len <= bits
}

func cidrMatch(c *cidrM, ip net.IP) bool {
	if ip == nil {
		return false
	}
	a := cidrAddrs[c.Addr].s
	pfx := net.ParseIP(a)
	n := max(c.Len, 0)
	var x, y []byte
	if strings.Contains(a, ":") { // IPv6 prefix: matches only addresses rendered as IPv6
		if ip.To4() != nil {
			return false
		}
		x, y = pfx.To16(), ip.To16()
	} else {
		if ip.To4() == nil {
			return false
		}
		x, y = pfx.To4(), ip.To4()
	}
	for i := 0; i < n; i++ {
		if (x[i/8]>>(7-uint(i%8)))&1 != (y[i/8]>>(7-uint(i%8)))&1 {
			return false
		}
	}
	return true
}

func nodeValid(n node, princ bool) bool {
	switch n.K {
	case "and", "or", "not":
		if n.K == "not" && len(n.Kids) != 1 {
			return false
		}
		for _, k := range n.Kids {
			if !nodeValid(k, princ) {
				return false
			}
		}
		return true
	case "any", "dst_port", "metadata":
		return true
	case "header":
		return hdrValid(n.Hdr)
	case "path", "sni":
		return strValid(n.Str)
	case "auth":
		return n.Str == nil || strValid(n.Str)
	case "dst_ip", "direct_ip", "source_ip", "remote_ip":
		return cidrValid(n.Cidr)
	}
	return false // x_* kinds are unsupported
}

func nodeMatch(n node, r *refReq) bool {
	switch n.K {
	case "and":
		for _, k := range n.Kids {
			if !nodeMatch(k, r) {
				return false
			}
		}
		return true
	case "or":
		for _, k := range n.Kids {
			if nodeMatch(k, r) {
				return true
			}
		}
		return false
	case "not":
		return !nodeMatch(n.Kids[0], r)
	case "any":
		return true
	case "header":
		return hdrMatch(n.Hdr, r)
	case "path":
		return strMatch(n.Str, r.method)
	case "sni":
		return strMatch(n.Str, "")
	case "dst_ip":
		return cidrMatch(n.Cidr, r.localIP)
	case "direct_ip", "source_ip", "remote_ip":
		return cidrMatch(n.Cidr, r.peerIP)
	case "dst_port":
		return n.Port == r.localPort
	case "metadata":
		return n.Inv
	case "auth":
		if !r.tls {
			return false
		}
		if n.Str == nil {
			return true
		}
		for _, id := range r.ids {
			if strMatch(n.Str, id) {
				return true
			}
		}
		return false
	}
	return false
}

func chainValid(chain []engineP) bool {
	for _, e := range chain {
		if e.Action != "ALLOW" && e.Action != "DENY" {
			return false
		}
		for _, p := range e.Policies {
			for _, n := range p.Perms {
				if !nodeValid(n, false) {
					return false
				}
			}
			for _, n := range p.Princs {
				if !nodeValid(n, true) {
					return false
				}
			}
		}
	}
	return true
}

// chainAllows is the statement: a DENY engine rejects if some policy matches, an
// ALLOW engine rejects if none matches; a policy matches when one of its
// permissions and one of its principals match.
func chainAllows(chain []engineP, r *refReq) bool {
	for _, e := range chain {
		matched := false
		for _, p := range e.Policies {
			perm, princ := false, false
			for _, n := range p.Perms {
				perm = perm || nodeMatch(n, r)
			}
			for _, n := range p.Princs {
				princ = princ || nodeMatch(n, r)
			}
			if perm && princ {
				matched = true
			}
		}
		if e.Action == "ALLOW" && !matched {
			return false
		}
		if e.Action == "DENY" && matched {
			return false
		}
	}
	return true
}

// ------------------------------------------------------------------ request -> context (public APIs) and -> refReq

type fakeStream struct{ method string }

func (s *fakeStream) Method() string               { return s.method }
func (s *fakeStream) SetHeader(metadata.MD) error  { return nil }
func (s *fakeStream) SendHeader(metadata.MD) error { return nil }
func (s *fakeStream) SetTrailer(metadata.MD) error { return nil }

type fakeConn struct {
	net.Conn
	local net.Addr
}

func (c *fakeConn) LocalAddr() net.Addr { return c.local }

type otherAuth struct{ credentials.CommonAuthInfo }

func (otherAuth) AuthType() string { return "insecure" }

func ipOf(idx int, keep16 bool) net.IP {
	ip := net.ParseIP(reqAddrs[idx%len(reqAddrs)])
	if ip4 := ip.To4(); ip4 != nil && !keep16 {
		return ip4
	}
	return ip
}

func buildCtx(r reqP) (context.Context, *refReq) {
	pool := certs()
	ref := &refReq{hdr: map[string]string{}, method: r.Method}
	md := metadata.MD{}
	for _, kv := range r.MD {
		if len(kv) < 2 {
			continue
		}
		md.Append(kv[0], kv[1:]...)
		ref.hdr[kv[0]] = strings.Join(md.Get(kv[0]), ",")
	}
	ref.hdr[":method"] = "POST"
	ref.hdr[":path"] = r.Method
	ctx := metadata.NewIncomingContext(context.Background(), md)

	p := &peer.Peer{}
	if r.PeerNet == "unix" {
		p.Addr = &net.UnixAddr{Name: "/run/c48.sock", Net: "unix"}
	} else {
		ip := ipOf(r.PeerIP, r.Peer16)
		p.Addr = &net.TCPAddr{IP: ip, Port: r.PeerPort}
		ref.peerIP = ip
	}
	switch r.Auth {
	case "other":
		p.AuthInfo = otherAuth{}
	case "tls", "tls_nocert":
		st := tls.ConnectionState{}
		ref.tls = true
		ref.ids = []string{""}
		if r.Auth == "tls" {
			ci := pool[((r.Cert%len(pool))+len(pool))%len(pool)]
			st.PeerCertificates = []*x509.Certificate{ci.cert}
			if r.Cert2 >= 0 {
				st.PeerCertificates = append(st.PeerCertificates, pool[r.Cert2%len(pool)].cert)
			}
			ref.ids = ci.ids
		}
		p.AuthInfo = credentials.TLSInfo{State: st, CommonAuthInfo: credentials.CommonAuthInfo{SecurityLevel: credentials.PrivacyAndIntegrity}}
	}
	ctx = peer.NewContext(ctx, p)
	ctx = grpc.NewContextWithServerTransportStream(ctx, &fakeStream{method: r.Method})
	lip := ipOf(r.LocalIP, r.Local16)
	ctx = transport.SetConnection(ctx, &fakeConn{local: &net.TCPAddr{IP: lip, Port: r.LocalPort}})
	ref.localIP, ref.localPort = lip, uint32(r.LocalPort)
	return ctx, ref
}

// ------------------------------------------------------------------ shape metrics

func shape(n node) (depth int, hasNot bool) {
	for _, k := range n.Kids {
		d, h := shape(k)
		depth = max(depth, d)
		hasNot = hasNot || h
	}
	if n.K == "and" || n.K == "or" || n.K == "not" {
		return depth + 1, hasNot || n.K == "not"
	}
	return 0, false
}

func kinds(n node, pfx string, into map[string]bool) {
	into[pfx+n.K] = true
	if n.Hdr != nil {
		into["hdr="+n.Hdr.Kind] = true
	}
	for _, k := range n.Kids {
		kinds(k, pfx, into)
	}
}

// ------------------------------------------------------------------ run

func runRBAC(_ *testing.T, p rbacPlan) (res vk.Result) {
	defer func() {
		if r := recover(); r != nil {
			res = vk.Bad("panic: %v", r)
		}
	}()
	protos, err := chainProto(p.Chain)
	if err != nil {
		return vk.Result{Discard: true}
	}
	valid := chainValid(p.Chain)
	eng, err := rbac.NewChainEngine(protos, "c48")
	cls := map[string]bool{}
	if !valid {
		if err == nil {
			return vk.Bad("NewChainEngine accepted a configuration with an unsupported / malformed rule: %+v", p.Chain)
		}
		return vk.OK(false, "config_rejected")
	}
	if err != nil {
		return vk.Bad("NewChainEngine rejected a supported configuration: %v", err)
	}
	maxDepth, anyNot, princRule := 0, false, false
	for _, e := range p.Chain {
		cls["action="+e.Action] = true
		for _, pol := range e.Policies {
			for _, n := range pol.Perms {
				d, h := shape(n)
				if d >= 3 && h {
					anyNot = true
				}
				maxDepth = max(maxDepth, d)
				kinds(n, "perm=", cls)
			}
			for _, n := range pol.Princs {
				d, h := shape(n)
				if d >= 3 && h {
					anyNot = true
				}
				maxDepth = max(maxDepth, d)
				kinds(n, "princ=", cls)
				if n.K != "any" {
					princRule = true
				}
			}
		}
	}
	cls["depth="+strconv.Itoa(maxDepth)] = true
	cls["engines="+strconv.Itoa(len(p.Chain))] = true
	for i, r := range p.Reqs {
		ctx, ref := buildCtx(r)
		want := chainAllows(p.Chain, ref)
		got := eng.IsAuthorized(ctx)
		if want {
			cls["decision=allow"] = true
		} else {
			cls["decision=deny"] = true
		}
		if want && got != nil {
			return vk.Bad("request %d %+v: policy semantics allow the RPC, engine returned %v", i, r, got)
		}
		if !want && got == nil {
			return vk.Bad("request %d %+v: policy semantics deny the RPC, engine authorized it", i, r)
		}
		if !want && status.Code(got) != codes.PermissionDenied {
			return vk.Bad("request %d: denied with code %v, want PermissionDenied (%v)", i, status.Code(got), got)
		}
		cls["auth="+r.Auth] = true
	}
	res = vk.Result{NonTrivial: maxDepth >= 3 && anyNot && princRule}
	for k := range cls {
		res.Classes = append(res.Classes, k)
	}
	return res
}

func TestVerifC48RBAC(t *testing.T) {
	vk.Check(t, vk.Unit[rbacPlan]{
		ID: "C48", Name: "rbac",
		Rule: "chains of 0-3 engines (ALLOW/DENY, LOG in the invalid fifth), 0-3 policies each with 0-3 permission and principal trees of depth <= 5 over every rule kind the engine accepts (and/or/not/any, all eight header specifiers incl. invert, url_path, destination_ip/port, metadata, requested_server_name; principals any/authenticated/direct_remote_ip/source_ip/remote_ip/header/url_path/metadata) plus the unsupported kinds and malformed matchers (one case in five), evaluated on 1-4 requests (method, headers, TCP v4/v6 or unix peer, local address, none/other/TLS auth with a pool of real certificates exercising URI-SAN > DNS-SAN > subject). non-trivial = accepted config with and/or/not nesting >= 3 containing a not, and a principal rule other than any",
		Gen:  genRBAC, Run: runRBAC,
	})
}
