package c27_test

// C27: compression is negotiated and applied consistently.
//
// Unit "negotiate": real client + real server over bufconn in a bubble; every
// byte of the connection is decoded independently (x/net/http2 + hpack), so
// the oracle sees grpc-encoding, grpc-accept-encoding and the compressed-flag
// byte of every message in both directions.
// The server handler executes a generated sequence of SetSendCompressor /
// SetHeader / SendHeader / SetTrailer / SendMsg operations (c27_ops_test.go);
// unit "hdrorder" is the same check with a generator focused on
// SetSendCompressor -> explicit SendHeader -> messages.
// Unit "rawenc" (c27_raw_test.go): scripted raw HTTP/2 client against the real
// server with arbitrary grpc-encoding / flag / payload combinations.
//
// Reading (DESIGN §5): flag 1 => non-identity grpc-encoding and the payload
// decompresses (with that encoding) to the message; flag 0 => payload is the
// raw message; for non-empty messages flag 1 <=> non-identity encoding.

import (
	"bytes"
	"compress/gzip"
	"context"
	"fmt"
	"io"
	"strings"
	"sync"
	"testing"
	"testing/synctest"
	"time"

	"google.golang.org/grpc"
	"google.golang.org/grpc/codes"
	"google.golang.org/grpc/encoding"
	_ "google.golang.org/grpc/encoding/gzip"
	"google.golang.org/grpc/experimental"
	"google.golang.org/grpc/internal/verifkit/e2e"
	"google.golang.org/grpc/internal/verifkit/vk"
	"google.golang.org/grpc/status"
	"pgregory.net/rapid"
)

// ---------------------------------------------------------------- harness compressors

const (
	nameA       = "verifxor27"  // registered
	nameB       = "verifrev27"  // registered
	nameLegacyC = "legacyc27"   // client-side legacy Compressor, never registered
	nameLegacyS = "srvlegacy27" // server-side legacy Compressor, never registered
	nameNope    = "nope27"      // never registered, no implementation
)

// tagged transform: prefix + f(bytes); decoding verifies the prefix so that
// decoding with the wrong compressor is an error, never silent garbage.
type xform struct {
	name   string
	prefix string
	enc    func([]byte) []byte
	dec    func([]byte) []byte
}

func xor(k byte) func([]byte) []byte {
	return func(b []byte) []byte {
		o := make([]byte, len(b))
		for i, c := range b {
			o[i] = c ^ k
		}
		return o
	}
}

func rev(b []byte) []byte {
	o := make([]byte, len(b))
	for i, c := range b {
		o[len(b)-1-i] = c
	}
	return o
}

var xforms = map[string]*xform{
	nameA:       {nameA, "XA", xor(0x5a), xor(0x5a)},
	nameB:       {nameB, "RB", rev, rev},
	nameLegacyC: {nameLegacyC, "LC", xor(0x33), xor(0x33)},
	nameLegacyS: {nameLegacyS, "SL", xor(0x77), xor(0x77)},
}

func (x *xform) encode(b []byte) []byte { return append([]byte(x.prefix), x.enc(b)...) }
func (x *xform) decode(b []byte) ([]byte, error) {
	if !bytes.HasPrefix(b, []byte(x.prefix)) {
		return nil, fmt.Errorf("%s: bad prefix in %q", x.name, b)
	}
	return x.dec(b[len(x.prefix):]), nil
}

// regCompressor adapts an xform to encoding.Compressor.
type regCompressor struct{ x *xform }

func (c regCompressor) Name() string { return c.x.name }

type bufWC struct {
	w   io.Writer
	x   *xform
	buf bytes.Buffer
}

func (z *bufWC) Write(p []byte) (int, error) { return z.buf.Write(p) }
func (z *bufWC) Close() error                { _, err := z.w.Write(z.x.encode(z.buf.Bytes())); return err }

func (c regCompressor) Compress(w io.Writer) (io.WriteCloser, error) {
	return &bufWC{w: w, x: c.x}, nil
}
func (c regCompressor) Decompress(r io.Reader) (io.Reader, error) {
	b, err := io.ReadAll(r)
	if err != nil {
		return nil, err
	}
	out, err := c.x.decode(b)
	if err != nil {
		return nil, err
	}
	return bytes.NewReader(out), nil
}

// legacy adapts an xform to the deprecated grpc.Compressor / grpc.Decompressor.
type legacy struct{ x *xform }

func (l legacy) Do(w io.Writer, p []byte) error { _, err := w.Write(l.x.encode(p)); return err }
func (l legacy) Type() string                   { return l.x.name }

type legacyDC struct{ x *xform }

func (l legacyDC) Do(r io.Reader) ([]byte, error) {
	b, err := io.ReadAll(r)
	if err != nil {
		return nil, err
	}
	return l.x.decode(b)
}
func (l legacyDC) Type() string { return l.x.name }

func init() {
	encoding.RegisterCompressor(regCompressor{xforms[nameA]})
	encoding.RegisterCompressor(regCompressor{xforms[nameB]})
}

var registered = []string{"gzip", nameA, nameB}

func isRegistered(n string) bool {
	for _, r := range registered {
		if r == n {
			return true
		}
	}
	return false
}

// decodeBy is the oracle's independent decoder for a named encoding.
func decodeBy(name string, payload []byte) ([]byte, error) {
	if name == "gzip" {
		zr, err := gzip.NewReader(bytes.NewReader(payload))
		if err != nil {
			return nil, err
		}
		return io.ReadAll(zr)
	}
	if x, ok := xforms[name]; ok {
		return x.decode(payload)
	}
	return nil, fmt.Errorf("oracle has no decoder for %q", name)
}

func nonIdentity(e string) bool { return e != "" && e != "identity" }

// ---------------------------------------------------------------- plan

type plan struct {
	CliUse      string   `json:"cli_use"`       // UseCompressor(name); "" = not used
	CliLegacyCP string   `json:"cli_legacy_cp"` // WithCompressor: "", legacyc27, gzip
	CliLegacyDC string   `json:"cli_legacy_dc"` // WithDecompressor: "", srvlegacy27, gzip
	CliAccept   []string `json:"cli_accept"`    // experimental.AcceptCompressors; nil = not used
	SrvLegacyCP string   `json:"srv_legacy_cp"` // RPCCompressor: "", srvlegacy27, gzip
	SrvLegacyDC string   `json:"srv_legacy_dc"` // RPCDecompressor: "", legacyc27, gzip
	Stream      bool     `json:"stream"`
	Shape       string   `json:"shape,omitempty"` // streaming: "" = bidi, "server" = server-streaming (one request)
	Reqs        [][]byte `json:"reqs"`
	// Ops is the sequence of header / compressor / send operations the handler
	// executes (c27_ops_test.go); Pre of them run before a streaming handler
	// starts receiving.
	Ops []srvOp `json:"ops"`
	Pre int     `json:"pre,omitempty"`
	// Only in plans written before Ops existed (Ops == null): SetSendCompressor
	// at handler entry, then one send per response.
	SrvSet string   `json:"srv_set,omitempty"`
	Resps  [][]byte `json:"resps,omitempty"`
}

func genMsg(rt *rapid.T) []byte {
	switch rapid.IntRange(0, 5).Draw(rt, "msg_kind") {
	case 0, 1:
		return []byte{}
	case 2:
		return bytes.Repeat([]byte{byte(rapid.IntRange(0, 255).Draw(rt, "fill"))}, rapid.IntRange(1, 600).Draw(rt, "n"))
	case 3: // looks like a compressed payload of one of the harness formats
		return []byte(rapid.SampledFrom([]string{"XA", "RB", "XAabc", "\x1f\x8b\x08", "LC", "SL"}).Draw(rt, "lookalike"))
	default:
		return rapid.SliceOfN(rapid.Byte(), 1, 64).Draw(rt, "bytes")
	}
}

// genMsgs draws n messages; for n >= 2 half of the lists are forced to contain
// both an empty and a non-empty message.
func genMsgs(rt *rapid.T, n int, label string) [][]byte {
	var out [][]byte
	for i := 0; i < n; i++ {
		out = append(out, genMsg(rt))
	}
	if n >= 2 && rapid.Bool().Draw(rt, label+"_mix") {
		pos := rapid.IntRange(0, n-1).Draw(rt, label+"_pos")
		out[pos] = []byte{}
		other := (pos + 1 + rapid.IntRange(0, n-2).Draw(rt, label+"_other")) % n
		if len(out[other]) == 0 {
			out[other] = []byte("non-empty")
		}
	}
	return out
}

// genConfig draws the client / server compression configuration and the
// requests. focused = only configurations in which the RPC reaches the handler
// (used by unit "hdrorder", whose subject is the handler's operation order).
func genConfig(rt *rapid.T, focused bool) plan {
	p := plan{Stream: rapid.IntRange(0, 4).Draw(rt, "stream") > 0}
	if p.Stream && rapid.IntRange(0, 4).Draw(rt, "server_streaming") == 0 {
		p.Shape = "server"
	}
	if focused {
		p.CliUse = rapid.SampledFrom([]string{"", "", "", "gzip", "gzip", nameA, nameB, "identity"}).Draw(rt, "cli_use")
	} else {
		p.CliUse = rapid.SampledFrom([]string{"", "", "gzip", nameA, nameA, nameB, nameB, "identity", nameNope}).Draw(rt, "cli_use")
	}
	p.CliLegacyCP = rapid.SampledFrom([]string{"", "", "", nameLegacyC, nameLegacyC, "gzip"}).Draw(rt, "cli_legacy_cp")
	p.CliLegacyDC = rapid.SampledFrom([]string{"", "", "", nameLegacyS, "gzip"}).Draw(rt, "cli_legacy_dc")
	if rapid.IntRange(0, 2).Draw(rt, "accept_set") == 0 {
		n := rapid.IntRange(1, 4).Draw(rt, "naccept")
		hasReal := false
		for i := 0; i < n; i++ {
			a := rapid.SampledFrom([]string{"gzip", nameA, nameB, "identity", " " + nameA + " ", nameB, ""}).Draw(rt, "accept")
			if isRegistered(strings.TrimSpace(a)) {
				hasReal = true
			}
			p.CliAccept = append(p.CliAccept, a)
		}
		if !hasReal { // an effectively empty list means "no restriction" (documented otherwise): keep it out
			p.CliAccept = append(p.CliAccept, rapid.SampledFrom(registered).Draw(rt, "accept_real"))
		}
	}
	p.SrvLegacyCP = rapid.SampledFrom([]string{"", "", "", "", nameLegacyS, "gzip"}).Draw(rt, "srv_legacy_cp")
	p.SrvLegacyDC = rapid.SampledFrom([]string{"", "", "", nameLegacyC, nameLegacyC, "gzip"}).Draw(rt, "srv_legacy_dc")
	if focused && p.CliUse == "" && p.CliLegacyCP == nameLegacyC {
		p.SrvLegacyDC = nameLegacyC // otherwise the server answers UNIMPLEMENTED before the handler runs
	}
	nreq := 1
	if p.Stream && p.Shape == "" {
		nreq = rapid.SampledFrom([]int{1, 2, 2, 3, 4}).Draw(rt, "nreq")
	}
	p.Reqs = genMsgs(rt, nreq, "req")
	return p
}

func genPlan(rt *rapid.T) plan {
	p := genConfig(rt, false)
	p.Ops, p.Pre = genOps(rt, p.Stream)
	return p
}

func genPlanFocused(rt *rapid.T) plan {
	p := genConfig(rt, true)
	p.Ops, p.Pre = genOpsFocused(rt, p)
	return p
}

// ---------------------------------------------------------------- reference

func normAccept(a []string) []string {
	var out []string
	seen := map[string]bool{}
	for _, n := range a {
		n = strings.TrimSpace(n)
		if n == "" || n == "identity" || seen[n] {
			continue
		}
		seen[n] = true
		out = append(out, n)
	}
	return out
}

func contains(l []string, s string) bool {
	for _, x := range l {
		if x == s {
			return true
		}
	}
	return false
}

// expectedReqEncoding: UseCompressor wins over WithCompressor (documented).
func expectedReqEncoding(p plan) string {
	if p.CliUse != "" {
		return p.CliUse
	}
	return p.CliLegacyCP
}

func serverCanDecode(p plan, e string) bool {
	return isRegistered(e) || (p.SrvLegacyDC != "" && p.SrvLegacyDC == e)
}
func clientCanDecode(p plan, e string) bool {
	return isRegistered(e) || (p.CliLegacyDC != "" && p.CliLegacyDC == e)
}

// checkMessages applies the flag/encoding reading to one direction.
func checkMessages(dir, enc string, msgs []e2e.GRPCMessage, originals [][]byte) string {
	for i, m := range msgs {
		if i >= len(originals) {
			return fmt.Sprintf("%s: %d messages on the wire, only %d were sent", dir, len(msgs), len(originals))
		}
		orig := originals[i]
		switch m.Flag {
		case 0:
			if !bytes.Equal(m.Payload, orig) {
				return fmt.Sprintf("%s message %d: flag 0 but payload %q is not the raw message %q (grpc-encoding %q)", dir, i, m.Payload, orig, enc)
			}
			if len(orig) > 0 && nonIdentity(enc) {
				return fmt.Sprintf("%s message %d: non-empty message sent uncompressed (flag 0) on a stream with grpc-encoding %q", dir, i, enc)
			}
		case 1:
			if !nonIdentity(enc) {
				return fmt.Sprintf("%s message %d: compressed flag set but grpc-encoding is %q", dir, i, enc)
			}
			dec, err := decodeBy(enc, m.Payload)
			if err != nil {
				return fmt.Sprintf("%s message %d: flag 1 with grpc-encoding %q but the payload does not decode with it: %v", dir, i, enc, err)
			}
			if !bytes.Equal(dec, orig) {
				return fmt.Sprintf("%s message %d: payload decodes (%s) to %q, message was %q", dir, i, enc, dec, orig)
			}
		default:
			return fmt.Sprintf("%s message %d: flag byte %d", dir, i, m.Flag)
		}
	}
	return ""
}

// ---------------------------------------------------------------- executor

type srvLog struct {
	mu      sync.Mutex
	calls   int
	reqs    [][]byte
	results []error // return value of the k-th executed handler operation
	adv     []string
}

func run(t *testing.T, p plan) vk.Result {
	var res vk.Result
	msg := vk.Bubble(t, func(t *testing.T) { res = runInBubble(p) })
	if msg != "" && res.Violation == "" {
		return vk.Bad("harness/bubble: %s", msg).With(res.Classes...)
	}
	return res
}

func legacyCP(name string) grpc.Compressor {
	if name == "gzip" {
		return grpc.NewGZIPCompressor()
	}
	return legacy{xforms[name]}
}

func legacyDCOf(name string) grpc.Decompressor {
	if name == "gzip" {
		return grpc.NewGZIPDecompressor()
	}
	return legacyDC{xforms[name]}
}

func runInBubble(p plan) vk.Result {
	out := vk.Result{}
	seenCls := map[string]bool{}
	cls := func(c string) {
		if !seenCls[c] {
			seenCls[c] = true
			out.Classes = append(out.Classes, c)
		}
	}
	ops, pre := p.handlerOps()
	reqs := p.Reqs
	if p.Stream && p.Shape == "server" && len(reqs) > 1 {
		reqs = reqs[:1]
	}
	log := &srvLog{}
	onEntry := func(ctx context.Context) {
		log.mu.Lock()
		log.calls++
		log.mu.Unlock()
		if adv, err := grpc.ClientSupportedCompressors(ctx); err == nil {
			log.mu.Lock()
			log.adv = adv
			log.mu.Unlock()
		}
	}
	// do executes one handler operation and records its result.
	do := func(ctx context.Context, st grpc.ServerStream, op srvOp) error {
		err := execOp(ctx, st, op)
		log.mu.Lock()
		log.results = append(log.results, err)
		log.mu.Unlock()
		return err
	}
	opts := e2e.Options{
		Tap: &e2e.Tap{},
		Unary: func(ctx context.Context, req []byte) ([]byte, error) {
			onEntry(ctx)
			log.mu.Lock()
			log.reqs = append(log.reqs, req)
			log.mu.Unlock()
			// handlerOps: a unary sequence ends with exactly one send = the return value
			for _, op := range ops[:len(ops)-1] {
				_ = do(ctx, nil, op)
			}
			return ops[len(ops)-1].Msg, nil
		},
		Stream: func(st grpc.ServerStream) error {
			onEntry(st.Context())
			for _, op := range ops[:pre] {
				_ = do(st.Context(), st, op)
			}
			for {
				b, err := e2e.RecvBytes(st)
				if err == io.EOF {
					break
				}
				if err != nil {
					return err
				}
				log.mu.Lock()
				log.reqs = append(log.reqs, b)
				log.mu.Unlock()
			}
			for _, op := range ops[pre:] {
				if err := do(st.Context(), st, op); err != nil && op.Kind == opSend {
					return err
				}
			}
			return nil
		},
	}
	tap := opts.Tap
	if p.SrvLegacyCP != "" {
		opts.ServerOpts = append(opts.ServerOpts, grpc.RPCCompressor(legacyCP(p.SrvLegacyCP)))
	}
	if p.SrvLegacyDC != "" {
		opts.ServerOpts = append(opts.ServerOpts, grpc.RPCDecompressor(legacyDCOf(p.SrvLegacyDC)))
	}
	if p.CliLegacyCP != "" {
		opts.DialOpts = append(opts.DialOpts, grpc.WithCompressor(legacyCP(p.CliLegacyCP)))
	}
	if p.CliLegacyDC != "" {
		opts.DialOpts = append(opts.DialOpts, grpc.WithDecompressor(legacyDCOf(p.CliLegacyDC)))
	}
	pair, err := e2e.Start(opts)
	if err != nil {
		return vk.Bad("harness: start: %v", err)
	}
	defer pair.Close()
	var co []grpc.CallOption
	if p.CliUse != "" {
		co = append(co, grpc.UseCompressor(p.CliUse))
	}
	if p.CliAccept != nil {
		co = append(co, experimental.AcceptCompressors(p.CliAccept...))
	}
	ctx, cancel := context.WithTimeout(context.Background(), 60*time.Second)
	defer cancel()

	var finalErr error
	var gotResps [][]byte
	if !p.Stream {
		cls("shape_unary")
		resp, err := pair.Unary(ctx, e2e.UnaryMethod, reqs[0], co...)
		finalErr = err
		if err == nil {
			gotResps = append(gotResps, resp)
		}
	} else {
		method, clientStreams := e2e.StreamMethod, true
		if p.Shape == "server" {
			method, clientStreams = e2e.SStreamMethod, false
			cls("shape_server_streaming")
		} else {
			cls("shape_bidi")
		}
		cs, err := pair.NewStream(ctx, method, clientStreams, true, co...)
		if err != nil {
			finalErr = err
		} else {
			for _, r := range reqs {
				if err := e2e.SendBytes(cs, r); err != nil {
					if err != io.EOF {
						finalErr = err
					}
					break
				}
			}
			if finalErr == nil {
				_ = cs.CloseSend()
				for {
					b, err := e2e.RecvBytes(cs)
					if err == io.EOF {
						break
					}
					if err != nil {
						finalErr = err
						break
					}
					gotResps = append(gotResps, b)
				}
			}
		}
	}
	cancel()
	pair.Close()
	synctest.Wait()
	log.mu.Lock()
	defer log.mu.Unlock()

	bad := func(f string, a ...any) vk.Result {
		v := vk.Bad(f, a...)
		v.Classes = out.Classes
		return v
	}

	// ---- decode the wire
	c2s, s2c := tap.Bytes(0)
	cf, err1 := e2e.DecodeWire(c2s, true)
	sf, err2 := e2e.DecodeWire(s2c, false)
	if err1 != nil || err2 != nil {
		return bad("wire log does not decode: %v / %v", err1, err2)
	}
	ids := e2e.StreamIDs(cf)

	// ---- client asked for an encoding it has no compressor for: nothing may be sent
	wantReqEnc := expectedReqEncoding(p)
	if p.CliUse != "" && p.CliUse != "identity" && !isRegistered(p.CliUse) {
		cls("client_unregistered_compressor")
		if finalErr == nil {
			return bad("UseCompressor(%q) (not registered) but the RPC succeeded", p.CliUse)
		}
		if len(ids) != 0 {
			return bad("UseCompressor(%q) (not registered): %d streams on the wire, want none", p.CliUse, len(ids))
		}
		cls("client_unregistered_code_" + status.Code(finalErr).String())
		return out
	}
	if len(ids) != 1 {
		return bad("harness: %d streams on the wire (client err %v)", len(ids), finalErr)
	}
	id := ids[0]
	reqH := e2e.HeadersOf(cf, id)
	if len(reqH) != 1 {
		return bad("harness: %d request HEADERS", len(reqH))
	}
	encs := reqH[0].Get("grpc-encoding")
	if len(encs) > 1 {
		return bad("request carries %d grpc-encoding fields: %q", len(encs), encs)
	}
	reqEnc := ""
	if len(encs) == 1 {
		reqEnc = encs[0]
	}
	var adv []string
	for _, v := range reqH[0].Get("grpc-accept-encoding") {
		for _, n := range strings.Split(v, ",") {
			if n = strings.TrimSpace(n); n != "" {
				adv = append(adv, n)
			}
		}
	}
	if reqEnc != wantReqEnc && !(wantReqEnc == "identity" && reqEnc == "") {
		return bad("request grpc-encoding = %q, want %q (UseCompressor %q, WithCompressor %q)", reqEnc, wantReqEnc, p.CliUse, p.CliLegacyCP)
	}
	if p.CliAccept != nil {
		// the advertised list is the accept list (plus a legacy request compressor the client itself uses)
		for _, a := range adv {
			if !contains(normAccept(p.CliAccept), a) && a != reqEnc {
				return bad("client advertises %q which is not in AcceptCompressors%q (advertised %q)", a, p.CliAccept, adv)
			}
		}
		cls("accept_list")
	}
	if nonIdentity(reqEnc) {
		cls("req_compressed")
	}
	reqMsgs, _ := e2e.MessagesOf(cf, id)
	if v := checkMessages("request", reqEnc, reqMsgs, reqs); v != "" {
		return bad("%s", v)
	}
	// non-trivial: non-identity encoding in a direction whose wire carries >= 1 empty and >= 1 non-empty message
	mixed := func(enc string, msgs []e2e.GRPCMessage, orig [][]byte) bool {
		if !nonIdentity(enc) {
			return false
		}
		e, ne := false, false
		for i := range msgs {
			if i < len(orig) && len(orig[i]) == 0 {
				e = true
			} else {
				ne = true
			}
		}
		return e && ne
	}
	mixedCase := mixed(reqEnc, reqMsgs, reqs)

	// ---- server side
	if nonIdentity(reqEnc) && !serverCanDecode(p, reqEnc) {
		cls("server_unsupported_encoding")
		out.NonTrivial = mixedCase
		if status.Code(finalErr) != codes.Unimplemented {
			return bad("server has no decompressor for %q: client status = %v (%v), want Unimplemented", reqEnc, status.Code(finalErr), finalErr)
		}
		if len(log.reqs) != 0 {
			return bad("server has no decompressor for %q but the handler received %d messages: %q", reqEnc, len(log.reqs), log.reqs)
		}
		return out
	}

	// ---- what the response looks like on the wire (independent decode)
	var respHdr []e2e.WireFrame // response HEADERS frames that are not trailers
	for _, h := range e2e.HeadersOf(sf, id) {
		if len(h.Get("grpc-status")) == 0 {
			respHdr = append(respHdr, h)
		}
	}
	if len(respHdr) > 1 {
		return bad("%d response HEADERS frames before the trailers", len(respHdr))
	}
	respEnc := ""
	if len(respHdr) == 1 {
		if e := respHdr[0].Get("grpc-encoding"); len(e) == 1 {
			respEnc = e[0]
		} else if len(e) > 1 {
			return bad("response carries %d grpc-encoding fields", len(e))
		}
	}
	respMsgs, _ := e2e.MessagesOf(sf, id)
	// The client gives up as soon as it sees an encoding it does not accept /
	// the first compressed message it cannot decode; what the handler observes
	// after the headers are out then depends on timing.
	notAccepted := nonIdentity(respEnc) && p.CliAccept != nil && !contains(normAccept(p.CliAccept), respEnc)
	clientMayAbort := notAccepted || (nonIdentity(respEnc) && !clientCanDecode(p, respEnc))

	// ---- reference model of the handler's operation sequence
	def := ""
	switch {
	case p.SrvLegacyCP != "":
		def = p.SrvLegacyCP
	case nonIdentity(reqEnc) && isRegistered(reqEnc):
		def = reqEnc
	}
	m := modelOps(ops, def, adv)
	sent := m.sent
	earlyFlush := m.firstWire >= 0 && m.firstWire < pre // headers on the wire before the handler has read its requests

	// every request is decoded with the named compressor: delivered intact
	if len(log.reqs) != len(reqs) && !(clientMayAbort && earlyFlush && len(log.reqs) < len(reqs)) {
		return bad("handler received %d requests, want %d (encoding %q, client err %v)", len(log.reqs), len(reqs), reqEnc, finalErr)
	}
	for i, b := range log.reqs {
		if !bytes.Equal(b, reqs[i]) {
			return bad("request %d delivered as %q, sent %q (grpc-encoding %q)", i, b, reqs[i], reqEnc)
		}
	}
	if log.calls != 1 {
		return bad("handler ran %d times", log.calls)
	}
	// what the handler sees as advertised == what is on the wire
	if strings.Join(log.adv, ",") != strings.Join(adv, ",") && !(len(adv) == 0 && len(log.adv) == 1 && log.adv[0] == "") {
		return bad("ClientSupportedCompressors = %q, wire grpc-accept-encoding = %q", log.adv, adv)
	}

	// ---- classes of the operation sequence
	if m.setOK {
		cls("set_send_compressor_valid")
	}
	if m.setNotAdvertised {
		cls("set_send_compressor_not_advertised")
	}
	if m.setUnregistered {
		cls("set_send_compressor_unregistered")
	}
	if m.setAfterHeaders {
		cls("ops_set_after_headers_sent")
	}
	if m.setRepeated {
		cls("ops_set_repeated_different_names")
	}
	switch {
	case m.explicitBeforeFirstSend:
		cls("ops_explicit_flush_before_first_send")
	case m.explicitAfterSend:
		cls("ops_explicit_flush_after_send")
	default:
		cls("ops_no_explicit_flush")
	}
	if len(sent) == 0 {
		cls("ops_zero_sends")
	}
	if pre > 0 {
		cls("ops_pre_recv")
	}
	if earlyFlush {
		cls("ops_pre_recv_flush")
	}
	if m.headerMD {
		cls("ops_header_md")
	}
	if m.trailerMD {
		cls("ops_trailer_md")
	}
	if normEnc(m.announced) != normEnc(def) && m.hdrFrame {
		cls("ops_encoding_differs_from_default")
	}
	hdrOrder := m.changedAtFlush && len(sent) > 0
	if hdrOrder {
		cls("set_compressor_then_explicit_header_flush")
		if m.nonEmptySent {
			cls("set_compressor_then_explicit_header_flush_nonempty_msg")
		}
	}

	// ---- SetSendCompressor: nil iff the name is identity or (registered and
	// advertised) and the headers have not been sent; these results do not
	// depend on timing (after the headers are out every call fails).
	for i, err := range log.results {
		if ops[i].Kind != opSet {
			continue
		}
		if (err != nil) != m.wantErr[i] {
			if m.wantErr[i] {
				return bad("handler op %d %v succeeded; it must fail (registered=%v advertised=%v (%q), headers already sent=%v) [ops %v]", i, ops[i], isRegistered(ops[i].Name), contains(adv, ops[i].Name), adv, m.firstWire >= 0 && m.firstWire < i, ops)
			}
			return bad("handler op %d %v failed although the name is identity or registered and advertised (%q) and the headers were not sent yet: %v [ops %v]", i, ops[i], adv, err, ops)
		}
	}

	// ---- the stream's grpc-encoding is the choice in force when the headers went out
	if len(respHdr) == 1 && m.hdrFrame {
		if normEnc(respEnc) != normEnc(m.announced) {
			return bad("response grpc-encoding = %q, want %q (request encoding %q, RPCCompressor %q, handler ops %v)", respEnc, m.announced, reqEnc, p.SrvLegacyCP, ops)
		}
	}
	if nonIdentity(respEnc) {
		cls("resp_compressed")
		if !contains(adv, respEnc) && respEnc != reqEnc {
			if p.SrvLegacyCP != "" {
				cls("legacy_rpccompressor_unadvertised") // documented: RPCCompressor is used regardless
			} else {
				return bad("server compressed the response with %q which the client neither advertised (%q) nor used (%q)", respEnc, adv, reqEnc)
			}
		}
	}
	// ---- every response message against the grpc-encoding that is on the wire
	if v := checkMessages("response", respEnc, respMsgs, sent); v != "" {
		// (RPCCompressor + SetSendCompressor("identity") still compressing was fixed in /repo 56d424b:
		// a recurrence is a plain violation.)
		return bad("%s [RPCCompressor %q, request encoding %q, handler ops %v]", v, p.SrvLegacyCP, reqEnc, ops)
	}
	if mixed(respEnc, respMsgs, sent) {
		mixedCase = true
	}
	out.NonTrivial = mixedCase || (hdrOrder && m.nonEmptySent)

	// ---- the other handler operations (documented header semantics). send and
	// SetTrailer after the headers are out are timing dependent when the
	// client is expected to give up.
	for i, err := range log.results {
		k := ops[i].Kind
		if k == opSet {
			continue
		}
		if clientMayAbort && m.firstWire >= 0 && i >= m.firstWire && (k == opSend || k == opSetTrailer) {
			continue
		}
		if (err != nil) != m.wantErr[i] {
			return bad("handler op %d %v returned %v, want error=%v (headers go out at op %d) [ops %v]", i, ops[i], err, m.wantErr[i], m.firstWire, ops)
		}
	}
	if !clientMayAbort && len(log.results) != len(ops) && !(!p.Stream && len(log.results) == len(ops)-1) {
		return bad("handler executed %d of %d operations [ops %v results %v]", len(log.results), len(ops), ops, log.results)
	}

	// ---- client side
	if notAccepted {
		// rejected as soon as the response headers are seen
		cls("client_encoding_not_accepted")
		if status.Code(finalErr) != codes.Internal {
			return bad("response encoding %q is not in AcceptCompressors%q: status = %v (%v), want Internal", respEnc, p.CliAccept, status.Code(finalErr), finalErr)
		}
		if len(gotResps) != 0 {
			return bad("response encoding %q is not accepted but %d responses were delivered: %q", respEnc, len(gotResps), gotResps)
		}
		return out
	}
	if nonIdentity(respEnc) && !clientCanDecode(p, respEnc) {
		// The client has no decompressor for the announced encoding. Messages
		// sent uncompressed (flag 0: the empty ones) need no decoding; the
		// first compressed message must fail the RPC with INTERNAL and must
		// not be delivered.
		k := -1
		for i, m := range respMsgs {
			if m.Flag == 1 {
				k = i
				break
			}
		}
		if k >= 0 {
			cls("client_unsupported_encoding")
			if status.Code(finalErr) != codes.Internal {
				return bad("client has no decompressor for response encoding %q: status = %v (%v), want Internal", respEnc, status.Code(finalErr), finalErr)
			}
			if len(gotResps) != k {
				return bad("client has no decompressor for %q: %d responses delivered, want the %d uncompressed ones before the first compressed message: %q", respEnc, len(gotResps), k, gotResps)
			}
			for i, b := range gotResps {
				if !bytes.Equal(b, sent[i]) {
					return bad("response %d delivered as %q, sent %q", i, b, sent[i])
				}
			}
			return out
		}
		cls("client_unsupported_encoding_but_all_uncompressed")
	}
	if finalErr != nil {
		return bad("all encodings are supported (request %q, response %q) but the RPC failed: %v [handler ops %v]", reqEnc, respEnc, finalErr, ops)
	}
	if len(gotResps) != len(sent) {
		return bad("client received %d responses, want %d", len(gotResps), len(sent))
	}
	for i, b := range gotResps {
		if !bytes.Equal(b, sent[i]) {
			return bad("response %d delivered as %q, sent %q (grpc-encoding %q)", i, b, sent[i], respEnc)
		}
	}
	if len(respMsgs) != len(sent) || len(reqMsgs) != len(reqs) {
		return bad("wire shows %d/%d request/response messages, want %d/%d", len(reqMsgs), len(respMsgs), len(reqs), len(sent))
	}
	cls("completed")
	return out
}

const opsRule = "server handler = generated sequence of SetSendCompressor {gzip, A, B, identity, unregistered, legacy name; 0-3 calls, repeated with different names} / SetHeader / SendHeader (explicit flush before the first message, after some message, or never) / SetTrailer (grpc.X(ctx) and ServerStream method forms) / SendMsg of 0-4 empty or non-empty messages, a prefix of it optionally before the streaming handler starts receiving; unary, bidi and server-streaming handlers"

func TestVerifC27(t *testing.T) {
	vk.Check(t, vk.Unit[plan]{
		ID: "C27", Name: "negotiate",
		Rule: "one unary, bidi or server-streaming RPC (1-4 requests; messages empty 1/3, runs, look-alikes of compressed payloads, random bytes) per client/server pair; registered compressors gzip + two harness ones; client: UseCompressor {none, gzip, A, B, identity, unregistered}, WithCompressor {none, unregistered legacy, legacy gzip}, WithDecompressor {none, server-legacy type, gzip}, experimental.AcceptCompressors (1/3: 1-4 names incl. identity, spaces, duplicates); server: RPCCompressor {none, unregistered legacy, gzip}, RPCDecompressor {none, client-legacy type, gzip}; " + opsRule + ". non-trivial = a non-identity grpc-encoding in a direction whose wire carries >= 1 empty and >= 1 non-empty message, or class set_compressor_then_explicit_header_flush with a non-empty message",
		Gen:  genPlan, Run: run,
	})
}

// Unit "hdrorder": same executor and oracle, generator focused on the order
// SetSendCompressor(name != stream default) -> explicit SendHeader -> messages.
func TestVerifC27HdrOrder(t *testing.T) {
	vk.Check(t, vk.Unit[plan]{
		ID: "C27", Name: "hdrorder",
		Rule: "as negotiate, restricted to configurations in which the RPC reaches the handler; the handler calls SetSendCompressor with a name that differs from the stream's default compressor (mirror of the request encoding / RPCCompressor / none) and is expected to be accepted, then flushes the headers explicitly (grpc.SendHeader / ServerStream.SendHeader), then sends 1-4 messages; noise operations (other SetSendCompressor calls incl. after the flush, SetHeader, SetTrailer, second SendHeader) around them. non-trivial = class set_compressor_then_explicit_header_flush (the accepted choice in force at an explicit flush before the first message differs from the stream default) with >= 1 non-empty message",
		Gen:  genPlanFocused,
		Run: func(t *testing.T, p plan) vk.Result {
			r := run(t, p)
			if r.Violation == "" {
				r.NonTrivial = false
				for _, c := range r.Classes {
					if c == "set_compressor_then_explicit_header_flush_nonempty_msg" {
						r.NonTrivial = true
					}
				}
			}
			return r
		},
	})
}
