package c27_test

// C27: compression is negotiated and applied consistently.
//
// Unit "negotiate": real client + real server over bufconn in a bubble; every
// byte of the connection is decoded independently (x/net/http2 + hpack), so
// the oracle sees grpc-encoding, grpc-accept-encoding and the compressed-flag
// byte of every message in both directions.
// Unit "rawenc" (c27_raw_test.go): scripted raw HTTP/2 client against the real
// server with arbitrary grpc-encoding / flag / payload combinations.
//
// Reading (DESIGN §5): flag 1 => non-identity grpc-encoding and the payload
// decompresses (with that encoding) to the message; flag 0 => payload is the
// raw message; for non-empty messages flag 1 <=> non-identity encoding.

import (
	"bytes"
	"compress/gzip"
	"context"
	"fmt"
	"io"
	"strings"
	"sync"
	"testing"
	"testing/synctest"
	"time"

	"google.golang.org/grpc"
	"google.golang.org/grpc/codes"
	"google.golang.org/grpc/encoding"
	_ "google.golang.org/grpc/encoding/gzip"
	"google.golang.org/grpc/experimental"
	"google.golang.org/grpc/internal/verifkit/e2e"
	"google.golang.org/grpc/internal/verifkit/vk"
	"google.golang.org/grpc/status"
	"pgregory.net/rapid"
)

// ---------------------------------------------------------------- harness compressors

const (
	nameA       = "verifxor27"  // registered
	nameB       = "verifrev27"  // registered
	nameLegacyC = "legacyc27"   // client-side legacy Compressor, never registered
	nameLegacyS = "srvlegacy27" // server-side legacy Compressor, never registered
	nameNope    = "nope27"      // never registered, no implementation
)

// tagged transform: prefix + f(bytes); decoding verifies the prefix so that
// decoding with the wrong compressor is an error, never silent garbage.
type xform struct {
	name   string
	prefix string
	enc    func([]byte) []byte
	dec    func([]byte) []byte
}

func xor(k byte) func([]byte) []byte {
	return func(b []byte) []byte {
		o := make([]byte, len(b))
		for i, c := range b {
			o[i] = c ^ k
		}
		return o
	}
}

func rev(b []byte) []byte {
	o := make([]byte, len(b))
	for i, c := range b {
		o[len(b)-1-i] = c
	}
	return o
}

var xforms = map[string]*xform{
	nameA:       {nameA, "XA", xor(0x5a), xor(0x5a)},
	nameB:       {nameB, "RB", rev, rev},
	nameLegacyC: {nameLegacyC, "LC", xor(0x33), xor(0x33)},
	nameLegacyS: {nameLegacyS, "SL", xor(0x77), xor(0x77)},
}

func (x *xform) encode(b []byte) []byte { return append([]byte(x.prefix), x.enc(b)...) }
func (x *xform) decode(b []byte) ([]byte, error) {
	if !bytes.HasPrefix(b, []byte(x.prefix)) {
		return nil, fmt.Errorf("%s: bad prefix in %q", x.name, b)
	}
	return x.dec(b[len(x.prefix):]), nil
}

// regCompressor adapts an xform to encoding.Compressor.
type regCompressor struct{ x *xform }

func (c regCompressor) Name() string { return c.x.name }

type bufWC struct {
	w   io.Writer
	x   *xform
	buf bytes.Buffer
}

func (z *bufWC) Write(p []byte) (int, error) { return z.buf.Write(p) }
func (z *bufWC) Close() error                { _, err := z.w.Write(z.x.encode(z.buf.Bytes())); return err }

func (c regCompressor) Compress(w io.Writer) (io.WriteCloser, error) {
	return &bufWC{w: w, x: c.x}, nil
}
func (c regCompressor) Decompress(r io.Reader) (io.Reader, error) {
	b, err := io.ReadAll(r)
	if err != nil {
		return nil, err
	}
	out, err := c.x.decode(b)
	if err != nil {
		return nil, err
	}
	return bytes.NewReader(out), nil
}

// legacy adapts an xform to the deprecated grpc.Compressor / grpc.Decompressor.
type legacy struct{ x *xform }

func (l legacy) Do(w io.Writer, p []byte) error { _, err := w.Write(l.x.encode(p)); return err }
func (l legacy) Type() string                   { return l.x.name }

type legacyDC struct{ x *xform }

func (l legacyDC) Do(r io.Reader) ([]byte, error) {
	b, err := io.ReadAll(r)
	if err != nil {
		return nil, err
	}
	return l.x.decode(b)
}
func (l legacyDC) Type() string { return l.x.name }

func init() {
	encoding.RegisterCompressor(regCompressor{xforms[nameA]})
	encoding.RegisterCompressor(regCompressor{xforms[nameB]})
}

var registered = []string{"gzip", nameA, nameB}

func isRegistered(n string) bool {
	for _, r := range registered {
		if r == n {
			return true
		}
	}
	return false
}

// decodeBy is the oracle's independent decoder for a named encoding.
func decodeBy(name string, payload []byte) ([]byte, error) {
	if name == "gzip" {
		zr, err := gzip.NewReader(bytes.NewReader(payload))
		if err != nil {
			return nil, err
		}
		return io.ReadAll(zr)
	}
	if x, ok := xforms[name]; ok {
		return x.decode(payload)
	}
	return nil, fmt.Errorf("oracle has no decoder for %q", name)
}

func nonIdentity(e string) bool { return e != "" && e != "identity" }

// ---------------------------------------------------------------- plan

type plan struct {
	CliUse      string   `json:"cli_use"`       // UseCompressor(name); "" = not used
	CliLegacyCP string   `json:"cli_legacy_cp"` // WithCompressor: "", legacyc27, gzip
	CliLegacyDC string   `json:"cli_legacy_dc"` // WithDecompressor: "", srvlegacy27, gzip
	CliAccept   []string `json:"cli_accept"`    // experimental.AcceptCompressors; nil = not used
	SrvLegacyCP string   `json:"srv_legacy_cp"` // RPCCompressor: "", srvlegacy27, gzip
	SrvLegacyDC string   `json:"srv_legacy_dc"` // RPCDecompressor: "", legacyc27, gzip
	SrvSet      string   `json:"srv_set"`       // grpc.SetSendCompressor(ctx, name) in the handler; "" = not called
	Stream      bool     `json:"stream"`
	Reqs        [][]byte `json:"reqs"`
	Resps       [][]byte `json:"resps"`
}

func genMsg(rt *rapid.T) []byte {
	switch rapid.IntRange(0, 5).Draw(rt, "msg_kind") {
	case 0, 1:
		return []byte{}
	case 2:
		return bytes.Repeat([]byte{byte(rapid.IntRange(0, 255).Draw(rt, "fill"))}, rapid.IntRange(1, 600).Draw(rt, "n"))
	case 3: // looks like a compressed payload of one of the harness formats
		return []byte(rapid.SampledFrom([]string{"XA", "RB", "XAabc", "\x1f\x8b\x08", "LC", "SL"}).Draw(rt, "lookalike"))
	default:
		return rapid.SliceOfN(rapid.Byte(), 1, 64).Draw(rt, "bytes")
	}
}

// genMsgs draws n messages; for n >= 2 half of the lists are forced to contain
// both an empty and a non-empty message.
func genMsgs(rt *rapid.T, n int, label string) [][]byte {
	var out [][]byte
	for i := 0; i < n; i++ {
		out = append(out, genMsg(rt))
	}
	if n >= 2 && rapid.Bool().Draw(rt, label+"_mix") {
		pos := rapid.IntRange(0, n-1).Draw(rt, label+"_pos")
		out[pos] = []byte{}
		other := (pos + 1 + rapid.IntRange(0, n-2).Draw(rt, label+"_other")) % n
		if len(out[other]) == 0 {
			out[other] = []byte("non-empty")
		}
	}
	return out
}

func genPlan(rt *rapid.T) plan {
	p := plan{Stream: rapid.IntRange(0, 4).Draw(rt, "stream") > 0}
	p.CliUse = rapid.SampledFrom([]string{"", "", "gzip", nameA, nameA, nameB, nameB, "identity", nameNope}).Draw(rt, "cli_use")
	p.CliLegacyCP = rapid.SampledFrom([]string{"", "", "", nameLegacyC, nameLegacyC, "gzip"}).Draw(rt, "cli_legacy_cp")
	p.CliLegacyDC = rapid.SampledFrom([]string{"", "", "", nameLegacyS, "gzip"}).Draw(rt, "cli_legacy_dc")
	if rapid.IntRange(0, 2).Draw(rt, "accept_set") == 0 {
		n := rapid.IntRange(1, 4).Draw(rt, "naccept")
		hasReal := false
		for i := 0; i < n; i++ {
			a := rapid.SampledFrom([]string{"gzip", nameA, nameB, "identity", " " + nameA + " ", nameB, ""}).Draw(rt, "accept")
			if isRegistered(strings.TrimSpace(a)) {
				hasReal = true
			}
			p.CliAccept = append(p.CliAccept, a)
		}
		if !hasReal { // an effectively empty list means "no restriction" (documented otherwise): keep it out
			p.CliAccept = append(p.CliAccept, rapid.SampledFrom(registered).Draw(rt, "accept_real"))
		}
	}
	p.SrvLegacyCP = rapid.SampledFrom([]string{"", "", "", "", nameLegacyS, "gzip"}).Draw(rt, "srv_legacy_cp")
	p.SrvLegacyDC = rapid.SampledFrom([]string{"", "", "", nameLegacyC, nameLegacyC, "gzip"}).Draw(rt, "srv_legacy_dc")
	p.SrvSet = rapid.SampledFrom([]string{"", "", "", "gzip", nameA, nameB, "identity", nameNope, nameLegacyS}).Draw(rt, "srv_set")
	nreq, nresp := 1, 1
	if p.Stream {
		nreq, nresp = rapid.SampledFrom([]int{1, 2, 2, 3, 4}).Draw(rt, "nreq"), rapid.SampledFrom([]int{1, 2, 2, 3, 4}).Draw(rt, "nresp")
	}
	p.Reqs = genMsgs(rt, nreq, "req")
	p.Resps = genMsgs(rt, nresp, "resp")
	return p
}

// ---------------------------------------------------------------- reference

func normAccept(a []string) []string {
	var out []string
	seen := map[string]bool{}
	for _, n := range a {
		n = strings.TrimSpace(n)
		if n == "" || n == "identity" || seen[n] {
			continue
		}
		seen[n] = true
		out = append(out, n)
	}
	return out
}

func contains(l []string, s string) bool {
	for _, x := range l {
		if x == s {
			return true
		}
	}
	return false
}

// expectedReqEncoding: UseCompressor wins over WithCompressor (documented).
func expectedReqEncoding(p plan) string {
	if p.CliUse != "" {
		return p.CliUse
	}
	return p.CliLegacyCP
}

func serverCanDecode(p plan, e string) bool {
	return isRegistered(e) || (p.SrvLegacyDC != "" && p.SrvLegacyDC == e)
}
func clientCanDecode(p plan, e string) bool {
	return isRegistered(e) || (p.CliLegacyDC != "" && p.CliLegacyDC == e)
}

// checkMessages applies the flag/encoding reading to one direction.
func checkMessages(dir, enc string, msgs []e2e.GRPCMessage, originals [][]byte) string {
	for i, m := range msgs {
		if i >= len(originals) {
			return fmt.Sprintf("%s: %d messages on the wire, only %d were sent", dir, len(msgs), len(originals))
		}
		orig := originals[i]
		switch m.Flag {
		case 0:
			if !bytes.Equal(m.Payload, orig) {
				return fmt.Sprintf("%s message %d: flag 0 but payload %q is not the raw message %q (grpc-encoding %q)", dir, i, m.Payload, orig, enc)
			}
			if len(orig) > 0 && nonIdentity(enc) {
				return fmt.Sprintf("%s message %d: non-empty message sent uncompressed (flag 0) on a stream with grpc-encoding %q", dir, i, enc)
			}
		case 1:
			if !nonIdentity(enc) {
				return fmt.Sprintf("%s message %d: compressed flag set but grpc-encoding is %q", dir, i, enc)
			}
			dec, err := decodeBy(enc, m.Payload)
			if err != nil {
				return fmt.Sprintf("%s message %d: flag 1 with grpc-encoding %q but the payload does not decode with it: %v", dir, i, enc, err)
			}
			if !bytes.Equal(dec, orig) {
				return fmt.Sprintf("%s message %d: payload decodes (%s) to %q, message was %q", dir, i, enc, dec, orig)
			}
		default:
			return fmt.Sprintf("%s message %d: flag byte %d", dir, i, m.Flag)
		}
	}
	return ""
}

// ---------------------------------------------------------------- executor

type srvLog struct {
	mu      sync.Mutex
	calls   int
	reqs    [][]byte
	setErr  error
	setDone bool
	adv     []string
}

func run(t *testing.T, p plan) vk.Result {
	var res vk.Result
	msg := vk.Bubble(t, func(t *testing.T) { res = runInBubble(p) })
	if msg != "" && res.Violation == "" {
		return vk.Bad("harness/bubble: %s", msg).With(res.Classes...)
	}
	return res
}

func legacyCP(name string) grpc.Compressor {
	if name == "gzip" {
		return grpc.NewGZIPCompressor()
	}
	return legacy{xforms[name]}
}

func legacyDCOf(name string) grpc.Decompressor {
	if name == "gzip" {
		return grpc.NewGZIPDecompressor()
	}
	return legacyDC{xforms[name]}
}

func runInBubble(p plan) vk.Result {
	out := vk.Result{}
	cls := func(c string) { out.Classes = append(out.Classes, c) }
	log := &srvLog{}
	onEntry := func(ctx context.Context) {
		log.mu.Lock()
		log.calls++
		log.mu.Unlock()
		if adv, err := grpc.ClientSupportedCompressors(ctx); err == nil {
			log.mu.Lock()
			log.adv = adv
			log.mu.Unlock()
		}
		if p.SrvSet != "" {
			err := grpc.SetSendCompressor(ctx, p.SrvSet)
			log.mu.Lock()
			log.setErr, log.setDone = err, true
			log.mu.Unlock()
		}
	}
	opts := e2e.Options{
		Tap: &e2e.Tap{},
		Unary: func(ctx context.Context, req []byte) ([]byte, error) {
			onEntry(ctx)
			log.mu.Lock()
			log.reqs = append(log.reqs, req)
			log.mu.Unlock()
			return p.Resps[0], nil
		},
		Stream: func(st grpc.ServerStream) error {
			onEntry(st.Context())
			for {
				b, err := e2e.RecvBytes(st)
				if err == io.EOF {
					break
				}
				if err != nil {
					return err
				}
				log.mu.Lock()
				log.reqs = append(log.reqs, b)
				log.mu.Unlock()
			}
			for _, r := range p.Resps {
				if err := e2e.SendBytes(st, r); err != nil {
					return err
				}
			}
			return nil
		},
	}
	tap := opts.Tap
	if p.SrvLegacyCP != "" {
		opts.ServerOpts = append(opts.ServerOpts, grpc.RPCCompressor(legacyCP(p.SrvLegacyCP)))
	}
	if p.SrvLegacyDC != "" {
		opts.ServerOpts = append(opts.ServerOpts, grpc.RPCDecompressor(legacyDCOf(p.SrvLegacyDC)))
	}
	if p.CliLegacyCP != "" {
		opts.DialOpts = append(opts.DialOpts, grpc.WithCompressor(legacyCP(p.CliLegacyCP)))
	}
	if p.CliLegacyDC != "" {
		opts.DialOpts = append(opts.DialOpts, grpc.WithDecompressor(legacyDCOf(p.CliLegacyDC)))
	}
	pair, err := e2e.Start(opts)
	if err != nil {
		return vk.Bad("harness: start: %v", err)
	}
	defer pair.Close()
	var co []grpc.CallOption
	if p.CliUse != "" {
		co = append(co, grpc.UseCompressor(p.CliUse))
	}
	if p.CliAccept != nil {
		co = append(co, experimental.AcceptCompressors(p.CliAccept...))
	}
	ctx, cancel := context.WithTimeout(context.Background(), 60*time.Second)
	defer cancel()

	var finalErr error
	var gotResps [][]byte
	if !p.Stream {
		resp, err := pair.Unary(ctx, e2e.UnaryMethod, p.Reqs[0], co...)
		finalErr = err
		if err == nil {
			gotResps = append(gotResps, resp)
		}
	} else {
		cs, err := pair.NewStream(ctx, e2e.StreamMethod, true, true, co...)
		if err != nil {
			finalErr = err
		} else {
			for _, r := range p.Reqs {
				if err := e2e.SendBytes(cs, r); err != nil {
					if err != io.EOF {
						finalErr = err
					}
					break
				}
			}
			if finalErr == nil {
				_ = cs.CloseSend()
				for {
					b, err := e2e.RecvBytes(cs)
					if err == io.EOF {
						break
					}
					if err != nil {
						finalErr = err
						break
					}
					gotResps = append(gotResps, b)
				}
			}
		}
	}
	cancel()
	pair.Close()
	synctest.Wait()
	log.mu.Lock()
	defer log.mu.Unlock()

	bad := func(f string, a ...any) vk.Result {
		v := vk.Bad(f, a...)
		v.Classes = out.Classes
		return v
	}

	// ---- decode the wire
	c2s, s2c := tap.Bytes(0)
	cf, err1 := e2e.DecodeWire(c2s, true)
	sf, err2 := e2e.DecodeWire(s2c, false)
	if err1 != nil || err2 != nil {
		return bad("wire log does not decode: %v / %v", err1, err2)
	}
	ids := e2e.StreamIDs(cf)

	// ---- client asked for an encoding it has no compressor for: nothing may be sent
	wantReqEnc := expectedReqEncoding(p)
	if p.CliUse != "" && p.CliUse != "identity" && !isRegistered(p.CliUse) {
		cls("client_unregistered_compressor")
		if finalErr == nil {
			return bad("UseCompressor(%q) (not registered) but the RPC succeeded", p.CliUse)
		}
		if len(ids) != 0 {
			return bad("UseCompressor(%q) (not registered): %d streams on the wire, want none", p.CliUse, len(ids))
		}
		cls("client_unregistered_code_" + status.Code(finalErr).String())
		return out
	}
	if len(ids) != 1 {
		return bad("harness: %d streams on the wire (client err %v)", len(ids), finalErr)
	}
	id := ids[0]
	reqH := e2e.HeadersOf(cf, id)
	if len(reqH) != 1 {
		return bad("harness: %d request HEADERS", len(reqH))
	}
	encs := reqH[0].Get("grpc-encoding")
	if len(encs) > 1 {
		return bad("request carries %d grpc-encoding fields: %q", len(encs), encs)
	}
	reqEnc := ""
	if len(encs) == 1 {
		reqEnc = encs[0]
	}
	var adv []string
	for _, v := range reqH[0].Get("grpc-accept-encoding") {
		for _, n := range strings.Split(v, ",") {
			if n = strings.TrimSpace(n); n != "" {
				adv = append(adv, n)
			}
		}
	}
	if reqEnc != wantReqEnc && !(wantReqEnc == "identity" && reqEnc == "") {
		return bad("request grpc-encoding = %q, want %q (UseCompressor %q, WithCompressor %q)", reqEnc, wantReqEnc, p.CliUse, p.CliLegacyCP)
	}
	if p.CliAccept != nil {
		// the advertised list is the accept list (plus a legacy request compressor the client itself uses)
		for _, a := range adv {
			if !contains(normAccept(p.CliAccept), a) && a != reqEnc {
				return bad("client advertises %q which is not in AcceptCompressors%q (advertised %q)", a, p.CliAccept, adv)
			}
		}
		cls("accept_list")
	}
	if nonIdentity(reqEnc) {
		cls("req_compressed")
	}
	reqMsgs, _ := e2e.MessagesOf(cf, id)
	if v := checkMessages("request", reqEnc, reqMsgs, p.Reqs); v != "" {
		return bad("%s", v)
	}
	// non-trivial: non-identity encoding in a direction whose wire carries >= 1 empty and >= 1 non-empty message
	mixed := func(enc string, msgs []e2e.GRPCMessage, orig [][]byte) bool {
		if !nonIdentity(enc) {
			return false
		}
		e, ne := false, false
		for i := range msgs {
			if i < len(orig) && len(orig[i]) == 0 {
				e = true
			} else {
				ne = true
			}
		}
		return e && ne
	}
	if mixed(reqEnc, reqMsgs, p.Reqs) {
		out.NonTrivial = true
	}

	// ---- server side
	if nonIdentity(reqEnc) && !serverCanDecode(p, reqEnc) {
		cls("server_unsupported_encoding")
		if status.Code(finalErr) != codes.Unimplemented {
			return bad("server has no decompressor for %q: client status = %v (%v), want Unimplemented", reqEnc, status.Code(finalErr), finalErr)
		}
		if len(log.reqs) != 0 {
			return bad("server has no decompressor for %q but the handler received %d messages: %q", reqEnc, len(log.reqs), log.reqs)
		}
		return out
	}
	// every request is decoded with the named compressor: delivered intact
	if len(log.reqs) != len(p.Reqs) {
		return bad("handler received %d requests, want %d (encoding %q, client err %v)", len(log.reqs), len(p.Reqs), reqEnc, finalErr)
	}
	for i, b := range log.reqs {
		if !bytes.Equal(b, p.Reqs[i]) {
			return bad("request %d delivered as %q, sent %q (grpc-encoding %q)", i, b, p.Reqs[i], reqEnc)
		}
	}
	if log.calls != 1 {
		return bad("handler ran %d times", log.calls)
	}
	// what the handler sees as advertised == what is on the wire
	if strings.Join(log.adv, ",") != strings.Join(adv, ",") && !(len(adv) == 0 && len(log.adv) == 1 && log.adv[0] == "") {
		return bad("ClientSupportedCompressors = %q, wire grpc-accept-encoding = %q", log.adv, adv)
	}

	// ---- expected response encoding
	wantRespEnc := ""
	switch {
	case p.SrvLegacyCP != "":
		wantRespEnc = p.SrvLegacyCP
	case nonIdentity(reqEnc) && isRegistered(reqEnc):
		wantRespEnc = reqEnc
	}
	if p.SrvSet != "" {
		valid := p.SrvSet == "identity" || (isRegistered(p.SrvSet) && contains(adv, p.SrvSet))
		if valid {
			cls("set_send_compressor_valid")
			if log.setErr != nil {
				return bad("SetSendCompressor(%q) failed although it is registered and advertised (%q): %v", p.SrvSet, adv, log.setErr)
			}
			wantRespEnc = p.SrvSet
		} else {
			if isRegistered(p.SrvSet) {
				cls("set_send_compressor_not_advertised")
			} else {
				cls("set_send_compressor_unregistered")
			}
			if log.setErr == nil {
				return bad("SetSendCompressor(%q) succeeded although it is not registered or not advertised by the client (%q)", p.SrvSet, adv)
			}
		}
	}
	respH := e2e.HeadersOf(sf, id)
	respEnc := ""
	if len(respH) >= 1 {
		if e := respH[0].Get("grpc-encoding"); len(e) == 1 {
			respEnc = e[0]
		} else if len(e) > 1 {
			return bad("response carries %d grpc-encoding fields", len(e))
		}
	}
	if len(respH) == 2 { // headers + trailers: the encoding was announced
		if respEnc != wantRespEnc && !(wantRespEnc == "identity" && respEnc == "") && !(wantRespEnc == "" && respEnc == "identity") {
			return bad("response grpc-encoding = %q, want %q (request encoding %q, RPCCompressor %q, SetSendCompressor %q err=%v)", respEnc, wantRespEnc, reqEnc, p.SrvLegacyCP, p.SrvSet, log.setErr)
		}
	}
	if nonIdentity(respEnc) {
		cls("resp_compressed")
		if !contains(adv, respEnc) && respEnc != reqEnc {
			if p.SrvLegacyCP != "" {
				cls("legacy_rpccompressor_unadvertised") // documented: RPCCompressor is used regardless
			} else {
				return bad("server compressed the response with %q which the client neither advertised (%q) nor used (%q)", respEnc, adv, reqEnc)
			}
		}
	}
	respMsgs, _ := e2e.MessagesOf(sf, id)
	if v := checkMessages("response", respEnc, respMsgs, p.Resps); v != "" {
		r := bad("%s [RPCCompressor %q SetSendCompressor %q]", v, p.SrvLegacyCP, p.SrvSet)
		// (RPCCompressor + SetSendCompressor("identity") still compressing was fixed in /repo 56d424b:
		// a recurrence is a plain violation.)
		return r
	}
	if mixed(respEnc, respMsgs, p.Resps) {
		out.NonTrivial = true
	}

	// ---- client side
	if nonIdentity(respEnc) && p.CliAccept != nil && !contains(normAccept(p.CliAccept), respEnc) {
		// rejected as soon as the response headers are seen
		cls("client_encoding_not_accepted")
		if status.Code(finalErr) != codes.Internal {
			return bad("response encoding %q is not in AcceptCompressors%q: status = %v (%v), want Internal", respEnc, p.CliAccept, status.Code(finalErr), finalErr)
		}
		if len(gotResps) != 0 {
			return bad("response encoding %q is not accepted but %d responses were delivered: %q", respEnc, len(gotResps), gotResps)
		}
		return out
	}
	if nonIdentity(respEnc) && !clientCanDecode(p, respEnc) {
		// The client has no decompressor for the announced encoding. Messages
		// sent uncompressed (flag 0: the empty ones) need no decoding; the
		// first compressed message must fail the RPC with INTERNAL and must
		// not be delivered.
		k := -1
		for i, m := range respMsgs {
			if m.Flag == 1 {
				k = i
				break
			}
		}
		if k >= 0 {
			cls("client_unsupported_encoding")
			if status.Code(finalErr) != codes.Internal {
				return bad("client has no decompressor for response encoding %q: status = %v (%v), want Internal", respEnc, status.Code(finalErr), finalErr)
			}
			if len(gotResps) != k {
				return bad("client has no decompressor for %q: %d responses delivered, want the %d uncompressed ones before the first compressed message: %q", respEnc, len(gotResps), k, gotResps)
			}
			for i, b := range gotResps {
				if !bytes.Equal(b, p.Resps[i]) {
					return bad("response %d delivered as %q, sent %q", i, b, p.Resps[i])
				}
			}
			return out
		}
		cls("client_unsupported_encoding_but_all_uncompressed")
	}
	if finalErr != nil {
		return bad("all encodings are supported (request %q, response %q) but the RPC failed: %v", reqEnc, respEnc, finalErr)
	}
	if len(gotResps) != len(p.Resps) {
		return bad("client received %d responses, want %d", len(gotResps), len(p.Resps))
	}
	for i, b := range gotResps {
		if !bytes.Equal(b, p.Resps[i]) {
			return bad("response %d delivered as %q, sent %q (grpc-encoding %q)", i, b, p.Resps[i], respEnc)
		}
	}
	if len(respMsgs) != len(p.Resps) || len(reqMsgs) != len(p.Reqs) {
		return bad("wire shows %d/%d request/response messages, want %d/%d", len(reqMsgs), len(respMsgs), len(p.Reqs), len(p.Resps))
	}
	cls("completed")
	return out
}

func TestVerifC27(t *testing.T) {
	vk.Check(t, vk.Unit[plan]{
		ID: "C27", Name: "negotiate",
		Rule: "one unary or bidi RPC (1-4 requests, 1-4 responses; messages empty 1/3, runs, look-alikes of compressed payloads, random bytes) per client/server pair; registered compressors gzip + two harness ones; client: UseCompressor {none, gzip, A, B, identity, unregistered}, WithCompressor {none, unregistered legacy, legacy gzip}, WithDecompressor {none, server-legacy type, gzip}, experimental.AcceptCompressors (1/3: 1-4 names incl. identity, spaces, duplicates); server: RPCCompressor {none, unregistered legacy, gzip}, RPCDecompressor {none, client-legacy type, gzip}, SetSendCompressor {not called, gzip, A, B, identity, unregistered, legacy name}. non-trivial = a non-identity grpc-encoding in a direction whose wire carries >= 1 empty and >= 1 non-empty message",
		Gen:  genPlan, Run: run,
	})
}
