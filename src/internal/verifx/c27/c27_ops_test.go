package c27_test

// Handler-side operation sequences for unit "negotiate" / "hdrorder".
//
// The server handler executes a generated sequence of the operations that
// touch the response headers and the send compressor, in any order:
//
//	set          grpc.SetSendCompressor(ctx, name)
//	set_header   grpc.SetHeader(ctx, md)   / ServerStream.SetHeader(md)
//	send_header  grpc.SendHeader(ctx, md)  / ServerStream.SendHeader(md)   (explicit header flush)
//	set_trailer  grpc.SetTrailer(ctx, md)  / ServerStream.SetTrailer(md)
//	send         ServerStream.SendMsg(msg); unary handler: the return value
//
// modelOps is the reference: a tiny state machine written from the
// documentation of those functions (server.go): the response headers go out
// at the first of {SendHeader, first message, status}; SetSendCompressor fails
// for a name that is neither "identity" nor registered-and-advertised, and for
// any name once the headers are out, and a failed call leaves the earlier
// choice in force; the stream's grpc-encoding is the choice in force at the
// moment the headers go out and every message is encoded with exactly that.

import (
	"context"
	"fmt"

	"google.golang.org/grpc"
	"google.golang.org/grpc/internal/verifkit/e2e"
	"google.golang.org/grpc/metadata"
	"pgregory.net/rapid"
)

const (
	opSet        = "set"
	opSetHeader  = "set_header"
	opSendHeader = "send_header"
	opSetTrailer = "set_trailer"
	opSend       = "send"
)

type srvOp struct {
	Kind string   `json:"kind"`
	Name string   `json:"name,omitempty"` // set
	MD   []string `json:"md,omitempty"`   // set_header / send_header / set_trailer: k, v, k, v, ...
	Via  string   `json:"via,omitempty"`  // "stream": the ServerStream method instead of grpc.X(ctx, ...) (streaming handlers)
	Msg  []byte   `json:"msg,omitempty"`  // send
}

func (o srvOp) md() metadata.MD {
	kv := o.MD
	if len(kv)%2 == 1 {
		kv = kv[:len(kv)-1]
	}
	return metadata.Pairs(kv...)
}

func (o srvOp) String() string {
	switch o.Kind {
	case opSet:
		return fmt.Sprintf("SetSendCompressor(%q)", o.Name)
	case opSend:
		return fmt.Sprintf("SendMsg(%d bytes)", len(o.Msg))
	}
	return fmt.Sprintf("%s(%v via %q)", o.Kind, o.MD, o.Via)
}

// handlerOps normalises the plan into the sequence the handler executes and
// the number of leading operations a streaming handler runs before it starts
// receiving.
//   - plans without Ops (written before operation sequences existed): the
//     optional SetSendCompressor at entry, then one send per response;
//   - unary: the operations before the first send; that send is the handler's
//     return value (an empty message if there is none);
//   - streaming: Pre is clamped so that only header operations run before
//     receiving (messages are sent after the client half-closed).
func (p plan) handlerOps() (ops []srvOp, pre int) {
	if p.Ops == nil {
		if p.SrvSet != "" {
			ops = append(ops, srvOp{Kind: opSet, Name: p.SrvSet})
			pre = 1
		}
		for i, r := range p.Resps {
			if !p.Stream && i > 0 {
				break
			}
			ops = append(ops, srvOp{Kind: opSend, Msg: r})
		}
		if !p.Stream {
			pre = 0
			if len(p.Resps) == 0 {
				ops = append(ops, srvOp{Kind: opSend})
			}
		}
		return ops, pre
	}
	first := -1
	for i, o := range p.Ops {
		if o.Kind == opSend {
			first = i
			break
		}
	}
	if !p.Stream {
		if first < 0 {
			return append(append([]srvOp{}, p.Ops...), srvOp{Kind: opSend}), 0
		}
		return p.Ops[:first+1], 0
	}
	pre = p.Pre
	lim := len(p.Ops)
	if first >= 0 {
		lim = first
	}
	if pre > lim {
		pre = lim
	}
	if pre < 0 {
		pre = 0
	}
	return p.Ops, pre
}

// execOp runs one operation in the handler. st is nil in a unary handler.
func execOp(ctx context.Context, st grpc.ServerStream, op srvOp) error {
	viaStream := op.Via == "stream" && st != nil
	switch op.Kind {
	case opSet:
		return grpc.SetSendCompressor(ctx, op.Name)
	case opSetHeader:
		if viaStream {
			return st.SetHeader(op.md())
		}
		return grpc.SetHeader(ctx, op.md())
	case opSendHeader:
		if viaStream {
			return st.SendHeader(op.md())
		}
		return grpc.SendHeader(ctx, op.md())
	case opSetTrailer:
		if viaStream {
			st.SetTrailer(op.md())
			return nil
		}
		return grpc.SetTrailer(ctx, op.md())
	case opSend:
		return e2e.SendBytes(st, op.Msg)
	}
	return fmt.Errorf("harness: unknown op kind %q", op.Kind)
}

// ---------------------------------------------------------------- reference model

func normEnc(e string) string {
	if e == "identity" {
		return ""
	}
	return e
}

type opsModel struct {
	wantErr   []bool   // per op: the call must return an error
	announced string   // the send-compressor choice in force when the headers go out
	hdrFrame  bool     // a response HEADERS frame (not trailers-only) is produced
	firstWire int      // index of the op that puts the headers on the wire; -1: only the status does
	sent      [][]byte // messages handed to SendMsg, in order

	setOK, setNotAdvertised, setUnregistered bool
	setAfterHeaders                          bool // some SetSendCompressor call after the headers went out
	setRepeated                              bool // >= 2 calls with different names
	explicitBeforeFirstSend                  bool // SendHeader flushed the headers before any message
	explicitAfterSend                        bool // SendHeader attempted after a message (must fail)
	changedAtFlush                           bool // at an explicit flush before the first message the choice differed from the stream default
	nonEmptySent                             bool
	headerMD, trailerMD                      bool
}

// modelOps: def is the compressor the server selects at stream start
// (RPCCompressor type, else the registered request encoding, else none), adv
// the client's advertised list as seen on the wire.
func modelOps(ops []srvOp, def string, adv []string) opsModel {
	m := opsModel{firstWire: -1}
	cur := def
	sentHdr := false
	pendingMD := false
	names := map[string]bool{}
	for i, o := range ops {
		fail := false
		switch o.Kind {
		case opSet:
			names[o.Name] = true
			valid := o.Name == "identity" || (isRegistered(o.Name) && contains(adv, o.Name))
			switch {
			case valid:
			case isRegistered(o.Name):
				m.setNotAdvertised = true
			default:
				m.setUnregistered = true
			}
			if sentHdr {
				m.setAfterHeaders = true
			}
			fail = !valid || sentHdr
			if !fail {
				cur = o.Name
				m.setOK = true
			}
		case opSetHeader:
			if o.md().Len() > 0 {
				fail = sentHdr
				if !fail {
					pendingMD = true
					m.headerMD = true
				}
			}
		case opSendHeader:
			fail = sentHdr
			if fail {
				if len(m.sent) > 0 {
					m.explicitAfterSend = true
				}
			} else {
				sentHdr, m.hdrFrame, m.announced, m.firstWire = true, true, cur, i
				if len(m.sent) == 0 {
					m.explicitBeforeFirstSend = true
					m.changedAtFlush = normEnc(cur) != normEnc(def)
				}
				if o.md().Len() > 0 {
					m.headerMD = true
				}
			}
		case opSetTrailer:
			if o.md().Len() > 0 {
				m.trailerMD = true
			}
		case opSend:
			if !sentHdr {
				sentHdr, m.hdrFrame, m.announced, m.firstWire = true, true, cur, i
			}
			m.sent = append(m.sent, o.Msg)
			if len(o.Msg) > 0 {
				m.nonEmptySent = true
			}
		}
		m.wantErr = append(m.wantErr, fail)
	}
	if !sentHdr && pendingMD { // headers with metadata are flushed as a separate frame before the status
		m.hdrFrame, m.announced = true, cur
	}
	m.setRepeated = len(names) >= 2
	return m
}

// ---------------------------------------------------------------- generator

var setNames = []string{"gzip", nameA, nameB, "identity", nameNope, nameLegacyS}

func genMD(rt *rapid.T) []string {
	var kv []string
	for i, n := 0, rapid.SampledFrom([]int{0, 1, 1, 1, 2}).Draw(rt, "md_n"); i < n; i++ {
		kv = append(kv,
			rapid.SampledFrom([]string{"x-c27-a", "x-c27-b", "x-c27-encoding"}).Draw(rt, "md_k"),
			rapid.SampledFrom([]string{"v", "gzip", "identity", nameA, ""}).Draw(rt, "md_v"))
	}
	return kv
}

func genVia(rt *rapid.T, stream bool) string {
	if stream && rapid.Bool().Draw(rt, "via_stream") {
		return "stream"
	}
	return ""
}

// genHeaderOp draws one non-send operation.
func genHeaderOp(rt *rapid.T, stream bool, kinds []string) srvOp {
	k := rapid.SampledFrom(kinds).Draw(rt, "op_kind")
	if k == opSet {
		return srvOp{Kind: opSet, Name: rapid.SampledFrom(setNames).Draw(rt, "set_name")}
	}
	return srvOp{Kind: k, MD: genMD(rt), Via: genVia(rt, stream)}
}

func insertOp(ops []srvOp, pos int, o srvOp) []srvOp {
	ops = append(ops, srvOp{})
	copy(ops[pos+1:], ops[pos:])
	ops[pos] = o
	return ops
}

// genOps: general operation sequences. slot 0 (before the first message):
// 0-3 SetSendCompressor calls with arbitrary names, sometimes SetHeader /
// SetTrailer, shuffled; an explicit SendHeader before the first message (3/7,
// 2/3 of them after everything else in slot 0, the others anywhere so that
// SetSendCompressor-after-flush occurs), after some message (1/7, must fail)
// or never (3/7); between and after the messages of a streaming handler an
// occasional extra operation of any kind.
func genOps(rt *rapid.T, stream bool) (ops []srvOp, pre int) {
	nsend := 1
	if stream {
		nsend = rapid.SampledFrom([]int{0, 1, 1, 2, 2, 2, 2, 3, 3, 4}).Draw(rt, "nsend")
	}
	msgs := genMsgs(rt, nsend, "resp")
	var slot0 []srvOp
	for i, n := 0, rapid.SampledFrom([]int{0, 0, 0, 0, 1, 1, 1, 1, 1, 2, 2, 3}).Draw(rt, "nset"); i < n; i++ {
		slot0 = append(slot0, genHeaderOp(rt, stream, []string{opSet}))
	}
	if rapid.IntRange(0, 3).Draw(rt, "with_set_header") == 0 {
		slot0 = append(slot0, genHeaderOp(rt, stream, []string{opSetHeader}))
	}
	if rapid.IntRange(0, 5).Draw(rt, "with_set_trailer") == 0 {
		slot0 = append(slot0, genHeaderOp(rt, stream, []string{opSetTrailer}))
	}
	if len(slot0) > 1 {
		slot0 = rapid.Permutation(slot0).Draw(rt, "slot0_order")
	}
	flush := rapid.SampledFrom([]string{"never", "never", "never", "before", "before", "before", "after"}).Draw(rt, "flush")
	if flush == "before" {
		pos := len(slot0)
		if rapid.IntRange(0, 2).Draw(rt, "flush_anywhere") == 0 {
			pos = rapid.IntRange(0, len(slot0)).Draw(rt, "flush_pos")
		}
		slot0 = insertOp(slot0, pos, srvOp{Kind: opSendHeader, MD: genMD(rt), Via: genVia(rt, stream)})
	}
	ops = slot0
	after := 0
	if flush == "after" && nsend > 0 {
		after = rapid.IntRange(0, nsend-1).Draw(rt, "flush_after")
	}
	all := []string{opSet, opSet, opSetHeader, opSetTrailer, opSendHeader}
	for i, m := range msgs {
		ops = append(ops, srvOp{Kind: opSend, Msg: m})
		if !stream {
			break
		}
		if flush == "after" && i == after {
			ops = append(ops, srvOp{Kind: opSendHeader, MD: genMD(rt), Via: genVia(rt, stream)})
		}
		if rapid.IntRange(0, 4).Draw(rt, "extra_op") == 0 {
			ops = append(ops, genHeaderOp(rt, stream, all))
		}
	}
	if stream && len(slot0) > 0 && rapid.IntRange(0, 2).Draw(rt, "pre_recv") == 0 {
		pre = rapid.IntRange(1, len(slot0)).Draw(rt, "pre")
	}
	if ops == nil {
		ops = []srvOp{}
	}
	return ops, pre
}

// genOpsFocused: SetSendCompressor(name) with a name that (for the drawn
// configuration) is expected to be accepted and to differ from the stream's
// default, then an explicit SendHeader, then the messages; noise operations
// before, in between and after (incl. SetSendCompressor after the flush).
func genOpsFocused(rt *rapid.T, p plan) (ops []srvOp, pre int) {
	stream := p.Stream
	def := p.SrvLegacyCP
	if def == "" {
		if re := expectedReqEncoding(p); isRegistered(re) {
			def = re
		}
	}
	var cands []string
	for _, n := range []string{"gzip", nameA, nameB, "identity"} {
		if normEnc(n) == normEnc(def) {
			continue
		}
		if n != "identity" && p.CliAccept != nil && !contains(normAccept(p.CliAccept), n) {
			continue
		}
		cands = append(cands, n)
	}
	if len(cands) == 0 {
		cands = []string{"gzip", nameA, nameB}
	}
	noise := []string{opSet, opSetHeader, opSetTrailer}
	if rapid.IntRange(0, 2).Draw(rt, "noise_before") == 0 {
		ops = append(ops, genHeaderOp(rt, stream, noise))
	}
	ops = append(ops, srvOp{Kind: opSet, Name: rapid.SampledFrom(cands).Draw(rt, "chosen")})
	if rapid.IntRange(0, 3).Draw(rt, "noise_mid") == 0 {
		ops = append(ops, genHeaderOp(rt, stream, []string{opSetHeader, opSetTrailer}))
	}
	ops = append(ops, srvOp{Kind: opSendHeader, MD: genMD(rt), Via: genVia(rt, stream)})
	slot0 := len(ops)
	if rapid.IntRange(0, 2).Draw(rt, "set_after_flush") == 0 {
		ops = append(ops, genHeaderOp(rt, stream, []string{opSet, opSet, opSetHeader}))
	}
	nsend := 1
	if stream {
		nsend = rapid.SampledFrom([]int{1, 1, 2, 2, 3, 4}).Draw(rt, "nsend")
	}
	msgs := genMsgs(rt, nsend, "resp")
	if rapid.IntRange(0, 5).Draw(rt, "allow_all_empty") > 0 {
		ne := false
		for _, m := range msgs {
			ne = ne || len(m) > 0
		}
		if !ne {
			msgs[rapid.IntRange(0, nsend-1).Draw(rt, "ne_pos")] = []byte("non-empty response")
		}
	}
	for _, m := range msgs {
		ops = append(ops, srvOp{Kind: opSend, Msg: m})
		if !stream {
			break
		}
		if rapid.IntRange(0, 5).Draw(rt, "extra_op") == 0 {
			ops = append(ops, genHeaderOp(rt, stream, []string{opSet, opSetHeader, opSetTrailer, opSendHeader}))
		}
	}
	if stream && rapid.IntRange(0, 3).Draw(rt, "pre_recv") == 0 {
		pre = rapid.IntRange(1, slot0).Draw(rt, "pre")
	}
	return ops, pre
}
