package c27_test

// Unit "rawenc": a scripted raw HTTP/2 client sends arbitrary combinations of
// grpc-encoding, grpc-accept-encoding, flag bytes and payloads to the real
// server (registered: gzip + two harness compressors). The server is the
// receiver under test for requests and the sender under test for responses.

import (
	"bytes"
	"compress/gzip"
	"fmt"
	"io"
	"strconv"
	"strings"
	"sync"
	"testing"
	"testing/synctest"
	"time"

	"golang.org/x/net/http2"
	"google.golang.org/grpc"
	"google.golang.org/grpc/internal/verifkit/e2e"
	"google.golang.org/grpc/internal/verifkit/vk"
	"pgregory.net/rapid"
)

const (
	bodyRaw     = iota // payload = message bytes
	bodyEncoded        // payload = message compressed with BodyEnc
	bodyGarbage        // payload = bytes that no compressor accepts
)

type rawMsg struct {
	Flag    byte   `json:"flag"`
	Msg     []byte `json:"msg"`
	Body    int    `json:"body"`
	BodyEnc string `json:"body_enc"` // compressor used to build the payload (may differ from the announced one)
}

type rawPlan struct {
	HasEnc    bool     `json:"has_enc"`
	Enc       string   `json:"enc"` // grpc-encoding value
	HasAccept bool     `json:"has_accept"`
	Accept    string   `json:"accept"` // grpc-accept-encoding value, verbatim
	Msgs      []rawMsg `json:"msgs"`
	SrvSet    string   `json:"srv_set"`
	Resps     [][]byte `json:"resps"`
}

func genRawPlan(rt *rapid.T) rawPlan {
	p := rawPlan{}
	p.HasEnc = rapid.IntRange(0, 4).Draw(rt, "has_enc") > 0
	if p.HasEnc {
		p.Enc = rapid.SampledFrom([]string{"gzip", nameA, nameA, nameB, nameB, "identity", "", nameNope, "GZIP", nameLegacyC}).Draw(rt, "enc")
	}
	p.HasAccept = rapid.IntRange(0, 3).Draw(rt, "has_accept") > 0
	if p.HasAccept {
		n := rapid.IntRange(0, 4).Draw(rt, "naccept")
		var parts []string
		for i := 0; i < n; i++ {
			parts = append(parts, rapid.SampledFrom([]string{"gzip", nameA, nameB, "identity", " " + nameA, nameB + " ", nameNope, "", "deflate"}).Draw(rt, "accept"))
		}
		p.Accept = strings.Join(parts, rapid.SampledFrom([]string{",", ", "}).Draw(rt, "sep"))
	}
	p.SrvSet = rapid.SampledFrom([]string{"", "", "", "gzip", nameA, nameB, "identity", nameNope}).Draw(rt, "srv_set")
	n := rapid.IntRange(1, 4).Draw(rt, "nmsg")
	for i := 0; i < n; i++ {
		m := rawMsg{Msg: genMsg(rt)}
		switch rapid.IntRange(0, 9).Draw(rt, "mkind") {
		case 0, 1, 2: // consistent with the announced encoding
			if p.HasEnc && isRegistered(p.Enc) && len(m.Msg) > 0 {
				m.Flag, m.Body, m.BodyEnc = 1, bodyEncoded, p.Enc
			}
		case 3: // compressed although empty (allowed: flag 1 with a valid compressed empty payload)
			if p.HasEnc && isRegistered(p.Enc) {
				m.Flag, m.Body, m.BodyEnc = 1, bodyEncoded, p.Enc
			}
		case 4: // flag 1 but raw payload
			m.Flag, m.Body = 1, bodyRaw
		case 5: // flag 1, payload compressed with some other compressor
			m.Flag, m.Body, m.BodyEnc = 1, bodyEncoded, rapid.SampledFrom(registered).Draw(rt, "other_enc")
		case 6: // flag 0 but the payload is compressed data (must be delivered verbatim)
			m.Flag, m.Body, m.BodyEnc = 0, bodyEncoded, rapid.SampledFrom(registered).Draw(rt, "other_enc")
		case 7:
			m.Flag, m.Body = 1, bodyGarbage
		case 8:
			m.Flag = byte(rapid.SampledFrom([]int{2, 3, 0x80, 0xff, 0x81}).Draw(rt, "flag"))
		default: // flag 0 raw
		}
		p.Msgs = append(p.Msgs, m)
	}
	p.Resps = genMsgs(rt, rapid.IntRange(1, 3).Draw(rt, "nresp"), "resp")
	return p
}

func encodeBy(name string, b []byte) []byte {
	if name == "gzip" {
		var buf bytes.Buffer
		zw := gzip.NewWriter(&buf)
		_, _ = zw.Write(b)
		_ = zw.Close()
		return buf.Bytes()
	}
	return xforms[name].encode(b)
}

func (m rawMsg) payload() []byte {
	switch m.Body {
	case bodyEncoded:
		return encodeBy(m.BodyEnc, m.Msg)
	case bodyGarbage:
		return append([]byte("\x00garbage\xff"), m.Msg...)
	}
	return m.Msg
}

func runRaw(t *testing.T, p rawPlan) vk.Result {
	var res vk.Result
	msg := vk.Bubble(t, func(t *testing.T) { res = runRawInBubble(p) })
	if msg != "" && res.Violation == "" {
		return vk.Bad("harness/bubble: %s", msg).With(res.Classes...)
	}
	return res
}

func runRawInBubble(p rawPlan) vk.Result {
	out := vk.Result{}
	cls := func(c string) { out.Classes = append(out.Classes, c) }
	var mu sync.Mutex
	var got [][]byte
	var recvErr, setErr error
	calls, sawEOF := 0, false
	pair, err := e2e.Start(e2e.Options{
		NoClient: true,
		Stream: func(st grpc.ServerStream) error {
			mu.Lock()
			calls++
			mu.Unlock()
			if p.SrvSet != "" {
				err := grpc.SetSendCompressor(st.Context(), p.SrvSet)
				mu.Lock()
				setErr = err
				mu.Unlock()
			}
			for {
				b, err := e2e.RecvBytes(st)
				if err == io.EOF {
					mu.Lock()
					sawEOF = true
					mu.Unlock()
					break
				}
				if err != nil {
					mu.Lock()
					recvErr = err
					mu.Unlock()
					return err
				}
				mu.Lock()
				got = append(got, b)
				mu.Unlock()
			}
			for _, r := range p.Resps {
				if err := e2e.SendBytes(st, r); err != nil {
					return err
				}
			}
			return nil
		},
	})
	if err != nil {
		return vk.Bad("harness: start: %v", err)
	}
	defer pair.Close()
	rc, err := pair.DialRaw()
	if err != nil {
		return vk.Bad("harness: dial: %v", err)
	}
	defer rc.Conn.Close()
	_ = rc.Conn.SetDeadline(time.Now().Add(60 * time.Second))

	var extra []e2e.HeaderField
	if p.HasEnc {
		extra = append(extra, e2e.HeaderField{Name: "grpc-encoding", Value: p.Enc})
	}
	if p.HasAccept {
		extra = append(extra, e2e.HeaderField{Name: "grpc-accept-encoding", Value: p.Accept})
	}
	id, err := rc.StartStream(e2e.GRPCRequestHeaders(e2e.StreamMethod, extra...), false)
	for i, m := range p.Msgs {
		if err == nil {
			err = rc.WriteMessage(id, m.Flag, m.payload(), i == len(p.Msgs)-1)
		}
	}
	if err != nil {
		return vk.Bad("harness: raw write: %v", err)
	}
	frames, err := rc.ReadUntilEnd(id)
	if err != nil || len(frames) == 0 {
		return vk.Bad("connection failed: %v", err)
	}
	rc.Conn.Close()
	pair.Close()
	synctest.Wait()
	mu.Lock()
	defer mu.Unlock()

	bad := func(f string, a ...any) vk.Result {
		v := vk.Bad(f, a...)
		v.Classes = out.Classes
		return v
	}
	last := frames[len(frames)-1]
	grpcStatus := -1
	if last.Type == http2.FrameHeaders {
		if gs := last.Get("grpc-status"); len(gs) == 1 {
			grpcStatus, _ = strconv.Atoi(gs[0])
		}
	}
	enc := ""
	if p.HasEnc {
		enc = p.Enc
	}

	// ---- reference: what must the handler receive?
	var want [][]byte
	fail := "" // why the request phase must fail
	if nonIdentity(enc) && !isRegistered(enc) {
		fail = "unsupported"
	} else {
		for i, m := range p.Msgs {
			pl := m.payload()
			switch {
			case m.Flag == 0:
				want = append(want, pl)
			case m.Flag == 1 && !nonIdentity(enc):
				fail = fmt.Sprintf("message %d has the compressed flag but the encoding is identity", i)
			case m.Flag == 1:
				dec, err := decodeBy(enc, pl)
				if err != nil {
					fail = fmt.Sprintf("message %d does not decode with %s", i, enc)
				} else {
					want = append(want, dec)
				}
			default:
				fail = fmt.Sprintf("message %d has flag byte %d", i, m.Flag)
			}
			if fail != "" {
				break
			}
			if m.Flag == 1 {
				out.NonTrivial = true
			}
		}
	}
	if fail != "" && fail != "unsupported" {
		out.NonTrivial = true
	}
	if fail == "unsupported" {
		cls("unsupported_encoding")
		if grpcStatus != 12 {
			return bad("grpc-encoding %q is not supported by the server: grpc-status = %d, want 12 (UNIMPLEMENTED); last frame %+v", enc, grpcStatus, last)
		}
		if len(got) != 0 || calls != 0 {
			return bad("grpc-encoding %q is not supported but the handler ran %d times and received %q", enc, calls, got)
		}
		return out
	}
	// delivered prefix must be exactly the decoded messages
	if len(got) > len(want) {
		return bad("handler received %d messages %q, at most %d can be decoded (%s)", len(got), got, len(want), fail)
	}
	for i, b := range got {
		if !bytes.Equal(b, want[i]) {
			return bad("message %d delivered as %q, want %q (grpc-encoding %q, flag %d, body kind %d/%s)", i, b, want[i], enc, p.Msgs[i].Flag, p.Msgs[i].Body, p.Msgs[i].BodyEnc)
		}
	}
	if fail != "" {
		cls("bad_message")
		if len(got) != len(want) {
			return bad("handler received %d messages, want the %d before the bad one (%s)", len(got), len(want), fail)
		}
		if sawEOF || recvErr == nil {
			return bad("%s: handler saw EOF=%v recvErr=%v, want an error", fail, sawEOF, recvErr)
		}
		if grpcStatus == 0 {
			return bad("%s: RPC ended with grpc-status 0", fail)
		}
		cls("bad_message_status_" + strconv.Itoa(grpcStatus))
		return out
	}
	cls("all_requests_ok")
	if len(got) != len(want) || !sawEOF {
		return bad("handler received %d of %d messages (EOF=%v, recvErr=%v)", len(got), len(want), sawEOF, recvErr)
	}
	if grpcStatus != 0 {
		return bad("all requests are well-formed but grpc-status = %d (frames %+v)", grpcStatus, last)
	}

	// ---- response side (server is the sender)
	var adv []string
	if p.HasAccept {
		for _, a := range strings.Split(p.Accept, ",") {
			adv = append(adv, strings.TrimSpace(a))
		}
	}
	wantRespEnc := ""
	if nonIdentity(enc) {
		wantRespEnc = enc
	}
	if p.SrvSet != "" {
		valid := p.SrvSet == "identity" || (isRegistered(p.SrvSet) && contains(adv, p.SrvSet))
		if valid != (setErr == nil) {
			return bad("SetSendCompressor(%q) error = %v, but registered=%v advertised=%v (grpc-accept-encoding %q)", p.SrvSet, setErr, isRegistered(p.SrvSet), contains(adv, p.SrvSet), p.Accept)
		}
		if valid {
			wantRespEnc = p.SrvSet
			cls("set_valid")
		} else {
			cls("set_rejected")
		}
	}
	var hs []e2e.WireFrame
	for _, f := range frames {
		if f.Type == http2.FrameHeaders {
			hs = append(hs, f)
		}
	}
	if len(hs) != 2 {
		return bad("%d response HEADERS frames", len(hs))
	}
	respEnc := ""
	if e := hs[0].Get("grpc-encoding"); len(e) == 1 {
		respEnc = e[0]
	} else if len(e) > 1 {
		return bad("%d grpc-encoding fields in the response", len(e))
	}
	if respEnc != wantRespEnc && !(nonIdentity(respEnc) == false && nonIdentity(wantRespEnc) == false) {
		return bad("response grpc-encoding = %q, want %q (request encoding %q, SetSendCompressor %q)", respEnc, wantRespEnc, enc, p.SrvSet)
	}
	if nonIdentity(respEnc) {
		cls("resp_compressed")
		if !contains(adv, respEnc) && respEnc != enc {
			return bad("server compressed the response with %q which the client neither advertised (%q) nor used (%q)", respEnc, p.Accept, enc)
		}
		if !contains(adv, respEnc) {
			cls("resp_encoding_used_not_advertised")
		}
	}
	msgs, rest := e2e.MessagesOf(frames, id)
	if len(rest) != 0 || len(msgs) != len(p.Resps) {
		return bad("%d response messages (+%d stray bytes), want %d", len(msgs), len(rest), len(p.Resps))
	}
	if v := checkMessages("response", respEnc, msgs, p.Resps); v != "" {
		return bad("%s", v)
	}
	return out
}

func TestVerifC27Raw(t *testing.T) {
	vk.Check(t, vk.Unit[rawPlan]{
		ID: "C27", Name: "rawenc",
		Rule: "scripted raw HTTP/2 client -> real server (gzip + two harness compressors registered): grpc-encoding {absent, gzip, A, B, identity, empty, unregistered, wrong case}, grpc-accept-encoding {absent, 0-4 names incl. unregistered, spaces}, 1-4 messages each {consistent, compressed empty, flag 1 + raw payload, flag 1 + other compressor, flag 0 + compressed bytes, flag 1 + garbage, flag byte >= 2, plain}, handler SetSendCompressor {none, gzip, A, B, identity, unregistered}, 1-3 responses. non-trivial = some message carries flag 1, or the request phase must fail for a message-level reason",
		Gen:  genRawPlan, Run: runRaw,
	})
}
