package c35_test

// C35, unit rr: the registered round_robin policy (endpointsharding over real
// pick_first children, health listener enabled) over the fake addrConn
// automaton. Endpoints have a single address, so the state of an endpoint's
// pick_first child follows a small documented state machine (model below); the
// aggregate must follow the precedence rule over those states and, when READY,
// k consecutive picks must be spread floor(k/n)..ceil(k/n) over the n READY
// endpoints' SubConns and never return a SubConn that is not READY.

import (
	"fmt"
	"sort"
	"testing"
	"testing/synctest"

	"google.golang.org/grpc/balancer"
	"google.golang.org/grpc/balancer/roundrobin"
	"google.golang.org/grpc/connectivity"
	"google.golang.org/grpc/internal/verifkit/fakecc"
	"google.golang.org/grpc/internal/verifkit/vk"
	"google.golang.org/grpc/resolver"
	"pgregory.net/rapid"
)

const (
	rrUpdate = iota
	rrDeliver
	rrHealth
	rrPick
	rrBringUp // macro: drive one endpoint's subchannel to READY and healthy
)

type rrOp struct {
	K   int   `json:"k"`
	A   int   `json:"a"`
	B   int   `json:"b"`
	Eps []int `json:"eps,omitempty"`
}

type rrPlan struct {
	Ops []rrOp `json:"ops"`
}

func genRR(rt *rapid.T) rrPlan {
	var p rrPlan
	n := 6 + fakecc.Uniform(rt, "n", vk.Pick(35, 295))
	for i := 0; i < n; i++ {
		var o rrOp
		k := weighted(rt, "k", 40, 5, 22, 21, 12)
		if i == 0 {
			k = 1
		}
		switch k {
		case 0:
			o.K = rrDeliver
			o.A = uni(rt, "sc", 0, 15)
			o.B = weighted(rt, "ev", 68, 27, 5) // for a CONNECTING subchannel: READY, TF, IDLE
		case 1:
			o.K = rrUpdate
			m := 2 + uni(rt, "neps", 0, 4)
			if uni(rt, "empty", 0, 19) == 0 {
				m = 0
			}
			for j := 0; j < m; j++ {
				o.Eps = append(o.Eps, uni(rt, "ep", 0, 6))
			}
		case 2:
			o.K = rrHealth
			o.A = uni(rt, "sc", 0, 7)
			o.B = weighted(rt, "hs", 80, 10, 10) // READY, TF, CONNECTING
		case 3:
			o.K = rrPick
			o.A = 1 + uni(rt, "picks", 0, 29)
		default:
			o.K = rrBringUp
			o.A = uni(rt, "ep", 0, 6)
		}
		p.Ops = append(p.Ops, o)
	}
	return p
}

// rrChild is the model of one endpoint's pick_first child (single address).
type rrChild struct {
	state  connectivity.State
	sticky bool // TRANSIENT_FAILURE after a failed pass: kept until READY
}

func rrAddr(id int) string { return fmt.Sprintf("10.3.0.%d:443", id) }

func runRR(t *testing.T, p rrPlan) vk.Result {
	var res vk.Result
	msg := vk.Bubble(t, func(t *testing.T) { res = runRRBubble(p) })
	if msg != "" && res.Violation == "" {
		return vk.Bad("bubble did not drain cleanly: %s", msg)
	}
	return res
}

func runRRBubble(p rrPlan) (res vk.Result) {
	cc := fakecc.New("c35-rr")
	rr := balancer.Get(roundrobin.Name).Build(cc, balancer.BuildOptions{})
	defer func() {
		rr.Close()
		synctest.Wait()
	}()
	model := map[int]*rrChild{}
	liveSC := func(id int) *fakecc.SubConn {
		for _, sc := range cc.Live() {
			if sc.Addrs[0].Addr == rrAddr(id) {
				return sc
			}
		}
		return nil
	}
	idOf := func(sc *fakecc.SubConn) int {
		var id int
		fmt.Sscanf(sc.Addrs[0].Addr, "10.3.0.%d:443", &id)
		return id
	}
	states := func() []connectivity.State {
		var ids []int
		for id := range model {
			ids = append(ids, id)
		}
		sort.Ints(ids)
		var out []connectivity.State
		for _, id := range ids {
			out = append(out, model[id].state)
		}
		return out
	}
	maxDistinct, fairPicks, updated := 0, 0, false
	sawSticky, sawHealthTF, sawIdleReconnect := false, false, false

	for i, o := range p.Ops {
		desc := fmt.Sprintf("op %d %+v", i, o)
		switch o.K {
		case rrUpdate:
			updated = true
			want := map[int]bool{}
			var eps []resolver.Endpoint
			for _, id := range o.Eps {
				want[id] = true
				eps = append(eps, resolver.Endpoint{Addresses: []resolver.Address{{Addr: rrAddr(id)}}})
			}
			for id := range model {
				if !want[id] {
					delete(model, id)
				}
			}
			for id := range want {
				if model[id] == nil {
					model[id] = &rrChild{state: connectivity.Connecting}
				}
			}
			_ = rr.UpdateClientConnState(balancer.ClientConnState{ResolverState: resolver.State{Endpoints: eps}})
		case rrDeliver:
			var d, liveD []*fakecc.SubConn
			for _, sc := range cc.SubConns() {
				if en := sc.Enabled(); len(en) > 0 {
					d = append(d, sc)
					// prefer subchannels that are on their way up
					if !sc.ShutdownCalled() && en[0] != connectivity.Idle {
						liveD = append(liveD, sc)
					}
				}
			}
			if len(d) == 0 {
				continue
			}
			if len(liveD) > 0 && o.A%6 != 0 {
				d = liveD
			}
			sc := d[o.A%len(d)]
			en := sc.Enabled()
			st := en[0]
			if en[0] == connectivity.Ready {
				st = []connectivity.State{connectivity.Ready, connectivity.TransientFailure, connectivity.Idle}[o.B]
			}
			prev := sc.State()
			live := !sc.ShutdownCalled()
			sc.Deliver(st, fmt.Errorf("refused"))
			c := model[idOf(sc)]
			if !live || c == nil || liveSC(idOf(sc)) != sc && st != connectivity.Shutdown {
				break
			}
			switch st {
			case connectivity.TransientFailure:
				c.state, c.sticky = connectivity.TransientFailure, true
				sawSticky = true
			case connectivity.Ready:
				// health listener enabled by round_robin: CONNECTING until the
				// health state arrives.
				c.state, c.sticky = connectivity.Connecting, false
			case connectivity.Idle:
				if prev == connectivity.Ready || prev == connectivity.Connecting {
					// pick_first goes IDLE; endpointsharding re-connects it.
					c.state, c.sticky = connectivity.Connecting, false
					sawIdleReconnect = true
				}
			}
		case rrBringUp:
			var ids []int
			for id := range model {
				ids = append(ids, id)
			}
			sort.Ints(ids)
			if len(ids) == 0 {
				continue
			}
			id := ids[o.A%len(ids)]
			c := model[id]
			for step := 0; step < 6; step++ {
				sc := liveSC(id)
				if sc == nil {
					break
				}
				if sc.HealthEnabled() {
					sc.DeliverHealth(connectivity.Ready, nil)
					c.state = connectivity.Ready
					break
				}
				en := sc.Enabled()
				if len(en) == 0 || sc.State() == connectivity.Ready {
					break
				}
				sc.Deliver(en[0], nil) // IDLE->CONNECTING, CONNECTING->READY, TF->IDLE
				if en[0] == connectivity.Ready {
					c.state, c.sticky = connectivity.Connecting, false
				}
				synctest.Wait()
			}
		case rrHealth:
			var hs []*fakecc.SubConn
			for _, sc := range cc.SubConns() {
				if sc.HealthEnabled() {
					hs = append(hs, sc)
				}
			}
			if len(hs) == 0 {
				continue
			}
			sc := hs[o.A%len(hs)]
			st := []connectivity.State{connectivity.Ready, connectivity.TransientFailure, connectivity.Connecting}[o.B]
			sc.DeliverHealth(st, fmt.Errorf("unhealthy"))
			if c := model[idOf(sc)]; c != nil && liveSC(idOf(sc)) == sc {
				c.state = st
				if st == connectivity.TransientFailure {
					sawHealthTF = true
				}
			}
		case rrPick:
			st, ok := cc.LastState()
			if !ok {
				continue
			}
			counts := map[*fakecc.SubConn]int{}
			for j := 0; j < o.A; j++ {
				pr, err := st.Picker.Pick(balancer.PickInfo{})
				if err != nil {
					continue
				}
				sc, _ := pr.SubConn.(*fakecc.SubConn)
				if sc == nil || sc.State() != connectivity.Ready || sc.ShutdownCalled() {
					return vk.Bad("%s: pick returned %v which is not READY", desc, pr.SubConn)
				}
				counts[sc]++
			}
			var ready []int
			for id, c := range model {
				if c.state == connectivity.Ready {
					ready = append(ready, id)
				}
			}
			if len(ready) > 0 {
				total := 0
				for sc, n := range counts {
					c := model[idOf(sc)]
					if c == nil || c.state != connectivity.Ready || liveSC(idOf(sc)) != sc {
						return vk.Bad("%s: %d picks went to %v whose endpoint is not READY in the model", desc, n, sc)
					}
					total += n
				}
				if total != o.A {
					return vk.Bad("%s: only %d of %d picks succeeded with %d READY endpoints", desc, total, o.A, len(ready))
				}
				lo, hi := o.A/len(ready), (o.A+len(ready)-1)/len(ready)
				for _, id := range ready {
					if n := counts[liveSC(id)]; n < lo || n > hi {
						return vk.Bad("%s: endpoint %d got %d of %d picks among %d READY endpoints, want %d..%d", desc, id, n, o.A, len(ready), lo, hi)
					}
				}
				if len(ready) >= 2 && o.A >= len(ready) {
					fairPicks++
				}
			} else if len(counts) > 0 {
				return vk.Bad("%s: picks succeeded although no endpoint is READY in the model", desc)
			}
		}
		synctest.Wait()
		res.Steps++
		if !updated {
			continue
		}
		ms := states()
		if d := distinct(ms); d > maxDistinct {
			maxDistinct = d
		}
		st, ok := cc.LastState()
		if !ok {
			return vk.Bad("%s: nothing reported to the parent", desc)
		}
		if want := precedence(ms); st.ConnectivityState != want {
			return vk.Bad("%s: round_robin reports %v, precedence over the endpoint states %v gives %v", desc, st.ConnectivityState, ms, want)
		}
	}
	res.NonTrivial = maxDistinct >= 2 && fairPicks > 0
	res.Classes = append(res.Classes, fmt.Sprintf("max_distinct_states_%d", maxDistinct))
	cl := func(c bool, s string) {
		if c {
			res.Classes = append(res.Classes, s)
		}
	}
	cl(fairPicks > 0, "fairness_checked_n>=2")
	cl(sawSticky, "endpoint_sticky_tf")
	cl(sawHealthTF, "health_tf")
	cl(sawIdleReconnect, "idle_auto_reconnect")
	return res
}

func TestVerifC35RoundRobin(t *testing.T) {
	vk.Check(t, vk.Unit[rrPlan]{
		ID: "C35", Name: "rr",
		Rule: "op lists (<=40/<=300) over the registered round_robin policy (real pick_first children, health listener on) with single-address endpoints out of 7: resolver updates (2..6 endpoints, duplicates, occasionally empty), subchannel events from the fake addrConn automaton (READY 68% / TF 27% / IDLE 5% for a connecting subchannel; subchannels on their way up are preferred), health updates, a macro that drives one endpoint's subchannel to READY and healthy, batches of 1..30 picks. Endpoint states follow the documented pick_first state machine (sticky TF, CONNECTING until healthy, auto-reconnect from IDLE). non-trivial = endpoints in >=2 distinct states at some point (IDLE never persists: endpointsharding re-connects it) and a fairness check with >=2 READY endpoints",
		Gen:  genRR, Run: runRR,
	})
}
