package c35_test

// C35: aggregated connectivity state follows the precedence rule
// (READY > CONNECTING > IDLE > TRANSIENT_FAILURE, empty = TRANSIENT_FAILURE) and
// the endpoint-sharding picker delegates round-robin only to children in the
// aggregate state.
//
// Units:
//   cse       balancer.ConnectivityStateEvaluator vs a multiset model
//   sharding  endpointsharding.NewBalancer with stub children
//   wtarget   weighted_target_experimental with stub children
//   rr        round_robin (real pick_first children) — see c35_rr_test.go
//
// The oracle is a multiset model written from the statement; it never looks
// at the policies' own bookkeeping (e.g. ChildStatesFromPicker is not used).

import (
	"errors"
	"fmt"
	"sort"
	"sync"
	"testing"
	"testing/synctest"

	"google.golang.org/grpc/balancer"
	"google.golang.org/grpc/balancer/endpointsharding"
	"google.golang.org/grpc/balancer/weightedtarget"
	"google.golang.org/grpc/connectivity"
	"google.golang.org/grpc/internal/hierarchy"
	iserviceconfig "google.golang.org/grpc/internal/serviceconfig"
	"google.golang.org/grpc/internal/verifkit/fakecc"
	"google.golang.org/grpc/internal/verifkit/stubs"
	"google.golang.org/grpc/internal/verifkit/vk"
	"google.golang.org/grpc/resolver"
	"pgregory.net/rapid"
)

var connStates = []connectivity.State{connectivity.Ready, connectivity.Connecting, connectivity.Idle, connectivity.TransientFailure}

// precedence is the rule of the statement over a multiset of states.
func precedence(states []connectivity.State) connectivity.State {
	n := map[connectivity.State]int{}
	for _, s := range states {
		n[s]++
	}
	switch {
	case n[connectivity.Ready] > 0:
		return connectivity.Ready
	case n[connectivity.Connecting] > 0:
		return connectivity.Connecting
	case n[connectivity.Idle] > 0:
		return connectivity.Idle
	}
	return connectivity.TransientFailure
}

func distinct(states []connectivity.State) int {
	n := map[connectivity.State]bool{}
	for _, s := range states {
		n[s] = true
	}
	return len(n)
}

func weighted(rt *rapid.T, label string, weights ...int) int {
	return fakecc.Weighted(rt, label, weights...)
}

func uni(rt *rapid.T, label string, lo, hi int) int { return lo + fakecc.Uniform(rt, label, hi-lo+1) }

// ---------------------------------------------------------------- unit cse

type cseOp struct {
	K int `json:"k"` // 0 transition, 1 add, 2 remove
	A int `json:"a"` // child selector
	S int `json:"s"` // new state index
}

type csePlan struct {
	Ops []cseOp `json:"ops"`
}

func genCSE(rt *rapid.T) csePlan {
	n := uni(rt, "n", 1, vk.Pick(30, 300))
	var p csePlan
	for i := 0; i < n; i++ {
		p.Ops = append(p.Ops, cseOp{K: weighted(rt, "k", 45, 40, 15), A: uni(rt, "a", 0, 63), S: uni(rt, "s", 0, 3)})
	}
	return p
}

func runCSE(_ *testing.T, p csePlan) vk.Result {
	var cse balancer.ConnectivityStateEvaluator
	var model []connectivity.State
	res := vk.Result{}
	maxDistinct, sawEmptyAgain := 0, false
	if got := cse.CurrentState(); got != connectivity.TransientFailure {
		return vk.Bad("fresh evaluator reports %v, want TRANSIENT_FAILURE (no children)", got)
	}
	for i, o := range p.Ops {
		var got connectivity.State
		switch {
		case o.K == 1 || len(model) == 0:
			s := connStates[o.S]
			model = append(model, s)
			got = cse.RecordTransition(connectivity.Shutdown, s)
		case o.K == 0:
			j := o.A % len(model)
			s := connStates[o.S]
			got = cse.RecordTransition(model[j], s)
			model[j] = s
		default:
			j := o.A % len(model)
			got = cse.RecordTransition(model[j], connectivity.Shutdown)
			model = append(model[:j], model[j+1:]...)
			if len(model) == 0 {
				sawEmptyAgain = true
			}
		}
		want := precedence(model)
		if got != want || cse.CurrentState() != want {
			return vk.Bad("op %d %+v: RecordTransition returned %v, CurrentState %v, want %v for multiset %v", i, o, got, cse.CurrentState(), want, model)
		}
		if d := distinct(model); d > maxDistinct {
			maxDistinct = d
		}
		res.Steps++
	}
	res.NonTrivial = maxDistinct >= 3
	res.Classes = append(res.Classes, fmt.Sprintf("max_distinct_states_%d", maxDistinct))
	if sawEmptyAgain {
		res.Classes = append(res.Classes, "became_empty_again")
	}
	return res
}

func TestVerifC35CSE(t *testing.T) {
	vk.Check(t, vk.Unit[csePlan]{
		ID: "C35", Name: "cse",
		Rule: "op lists (<=30/<=300) over ConnectivityStateEvaluator: add child in state s (Shutdown->s), transition child i from its actual state to s, remove child (s->Shutdown); only transitions whose old state is the child's actual state are generated. non-trivial = children in >=3 distinct states at some point",
		Gen:  genCSE, Run: runCSE,
	})
}

// ----------------------------------------------------------- unit sharding

const (
	esUpdate = iota
	esReport
	esPick
	esResolverError
	esExitIdle
)

type esOp struct {
	K   int   `json:"k"`
	A   int   `json:"a"`
	B   int   `json:"b"`
	Eps []int `json:"eps,omitempty"`
}

type esPlan struct {
	DisableAutoReconnect bool   `json:"disable_auto_reconnect"`
	ReconnectOnExitIdle  bool   `json:"reconnect_on_exit_idle"`
	Ops                  []esOp `json:"ops"`
}

func genES(rt *rapid.T) esPlan {
	p := esPlan{DisableAutoReconnect: rapid.Bool().Draw(rt, "noauto"), ReconnectOnExitIdle: rapid.Bool().Draw(rt, "reconnect")}
	n := rapid.IntRange(2, vk.Pick(30, 300)).Draw(rt, "n")
	for i := 0; i < n; i++ {
		o := esOp{}
		k := weighted(rt, "k", 50, 14, 26, 5, 5) // report, update, pick, resolverError, exitIdle
		if i == 0 && rapid.IntRange(0, 9).Draw(rt, "first") > 0 {
			k = 1
		}
		switch k {
		case 0:
			o.K = esReport
			o.A = uni(rt, "child", 0, 99)
			o.B = uni(rt, "state", 0, 3)
		case 1:
			o.K = esUpdate
			m := uni(rt, "neps", 0, 8)
			if m > 0 && m < 3 {
				m += 2
			}
			for j := 0; j < m; j++ {
				o.Eps = append(o.Eps, uni(rt, "ep", 0, 9))
			}
			o.B = uni(rt, "init", 0, 1<<20-1)
		case 2:
			o.K = esPick
			o.A = rapid.IntRange(1, 40).Draw(rt, "picks")
		case 3:
			o.K = esResolverError
		default:
			o.K = esExitIdle
		}
		p.Ops = append(p.Ops, o)
	}
	return p
}

type esChild struct {
	ep     int
	c      *stubs.Child
	state  connectivity.State
	picker *stubs.Picker
	live   bool
}

func epOf(id int) resolver.Endpoint {
	return resolver.Endpoint{Addresses: []resolver.Address{{Addr: fmt.Sprintf("10.1.0.%d:443", id)}}}
}

func runES(t *testing.T, p esPlan) vk.Result {
	var res vk.Result
	msg := vk.Bubble(t, func(t *testing.T) { res = runESBubble(p) })
	if msg != "" && res.Violation == "" {
		return vk.Bad("bubble did not drain cleanly: %s", msg)
	}
	return res
}

func runESBubble(p esPlan) (res vk.Result) {
	hub := stubs.NewHub()
	defer hub.Release()
	cc := fakecc.New(hub.Key())
	childBuilder := stubs.Builder(stubs.Names[0]).Build
	es := endpointsharding.NewBalancer(cc, hub.BuildOptions(), childBuilder, endpointsharding.Options{DisableAutoReconnect: p.DisableAutoReconnect})
	defer func() {
		es.Close()
		synctest.Wait()
	}()

	live := map[int]*esChild{}
	byChild := map[*stubs.Child]*esChild{}
	var all []*esChild
	initDigits := 0
	report := func(ec *esChild, s connectivity.State) {
		ec.state = s
		ec.picker = ec.c.Report(s)
	}
	hub.OnUpdate = func(c *stubs.Child, ccs balancer.ClientConnState) error {
		if _, ok := byChild[c]; ok {
			return nil
		}
		if len(ccs.ResolverState.Endpoints) != 1 || len(ccs.ResolverState.Endpoints[0].Addresses) != 1 {
			return fmt.Errorf("harness: child got %d endpoints", len(ccs.ResolverState.Endpoints))
		}
		var id int
		fmt.Sscanf(ccs.ResolverState.Endpoints[0].Addresses[0].Addr, "10.1.0.%d:443", &id)
		ec := &esChild{ep: id, c: c, live: true}
		byChild[c] = ec
		all = append(all, ec)
		// real policies report an initial state synchronously
		report(ec, connStates[(initDigits>>(2*uint(id)))&3])
		return nil
	}
	// ExitIdle may arrive on a helper goroutine (auto-reconnect); the model is
	// only touched by the main goroutine, so the hook just queues the child.
	var qmu sync.Mutex
	var exitIdleQ []*stubs.Child
	hub.OnExitIdle = func(c *stubs.Child) {
		qmu.Lock()
		exitIdleQ = append(exitIdleQ, c)
		qmu.Unlock()
	}
	settle := func() {
		for {
			synctest.Wait()
			qmu.Lock()
			q := exitIdleQ
			exitIdleQ = nil
			qmu.Unlock()
			if len(q) == 0 {
				return
			}
			for _, c := range q {
				if ec := byChild[c]; p.ReconnectOnExitIdle && ec != nil && ec.live && ec.state == connectivity.Idle {
					report(ec, connectivity.Connecting)
				}
			}
		}
	}

	liveSorted := func() []*esChild {
		var out []*esChild
		for _, ec := range live {
			out = append(out, ec)
		}
		sort.Slice(out, func(i, j int) bool { return out[i].ep < out[j].ep })
		return out
	}
	modelStates := func() []connectivity.State {
		var out []connectivity.State
		for _, ec := range liveSorted() {
			out = append(out, ec.state)
		}
		return out
	}
	maxDistinct, fairPicks, emptySeen, removedReport, autoExitIdle := 0, 0, false, false, false
	anyUpdate := false

	for i, o := range p.Ops {
		desc := fmt.Sprintf("op %d %+v", i, o)
		switch o.K {
		case esUpdate:
			anyUpdate = true
			initDigits = o.B
			want := map[int]bool{}
			var eps []resolver.Endpoint
			for _, id := range o.Eps {
				want[id] = true
				eps = append(eps, epOf(id))
			}
			nBefore := len(all)
			err := es.UpdateClientConnState(balancer.ClientConnState{ResolverState: resolver.State{Endpoints: eps}})
			if (len(want) == 0) != errors.Is(err, balancer.ErrBadResolverState) {
				return vk.Bad("%s: UpdateClientConnState returned %v for %d endpoints", desc, err, len(want))
			}
			// new children exactly for new endpoints
			for _, ec := range all[nBefore:] {
				if !want[ec.ep] || live[ec.ep] != nil {
					return vk.Bad("%s: a child was built for endpoint %d (wanted=%v, already live=%v)", desc, ec.ep, want[ec.ep], live[ec.ep] != nil)
				}
				live[ec.ep] = ec
			}
			for id, ec := range live {
				if !want[id] {
					ec.live = false
					delete(live, id)
				}
			}
			for id := range want {
				if live[id] == nil {
					return vk.Bad("%s: no child for endpoint %d", desc, id)
				}
			}
		case esReport:
			var ec *esChild
			ls := liveSorted()
			switch {
			case len(all) == 0:
				continue
			case o.A < 92 && len(ls) > 0:
				ec = ls[o.A%len(ls)]
			default:
				ec = all[o.A%len(all)]
			}
			if !ec.live {
				removedReport = true
				if !ec.c.Closed() {
					return vk.Bad("%s: child of removed endpoint %d was not closed", desc, ec.ep)
				}
				continue // a closed policy must not report; not generated
			}
			report(ec, connStates[o.B])
		case esPick:
			st, ok := cc.LastState()
			if !ok {
				continue
			}
			ls := liveSorted()
			before := map[*esChild]int{}
			for _, ec := range all {
				if ec.picker != nil {
					before[ec] = ec.picker.Picks()
				}
			}
			agg := precedence(modelStates())
			var inAgg []*esChild
			for _, ec := range ls {
				if ec.state == agg {
					inAgg = append(inAgg, ec)
				}
			}
			k := o.A
			for j := 0; j < k; j++ {
				_, err := st.Picker.Pick(balancer.PickInfo{})
				if len(ls) == 0 && err == nil {
					return vk.Bad("%s: pick with no children succeeded", desc)
				}
			}
			total := 0
			for _, ec := range all {
				if ec.picker == nil {
					continue
				}
				d := ec.picker.Picks() - before[ec]
				total += d
				in := false
				for _, x := range inAgg {
					in = in || x == ec
				}
				if !in && d != 0 {
					return vk.Bad("%s: %d of %d picks were delegated to endpoint %d in state %v (live=%v) while the aggregate state is %v", desc, d, k, ec.ep, ec.state, ec.live, agg)
				}
				if in {
					lo := k / len(inAgg)
					hi := (k + len(inAgg) - 1) / len(inAgg)
					if d < lo || d > hi {
						return vk.Bad("%s: endpoint %d got %d of %d picks among %d children in state %v, want %d..%d", desc, ec.ep, d, k, len(inAgg), agg, lo, hi)
					}
				}
			}
			if len(inAgg) > 0 && total != k {
				return vk.Bad("%s: %d of %d picks reached the children in the aggregate state", desc, total, k)
			}
			if len(inAgg) >= 2 && k >= len(inAgg) {
				fairPicks++
			}
		case esResolverError:
			n0 := map[*esChild]int{}
			for _, ec := range liveSorted() {
				n0[ec] = ec.c.Count(stubs.CResolverError)
			}
			es.ResolverError(errors.New("resolver broke"))
			anyUpdate = true
			for ec, n := range n0 {
				if ec.c.Count(stubs.CResolverError) != n+1 {
					return vk.Bad("%s: ResolverError not forwarded exactly once to endpoint %d", desc, ec.ep)
				}
			}
		case esExitIdle:
			es.ExitIdle()
			anyUpdate = true
		}
		settle()
		res.Steps++
		ms := modelStates()
		if len(ms) == 0 {
			emptySeen = true
		}
		if d := distinct(ms); d > maxDistinct {
			maxDistinct = d
		}
		if !p.DisableAutoReconnect {
			for _, ec := range liveSorted() {
				if ec.c.Count(stubs.CExitIdle) > 0 {
					autoExitIdle = true
				}
			}
		}
		if !anyUpdate {
			continue
		}
		st, ok := cc.LastState()
		if !ok {
			return vk.Bad("%s: no state was ever reported to the parent", desc)
		}
		if want := precedence(ms); st.ConnectivityState != want {
			return vk.Bad("%s: aggregate state reported %v, want %v for child states %v", desc, st.ConnectivityState, want, ms)
		}
		for _, ec := range all {
			if !ec.live && ec.c.CloseCount() != 1 {
				return vk.Bad("%s: child of removed endpoint %d has Close count %d", desc, ec.ep, ec.c.CloseCount())
			}
			if ec.live && ec.c.Closed() {
				return vk.Bad("%s: child of live endpoint %d was closed", desc, ec.ep)
			}
		}
	}
	res.NonTrivial = maxDistinct >= 3
	res.Classes = append(res.Classes, fmt.Sprintf("max_distinct_states_%d", maxDistinct))
	if fairPicks > 0 {
		res.Classes = append(res.Classes, "fairness_checked_n>=2")
	}
	if emptySeen {
		res.Classes = append(res.Classes, "empty_child_set")
	}
	if removedReport {
		res.Classes = append(res.Classes, "removed_child_selected")
	}
	if autoExitIdle {
		res.Classes = append(res.Classes, "auto_exit_idle")
	}
	return res
}

func TestVerifC35Sharding(t *testing.T) {
	vk.Check(t, vk.Unit[esPlan]{
		ID: "C35", Name: "sharding",
		Rule: "op lists (<=30/<=300) over endpointsharding.NewBalancer with stub children (auto-reconnect on/off): resolver updates with 0..8 endpoints out of 10 incl. duplicates (new children report a plan-chosen initial state synchronously), child reports, batches of 1..40 consecutive picks, ResolverError, ExitIdle. non-trivial = live children in >=3 distinct states at some quiescent point",
		Gen:  genES, Run: runES,
	})
}

// ------------------------------------------------------------ unit wtarget

const (
	wtConfig = iota
	wtReport
	wtPick
	wtResolverError
	wtExitIdle
)

type wtTarget struct {
	Name   int `json:"name"`
	Weight int `json:"weight"`
	Policy int `json:"policy"`
}

type wtOp struct {
	K       int        `json:"k"`
	A       int        `json:"a"`
	B       int        `json:"b"`
	Targets []wtTarget `json:"targets,omitempty"`
}

type wtPlan struct {
	Ops []wtOp `json:"ops"`
}

func genWT(rt *rapid.T) wtPlan {
	var p wtPlan
	n := rapid.IntRange(2, vk.Pick(30, 300)).Draw(rt, "n")
	for i := 0; i < n; i++ {
		o := wtOp{}
		k := weighted(rt, "k", 52, 14, 24, 5, 5)
		if i == 0 && rapid.IntRange(0, 9).Draw(rt, "first") > 0 {
			k = 1
		}
		switch k {
		case 0:
			o.K = wtReport
			o.A = uni(rt, "child", 0, 99)
			o.B = uni(rt, "state", 0, 3)
		case 1:
			o.K = wtConfig
			m := uni(rt, "ntargets", 0, 6)
			if m > 0 && m < 3 {
				m += 2
			}
			for j := 0; j < m; j++ {
				o.Targets = append(o.Targets, wtTarget{Name: uni(rt, "name", 0, 7), Weight: uni(rt, "w", 1, 5), Policy: weighted(rt, "policy", 80, 10, 10)})
			}
			o.B = uni(rt, "init", 0, 1<<20-1) | uni(rt, "init2", 0, 15)<<20
		case 2:
			o.K = wtPick
			o.A = rapid.IntRange(1, 30).Draw(rt, "picks")
		case 3:
			o.K = wtResolverError
		default:
			o.K = wtExitIdle
		}
		p.Ops = append(p.Ops, o)
	}
	return p
}

type wtChild struct {
	name      int
	policy    int
	c         *stubs.Child
	reported  connectivity.State // last reported (CONNECTING placeholder before the first report)
	effective connectivity.State // state used for aggregation (sticky TF)
	picker    *stubs.Picker
	live      bool
}

func runWT(t *testing.T, p wtPlan) vk.Result {
	var res vk.Result
	msg := vk.Bubble(t, func(t *testing.T) { res = runWTBubble(p) })
	if msg != "" && res.Violation == "" {
		return vk.Bad("bubble did not drain cleanly: %s", msg)
	}
	return res
}

func runWTBubble(p wtPlan) (res vk.Result) {
	hub := stubs.NewHub()
	defer hub.Release()
	cc := fakecc.New(hub.Key())
	wt := balancer.Get(weightedtarget.Name).Build(cc, hub.BuildOptions())
	defer func() {
		wt.Close()
		synctest.Wait()
	}()

	live := map[int]*wtChild{}
	byChild := map[*stubs.Child]*wtChild{}
	var all []*wtChild
	initDigits := 0
	stickyHeld, stickyEscaped := 0, 0
	report := func(wc *wtChild, s connectivity.State) {
		// documented aggregation rule of weighted_target: a child going from
		// TRANSIENT_FAILURE to CONNECTING keeps counting as TRANSIENT_FAILURE.
		if wc.reported == connectivity.TransientFailure && s == connectivity.Connecting {
			stickyHeld++
		} else {
			if wc.effective == connectivity.TransientFailure && wc.reported == connectivity.Connecting && s == connectivity.Connecting {
				stickyEscaped++
			}
			wc.effective = s
		}
		wc.reported = s
		wc.picker = wc.c.Report(s)
	}
	hub.OnUpdate = func(c *stubs.Child, ccs balancer.ClientConnState) error {
		if _, ok := byChild[c]; ok {
			return nil
		}
		var id int
		if _, err := fmt.Sscanf(weightedtarget.LocalityFromResolverState(ccs.ResolverState), "t%d", &id); err != nil {
			return fmt.Errorf("harness: child without locality name: %v", err)
		}
		wc := &wtChild{name: id, c: c, live: true, reported: connectivity.Connecting, effective: connectivity.Connecting}
		byChild[c] = wc
		all = append(all, wc)
		if d := (initDigits >> (3 * uint(id))) & 7; d < 4 {
			report(wc, connStates[d])
		}
		return nil
	}
	liveSorted := func() []*wtChild {
		var out []*wtChild
		for _, wc := range live {
			out = append(out, wc)
		}
		sort.Slice(out, func(i, j int) bool { return out[i].name < out[j].name })
		return out
	}
	modelStates := func() []connectivity.State {
		var out []connectivity.State
		for _, wc := range liveSorted() {
			out = append(out, wc.effective)
		}
		return out
	}
	maxDistinct, readyPicks, emptySeen, policyChange, configured := 0, 0, false, false, false

	for i, o := range p.Ops {
		desc := fmt.Sprintf("op %d %+v", i, o)
		switch o.K {
		case wtConfig:
			configured = true
			initDigits = o.B
			cfg := &weightedtarget.LBConfig{Targets: map[string]weightedtarget.Target{}}
			want := map[int]wtTarget{}
			var eps []resolver.Endpoint
			for _, tg := range o.Targets {
				if _, dup := want[tg.Name]; dup {
					continue
				}
				want[tg.Name] = tg
				name := fmt.Sprintf("t%d", tg.Name)
				cfg.Targets[name] = weightedtarget.Target{Weight: uint32(tg.Weight), ChildPolicy: &iserviceconfig.BalancerConfig{Name: stubs.Names[tg.Policy], Config: &stubs.Config{Raw: name}}}
				eps = append(eps, hierarchy.SetInEndpoint(resolver.Endpoint{Addresses: []resolver.Address{{Addr: fmt.Sprintf("10.2.%d.1:443", tg.Name)}}}, []string{name}))
			}
			// model: removed and policy-changed targets lose their child.
			for id, wc := range live {
				tg, ok := want[id]
				if !ok || tg.Policy != wc.policy {
					if ok {
						policyChange = true
					}
					wc.live = false
					delete(live, id)
				}
			}
			nBefore := len(all)
			if err := wt.UpdateClientConnState(balancer.ClientConnState{ResolverState: resolver.State{Endpoints: eps}, BalancerConfig: cfg}); err != nil {
				return vk.Bad("%s: UpdateClientConnState: %v", desc, err)
			}
			for _, wc := range all[nBefore:] {
				tg, ok := want[wc.name]
				if !ok || live[wc.name] != nil {
					return vk.Bad("%s: a child was built for target t%d (wanted=%v, already live=%v)", desc, wc.name, ok, live[wc.name] != nil)
				}
				if wc.c.Name != stubs.Names[tg.Policy] {
					return vk.Bad("%s: target t%d built with policy %s, want %s", desc, wc.name, wc.c.Name, stubs.Names[tg.Policy])
				}
				wc.policy = tg.Policy
				live[wc.name] = wc
			}
			for id := range want {
				if live[id] == nil {
					return vk.Bad("%s: no child for target t%d", desc, id)
				}
			}
		case wtReport:
			ls := liveSorted()
			if len(ls) == 0 {
				continue
			}
			report(ls[o.A%len(ls)], connStates[o.B])
		case wtPick:
			st, ok := cc.LastState()
			if !ok {
				continue
			}
			agg := precedence(modelStates())
			before := map[*wtChild]int{}
			for _, wc := range all {
				if wc.picker != nil {
					before[wc] = wc.picker.Picks()
				}
			}
			nReady := 0
			for _, wc := range liveSorted() {
				if wc.effective == connectivity.Ready {
					nReady++
				}
			}
			for j := 0; j < o.A; j++ {
				_, err := st.Picker.Pick(balancer.PickInfo{})
				if agg == connectivity.Connecting && !errors.Is(err, balancer.ErrNoSubConnAvailable) {
					return vk.Bad("%s: pick in aggregate CONNECTING returned %v, want ErrNoSubConnAvailable", desc, err)
				}
				if len(live) == 0 && err == nil {
					return vk.Bad("%s: pick with no targets succeeded", desc)
				}
			}
			total := 0
			for _, wc := range all {
				if wc.picker == nil {
					continue
				}
				d := wc.picker.Picks() - before[wc]
				total += d
				if d != 0 && (!wc.live || wc.effective != agg) {
					return vk.Bad("%s: %d picks were delegated to target t%d (live=%v, state %v/%v) while the aggregate state is %v", desc, d, wc.name, wc.live, wc.reported, wc.effective, agg)
				}
			}
			if agg == connectivity.Ready {
				if total != o.A {
					return vk.Bad("%s: aggregate READY with %d READY children but only %d of %d picks reached a READY child", desc, nReady, total, o.A)
				}
				readyPicks++
			}
		case wtResolverError:
			wt.ResolverError(errors.New("resolver broke"))
		case wtExitIdle:
			wt.ExitIdle()
		}
		synctest.Wait()
		res.Steps++
		ms := modelStates()
		if configured && len(ms) == 0 {
			emptySeen = true
		}
		if d := distinct(ms); d > maxDistinct {
			maxDistinct = d
		}
		if !configured {
			continue
		}
		st, ok := cc.LastState()
		if !ok {
			return vk.Bad("%s: no state was ever reported to the parent", desc)
		}
		if want := precedence(ms); st.ConnectivityState != want {
			return vk.Bad("%s: aggregate state reported %v, want %v for effective child states %v", desc, st.ConnectivityState, want, ms)
		}
		for _, wc := range all {
			if !wc.live && wc.c.CloseCount() != 1 {
				return vk.Bad("%s: child of removed target t%d has Close count %d", desc, wc.name, wc.c.CloseCount())
			}
			if wc.live && wc.c.Closed() {
				return vk.Bad("%s: child of live target t%d was closed", desc, wc.name)
			}
		}
	}
	res.NonTrivial = maxDistinct >= 3
	res.Classes = append(res.Classes, fmt.Sprintf("max_distinct_states_%d", maxDistinct))
	if readyPicks > 0 {
		res.Classes = append(res.Classes, "ready_picks_checked")
	}
	if emptySeen {
		res.Classes = append(res.Classes, "empty_target_set")
	}
	if policyChange {
		res.Classes = append(res.Classes, "child_policy_changed")
	}
	if stickyHeld > 0 {
		res.Classes = append(res.Classes, "sticky_tf_held")
	}
	if stickyEscaped > 0 {
		res.Classes = append(res.Classes, "sticky_tf_left_by_second_connecting")
	}
	return res
}

func TestVerifC35WeightedTarget(t *testing.T) {
	vk.Check(t, vk.Unit[wtPlan]{
		ID: "C35", Name: "wtarget",
		Rule: "op lists (<=30/<=300) over weighted_target_experimental with stub children: configs with 0..6 targets out of 8 (weights 1..5, 3 child policy types, new children optionally report an initial state synchronously), child reports, batches of picks, ResolverError, ExitIdle. A child counts with its last reported state, except that TRANSIENT_FAILURE->CONNECTING keeps counting as TRANSIENT_FAILURE (documented aggregation rule) and an unreported child counts as CONNECTING. non-trivial = live children in >=3 distinct effective states at some quiescent point",
		Gen:  genWT, Run: runWT,
	})
}
