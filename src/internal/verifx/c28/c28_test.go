package c28_test

// C28: the public metadata API behaves as a case-insensitive ordered multimap.
//
// A plan is a list of operations over two growing pools (contexts and MDs).
// Every operation is mirrored on a reference model (plain Go maps with raw
// keys + an independent ASCII lowercase function); after every operation all
// pool members are re-read through the public API and compared with their
// models ("verify-all"). Every map/slice the API returns from Copy / FromX /
// ValueFromX is mutated per plan; since everything is re-read afterwards, any
// aliasing between a returned value and a context (or the copied MD) shows up
// as a model mismatch.

import (
	"context"
	"fmt"
	"sort"
	"testing"

	"google.golang.org/grpc/internal/verifkit/vk"
	"google.golang.org/grpc/metadata"
	"pgregory.net/rapid"
)

const (
	opPairs = iota
	opNew
	opUserMD
	opJoin
	opCopy
	opSet
	opAppend
	opDelete
	opGet
	opMutate
	opNewOut
	opAppendOut
	opFromOut
	opValOut
	opNewIn
	opFromIn
	opValIn
	numOps
)

var opNames = [...]string{"Pairs", "New", "UserMD", "Join", "Copy", "Set", "Append", "Delete", "Get", "Mutate",
	"NewOutgoingContext", "AppendToOutgoingContext", "FromOutgoingContext", "ValueFromOutgoingContext",
	"NewIncomingContext", "FromIncomingContext", "ValueFromIncomingContext"}

// mut is one direct write to a returned map / slice.
type mut struct {
	K   int    `json:"k"`   // 0 overwrite element, 1 append element, 2 delete key, 3 insert key, 4 truncate slice, 5 replace slice
	Key int    `json:"key"` // k-th key in sorted order (mod number of keys)
	Idx int    `json:"idx"` // element index (mod len)
	S   string `json:"s"`   // new value / new key
}

type op struct {
	K    int        `json:"k"`
	A    int        `json:"a"`              // primary pool index (relative, taken modulo the eligible members)
	B    []int      `json:"b,omitempty"`    // further MD indices (Join, NewXContext)
	Keys []string   `json:"keys,omitempty"` // keys (zipped with Vals for pair lists)
	Vals []string   `json:"vals,omitempty"`
	Ent  [][]string `json:"ent,omitempty"` // user-built MD: [key, v1, v2, ...]
	Mut  []mut      `json:"mut,omitempty"`
	Nil  bool       `json:"nil,omitempty"` // pass a nil MD
	// KI >= 0: use the KI-th (mod n) key the target currently has (model view)
	// re-cased per KC (0 as stored, 1 upper, 2 first letter upper) instead of Keys[0].
	KI int `json:"ki"`
	KC int `json:"kc,omitempty"`
	// Pref: pick the context among those that already carry the relevant kind of metadata, if any.
	Pref bool `json:"pref,omitempty"`
}

// Domain decision (coordinator): a hand-built MD may have mixed-case keys, but
// no two keys of one map are equal under ASCII case folding; colliding entries
// of a literal are dropped, direct writes never insert a colliding key, and an
// MD with colliding keys that the API itself produced (Join of {"K"} and {"k"})
// is never attached to a context.
type plan struct {
	Ops []op `json:"ops"`
}

// ---------------------------------------------------------------- model

func lower(s string) string {
	b := []byte(s)
	for i, c := range b {
		if c >= 'A' && c <= 'Z' {
			b[i] = c + 'a' - 'A'
		}
	}
	return string(b)
}

func upper(s string) string {
	b := []byte(s)
	for i, c := range b {
		if c >= 'a' && c <= 'z' {
			b[i] = c - ('a' - 'A')
		}
	}
	return string(b)
}

type mdModel map[string][]string

func (m mdModel) clone() mdModel {
	out := mdModel{}
	for k, v := range m {
		out[k] = append([]string{}, v...)
	}
	return out
}

func (m mdModel) sortedKeys() []string {
	ks := make([]string, 0, len(m))
	for k := range m {
		ks = append(ks, k)
	}
	sort.Strings(ks)
	return ks
}

func (m mdModel) clean() bool {
	for k := range m {
		if lower(k) != k {
			return false
		}
	}
	return true
}

func (m mdModel) collides() bool {
	seen := map[string]bool{}
	for k := range m {
		if seen[lower(k)] {
			return true
		}
		seen[lower(k)] = true
	}
	return false
}

type mdEntry struct {
	md     metadata.MD
	model  mdModel
	frozen bool // handed to NewXContext: "must not be modified"
	origin string
}

type ctxEntry struct {
	ctx      context.Context
	hasOut   bool
	outBase  mdModel     // raw keys, snapshot at NewOutgoingContext time
	outAdded [][2]string // appended pairs in call order (raw keys)
	hasIn    bool
	inBase   mdModel
}

// expectOut computes the reference FromOutgoingContext result; colliding lists
// the lowercase keys that stem from >1 raw base key (order among those is
// unspecified, and see the known finding).
func foldBase(base mdModel) (out mdModel, colliding map[string]bool) {
	out = mdModel{}
	colliding = map[string]bool{}
	for _, k := range base.sortedKeys() {
		lk := lower(k)
		if _, seen := out[lk]; seen {
			colliding[lk] = true
		}
		out[lk] = append(out[lk], base[k]...)
		if out[lk] == nil {
			out[lk] = []string{}
		}
	}
	return out, colliding
}

func (c *ctxEntry) expectOut() (mdModel, map[string]bool) {
	out, col := foldBase(c.outBase)
	for _, kv := range c.outAdded {
		lk := lower(kv[0])
		out[lk] = append(out[lk], kv[1])
	}
	return out, col
}

func eqVals(a, b []string) bool {
	if len(a) != len(b) {
		return false
	}
	for i := range a {
		if a[i] != b[i] {
			return false
		}
	}
	return true
}

// eqMultiset: equal as multisets (used for keys that collide under case
// folding in a user-built MD: the order among the colliding raw keys is the
// iteration order of a Go map, i.e. unspecified).
func eqMultiset(a, b []string) bool {
	x := append([]string{}, a...)
	y := append([]string{}, b...)
	sort.Strings(x)
	sort.Strings(y)
	return eqVals(x, y)
}

func eqKey(a, b []string, colliding bool) bool {
	if colliding {
		return eqMultiset(a, b)
	}
	return eqVals(a, b)
}

type mismatch struct {
	msg       string
	collision bool // concerns a key that collides under case folding in a user-built base MD
}

// compare real against want; absent key == empty value list (a multimap has no
// pair for such a key).
func compare(what string, real metadata.MD, want mdModel, colliding map[string]bool, wantLower bool) *mismatch {
	keys := map[string]bool{}
	for k := range real {
		keys[k] = true
		if wantLower && lower(k) != k {
			return &mismatch{msg: fmt.Sprintf("%s: key %q in the result is not lowercase", what, k)}
		}
	}
	for k := range want {
		keys[k] = true
	}
	sorted := make([]string, 0, len(keys))
	for k := range keys {
		sorted = append(sorted, k)
	}
	sort.Strings(sorted)
	var first *mismatch
	for _, k := range sorted {
		if !eqKey(real[k], want[k], colliding[k]) {
			mm := &mismatch{msg: fmt.Sprintf("%s: key %q has values %q, reference model has %q", what, k, real[k], want[k]), collision: colliding[k]}
			if !mm.collision {
				return mm
			}
			if first == nil {
				first = mm
			}
		}
	}
	return first
}

// ---------------------------------------------------------------- executor

type world struct {
	p       plan
	ctxs    []*ctxEntry
	mds     []*mdEntry
	classes map[string]bool
	// non-trivial rule bookkeeping
	mutatedReturned bool // a map/slice returned by Copy/FromX/ValueFromX was written to
	appendAfterMut  bool // AppendToOutgoingContext (>=1 pair) on a ctx with outgoing MD after that
	steps           int
}

func (w *world) class(c string) { w.classes[c] = true }

func (w *world) pickCtx(o op) *ctxEntry {
	if o.Pref {
		var el []*ctxEntry
		for _, c := range w.ctxs {
			switch o.K {
			case opAppendOut, opFromOut, opValOut:
				if c.hasOut {
					el = append(el, c)
				}
			case opFromIn, opValIn:
				if c.hasIn {
					el = append(el, c)
				}
			}
		}
		if len(el) > 0 {
			return el[mod(o.A, len(el))]
		}
	}
	return w.ctxs[mod(o.A, len(w.ctxs))]
}

// key resolves the key operand of o against the keys the target has.
func (o op) key(have mdModel) (string, bool) {
	if o.KI >= 0 && len(have) > 0 {
		ks := have.sortedKeys()
		k := ks[mod(o.KI, len(ks))]
		switch o.KC {
		case 1:
			return upper(k), true
		case 2:
			if len(k) > 0 {
				return upper(k[:1]) + k[1:], true
			}
		}
		return k, true
	}
	if len(o.Keys) == 0 {
		return "", false
	}
	return o.Keys[0], true
}

func mod(i, n int) int {
	if n == 0 {
		return 0
	}
	i %= n
	if i < 0 {
		i += n
	}
	return i
}

func (w *world) pickMD(i int, pred func(*mdEntry) bool) *mdEntry {
	var el []*mdEntry
	for _, e := range w.mds {
		if pred(e) {
			el = append(el, e)
		}
	}
	if len(el) == 0 {
		return nil
	}
	return el[mod(i, len(el))]
}

func anyMD(*mdEntry) bool           { return true }
func writableMD(e *mdEntry) bool    { return !e.frozen && e.md != nil }
func cleanWritable(e *mdEntry) bool { return !e.frozen && e.md != nil && e.model.clean() }
func cleanMD(e *mdEntry) bool       { return e.model.clean() }

func zip(keys, vals []string) [][2]string {
	n := len(keys)
	if len(vals) < n {
		n = len(vals)
	}
	out := make([][2]string, n)
	for i := 0; i < n; i++ {
		out[i] = [2]string{keys[i], vals[i]}
	}
	return out
}

// applyMuts writes directly to a returned MD (and mirrors the writes on its
// own model: the MD stays in the pool). Returns the number of effective writes.
func applyMuts(md metadata.MD, model mdModel, muts []mut) int {
	n := 0
	for _, m := range muts {
		keys := model.sortedKeys()
		var key string
		if len(keys) > 0 {
			key = keys[mod(m.Key, len(keys))]
		}
		switch m.K {
		case 0: // overwrite an element in place
			if key == "" && len(keys) == 0 || len(md[key]) == 0 {
				continue
			}
			i := mod(m.Idx, len(md[key]))
			md[key][i] = m.S
			model[key][i] = m.S
		case 1: // append through the returned slice
			if len(keys) == 0 {
				continue
			}
			md[key] = append(md[key], m.S)
			model[key] = append(model[key], m.S)
		case 2:
			if len(keys) == 0 {
				continue
			}
			delete(md, key)
			delete(model, key)
		case 3: // insert a new key (possibly mixed case: the MD becomes "user-built")
			if m.S == "" {
				continue
			}
			if _, exact := model[m.S]; !exact {
				dup := false
				for k := range model {
					if lower(k) == lower(m.S) {
						dup = true
					}
				}
				if dup {
					continue // would make two keys equal under case folding
				}
			}
			md[m.S] = []string{"inserted"}
			model[m.S] = []string{"inserted"}
		case 4: // truncate
			if len(keys) == 0 || len(md[key]) == 0 {
				continue
			}
			md[key] = md[key][:len(md[key])-1]
			model[key] = model[key][:len(model[key])-1]
		default: // overwrite all elements in place, then re-slice to full capacity and scribble
			if len(keys) == 0 || len(md[key]) == 0 {
				continue
			}
			for i := range md[key] {
				md[key][i] = m.S
				model[key][i] = m.S
			}
			full := md[key][:cap(md[key])]
			for i := len(md[key]); i < len(full); i++ {
				full[i] = "scribble"
			}
		}
		n++
	}
	return n
}

// mutateVals scribbles over a slice returned by ValueFromX.
func mutateVals(v []string, muts []mut) int {
	n := 0
	for _, m := range muts {
		switch {
		case m.K%2 == 0 && len(v) > 0:
			v[mod(m.Idx, len(v))] = m.S
			n++
		case m.K%2 == 1:
			v = append(v, m.S)
			full := v[:cap(v)]
			for i := range full {
				full[i] = m.S
			}
			n++
		}
	}
	return n
}

func (w *world) addMD(md metadata.MD, model mdModel, origin string) *mdEntry {
	e := &mdEntry{md: md, model: model, origin: origin}
	w.mds = append(w.mds, e)
	return e
}

// verifyAll re-reads every pool member through the public API.
func (w *world) verifyAll(after string) *mismatch {
	for i, e := range w.mds {
		if mm := compare(fmt.Sprintf("after %s: MD #%d (from %s) read directly", after, i, e.origin), e.md, e.model, nil, false); mm != nil {
			return mm
		}
	}
	for i, c := range w.ctxs {
		got, ok := metadata.FromOutgoingContext(c.ctx)
		if ok != c.hasOut {
			return &mismatch{msg: fmt.Sprintf("after %s: FromOutgoingContext(ctx #%d) ok=%v, model says %v", after, i, ok, c.hasOut)}
		}
		if ok {
			want, col := c.expectOut()
			if mm := compare(fmt.Sprintf("after %s: FromOutgoingContext(ctx #%d)", after, i), got, want, col, true); mm != nil {
				return mm
			}
		}
		gin, ok := metadata.FromIncomingContext(c.ctx)
		if ok != c.hasIn {
			return &mismatch{msg: fmt.Sprintf("after %s: FromIncomingContext(ctx #%d) ok=%v, model says %v", after, i, ok, c.hasIn)}
		}
		if ok {
			want, col := foldBase(c.inBase)
			if mm := compare(fmt.Sprintf("after %s: FromIncomingContext(ctx #%d)", after, i), gin, want, col, true); mm != nil {
				return mm
			}
		}
	}
	return nil
}

func caseVariants(k string) []string { return []string{k, lower(k), upper(k)} }

func (w *world) exec(i int, o op) *mismatch {
	name := fmt.Sprintf("op %d %s", i, opNames[o.K])
	switch o.K {
	case opPairs:
		kv := zip(o.Keys, o.Vals)
		flat := make([]string, 0, 2*len(kv))
		model := mdModel{}
		for _, p := range kv {
			flat = append(flat, p[0], p[1])
			model[lower(p[0])] = append(model[lower(p[0])], p[1])
		}
		md := metadata.Pairs(flat...)
		for j := range flat { // the caller may reuse its argument slice
			flat[j] = "reused"
		}
		w.addMD(md, model, "Pairs")
	case opNew:
		in := map[string]string{}
		model := mdModel{}
		for _, p := range zip(o.Keys, o.Vals) {
			if _, dup := model[lower(p[0])]; dup {
				continue // New over a map with case-colliding keys has no defined order: not generated
			}
			in[p[0]] = p[1]
			model[lower(p[0])] = []string{p[1]}
		}
		w.addMD(metadata.New(in), model, "New")
	case opUserMD:
		md := metadata.MD{}
		model := mdModel{}
		seen := map[string]bool{}
		for _, e := range o.Ent {
			if len(e) == 0 {
				continue
			}
			if _, dup := model[e[0]]; dup {
				continue
			}
			if seen[lower(e[0])] {
				continue
			}
			seen[lower(e[0])] = true
			md[e[0]] = append([]string{}, e[1:]...)
			model[e[0]] = append([]string{}, e[1:]...)
		}
		if !model.clean() {
			w.class("user_md_mixed_case_keys")
		}
		w.addMD(md, model, "literal")
	case opJoin:
		var args []metadata.MD
		model := mdModel{}
		for _, b := range o.B {
			e := w.pickMD(b, anyMD)
			if e == nil {
				continue
			}
			args = append(args, e.md)
			// Join ranges over each argument; keys within one argument are distinct.
			for k, v := range e.model {
				model[k] = append(model[k], v...)
			}
		}
		w.addMD(metadata.Join(args...), model, "Join")
	case opCopy:
		e := w.pickMD(o.A, anyMD)
		if e == nil {
			return nil
		}
		cp := e.md.Copy()
		model := e.model.clone()
		if mm := compare(name, cp, model, nil, false); mm != nil {
			return mm
		}
		if applyMuts(cp, model, o.Mut) > 0 {
			w.mutatedReturned = true
			w.class("mutated_Copy_result")
		}
		w.addMD(cp, model, "Copy")
	case opSet, opAppend:
		e := w.pickMD(o.A, cleanWritable)
		if e == nil || len(o.Vals) == 0 {
			return nil
		}
		key, ok := o.key(e.model)
		if !ok {
			return nil
		}
		vals := append([]string{}, o.Vals...)
		lk := lower(key)
		if o.K == opSet {
			e.md.Set(key, vals...)
			e.model[lk] = append([]string{}, o.Vals...)
		} else {
			e.md.Append(key, vals...)
			e.model[lk] = append(e.model[lk], o.Vals...)
		}
		if lk != key {
			w.class("md_method_mixed_case_key")
		}
	case opDelete:
		e := w.pickMD(o.A, cleanWritable)
		if e == nil {
			return nil
		}
		key, ok := o.key(e.model)
		if !ok {
			return nil
		}
		if len(e.model[lower(key)]) > 0 {
			w.class("delete_hit")
		}
		e.md.Delete(key)
		delete(e.model, lower(key))
	case opGet:
		e := w.pickMD(o.A, cleanMD)
		if e == nil {
			return nil
		}
		key, ok := o.key(e.model)
		if !ok {
			return nil
		}
		if len(e.model[lower(key)]) > 0 {
			w.class("get_hit")
		}
		for _, k := range caseVariants(key) {
			if got, want := e.md.Get(k), e.model[lower(k)]; !eqVals(got, want) {
				return &mismatch{msg: fmt.Sprintf("%s: Get(%q) = %q, reference model has %q", name, k, got, want)}
			}
		}
	case opMutate:
		e := w.pickMD(o.A, writableMD)
		if e == nil {
			return nil
		}
		applyMuts(e.md, e.model, o.Mut)
	case opNewOut, opNewIn:
		c := w.pickCtx(o)
		var md metadata.MD
		base := mdModel{}
		if !o.Nil && len(o.B) > 0 {
			// MDs whose keys collide under case folding are only used as
			// context metadata when the plan allows it (known finding).
			if e := w.pickMD(o.B[0], func(e *mdEntry) bool { return !e.model.collides() }); e != nil {
				e.frozen = true
				md = e.md
				base = e.model // frozen: shared with the (now immutable) MD entry
			}
		}
		n := *c
		if o.K == opNewOut {
			n.ctx = metadata.NewOutgoingContext(c.ctx, md)
			n.hasOut, n.outBase, n.outAdded = true, base, nil
		} else {
			n.ctx = metadata.NewIncomingContext(c.ctx, md)
			n.hasIn, n.inBase = true, base
		}
		w.ctxs = append(w.ctxs, &n)
	case opAppendOut:
		c := w.pickCtx(o)
		kv := zip(o.Keys, o.Vals)
		flat := make([]string, 0, 2*len(kv))
		for _, p := range kv {
			flat = append(flat, p[0], p[1])
		}
		n := *c
		n.ctx = metadata.AppendToOutgoingContext(c.ctx, flat...)
		for j := range flat { // the caller may reuse its argument slice
			flat[j] = "Reused"
		}
		n.hasOut = true
		n.outAdded = append(append([][2]string{}, c.outAdded...), kv...)
		w.ctxs = append(w.ctxs, &n)
		if len(kv) > 0 {
			if c.hasOut && w.mutatedReturned {
				w.appendAfterMut = true
			}
			if len(c.outAdded) > 0 {
				w.class("append_on_appended_ctx")
			}
			if len(c.outBase) > 0 {
				w.class("append_on_base_md")
			}
			for _, p := range kv {
				if lower(p[0]) != p[0] {
					w.class("append_mixed_case_key")
				}
			}
		}
	case opFromOut, opFromIn:
		c := w.pickCtx(o)
		var got metadata.MD
		var ok, has bool
		var want mdModel
		var col map[string]bool
		if o.K == opFromOut {
			got, ok = metadata.FromOutgoingContext(c.ctx)
			has = c.hasOut
			want, col = c.expectOut()
		} else {
			got, ok = metadata.FromIncomingContext(c.ctx)
			has = c.hasIn
			want, col = foldBase(c.inBase)
		}
		if ok != has {
			return &mismatch{msg: fmt.Sprintf("%s: ok=%v, model says %v", name, ok, has)}
		}
		if !ok {
			return nil
		}
		if mm := compare(name, got, want, col, true); mm != nil {
			return mm
		}
		// the MD's own model is what it really contains (it equals want unless a collision was tolerated above)
		own := mdModel{}
		for k, v := range got {
			own[k] = append([]string{}, v...)
		}
		if applyMuts(got, own, o.Mut) > 0 {
			w.mutatedReturned = true
			w.class("mutated_" + opNames[o.K] + "_result")
		}
		w.addMD(got, own, opNames[o.K])
	case opValOut, opValIn:
		c := w.pickCtx(o)
		var have mdModel
		if o.K == opValOut {
			have, _ = c.expectOut()
		} else {
			have, _ = foldBase(c.inBase)
		}
		key, ok := o.key(have)
		if !ok {
			return nil
		}
		for vi, k := range caseVariants(key) {
			var got []string
			var want mdModel
			var col map[string]bool
			var has bool
			var full metadata.MD
			if o.K == opValOut {
				got = metadata.ValueFromOutgoingContext(c.ctx, k)
				want, col = c.expectOut()
				has = c.hasOut
				full, _ = metadata.FromOutgoingContext(c.ctx)
			} else {
				got = metadata.ValueFromIncomingContext(c.ctx, k)
				want, col = foldBase(c.inBase)
				has = c.hasIn
				full, _ = metadata.FromIncomingContext(c.ctx)
			}
			if !has {
				want = nil
			}
			lk := lower(k)
			if !eqKey(got, want[lk], col[lk]) {
				return &mismatch{msg: fmt.Sprintf("%s(%q) = %q, reference model has %q", name, k, got, want[lk]), collision: col[lk]}
			}
			if !eqKey(got, full[lk], col[lk]) { // "agree with the corresponding full lookups"
				return &mismatch{msg: fmt.Sprintf("%s(%q) = %q but the full lookup has %q", name, k, got, full[lk]), collision: col[lk]}
			}
			if len(got) > 0 {
				w.class("value_lookup_hit")
			}
			if vi == 0 && mutateVals(got, o.Mut) > 0 {
				w.mutatedReturned = true
				w.class("mutated_" + opNames[o.K] + "_result")
			}
		}
	}
	return nil
}

func run(_ *testing.T, p plan) vk.Result {
	w := &world{p: p, classes: map[string]bool{}}
	w.ctxs = []*ctxEntry{{ctx: context.Background()}}
	for i, o := range p.Ops {
		if o.K < 0 || o.K >= numOps {
			return vk.Result{Discard: true}
		}
		mm := w.exec(i, o)
		if mm == nil {
			mm = w.verifyAll(fmt.Sprintf("op %d %s", i, opNames[o.K]))
		}
		if mm != nil {
			return vk.Bad("%s", mm.msg)
		}
		w.steps++
	}
	res := vk.Result{Steps: w.steps, NonTrivial: w.mutatedReturned && w.appendAfterMut}
	for c := range w.classes {
		res.Classes = append(res.Classes, c)
	}
	sort.Strings(res.Classes)
	if len(w.ctxs) >= 4 {
		res.Classes = append(res.Classes, "ctxs>=4")
	}
	return res
}

// ---------------------------------------------------------------- generator

var baseKeys = []string{"k", "key", "a-b", "x_1", "auth.tok", "trace-bin", "z9", "user-id"}

func genKey(rt *rapid.T) string {
	var k string
	if rapid.IntRange(0, 9).Draw(rt, "rndkey") == 0 {
		k = rapid.StringOfN(rapid.SampledFrom([]rune("abkKZz09-_.")), 1, 6, -1).Draw(rt, "key")
	} else {
		k = rapid.SampledFrom(baseKeys).Draw(rt, "basekey")
	}
	switch rapid.IntRange(0, 4).Draw(rt, "case") {
	case 0, 1:
		return k
	case 2:
		return upper(k)
	case 3:
		return upper(k[:1]) + k[1:]
	default:
		b := []byte(k)
		for i := range b {
			if rapid.Bool().Draw(rt, "up") {
				b[i] = upper(string(b[i]))[0]
			}
		}
		return string(b)
	}
}

func genVal(rt *rapid.T) string {
	if rapid.IntRange(0, 4).Draw(rt, "rndval") == 0 {
		return rapid.StringN(0, 4, -1).Draw(rt, "val")
	}
	return rapid.SampledFrom([]string{"", "a", "b", "c", "v1", "v2", "MiXeD", "x,y", "\x00\x7f"}).Draw(rt, "val")
}

func genKVs(rt *rapid.T, max int) (keys, vals []string) {
	n := rapid.IntRange(0, max+2).Draw(rt, "npairs")
	if n > max {
		n = 1
	}
	for i := 0; i < n; i++ {
		keys = append(keys, genKey(rt))
		vals = append(vals, genVal(rt))
	}
	return
}

func genMuts(rt *rapid.T) []mut {
	n := rapid.IntRange(0, 6).Draw(rt, "nmut")
	if n > 3 {
		n -= 3 // 0:1/7, 1..3: 2/7 each
	}
	var ms []mut
	for i := 0; i < n; i++ {
		m := mut{K: rapid.IntRange(0, 5).Draw(rt, "mk"), Key: rapid.IntRange(0, 5).Draw(rt, "mkey"), Idx: rapid.IntRange(0, 3).Draw(rt, "midx")}
		if m.K == 3 {
			m.S = genKey(rt)
		} else {
			m.S = rapid.SampledFrom([]string{"MUT", "mut2", ""}).Draw(rt, "ms")
		}
		ms = append(ms, m)
	}
	return ms
}

func genEnt(rt *rapid.T) (ent [][]string) {
	n := rapid.IntRange(0, 4).Draw(rt, "nent")
	for i := 0; i < n; i++ {
		e := []string{genKey(rt)}
		nv := rapid.IntRange(0, 3).Draw(rt, "nv")
		for j := 0; j < nv; j++ {
			e = append(e, genVal(rt))
		}
		ent = append(ent, e)
	}
	return ent
}

// weights of the operation kinds
var opWeights = [numOps]int{opPairs: 3, opNew: 1, opUserMD: 2, opJoin: 1, opCopy: 2, opSet: 2, opAppend: 2, opDelete: 1, opGet: 2, opMutate: 1,
	opNewOut: 4, opAppendOut: 12, opFromOut: 8, opValOut: 4, opNewIn: 2, opFromIn: 3, opValIn: 2}

var opTable = func() []int {
	var t []int
	for k, w := range opWeights {
		for i := 0; i < w; i++ {
			t = append(t, k)
		}
	}
	return t
}()

func genOp(rt *rapid.T) op {
	o := op{K: rapid.SampledFrom(opTable).Draw(rt, "op"), A: rapid.IntRange(0, 7).Draw(rt, "a"), KI: -1}
	if rapid.IntRange(0, 1).Draw(rt, "latest") == 0 {
		o.A = -1 // the most recently created pool member
	}
	o.Pref = rapid.IntRange(0, 4).Draw(rt, "pref") > 0
	switch o.K {
	case opSet, opAppend, opDelete, opGet, opValOut, opValIn:
		if rapid.IntRange(0, 3).Draw(rt, "havekey") > 0 {
			o.KI = rapid.IntRange(0, 5).Draw(rt, "ki")
			o.KC = rapid.IntRange(0, 2).Draw(rt, "kc")
		}
	}
	switch o.K {
	case opPairs, opNew:
		o.Keys, o.Vals = genKVs(rt, 5)
	case opAppendOut:
		o.Keys, o.Vals = genKVs(rt, 3)
	case opUserMD:
		o.Ent = genEnt(rt)
	case opJoin:
		o.B = rapid.SliceOfN(rapid.IntRange(-1, 7), 0, 4).Draw(rt, "join")
	case opCopy, opMutate, opFromOut, opFromIn:
		o.Mut = genMuts(rt)
	case opSet, opAppend:
		o.Keys = []string{genKey(rt)}
		nv := rapid.IntRange(1, 3).Draw(rt, "nv")
		for j := 0; j < nv; j++ {
			o.Vals = append(o.Vals, genVal(rt))
		}
	case opDelete, opGet:
		o.Keys = []string{genKey(rt)}
	case opValOut, opValIn:
		o.Keys = []string{genKey(rt)}
		o.Mut = genMuts(rt)
	case opNewOut, opNewIn:
		o.B = []int{rapid.IntRange(-1, 7).Draw(rt, "md")}
		o.Nil = rapid.IntRange(0, 14).Draw(rt, "nil") == 0
	}
	return o
}

func genPlan() func(rt *rapid.T) plan {
	return func(rt *rapid.T) plan {
		max := vk.Pick(24, 60)
		n := rapid.IntRange(8, max).Draw(rt, "nops")
		p := plan{}
		for i := 0; i < n; i++ {
			o := genOp(rt)
			// most plans start by putting metadata into a context
			if i < 2 && rapid.IntRange(0, 4).Draw(rt, "prologue") > 0 {
				if i == 0 {
					o = op{K: rapid.SampledFrom([]int{opPairs, opPairs, opUserMD}).Draw(rt, "op0"), KI: -1}
					if o.K == opPairs {
						o.Keys, o.Vals = genKVs(rt, 5)
					} else {
						o.Ent = genEnt(rt)
					}
				} else {
					o = op{K: rapid.SampledFrom([]int{opNewOut, opNewOut, opNewIn}).Draw(rt, "op1"), A: -1, B: []int{-1}, KI: -1}
				}
			}
			p.Ops = append(p.Ops, o)
		}
		return p
	}
}

func TestVerifC28API(t *testing.T) {
	vk.Check(t, vk.Unit[plan]{
		ID: "C28", Name: "api",
		Rule: "8..24 (thorough 60) ops over pools of contexts (a tree: any earlier ctx can be extended) and MDs: Pairs/New/literal MD with mixed-case keys/Join/Copy/Set/Append/Delete/Get/direct writes, NewOutgoingContext/AppendToOutgoingContext/FromOutgoingContext/ValueFromOutgoingContext and the Incoming trio; keys = 8 base names in random case + random short keys over [a-zA-Z0-9-_.]; every returned map/slice is written to per plan; all pool members re-read after every op. non-trivial = a value returned by Copy/FromX/ValueFromX was written to AND afterwards AppendToOutgoingContext added >= 1 pair to a ctx that already had outgoing metadata",
		Gen:  genPlan(), Run: run,
	})
}
