package c18_test

// C18, unit "concurrent": the application drives ONE streaming RPC from two
// goroutines (a sender: SendMsg ... CloseSend; a receiver: Header / RecvMsg
// loop), as the ClientStream documentation allows, while the server fails
// attempts so that retries happen *while a send operation is in flight*.
//
// The interleaving is part of the plan and is executed deterministically by a
// cooperative scheduler inside a synctest bubble. Only one entity moves at a
// time; the releasable entities at a quiescent point are
//
//   - a server attempt that has read the messages its script asked for and
//     holds before acting (status / headers / message),
//   - the sender, which waits at a gate before every operation and -- where
//     the plan says so -- is parked inside a client stats.Handler on the
//     *stats.OutPayload event of the message it is currently sending. That
//     event is emitted by csAttempt.sendMsg after the transport write and
//     before clientStream.withRetry re-locks the call mutex: a slow stats
//     handler keeps the send operation inside exactly that window,
//   - the receiver, which waits at a gate before it starts.
//
// The plan's schedule picks one of them (index modulo the number available) at
// every quiescent point; afterwards virtual time is advanced beyond any retry
// backoff / pushback, so that no goroutine sleeps in a backoff (holding the
// call mutex) when the next entity is released.
//
// Oracle (independent of grpc-go): the server's per-attempt log of messages and
// half-close compared with the application's own send history, plus the gRFC A6
// retry decision for every attempt.

import (
	"bytes"
	"context"
	"fmt"
	"io"
	"net"
	"strconv"
	"strings"
	"sync"
	"testing"
	"testing/synctest"
	"time"

	"google.golang.org/grpc"
	"google.golang.org/grpc/codes"
	"google.golang.org/grpc/credentials/insecure"
	"google.golang.org/grpc/internal/verifkit/vk"
	rig "google.golang.org/grpc/internal/verifx/retryrig"
	"google.golang.org/grpc/metadata"
	"google.golang.org/grpc/stats"
	"google.golang.org/grpc/status"
	"google.golang.org/grpc/test/bufconn"
	"pgregory.net/rapid"
)

// concKHdrDrain: send response headers (commit), then read the rest of the
// request (to half-close, or all messages when the application never closes),
// hold again, then end with the status.
const concKHdrDrain = "hdr_drain_status"

type concPlan struct {
	Shape     string     `json:"shape"` // rig.Bidi | rig.Client
	Policy    rig.Policy `json:"policy"`
	Cap       int        `json:"cap"`  // WithMaxCallAttempts; 0 = default (5)
	Msgs      []int      `json:"msgs"` // sizes (1..2048)
	CloseSend bool       `json:"close_send"`
	// ParkMask[k]: bit o set = park the o-th OutPayload event emitted for
	// message k while its SendMsg is in progress (o = 0: first transmission,
	// o >= 1: the operation re-executed on a newer attempt).
	ParkMask   []int               `json:"park_mask"`
	RecvHeader bool                `json:"recv_header"` // receiver calls Header() first
	Script     []rig.AttemptScript `json:"script"`      // DelayNs unused: the server holds instead
	Sched      []int               `json:"sched"`
}

func concMsg(j, size int) []byte {
	b := rig.Msg(0, j, max(size, 1))
	b[0] = byte(j + 1)
	return b
}

func concGen(rt *rapid.T) concPlan {
	var p concPlan
	p.Shape = rapid.SampledFrom([]string{rig.Bidi, rig.Bidi, rig.Bidi, rig.Client}).Draw(rt, "shape")
	p.Policy = rig.Policy{
		MaxAttempts: rapid.IntRange(2, 5).Draw(rt, "max_attempts"),
		InitialNs:   int64(time.Millisecond) * rapid.Int64Range(1, 20).Draw(rt, "initial_ms"),
		MaxNs:       int64(time.Millisecond) * rapid.Int64Range(1, 50).Draw(rt, "max_ms"),
		Mult:        rapid.SampledFrom([]float64{1, 2, 1.5}).Draw(rt, "mult"),
	}
	nc := rapid.IntRange(1, 2).Draw(rt, "ncodes")
	first := rapid.IntRange(0, len(retryable)-1).Draw(rt, "code0")
	for c := 0; c < nc; c++ {
		p.Policy.Codes = append(p.Policy.Codes, retryable[(first+c)%len(retryable)])
	}
	p.Cap = rapid.SampledFrom([]int{0, 0, 0, 0, 3, 2, 7}).Draw(rt, "cap")
	n := rapid.IntRange(1, vk.Pick(5, 6)).Draw(rt, "nmsgs")
	for j := 0; j < n; j++ {
		sz := rapid.IntRange(1, 48).Draw(rt, "msg")
		if rapid.IntRange(0, 7).Draw(rt, "msg_big") == 7 {
			sz = rapid.IntRange(49, 2048).Draw(rt, "msg_size")
		}
		p.Msgs = append(p.Msgs, sz)
		p.ParkMask = append(p.ParkMask, rapid.SampledFrom([]int{1, 0, 1, 3, 1, 0, 2, 7}).Draw(rt, "park"))
	}
	p.CloseSend = rapid.IntRange(0, 3).Draw(rt, "close") > 0
	p.RecvHeader = rapid.IntRange(0, 3).Draw(rt, "recv_header") == 3
	nScript := rapid.IntRange(1, min(p.Policy.MaxAttempts+1, 6)).Draw(rt, "nscript")
	for a := 0; a < nScript; a++ {
		var s rig.AttemptScript
		kinds := []string{rig.KStatus, rig.KStatus, rig.KStatus, rig.KStatus, rig.KMsgStatus, rig.KHdrStatus, concKHdrDrain}
		if a < nScript-1 {
			kinds = append([]string{rig.KStatus, rig.KStatus, rig.KStatus, rig.KStatus, rig.KStatus, rig.KStatus, rig.KStatus, rig.KStatus}, kinds...)
		}
		s.Kind = rapid.SampledFrom(kinds).Draw(rt, "kind")
		switch c := rapid.IntRange(0, 15).Draw(rt, "code_kind"); {
		case c == 15:
			s.Code = 0
		case c == 14:
			s.Code = otherCodes[rapid.IntRange(0, len(otherCodes)-1).Draw(rt, "code_other")]
		default:
			s.Code = p.Policy.Codes[rapid.IntRange(0, len(p.Policy.Codes)-1).Draw(rt, "code_idx")]
		}
		s.ReadN = rapid.IntRange(0, n).Draw(rt, "read_n")
		if p.CloseSend && rapid.IntRange(0, 3).Draw(rt, "drain") == 0 {
			s.ReadN = -1
		}
		s.Pushback = genPushback(rt)
		p.Script = append(p.Script, s)
	}
	ns := rapid.IntRange(0, 40).Draw(rt, "nsched")
	for i := 0; i < ns; i++ {
		p.Sched = append(p.Sched, rapid.SampledFrom([]int{0, 0, 0, 0, 1, 2, 3, 4, 5, 1}).Draw(rt, "pick"))
	}
	return p
}

// ---- scripted server ---------------------------------------------------------

const (
	concReading = "reading"
	concHeld    = "held"
	concActing  = "acting"
	concEnded   = "ended"
)

type concAttempt struct {
	Prev      []string
	Msgs      [][]byte
	HalfClose bool
	RecvErr   string
	Script    rig.AttemptScript
	Default   bool
	State     string
	Acted     bool // the scripted final action was carried out
	SentHdr   bool
	hold      chan struct{}
}

type concServer struct {
	mu   sync.Mutex
	p    concPlan
	atts []*concAttempt
}

func (s *concServer) handle(_ any, ss grpc.ServerStream) error {
	md, _ := metadata.FromIncomingContext(ss.Context())
	s.mu.Lock()
	a := len(s.atts)
	rec := &concAttempt{Prev: append([]string(nil), md["grpc-previous-rpc-attempts"]...), State: concReading, hold: make(chan struct{})}
	if a < len(s.p.Script) {
		rec.Script = s.p.Script[a]
	} else {
		rec.Default = true
		rec.Script = rig.AttemptScript{ReadN: len(s.p.Msgs), Kind: rig.KMsgStatus}
		if s.p.CloseSend {
			rec.Script.ReadN = -1
		}
	}
	sc := rec.Script
	s.atts = append(s.atts, rec)
	s.mu.Unlock()
	set := func(f func()) {
		s.mu.Lock()
		f()
		s.mu.Unlock()
	}
	end := func(err error) error {
		set(func() { rec.State = concEnded })
		return err
	}
	nRead := 0
	readTo := func(n int) error {
		set(func() { rec.State = concReading })
		for !rec.HalfClose && (n < 0 || nRead < n) {
			var b []byte
			err := ss.RecvMsg(&b)
			if err == io.EOF {
				set(func() { rec.HalfClose = true })
				break
			}
			if err != nil {
				set(func() { rec.RecvErr = err.Error() })
				return err
			}
			nRead++
			set(func() { rec.Msgs = append(rec.Msgs, b) })
		}
		return nil
	}
	holdNow := func() error {
		set(func() { rec.State = concHeld })
		select {
		case <-rec.hold:
			set(func() { rec.State = concActing })
			return nil
		case <-ss.Context().Done():
			return status.FromContextError(ss.Context().Err()).Err()
		}
	}
	if err := readTo(sc.ReadN); err != nil {
		return end(err)
	}
	if err := holdNow(); err != nil {
		return end(err)
	}
	if len(sc.Pushback) > 0 {
		ss.SetTrailer(metadata.MD{"grpc-retry-pushback-ms": append([]string(nil), sc.Pushback...)})
	}
	var st error
	if sc.Code != 0 {
		st = status.Error(codes.Code(sc.Code), fmt.Sprintf("scripted attempt %d", a))
	}
	switch sc.Kind {
	case rig.KStatus:
	case rig.KHdrStatus, concKHdrDrain:
		if err := ss.SendHeader(metadata.MD{"vf-h": []string{strconv.Itoa(a)}}); err != nil {
			return end(err)
		}
		set(func() { rec.SentHdr = true })
		if sc.Kind == concKHdrDrain {
			rest := len(s.p.Msgs)
			if s.p.CloseSend {
				rest = -1
			}
			if err := readTo(rest); err != nil {
				return end(err)
			}
			if err := holdNow(); err != nil {
				return end(err)
			}
		}
	case rig.KMsgStatus:
		r := rig.Resp(0, a)
		if err := ss.SendMsg(&r); err != nil {
			return end(err)
		}
	}
	set(func() { rec.Acted = true })
	return end(st)
}

// ---- application + scheduler -------------------------------------------------

const (
	concGated   = "gated"
	concParked  = "parked"
	concRunning = "running"
	concDone    = "done"
)

// concApp is the state shared between the application goroutines, the stats
// handler and the driver (always under mu; the driver only reads it at
// quiescence).
type concApp struct {
	mu   sync.Mutex
	p    concPlan
	msgs [][]byte

	abort chan struct{} // closed on teardown: every gate/park gives up

	// sender
	sState      string
	sGate       chan struct{}
	sPark       chan struct{}
	cur         int // index of the message whose SendMsg is in progress, -1 if none
	started     int // SendMsg calls started
	accepted    int // SendMsg calls that returned nil
	sendErr     string
	closeCalled bool
	closeRet    bool
	emitted     []int // OutPayload events seen for message k while its SendMsg was in progress
	parkMsg     int
	parkOcc     int
	parkBegun   int // attempts begun when the sender parked

	// receiver
	rState   string
	rGate    chan struct{}
	hdrDone  bool
	hdr      metadata.MD
	hdrErr   string
	resp     [][]byte
	recvCode codes.Code
	recvMsg  string

	// stats handler
	begun int // attempts begun at the client (TagRPC calls)
}

func (ap *concApp) TagConn(ctx context.Context, _ *stats.ConnTagInfo) context.Context { return ctx }
func (ap *concApp) HandleConn(context.Context, stats.ConnStats)                       {}
func (ap *concApp) TagRPC(ctx context.Context, _ *stats.RPCTagInfo) context.Context {
	ap.mu.Lock()
	ap.begun++
	ap.mu.Unlock()
	return ctx
}

// HandleRPC parks the OutPayload event of the message the sender is currently
// sending when the plan asks for it. Such an event is always emitted on the
// sender's goroutine outside the call mutex: the operation of the SendMsg in
// progress is not in the replay buffer yet (it is appended just before SendMsg
// returns), so it is never executed by a replay (which runs under the mutex).
func (ap *concApp) HandleRPC(_ context.Context, st stats.RPCStats) {
	op, ok := st.(*stats.OutPayload)
	if !ok || !st.IsClient() {
		return
	}
	ptr, ok := op.Payload.(*[]byte)
	if !ok {
		return
	}
	ap.mu.Lock()
	k := ap.cur
	if k < 0 || ptr != &ap.msgs[k] {
		ap.mu.Unlock()
		return
	}
	occ := ap.emitted[k]
	ap.emitted[k]++
	if occ > 2 || ap.p.ParkMask[k]>>occ&1 == 0 {
		ap.mu.Unlock()
		return
	}
	ap.sState, ap.parkMsg, ap.parkOcc, ap.parkBegun = concParked, k, occ, ap.begun
	ap.mu.Unlock()
	select {
	case <-ap.sPark:
	case <-ap.abort:
	}
	ap.mu.Lock()
	ap.sState = concRunning
	ap.mu.Unlock()
}

func (ap *concApp) set(f func()) {
	ap.mu.Lock()
	f()
	ap.mu.Unlock()
}

func (ap *concApp) senderGate() bool {
	ap.set(func() { ap.sState = concGated })
	select {
	case <-ap.sGate:
		ap.set(func() { ap.sState = concRunning })
		return true
	case <-ap.abort:
		return false
	}
}

func (ap *concApp) sender(cs grpc.ClientStream) {
	defer ap.set(func() { ap.sState = concDone; ap.cur = -1 })
	for k := range ap.msgs {
		if !ap.senderGate() {
			return
		}
		ap.set(func() { ap.cur = k; ap.started = k + 1 })
		err := cs.SendMsg(&ap.msgs[k])
		ap.set(func() { ap.cur = -1 })
		if err != nil {
			// not an accepted send; the application stops sending
			ap.set(func() { ap.sendErr = fmt.Sprintf("SendMsg(%d): %v", k, err) })
			return
		}
		ap.set(func() { ap.accepted = k + 1 })
	}
	if ap.p.CloseSend {
		if !ap.senderGate() {
			return
		}
		ap.set(func() { ap.closeCalled = true })
		_ = cs.CloseSend()
		ap.set(func() { ap.closeRet = true })
	}
}

func (ap *concApp) receiver(cs grpc.ClientStream) {
	defer ap.set(func() { ap.rState = concDone })
	ap.set(func() { ap.rState = concGated })
	select {
	case <-ap.rGate:
	case <-ap.abort:
		return
	}
	ap.set(func() { ap.rState = concRunning })
	finish := func(err error) {
		if err == io.EOF {
			err = nil
		}
		st, _ := status.FromError(err)
		ap.set(func() { ap.recvCode, ap.recvMsg = st.Code(), st.Message() })
	}
	if ap.p.RecvHeader {
		md, err := cs.Header()
		ap.set(func() {
			ap.hdrDone, ap.hdr = true, md
			if err != nil {
				ap.hdrErr = err.Error()
			}
		})
	}
	for k := 0; k < 4; k++ {
		var resp []byte
		err := cs.RecvMsg(&resp)
		if err != nil {
			finish(err)
			return
		}
		ap.set(func() { ap.resp = append(ap.resp, resp) })
		if ap.p.Shape == rig.Client {
			finish(nil) // the wrapper already consumed the trailers
			return
		}
	}
	ap.set(func() { ap.recvCode, ap.recvMsg = codes.Unknown, "harness: too many responses" })
}

// concOutcome is everything the oracle looks at.
type concOutcome struct {
	harness   string // harness failure (reported as a violation: the unit must not be flaky)
	violation string // invariant broken at a quiescent point
	trace     []string
	steps     int
	atts      []concAttempt
	app       *concApp
	stalled   bool // nothing left to release, RPC not finished: cancelled by the driver
	inWindow  int  // releases of a parked send during which a new attempt had been started
	parks     int
	rerunPark int
}

const concQuantum = 2 * time.Second // > any backoff (<= 60 ms) or pushback (<= 200 ms) in a plan

// concInvariants checks, at a quiescent point, the replay-exactness clauses
// that hold at every moment.
func concInvariants(ap *concApp, atts []*concAttempt) string {
	for a, at := range atts {
		if len(at.Msgs) > ap.started {
			return fmt.Sprintf("attempt %d delivered %d messages to the server, the application has started only %d sends", a, len(at.Msgs), ap.started)
		}
		for j, m := range at.Msgs {
			if !bytes.Equal(m, ap.msgs[j]) {
				got := -1
				for x := range ap.msgs {
					if bytes.Equal(m, ap.msgs[x]) {
						got = x
					}
				}
				return fmt.Sprintf("attempt %d: the server received as message #%d something else than the application's message #%d (it equals application message #%d; %d bytes): the attempt does not carry the application's send sequence", a, j, j, got, len(m))
			}
		}
		if at.HalfClose {
			if !ap.closeCalled {
				return fmt.Sprintf("attempt %d saw a half-close, the application never called CloseSend", a)
			}
			if len(at.Msgs) != len(ap.msgs) {
				return fmt.Sprintf("attempt %d saw the half-close after %d messages, the application sent %d before CloseSend", a, len(at.Msgs), len(ap.msgs))
			}
		}
	}
	if len(atts) == 0 {
		return ""
	}
	// The current attempt is waiting for input the application already
	// produced: everything is quiescent, so it will never arrive.
	l := len(atts) - 1
	at := atts[l]
	if at.State == concReading && at.RecvErr == "" {
		if len(at.Msgs) < ap.accepted {
			return fmt.Sprintf("attempt %d (the current one) has received %d messages and waits for more although %d SendMsg calls have returned nil: message #%d never reached it", l, len(at.Msgs), ap.accepted, len(at.Msgs))
		}
		if ap.closeRet && len(at.Msgs) == len(ap.msgs) && !at.HalfClose {
			return fmt.Sprintf("attempt %d (the current one) has received all %d messages and waits for the half-close although CloseSend has returned", l, len(at.Msgs))
		}
	}
	return ""
}

func concExec(p concPlan) *concOutcome {
	out := &concOutcome{}
	ap := &concApp{p: p, abort: make(chan struct{}), sGate: make(chan struct{}), sPark: make(chan struct{}), rGate: make(chan struct{}),
		cur: -1, emitted: make([]int, len(p.Msgs)), sState: concRunning, rState: concRunning}
	out.app = ap
	for j, sz := range p.Msgs {
		ap.msgs = append(ap.msgs, concMsg(j, sz))
	}
	sc := rig.ServiceConfig(rig.Plan{RPCs: []rig.RPC{{Policy: &p.Policy}}})
	lis := bufconn.Listen(1 << 20)
	srvState := &concServer{p: p}
	srv := grpc.NewServer(grpc.UnknownServiceHandler(srvState.handle), grpc.ForceServerCodec(rig.RawCodec()), grpc.StaticStreamWindowSize(65535), grpc.StaticConnWindowSize(65535))
	srvDone := make(chan struct{})
	go func() { defer close(srvDone); _ = srv.Serve(lis) }()
	opts := []grpc.DialOption{
		grpc.WithTransportCredentials(insecure.NewCredentials()),
		grpc.WithContextDialer(func(ctx context.Context, _ string) (net.Conn, error) { return lis.DialContext(ctx) }),
		grpc.WithDefaultServiceConfig(sc),
		grpc.WithDisableServiceConfig(),
		grpc.WithIdleTimeout(0),
		grpc.WithDefaultCallOptions(grpc.ForceCodec(rig.RawCodec())),
		grpc.WithStatsHandler(ap),
	}
	if p.Cap != 0 {
		opts = append(opts, grpc.WithMaxCallAttempts(p.Cap))
	}
	teardown := func(cc *grpc.ClientConn) {
		if cc != nil {
			cc.Close()
		}
		srv.Stop()
		<-srvDone
		lis.Close()
		synctest.Wait()
	}
	cc, err := grpc.NewClient("passthrough:///vf", opts...)
	if err != nil {
		out.harness = "NewClient: " + err.Error()
		teardown(nil)
		return out
	}
	ctx, cancel := context.WithTimeout(context.Background(), time.Hour)
	defer cancel()
	desc := &grpc.StreamDesc{ClientStreams: true, ServerStreams: p.Shape == rig.Bidi}
	cs, err := cc.NewStream(ctx, desc, rig.Method(0))
	if err != nil {
		out.harness = "NewStream: " + err.Error()
		teardown(cc)
		return out
	}
	// (plain channels rather than a sync.WaitGroup: see notes/C18.md on the
	// go1.25.0 runtime spin in synctest's WaitGroup association)
	sDone, rDone := make(chan struct{}), make(chan struct{})
	go func() { defer close(sDone); ap.sender(cs) }()
	go func() { defer close(rDone); ap.receiver(cs) }()

	snapshot := func() []*concAttempt {
		srvState.mu.Lock()
		defer srvState.mu.Unlock()
		return append([]*concAttempt(nil), srvState.atts...)
	}
	logf := func(format string, args ...any) { out.trace = append(out.trace, fmt.Sprintf(format, args...)) }
	type cand struct {
		kind string // "srv" | "send" | "recv"
		att  int
	}
	maxSteps := 3*len(p.Msgs) + 16 + 2*6
	for {
		time.Sleep(concQuantum)
		synctest.Wait()
		atts := snapshot()
		srvState.mu.Lock()
		ap.mu.Lock()
		v := concInvariants(ap, atts)
		// Candidate order (pick 0 is the most likely choice and the default
		// once the schedule is used up): while a send is parked in the window
		// the server comes first, otherwise the application moves first.
		var cands, held []cand
		for a, at := range atts {
			if at.State == concHeld {
				held = append(held, cand{"srv", a})
			}
		}
		sState, rState := ap.sState, ap.rState
		if sState == concParked {
			cands = append(cands, held...)
		}
		if rState == concGated {
			cands = append(cands, cand{"recv", 0})
		}
		if sState == concGated || sState == concParked {
			cands = append(cands, cand{"send", 0})
		}
		if sState != concParked {
			cands = append(cands, held...)
		}
		ap.mu.Unlock()
		srvState.mu.Unlock()
		if v != "" {
			out.violation = v
			break
		}
		if sState == concRunning {
			out.violation = fmt.Sprintf("the sender is blocked inside a send operation (message in progress %d, close called %v) although everything is quiescent and no message exceeds 2 KiB", ap.cur, ap.closeCalled)
			break
		}
		if len(cands) == 0 {
			break
		}
		if out.steps >= maxSteps {
			out.harness = fmt.Sprintf("scheduler did not finish in %d steps", maxSteps)
			break
		}
		pick := 0
		if out.steps < len(p.Sched) {
			pick = p.Sched[out.steps] % len(cands)
		}
		out.steps++
		c := cands[pick]
		delivered := true
		switch c.kind {
		case "srv":
			at := atts[c.att]
			logf("srv%d(%s %d after %d msgs hc=%v)", c.att, at.Script.Kind, at.Script.Code, len(at.Msgs), at.HalfClose)
			select {
			case at.hold <- struct{}{}:
			default:
				delivered = false
			}
		case "send":
			if sState == concParked {
				ap.mu.Lock()
				inWin := ap.begun > ap.parkBegun
				logf("unpark(msg%d occ%d retried=%v)", ap.parkMsg, ap.parkOcc, inWin)
				out.parks++
				if ap.parkOcc > 0 {
					out.rerunPark++
				}
				if inWin {
					out.inWindow++
				}
				ap.mu.Unlock()
				select {
				case ap.sPark <- struct{}{}:
				default:
					delivered = false
				}
			} else {
				logf("send-op(%d)", ap.started)
				select {
				case ap.sGate <- struct{}{}:
				default:
					delivered = false
				}
			}
		case "recv":
			logf("recv-start")
			select {
			case ap.rGate <- struct{}{}:
			default:
				delivered = false
			}
		}
		if !delivered {
			out.harness = fmt.Sprintf("entity %v was not waiting for its release (trace %v)", c, out.trace)
			break
		}
	}
	// Nothing left to release. If the receiver is still blocked the RPC
	// cannot finish on its own (the script waits for input the application
	// never produces): the application cancels.
	ap.mu.Lock()
	rState := ap.rState
	ap.mu.Unlock()
	if out.violation == "" && out.harness == "" && rState != concDone {
		atts := snapshot()
		srvState.mu.Lock()
		lastEnded := len(atts) > 0 && atts[len(atts)-1].State == concEnded
		srvState.mu.Unlock()
		if lastEnded {
			out.violation = fmt.Sprintf("the receiver is still blocked in Header/RecvMsg although the latest attempt (%d) has ended at the server and virtual time was advanced by %v: the RPC neither finished nor was retried", len(atts)-1, concQuantum)
		}
		out.stalled = true
		logf("stalled->cancel")
	}
	close(ap.abort)
	cancel()
	<-sDone
	<-rDone
	synctest.Wait()
	srvState.mu.Lock()
	for _, at := range srvState.atts {
		out.atts = append(out.atts, *at)
	}
	srvState.mu.Unlock()
	teardown(cc)
	return out
}

func (o *concOutcome) dump() string {
	var b strings.Builder
	ap := o.app
	fmt.Fprintf(&b, "schedule %v; app: started %d accepted %d sendErr %q closeCalled %v closeReturned %v; receiver %s code %v %q resp %d hdr %v; attempts:", o.trace, ap.started, ap.accepted, ap.sendErr, ap.closeCalled, ap.closeRet, ap.rState, ap.recvCode, ap.recvMsg, len(ap.resp), ap.hdr)
	for a, at := range o.atts {
		fmt.Fprintf(&b, " [%d: prev %v msgs %d hc %v %s(%d) read_n %d pb %q state %s acted %v err %q]", a, at.Prev, len(at.Msgs), at.HalfClose, at.Script.Kind, at.Script.Code, at.Script.ReadN, at.Script.Pushback, at.State, at.Acted, at.RecvErr)
	}
	return b.String()
}

func concRun(t *testing.T, p concPlan) vk.Result {
	if len(p.ParkMask) != len(p.Msgs) || len(p.Msgs) == 0 || p.Policy.MaxAttempts < 2 {
		return vk.Result{Discard: true}
	}
	var o *concOutcome
	if msg := vk.Bubble(t, func(*testing.T) { o = concExec(p) }); msg != "" {
		tr := ""
		if o != nil {
			tr = o.dump()
		}
		return vk.Bad("bubble did not drain: %s :: %s", msg, tr)
	}
	res := vk.Result{Steps: o.steps}
	bad := func(format string, args ...any) vk.Result {
		return vk.Bad("%s (%s, policy %+v, cap %d, %d msgs, close %v) :: %s", fmt.Sprintf(format, args...), p.Shape, p.Policy, p.Cap, len(p.Msgs), p.CloseSend, o.dump()).With(res.Classes...)
	}
	if o.harness != "" {
		return bad("harness failure: %s", o.harness)
	}
	ap := o.app
	if o.inWindow > 0 {
		res.NonTrivial = true
		res = res.With("retry_inside_send_window")
	}
	if o.parks > 0 {
		res = res.With("send_parked")
	}
	if o.rerunPark > 0 {
		res = res.With("rerun_parked")
	}
	if o.violation != "" {
		return bad("%s", o.violation)
	}
	if len(o.atts) == 0 {
		return bad("no attempt reached the server")
	}
	maxAtt := min(p.Policy.MaxAttempts, effectiveCap(p.Cap))
	if len(o.atts) > maxAtt {
		return bad("%d attempts reached the server, effective maximum is %d", len(o.atts), maxAtt)
	}
	if ap.begun != len(o.atts) {
		return bad("the client began %d attempts but %d reached the server (no transparent retry is possible here)", ap.begun, len(o.atts))
	}
	// final view of the replay-exactness invariants (state after teardown)
	atp := make([]*concAttempt, len(o.atts))
	for i := range o.atts {
		atp[i] = &o.atts[i]
		atp[i].State = concEnded
	}
	if v := concInvariants(ap, atp); v != "" {
		return bad("%s", v)
	}
	wantCode := codes.Unknown
	wantResp := -1
	wantHdr := -1
	for a := range o.atts {
		at := &o.atts[a]
		sc := at.Script
		last := a == len(o.atts)-1
		if a == 0 && len(at.Prev) != 0 {
			return bad("first attempt carries grpc-previous-rpc-attempts %q", at.Prev)
		}
		if a > 0 && (len(at.Prev) != 1 || at.Prev[0] != strconv.Itoa(a)) {
			return bad("attempt %d carries grpc-previous-rpc-attempts %q, want [%d]", a, at.Prev, a)
		}
		if !last && !at.Acted {
			return bad("attempt %d was replaced by attempt %d although the server had not answered it (state %s, error %q)", a, a+1, at.State, at.RecvErr)
		}
		if at.Acted && sc.ReadN >= 0 && len(at.Msgs) < sc.ReadN && !at.HalfClose {
			return bad("attempt %d: server read %d messages, script wanted %d", a, len(at.Msgs), sc.ReadN)
		}
		if a > 0 && len(at.Msgs) >= 2 {
			res = res.With("replayed>=2msgs")
		}
		if a > 0 && at.HalfClose {
			res = res.With("replayed_halfclose")
		}
		if !at.Acted {
			continue // only the last attempt: the RPC was cancelled by the driver (stall) or ended at the client
		}
		// -- gRFC A6: what must follow this attempt --
		mustNot, must, why := false, false, ""
		_, okPB := validPushback(sc.Pushback)
		switch {
		case sc.Kind != rig.KStatus:
			mustNot, why = true, "response headers were received (committed)"
			res = res.With("commit_by_response")
			wantCode = codes.Code(sc.Code)
			if sc.Kind == rig.KMsgStatus {
				wantResp = a
				if p.Shape != rig.Bidi && sc.Code != 0 {
					wantResp = -1 // client-streaming surfaces only the error
				}
			} else {
				wantHdr = a
				if sc.Code == 0 && p.Shape != rig.Bidi {
					wantCode = codes.Internal // OK without a response message
				}
			}
		case sc.Code == 0:
			mustNot, why = true, "attempt ended with OK"
			wantCode = codes.OK
			if p.Shape != rig.Bidi {
				wantCode = codes.Internal
			}
		default:
			wantCode = codes.Code(sc.Code)
			switch {
			case len(sc.Pushback) > 0 && !okPB:
				mustNot, why = true, "negative/malformed/multiple pushback"
				res = res.With("pushback_bad")
			case !inCodes(&p.Policy, sc.Code):
				mustNot, why = true, "status code not in retryableStatusCodes"
				res = res.With("code_not_retryable")
			case a+1 >= maxAtt:
				mustNot, why = true, "maxAttempts reached"
				res = res.With("max_attempts_exhausted")
			default:
				must = true
			}
		}
		if mustNot && !last {
			return bad("attempt %d must not be retried (%s) but attempt %d reached the server", a, why, a+1)
		}
		if must && last && !o.stalled {
			// The receiver blocks in Header/RecvMsg until the RPC ends, so the
			// failure was noticed; the deadline is an hour away.
			return bad("attempt %d (trailers-only code %d, pushback %q) must be retried under the policy but no further attempt reached the server; receiver saw %v %q", a, sc.Code, sc.Pushback, ap.recvCode, ap.recvMsg)
		}
	}
	lastAt := &o.atts[len(o.atts)-1]
	switch {
	case o.stalled:
		res = res.With("stalled_plan")
		if ap.recvCode != codes.Canceled {
			return bad("the driver cancelled the stalled RPC but the receiver saw %v (%q)", ap.recvCode, ap.recvMsg)
		}
	case !lastAt.Acted:
		return bad("the RPC ended at the client with %v (%q) while the latest attempt (%d) had not been answered by the server", ap.recvCode, ap.recvMsg, len(o.atts)-1)
	default:
		if ap.recvCode != wantCode {
			return bad("receiver saw %v (%q), the last attempt ended with %v", ap.recvCode, ap.recvMsg, wantCode)
		}
		if wantResp >= 0 {
			if len(ap.resp) != 1 || !bytes.Equal(ap.resp[0], rig.Resp(0, wantResp)) {
				return bad("receiver got responses %q, want exactly the one of attempt %d", ap.resp, wantResp)
			}
		} else if len(ap.resp) != 0 {
			return bad("receiver got %d response messages although no attempt that sent one was committed", len(ap.resp))
		}
		if p.RecvHeader && wantHdr >= 0 {
			if got := ap.hdr.Get("vf-h"); len(got) != 1 || got[0] != strconv.Itoa(wantHdr) {
				return bad("Header() returned %v, want the response headers of attempt %d", ap.hdr, wantHdr)
			}
		}
		// The RPC ended with the scripted answer of the last attempt, which was
		// given after the server had read what its script asked for; when it
		// drained, it must have seen the application's complete history.
		if sc := lastAt.Script; (sc.ReadN < 0 || sc.Kind == concKHdrDrain && p.CloseSend) && lastAt.Acted {
			if !lastAt.HalfClose || len(lastAt.Msgs) != ap.accepted || !ap.closeRet {
				return bad("the last attempt drained the request and saw %d messages, half-close %v; the application had %d sends accepted and CloseSend returned %v", len(lastAt.Msgs), lastAt.HalfClose, ap.accepted, ap.closeRet)
			}
			res = res.With("final_attempt_saw_full_history")
		}
	}
	if p.RecvHeader {
		res = res.With("recv_header_mode")
	}
	if ap.sendErr != "" {
		res = res.With("send_error_seen")
	}
	if len(o.atts) >= 2 {
		res = res.With("retried")
	}
	res = res.With(fmt.Sprintf("attempts_%d", len(o.atts)))
	return res
}

func TestVerifC18Concurrent(t *testing.T) {
	vk.Check(t, vk.Unit[concPlan]{
		ID: "C18", Name: "concurrent",
		Rule: "one bidi / client-streaming RPC (1-5(6) messages of 1-2048 position-dependent bytes, CloseSend or not) driven by TWO application goroutines (sender: SendMsg.. CloseSend; receiver: optional Header(), RecvMsg loop) on a real ClientConn+Server over bufconn in a synctest bubble, retryPolicy maxAttempts 2-5 / 1-2 codes / small backoff, WithMaxCallAttempts in {default,2,3,7}; per attempt the server reads k messages (or drains), HOLDS, then answers trailers-only / headers+status / message+status / headers-drain-status with a code in or out of the policy and pushback absent/valid/bad. A cooperative scheduler executes the generated schedule: at every quiescent point it releases one of {held server attempt, sender (gate before each op, or parked inside a client stats.Handler on the OutPayload event of the message being sent = after the transport write, before withRetry re-locks), receiver start} and then advances virtual time past any backoff. Oracle: per-attempt server log vs the application's send history (byte-exact prefix, half-close only after all messages, the current attempt never waits for a message/half-close whose SendMsg/CloseSend has returned, a draining final attempt sees the full accepted history), grpc-previous-rpc-attempts, attempts <= min(maxAttempts, cap), A6 must/must-not retry per attempt, final status/response/header. non-trivial = a retry (new attempt begun) happened while a send operation was parked between its transport write and its return (class retry_inside_send_window)",
		Gen:  concGen, Run: concRun,
	})
}
