package c18_test

// C18 (transparent retries): a real grpc.ClientConn against a scripted HTTP/2
// peer (h2peer over vpipe) that can refuse a stream (RST_STREAM
// REFUSED_STREAM) or send a GOAWAY whose last-stream-id is below / at the
// stream, next to ordinary trailers-only failures and successes.

import (
	"bytes"
	"context"
	"encoding/binary"
	"fmt"
	"io"
	"net"
	"strconv"
	"strings"
	"sync"
	"testing"
	"testing/synctest"
	"time"

	"golang.org/x/net/http2"
	"golang.org/x/net/http2/hpack"
	"google.golang.org/grpc"
	"google.golang.org/grpc/codes"
	"google.golang.org/grpc/credentials/insecure"
	"google.golang.org/grpc/internal/verifkit/h2peer"
	"google.golang.org/grpc/internal/verifkit/vk"
	"google.golang.org/grpc/internal/verifkit/vpipe"
	rig "google.golang.org/grpc/internal/verifx/retryrig"
	"google.golang.org/grpc/status"
	"pgregory.net/rapid"
)

const (
	actRefuse = "refuse" // RST_STREAM(REFUSED_STREAM)
	actGoAway = "goaway" // GOAWAY with last-stream-id below this stream
	actStatus = "status" // trailers-only status
	actOK     = "ok"     // headers, one message, OK trailers (after the client's END_STREAM)
)

type wAttempt struct {
	Act string `json:"act"`
	// AtEnd: act when the client has half-closed instead of on HEADERS.
	AtEnd bool   `json:"at_end"`
	Code  uint32 `json:"code"`
	// KeepGoAway: first send GOAWAY(last-stream-id = this stream): the stream
	// counts as processed and must carry on.
	KeepGoAway bool `json:"keep_goaway"`
}

type wRPC struct {
	Shape  string      `json:"shape"` // unary | client
	Msgs   []int       `json:"msgs"`
	Policy *rig.Policy `json:"policy,omitempty"`
	Script []wAttempt  `json:"script"`
}

type wPlan struct {
	MaxCallAttempts int    `json:"max_call_attempts"`
	DisableRetry    bool   `json:"disable_retry"`
	RPCs            []wRPC `json:"rpcs"`
}

type wLog struct {
	conn     int
	streamID uint32
	arrive   time.Time
	prev     []string
	script   wAttempt
	dflt     bool
	acted    bool
}

type wServer struct {
	mu    sync.Mutex
	plan  wPlan
	peers []*h2peer.Peer
	logs  map[int][]*wLog // by RPC index
	byKey map[[2]uint32]*wLog
	rpcOf map[[2]uint32]int
}

func (s *wServer) dial(context.Context, string) (net.Conn, error) {
	c, sv := vpipe.New()
	s.mu.Lock()
	idx := len(s.peers)
	s.peers = append(s.peers, nil)
	s.mu.Unlock()
	var p *h2peer.Peer
	ready := make(chan struct{})
	p = h2peer.New(sv, h2peer.Config{Role: h2peer.ServerRole, OnFrame: func(f *h2peer.Frame) {
		<-ready
		s.onFrame(idx, p, f)
	}})
	s.mu.Lock()
	s.peers[idx] = p
	s.mu.Unlock()
	close(ready)
	return c, nil
}

func field(fs []hpack.HeaderField, name string) []string {
	var out []string
	for _, f := range fs {
		if f.Name == name {
			out = append(out, f.Value)
		}
	}
	return out
}

func (s *wServer) onFrame(conn int, p *h2peer.Peer, f *h2peer.Frame) {
	if f.Dir != h2peer.In || f.StreamID == 0 {
		return
	}
	key := [2]uint32{uint32(conn), f.StreamID}
	switch {
	case f.Type == http2.FrameHeaders && f.BlockComplete && f.Fields != nil:
		path := field(f.Fields, ":path")
		if len(path) != 1 {
			return
		}
		var i int
		if _, err := fmt.Sscanf(path[0], "/vf.S/m%d", &i); err != nil || i < 0 || i >= len(s.plan.RPCs) {
			return
		}
		s.mu.Lock()
		if _, dup := s.byKey[key]; dup {
			s.mu.Unlock()
			return
		}
		a := len(s.logs[i])
		l := &wLog{conn: conn, streamID: f.StreamID, arrive: time.Now(), prev: field(f.Fields, "grpc-previous-rpc-attempts")}
		if a < len(s.plan.RPCs[i].Script) {
			l.script = s.plan.RPCs[i].Script[a]
		} else {
			l.script = wAttempt{Act: actOK, AtEnd: true}
			l.dflt = true
		}
		if l.script.Act == actOK {
			l.script.AtEnd = true
		}
		s.logs[i] = append(s.logs[i], l)
		s.byKey[key] = l
		s.rpcOf[key] = i
		s.mu.Unlock()
		if l.script.KeepGoAway {
			p.WriteGoAway(f.StreamID, http2.ErrCodeNo, []byte("keep"))
		}
		if !l.script.AtEnd || f.EndStream() {
			s.act(p, l, i)
		}
	case (f.Type == http2.FrameData || f.Type == http2.FrameHeaders) && f.EndStream():
		s.mu.Lock()
		l := s.byKey[key]
		i := s.rpcOf[key]
		s.mu.Unlock()
		if l != nil && l.script.AtEnd {
			s.act(p, l, i)
		}
	}
}

func (s *wServer) act(p *h2peer.Peer, l *wLog, rpc int) {
	s.mu.Lock()
	if l.acted {
		s.mu.Unlock()
		return
	}
	l.acted = true
	s.mu.Unlock()
	id := l.streamID
	switch l.script.Act {
	case actRefuse:
		p.WriteRSTStream(id, http2.ErrCodeRefusedStream)
	case actGoAway:
		last := uint32(0)
		if id >= 2 {
			last = id - 2
		}
		p.WriteGoAway(last, http2.ErrCodeNo, []byte("below"))
	case actStatus:
		p.WriteHeaders(h2peer.Headers{StreamID: id, Fields: h2peer.TrailersOnly(int(l.script.Code), "scripted"), EndStream: true})
	case actOK:
		p.WriteHeaders(h2peer.Headers{StreamID: id, Fields: h2peer.ResponseHeaders()})
		p.WriteData(id, frame(rig.Resp(rpc, 0)), false, -1)
		p.WriteHeaders(h2peer.Headers{StreamID: id, Fields: h2peer.Trailers(0, ""), EndStream: true})
	}
}

func frame(b []byte) []byte {
	out := make([]byte, 5+len(b))
	binary.BigEndian.PutUint32(out[1:5], uint32(len(b)))
	copy(out[5:], b)
	return out
}

type wResult struct {
	code  codes.Code
	msg   string
	resp  [][]byte
	start time.Time
}

type wAttemptObs struct {
	wLog
	inData []byte
	inEnd  bool
}

func wExec(p wPlan) (results []wResult, obs [][]wAttemptObs, rigErr string) {
	srv := &wServer{plan: p, logs: map[int][]*wLog{}, byKey: map[[2]uint32]*wLog{}, rpcOf: map[[2]uint32]int{}}
	rp := rig.Plan{MaxCallAttempts: p.MaxCallAttempts}
	for _, r := range p.RPCs {
		rp.RPCs = append(rp.RPCs, rig.RPC{Policy: r.Policy})
	}
	opts := []grpc.DialOption{
		grpc.WithTransportCredentials(insecure.NewCredentials()),
		grpc.WithContextDialer(srv.dial),
		grpc.WithDefaultServiceConfig(rig.ServiceConfig(rp)),
		grpc.WithDisableServiceConfig(),
		grpc.WithIdleTimeout(0),
		grpc.WithDefaultCallOptions(grpc.ForceCodec(rig.RawCodec())),
	}
	if p.MaxCallAttempts != 0 {
		opts = append(opts, grpc.WithMaxCallAttempts(p.MaxCallAttempts))
	}
	if p.DisableRetry {
		opts = append(opts, grpc.WithDisableRetry())
	}
	cc, err := grpc.NewClient("passthrough:///vf", opts...)
	if err != nil {
		return nil, nil, "NewClient: " + err.Error()
	}
	for i, r := range p.RPCs {
		res := wResult{start: time.Now()}
		ctx, cancel := context.WithTimeout(context.Background(), 30*time.Second)
		var rpcErr error
		if r.Shape == rig.Unary {
			req := rig.Msg(i, 0, r.Msgs[0])
			var resp []byte
			rpcErr = cc.Invoke(ctx, rig.Method(i), &req, &resp)
			if rpcErr == nil {
				res.resp = append(res.resp, resp)
			}
		} else {
			cs, err := cc.NewStream(ctx, &grpc.StreamDesc{ClientStreams: true}, rig.Method(i))
			rpcErr = err
			if err == nil {
				for j, sz := range r.Msgs {
					m := rig.Msg(i, j, sz)
					if err := cs.SendMsg(&m); err != nil {
						break
					}
				}
				cs.CloseSend()
				var resp []byte
				rpcErr = cs.RecvMsg(&resp)
				if rpcErr == nil {
					res.resp = append(res.resp, resp)
				}
			}
		}
		cancel()
		if rpcErr == io.EOF {
			rpcErr = nil
		}
		st, _ := status.FromError(rpcErr)
		res.code, res.msg = st.Code(), st.Message()
		results = append(results, res)
		synctest.Wait()
	}
	cc.Close()
	synctest.Wait()
	srv.mu.Lock()
	peers := append([]*h2peer.Peer(nil), srv.peers...)
	srv.mu.Unlock()
	for i := range p.RPCs {
		var row []wAttemptObs
		srv.mu.Lock()
		logs := append([]*wLog(nil), srv.logs[i]...)
		srv.mu.Unlock()
		for _, l := range logs {
			o := wAttemptObs{wLog: *l}
			if st, ok := peers[l.conn].Ledger().Stream(l.streamID); ok {
				o.inData = append([]byte(nil), st.InData...)
				o.inEnd = st.InEnd
			}
			row = append(row, o)
		}
		obs = append(obs, row)
	}
	for _, pr := range peers {
		if pr != nil {
			pr.Close()
		}
	}
	for _, pr := range peers {
		if pr != nil {
			pr.Wait()
		}
	}
	synctest.Wait()
	return results, obs, ""
}

func wGen(rt *rapid.T) wPlan {
	var p wPlan
	p.MaxCallAttempts = rapid.SampledFrom([]int{0, 0, 2, 3, 7}).Draw(rt, "cap")
	p.DisableRetry = rapid.IntRange(0, 9).Draw(rt, "disable_retry") == 9
	n := rapid.IntRange(1, vk.Pick(4, 6)).Draw(rt, "nrpc")
	for i := 0; i < n; i++ {
		var r wRPC
		if rapid.IntRange(0, 5).Draw(rt, "has_policy") < 5 {
			pol := &rig.Policy{MaxAttempts: rapid.IntRange(2, 5).Draw(rt, "max_attempts"),
				InitialNs: int64(time.Millisecond) * rapid.Int64Range(1, 50).Draw(rt, "initial_ms"),
				MaxNs:     int64(time.Millisecond) * rapid.Int64Range(1, 100).Draw(rt, "max_ms"), Mult: 2}
			// UNAVAILABLE (what a refused / drained stream maps to) is in the
			// policy most of the time
			pol.Codes = rapid.SampledFrom([][]uint32{{14}, {14, 8}, {8}, {14, 10}, {10, 1}}).Draw(rt, "codes")
			r.Policy = pol
		}
		if rapid.Bool().Draw(rt, "unary") {
			r.Shape = rig.Unary
			r.Msgs = []int{rapid.IntRange(0, 40).Draw(rt, "msg")}
		} else {
			r.Shape = rig.Client
			k := rapid.IntRange(0, 4).Draw(rt, "nmsgs")
			for j := 0; j < k; j++ {
				r.Msgs = append(r.Msgs, rapid.IntRange(0, 40).Draw(rt, "msg"))
			}
		}
		ns := rapid.IntRange(0, 5).Draw(rt, "nscript")
		for a := 0; a < ns; a++ {
			var s wAttempt
			s.Act = rapid.SampledFrom([]string{actRefuse, actGoAway, actStatus, actRefuse, actGoAway, actStatus, actOK}).Draw(rt, "act")
			s.AtEnd = rapid.Bool().Draw(rt, "at_end")
			if s.Act == actStatus {
				if r.Policy != nil && rapid.IntRange(0, 3).Draw(rt, "code_in") < 3 {
					s.Code = r.Policy.Codes[rapid.IntRange(0, len(r.Policy.Codes)-1).Draw(rt, "code_idx")]
				} else {
					s.Code = rapid.SampledFrom([]uint32{14, 3, 5, 13}).Draw(rt, "code")
				}
			}
			if (s.Act == actStatus || s.Act == actOK) && rapid.IntRange(0, 3).Draw(rt, "keep_goaway") == 3 {
				s.KeepGoAway = true
			}
			r.Script = append(r.Script, s)
		}
		p.RPCs = append(p.RPCs, r)
	}
	return p
}

func wRun(t *testing.T, p wPlan) vk.Result {
	var results []wResult
	var obs [][]wAttemptObs
	var rigErr string
	if msg := vk.Bubble(t, func(*testing.T) { results, obs, rigErr = wExec(p) }); msg != "" {
		return vk.Bad("rig did not drain: %s", msg)
	}
	if rigErr != "" {
		return vk.Bad("rig failure: %s", rigErr)
	}
	res := vk.Result{}
	nt := false
	for i, r := range p.RPCs {
		atts := obs[i]
		dump := func() string {
			s := ""
			for a, o := range atts {
				s += fmt.Sprintf(" [#%d conn%d stream%d act=%s atEnd=%v code=%d keep=%v prev=%q data=%dB end=%v]", a, o.conn, o.streamID, o.script.Act, o.script.AtEnd, o.script.Code, o.script.KeepGoAway, o.prev, len(o.inData), o.inEnd)
			}
			return s
		}
		bad := func(format string, args ...any) vk.Result {
			return vk.Bad("rpc %d (%s, policy %+v, cap %d, disableRetry %v): %s :: app saw %v %q; attempts:%s", i, r.Shape, r.Policy, p.MaxCallAttempts, p.DisableRetry, fmt.Sprintf(format, args...), results[i].code, results[i].msg, dump())
		}
		if len(atts) == 0 {
			return bad("no attempt reached the peer")
		}
		var full []byte
		for j, sz := range r.Msgs {
			full = append(full, frame(rig.Msg(i, j, sz))...)
		}
		maxAtt := 1
		if r.Policy != nil && !p.DisableRetry {
			maxAtt = min(r.Policy.MaxAttempts, effectiveCap(p.MaxCallAttempts))
		}
		first := true
		n := 0 // non-transparent retries so far
		transparent := 0
		wantCode := codes.Unknown
		for a, o := range atts {
			last := a == len(atts)-1
			// header: number of prior non-transparent attempts
			if n == 0 && len(o.prev) != 0 {
				return bad("attempt %d carries grpc-previous-rpc-attempts %q although no policy retry happened before it", a, o.prev)
			}
			if n > 0 && (len(o.prev) != 1 || o.prev[0] != strconv.Itoa(n)) {
				return bad("attempt %d carries grpc-previous-rpc-attempts %q, want [%d]", a, o.prev, n)
			}
			// replay exactness on the wire
			if !bytes.HasPrefix(full, o.inData) {
				return bad("attempt %d: DATA bytes sent (%d B) are not a prefix of the application's framed messages (%d B)", a, len(o.inData), len(full))
			}
			if o.inEnd && !bytes.Equal(o.inData, full) {
				return bad("attempt %d: END_STREAM after %d of %d request bytes", a, len(o.inData), len(full))
			}
			if o.script.AtEnd && o.acted && !o.inEnd {
				return bad("attempt %d: peer acted at end-of-stream but the ledger shows no END_STREAM", a)
			}
			if a > 0 && o.inEnd && len(r.Msgs) >= 2 {
				nt = true
			}
			mustNot, must := false, false
			why := ""
			switch o.script.Act {
			case actOK:
				mustNot, why = true, "completed with OK"
				wantCode = codes.OK
			case actRefuse, actGoAway:
				wantCode = codes.Unavailable
				switch {
				case first:
					must = true
					res = res.With("transparent_" + o.script.Act)
				case p.DisableRetry || r.Policy == nil:
					mustNot, why = true, "unprocessed but not the first attempt, and no retry policy in force"
				case !inCodes(r.Policy, 14):
					mustNot, why = true, "unprocessed, not first attempt, UNAVAILABLE not retryable"
				case n+1 >= maxAtt:
					mustNot, why = true, "maxAttempts reached"
					res = res.With("unprocessed_max_attempts")
				default:
					must = true
					res = res.With("unprocessed_policy_retry")
				}
			case actStatus:
				wantCode = codes.Code(o.script.Code)
				switch {
				case o.script.Code == 0:
					mustNot, why = true, "trailers-only OK"
					wantCode = codes.Internal
				case p.DisableRetry || r.Policy == nil:
					mustNot, why = true, "no retry policy in force"
				case !inCodes(r.Policy, o.script.Code):
					mustNot, why = true, "code not retryable"
				case n+1 >= maxAtt:
					mustNot, why = true, "maxAttempts reached"
				default:
					must = true
				}
			}
			if mustNot && !last {
				return bad("attempt %d must not be retried (%s) but attempt %d reached the peer", a, why, a+1)
			}
			if must && last {
				return bad("attempt %d must be retried but no further attempt reached the peer", a)
			}
			if !last {
				isTransparent := (o.script.Act == actRefuse || o.script.Act == actGoAway) && first
				if isTransparent {
					transparent++
					// a transparent retry is immediate
					if gap := atts[a+1].arrive.Sub(o.arrive); gap != 0 && !o.script.AtEnd {
						return bad("transparent retry %d arrived %v after the refused attempt, want immediately", a+1, gap)
					}
				} else {
					n++
				}
				first = false
			}
			if o.script.KeepGoAway {
				res = res.With("goaway_at_stream_id")
			}
		}
		if n+1 > maxAtt {
			return bad("%d non-transparent attempts, effective maximum %d", n+1, maxAtt)
		}
		if transparent > 1 {
			return bad("%d transparent retries of one RPC", transparent)
		}
		if la := atts[len(atts)-1]; results[i].code != wantCode && len(atts) >= 2 && wantCode != codes.OK && (!la.inEnd || len(la.inData) < len(full)) &&
			(results[i].code == codes.OK || results[i].code == codes.Unknown && strings.Contains(results[i].msg, "EOF")) {
			v := bad("retry attempt %d ended with %v while the replay was still sending, but the application saw %v: the io.EOF of the replayed send replaced the RPC status", len(atts)-1, wantCode, results[i].code)
			v.Sig = sigReplayEOF
			return v.With("replay_send_eof_masks_status")
		}
		if results[i].code != wantCode {
			return bad("reference model says %v", wantCode)
		}
		if wantCode == codes.OK && (len(results[i].resp) != 1 || !bytes.Equal(results[i].resp[0], rig.Resp(i, 0))) {
			return bad("wrong response %q", results[i].resp)
		}
		if transparent > 0 && n > 0 {
			res = res.With("transparent+policy_mix")
		}
		res = res.With(fmt.Sprintf("attempts_%d", min(len(atts), 6)))
		res.Steps += len(atts)
	}
	res.NonTrivial = nt
	return res
}

func TestVerifC18Transparent(t *testing.T) {
	vk.Check(t, vk.Unit[wPlan]{
		ID: "C18", Name: "transparent",
		Rule: "1-4(6) sequential unary / client-streaming RPCs on a real ClientConn whose dialer hands out vpipe connections to scripted h2peer servers; per attempt the peer refuses the stream (RST_STREAM REFUSED_STREAM), sends GOAWAY with last-stream-id below the stream, sends GOAWAY at the stream id and carries on, answers trailers-only with a code, or completes OK; on HEADERS or after END_STREAM. Oracle: A6 model (first unprocessed attempt is retried transparently exactly once, immediately and without counting; later ones only through the policy as UNAVAILABLE), grpc-previous-rpc-attempts == non-transparent retries, DATA bytes of every attempt a prefix of (final attempt: equal to) the application's framed messages. non-trivial = a retry attempt carried >= 2 replayed messages and END_STREAM",
		Gen:  wGen, Run: wRun,
	})
}
