package c18_test

// C18: retries are bounded, policy-driven and replay the exact request.
//
// A real grpc.ClientConn with generated per-method retry policies (plus an
// optional retryThrottling policy, WithMaxCallAttempts, WithDisableRetry,
// MaxRetryRPCBufferSize) talks to a real grpc.Server over bufconn in a synctest
// bubble. The server is scripted per attempt and logs what each attempt
// carried. The oracle is a gRFC A6 reference model that walks the scripted
// attempts and decides, per failed attempt, whether a retry must / must not /
// may follow, what each attempt must have carried, and what the application
// must have seen.

import (
	"bytes"
	"fmt"
	"math/big"
	"strconv"
	"strings"
	"testing"
	"time"

	"google.golang.org/grpc/codes"
	"google.golang.org/grpc/internal/verifkit/vk"
	rig "google.golang.org/grpc/internal/verifx/retryrig"
	"pgregory.net/rapid"
)

type plan struct {
	P rig.Plan `json:"p"`
}

// sigReplayEOF: a send replayed on a retry attempt fails with io.EOF because
// that attempt already ended, and the io.EOF (or "max retries exhausted: ...
// EOF") is returned to the application instead of the attempt's status.
const sigReplayEOF = "c18.replay_send_eof_masks_status"

var retryable = []uint32{14, 8, 10, 1, 2, 13}
var otherCodes = []uint32{3, 5, 7, 9, 12, 16}

func genPushback(rt *rapid.T) []string {
	switch rapid.IntRange(0, 29).Draw(rt, "pb_kind") {
	case 25, 26, 27:
		return []string{strconv.Itoa(rapid.SampledFrom([]int{0, 1, 5, 50, 200}).Draw(rt, "pb_ms"))}
	case 28:
		return []string{rapid.SampledFrom([]string{"-1", "-50", "abc", "", "1.5", "5ms", " 5", "99999999999999999999"}).Draw(rt, "pb_bad")}
	case 29:
		return []string{strconv.Itoa(rapid.IntRange(0, 9).Draw(rt, "pb_a")), strconv.Itoa(rapid.IntRange(0, 9).Draw(rt, "pb_b"))}
	default:
		return nil
	}
}

func gen(rt *rapid.T) plan {
	var p rig.Plan
	p.MaxCallAttempts = rapid.SampledFrom([]int{0, 0, 0, 2, 3, 4, 7, 1, -1}).Draw(rt, "cap")
	if rapid.IntRange(0, 2).Draw(rt, "has_throttle") == 2 {
		p.Throttle = &rig.Throttle{
			Max:   rapid.SampledFrom([]string{"1", "2", "3", "4", "5", "6", "10", "2.5", "3.5"}).Draw(rt, "thr_max"),
			Ratio: rapid.SampledFrom([]string{"0.5", "1", "0.25", "2", "0.1", "1.5"}).Draw(rt, "thr_ratio"),
		}
	}
	p.DisableRetry = rapid.IntRange(0, 19).Draw(rt, "disable_retry") == 19
	nRPC := rapid.IntRange(1, vk.Pick(4, 7)).Draw(rt, "nrpc")
	for i := 0; i < nRPC; i++ {
		var r rig.RPC
		var pol *rig.Policy
		if rapid.IntRange(0, 11).Draw(rt, "has_policy") < 11 {
			pol = &rig.Policy{
				MaxAttempts: rapid.IntRange(2, 6).Draw(rt, "max_attempts"),
				InitialNs:   int64(time.Millisecond) * rapid.Int64Range(1, 200).Draw(rt, "initial_ms"),
				MaxNs:       int64(time.Millisecond) * rapid.Int64Range(1, 500).Draw(rt, "max_ms"),
				Mult:        rapid.SampledFrom([]float64{1, 1.5, 2, 3, 0.5}).Draw(rt, "mult"),
			}
			nc := rapid.IntRange(1, 3).Draw(rt, "ncodes")
			first := rapid.IntRange(0, len(retryable)-1).Draw(rt, "code0")
			for c := 0; c < nc; c++ {
				pol.Codes = append(pol.Codes, retryable[(first+c)%len(retryable)])
			}
		}
		r.Policy = pol
		switch rapid.IntRange(0, 4).Draw(rt, "shape") {
		case 0, 1:
			r.Shape = rig.Client
		case 2, 3:
			r.Shape = rig.Bidi
		default:
			r.Shape = rig.Unary
		}
		total := 0
		if r.Shape == rig.Unary {
			r.Msgs = []int{rapid.IntRange(0, 48).Draw(rt, "msg")}
			r.CloseSend = true
		} else {
			n := rapid.IntRange(0, vk.Pick(5, 6)).Draw(rt, "nmsgs")
			for j := 0; j < n; j++ {
				r.Msgs = append(r.Msgs, rapid.IntRange(0, 48).Draw(rt, "msg"))
			}
			r.CloseSend = rapid.IntRange(0, 3).Draw(rt, "close") > 0
			r.Settle = rapid.IntRange(0, 2).Draw(rt, "settle") > 0
		}
		// Flow-control variant: three ~68 KB messages exceed the stream
		// window (64 KB) plus the per-stream write quota, so that a send -- and
		// in particular a *replayed* send on a retry attempt -- is still blocked
		// in the transport when the scripted failure of that attempt arrives.
		big := r.Shape != rig.Unary && rapid.IntRange(0, 9).Draw(rt, "big") == 9
		if big {
			r.Msgs = nil
			for j := 0; j < 3; j++ { // 3 x <=70 KB stays below the default 256 KB replay buffer
				r.Msgs = append(r.Msgs, rapid.IntRange(66000, 70000).Draw(rt, "big_msg"))
			}
			r.CloseSend = true
			r.Settle = false
		}
		for _, m := range r.Msgs {
			total += 5 + m
		}
		if !big && rapid.IntRange(0, 9).Draw(rt, "has_buflimit") >= 8 {
			if len(r.Msgs) > 0 && rapid.IntRange(0, 3).Draw(rt, "buflimit_boundary") < 3 {
				// exactly at / one off the cumulative size of the first k messages
				k := rapid.IntRange(1, len(r.Msgs)).Draw(rt, "buflimit_k")
				c := 0
				for _, m := range r.Msgs[:k] {
					c += 5 + m
				}
				r.BufLimit = max(1, c+rapid.IntRange(-1, 1).Draw(rt, "buflimit_delta"))
			} else {
				r.BufLimit = rapid.IntRange(1, total+8).Draw(rt, "buflimit")
			}
		}
		maxA := 6
		if pol != nil {
			maxA = pol.MaxAttempts + 1
		}
		nScript := rapid.IntRange(1, maxA).Draw(rt, "nscript")
		if rapid.IntRange(0, 9).Draw(rt, "noscript") == 9 {
			nScript = 0
		}
		var budget float64
		for a := 0; a < nScript; a++ {
			var s rig.AttemptScript
			// Attempts before the last scripted one are mostly trailers-only
			// failures (the only retry candidates), so that chains get long.
			// (rapid favours small draws: the common choice sits at 0)
			kinds := []string{rig.KStatus, rig.KStatus, rig.KStatus, rig.KStatus, rig.KStatus, rig.KStatus, rig.KStatus, rig.KStatus, rig.KMsgStatus, rig.KHdrStatus, rig.KHang}
			if a < nScript-1 {
				kinds = append([]string{rig.KStatus, rig.KStatus, rig.KStatus, rig.KStatus, rig.KStatus, rig.KStatus, rig.KStatus, rig.KStatus, rig.KStatus, rig.KStatus}, kinds[:len(kinds)-1]...)
			}
			s.Kind = rapid.SampledFrom(kinds).Draw(rt, "kind")
			switch c := rapid.IntRange(0, 15).Draw(rt, "code_kind"); {
			case c == 15:
				s.Code = 0
			case c == 14:
				s.Code = otherCodes[rapid.IntRange(0, len(otherCodes)-1).Draw(rt, "code_other")]
			case pol != nil:
				s.Code = pol.Codes[rapid.IntRange(0, len(pol.Codes)-1).Draw(rt, "code_idx")]
			default:
				s.Code = retryable[rapid.IntRange(0, len(retryable)-1).Draw(rt, "code_any")]
			}
			s.ReadN = rapid.IntRange(0, len(r.Msgs)).Draw(rt, "read_n")
			if (r.CloseSend || r.Shape == rig.Unary) && rapid.IntRange(0, 2).Draw(rt, "drain") == 0 {
				s.ReadN = -1
			}
			s.Pushback = genPushback(rt)
			if rapid.IntRange(0, 3).Draw(rt, "has_delay") == 0 {
				s.DelayNs = rapid.Int64Range(1, int64(20*time.Millisecond)).Draw(rt, "delay")
			}
			budget += float64(s.DelayNs) + 1.2*500e6 + 200e6
			r.Script = append(r.Script, s)
		}
		if big && len(r.Script) > 2 {
			// Later attempts use the default script (drain, reply, OK): a
			// retry attempt that neither reads nor ever answers would leave
			// the replay blocked on flow control with the stream mutex held,
			// which (separate finding, notes/C11.md) also blocks the deadline
			// watcher and freezes the bubble.
			r.Script = r.Script[:2]
		}
		if big && len(r.Script) >= 2 {
			// attempt 0 drains and fails (noticed in Recv); attempt 1 fails
			// after a delay without reading, while the replay is blocked
			r.Script[0].ReadN, r.Script[0].Kind = -1, rig.KStatus
			r.Script[1].ReadN, r.Script[1].Kind = 0, rig.KStatus
			if r.Script[1].DelayNs == 0 {
				r.Script[1].DelayNs = 1000
			}
			if r.Script[1].Code == 0 {
				r.Script[1].Code = 3
			}
		}
		r.TimeoutNs = int64(2*budget) + int64(5*time.Second)
		p.RPCs = append(p.RPCs, r)
	}
	return plan{P: p}
}

// ---- reference model -------------------------------------------------------

func validPushback(v []string) (int64, bool) {
	if len(v) != 1 || v[0] == "" {
		return 0, false
	}
	for _, c := range []byte(v[0]) {
		if c < '0' || c > '9' {
			return 0, false
		}
	}
	n, err := strconv.ParseInt(v[0], 10, 64)
	return n, err == nil
}

// bucket tracks the set of token values the A6 bucket may hold as an interval
// [lo, hi]: some events are counted as a failure under one reading of the
// statement and not under the other, and all operations are monotone.
type bucket struct {
	on             bool
	lo, hi         float64
	max, thr, rate float64
	eps            float64 // 0 when every operand is exactly representable in binary
}

func exactF(s string) bool {
	r, _ := new(big.Rat).SetString(s)
	_, ok := r.Float64()
	return ok
}

func ratF(s string) float64 {
	r, _ := new(big.Rat).SetString(s)
	f, _ := r.Float64()
	return f
}

func (b *bucket) fail() {
	if !b.on {
		return
	}
	b.lo = max(b.lo-1, 0)
	b.hi = max(b.hi-1, 0)
}
func (b *bucket) maybeFail() {
	if !b.on {
		return
	}
	b.lo = max(b.lo-1, 0)
}
func (b *bucket) success() {
	if !b.on {
		return
	}
	b.lo = min(b.lo+b.rate, b.max)
	b.hi = min(b.hi+b.rate, b.max)
}

// refused: (must, may) the retry be refused by throttling now.
func (b *bucket) refused() (must, may bool) {
	if !b.on {
		return false, false
	}
	return b.hi <= b.thr-b.eps, b.lo <= b.thr+b.eps
}

func effectiveCap(n int) int {
	if n < 2 {
		return 5
	}
	return n
}

func inCodes(pol *rig.Policy, c uint32) bool {
	if pol == nil {
		return false
	}
	for _, x := range pol.Codes {
		if x == c {
			return true
		}
	}
	return false
}

func run(t *testing.T, pl plan) vk.Result {
	p := pl.P
	var h *rig.History
	if msg := vk.Bubble(t, func(*testing.T) { h = rig.Exec(p) }); msg != "" {
		return vk.Bad("rig did not drain: %s", msg)
	}
	if h.Err != "" {
		return vk.Bad("rig failure: %s (service config %s)", h.Err, h.SC)
	}
	if len(h.RPCs) != len(p.RPCs) {
		return vk.Bad("rig executed %d of %d RPCs", len(h.RPCs), len(p.RPCs))
	}
	res := vk.Result{}
	var bk bucket
	if p.Throttle != nil && !p.DisableRetry {
		m := ratF(p.Throttle.Max)
		bk = bucket{on: true, lo: m, hi: m, max: m, thr: m / 2, rate: ratF(p.Throttle.Ratio), eps: 1e-9}
		if exactF(p.Throttle.Max) && exactF(p.Throttle.Ratio) {
			bk.eps = 0
		}
	}
	nt := false
	for i, r := range h.RPCs {
		rp := p.RPCs[i]
		pol := rp.Policy
		bad := func(format string, args ...any) vk.Result {
			return vk.Bad("rpc %d (%s, policy %+v, cap %d, throttle %+v, buflimit %d): %s :: history %s", i, rp.Shape, pol, p.MaxCallAttempts, p.Throttle, rp.BufLimit, fmt.Sprintf(format, args...), h.Dump()).With(res.Classes...)
		}
		if r.NewErr != "" && len(r.Attempts) == 0 {
			return bad("stream creation failed before any attempt reached the server: %s", r.NewErr)
		}
		if len(r.Attempts) == 0 {
			return bad("no attempt reached the server")
		}
		limit := 256 * 1024
		if rp.BufLimit > 0 {
			limit = rp.BufLimit
		}
		cum := func(n int) int {
			s := 0
			for j := 0; j < n && j < len(rp.Msgs); j++ {
				s += 5 + rp.Msgs[j]
			}
			return s
		}
		maxAtt := 1
		if pol != nil && !p.DisableRetry {
			maxAtt = min(pol.MaxAttempts, effectiveCap(p.MaxCallAttempts))
			if effectiveCap(p.MaxCallAttempts) < pol.MaxAttempts {
				res = res.With("cap_binds")
			}
		}
		if len(r.Attempts) > maxAtt {
			return bad("%d attempts reached the server, effective maximum is %d", len(r.Attempts), maxAtt)
		}
		sentLo := 0 // messages the application certainly had buffered so far
		sentHi := 0
		wantCode := codes.Unknown
		wantCodeAlt := codes.Code(99) // second acceptable final code (99 = none)
		wantResp := -1 // attempt whose response message the application must have received
		for a := 0; a < len(r.Attempts); a++ {
			at := r.Attempts[a]
			sc := at.Script
			last := a == len(r.Attempts)-1
			// -- what the attempt carried --
			if a == 0 && len(at.Prev) != 0 {
				return bad("first attempt carries grpc-previous-rpc-attempts %q", at.Prev)
			}
			if a > 0 && (len(at.Prev) != 1 || at.Prev[0] != strconv.Itoa(a)) {
				return bad("attempt %d carries grpc-previous-rpc-attempts %q, want [%d]", a, at.Prev, a)
			}
			if len(at.Msgs) > len(rp.Msgs) {
				return bad("attempt %d delivered %d messages to the server, the application sent %d", a, len(at.Msgs), len(rp.Msgs))
			}
			for j, m := range at.Msgs {
				if !bytes.Equal(m, rig.Msg(i, j, rp.Msgs[j])) {
					return bad("attempt %d: message %d differs from the %d-th message the application sent (got %d bytes %x)", a, j, j, len(m), m)
				}
			}
			if at.HalfClose {
				if !(rp.CloseSend || rp.Shape == rig.Unary) {
					return bad("attempt %d saw a half-close the application never made", a)
				}
				if len(at.Msgs) != len(rp.Msgs) {
					return bad("attempt %d saw half-close after %d messages, the application sent %d before CloseSend", a, len(at.Msgs), len(rp.Msgs))
				}
			}
			if at.RecvErr == "" && at.Ended || sc.Kind == rig.KHang {
				if sc.ReadN >= 0 && len(at.Msgs) != sc.ReadN && !at.HalfClose {
					return bad("attempt %d: server read %d messages, script wanted %d", a, len(at.Msgs), sc.ReadN)
				}
				if sc.ReadN < 0 && at.RecvErr == "" && !at.HalfClose {
					return bad("attempt %d: server drained without seeing half-close", a)
				}
			}
			if a > 0 && len(at.Msgs) >= 2 {
				nt = true
				res = res.With("replayed>=2msgs")
			}
			if at.HalfClose && a > 0 {
				res = res.With("replayed_halfclose")
			}
			// -- what must follow --
			readN := sc.ReadN
			if readN < 0 || readN > len(rp.Msgs) {
				readN = len(rp.Msgs)
			}
			sentLo = max(sentLo, readN)
			if sc.DelayNs > 0 || sc.Kind == rig.KHang {
				// Virtual time only advances once the application is blocked,
				// i.e. after it has sent everything it has to send.
				sentLo = len(rp.Msgs)
			}
			// sentHi: the most the application can have buffered when it
			// notices the failure. A settled application waits for quiescence
			// after every operation, so it is exactly as far as the server
			// let it get -- except that the operation which notices a failure
			// is re-executed on the new attempt without settling (one more
			// message may race with the new attempt's failure).
			if rp.Settle && rp.Shape != rig.Unary {
				if a == 0 {
					sentHi = sentLo
				} else {
					sentHi = max(sentLo, min(len(rp.Msgs), sentHi+1))
				}
			} else {
				sentHi = len(rp.Msgs)
			}
			commitMust := cum(sentLo) > limit
			commitMay := cum(sentHi) > limit
			if rp.BufLimit > 0 && !commitMay && cum(sentHi) == limit && sc.Kind == rig.KStatus && sc.Code != 0 {
				res = res.With("buffer_exactly_at_limit")
			}
			mustNot, must := false, false
			why := ""
			retryCode := inCodes(pol, sc.Code)
			switch {
			case sc.Kind == rig.KHang:
				mustNot, why = true, "attempt hung until the deadline"
				wantCode = codes.DeadlineExceeded
				if inCodes(pol, uint32(codes.DeadlineExceeded)) {
					bk.maybeFail()
				}
			case sc.Kind == rig.KMsgStatus || sc.Kind == rig.KHdrStatus:
				mustNot, why = true, "response headers/message were delivered (committed)"
				res = res.With("commit_by_response")
				wantCode = codes.Code(sc.Code)
				if sc.Kind == rig.KMsgStatus {
					wantResp = a
				}
				if sc.Code == 0 {
					if sc.Kind == rig.KHdrStatus && rp.Shape != rig.Bidi {
						wantCode = codes.Internal // OK without a response on a non-server-streaming RPC
					} else {
						bk.success()
					}
				} else if retryCode {
					bk.maybeFail() // counted by gRFC A6, not by an implementation that only counts retry candidates
				}
			case sc.Code == 0: // trailers-only OK
				mustNot, why = true, "attempt ended with OK"
				if rp.Shape == rig.Bidi {
					wantCode = codes.OK
					bk.success()
				} else {
					// The client turns "OK without a response" into an
					// INTERNAL failure of this attempt; whether a malformed
					// pushback on it costs a token is a matter of reading.
					wantCode = codes.Internal
					if _, ok := validPushback(sc.Pushback); len(sc.Pushback) > 0 && !ok && !p.DisableRetry {
						bk.maybeFail()
					}
				}
			default: // trailers-only failure: the only retry candidate
				wantCode = codes.Code(sc.Code)
				_, okPB := validPushback(sc.Pushback)
				badPB := len(sc.Pushback) > 0 && !okPB
				switch {
				case p.DisableRetry:
					mustNot, why = true, "retries disabled"
					res = res.With("disable_retry")
				case commitMust:
					mustNot, why = true, "replay buffer limit exceeded (committed)"
					res = res.With("commit_by_buffer")
					if retryCode || badPB {
						bk.maybeFail()
					}
				case badPB:
					mustNot, why = true, "negative/malformed/multiple pushback"
					res = res.With("pushback_bad")
					if commitMay {
						bk.maybeFail()
					} else {
						bk.fail()
					}
				case pol == nil:
					mustNot, why = true, "no retry policy"
					res = res.With("no_policy")
				case !retryCode:
					mustNot, why = true, "status code not in retryableStatusCodes"
					res = res.With("code_not_retryable")
				default:
					if commitMay {
						bk.maybeFail()
					} else {
						bk.fail()
					}
					rMust, rMay := bk.refused()
					switch {
					case rMust && !commitMay:
						mustNot, why = true, "throttled (bucket <= maxTokens/2)"
						res = res.With("throttled")
					case rMust:
						mustNot, why = true, "throttled or committed"
						res = res.With("throttled")
					case a+1 >= maxAtt:
						mustNot, why = true, "maxAttempts reached"
						res = res.With("max_attempts_exhausted")
					case rMay || commitMay:
						res = res.With("ambiguous_retry")
					default:
						must = true
						if okPB {
							res = res.With("retry_with_pushback")
						} else {
							res = res.With("retry_with_backoff")
						}
					}
				}
			}
			if mustNot && !last {
				return bad("attempt %d must not be retried (%s) but attempt %d reached the server", a, why, a+1)
			}
			if must && last {
				// The deadline is far beyond every backoff in the plan.
				return bad("attempt %d (trailers-only code %d, pushback %q) must be retried under the policy but no further attempt reached the server; application saw %v %q", a, sc.Code, sc.Pushback, r.Code, r.ErrMsg)
			}
			if !last {
				// Branch taken: a retry happened, so the RPC was not committed;
				// an ambiguous bucket is narrowed to the values that allow it.
				if bk.on && bk.lo <= bk.thr && bk.hi > bk.thr {
					bk.lo = bk.hi // the only value of the two readings that allows the retry
				}
				wantResp = -1
			} else if !mustNot && !must {
				// Ambiguous and no retry followed: either committed by buffer or
				// throttled. Narrow the bucket only if commit cannot explain it.
				if bk.on && !commitMay && bk.hi > bk.thr {
					bk.hi = bk.thr
				}
			}
		}
		_ = wantCodeAlt
		if la := r.Attempts[len(r.Attempts)-1]; r.Code != wantCode && len(r.Attempts) >= 2 && la.Script.Kind == rig.KStatus && la.Script.Code != 0 &&
			len(la.Msgs) < len(rp.Msgs) && (r.Code == codes.OK || r.Code == codes.Unknown && strings.Contains(r.ErrMsg, "EOF")) {
			// Known shape: the retry attempt failed while a replayed send was
			// in progress; the send's io.EOF replaces the attempt's status.
			v := bad("retry attempt %d ended with status %v while the replay was still sending, but the application saw %v (%q): the io.EOF of the replayed send replaced the RPC status", len(r.Attempts)-1, wantCode, r.Code, r.ErrMsg)
			v.Sig = sigReplayEOF
			return v.With("replay_send_eof_masks_status")
		}
		if r.Code != wantCode {
			return bad("application saw %v (%q), reference model says %v", r.Code, r.ErrMsg, wantCode)
		}
		if wantResp >= 0 {
			if len(r.Resp) != 1 || !bytes.Equal(r.Resp[0], rig.Resp(i, wantResp)) {
				if !(rp.Shape != rig.Bidi && wantCode != codes.OK) { // unary/client-streaming surface only the error
					return bad("application received responses %q, want exactly the one of attempt %d", r.Resp, wantResp)
				}
			}
		} else if len(r.Resp) != 0 {
			return bad("application received %d response messages although no attempt that sent one was committed", len(r.Resp))
		}
		if len(r.Attempts) >= 2 {
			res = res.With("retried")
		}
		res = res.With(fmt.Sprintf("attempts_%d", len(r.Attempts)))
		res.Steps += len(r.Attempts)
	}
	res.NonTrivial = nt
	return res
}

func TestVerifC18Retry(t *testing.T) {
	vk.Check(t, vk.Unit[plan]{
		ID: "C18", Name: "retry",
		Rule: "1-4(7) sequential RPCs (unary / client-streaming / bidi, 0-5 messages, CloseSend or not, settled or free-running application) on one real ClientConn+Server over bufconn in a synctest bubble; per-method retryPolicy (maxAttempts 2-6, 1-3 codes) or none, WithMaxCallAttempts in {default,1,-1,2,3,4,7}, optional retryThrottling, WithDisableRetry, MaxRetryRPCBufferSize around the request size; per attempt the server reads k messages (or drains) and answers trailers-only / headers+status / message+status / hangs, with code in/out of the policy and pushback absent/valid/negative/malformed/double. Oracle: A6 reference model (must / must-not / may retry), per-attempt grpc-previous-rpc-attempts, byte-exact prefix replay and half-close, final status and response. non-trivial = some retry attempt delivered >= 2 replayed messages to the server",
		Gen:  gen, Run: run,
	})
}
