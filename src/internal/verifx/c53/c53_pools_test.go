package c53_test

// C53 (pools unit): Get(n) returns length n with capacity >= n for every pool
// implementation and size configuration, zeroing pools hand out only zeros
// even after a dirty Put, no pool hands out memory that is still outstanding.

import (
	"fmt"
	"runtime/debug"
	"sort"
	"testing"
	"unsafe"

	imem "google.golang.org/grpc/internal/mem"
	"google.golang.org/grpc/internal/verifkit/trackpool"
	"google.golang.org/grpc/internal/verifkit/vk"
	"google.golang.org/grpc/mem"
	"pgregory.net/rapid"
)

type pop struct {
	K   string `json:"k"`             // "get" | "put"
	N   int    `json:"n,omitempty"`   // get: length
	A   int    `json:"a,omitempty"`   // put: k-th outstanding buffer
	Cut int    `json:"cut,omitempty"` // put: shorten to a prefix first (0 = no)
}

type poolPlan struct {
	Kind  string `json:"kind"`
	Sizes []int  `json:"sizes"` // tier sizes (tiered) or exponents (binary)
	Ops   []pop  `json:"ops"`
}

var poolKinds = []string{"tiered", "tiered", "pubtiered", "binary", "binary", "pubbinary", "dirtybinary", "defaultcfg", "simpledirty", "simplezero", "nop"}

func zeroing(kind string) bool {
	switch kind {
	case "dirtybinary", "simpledirty", "simplezero":
		// simplezero is the zero value of SimpleBufferPool, which does not zero
		return false
	}
	return true
}

func tierSizes(p poolPlan) []int {
	var out []int
	switch p.Kind {
	case "tiered", "pubtiered":
		out = append(out, p.Sizes...)
	case "binary", "pubbinary", "dirtybinary":
		for _, e := range p.Sizes {
			out = append(out, 1<<uint(e))
		}
	case "defaultcfg":
		out = []int{1 << 8, 1 << 12, 1 << 14, 1 << 15, 1 << 20}
	}
	sort.Ints(out)
	return out
}

func genPoolPlan(rt *rapid.T) poolPlan {
	p := poolPlan{Kind: rapid.SampledFrom(poolKinds).Draw(rt, "kind")}
	maxExp := vk.Pick(14, 20)
	switch p.Kind {
	case "tiered", "pubtiered":
		n := rapid.IntRange(0, 5).Draw(rt, "ntiers")
		for i := 0; i < n; i++ {
			switch rapid.IntRange(0, 3).Draw(rt, "szkind") {
			case 0:
				p.Sizes = append(p.Sizes, 1<<uint(rapid.IntRange(0, maxExp).Draw(rt, "exp")))
			case 1:
				p.Sizes = append(p.Sizes, 1<<uint(rapid.IntRange(0, maxExp).Draw(rt, "exp"))+rapid.IntRange(-1, 1).Draw(rt, "d"))
			case 2:
				p.Sizes = append(p.Sizes, rapid.IntRange(0, 40).Draw(rt, "small"))
			default:
				p.Sizes = append(p.Sizes, rapid.IntRange(0, 1<<uint(maxExp)).Draw(rt, "any"))
			}
		}
	case "binary", "pubbinary", "dirtybinary":
		n := rapid.IntRange(0, 6).Draw(rt, "ntiers")
		for i := 0; i < n; i++ {
			if rapid.IntRange(0, 5).Draw(rt, "bigexp") == 0 {
				p.Sizes = append(p.Sizes, rapid.IntRange(0, maxExp).Draw(rt, "exp"))
			} else {
				p.Sizes = append(p.Sizes, rapid.IntRange(0, 13).Draw(rt, "exp"))
			}
		}
	}
	tiers := tierSizes(p)
	nops := rapid.IntRange(1, vk.Pick(40, 200)).Draw(rt, "nops")
	for i := 0; i < nops; i++ {
		if rapid.IntRange(0, 9).Draw(rt, "isput") < 4 {
			o := pop{K: "put", A: rapid.IntRange(0, 7).Draw(rt, "a")}
			if rapid.IntRange(0, 2).Draw(rt, "cut") == 0 {
				o.Cut = rapid.IntRange(1, 1<<16).Draw(rt, "cutn")
			}
			p.Ops = append(p.Ops, o)
			continue
		}
		o := pop{K: "get"}
		switch k := rapid.IntRange(0, 9).Draw(rt, "nkind"); {
		case k <= 4 && len(tiers) > 0: // at a tier boundary
			tier := rapid.SampledFrom(tiers).Draw(rt, "tier")
			if tier > 1<<16 && rapid.IntRange(0, 7).Draw(rt, "bigtier") != 0 {
				tier = tiers[0] // huge tiers are expensive to touch: visit them rarely
			}
			o.N = max(0, tier+rapid.IntRange(-1, 1).Draw(rt, "d"))
		case k == 5:
			o.N = rapid.SampledFrom([]int{0, 1, 2, 4095, 4096, 4097}).Draw(rt, "special")
		case k == 6 && len(tiers) > 0: // beyond the largest tier
			o.N = tiers[len(tiers)-1] + rapid.IntRange(1, 9000).Draw(rt, "beyond")
		case k == 7:
			o.N = 1<<uint(rapid.IntRange(0, maxExp).Draw(rt, "exp")) + rapid.IntRange(-1, 1).Draw(rt, "d")
		default:
			o.N = rapid.IntRange(0, 6000).Draw(rt, "n")
		}
		p.Ops = append(p.Ops, o)
	}
	return p
}

func buildPool(p poolPlan) (trackpool.BufferPool, error) {
	sizes := append([]int(nil), p.Sizes...)
	exps := make([]uint8, len(p.Sizes))
	for i, e := range p.Sizes {
		exps[i] = uint8(e)
	}
	switch p.Kind {
	case "tiered":
		return imem.NewTieredBufferPool(sizes...), nil
	case "pubtiered":
		return mem.NewTieredBufferPool(sizes...), nil
	case "binary":
		return imem.NewBinaryTieredBufferPool(exps...)
	case "pubbinary":
		return mem.NewBinaryTieredBufferPool(exps...)
	case "dirtybinary":
		return imem.NewDirtyBinaryTieredBufferPool(exps...)
	case "defaultcfg":
		return mem.NewBinaryTieredBufferPool(8, 12, 14, 15, 20)
	case "simpledirty":
		return imem.NewDirtySimplePool(), nil
	case "simplezero":
		return &imem.SimpleBufferPool{}, nil
	case "nop":
		return mem.NopBufferPool{}, nil
	}
	return nil, fmt.Errorf("unknown kind %q", p.Kind)
}

func runPool(_ *testing.T, p poolPlan) (res vk.Result) {
	defer func() {
		if r := recover(); r != nil {
			res = vk.Bad("panic: %v\n%s", r, debug.Stack())
		}
	}()
	inner, err := buildPool(p)
	if err != nil {
		return vk.Bad("constructor failed for sizes %v: %v", p.Sizes, err)
	}
	tp := trackpool.New(trackpool.Options{Inner: inner})
	tiers := tierSizes(p)
	zero := zeroing(p.Kind)
	var out []*[]byte
	released := map[uintptr]bool{} // base addresses of buffers put back dirty
	classes := map[string]bool{"kind_" + p.Kind: true}
	reusedDirty, gets := 0, 0
	for i, o := range p.Ops {
		switch o.K {
		case "get":
			hdr := tp.Get(o.N)
			gets++
			if hdr == nil {
				return vk.Bad("op %d: Get(%d) returned nil", i, o.N)
			}
			b := *hdr
			if len(b) != o.N {
				return vk.Bad("op %d: Get(%d) returned length %d (cap %d) from %s%v", i, o.N, len(b), cap(b), p.Kind, p.Sizes)
			}
			if cap(b) < o.N {
				return vk.Bad("op %d: Get(%d) returned capacity %d", i, o.N, cap(b))
			}
			full := b[:cap(b)]
			var base uintptr
			if cap(b) > 0 {
				base = uintptr(unsafe.Pointer(unsafe.SliceData(full)))
			}
			wasDirty := base != 0 && released[base]
			if wasDirty {
				reusedDirty++
				delete(released, base)
			}
			if zero {
				if j := trackpool.FirstNot(full, 0); j >= 0 {
					v := full[j]
					{
						where := "within the requested length"
						if j >= o.N {
							where = "beyond the length, within the capacity"
						}
						return vk.Bad("op %d: zeroing pool %s%v: Get(%d) returned non-zero byte %#x at %d of cap %d (%s; recycled dirty buffer: %v)", i, p.Kind, p.Sizes, o.N, v, j, cap(b), where, wasDirty)
					}
				}
			}
			// the caller writes all over the buffer
			if len(full) > 0 {
				full[0] = 0xAB
				for n := 1; n < len(full); n *= 2 {
					copy(full[n:], full[:n])
				}
			}
			out = append(out, hdr)
			// classes: which tier served the request
			switch {
			case len(tiers) == 0:
			case o.N > tiers[len(tiers)-1] || (o.N == 0 && p.Kind != "tiered" && p.Kind != "pubtiered"):
				classes["served_by_fallback"] = true
			default:
				k := sort.SearchInts(tiers, o.N)
				if k < len(tiers) && cap(b) == tiers[k] {
					classes["served_by_smallest_fitting_tier"] = true
					if o.N == tiers[k] {
						classes["get_exactly_tier_size"] = true
					}
				} else {
					classes["served_with_other_capacity"] = true
				}
			}
		case "put":
			if len(out) == 0 {
				continue
			}
			k := o.A % len(out)
			hdr := out[k]
			out = append(out[:k], out[k+1:]...)
			if cap(*hdr) > 0 {
				released[uintptr(unsafe.Pointer(unsafe.SliceData((*hdr)[:cap(*hdr)])))] = true
			}
			if o.Cut > 0 && len(*hdr) > 0 {
				*hdr = (*hdr)[:len(*hdr)-1-(o.Cut-1)%len(*hdr)]
				classes["put_prefix"] = true
			}
			tp.Put(hdr)
		}
		if v := tp.Violations(); len(v) > 0 {
			return vk.Bad("op %d %+v on %s%v: %s", i, o, p.Kind, p.Sizes, v[0])
		}
	}
	if reusedDirty > 0 {
		classes["recycled_dirty_buffer"] = true
		if zero {
			classes["recycled_dirty_buffer_zeroing_pool"] = true
		}
	}
	res = vk.Result{NonTrivial: reusedDirty > 0 && (zero || gets > 1), Steps: len(p.Ops)}
	for c := range classes {
		res.Classes = append(res.Classes, c)
	}
	sort.Strings(res.Classes)
	return res
}

func TestVerifC53Pools(t *testing.T) {
	vk.Check(t, vk.Unit[poolPlan]{
		ID: "C53", Name: "pools",
		Rule: "pool kinds {TieredBufferPool (internal+public ctor) with 0-5 arbitrary sizes incl. 0, duplicates, 2^k±1; BinaryTieredBufferPool (zeroing, dirty, public ctor, default config) with 0-6 exponents incl. duplicates; SimpleBufferPool (dirty ctor, zero value); NopBufferPool}; ops Get(n) with n at tier boundaries ±1, 0, beyond the largest tier, and Put of the k-th outstanding buffer (optionally shortened to a prefix) after the caller dirtied the whole capacity. non-trivial = a previously dirtied-and-Put buffer was handed out again",
		Gen:  genPoolPlan, Run: runPool,
	})
}
